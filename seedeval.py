#!/usr/bin/env python3
"""seedeval.py <seed-id> <property> <dir with patch.diff, demo_test.go, README.md> [--tier quick|thorough] [--also C01,C02]

Confirms a seeded change (applies to a scratch worktree of /repo, suite green,
demonstration fails with it and passes without it), runs the property's check
against the changed tree, and records everything in /verif/seeded/<seed-id>/.
Nothing is ever applied to /repo itself: the check is pointed at the scratch
worktree with VERIF_REPO.
"""
import json, os, re, shutil, subprocess, sys, time

ENV = dict(os.environ, GOFLAGS="-mod=mod", GOPROXY="off", GOSUMDB="off", GOTOOLCHAIN="local")


def sh(cmd, cwd=None, timeout=3600, env=None):
    p = subprocess.run(cmd, shell=True, cwd=cwd, env=env or ENV, text=True,
                       stdout=subprocess.PIPE, stderr=subprocess.STDOUT, timeout=timeout)
    return p.returncode, p.stdout


def main():
    sid, prop, src = sys.argv[1:4]
    tier = "quick"
    also = []
    race = ""
    args = sys.argv[4:]
    while args:
        a = args.pop(0)
        if a == "--tier":
            tier = args.pop(0)
        elif a == "--also":
            also = args.pop(0).split(",")
        elif a == "--race":
            race = "-race "
    patch = os.path.join(src, "patch.diff")
    demo = os.path.join(src, "demo_test.go")
    out = os.path.join("/verif/seeded", sid)
    os.makedirs(out, exist_ok=True)
    meta = dict(id=sid, property=prop, ran=[], repo_head=sh("git -C /repo rev-parse --short HEAD")[1].strip())
    wt, wt0 = "/tmp/ev-%s" % sid, "/tmp/ev-%s-clean" % sid
    for d in (wt, wt0):
        sh("git -C /repo worktree remove --force %s" % d)
        shutil.rmtree(d, ignore_errors=True)
        rc, o = sh("git -C /repo worktree add -q --detach %s HEAD" % d)
        if rc:
            print(o); return 2
    try:
        rc, o = sh("git apply %s" % patch, cwd=wt)
        if rc:
            rc, o = sh("git apply --3way %s" % patch, cwd=wt)
        meta["ran"].append("git apply patch.diff (scratch worktree of /repo HEAD %s): rc=%d" % (meta["repo_head"], rc))
        if rc:
            print("PATCH DOES NOT APPLY", o); meta["status"] = "patch-does-not-apply"; return 3
        rc, o = sh("go build ./... && go test -vet=off -count=1 ./... 2>&1 | grep -v '^ok\\|no test files'", cwd=wt)
        suite_green = o.strip() == ""
        meta["suite_green_with_change"] = suite_green
        meta["ran"].append("go test -vet=off -count=1 ./... with the change: %s" % ("all ok" if suite_green else o[-400:]))
        # demonstration
        first = open(demo).readline()
        m = re.search(r"/tmp/seed-c\d+(/[\w/.\-]+)?", first)
        if m:
            ddir = (m.group(1) or ".").strip("/") or "."
        else:
            m = re.search(r"copy to (\S+)", first)
            tok = m.group(1) if m else "."
            ddir = "." if tok in ("the", "module", "root", "repo", "repository") else tok.strip("/")
            ddir = ddir.replace("<repo>/", "") or "."
        m = re.search(r"as (\S+_test\.go)", first)
        dname = m.group(1) if m else "zz_demo_test.go"
        tests = re.findall(r"^func (Test\w+)\(", open(demo).read(), re.M)
        run = "^(%s)$" % "|".join(tests)
        res = {}
        for label, d in (("with", wt), ("without", wt0)):
            os.makedirs(os.path.join(d, ddir), exist_ok=True)
            shutil.copyfile(demo, os.path.join(d, ddir, dname))
            rc, o = sh("go test %s-vet=off -count=1 -run '%s' ./%s" % (race, run, ddir), cwd=d, timeout=1200)
            res[label] = rc
            meta["ran"].append("demo (go test %s-run %s ./%s) %s the change: rc=%d" % (race, run, ddir, label, rc))
            os.remove(os.path.join(d, ddir, dname))
        meta["demo_fails_with_change"] = res["with"] != 0
        meta["demo_passes_without_change"] = res["without"] == 0
        confirmed = suite_green and res["with"] != 0 and res["without"] == 0
        meta["confirmed"] = confirmed
        # the checks
        meta["checks"] = {}
        for p in [prop] + also:
            t0 = time.time()
            env = dict(ENV, VERIF_REPO=wt)
            rc, o = sh("./check %s --tier %s" % (p, tier), cwd="/verif", env=env, timeout=7200)
            viol = [l for l in o.splitlines() if l.startswith("VIOLATION")]
            meta["checks"][p] = dict(tier=tier, exit=rc, violation_lines=viol[:3], wall_s=round(time.time() - t0, 1),
                                     tail=o.splitlines()[-1] if o else "")
            meta["ran"].append("VERIF_REPO=<worktree with the change> ./check %s --tier %s: exit %d" % (p, tier, rc))
            # keep the replay produced by the detecting run next to the seed
            for l in viol[:1]:
                rp = l.split("replay=")[-1].strip()
                if os.path.exists(os.path.join("/verif", rp)):
                    shutil.copyfile(os.path.join("/verif", rp), os.path.join(out, "replay-" + os.path.basename(rp)))
        meta["detected_by"] = [p for p, v in meta["checks"].items() if v["exit"] == 1]
        same = os.path.realpath(src) == os.path.realpath(out)
        if not same:
            shutil.copyfile(patch, os.path.join(out, "patch.diff"))
            shutil.copyfile(demo, os.path.join(out, "demo_test.go"))
        rd = os.path.join(src, "README.md")
        if os.path.exists(rd):
            txt = open(rd).read()
            meta["needs"] = txt[:3000]
            if not same:
                shutil.copyfile(rd, os.path.join(out, "README.md"))
        prev = os.path.join(out, "meta.json")
        if os.path.exists(prev):
            try:
                old = json.load(open(prev))
                meta.setdefault("history", old.get("history", []))
                meta["history"].append({k: old.get(k) for k in ("repo_head", "checks", "detected_by")})
            except Exception:
                pass
        json.dump(meta, open(prev, "w"), indent=1)
        print(json.dumps({k: meta[k] for k in ("id", "property", "confirmed", "suite_green_with_change",
                                                "demo_fails_with_change", "demo_passes_without_change", "detected_by")}))
        for p, v in meta["checks"].items():
            print("  %s: exit=%d %s (%.0fs)" % (p, v["exit"], v["violation_lines"][:1], v["wall_s"]))
    finally:
        for d in (wt, wt0):
            sh("git -C /repo worktree remove --force %s" % d)
            shutil.rmtree(d, ignore_errors=True)
        sh("git -C /repo worktree prune")
    return 0


if __name__ == "__main__":
    sys.exit(main())
