#!/usr/bin/env python3
"""applyfix.py <property> <diff file> <commit message> <what failed>
Applies a proposed diff to /repo as one 'fix:' commit (after build + test
suite) and records it in known-findings.txt."""
import subprocess, sys
prop, diff, msg, what = sys.argv[1:5]
def sh(c, **kw):
    return subprocess.run(c, shell=True, cwd="/repo", text=True, capture_output=True, **kw)
r = sh("git apply --check %s" % diff)
if r.returncode != 0:
    r = sh("git apply --3way %s" % diff)
    if r.returncode != 0:
        print("APPLY FAILED", diff, r.stderr); sys.exit(1)
else:
    sh("git apply %s" % diff)
r = sh("gofmt -l . ; go build ./... && go test -vet=off -count=1 ./... 2>&1 | grep -v '^ok\\|no test files'")
if r.stdout.strip() or r.stderr.strip():
    print("BUILD/TEST OUTPUT:", r.stdout, r.stderr)
    sh("git checkout -- . ; git reset -q")
    sys.exit(1)
if not msg.startswith("fix:"):
    msg = "fix: " + msg
r = sh("git add -A && git commit -q -m %r" % msg)
h = sh("git log --format=%h -1").stdout.strip()
open("/verif/known-findings.txt", "a").write("fixed: property=%s %s %s\n" % (prop, h, what))
print("committed", h, msg)
