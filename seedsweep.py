#!/usr/bin/env python3
"""seedsweep.py <VERIF_SEED> [jobs] [regex]  - robustness of the detections: every confirmed and detected
seeded change is run again at another VERIF_SEED (first only the test that detected it, then - if that
stays silent - the whole quick tier of its property).  Results go to seeded/robustness.json
(sid -> {seed: "test"|"full"|"MISSED"}); marginal detections are the ones to strengthen."""
import json, os, re, subprocess, sys, threading, concurrent.futures as cf

vseed = sys.argv[1]
jobs = int(sys.argv[2]) if len(sys.argv) > 2 else 3
rx = re.compile(sys.argv[3]) if len(sys.argv) > 3 else None
HOME = os.environ.get("VERIF_HOME", "/verif")
OUT = HOME + "/seeded/robustness.json"
lock = threading.Lock()
res = json.load(open(OUT)) if os.path.exists(OUT) else {}


def run(sid, only, prop=None):
    env = dict(os.environ, VERIF_SEED=vseed)
    if prop:
        env["PROP"] = prop      # a change recorded under one property and detected by another's check
    cmd = [HOME + "/seedrun.sh", sid] + (["--only", "^%s$" % only] if only else [])
    for attempt in range(3):
        p = subprocess.run(cmd, env=env, stdout=subprocess.PIPE, stderr=subprocess.STDOUT, text=True)
        if p.returncode in (0, 1):
            return p.returncode
    return p.returncode


def one(sid):
    m = json.load(open(HOME + "/seeded/%s/meta.json" % sid))
    prop = m["property"]
    if prop not in m.get("detected_by", [prop]):
        prop = m["detected_by"][0]
    v = m["checks"].get(prop, {})
    test = None
    if v.get("violation_lines"):
        name = v["violation_lines"][0].split("/")[-1]
        t = re.sub(r"--.*", "", name)
        if t.startswith("Test") and "Replay" not in t:
            test = t
    out = None
    if test:
        rc = run(sid, test, prop)
        if rc == 1:
            out = "test:" + test
    if out is None:
        rc = run(sid, None, prop)
        out = "full" if rc == 1 else ("MISSED" if rc == 0 else "rc=%d" % rc)
    with lock:
        res.setdefault(sid, {})[vseed] = out
        json.dump(res, open(OUT, "w"), indent=0, sort_keys=True)
    print(sid, out, flush=True)


todo = []
for d in sorted(os.listdir(HOME + "/seeded")):
    mp = HOME + "/seeded/%s/meta.json" % d
    if not os.path.exists(mp) or (rx and not rx.search(d)):
        continue
    m = json.load(open(mp))
    if not m.get("confirmed") or not m.get("detected_by"):
        continue
    if vseed in res.get(d, {}):
        continue
    todo.append(d)
with cf.ThreadPoolExecutor(jobs) as ex:
    list(ex.map(one, todo))
