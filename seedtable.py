#!/usr/bin/env python3
"""seedtable.py - renders /verif/seeded/*/meta.json as seeded/SUMMARY.md
(one row per seeded change: files touched, what it needs, which check caught
it in which tier, and the test named in the replay)."""
import json, os, re

rows = []
for d in sorted(os.listdir("/verif/seeded")):
    mp = os.path.join("/verif/seeded", d, "meta.json")
    if not os.path.exists(mp):
        continue
    m = json.load(open(mp))
    files = [l[6:].strip() for l in open(os.path.join("/verif/seeded", d, "patch.diff")) if l.startswith("+++ b/")]
    det = []
    for p, v in m.get("checks", {}).items():
        if v["exit"] == 1:
            t = ""
            if v["violation_lines"]:
                t = re.sub(r"--.*", "", v["violation_lines"][0].split("/")[-1])
            det.append("%s %s (%s)" % (p, v["tier"], t))
    missed = [p for p, v in m.get("checks", {}).items() if v["exit"] != 1]
    hist = m.get("history", [])
    first_missed = any(h.get("detected_by") == [] for h in hist)
    rows.append((d, m["property"], ", ".join(files), "yes" if m.get("confirmed") else "NO", "; ".join(det) or "-",
                 ", ".join(missed) or "-", "strengthened after a miss" if first_missed and det else ""))

out = ["# Seeded changes", "",
       "Each row is one change produced by a sub-agent that saw only the property text and a scratch worktree,",
       "confirmed here (suite green with it, demonstration fails with it and passes without it) and then run",
       "against the checks with `VERIF_REPO=<worktree> ./check <id>`; see `<id>/README.md` for what it needs to manifest.", "",
       "| seed | property | files | confirmed | detected by (tier, test) | run but silent | note |", "|---|---|---|---|---|---|---|"]
for r in rows:
    out.append("| " + " | ".join(r) + " |")
n = len(rows)
nd = sum(1 for r in rows if r[4] != "-")
out += ["", "%d seeded changes, %d detected by at least one check." % (n, nd), ""]
open("/verif/seeded/SUMMARY.md", "w").write("\n".join(out))
print("\n".join(out[-3:]))
