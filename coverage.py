#!/usr/bin/env python3
"""coverage.py [dir] - diagnostic, not a check.

Merges the Go cover profiles that `VERIF_COVER=<dir> ./check <ID>` leaves behind
(one per job; the test binaries are then built with -cover
-coverpkg=seehuhn.de/go/sfnt/...) and reports, per library source file and per
function, which statements the generated cases never executed.  Used to find
generator gaps: a branch of the anchored code no case reaches is a class with
zero mass whatever the labels say.

  VERIF_COVER=/verif/.cover ./check C09 --tier quick
  ./coverage.py /verif/.cover [--by-prop] [--file REGEX] [--min-missed N]
"""
import collections, glob, os, re, subprocess, sys

args = sys.argv[1:]
d = "/verif/.cover"
fre = None
minmiss = 1
while args:
    a = args.pop(0)
    if a == "--file":
        fre = re.compile(args.pop(0))
    elif a == "--min-missed":
        minmiss = int(args.pop(0))
    else:
        d = a

blocks = collections.defaultdict(int)   # (file, startline, startcol, endline, endcol, nstmt) -> count
for f in glob.glob(os.path.join(d, "*.out")):
    for line in open(f):
        if line.startswith("mode:"):
            continue
        m = re.match(r"(.+):(\d+)\.(\d+),(\d+)\.(\d+) (\d+) (\d+)$", line.strip())
        if not m:
            continue
        k = (m.group(1), int(m.group(2)), int(m.group(3)), int(m.group(4)), int(m.group(5)), int(m.group(6)))
        blocks[k] += int(m.group(7))

REPO = os.environ.get("VERIF_REPO", "/repo")
PFX = "seehuhn.de/go/sfnt/"

# function extents from the source (cheap: `func ` at column 0 to the next one)
def funcs(path):
    out = []
    try:
        lines = open(path).read().split("\n")
    except OSError:
        return out
    cur = None
    for i, l in enumerate(lines, 1):
        m = re.match(r"func\s+(\([^)]*\)\s*)?([A-Za-z0-9_]+)", l)
        if m:
            if cur:
                out.append((cur[0], cur[1], i - 1))
            recv = re.sub(r"[()*\s]|\b\w+\s+", "", m.group(1) or "")
            cur = ((recv + "." if recv else "") + m.group(2), i)
    if cur:
        out.append((cur[0], cur[1], len(lines)))
    return out

byfile = collections.defaultdict(list)
for k, c in blocks.items():
    if k[0].startswith(PFX) or k[0].startswith("seehuhn.de/go/sfnt"):
        rel = k[0][len(PFX):] if k[0].startswith(PFX) else k[0]
        byfile[rel].append((k, c))

tot = cov = 0
rows = []
for rel in sorted(byfile):
    if fre and not fre.search(rel):
        continue
    fs = funcs(os.path.join(REPO, rel))
    per = collections.OrderedDict()
    for (k, c) in sorted(byfile[rel], key=lambda x: x[0][1:]):
        tot += k[5]
        cov += k[5] if c else 0
        name = "?"
        for fn, a, b in fs:
            if a <= k[1] <= b:
                name = fn
                break
        e = per.setdefault(name, [0, 0, []])
        e[0] += k[5]
        if not c:
            e[1] += k[5]
            e[2].append("%d-%d" % (k[1], k[3]) if k[3] != k[1] else str(k[1]))
    ft = sum(e[0] for e in per.values())
    fm = sum(e[1] for e in per.values())
    rows.append((rel, ft, fm, per))

for rel, ft, fm, per in rows:
    if fm < minmiss:
        continue
    print("%s: %d/%d statements never executed" % (rel, fm, ft))
    for fn, (t, m, ls) in per.items():
        if m:
            print("    %-40s %3d/%-3d lines %s" % (fn, m, t, " ".join(ls[:14]) + (" ..." if len(ls) > 14 else "")))
print("TOTAL %d/%d statements executed (%.1f%%)" % (cov, tot, 100.0 * cov / max(tot, 1)))
