#!/bin/sh
# Offline setup: verify the toolchain and pre-compile the claimed checks so
# that the first run of each is fast.  Nothing is fetched.  A package that
# does not compile here is reported but does not fail the setup: every check
# rebuilds from /repo's working tree anyway and reports its own state.
export GOFLAGS=-mod=mod GOPROXY=off GOSUMDB=off GOTOOLCHAIN=local
cd /verif/harness || exit 1
go version || exit 1
mkdir -p /verif/.run/setup /verif/evidence
for id in $(cat /verif/claimed.txt); do
  pkg=$(python3 -c "import json;print(json.load(open('/verif/props.d/$id.json'))['pkg'])" 2>/dev/null) || continue
  race=$(python3 -c "import json;print('-race' if json.load(open('/verif/props.d/$id.json')).get('race') else '')" 2>/dev/null)
  if ! go test -c -vet=off -tags verif $race -o /verif/.run/setup/$pkg.test ./checks/$pkg >/verif/.run/setup/$pkg.log 2>&1; then
    echo "setup: warning: $pkg does not build:"; tail -5 /verif/.run/setup/$pkg.log
  fi
done
rm -rf /verif/.run/setup
echo setup ok
