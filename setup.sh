#!/bin/sh
# Offline setup: verify the toolchain and pre-compile the harness so that the
# first check is fast.  Nothing is fetched.
set -e
export GOFLAGS=-mod=mod GOPROXY=off GOSUMDB=off GOTOOLCHAIN=local
cd /verif/harness
go version
mkdir -p /verif/.run/setup /verif/evidence
for d in checks/*/; do
  n=$(basename "$d")
  go test -c -vet=off -tags verif -o /verif/.run/setup/$n.test ./checks/$n >/dev/null
done
rm -rf /verif/.run/setup
echo setup ok
