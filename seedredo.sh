#!/bin/bash
# seedredo.sh <SID>...  - evaluate recorded seeded changes again (from /verif/seeded/<SID>/), appending to their history
cd /verif
for sid in "$@"; do
  prop=${sid%%-*}
  extra=""
  [ "$prop" = "C16" ] && extra="--race"
  python3 seedeval.py $sid $prop /verif/seeded/$sid $extra 2>&1 | tail -2
done
