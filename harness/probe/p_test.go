package probe
import ("testing"; "pgregory.net/rapid"; _ "seehuhn.de/go/sfnt"; _ "golang.org/x/image/font/sfnt"; _ "golang.org/x/text/encoding/charmap"; _ "seehuhn.de/go/postscript/type1/names"; _ "seehuhn.de/go/geom/matrix")
func TestX(t *testing.T){ rapid.Check(t, func(t *rapid.T){ _ = rapid.Int().Draw(t,"x") }) }
