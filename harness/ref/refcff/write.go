package refcff

import (
	"fmt"
	"math"
	"strconv"
)

// FDSpec describes one Private DICT to write.
type FDSpec struct {
	DefaultWidthX float64
	NominalWidthX float64
	Subrs         [][]byte
	// OmitSubrs leaves out the Subrs operator (only sensible when Subrs is
	// empty); otherwise an INDEX is always written and referenced.
	OmitSubrs bool
	// SubrsOffsetReal selects the spelling of the Subrs offset operand, which
	// is a "number": 0 = integer, 1 = real "00001234", 2 = real "001234.0".
	SubrsOffsetReal int
}

// Spec describes a CFF font program to write.
type Spec struct {
	FontName    string
	CharStrings [][]byte
	GSubrs      [][]byte
	CID         bool
	FDs         []FDSpec // exactly one for a simple font
	FDSelect    []int    // CID only: FD index per glyph
	// FDSelectFormat is 0 or 3 (CID only).
	FDSelectFormat int
	// PredefCharset, for name-keyed fonts: 1 or 2 writes the charset operator
	// with the id of the Expert / ExpertSubset predefined charset (0: the
	// operator is omitted, which means ISOAdobe).
	PredefCharset int
	// IndexOffSize, when 1..4, is the offSize of every INDEX (raised where
	// the data needs more); 0 = the smallest possible.
	IndexOffSize int
	// Gap is a number of filler bytes written between the Private DICTs and
	// the local Subrs INDEXes, so that "offset relative to the Private DICT"
	// and "absolute offset" differ in more than a constant.
	Gap int
}

// AppendIndex appends an INDEX with the smallest possible offSize.
func AppendIndex(buf []byte, items [][]byte) []byte {
	return AppendIndexOffSize(buf, items, 0)
}

// IndexOffSize returns the offSize AppendIndexOffSize uses.
func IndexOffSize(items [][]byte, min int) int {
	total := 1
	for _, it := range items {
		total += len(it)
	}
	offSize := 1
	for total >= 1<<(8*offSize) {
		offSize++
	}
	if min > offSize && min <= 4 {
		offSize = min
	}
	return offSize
}

// AppendIndexOffSize appends an INDEX whose offSize is at least min.
func AppendIndexOffSize(buf []byte, items [][]byte, min int) []byte {
	n := len(items)
	buf = append(buf, byte(n>>8), byte(n))
	if n == 0 {
		return buf
	}
	offSize := IndexOffSize(items, min)
	buf = append(buf, byte(offSize))
	off := 1
	put := func(v int) {
		for i := offSize - 1; i >= 0; i-- {
			buf = append(buf, byte(v>>(8*i)))
		}
	}
	put(off)
	for _, it := range items {
		off += len(it)
		put(off)
	}
	for _, it := range items {
		buf = append(buf, it...)
	}
	return buf
}

// dictInt5 appends an integer in the five-byte form (fixed size, so that
// offsets can be patched without changing the layout).
func dictInt5(buf []byte, v int) []byte {
	u := uint32(int32(v))
	return append(buf, 29, byte(u>>24), byte(u>>16), byte(u>>8), byte(u))
}

func dictInt(buf []byte, v int) []byte {
	switch {
	case v >= -107 && v <= 107:
		return append(buf, byte(v+139))
	case v >= 108 && v <= 1131:
		v -= 108
		return append(buf, byte(v/256+247), byte(v%256))
	case v <= -108 && v >= -1131:
		v = -v - 108
		return append(buf, byte(v/256+251), byte(v%256))
	case v >= -32768 && v <= 32767:
		return append(buf, 28, byte(uint16(v)>>8), byte(v))
	}
	return dictInt5(buf, v)
}

// dictNumber appends an integer operand for integral values, a real operand
// (exact decimal expansion) otherwise.
func dictNumber(buf []byte, v float64) []byte {
	if v == math.Trunc(v) && math.Abs(v) < 1<<31 {
		return dictInt(buf, int(v))
	}
	s := strconv.FormatFloat(v, 'f', -1, 64)
	var nib []byte
	for _, c := range s {
		switch {
		case c >= '0' && c <= '9':
			nib = append(nib, byte(c-'0'))
		case c == '.':
			nib = append(nib, 10)
		case c == '-':
			nib = append(nib, 14)
		}
	}
	nib = append(nib, 15)
	if len(nib)%2 == 1 {
		nib = append(nib, 15)
	}
	buf = append(buf, 30)
	for i := 0; i < len(nib); i += 2 {
		buf = append(buf, nib[i]<<4|nib[i+1])
	}
	return buf
}

func dictOp(buf []byte, op int) []byte {
	if op >= 0x0c00 {
		return append(buf, 12, byte(op))
	}
	return append(buf, byte(op))
}

// Build writes the font program.
func Build(s Spec) []byte {
	n := len(s.CharStrings)
	name := s.FontName
	if name == "" {
		name = "Ref"
	}

	// Private DICTs (the Subrs offset is patched below; it has a fixed size)
	privs := make([][]byte, len(s.FDs))
	subrPatch := make([]int, len(s.FDs)) // position of the 5-byte operand, -1 if none
	for i, fd := range s.FDs {
		var p []byte
		if fd.DefaultWidthX != 0 {
			p = dictOp(dictNumber(p, fd.DefaultWidthX), OpDefaultWidthX)
		}
		if fd.NominalWidthX != 0 {
			p = dictOp(dictNumber(p, fd.NominalWidthX), OpNominalWidthX)
		}
		subrPatch[i] = -1
		if !(fd.OmitSubrs && len(fd.Subrs) == 0) {
			subrPatch[i] = len(p)
			if fd.SubrsOffsetReal != 0 {
				p = dictOp(append(p, 30, 0, 0, 0, 0, 0xff), OpSubrs) // fixed-size real, patched below
			} else {
				p = dictOp(dictInt5(p, 0), OpSubrs)
			}
		}
		privs[i] = p
	}

	// strings
	var strs [][]byte
	if s.CID {
		strs = [][]byte{[]byte("Adobe"), []byte("Identity")}
	}

	// Top DICT with placeholders
	var top []byte
	var pCharset, pFDSelect, pCharStrings, pFDArray, pPrivate int = -1, -1, -1, -1, -1
	if s.CID {
		top = dictInt(top, 391)
		top = dictInt(top, 392)
		top = dictInt(top, 0)
		top = dictOp(top, OpROS)
		top = dictOp(dictInt(top, n), OpCIDCount)
		pCharset = len(top)
		top = dictOp(dictInt5(top, 0), OpCharset)
		pFDArray = len(top)
		top = dictOp(dictInt5(top, 0), OpFDArray)
		pFDSelect = len(top)
		top = dictOp(dictInt5(top, 0), OpFDSelect)
	}
	if !s.CID && s.PredefCharset != 0 {
		top = dictOp(dictInt(top, s.PredefCharset), OpCharset)
	}
	pCharStrings = len(top)
	top = dictOp(dictInt5(top, 0), OpCharStrings)
	if !s.CID {
		pPrivate = len(top)
		top = dictInt5(top, len(privs[0]))
		top = dictInt5(top, 0)
		top = dictOp(top, OpPrivate)
	}

	out := []byte{1, 0, 4, 4}
	AppendIndex := func(buf []byte, items [][]byte) []byte { return AppendIndexOffSize(buf, items, s.IndexOffSize) }
	out = AppendIndex(out, [][]byte{[]byte(name)})
	topIndexPos := len(out)
	out = AppendIndex(out, [][]byte{top})
	topPos := topIndexPos + 2 + 1 + 2*IndexOffSize([][]byte{top}, s.IndexOffSize) // count, offSize, two offsets
	if len(top)+1 >= 256 {
		panic("refcff: top dict too long")
	}
	out = AppendIndex(out, strs)
	out = AppendIndex(out, s.GSubrs)

	set5 := func(pos, v int) {
		u := uint32(int32(v))
		out[pos+1], out[pos+2], out[pos+3], out[pos+4] = byte(u>>24), byte(u>>16), byte(u>>8), byte(u)
	}

	if s.CID {
		// charset format 2: CIDs 1..n-1 in one range
		set5(topPos+pCharset, len(out))
		out = append(out, 2)
		if n > 1 {
			out = append(out, 0, 1, byte((n-2)>>8), byte(n-2))
		}
		// FDSelect
		set5(topPos+pFDSelect, len(out))
		if s.FDSelectFormat == 3 {
			var ranges []byte
			nr := 0
			for g := 0; g < n; g++ {
				if g == 0 || s.FDSelect[g] != s.FDSelect[g-1] {
					ranges = append(ranges, byte(g>>8), byte(g), byte(s.FDSelect[g]))
					nr++
				}
			}
			out = append(out, 3, byte(nr>>8), byte(nr))
			out = append(out, ranges...)
			out = append(out, byte(n>>8), byte(n))
		} else {
			out = append(out, 0)
			for g := 0; g < n; g++ {
				out = append(out, byte(s.FDSelect[g]))
			}
		}
	}

	set5(topPos+pCharStrings, len(out))
	out = AppendIndex(out, s.CharStrings)

	// Font DICT INDEX (CID): each Font DICT is "size offset Private" with 5-byte operands
	fdArrayPos := -1
	if s.CID {
		set5(topPos+pFDArray, len(out))
		fds := make([][]byte, len(s.FDs))
		for i := range fds {
			var d []byte
			d = dictInt5(d, len(privs[i]))
			d = dictInt5(d, 0)
			d = dictOp(d, OpPrivate)
			fds[i] = d
		}
		fdArrayPos = len(out)
		out = AppendIndex(out, fds)
	}

	// Private DICTs
	privPos := make([]int, len(privs))
	for i, p := range privs {
		privPos[i] = len(out)
		out = append(out, p...)
	}
	if s.CID {
		// patch the Private offsets inside the Font DICT INDEX: objects are 11 bytes each
		offSize := 1
		for 11*len(privs)+1 >= 1<<(8*offSize) {
			offSize++
		}
		if s.IndexOffSize > offSize && s.IndexOffSize <= 4 {
			offSize = s.IndexOffSize
		}
		dataStart := fdArrayPos + 2 + 1 + offSize*(len(privs)+1)
		for i := range privs {
			set5(dataStart+11*i+5, privPos[i])
		}
	} else {
		set5(topPos+pPrivate+5, privPos[0])
	}
	for i := 0; i < s.Gap; i++ {
		out = append(out, 0xAA)
	}
	// local Subrs
	for i, fd := range s.FDs {
		if subrPatch[i] < 0 {
			continue
		}
		if off := len(out) - privPos[i]; fd.SubrsOffsetReal != 0 && off < 1000000 {
			// eight nibbles: "00001234" or "001234.0"
			digits := fmt.Sprintf("%08d", off)
			if fd.SubrsOffsetReal == 2 {
				digits = fmt.Sprintf("%06d", off) + ".0"
			}
			pos := privPos[i] + subrPatch[i] + 1
			for k := 0; k < 4; k++ {
				nib := func(c byte) byte {
					if c == '.' {
						return 10
					}
					return c - '0'
				}
				out[pos+k] = nib(digits[2*k])<<4 | nib(digits[2*k+1])
			}
		} else if fd.SubrsOffsetReal != 0 {
			panic("refcff: Subrs offset too large for the fixed-size real spelling")
		} else {
			set5(privPos[i]+subrPatch[i], off)
		}
		out = AppendIndex(out, fd.Subrs)
	}
	return out
}
