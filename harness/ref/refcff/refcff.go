// Package refcff is a minimal reader and writer for the CFF container
// (Adobe Technical Note #5176), written from the specification.  It shares no
// code with seehuhn.de/go/sfnt.
//
// The reader extracts what is needed to execute charstrings independently:
// header, the four leading INDEXes, Top DICT, CharStrings INDEX, Private
// DICT(s) with defaultWidthX/nominalWidthX and the local Subrs INDEX (offset
// relative to the Private DICT), and FDArray/FDSelect for CID-keyed fonts.
//
// The writer wraps given charstrings and subroutine INDEXes into a complete
// CFF font program (simple or CID-keyed).
package refcff

import (
	"errors"
	"fmt"
	"strconv"
)

// Operand is one DICT operand.
type Operand struct {
	Val    float64
	IsReal bool // encoded with the nibble encoding (operator 30)
}

// Entry is one DICT key with its operands.  Two-byte operators are 0x0c00|b1.
type Entry struct {
	Op   int
	Args []Operand
}

// Dict is a parsed DICT in file order.
type Dict []Entry

// Get returns the operands of the (last) entry with the given operator.
func (d Dict) Get(op int) ([]Operand, bool) {
	for i := len(d) - 1; i >= 0; i-- {
		if d[i].Op == op {
			return d[i].Args, true
		}
	}
	return nil, false
}

func (d Dict) num(op int, def float64) float64 {
	a, ok := d.Get(op)
	if !ok || len(a) != 1 {
		return def
	}
	return a[0].Val
}

// DICT operators used here.
const (
	OpCharset       = 15
	OpEncoding      = 16
	OpCharStrings   = 17
	OpPrivate       = 18
	OpSubrs         = 19
	OpDefaultWidthX = 20
	OpNominalWidthX = 21
	OpCharstringTyp = 0x0c06
	OpROS           = 0x0c1e
	OpCIDCount      = 0x0c22
	OpFDArray       = 0x0c24
	OpFDSelect      = 0x0c25
)

// FD is one Private DICT with its subroutines.
type FD struct {
	Private       Dict
	PrivateOffset int
	PrivateSize   int
	DefaultWidthX float64
	NominalWidthX float64
	DefaultIsReal bool
	NominalIsReal bool
	HasSubrs      bool
	SubrsOffset   int // absolute
	Subrs         [][]byte
}

// File is a parsed CFF font program.
type File struct {
	Major, Minor, HdrSize, OffSize byte
	Names                          [][]byte
	Top                            Dict
	Strings                        [][]byte
	GSubrs                         [][]byte
	CharStrings                    [][]byte
	IsCID                          bool
	FDs                            []FD
	FDSelect                       []int // FD index per glyph
}

type rd struct {
	b   []byte
	pos int
}

var errShort = errors.New("refcff: unexpected end of data")

func (r *rd) u8() (int, error) {
	if r.pos+1 > len(r.b) {
		return 0, errShort
	}
	v := int(r.b[r.pos])
	r.pos++
	return v, nil
}

func (r *rd) uN(n int) (int, error) {
	if n < 1 || n > 4 || r.pos+n > len(r.b) {
		return 0, errShort
	}
	v := 0
	for i := 0; i < n; i++ {
		v = v<<8 | int(r.b[r.pos+i])
	}
	r.pos += n
	return v, nil
}

// index reads an INDEX at the current position.
func (r *rd) index() ([][]byte, error) {
	count, err := r.uN(2)
	if err != nil {
		return nil, err
	}
	if count == 0 {
		return nil, nil
	}
	offSize, err := r.u8()
	if err != nil {
		return nil, err
	}
	if offSize < 1 || offSize > 4 {
		return nil, fmt.Errorf("refcff: INDEX offSize %d", offSize)
	}
	offs := make([]int, count+1)
	for i := range offs {
		offs[i], err = r.uN(offSize)
		if err != nil {
			return nil, err
		}
		if i == 0 && offs[0] != 1 {
			return nil, fmt.Errorf("refcff: first INDEX offset %d", offs[0])
		}
		if i > 0 && offs[i] < offs[i-1] {
			return nil, fmt.Errorf("refcff: decreasing INDEX offset")
		}
	}
	base := r.pos - 1
	if base+offs[count] > len(r.b) {
		return nil, errShort
	}
	res := make([][]byte, count)
	for i := range res {
		res[i] = r.b[base+offs[i] : base+offs[i+1]]
	}
	r.pos = base + offs[count]
	return res, nil
}

var nibbles = [16]string{"0", "1", "2", "3", "4", "5", "6", "7", "8", "9", ".", "E", "E-", "", "-", ""}

// ParseDict decodes DICT data.
func ParseDict(b []byte) (Dict, error) {
	var d Dict
	var args []Operand
	for i := 0; i < len(b); {
		b0 := int(b[i])
		switch {
		case b0 <= 21:
			op := b0
			i++
			if b0 == 12 {
				if i >= len(b) {
					return nil, errShort
				}
				op = 0x0c00 | int(b[i])
				i++
			}
			d = append(d, Entry{Op: op, Args: args})
			args = nil
		case b0 == 28:
			if i+3 > len(b) {
				return nil, errShort
			}
			args = append(args, Operand{Val: float64(int16(uint16(b[i+1])<<8 | uint16(b[i+2])))})
			i += 3
		case b0 == 29:
			if i+5 > len(b) {
				return nil, errShort
			}
			v := int32(uint32(b[i+1])<<24 | uint32(b[i+2])<<16 | uint32(b[i+3])<<8 | uint32(b[i+4]))
			args = append(args, Operand{Val: float64(v)})
			i += 5
		case b0 == 30:
			i++
			var s []byte
			done := false
			for !done {
				if i >= len(b) {
					return nil, errShort
				}
				x := b[i]
				i++
				for _, nib := range []byte{x >> 4, x & 15} {
					if nib == 15 {
						done = true
						break
					}
					if nib == 13 {
						return nil, errors.New("refcff: reserved nibble")
					}
					s = append(s, nibbles[nib]...)
				}
			}
			v, err := strconv.ParseFloat(string(s), 64)
			if err != nil {
				return nil, fmt.Errorf("refcff: real %q: %v", s, err)
			}
			args = append(args, Operand{Val: v, IsReal: true})
		case b0 >= 32 && b0 <= 246:
			args = append(args, Operand{Val: float64(b0 - 139)})
			i++
		case b0 >= 247 && b0 <= 250:
			if i+2 > len(b) {
				return nil, errShort
			}
			args = append(args, Operand{Val: float64((b0-247)*256 + int(b[i+1]) + 108)})
			i += 2
		case b0 >= 251 && b0 <= 254:
			if i+2 > len(b) {
				return nil, errShort
			}
			args = append(args, Operand{Val: float64(-(b0-251)*256 - int(b[i+1]) - 108)})
			i += 2
		default:
			return nil, fmt.Errorf("refcff: reserved DICT byte %d", b0)
		}
	}
	if len(args) != 0 {
		return nil, errors.New("refcff: operands without operator at the end of a DICT")
	}
	return d, nil
}

func (f *File) readFD(data []byte, d Dict) (FD, error) {
	var fd FD
	p, ok := d.Get(OpPrivate)
	if !ok || len(p) != 2 {
		return fd, errors.New("refcff: missing Private entry")
	}
	size, off := int(p[0].Val), int(p[1].Val)
	if size < 0 || off < 0 || off+size > len(data) {
		return fd, errors.New("refcff: Private DICT outside the data")
	}
	priv, err := ParseDict(data[off : off+size])
	if err != nil {
		return fd, err
	}
	fd.Private, fd.PrivateOffset, fd.PrivateSize = priv, off, size
	if a, ok := priv.Get(OpDefaultWidthX); ok && len(a) == 1 {
		fd.DefaultWidthX, fd.DefaultIsReal = a[0].Val, a[0].IsReal
	}
	if a, ok := priv.Get(OpNominalWidthX); ok && len(a) == 1 {
		fd.NominalWidthX, fd.NominalIsReal = a[0].Val, a[0].IsReal
	}
	if a, ok := priv.Get(OpSubrs); ok && len(a) == 1 {
		fd.HasSubrs = true
		fd.SubrsOffset = off + int(a[0].Val) // relative to the Private DICT
		if fd.SubrsOffset < 0 || fd.SubrsOffset > len(data) {
			return fd, errors.New("refcff: Subrs offset outside the data")
		}
		r := &rd{b: data, pos: fd.SubrsOffset}
		fd.Subrs, err = r.index()
		if err != nil {
			return fd, fmt.Errorf("local Subrs: %w", err)
		}
	}
	return fd, nil
}

// Parse reads a CFF font program.
func Parse(data []byte) (*File, error) {
	if len(data) < 4 {
		return nil, errShort
	}
	f := &File{Major: data[0], Minor: data[1], HdrSize: data[2], OffSize: data[3]}
	if f.Major != 1 {
		return nil, fmt.Errorf("refcff: major version %d", f.Major)
	}
	r := &rd{b: data, pos: int(f.HdrSize)}
	var err error
	if f.Names, err = r.index(); err != nil {
		return nil, fmt.Errorf("Name INDEX: %w", err)
	}
	tops, err := r.index()
	if err != nil {
		return nil, fmt.Errorf("Top DICT INDEX: %w", err)
	}
	if f.Strings, err = r.index(); err != nil {
		return nil, fmt.Errorf("String INDEX: %w", err)
	}
	if f.GSubrs, err = r.index(); err != nil {
		return nil, fmt.Errorf("Global Subr INDEX: %w", err)
	}
	if len(f.Names) != 1 || len(tops) != 1 {
		return nil, fmt.Errorf("refcff: %d names, %d top dicts", len(f.Names), len(tops))
	}
	if f.Top, err = ParseDict(tops[0]); err != nil {
		return nil, fmt.Errorf("Top DICT: %w", err)
	}
	if t := f.Top.num(OpCharstringTyp, 2); t != 2 {
		return nil, fmt.Errorf("refcff: CharstringType %v", t)
	}
	cs := int(f.Top.num(OpCharStrings, 0))
	if cs <= 0 || cs >= len(data) {
		return nil, errors.New("refcff: bad CharStrings offset")
	}
	r.pos = cs
	if f.CharStrings, err = r.index(); err != nil {
		return nil, fmt.Errorf("CharStrings INDEX: %w", err)
	}
	n := len(f.CharStrings)
	f.FDSelect = make([]int, n)
	if _, ok := f.Top.Get(OpROS); ok {
		f.IsCID = true
		fa := int(f.Top.num(OpFDArray, 0))
		if fa <= 0 || fa >= len(data) {
			return nil, errors.New("refcff: bad FDArray offset")
		}
		r.pos = fa
		fds, err := r.index()
		if err != nil {
			return nil, fmt.Errorf("FDArray: %w", err)
		}
		for _, blob := range fds {
			d, err := ParseDict(blob)
			if err != nil {
				return nil, fmt.Errorf("Font DICT: %w", err)
			}
			fd, err := f.readFD(data, d)
			if err != nil {
				return nil, err
			}
			f.FDs = append(f.FDs, fd)
		}
		fs := int(f.Top.num(OpFDSelect, 0))
		if fs <= 0 || fs >= len(data) {
			return nil, errors.New("refcff: bad FDSelect offset")
		}
		r.pos = fs
		format, err := r.u8()
		if err != nil {
			return nil, err
		}
		switch format {
		case 0:
			for i := 0; i < n; i++ {
				if f.FDSelect[i], err = r.u8(); err != nil {
					return nil, err
				}
			}
		case 3:
			nr, err := r.uN(2)
			if err != nil {
				return nil, err
			}
			first, err := r.uN(2)
			if err != nil {
				return nil, err
			}
			if nr == 0 || first != 0 {
				return nil, errors.New("refcff: FDSelect format 3 must start at glyph 0")
			}
			for i := 0; i < nr; i++ {
				fd, err := r.u8()
				if err != nil {
					return nil, err
				}
				next, err := r.uN(2)
				if err != nil {
					return nil, err
				}
				if next <= first || next > n {
					return nil, errors.New("refcff: FDSelect ranges not increasing")
				}
				for g := first; g < next; g++ {
					f.FDSelect[g] = fd
				}
				first = next
			}
			if first != n {
				return nil, errors.New("refcff: FDSelect sentinel != number of glyphs")
			}
		default:
			return nil, fmt.Errorf("refcff: FDSelect format %d", format)
		}
		for _, k := range f.FDSelect {
			if k >= len(f.FDs) {
				return nil, errors.New("refcff: FDSelect value outside FDArray")
			}
		}
	} else {
		fd, err := f.readFD(data, f.Top)
		if err != nil {
			return nil, err
		}
		f.FDs = []FD{fd}
	}
	return f, nil
}
