package refcff

// WrapOTF puts a CFF font program into a minimal OpenType container (tables
// CFF, OS/2, cmap, head, hhea, hmtx, maxp, post; unitsPerEm = 1) so that a
// generic OpenType reader can be pointed at it.  Written from the OpenType
// specification ("otff", and the table chapters); nothing here is specific to
// any reader.
func WrapOTF(cff []byte, numGlyphs int) []byte {
	be16 := func(b []byte, off, v int) { b[off], b[off+1] = byte(v>>8), byte(v) }
	be32 := func(b []byte, off int, v uint32) {
		b[off], b[off+1], b[off+2], b[off+3] = byte(v>>24), byte(v>>16), byte(v>>8), byte(v)
	}
	head := make([]byte, 54)
	be32(head, 0, 0x00010000)
	be32(head, 12, 0x5F0F3CF5)
	be16(head, 18, 1) // unitsPerEm
	be16(head, 44, 8) // lowestRecPPEM
	hhea := make([]byte, 36)
	be32(hhea, 0, 0x00010000)
	be16(hhea, 34, 1) // numberOfHMetrics
	hmtx := make([]byte, 4+2*(numGlyphs-1))
	maxp := make([]byte, 6)
	be32(maxp, 0, 0x00005000)
	be16(maxp, 4, numGlyphs)
	os2 := make([]byte, 96)
	be16(os2, 0, 2)
	post := make([]byte, 32)
	be32(post, 0, 0x00030000)
	cmap := make([]byte, 12+24)
	be16(cmap, 2, 1)  // numTables
	be16(cmap, 4, 3)  // platform
	be16(cmap, 6, 1)  // encoding
	be32(cmap, 8, 12) // offset
	st := cmap[12:]
	be16(st, 0, 4)  // format
	be16(st, 2, 24) // length
	be16(st, 6, 2)  // segCountX2
	be16(st, 8, 2)  // searchRange
	be16(st, 10, 0) // entrySelector
	be16(st, 12, 0) // rangeShift
	be16(st, 14, 0xFFFF)
	be16(st, 18, 0xFFFF)
	be16(st, 20, 1)

	type tab struct {
		tag  string
		data []byte
	}
	tabs := []tab{{"CFF ", cff}, {"OS/2", os2}, {"cmap", cmap}, {"head", head},
		{"hhea", hhea}, {"hmtx", hmtx}, {"maxp", maxp}, {"post", post}}
	n := len(tabs)
	out := make([]byte, 12+16*n)
	copy(out, "OTTO")
	be16(out, 4, n)
	be16(out, 6, 128)
	be16(out, 8, 3)
	be16(out, 10, 16*n-128)
	for i, t := range tabs {
		for len(out)%4 != 0 {
			out = append(out, 0)
		}
		rec := 12 + 16*i
		copy(out[rec:], t.tag)
		var sum uint32
		for j := 0; j < len(t.data); j += 4 {
			var w uint32
			for k := 0; k < 4; k++ {
				w <<= 8
				if j+k < len(t.data) {
					w |= uint32(t.data[j+k])
				}
			}
			sum += w
		}
		be32(out, rec+4, sum)
		be32(out, rec+8, uint32(len(out)))
		be32(out, rec+12, uint32(len(t.data)))
		out = append(out, t.data...)
	}
	for len(out)%4 != 0 {
		out = append(out, 0)
	}
	return out
}
