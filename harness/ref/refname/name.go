// Package refname contains small reference readers/writers written from the
// OpenType specification for the check of property C14: the "name" table
// (with UTF-16BE), the "post" table (formats 1, 2, 3 and the standard
// Macintosh glyph order) and the ScriptList of a GSUB/GPOS table.  Nothing
// here imports or copies code from seehuhn.de/go/sfnt.
package refname

import (
	"errors"
	"fmt"
)

// Record is one name record together with the bytes it points to.
type Record struct {
	Platform, Encoding, Language, NameID uint16
	Offset, Length                       int // relative to the storage area
	Data                                 []byte
}

// Table is a decoded "name" table (version 0 or 1).
type Table struct {
	Version       uint16
	StorageOffset int
	Records       []Record
	LangTags      [][]byte // version 1 language-tag strings
	Storage       []byte
}

func u16(b []byte) int { return int(b[0])<<8 | int(b[1]) }

// Parse walks a "name" table.  Every offset must lie inside the table.
func Parse(data []byte) (*Table, error) {
	if len(data) < 6 {
		return nil, errors.New("name: shorter than the 6-byte header")
	}
	t := &Table{Version: uint16(u16(data)), StorageOffset: u16(data[4:])}
	if t.Version > 1 {
		return nil, fmt.Errorf("name: version %d", t.Version)
	}
	n := u16(data[2:])
	end := 6 + 12*n
	if end > len(data) {
		return nil, fmt.Errorf("name: %d records do not fit into %d bytes", n, len(data))
	}
	type lt struct{ length, offset int }
	var lts []lt
	if t.Version == 1 {
		if end+2 > len(data) {
			return nil, errors.New("name: langTagCount missing")
		}
		m := u16(data[end:])
		end += 2
		if end+4*m > len(data) {
			return nil, errors.New("name: langTagRecords do not fit")
		}
		for i := 0; i < m; i++ {
			lts = append(lts, lt{u16(data[end:]), u16(data[end+2:])})
			end += 4
		}
	}
	if t.StorageOffset < end || t.StorageOffset > len(data) {
		return nil, fmt.Errorf("name: storage offset %d outside [%d,%d]", t.StorageOffset, end, len(data))
	}
	t.Storage = data[t.StorageOffset:]
	for i := 0; i < n; i++ {
		b := data[6+12*i:]
		r := Record{
			Platform: uint16(u16(b)), Encoding: uint16(u16(b[2:])),
			Language: uint16(u16(b[4:])), NameID: uint16(u16(b[6:])),
			Length: u16(b[8:]), Offset: u16(b[10:]),
		}
		if r.Offset+r.Length > len(t.Storage) {
			return nil, fmt.Errorf("name: record %d (%d/%d/%#x/%d) points to [%d,%d) outside the %d-byte storage",
				i, r.Platform, r.Encoding, r.Language, r.NameID, r.Offset, r.Offset+r.Length, len(t.Storage))
		}
		r.Data = t.Storage[r.Offset : r.Offset+r.Length]
		t.Records = append(t.Records, r)
	}
	for i, l := range lts {
		if l.offset+l.length > len(t.Storage) {
			return nil, fmt.Errorf("name: langTag %d outside storage", i)
		}
		t.LangTags = append(t.LangTags, t.Storage[l.offset:l.offset+l.length])
	}
	return t, nil
}

// CheckSorted verifies the ordering the specification requires: records
// sorted by platform, encoding, language and name id; it also rejects two
// records with the same key.
func (t *Table) CheckSorted() error {
	for i := 1; i < len(t.Records); i++ {
		a, b := t.Records[i-1], t.Records[i]
		ka := [4]uint16{a.Platform, a.Encoding, a.Language, a.NameID}
		kb := [4]uint16{b.Platform, b.Encoding, b.Language, b.NameID}
		for j := 0; j < 4; j++ {
			if ka[j] < kb[j] {
				break
			}
			if ka[j] > kb[j] || j == 3 {
				return fmt.Errorf("name: records %d %v and %d %v not in strictly ascending order", i-1, ka, i, kb)
			}
		}
	}
	return nil
}

// RawRecord describes a record for Build; Data is appended to the storage
// area unless an identical byte string is already there and Share is set.
type RawRecord struct {
	Platform, Encoding, Language, NameID uint16
	Data                                 []byte
	Share                                bool
}

// Build writes a "name" table with the records in the given order.  For
// version 1 the langTags are stored as langTagRecords.  pad bytes of filler
// are placed at the start of the storage area (so that offsets are not all
// multiples of the string lengths).
func Build(version uint16, recs []RawRecord, langTags [][]byte, pad int) ([]byte, error) {
	hdr := 6 + 12*len(recs)
	if version == 1 {
		hdr += 2 + 4*len(langTags)
	}
	if hdr > 0xFFFF {
		return nil, errors.New("name: header too large")
	}
	storage := make([]byte, pad)
	for i := range storage {
		storage[i] = 0xEE
	}
	seen := map[string]int{}
	place := func(d []byte, share bool) (int, error) {
		if share {
			if o, ok := seen[string(d)]; ok {
				return o, nil
			}
		}
		o := len(storage)
		if o > 0xFFFF || len(d) > 0xFFFF {
			return 0, errors.New("name: storage too large")
		}
		storage = append(storage, d...)
		seen[string(d)] = o
		return o, nil
	}
	out := make([]byte, hdr)
	out[0], out[1] = byte(version>>8), byte(version)
	out[2], out[3] = byte(len(recs)>>8), byte(len(recs))
	out[4], out[5] = byte(hdr>>8), byte(hdr)
	put := func(p int, v int) { out[p], out[p+1] = byte(v>>8), byte(v) }
	for i, r := range recs {
		o, err := place(r.Data, r.Share)
		if err != nil {
			return nil, err
		}
		p := 6 + 12*i
		put(p, int(r.Platform))
		put(p+2, int(r.Encoding))
		put(p+4, int(r.Language))
		put(p+6, int(r.NameID))
		put(p+8, len(r.Data))
		put(p+10, o)
	}
	if version == 1 {
		p := 6 + 12*len(recs)
		put(p, len(langTags))
		p += 2
		for _, l := range langTags {
			o, err := place(l, false)
			if err != nil {
				return nil, err
			}
			put(p, len(l))
			put(p+2, o)
			p += 4
		}
	}
	return append(out, storage...), nil
}

// EncodeUTF16BE encodes the code points of s (which must be valid UTF-8)
// as UTF-16, big endian.
func EncodeUTF16BE(s string) []byte {
	var out []byte
	for _, r := range s {
		if r >= 0x10000 {
			v := r - 0x10000
			hi, lo := 0xD800+(v>>10), 0xDC00+(v&0x3FF)
			out = append(out, byte(hi>>8), byte(hi), byte(lo>>8), byte(lo))
		} else {
			out = append(out, byte(r>>8), byte(r))
		}
	}
	return out
}

// DecodeUTF16BE decodes big-endian UTF-16.  ok is false when the input is
// not well formed (odd length or unpaired surrogate); the string is then
// meaningless.
func DecodeUTF16BE(b []byte) (s string, ok bool) {
	if len(b)%2 != 0 {
		return "", false
	}
	var rr []rune
	for i := 0; i < len(b); i += 2 {
		u := rune(b[i])<<8 | rune(b[i+1])
		switch {
		case u >= 0xD800 && u < 0xDC00:
			if i+3 >= len(b) {
				return "", false
			}
			v := rune(b[i+2])<<8 | rune(b[i+3])
			if v < 0xDC00 || v > 0xDFFF {
				return "", false
			}
			rr = append(rr, 0x10000+(u-0xD800)<<10+(v-0xDC00))
			i += 2
		case u >= 0xDC00 && u <= 0xDFFF:
			return "", false
		default:
			rr = append(rr, u)
		}
	}
	return string(rr), true
}

// UTF16Len returns the number of UTF-16 code units of s.
func UTF16Len(s string) int {
	n := 0
	for _, r := range s {
		n++
		if r >= 0x10000 {
			n++
		}
	}
	return n
}
