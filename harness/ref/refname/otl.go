package refname

import (
	"errors"
	"fmt"
	"sort"
)

// LangSys is one language system of a ScriptList: the 4-byte script tag,
// the 4-byte language tag ("" for the script's default language system),
// and the feature indices.
type LangSys struct {
	Script, Lang string
	Required     uint16
	Features     []uint16
}

// BuildLayoutTable writes a minimal version-1.0 GSUB/GPOS table: the given
// language systems (scripts and languages sorted by tag as the
// specification requires), a FeatureList with the given feature tags (each
// feature without lookups) and an empty LookupList.
func BuildLayoutTable(ls []LangSys, featureTags []string) ([]byte, error) {
	byScript := map[string][]LangSys{}
	for _, l := range ls {
		if len(l.Script) != 4 || (l.Lang != "" && len(l.Lang) != 4) {
			return nil, fmt.Errorf("bad tags %q/%q", l.Script, l.Lang)
		}
		for _, o := range byScript[l.Script] {
			if o.Lang == l.Lang {
				return nil, fmt.Errorf("duplicate %q/%q", l.Script, l.Lang)
			}
		}
		byScript[l.Script] = append(byScript[l.Script], l)
	}
	var scripts []string
	for s := range byScript {
		scripts = append(scripts, s)
	}
	sort.Strings(scripts)

	put := func(b []byte, p, v int) { b[p], b[p+1] = byte(v>>8), byte(v) }
	langSys := func(l LangSys) []byte {
		b := make([]byte, 6+2*len(l.Features))
		put(b, 2, int(l.Required))
		put(b, 4, len(l.Features))
		for i, f := range l.Features {
			put(b, 6+2*i, int(f))
		}
		return b
	}

	// script tables
	var scriptTables [][]byte
	for _, s := range scripts {
		lss := byScript[s]
		sort.Slice(lss, func(i, j int) bool { return lss[i].Lang < lss[j].Lang })
		var def *LangSys
		var named []LangSys
		for i := range lss {
			if lss[i].Lang == "" {
				def = &lss[i]
			} else {
				named = append(named, lss[i])
			}
		}
		st := make([]byte, 4+6*len(named))
		put(st, 2, len(named))
		if def != nil {
			put(st, 0, len(st))
			st = append(st, langSys(*def)...)
		}
		for i, l := range named {
			copy(st[4+6*i:], l.Lang)
			put(st, 4+6*i+4, len(st))
			st = append(st, langSys(l)...)
		}
		scriptTables = append(scriptTables, st)
	}
	sl := make([]byte, 2+6*len(scripts))
	put(sl, 0, len(scripts))
	for i, s := range scripts {
		copy(sl[2+6*i:], s)
		put(sl, 2+6*i+4, len(sl))
		sl = append(sl, scriptTables[i]...)
	}

	fl := make([]byte, 2+6*len(featureTags))
	put(fl, 0, len(featureTags))
	for i, t := range featureTags {
		if len(t) != 4 {
			return nil, fmt.Errorf("bad feature tag %q", t)
		}
		copy(fl[2+6*i:], t)
		put(fl, 2+6*i+4, len(fl))
		fl = append(fl, 0, 0, 0, 0) // featureParams, lookupIndexCount
	}
	ll := []byte{0, 0}

	out := make([]byte, 10)
	put(out, 0, 1)
	put(out, 4, 10)
	put(out, 6, 10+len(sl))
	put(out, 8, 10+len(sl)+len(fl))
	if 10+len(sl)+len(fl) > 0xFFFF {
		return nil, errors.New("layout table too large")
	}
	out = append(out, sl...)
	out = append(out, fl...)
	out = append(out, ll...)
	return out, nil
}

// ParseScriptList reads the ScriptList of a GSUB/GPOS table.  The result
// lists the language systems in file order (per script: default first).
// It fails if script records or language records are not sorted by tag.
func ParseScriptList(tab []byte) ([]LangSys, error) {
	if len(tab) < 10 {
		return nil, errors.New("layout: header too short")
	}
	if u16(tab) != 1 || u16(tab[2:]) > 1 {
		return nil, fmt.Errorf("layout: version %d.%d", u16(tab), u16(tab[2:]))
	}
	so := u16(tab[4:])
	if so == 0 {
		return nil, nil
	}
	if so+2 > len(tab) {
		return nil, errors.New("layout: ScriptList offset outside table")
	}
	sl := tab[so:]
	n := u16(sl)
	if 2+6*n > len(sl) {
		return nil, errors.New("layout: script records do not fit")
	}
	readLangSys := func(st []byte, off int, script, lang string) (LangSys, error) {
		if off+6 > len(st) {
			return LangSys{}, fmt.Errorf("layout: LangSys %q/%q outside table", script, lang)
		}
		b := st[off:]
		if u16(b) != 0 {
			return LangSys{}, fmt.Errorf("layout: LangSys %q/%q has lookupOrderOffset %d", script, lang, u16(b))
		}
		k := u16(b[4:])
		if 6+2*k > len(b) {
			return LangSys{}, fmt.Errorf("layout: LangSys %q/%q feature indices do not fit", script, lang)
		}
		l := LangSys{Script: script, Lang: lang, Required: uint16(u16(b[2:]))}
		for i := 0; i < k; i++ {
			l.Features = append(l.Features, uint16(u16(b[6+2*i:])))
		}
		return l, nil
	}
	var res []LangSys
	prevScript := ""
	for i := 0; i < n; i++ {
		rec := sl[2+6*i:]
		script := string(rec[:4])
		if i > 0 && script <= prevScript {
			return nil, fmt.Errorf("layout: script records not sorted (%q after %q)", script, prevScript)
		}
		prevScript = script
		off := u16(rec[4:])
		if off+4 > len(sl) {
			return nil, fmt.Errorf("layout: script table %q outside table", script)
		}
		st := sl[off:]
		defOff := u16(st)
		m := u16(st[2:])
		if 4+6*m > len(st) {
			return nil, fmt.Errorf("layout: script %q: LangSys records do not fit", script)
		}
		if defOff != 0 {
			l, err := readLangSys(st, defOff, script, "")
			if err != nil {
				return nil, err
			}
			res = append(res, l)
		}
		prevLang := ""
		for j := 0; j < m; j++ {
			lr := st[4+6*j:]
			lang := string(lr[:4])
			if j > 0 && lang <= prevLang {
				return nil, fmt.Errorf("layout: script %q: LangSys records not sorted (%q after %q)", script, lang, prevLang)
			}
			prevLang = lang
			l, err := readLangSys(st, u16(lr[4:]), script, lang)
			if err != nil {
				return nil, err
			}
			res = append(res, l)
		}
	}
	return res, nil
}
