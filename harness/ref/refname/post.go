package refname

import (
	"errors"
	"fmt"
)

// Post is a decoded "post" table.
type Post struct {
	Version            uint32
	ItalicAngle        int32 // 16.16
	UnderlinePosition  int16
	UnderlineThickness int16
	IsFixedPitch       uint32
	Mem                [4]uint32

	// format 2 only
	Index   []uint16 // glyphNameIndex
	Strings []string // Pascal strings in file order
	// glyph names: format 1 the standard order, format 2 resolved, format 3 nil
	Names []string
}

func u32(b []byte) uint32 {
	return uint32(b[0])<<24 | uint32(b[1])<<16 | uint32(b[2])<<8 | uint32(b[3])
}

// ParsePost walks a "post" table of version 1.0, 2.0 or 3.0.  Version 2
// tables must be consumed exactly (no bytes after the last Pascal string)
// and every index must refer to a standard name or to a stored string.
func ParsePost(data []byte) (*Post, error) {
	if len(data) < 32 {
		return nil, fmt.Errorf("post: %d bytes, header needs 32", len(data))
	}
	p := &Post{
		Version:            u32(data),
		ItalicAngle:        int32(u32(data[4:])),
		UnderlinePosition:  int16(u16(data[8:])),
		UnderlineThickness: int16(u16(data[10:])),
		IsFixedPitch:       u32(data[12:]),
	}
	for i := range p.Mem {
		p.Mem[i] = u32(data[16+4*i:])
	}
	switch p.Version {
	case 0x00010000:
		if len(data) != 32 {
			return nil, fmt.Errorf("post: version 1 with %d extra bytes", len(data)-32)
		}
		p.Names = append([]string(nil), MacGlyphNames[:]...)
	case 0x00030000:
		if len(data) != 32 {
			return nil, fmt.Errorf("post: version 3 with %d extra bytes", len(data)-32)
		}
	case 0x00020000:
		if len(data) < 34 {
			return nil, errors.New("post: numGlyphs missing")
		}
		n := u16(data[32:])
		if 34+2*n > len(data) {
			return nil, fmt.Errorf("post: glyphNameIndex for %d glyphs does not fit", n)
		}
		p.Index = make([]uint16, n)
		for i := range p.Index {
			p.Index[i] = uint16(u16(data[34+2*i:]))
		}
		pos := 34 + 2*n
		for pos < len(data) {
			l := int(data[pos])
			if pos+1+l > len(data) {
				return nil, fmt.Errorf("post: Pascal string %d at %d (length %d) runs past the end", len(p.Strings), pos, l)
			}
			p.Strings = append(p.Strings, string(data[pos+1:pos+1+l]))
			pos += 1 + l
		}
		p.Names = make([]string, n)
		for i, idx := range p.Index {
			switch {
			case int(idx) < len(MacGlyphNames):
				p.Names[i] = MacGlyphNames[idx]
			case int(idx)-len(MacGlyphNames) < len(p.Strings):
				p.Names[i] = p.Strings[int(idx)-len(MacGlyphNames)]
			default:
				return nil, fmt.Errorf("post: glyph %d has name index %d but only %d strings are stored", i, idx, len(p.Strings))
			}
		}
	default:
		return nil, fmt.Errorf("post: version %#08x", p.Version)
	}
	return p, nil
}

// BuildPost writes a table from the fields of p (Version, header fields,
// and for version 2 Index and Strings).
func BuildPost(p *Post) []byte {
	out := make([]byte, 32)
	put32 := func(o int, v uint32) {
		out[o], out[o+1], out[o+2], out[o+3] = byte(v>>24), byte(v>>16), byte(v>>8), byte(v)
	}
	put32(0, p.Version)
	put32(4, uint32(p.ItalicAngle))
	out[8], out[9] = byte(uint16(p.UnderlinePosition)>>8), byte(p.UnderlinePosition)
	out[10], out[11] = byte(uint16(p.UnderlineThickness)>>8), byte(p.UnderlineThickness)
	put32(12, p.IsFixedPitch)
	for i, m := range p.Mem {
		put32(16+4*i, m)
	}
	if p.Version == 0x00020000 {
		out = append(out, byte(len(p.Index)>>8), byte(len(p.Index)))
		for _, idx := range p.Index {
			out = append(out, byte(idx>>8), byte(idx))
		}
		for _, s := range p.Strings {
			out = append(out, byte(len(s)))
			out = append(out, s...)
		}
	}
	return out
}

// MacGlyphNames is the standard Macintosh glyph ordering used by "post"
// formats 1 and 2 (Apple TrueType Reference Manual, chapter "post";
// OpenType specification, "post" table, Macintosh standard order).
var MacGlyphNames = [258]string{
	".notdef", ".null", "nonmarkingreturn", "space", "exclam", "quotedbl",
	"numbersign", "dollar", "percent", "ampersand", "quotesingle",
	"parenleft", "parenright", "asterisk", "plus", "comma", "hyphen",
	"period", "slash", "zero", "one", "two", "three", "four", "five", "six",
	"seven", "eight", "nine", "colon", "semicolon", "less", "equal",
	"greater", "question", "at",
	"A", "B", "C", "D", "E", "F", "G", "H", "I", "J", "K", "L", "M", "N", "O",
	"P", "Q", "R", "S", "T", "U", "V", "W", "X", "Y", "Z",
	"bracketleft", "backslash", "bracketright", "asciicircum", "underscore",
	"grave",
	"a", "b", "c", "d", "e", "f", "g", "h", "i", "j", "k", "l", "m", "n", "o",
	"p", "q", "r", "s", "t", "u", "v", "w", "x", "y", "z",
	"braceleft", "bar", "braceright", "asciitilde",
	"Adieresis", "Aring", "Ccedilla", "Eacute", "Ntilde", "Odieresis",
	"Udieresis", "aacute", "agrave", "acircumflex", "adieresis", "atilde",
	"aring", "ccedilla", "eacute", "egrave", "ecircumflex", "edieresis",
	"iacute", "igrave", "icircumflex", "idieresis", "ntilde", "oacute",
	"ograve", "ocircumflex", "odieresis", "otilde", "uacute", "ugrave",
	"ucircumflex", "udieresis", "dagger", "degree", "cent", "sterling",
	"section", "bullet", "paragraph", "germandbls", "registered",
	"copyright", "trademark", "acute", "dieresis", "notequal", "AE",
	"Oslash", "infinity", "plusminus", "lessequal", "greaterequal", "yen",
	"mu", "partialdiff", "summation", "product", "pi", "integral",
	"ordfeminine", "ordmasculine", "Omega", "ae", "oslash", "questiondown",
	"exclamdown", "logicalnot", "radical", "florin", "approxequal", "Delta",
	"guillemotleft", "guillemotright", "ellipsis", "nonbreakingspace",
	"Agrave", "Atilde", "Otilde", "OE", "oe", "endash", "emdash",
	"quotedblleft", "quotedblright", "quoteleft", "quoteright", "divide",
	"lozenge", "ydieresis", "Ydieresis", "fraction", "currency",
	"guilsinglleft", "guilsinglright", "fi", "fl", "daggerdbl",
	"periodcentered", "quotesinglbase", "quotedblbase", "perthousand",
	"Acircumflex", "Ecircumflex", "Aacute", "Edieresis", "Egrave", "Iacute",
	"Icircumflex", "Idieresis", "Igrave", "Oacute", "Ocircumflex", "apple",
	"Ograve", "Uacute", "Ucircumflex", "Ugrave", "dotlessi", "circumflex",
	"tilde", "macron", "breve", "dotaccent", "ring", "cedilla",
	"hungarumlaut", "ogonek", "caron", "Lslash", "lslash", "Scaron",
	"scaron", "Zcaron", "zcaron", "brokenbar", "Eth", "eth", "Yacute",
	"yacute", "Thorn", "thorn", "minus", "multiply", "onesuperior",
	"twosuperior", "threesuperior", "onehalf", "onequarter",
	"threequarters", "franc", "Gbreve", "gbreve", "Idotaccent", "Scedilla",
	"scedilla", "Cacute", "cacute", "Ccaron", "ccaron", "dcroat",
}
