package refcffwalk

import (
	"fmt"
	"math"
)

// Close9 reports whether got equals want to nine significant decimal
// digits, i.e. whether got is within half a unit of the ninth significant
// digit of want (plus one part in 1e15 for binary rounding).
func Close9(want, got float64) bool {
	if want == got {
		return true
	}
	if math.IsNaN(want) || math.IsNaN(got) || math.IsInf(want, 0) || math.IsInf(got, 0) {
		return false
	}
	if want == 0 {
		return false
	}
	e := math.Floor(math.Log10(math.Abs(want)))
	// guard against Log10 landing on the wrong side of a power of ten
	if math.Pow(10, e) > math.Abs(want) {
		e--
	} else if math.Pow(10, e+1) <= math.Abs(want) {
		e++
	}
	half := 0.5 * math.Pow(10, e-8)
	return math.Abs(got-want) <= half*(1+1e-6)
}

// WidthTol is the resolution of 16.16 fixed point numbers.
const WidthTol = 1.0 / 65536

// DiffOptions selects what Diff compares.
type DiffOptions struct {
	Extra      bool // compare uninterpreted operators
	WidthXOps  bool // compare defaultWidthX / nominalWidthX and the presence of Subrs
	ExactReals bool // reals must be identical instead of equal to nine digits

	// RealEq, if set, replaces the comparison of real-valued operands.
	RealEq func(want, got float64) bool
}

type differ struct {
	opt DiffOptions
	msg string
}

func (d *differ) fail(format string, a ...any) {
	if d.msg == "" {
		d.msg = fmt.Sprintf(format, a...)
	}
}

func (d *differ) num(what string, want, got float64) {
	ok := Close9(want, got)
	if d.opt.ExactReals {
		ok = want == got
	}
	if d.opt.RealEq != nil {
		ok = d.opt.RealEq(want, got)
	}
	if !ok {
		d.fail("%s: want %v, got %v", what, want, got)
	}
}

func (d *differ) str(what, want, got string) {
	if want != got {
		d.fail("%s: want %q, got %q", what, want, got)
	}
}

func (d *differ) nums(what string, want, got []float64) {
	if len(want) != len(got) {
		d.fail("%s: want %v, got %v", what, want, got)
		return
	}
	for i := range want {
		d.num(fmt.Sprintf("%s[%d]", what, i), want[i], got[i])
	}
}

func (d *differ) matrix(what string, want, got *Matrix) {
	if (want == nil) != (got == nil) {
		d.fail("%s: want %v, got %v", what, fmtMatrix(want), fmtMatrix(got))
		return
	}
	if want != nil {
		d.nums(what, want[:], got[:])
	}
}

func fmtMatrix(m *Matrix) string {
	if m == nil {
		return "absent"
	}
	return fmt.Sprint(*m)
}

func (d *differ) opt0(what string, want, got *float64) {
	var a, b float64
	if want != nil {
		a = *want
	}
	if got != nil {
		b = *got
	}
	d.num(what, a, b)
}

func (d *differ) extra(what string, want, got []Entry) {
	if !d.opt.Extra {
		return
	}
	if len(want) != len(got) {
		d.fail("%s: want %d extra operators %v, got %d %v", what, len(want), want, len(got), got)
		return
	}
	// order-insensitive: operators are unique within a DICT
	byOp := map[uint16][]float64{}
	for _, e := range got {
		byOp[e.Op] = e.Args
	}
	for _, e := range want {
		g, ok := byOp[e.Op]
		if !ok {
			d.fail("%s: operator %#04x missing", what, e.Op)
			return
		}
		d.nums(fmt.Sprintf("%s op %#04x", what, e.Op), e.Args, g)
	}
}

// Diff compares two logical fonts and returns a description of the first
// difference ("" if there is none).  Absent StdHW/StdVW count as 0.
func Diff(want, got *Font, opt DiffOptions) string {
	d := &differ{opt: opt}
	d.str("Name", want.Name, got.Name)
	wt, gt := &want.Top, &got.Top
	d.str("Version", wt.Version, gt.Version)
	d.str("Notice", wt.Notice, gt.Notice)
	d.str("Copyright", wt.Copyright, gt.Copyright)
	d.str("FullName", wt.FullName, gt.FullName)
	d.str("FamilyName", wt.FamilyName, gt.FamilyName)
	d.str("Weight", wt.Weight, gt.Weight)
	if wt.IsFixedPitch != gt.IsFixedPitch {
		d.fail("IsFixedPitch: want %v, got %v", wt.IsFixedPitch, gt.IsFixedPitch)
	}
	d.num("ItalicAngle", wt.ItalicAngle, gt.ItalicAngle)
	d.num("UnderlinePosition", wt.UnderlinePosition, gt.UnderlinePosition)
	d.num("UnderlineThickness", wt.UnderlineThickness, gt.UnderlineThickness)
	d.matrix("Top FontMatrix", wt.FontMatrix, gt.FontMatrix)
	d.extra("Top DICT", wt.Extra, gt.Extra)

	if want.IsCID != got.IsCID {
		d.fail("IsCID: want %v, got %v", want.IsCID, got.IsCID)
		return d.msg
	}
	if len(want.Glyphs) != len(got.Glyphs) {
		d.fail("number of glyphs: want %d, got %d", len(want.Glyphs), len(got.Glyphs))
		return d.msg
	}
	if len(want.FDs) != len(got.FDs) {
		d.fail("number of font dictionaries: want %d, got %d", len(want.FDs), len(got.FDs))
		return d.msg
	}
	if want.IsCID {
		d.str("ROS.Registry", want.ROS.Registry, got.ROS.Registry)
		d.str("ROS.Ordering", want.ROS.Ordering, got.ROS.Ordering)
		if want.ROS.Supplement != got.ROS.Supplement {
			d.fail("ROS.Supplement: want %v, got %v", want.ROS.Supplement, got.ROS.Supplement)
		}
		if len(got.CIDs) != len(want.CIDs) || len(got.FDSelect) != len(want.FDSelect) {
			d.fail("CIDs/FDSelect length: want %d/%d, got %d/%d", len(want.CIDs), len(want.FDSelect), len(got.CIDs), len(got.FDSelect))
			return d.msg
		}
		for gid := range want.CIDs {
			if want.CIDs[gid] != got.CIDs[gid] {
				d.fail("CID of GID %d: want %d, got %d", gid, want.CIDs[gid], got.CIDs[gid])
				break
			}
		}
		for gid := range want.FDSelect {
			if want.FDSelect[gid] != got.FDSelect[gid] {
				d.fail("FDSelect of GID %d: want %d, got %d", gid, want.FDSelect[gid], got.FDSelect[gid])
				break
			}
		}
	} else {
		if len(got.GlyphNames) != len(want.GlyphNames) {
			d.fail("glyph names: want %d, got %d", len(want.GlyphNames), len(got.GlyphNames))
			return d.msg
		}
		for gid := range want.GlyphNames {
			if want.GlyphNames[gid] != got.GlyphNames[gid] {
				d.fail("name of GID %d: want %q, got %q", gid, want.GlyphNames[gid], got.GlyphNames[gid])
				break
			}
		}
		for code := range want.Encoding {
			if want.Encoding[code] != got.Encoding[code] {
				d.fail("encoding of code %d: want GID %d, got GID %d", code, want.Encoding[code], got.Encoding[code])
				break
			}
		}
	}
	for i := range want.FDs {
		wf, gf := &want.FDs[i], &got.FDs[i]
		p := fmt.Sprintf("FD %d ", i)
		if want.IsCID {
			d.matrix(p+"FontMatrix", wf.FontMatrix, gf.FontMatrix)
			if opt.Extra {
				d.str(p+"FontName", wf.FontName, gf.FontName)
			}
		}
		d.extra(p+"Font DICT", wf.Extra, gf.Extra)
		wp, gp := &wf.Private, &gf.Private
		d.nums(p+"BlueValues", wp.BlueValues, gp.BlueValues)
		d.nums(p+"OtherBlues", wp.OtherBlues, gp.OtherBlues)
		d.num(p+"BlueScale", wp.BlueScale, gp.BlueScale)
		d.num(p+"BlueShift", wp.BlueShift, gp.BlueShift)
		d.num(p+"BlueFuzz", wp.BlueFuzz, gp.BlueFuzz)
		d.opt0(p+"StdHW", wp.StdHW, gp.StdHW)
		d.opt0(p+"StdVW", wp.StdVW, gp.StdVW)
		if wp.ForceBold != gp.ForceBold {
			d.fail(p+"ForceBold: want %v, got %v", wp.ForceBold, gp.ForceBold)
		}
		if opt.WidthXOps {
			d.num(p+"defaultWidthX", wp.DefaultWidthX, gp.DefaultWidthX)
			d.num(p+"nominalWidthX", wp.NominalWidthX, gp.NominalWidthX)
			if wp.HasSubrs != gp.HasSubrs {
				d.fail(p+"Subrs present: want %v, got %v", wp.HasSubrs, gp.HasSubrs)
			}
		}
		if len(wp.Subrs) != len(gp.Subrs) {
			d.fail(p+"Subrs: want %d, got %d", len(wp.Subrs), len(gp.Subrs))
		} else {
			for k := range wp.Subrs {
				if string(wp.Subrs[k]) != string(gp.Subrs[k]) {
					d.fail(p+"Subrs[%d] differs", k)
				}
			}
		}
		d.extra(p+"Private DICT", wp.Extra, gp.Extra)
	}
	if len(want.GlobalSubrs) != len(got.GlobalSubrs) {
		d.fail("global subrs: want %d, got %d", len(want.GlobalSubrs), len(got.GlobalSubrs))
	}
	for gid := range want.Glyphs {
		wg, gg := &want.Glyphs[gid], &got.Glyphs[gid]
		if math.Abs(wg.Width-gg.Width) > WidthTol || math.IsNaN(gg.Width) {
			d.fail("width of GID %d: want %v, got %v (diff %g)", gid, wg.Width, gg.Width, gg.Width-wg.Width)
			break
		}
		if len(wg.Pts) != len(gg.Pts) {
			d.fail("GID %d: want %d points, got %d", gid, len(wg.Pts), len(gg.Pts))
			break
		}
		for k := range wg.Pts {
			if wg.Pts[k] != gg.Pts[k] {
				d.fail("GID %d point %d: want %v, got %v", gid, k, wg.Pts[k], gg.Pts[k])
				break
			}
		}
		if d.msg != "" {
			break
		}
	}
	return d.msg
}
