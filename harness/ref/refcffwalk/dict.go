package refcffwalk

import (
	"fmt"
	"math"
	"regexp"
	"strconv"
	"strings"
)

// Operand is one decoded DICT operand.
type Operand struct {
	V      float64
	IsReal bool
	Len    int    // encoded length in bytes
	Text   string // nibble string of a real operand
}

// IsInt reports whether the operand was stored in one of the integer forms.
func (o Operand) IsInt() bool { return !o.IsReal }

// DictEntry is one operator of a decoded DICT.
type DictEntry struct {
	Op   uint16
	Args []Operand
}

// TN5176 section 4: "An operator may be preceded by up to a maximum of 48 operands."
const maxDictOperands = 48

var realRE = regexp.MustCompile(`^-?([0-9]+\.?[0-9]*|\.[0-9]+)(E-?[0-9]+)?$`)

// decodeReal decodes a real operand starting after the 0x1e byte.
func decodeReal(buf []byte) (o Operand, n int, err error) {
	var sb strings.Builder
	done := false
	for n < len(buf) && !done {
		b := buf[n]
		n++
		for _, nib := range []byte{b >> 4, b & 15} {
			if done {
				// the low nibble after a terminating high nibble must be 0xf
				if nib != 0xf {
					return o, 0, fmt.Errorf("real operand: byte %#02x after terminator nibble", b)
				}
				continue
			}
			switch {
			case nib <= 9:
				sb.WriteByte('0' + nib)
			case nib == 0xa:
				sb.WriteByte('.')
			case nib == 0xb:
				sb.WriteByte('E')
			case nib == 0xc:
				sb.WriteString("E-")
			case nib == 0xd:
				return o, 0, fmt.Errorf("real operand: reserved nibble 0xd")
			case nib == 0xe:
				if sb.Len() > 0 {
					return o, 0, fmt.Errorf("real operand: minus nibble after %q", sb.String())
				}
				sb.WriteByte('-')
			case nib == 0xf:
				done = true
			}
		}
	}
	if !done {
		return o, 0, fmt.Errorf("real operand: missing terminator")
	}
	s := sb.String()
	if !realRE.MatchString(s) {
		return o, 0, fmt.Errorf("real operand %q: malformed", s)
	}
	v, perr := strconv.ParseFloat(strings.Replace(s, "E", "e", 1), 64)
	if perr != nil && !(math.IsInf(v, 0) || v == 0) {
		return o, 0, fmt.Errorf("real operand %q: %v", s, perr)
	}
	return Operand{V: v, IsReal: true, Len: n + 1, Text: s}, n, nil
}

// DecodeDict decodes DICT data into operator entries.
func DecodeDict(buf []byte) ([]DictEntry, error) {
	var res []DictEntry
	var stack []Operand
	seen := map[uint16]bool{}
	i := 0
	for i < len(buf) {
		b0 := buf[i]
		switch {
		case b0 <= 21:
			op := uint16(b0)
			if b0 == 12 {
				if i+1 >= len(buf) {
					return nil, fmt.Errorf("dict: truncated escape operator at %d", i)
				}
				op = 0x0C00 | uint16(buf[i+1])
				i++
			}
			i++
			if seen[op] {
				return nil, fmt.Errorf("dict: operator %#04x occurs twice", op)
			}
			seen[op] = true
			res = append(res, DictEntry{Op: op, Args: stack})
			stack = nil
			continue
		case b0 == 28:
			if i+3 > len(buf) {
				return nil, fmt.Errorf("dict: truncated operand at %d", i)
			}
			v := int16(uint16(buf[i+1])<<8 | uint16(buf[i+2]))
			stack = append(stack, Operand{V: float64(v), Len: 3})
			i += 3
		case b0 == 29:
			if i+5 > len(buf) {
				return nil, fmt.Errorf("dict: truncated operand at %d", i)
			}
			v := int32(uint32(buf[i+1])<<24 | uint32(buf[i+2])<<16 | uint32(buf[i+3])<<8 | uint32(buf[i+4]))
			stack = append(stack, Operand{V: float64(v), Len: 5})
			i += 5
		case b0 == 30:
			o, n, err := decodeReal(buf[i+1:])
			if err != nil {
				return nil, fmt.Errorf("dict: at %d: %v", i, err)
			}
			stack = append(stack, o)
			i += 1 + n
		case b0 >= 32 && b0 <= 246:
			stack = append(stack, Operand{V: float64(int(b0) - 139), Len: 1})
			i++
		case b0 >= 247 && b0 <= 250:
			if i+2 > len(buf) {
				return nil, fmt.Errorf("dict: truncated operand at %d", i)
			}
			stack = append(stack, Operand{V: float64((int(b0)-247)*256 + int(buf[i+1]) + 108), Len: 2})
			i += 2
		case b0 >= 251 && b0 <= 254:
			if i+2 > len(buf) {
				return nil, fmt.Errorf("dict: truncated operand at %d", i)
			}
			stack = append(stack, Operand{V: float64(-(int(b0)-251)*256 - int(buf[i+1]) - 108), Len: 2})
			i += 2
		default: // 22-27, 31, 255
			return nil, fmt.Errorf("dict: reserved byte %d at %d", b0, i)
		}
		if len(stack) > maxDictOperands {
			return nil, fmt.Errorf("dict: more than %d operands", maxDictOperands)
		}
	}
	if len(stack) != 0 {
		return nil, fmt.Errorf("dict: %d operands without operator at the end", len(stack))
	}
	return res, nil
}

// MinIntLen returns the length of the shortest DICT encoding of v.
func MinIntLen(v int32) int {
	switch {
	case v >= -107 && v <= 107:
		return 1
	case v >= -1131 && v <= 1131:
		return 2
	case v >= -32768 && v <= 32767:
		return 3
	}
	return 5
}

// EncodeInt encodes v as a DICT integer operand of the given length (1, 2,
// 3 or 5 bytes); it panics if v does not fit.
func EncodeInt(v int32, length int) []byte {
	if length < MinIntLen(v) {
		panic(fmt.Sprintf("refcffwalk: %d does not fit %d bytes", v, length))
	}
	switch length {
	case 1:
		return []byte{byte(v + 139)}
	case 2:
		if v >= 0 {
			w := v - 108
			return []byte{byte(w>>8) + 247, byte(w)}
		}
		w := -v - 108
		return []byte{byte(w>>8) + 251, byte(w)}
	case 3:
		return []byte{28, byte(v >> 8), byte(v)}
	case 5:
		return []byte{29, byte(v >> 24), byte(v >> 16), byte(v >> 8), byte(v)}
	}
	panic("refcffwalk: bad integer length")
}

// legalIntLens lists the operand lengths that can hold v, shortest first.
func legalIntLens(v int32) []int {
	var res []int
	for _, l := range []int{1, 2, 3, 5} {
		if l == 1 && (v < -107 || v > 107) {
			continue
		}
		if l == 2 && (v < -1131 || v > 1131 || (v >= -107 && v <= 107)) {
			// the two-byte forms cover 108..1131 and -1131..-108 only
			continue
		}
		if l == 3 && (v < -32768 || v > 32767) {
			continue
		}
		res = append(res, l)
	}
	return res
}

// RealSpelling selects how a real operand is written.
type RealSpelling struct {
	Digits    int  // significant digits: 9..17, or 0 for the shortest exact spelling
	Exp       int  // 0: positional when reasonable, 1: always exponent form, 2: exponent form with mantissa d.ddd
	NoLeading bool // ".5" instead of "0.5"
	PadExp    bool // "E-07" instead of "E-7"
	TrailZero bool // add a trailing zero to the fraction
}

// FormatReal renders x as the text of a real operand (digits, '.', 'E',
// "E-", leading '-').
func FormatReal(x float64, sp RealSpelling) string {
	if x == 0 {
		if sp.TrailZero {
			return "0.0"
		}
		return "0"
	}
	prec := -1
	if sp.Digits > 0 {
		prec = sp.Digits - 1
	}
	e := strconv.FormatFloat(x, 'e', prec, 64) // d.ddddde±xx
	mant, exps, _ := strings.Cut(e, "e")
	exp, _ := strconv.Atoi(exps)
	neg := strings.HasPrefix(mant, "-")
	mant = strings.TrimPrefix(mant, "-")
	digits := strings.Replace(mant, ".", "", 1)
	digits = strings.TrimRight(digits, "0")
	if digits == "" {
		digits = "0"
	}
	// value = 0.d1d2d3... * 10^(exp+1)
	point := exp + 1 // position of the decimal point relative to the start of digits
	var s string
	positional := sp.Exp == 0 && point > -8 && point <= len(digits)+6
	switch {
	case positional:
		switch {
		case point <= 0:
			s = "0." + strings.Repeat("0", -point) + digits
		case point >= len(digits):
			s = digits + strings.Repeat("0", point-len(digits))
		default:
			s = digits[:point] + "." + digits[point:]
		}
	case sp.Exp == 2:
		// d.ddd E exp
		s = digits[:1]
		if len(digits) > 1 {
			s += "." + digits[1:]
		}
		s += fmtExp(exp, sp.PadExp)
	default:
		// integer mantissa: ddddd E (point-len)
		s = digits
		if ex := point - len(digits); ex != 0 {
			s += fmtExp(ex, sp.PadExp)
		}
	}
	if sp.TrailZero && strings.Contains(s, ".") && !strings.Contains(s, "E") {
		s += "0"
	}
	if sp.NoLeading && strings.HasPrefix(s, "0.") {
		s = s[1:]
	}
	if neg {
		s = "-" + s
	}
	return s
}

func fmtExp(ex int, pad bool) string {
	s := "E"
	if ex < 0 {
		s = "E-"
		ex = -ex
	}
	if pad && ex < 10 {
		return s + "0" + strconv.Itoa(ex)
	}
	return s + strconv.Itoa(ex)
}

// EncodeRealText packs the text of a real operand into nibbles, including
// the leading 0x1e byte.
func EncodeRealText(s string) []byte {
	var nibs []byte
	for i := 0; i < len(s); i++ {
		c := s[i]
		switch {
		case c >= '0' && c <= '9':
			nibs = append(nibs, c-'0')
		case c == '.':
			nibs = append(nibs, 0xa)
		case c == 'E':
			if i+1 < len(s) && s[i+1] == '-' {
				nibs = append(nibs, 0xc)
				i++
			} else {
				nibs = append(nibs, 0xb)
			}
		case c == '-':
			nibs = append(nibs, 0xe)
		default:
			panic("refcffwalk: bad character in real text " + s)
		}
	}
	nibs = append(nibs, 0xf)
	if len(nibs)%2 == 1 {
		nibs = append(nibs, 0xf)
	}
	out := []byte{0x1e}
	for i := 0; i < len(nibs); i += 2 {
		out = append(out, nibs[i]<<4|nibs[i+1])
	}
	return out
}

// isInt32 reports whether x is an integer representable as int32.
func isInt32(x float64) bool {
	return x == math.Trunc(x) && x >= math.MinInt32 && x <= math.MaxInt32
}
