// Package refcffwalk is an independent model of the CFF (Compact Font Format,
// Adobe Technical Note #5176) container: a strict structural walker that
// turns CFF bytes into a logical font description, and a writer that emits a
// logical font in any of the alternative encodings the format allows (INDEX
// offset sizes, charset formats 0/1/2 and predefined ids, encoding formats
// 0/1 with or without supplement and predefined ids, FDSelect formats 0/3,
// every integer operand size, real operands in several spellings, section
// order, padding).
//
// The package shares no code with seehuhn.de/go/sfnt; it uses the standard
// library only.  Glyph programs are limited to "trivial" Type 2 charstrings
// (optional width, one polyline), which is all the C13 check needs.
package refcffwalk

// Matrix is a font matrix (a b c d tx ty).
type Matrix [6]float64

// Entry is a DICT operator with its operands that the model does not
// interpret (legal "noise" such as FontBBox, UniqueID, StemSnapH).
type Entry struct {
	Op   uint16 // one-byte operators as 0x00NN, escaped operators as 0x0CNN
	Args []float64
}

// Top holds the interpreted part of the Top DICT.  Strings are "" when the
// operator is absent; numbers carry the defaults of TN5176 table 9 when the
// operator is absent.
type Top struct {
	Version, Notice, Copyright, FullName, FamilyName, Weight string

	IsFixedPitch       bool
	ItalicAngle        float64 // default 0
	UnderlinePosition  float64 // default -100
	UnderlineThickness float64 // default 50
	FontMatrix         *Matrix // nil: operator absent

	Extra []Entry
}

// Private is a Private DICT.  Blue arrays hold absolute values (the file
// stores deltas).
type Private struct {
	BlueValues, OtherBlues []float64

	BlueScale float64 // default 0.039625
	BlueShift float64 // default 7
	BlueFuzz  float64 // default 1
	StdHW     *float64
	StdVW     *float64
	ForceBold bool

	DefaultWidthX float64 // default 0
	NominalWidthX float64 // default 0

	HasSubrs bool     // Subrs operator present
	Subrs    [][]byte // local subroutines

	Extra []Entry
}

// FD is a Font DICT of a CID-keyed font, or the single implicit font
// dictionary of a name-keyed font (FontMatrix and FontName unused there).
type FD struct {
	FontName   string // "" = absent
	FontMatrix *Matrix
	Private    Private
	Extra      []Entry
}

// Glyph is a trivial glyph: an advance width and one open polyline
// (Pts[0] is reached by a moveto, the others by linetos).
type Glyph struct {
	Width float64
	Pts   [][2]float64
}

// ROS is the Registry-Ordering-Supplement operator of a CID-keyed font.
type ROS struct {
	Registry, Ordering string
	Supplement         float64
}

// Font is the logical content of a CFF font set with exactly one font.
type Font struct {
	Name string // entry of the Name INDEX
	Top  Top

	IsCID bool
	ROS   ROS // CID only

	GlyphNames []string // name-keyed only: by GID, [0] = ".notdef"
	CIDs       []int    // CID only: by GID, [0] = 0
	Encoding   [256]int // name-keyed only: GID by code, 0 = not encoded
	FDSelect   []int    // CID only: by GID

	FDs    []FD // name-keyed: exactly one
	Glyphs []Glyph

	GlobalSubrs [][]byte
}

// Extent is a byte range of the file occupied by one structure.
type Extent struct {
	Name       string
	Start, End int
}

// Layout records the format choices found in a file.
type Layout struct {
	HdrSize    int
	HdrOffSize int

	// OffSize holds the offSize of every non-empty INDEX by name ("Name",
	// "TopDICT", "String", "GlobalSubr", "CharStrings", "FDArray",
	// "Subrs[i]").  Empty INDEXes are recorded with 0.
	OffSize map[string]int

	CharsetFormat  int // 0, 1, 2; 100+id for a predefined charset
	EncodingFormat int // 0, 1; 100+id for a predefined encoding; -1 for CID fonts
	EncodingSupps  int // number of supplement entries
	FDSelectFormat int // 0, 3; -1 for name-keyed fonts

	// IntForms counts DICT integer operands by encoded length (1, 2, 3, 5
	// bytes); Reals counts real operands; NonMinimalInts counts integer
	// operands not in their shortest form.
	IntForms       map[int]int
	Reals          int
	NonMinimalInts int

	Extents []Extent
	Gaps    int // bytes of the file not covered by any structure
}

// Parsed is the result of walking a file.
type Parsed struct {
	Font   *Font
	Layout Layout
}
