package refcffwalk

import (
	"fmt"
	"sort"
)

// DICT operators (TN5176 tables 9, 10, 23), one-byte operators as 0x00NN,
// two-byte operators (12 NN) as 0x0CNN.
const (
	OpVersion            = 0x0000
	OpNotice             = 0x0001
	OpFullName           = 0x0002
	OpFamilyName         = 0x0003
	OpWeight             = 0x0004
	OpFontBBox           = 0x0005
	OpBlueValues         = 0x0006
	OpOtherBlues         = 0x0007
	OpFamilyBlues        = 0x0008
	OpFamilyOtherBlues   = 0x0009
	OpStdHW              = 0x000A
	OpStdVW              = 0x000B
	OpUniqueID           = 0x000D
	OpXUID               = 0x000E
	OpCharset            = 0x000F
	OpEncoding           = 0x0010
	OpCharStrings        = 0x0011
	OpPrivate            = 0x0012
	OpSubrs              = 0x0013
	OpDefaultWidthX      = 0x0014
	OpNominalWidthX      = 0x0015
	OpCopyright          = 0x0C00
	OpIsFixedPitch       = 0x0C01
	OpItalicAngle        = 0x0C02
	OpUnderlinePosition  = 0x0C03
	OpUnderlineThickness = 0x0C04
	OpPaintType          = 0x0C05
	OpCharstringType     = 0x0C06
	OpFontMatrix         = 0x0C07
	OpStrokeWidth        = 0x0C08
	OpBlueScale          = 0x0C09
	OpBlueShift          = 0x0C0A
	OpBlueFuzz           = 0x0C0B
	OpStemSnapH          = 0x0C0C
	OpStemSnapV          = 0x0C0D
	OpForceBold          = 0x0C0E
	OpLanguageGroup      = 0x0C11
	OpExpansionFactor    = 0x0C12
	OpInitialRandomSeed  = 0x0C13
	OpSyntheticBase      = 0x0C14
	OpPostScript         = 0x0C15
	OpBaseFontName       = 0x0C16
	OpBaseFontBlend      = 0x0C17
	OpROS                = 0x0C1E
	OpCIDFontVersion     = 0x0C1F
	OpCIDFontRevision    = 0x0C20
	OpCIDFontType        = 0x0C21
	OpCIDCount           = 0x0C22
	OpUIDBase            = 0x0C23
	OpFDArray            = 0x0C24
	OpFDSelect           = 0x0C25
	OpFontName           = 0x0C26
)

type arity struct{ min, max int }

// topArity lists the operators allowed in Top and Font DICTs.
var topArity = map[uint16]arity{
	OpVersion: {1, 1}, OpNotice: {1, 1}, OpCopyright: {1, 1}, OpFullName: {1, 1},
	OpFamilyName: {1, 1}, OpWeight: {1, 1}, OpIsFixedPitch: {1, 1}, OpItalicAngle: {1, 1},
	OpUnderlinePosition: {1, 1}, OpUnderlineThickness: {1, 1}, OpPaintType: {1, 1},
	OpCharstringType: {1, 1}, OpFontMatrix: {6, 6}, OpUniqueID: {1, 1}, OpFontBBox: {4, 4},
	OpStrokeWidth: {1, 1}, OpXUID: {1, 16}, OpCharset: {1, 1}, OpEncoding: {1, 1},
	OpCharStrings: {1, 1}, OpPrivate: {2, 2}, OpSyntheticBase: {1, 1}, OpPostScript: {1, 1},
	OpBaseFontName: {1, 1}, OpBaseFontBlend: {1, 48},
	OpROS: {3, 3}, OpCIDFontVersion: {1, 1}, OpCIDFontRevision: {1, 1}, OpCIDFontType: {1, 1},
	OpCIDCount: {1, 1}, OpUIDBase: {1, 1}, OpFDArray: {1, 1}, OpFDSelect: {1, 1}, OpFontName: {1, 1},
}

var privateArity = map[uint16]arity{
	OpBlueValues: {0, 14}, OpOtherBlues: {0, 10}, OpFamilyBlues: {0, 14}, OpFamilyOtherBlues: {0, 10},
	OpBlueScale: {1, 1}, OpBlueShift: {1, 1}, OpBlueFuzz: {1, 1}, OpStdHW: {1, 1}, OpStdVW: {1, 1},
	OpStemSnapH: {0, 12}, OpStemSnapV: {0, 12}, OpForceBold: {1, 1}, OpLanguageGroup: {1, 1},
	OpExpansionFactor: {1, 1}, OpInitialRandomSeed: {1, 1}, OpSubrs: {1, 1},
	OpDefaultWidthX: {1, 1}, OpNominalWidthX: {1, 1},
}

type walker struct {
	data    []byte
	strings [][]byte
	lay     Layout
}

func (w *walker) extent(name string, start, end int) {
	w.lay.Extents = append(w.lay.Extents, Extent{name, start, end})
}

func (w *walker) index(pos int, name string) ([][]byte, int, error) {
	items, offSize, end, err := parseIndex(w.data, pos, name)
	if err != nil {
		return nil, 0, err
	}
	w.lay.OffSize[name] = offSize
	w.extent(name, pos, end)
	return items, end, nil
}

func (w *walker) sid(o Operand, what string) (string, error) {
	if o.IsReal || o.V < 0 || o.V > 65535 {
		return "", fmt.Errorf("%s: operand %v is not a SID", what, o.V)
	}
	return w.sidString(int(o.V), what)
}

func (w *walker) sidString(sid int, what string) (string, error) {
	if sid < len(StdStrings) {
		return StdStrings[sid], nil
	}
	k := sid - len(StdStrings)
	if k >= len(w.strings) {
		return "", fmt.Errorf("%s: SID %d beyond the String INDEX (%d custom strings)", what, sid, len(w.strings))
	}
	return string(w.strings[k]), nil
}

func (w *walker) noteOperands(entries []DictEntry) {
	for _, e := range entries {
		for _, a := range e.Args {
			if a.IsReal {
				w.lay.Reals++
				continue
			}
			w.lay.IntForms[a.Len]++
			if a.Len != MinIntLen(int32(a.V)) {
				w.lay.NonMinimalInts++
			}
		}
	}
}

func offsetOperand(o Operand, what string) (int, error) {
	if o.IsReal || o.V < 0 {
		return 0, fmt.Errorf("%s: operand %v is not a valid offset", what, o.V)
	}
	return int(o.V), nil
}

func vals(args []Operand) []float64 {
	res := make([]float64, len(args))
	for i, a := range args {
		res[i] = a.V
	}
	return res
}

func undelta(args []Operand) []float64 {
	res := make([]float64, len(args))
	acc := 0.0
	for i, a := range args {
		acc += a.V
		res[i] = acc
	}
	return res
}

// Parse walks a CFF font set containing exactly one font.
func Parse(data []byte) (*Parsed, error) { return parse(data, true) }

// ParseLayout is Parse without interpreting the charstrings (Font.Glyphs has
// the right length but holds zero values) and without the tiling check, so
// that fonts with arbitrary glyph programs, subroutines and unused bytes can
// be walked for their structure.
func ParseLayout(data []byte) (*Parsed, error) { return parse(data, false) }

func parse(data []byte, glyphs bool) (*Parsed, error) {
	w := &walker{data: data}
	w.lay.OffSize = map[string]int{}
	w.lay.IntForms = map[int]int{}
	f := &Font{}

	// header (TN5176 section 6)
	if len(data) < 4 {
		return nil, fmt.Errorf("header: file has %d bytes", len(data))
	}
	if data[0] != 1 {
		return nil, fmt.Errorf("header: major version %d", data[0])
	}
	hdrSize := int(data[2])
	if hdrSize < 4 || hdrSize > len(data) {
		return nil, fmt.Errorf("header: hdrSize %d", hdrSize)
	}
	if data[3] < 1 || data[3] > 4 {
		return nil, fmt.Errorf("header: offSize %d", data[3])
	}
	w.lay.HdrSize = hdrSize
	w.lay.HdrOffSize = int(data[3])
	w.extent("Header", 0, hdrSize)

	names, pos, err := w.index(hdrSize, "Name")
	if err != nil {
		return nil, err
	}
	if len(names) != 1 {
		return nil, fmt.Errorf("Name INDEX has %d entries (model handles exactly one font)", len(names))
	}
	f.Name = string(names[0])
	tops, pos, err := w.index(pos, "TopDICT")
	if err != nil {
		return nil, err
	}
	if len(tops) != 1 {
		return nil, fmt.Errorf("Top DICT INDEX has %d entries, Name INDEX has 1", len(tops))
	}
	w.strings, pos, err = w.index(pos, "String")
	if err != nil {
		return nil, err
	}
	if len(w.strings)+len(StdStrings) > 65536 {
		return nil, fmt.Errorf("String INDEX: %d custom strings exceed the SID range", len(w.strings))
	}
	f.GlobalSubrs, _, err = w.index(pos, "GlobalSubr")
	if err != nil {
		return nil, err
	}

	// Top DICT
	top, err := DecodeDict(tops[0])
	if err != nil {
		return nil, fmt.Errorf("Top DICT: %v", err)
	}
	w.noteOperands(top)
	f.Top.UnderlinePosition = -100
	f.Top.UnderlineThickness = 50
	charsetOff, encodingOff, charStringsOff := 0, 0, -1
	fdArrayOff, fdSelectOff := -1, -1
	var privSize, privOff int
	hasPrivate := false
	for k, e := range top {
		ar, ok := topArity[e.Op]
		if !ok {
			return nil, fmt.Errorf("Top DICT: operator %#04x is not a Top DICT operator", e.Op)
		}
		if len(e.Args) < ar.min || len(e.Args) > ar.max {
			return nil, fmt.Errorf("Top DICT: operator %#04x has %d operands", e.Op, len(e.Args))
		}
		what := fmt.Sprintf("Top DICT op %#04x", e.Op)
		switch e.Op {
		case OpVersion:
			f.Top.Version, err = w.sid(e.Args[0], what)
		case OpNotice:
			f.Top.Notice, err = w.sid(e.Args[0], what)
		case OpCopyright:
			f.Top.Copyright, err = w.sid(e.Args[0], what)
		case OpFullName:
			f.Top.FullName, err = w.sid(e.Args[0], what)
		case OpFamilyName:
			f.Top.FamilyName, err = w.sid(e.Args[0], what)
		case OpWeight:
			f.Top.Weight, err = w.sid(e.Args[0], what)
		case OpIsFixedPitch:
			f.Top.IsFixedPitch = e.Args[0].V != 0
		case OpItalicAngle:
			f.Top.ItalicAngle = e.Args[0].V
		case OpUnderlinePosition:
			f.Top.UnderlinePosition = e.Args[0].V
		case OpUnderlineThickness:
			f.Top.UnderlineThickness = e.Args[0].V
		case OpFontMatrix:
			var m Matrix
			copy(m[:], vals(e.Args))
			f.Top.FontMatrix = &m
		case OpCharstringType:
			if e.Args[0].V != 2 {
				return nil, fmt.Errorf("Top DICT: CharstringType %v", e.Args[0].V)
			}
		case OpCharset:
			charsetOff, err = offsetOperand(e.Args[0], what)
		case OpEncoding:
			encodingOff, err = offsetOperand(e.Args[0], what)
		case OpCharStrings:
			charStringsOff, err = offsetOperand(e.Args[0], what)
		case OpPrivate:
			hasPrivate = true
			privSize, err = offsetOperand(e.Args[0], what)
			if err == nil {
				privOff, err = offsetOperand(e.Args[1], what)
			}
		case OpROS:
			if k != 0 {
				return nil, fmt.Errorf("Top DICT: ROS is operator %d, must be first", k)
			}
			f.IsCID = true
			f.ROS.Registry, err = w.sid(e.Args[0], what)
			if err == nil {
				f.ROS.Ordering, err = w.sid(e.Args[1], what)
			}
			f.ROS.Supplement = e.Args[2].V
		case OpFDArray:
			fdArrayOff, err = offsetOperand(e.Args[0], what)
		case OpFDSelect:
			fdSelectOff, err = offsetOperand(e.Args[0], what)
		case OpPostScript, OpBaseFontName, OpFontName:
			if _, err = w.sid(e.Args[0], what); err == nil {
				f.Top.Extra = append(f.Top.Extra, Entry{e.Op, vals(e.Args)})
			}
		default:
			f.Top.Extra = append(f.Top.Extra, Entry{e.Op, vals(e.Args)})
		}
		if err != nil {
			return nil, err
		}
	}

	// CharStrings INDEX
	if charStringsOff < 0 {
		return nil, fmt.Errorf("Top DICT: no CharStrings operator")
	}
	charStrings, _, err := w.index(charStringsOff, "CharStrings")
	if err != nil {
		return nil, err
	}
	nGlyphs := len(charStrings)
	if nGlyphs == 0 {
		return nil, fmt.Errorf("CharStrings INDEX is empty")
	}

	// charset (section 13)
	var charset []int
	switch {
	case charsetOff <= 2:
		if f.IsCID {
			return nil, fmt.Errorf("CID-keyed font with predefined charset %d", charsetOff)
		}
		tab := [][]string{ISOAdobeCharset, ExpertCharset, ExpertSubsetCharset}[charsetOff]
		if nGlyphs > len(tab) {
			return nil, fmt.Errorf("predefined charset %d has %d names, font has %d glyphs", charsetOff, len(tab), nGlyphs)
		}
		w.lay.CharsetFormat = 100 + charsetOff
		f.GlyphNames = append([]string(nil), tab[:nGlyphs]...)
	default:
		charset, err = w.parseCharset(charsetOff, nGlyphs)
		if err != nil {
			return nil, err
		}
		seen := make(map[int]bool, nGlyphs)
		for gid, v := range charset {
			if seen[v] {
				return nil, fmt.Errorf("charset: value %d occurs twice (again at GID %d)", v, gid)
			}
			seen[v] = true
		}
		if f.IsCID {
			f.CIDs = charset
		} else {
			f.GlyphNames = make([]string, nGlyphs)
			for gid, sid := range charset {
				f.GlyphNames[gid], err = w.sidString(sid, fmt.Sprintf("charset GID %d", gid))
				if err != nil {
					return nil, err
				}
			}
		}
	}
	if !f.IsCID {
		seen := make(map[string]int, nGlyphs)
		for gid, n := range f.GlyphNames {
			if prev, dup := seen[n]; dup {
				return nil, fmt.Errorf("glyph name %q used for GID %d and %d", n, prev, gid)
			}
			seen[n] = gid
		}
	}

	// font dictionaries
	if f.IsCID {
		if hasPrivate {
			return nil, fmt.Errorf("CID-keyed Top DICT has a Private operator")
		}
		if fdArrayOff < 0 || fdSelectOff < 0 {
			return nil, fmt.Errorf("CID-keyed font without FDArray/FDSelect")
		}
		fds, _, err := w.index(fdArrayOff, "FDArray")
		if err != nil {
			return nil, err
		}
		if len(fds) == 0 || len(fds) > 256 {
			return nil, fmt.Errorf("FDArray has %d Font DICTs", len(fds))
		}
		for i, blob := range fds {
			fd, err := w.parseFontDict(blob, i)
			if err != nil {
				return nil, err
			}
			f.FDs = append(f.FDs, *fd)
		}
		f.FDSelect, err = w.parseFDSelect(fdSelectOff, nGlyphs, len(f.FDs))
		if err != nil {
			return nil, err
		}
		w.lay.EncodingFormat = -1
	} else {
		if fdArrayOff >= 0 || fdSelectOff >= 0 {
			return nil, fmt.Errorf("name-keyed font with FDArray/FDSelect")
		}
		if !hasPrivate {
			return nil, fmt.Errorf("Top DICT: no Private operator")
		}
		priv, err := w.parsePrivate(privSize, privOff, 0)
		if err != nil {
			return nil, err
		}
		f.FDs = []FD{{Private: *priv}}
		w.lay.FDSelectFormat = -1

		// encoding (section 12)
		switch {
		case encodingOff <= 1:
			w.lay.EncodingFormat = 100 + encodingOff
			f.Encoding = PredefinedEncoding(encodingOff, f.GlyphNames)
		default:
			if charset == nil {
				// SIDs are needed for supplements: derive them from the names
				charset = make([]int, nGlyphs)
				for gid, n := range f.GlyphNames {
					charset[gid] = -1
					for sid, s := range StdStrings {
						if s == n {
							charset[gid] = sid
						}
					}
				}
			}
			f.Encoding, err = w.parseEncoding(encodingOff, charset)
			if err != nil {
				return nil, err
			}
		}
	}

	// glyphs
	f.Glyphs = make([]Glyph, nGlyphs)
	for gid, cs := range charStrings {
		fd := 0
		if f.IsCID {
			fd = f.FDSelect[gid]
		}
		if !glyphs {
			break
		}
		p := &f.FDs[fd].Private
		f.Glyphs[gid], err = DecodeTrivial(cs, p.DefaultWidthX, p.NominalWidthX)
		if err != nil {
			return nil, fmt.Errorf("GID %d: %v", gid, err)
		}
	}

	if glyphs {
		if err := w.tile(); err != nil {
			return nil, err
		}
	}
	return &Parsed{Font: f, Layout: w.lay}, nil
}

func (w *walker) parseCharset(off, nGlyphs int) ([]int, error) {
	d := w.data
	if off >= len(d) {
		return nil, fmt.Errorf("charset offset %d outside the file", off)
	}
	format := int(d[off])
	pos := off + 1
	res := make([]int, 1, nGlyphs) // GID 0 is .notdef / CID 0 and is not stored
	need := func(n int) error {
		if pos+n > len(d) {
			return fmt.Errorf("charset (format %d) runs past the end of the file", format)
		}
		return nil
	}
	switch format {
	case 0:
		if err := need(2 * (nGlyphs - 1)); err != nil {
			return nil, err
		}
		for i := 1; i < nGlyphs; i++ {
			res = append(res, int(d[pos])<<8|int(d[pos+1]))
			pos += 2
		}
	case 1, 2:
		for len(res) < nGlyphs {
			if err := need(2 + format); err != nil {
				return nil, err
			}
			first := int(d[pos])<<8 | int(d[pos+1])
			nLeft := int(d[pos+2])
			if format == 2 {
				nLeft = nLeft<<8 | int(d[pos+3])
			}
			pos += 2 + format
			if len(res)+nLeft+1 > nGlyphs {
				return nil, fmt.Errorf("charset format %d: range (%d,%d) overshoots the %d glyphs", format, first, nLeft, nGlyphs)
			}
			if first+nLeft > 0xFFFF {
				return nil, fmt.Errorf("charset format %d: range (%d,%d) leaves the 16-bit range", format, first, nLeft)
			}
			for k := 0; k <= nLeft; k++ {
				res = append(res, first+k)
			}
		}
	default:
		return nil, fmt.Errorf("charset format %d", format)
	}
	w.lay.CharsetFormat = format
	w.extent("Charset", off, pos)
	return res, nil
}

// PredefinedEncoding returns the code->GID vector of predefined encoding
// id (0 Standard, 1 Expert) for the given glyph names.
func PredefinedEncoding(id int, glyphNames []string) [256]int {
	tab := StandardEncodingNames
	if id == 1 {
		tab = ExpertEncodingNames
	}
	byName := make(map[string]int, len(glyphNames))
	for gid, n := range glyphNames {
		byName[n] = gid
	}
	var res [256]int
	for code, n := range tab {
		if n == "" {
			continue
		}
		if gid, ok := byName[n]; ok {
			res[code] = gid
		}
	}
	return res
}

func (w *walker) parseEncoding(off int, charset []int) (enc [256]int, err error) {
	d := w.data
	nGlyphs := len(charset)
	if off >= len(d) {
		return enc, fmt.Errorf("encoding offset %d outside the file", off)
	}
	format := int(d[off])
	pos := off + 1
	need := func(n int) error {
		if pos+n > len(d) {
			return fmt.Errorf("encoding (format %#x) runs past the end of the file", format)
		}
		return nil
	}
	used := [256]bool{}
	gid := 1
	set := func(code int) error {
		if gid >= nGlyphs {
			return fmt.Errorf("encoding: more codes than glyphs (%d)", nGlyphs)
		}
		if used[code] {
			return fmt.Errorf("encoding: code %d assigned twice", code)
		}
		used[code] = true
		enc[code] = gid
		gid++
		return nil
	}
	switch format & 0x7f {
	case 0:
		if err = need(1); err != nil {
			return
		}
		n := int(d[pos])
		pos++
		if err = need(n); err != nil {
			return
		}
		for i := 0; i < n; i++ {
			if err = set(int(d[pos+i])); err != nil {
				return
			}
		}
		pos += n
	case 1:
		if err = need(1); err != nil {
			return
		}
		n := int(d[pos])
		pos++
		if err = need(2 * n); err != nil {
			return
		}
		for i := 0; i < n; i++ {
			first, nLeft := int(d[pos]), int(d[pos+1])
			pos += 2
			if first+nLeft > 255 {
				return enc, fmt.Errorf("encoding format 1: range (%d,%d) leaves the code range", first, nLeft)
			}
			for k := 0; k <= nLeft; k++ {
				if err = set(first + k); err != nil {
					return
				}
			}
		}
	default:
		return enc, fmt.Errorf("encoding format %#x", format)
	}
	w.lay.EncodingFormat = format & 0x7f
	if format&0x80 != 0 {
		if err = need(1); err != nil {
			return
		}
		n := int(d[pos])
		pos++
		if err = need(3 * n); err != nil {
			return
		}
		bySID := make(map[int]int, nGlyphs)
		for g, s := range charset {
			bySID[s] = g
		}
		for i := 0; i < n; i++ {
			code := int(d[pos])
			sid := int(d[pos+1])<<8 | int(d[pos+2])
			pos += 3
			g, ok := bySID[sid]
			if !ok {
				return enc, fmt.Errorf("encoding supplement: SID %d is not in the charset", sid)
			}
			if used[code] {
				return enc, fmt.Errorf("encoding supplement: code %d assigned twice", code)
			}
			used[code] = true
			enc[code] = g
		}
		w.lay.EncodingSupps = n
	}
	w.extent("Encoding", off, pos)
	return enc, nil
}

func (w *walker) parseFDSelect(off, nGlyphs, nFDs int) ([]int, error) {
	d := w.data
	if off >= len(d) {
		return nil, fmt.Errorf("FDSelect offset %d outside the file", off)
	}
	format := int(d[off])
	pos := off + 1
	res := make([]int, nGlyphs)
	switch format {
	case 0:
		if pos+nGlyphs > len(d) {
			return nil, fmt.Errorf("FDSelect format 0 runs past the end of the file")
		}
		for i := range res {
			res[i] = int(d[pos+i])
		}
		pos += nGlyphs
	case 3:
		if pos+2 > len(d) {
			return nil, fmt.Errorf("FDSelect format 3 truncated")
		}
		n := int(d[pos])<<8 | int(d[pos+1])
		pos += 2
		if n == 0 {
			return nil, fmt.Errorf("FDSelect format 3 without ranges")
		}
		if pos+3*n+2 > len(d) {
			return nil, fmt.Errorf("FDSelect format 3 runs past the end of the file")
		}
		firsts := make([]int, n+1)
		fds := make([]int, n)
		for i := 0; i < n; i++ {
			firsts[i] = int(d[pos])<<8 | int(d[pos+1])
			fds[i] = int(d[pos+2])
			pos += 3
		}
		firsts[n] = int(d[pos])<<8 | int(d[pos+1]) // sentinel
		pos += 2
		if firsts[0] != 0 {
			return nil, fmt.Errorf("FDSelect format 3: first range starts at %d", firsts[0])
		}
		if firsts[n] != nGlyphs {
			return nil, fmt.Errorf("FDSelect format 3: sentinel %d, %d glyphs", firsts[n], nGlyphs)
		}
		for i := 0; i < n; i++ {
			if firsts[i+1] <= firsts[i] {
				return nil, fmt.Errorf("FDSelect format 3: range starts not increasing at %d", i)
			}
			for g := firsts[i]; g < firsts[i+1]; g++ {
				res[g] = fds[i]
			}
		}
	default:
		return nil, fmt.Errorf("FDSelect format %d", format)
	}
	for g, fd := range res {
		if fd >= nFDs {
			return nil, fmt.Errorf("FDSelect: GID %d selects FD %d of %d", g, fd, nFDs)
		}
	}
	w.lay.FDSelectFormat = format
	w.extent("FDSelect", off, pos)
	return res, nil
}

func (w *walker) parseFontDict(blob []byte, idx int) (*FD, error) {
	entries, err := DecodeDict(blob)
	if err != nil {
		return nil, fmt.Errorf("Font DICT %d: %v", idx, err)
	}
	w.noteOperands(entries)
	fd := &FD{}
	hasPrivate := false
	var size, off int
	for _, e := range entries {
		ar, ok := topArity[e.Op]
		if !ok {
			return nil, fmt.Errorf("Font DICT %d: operator %#04x not allowed", idx, e.Op)
		}
		if len(e.Args) < ar.min || len(e.Args) > ar.max {
			return nil, fmt.Errorf("Font DICT %d: operator %#04x has %d operands", idx, e.Op, len(e.Args))
		}
		what := fmt.Sprintf("Font DICT %d op %#04x", idx, e.Op)
		switch e.Op {
		case OpROS, OpCharset, OpEncoding, OpCharStrings, OpFDArray, OpFDSelect:
			return nil, fmt.Errorf("Font DICT %d: operator %#04x not allowed", idx, e.Op)
		case OpFontName:
			fd.FontName, err = w.sid(e.Args[0], what)
		case OpFontMatrix:
			var m Matrix
			copy(m[:], vals(e.Args))
			fd.FontMatrix = &m
		case OpPrivate:
			hasPrivate = true
			size, err = offsetOperand(e.Args[0], what)
			if err == nil {
				off, err = offsetOperand(e.Args[1], what)
			}
		default:
			fd.Extra = append(fd.Extra, Entry{e.Op, vals(e.Args)})
		}
		if err != nil {
			return nil, err
		}
	}
	if !hasPrivate {
		return nil, fmt.Errorf("Font DICT %d: no Private operator", idx)
	}
	p, err := w.parsePrivate(size, off, idx)
	if err != nil {
		return nil, err
	}
	fd.Private = *p
	return fd, nil
}

func (w *walker) parsePrivate(size, off, idx int) (*Private, error) {
	if off+size > len(w.data) {
		return nil, fmt.Errorf("Private DICT %d: [%d,%d) outside the file (%d)", idx, off, off+size, len(w.data))
	}
	if size > 0 {
		w.extent(fmt.Sprintf("Private[%d]", idx), off, off+size)
	}
	entries, err := DecodeDict(w.data[off : off+size])
	if err != nil {
		return nil, fmt.Errorf("Private DICT %d: %v", idx, err)
	}
	w.noteOperands(entries)
	p := &Private{BlueScale: 0.039625, BlueShift: 7, BlueFuzz: 1}
	for _, e := range entries {
		ar, ok := privateArity[e.Op]
		if !ok {
			return nil, fmt.Errorf("Private DICT %d: operator %#04x is not a Private DICT operator", idx, e.Op)
		}
		if len(e.Args) < ar.min || len(e.Args) > ar.max {
			return nil, fmt.Errorf("Private DICT %d: operator %#04x has %d operands", idx, e.Op, len(e.Args))
		}
		switch e.Op {
		case OpBlueValues:
			p.BlueValues = undelta(e.Args)
		case OpOtherBlues:
			p.OtherBlues = undelta(e.Args)
		case OpBlueScale:
			p.BlueScale = e.Args[0].V
		case OpBlueShift:
			p.BlueShift = e.Args[0].V
		case OpBlueFuzz:
			p.BlueFuzz = e.Args[0].V
		case OpStdHW:
			v := e.Args[0].V
			p.StdHW = &v
		case OpStdVW:
			v := e.Args[0].V
			p.StdVW = &v
		case OpForceBold:
			p.ForceBold = e.Args[0].V != 0
		case OpDefaultWidthX:
			p.DefaultWidthX = e.Args[0].V
		case OpNominalWidthX:
			p.NominalWidthX = e.Args[0].V
		case OpSubrs:
			rel, err := offsetOperand(e.Args[0], "Subrs")
			if err != nil {
				return nil, err
			}
			p.HasSubrs = true
			name := fmt.Sprintf("Subrs[%d]", idx)
			p.Subrs, _, err = w.index(off+rel, name)
			if err != nil {
				return nil, fmt.Errorf("Private DICT %d: %v", idx, err)
			}
		case OpFamilyBlues, OpFamilyOtherBlues, OpStemSnapH, OpStemSnapV:
			p.Extra = append(p.Extra, Entry{e.Op, undelta(e.Args)})
		default:
			p.Extra = append(p.Extra, Entry{e.Op, vals(e.Args)})
		}
	}
	return p, nil
}

// tile checks that the structures found do not partially overlap and
// counts the bytes that belong to no structure.
func (w *walker) tile() error {
	ex := append([]Extent(nil), w.lay.Extents...)
	sort.SliceStable(ex, func(i, j int) bool {
		if ex[i].Start != ex[j].Start {
			return ex[i].Start < ex[j].Start
		}
		return ex[i].End < ex[j].End
	})
	pos := 0
	gaps := 0
	for i, e := range ex {
		if i > 0 && e.Start == ex[i-1].Start && e.End == ex[i-1].End {
			continue // one structure referenced twice (e.g. a shared Subrs INDEX)
		}
		if e.Start < pos {
			return fmt.Errorf("layout: %s [%d,%d) overlaps the preceding structure ending at %d", e.Name, e.Start, e.End, pos)
		}
		gaps += e.Start - pos
		pos = e.End
	}
	gaps += len(w.data) - pos
	w.lay.Gaps = gaps
	w.lay.Extents = ex
	return nil
}
