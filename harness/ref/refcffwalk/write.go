package refcffwalk

import (
	"fmt"
	"sort"
	"strings"
)

// Options selects among the equivalent encodings of a font.
type Options struct {
	HdrSize    int // 0 or >= 4; bytes 4.. are padding
	HdrOffSize int // 0 = smallest that holds the file size

	// OffSize requests an offSize for an INDEX by name (see Layout.OffSize;
	// "Subrs" applies to every local subroutine INDEX).  Requests smaller
	// than necessary are raised.
	OffSize map[string]int

	CharsetFormat  int  // 0, 1, 2; 100..102 = predefined id 0..2 where applicable (else format 0)
	EncodingFormat int  // 0, 1; 100, 101 = predefined id 0, 1 where applicable (else format 0)
	SuppHigh       bool // multiply-encoded glyphs: the highest code goes into the main table
	FDSelectFormat int  // 0 or 3

	OmitDefaults   bool // leave out operators whose value is the TN5176 default
	ExplicitWidths bool // write the width operand even if it equals defaultWidthX
	RealForInts    bool // integer-valued "number" operands (BlueShift, blue deltas, ...) may be spelled as reals
	CustomStd      bool // some standard strings are (also) stored in the String INDEX and referenced from there
	ReverseStrings bool // custom strings are stored in reverse order of first use
	JunkStrings    int  // unused strings added to the String INDEX
	Shuffle        bool // permute the sections that are reached through offsets
	Pad            bool // insert unused bytes between some sections

	// Pick returns a number in [0,n) and drives all fine-grained choices
	// (operand widths, real spellings, permutation).  nil means "always 0",
	// which gives the shortest encodings and the canonical order.
	Pick func(n int) int
}

// Write encodes f according to opt.  It returns the bytes and a short
// description of the choices that were actually made.  Write panics on a
// font that the format cannot represent (too many glyphs/strings, SIDs out
// of range, width deltas outside 16.16).
func Write(f *Font, opt Options) ([]byte, string) {
	wr := &writer{f: f, opt: opt, sid: map[string]int{}}
	if wr.opt.Pick == nil {
		wr.opt.Pick = func(int) int { return 0 }
	}
	return wr.run()
}

type offRef struct {
	val   int
	width int // sticky operand width
}

func (r *offRef) encode() []byte {
	lens := legalIntLens(int32(r.val))
	for _, l := range lens {
		if l >= r.width {
			r.width = l
			return EncodeInt(int32(r.val), l)
		}
	}
	panic("refcffwalk: no operand width")
}

type dictArg struct {
	fixed []byte
	ref   *offRef
}

type dictItem struct {
	op   uint16
	args []dictArg
}

func encodeDictItems(items []dictItem) []byte {
	var out []byte
	for _, it := range items {
		if len(it.args) > maxDictOperands {
			panic("refcffwalk: too many operands")
		}
		for _, a := range it.args {
			if a.ref != nil {
				out = append(out, a.ref.encode()...)
			} else {
				out = append(out, a.fixed...)
			}
		}
		if it.op>>8 == 0x0C {
			out = append(out, 12, byte(it.op))
		} else {
			out = append(out, byte(it.op))
		}
	}
	return out
}

type writer struct {
	f   *Font
	opt Options

	custom []string
	sid    map[string]int
	trace  []string
}

func (w *writer) note(format string, a ...any) {
	w.trace = append(w.trace, fmt.Sprintf(format, a...))
}

// operand classes
const (
	clsReal   = iota // any spelling: integer forms if integral, else real
	clsNumber        // integer-valued "number": integer forms, real only with RealForInts
	clsInt           // SIDs, booleans, sizes: integer forms only
)

func (w *writer) num(x float64, cls int) dictArg {
	pick := w.opt.Pick
	if isInt32(x) {
		asReal := false
		switch cls {
		case clsReal:
			asReal = pick(4) == 3
		case clsNumber:
			asReal = w.opt.RealForInts && pick(3) == 2
		}
		if !asReal {
			lens := legalIntLens(int32(x))
			return dictArg{fixed: EncodeInt(int32(x), lens[pick(len(lens))])}
		}
	} else if cls != clsReal {
		panic(fmt.Sprintf("refcffwalk: %v is not an integer", x))
	}
	sp := RealSpelling{}
	switch pick(4) {
	case 0:
		sp.Digits = 0
	case 1:
		sp.Digits = 17
	case 2:
		sp.Digits = 9 + pick(9)
	case 3:
		sp.Digits = 9
	}
	if cls == clsNumber {
		sp.Digits = 0 // an integer must keep all its digits
	}
	sp.Exp = pick(3)
	sp.NoLeading = pick(2) == 1
	sp.PadExp = pick(3) == 2
	sp.TrailZero = pick(4) == 3
	return dictArg{fixed: EncodeRealText(FormatReal(x, sp))}
}

func (w *writer) nums(xs []float64, cls int) []dictArg {
	res := make([]dictArg, len(xs))
	for i, x := range xs {
		res[i] = w.num(x, cls)
	}
	return res
}

func (w *writer) deltas(xs []float64) []dictArg {
	res := make([]dictArg, len(xs))
	prev := 0.0
	for i, x := range xs {
		res[i] = w.num(x-prev, clsNumber)
		prev = x
	}
	return res
}

func (w *writer) sidArg(s string) dictArg {
	return w.num(float64(w.sidOf(s)), clsInt)
}

func stdSID(s string) int {
	for i, t := range StdStrings {
		if s == t {
			return i
		}
	}
	return -1
}

// collect assigns SIDs to all strings of the font.
func (w *writer) collect() {
	f := w.f
	var all []string
	add := func(s string) { all = append(all, s) }
	for _, s := range []string{f.Top.Version, f.Top.Notice, f.Top.Copyright, f.Top.FullName, f.Top.FamilyName, f.Top.Weight} {
		if s != "" {
			add(s)
		}
	}
	if f.IsCID {
		add(f.ROS.Registry)
		add(f.ROS.Ordering)
		for _, fd := range f.FDs {
			if fd.FontName != "" {
				add(fd.FontName)
			}
		}
	} else {
		for _, n := range f.GlyphNames {
			add(n)
		}
	}
	std := make(map[string]int, len(StdStrings))
	for i, s := range StdStrings {
		std[s] = i
	}
	for _, s := range all {
		if _, done := w.sid[s]; done {
			continue
		}
		// (with a predefined charset the glyph names implicitly carry their
		// standard SIDs, so no second SID may be introduced for them)
		customStd := w.opt.CustomStd && (f.IsCID || w.opt.CharsetFormat < 100)
		if id, ok := std[s]; ok && !(customStd && w.opt.Pick(3) == 2) {
			w.sid[s] = id
			continue
		}
		w.sid[s] = -1 // custom, numbered below
		w.custom = append(w.custom, s)
	}
	for i := 0; i < w.opt.JunkStrings; i++ {
		w.custom = append(w.custom, fmt.Sprintf("junk%d!", i))
	}
	if w.opt.ReverseStrings {
		for i, j := 0, len(w.custom)-1; i < j; i, j = i+1, j-1 {
			w.custom[i], w.custom[j] = w.custom[j], w.custom[i]
		}
	}
	if len(w.custom)+len(StdStrings) > 65536 {
		panic("refcffwalk: too many strings")
	}
	for i, s := range w.custom {
		if v, ok := w.sid[s]; ok && v == -1 {
			w.sid[s] = len(StdStrings) + i
		}
	}
}

func (w *writer) sidOf(s string) int {
	id, ok := w.sid[s]
	if !ok {
		panic("refcffwalk: string not collected: " + s)
	}
	return id
}

func (w *writer) offSize(name string) int {
	if strings.HasPrefix(name, "Subrs[") {
		name = "Subrs"
	}
	return w.opt.OffSize[name]
}

func (w *writer) extra(es []Entry) []dictItem {
	var res []dictItem
	for _, e := range es {
		var args []dictArg
		switch e.Op {
		case OpFamilyBlues, OpFamilyOtherBlues, OpStemSnapH, OpStemSnapV:
			// delta arrays; fractional values are legal here
			prev := 0.0
			for _, x := range e.Args {
				args = append(args, w.num(x-prev, clsReal))
				prev = x
			}
		case OpPostScript, OpBaseFontName, OpFontName:
			args = w.nums(e.Args, clsInt)
		default:
			args = w.nums(e.Args, clsReal)
		}
		res = append(res, dictItem{e.Op, args})
	}
	return res
}

func (w *writer) matrixItem(m *Matrix) dictItem {
	return dictItem{OpFontMatrix, w.nums(m[:], clsReal)}
}

func isDefaultMatrix(m *Matrix) bool {
	return *m == Matrix{0.001, 0, 0, 0.001, 0, 0}
}

type section struct {
	name string
	data []byte
	pad  int
	off  int
}

func (w *writer) run() ([]byte, string) {
	f := w.f
	opt := w.opt
	pick := opt.Pick
	nGlyphs := len(f.Glyphs)
	if nGlyphs < 1 || nGlyphs > 65535 {
		panic("refcffwalk: glyph count out of range")
	}
	w.collect()

	// ---- sections with fixed content --------------------------------
	hdrSize := opt.HdrSize
	if hdrSize < 4 {
		hdrSize = 4
	}
	nameIndex := encodeIndex([][]byte{[]byte(f.Name)}, w.offSize("Name"))
	strItems := make([][]byte, len(w.custom))
	for i, s := range w.custom {
		strItems[i] = []byte(s)
	}
	stringIndex := encodeIndex(strItems, w.offSize("String"))
	gsubrIndex := encodeIndex(f.GlobalSubrs, w.offSize("GlobalSubr"))

	css := make([][]byte, nGlyphs)
	for gid, g := range f.Glyphs {
		fd := 0
		if f.IsCID {
			fd = f.FDSelect[gid]
		}
		p := &f.FDs[fd].Private
		css[gid] = EncodeTrivial(g, p.DefaultWidthX, p.NominalWidthX, opt.ExplicitWidths, pick)
	}
	charStrings := encodeIndex(css, w.offSize("CharStrings"))

	var charsetData, encodingData, fdSelectData []byte
	charsetID, encodingID := -1, -1
	if f.IsCID {
		charsetData = w.encodeCharset(f.CIDs)
		fdSelectData = w.encodeFDSelect()
	} else {
		if opt.CharsetFormat >= 100 {
			// the requested predefined charset first, then the other two
			for k := 0; k < 3 && charsetID < 0; k++ {
				id := (opt.CharsetFormat - 100 + k) % 3
				tab := [][]string{ISOAdobeCharset, ExpertCharset, ExpertSubsetCharset}[id]
				if nGlyphs <= len(tab) {
					ok := true
					for i, n := range f.GlyphNames {
						ok = ok && n == tab[i]
					}
					if ok {
						charsetID = id
					}
				}
			}
		}
		sids := make([]int, nGlyphs)
		for i, n := range f.GlyphNames {
			sids[i] = w.sidOf(n)
		}
		if charsetID < 0 {
			charsetData = w.encodeCharset(sids)
		} else {
			w.note("charset=predef%d", charsetID)
		}
		if opt.EncodingFormat >= 100 {
			for k := 0; k < 2 && encodingID < 0; k++ {
				id := (opt.EncodingFormat - 100 + k) % 2
				if PredefinedEncoding(id, f.GlyphNames) == f.Encoding {
					encodingID = id
				}
			}
		}
		if encodingID < 0 && !contiguousEncoding(&f.Encoding) {
			// formats 0 and 1 cannot express this vector; it must be one of
			// the predefined encodings
			for id := 0; id <= 1 && encodingID < 0; id++ {
				if PredefinedEncoding(id, f.GlyphNames) == f.Encoding {
					encodingID = id
				}
			}
			if encodingID < 0 {
				panic("refcffwalk: encoding is neither predefined nor of the form GIDs 1..m")
			}
		}
		if encodingID < 0 {
			encodingData = w.encodeEncoding(sids)
		} else {
			w.note("encoding=predef%d", encodingID)
		}
	}

	// ---- offsets that the dictionaries refer to -----------------------
	offCharset, offEncoding, offCharStrings := &offRef{}, &offRef{}, &offRef{}
	offFDArray, offFDSelect := &offRef{}, &offRef{}
	nFD := len(f.FDs)
	privOff := make([]*offRef, nFD)
	privSize := make([]*offRef, nFD)
	subrsRel := make([]*offRef, nFD)
	startWidth := func() int { return []int{1, 1, 3, 5}[pick(4)] }
	for _, r := range []*offRef{offCharset, offEncoding, offCharStrings, offFDArray, offFDSelect} {
		r.width = startWidth()
	}
	for i := range privOff {
		privOff[i] = &offRef{width: startWidth()}
		privSize[i] = &offRef{width: startWidth()}
		subrsRel[i] = &offRef{width: startWidth()}
	}

	// ---- dictionaries --------------------------------------------------
	var top []dictItem
	t := &f.Top
	if f.IsCID {
		top = append(top, dictItem{OpROS, []dictArg{w.sidArg(f.ROS.Registry), w.sidArg(f.ROS.Ordering), w.num(f.ROS.Supplement, clsNumber)}})
	}
	var topRest []dictItem
	str := func(op uint16, s string) {
		if s != "" {
			topRest = append(topRest, dictItem{op, []dictArg{w.sidArg(s)}})
		}
	}
	str(OpVersion, t.Version)
	str(OpNotice, t.Notice)
	str(OpCopyright, t.Copyright)
	str(OpFullName, t.FullName)
	str(OpFamilyName, t.FamilyName)
	str(OpWeight, t.Weight)
	omit := opt.OmitDefaults
	if t.IsFixedPitch || !omit {
		v := 0.0
		if t.IsFixedPitch {
			v = 1
		}
		topRest = append(topRest, dictItem{OpIsFixedPitch, []dictArg{w.num(v, clsInt)}})
	}
	if t.ItalicAngle != 0 || !omit {
		topRest = append(topRest, dictItem{OpItalicAngle, []dictArg{w.num(t.ItalicAngle, clsReal)}})
	}
	if t.UnderlinePosition != -100 || !omit {
		topRest = append(topRest, dictItem{OpUnderlinePosition, []dictArg{w.num(t.UnderlinePosition, clsReal)}})
	}
	if t.UnderlineThickness != 50 || !omit {
		topRest = append(topRest, dictItem{OpUnderlineThickness, []dictArg{w.num(t.UnderlineThickness, clsReal)}})
	}
	if !omit {
		topRest = append(topRest, dictItem{OpCharstringType, []dictArg{w.num(2, clsInt)}})
	}
	if t.FontMatrix != nil {
		topRest = append(topRest, w.matrixItem(t.FontMatrix))
	}
	topRest = append(topRest, w.extra(t.Extra)...)
	if charsetID >= 0 {
		if charsetID != 0 || !omit {
			topRest = append(topRest, dictItem{OpCharset, []dictArg{w.num(float64(charsetID), clsInt)}})
		}
	} else {
		topRest = append(topRest, dictItem{OpCharset, []dictArg{{ref: offCharset}}})
	}
	if !f.IsCID {
		if encodingID >= 0 {
			if encodingID != 0 || !omit {
				topRest = append(topRest, dictItem{OpEncoding, []dictArg{w.num(float64(encodingID), clsInt)}})
			}
		} else {
			topRest = append(topRest, dictItem{OpEncoding, []dictArg{{ref: offEncoding}}})
		}
		topRest = append(topRest, dictItem{OpPrivate, []dictArg{{ref: privSize[0]}, {ref: privOff[0]}}})
	} else {
		topRest = append(topRest, dictItem{OpFDArray, []dictArg{{ref: offFDArray}}})
		topRest = append(topRest, dictItem{OpFDSelect, []dictArg{{ref: offFDSelect}}})
	}
	topRest = append(topRest, dictItem{OpCharStrings, []dictArg{{ref: offCharStrings}}})
	w.permute(topRest)
	top = append(top, topRest...) // ROS stays first

	privItems := make([][]dictItem, nFD)
	fdItems := make([][]dictItem, nFD)
	for i := range f.FDs {
		fd := &f.FDs[i]
		p := &fd.Private
		var it []dictItem
		if len(p.BlueValues) > 0 || (!omit && pick(2) == 1) {
			it = append(it, dictItem{OpBlueValues, w.deltas(p.BlueValues)})
		}
		if len(p.OtherBlues) > 0 {
			it = append(it, dictItem{OpOtherBlues, w.deltas(p.OtherBlues)})
		}
		if p.BlueScale != 0.039625 || !omit {
			it = append(it, dictItem{OpBlueScale, []dictArg{w.num(p.BlueScale, clsReal)}})
		}
		if p.BlueShift != 7 || !omit {
			it = append(it, dictItem{OpBlueShift, []dictArg{w.num(p.BlueShift, clsNumber)}})
		}
		if p.BlueFuzz != 1 || !omit {
			it = append(it, dictItem{OpBlueFuzz, []dictArg{w.num(p.BlueFuzz, clsNumber)}})
		}
		if p.StdHW != nil {
			it = append(it, dictItem{OpStdHW, []dictArg{w.num(*p.StdHW, clsReal)}})
		}
		if p.StdVW != nil {
			it = append(it, dictItem{OpStdVW, []dictArg{w.num(*p.StdVW, clsReal)}})
		}
		if p.ForceBold || !omit {
			v := 0.0
			if p.ForceBold {
				v = 1
			}
			it = append(it, dictItem{OpForceBold, []dictArg{w.num(v, clsInt)}})
		}
		if p.DefaultWidthX != 0 || !omit {
			it = append(it, dictItem{OpDefaultWidthX, []dictArg{w.num(p.DefaultWidthX, clsReal)}})
		}
		if p.NominalWidthX != 0 || !omit {
			it = append(it, dictItem{OpNominalWidthX, []dictArg{w.num(p.NominalWidthX, clsReal)}})
		}
		it = append(it, w.extra(p.Extra)...)
		if p.HasSubrs {
			it = append(it, dictItem{OpSubrs, []dictArg{{ref: subrsRel[i]}}})
		} else if len(p.Subrs) > 0 {
			panic("refcffwalk: Subrs without HasSubrs")
		}
		w.permute(it)
		privItems[i] = it

		if f.IsCID {
			var d []dictItem
			if fd.FontName != "" {
				d = append(d, dictItem{OpFontName, []dictArg{w.sidArg(fd.FontName)}})
			}
			if fd.FontMatrix != nil {
				d = append(d, w.matrixItem(fd.FontMatrix))
			}
			d = append(d, w.extra(fd.Extra)...)
			d = append(d, dictItem{OpPrivate, []dictArg{{ref: privSize[i]}, {ref: privOff[i]}}})
			w.permute(d)
			fdItems[i] = d
		}
	}

	// ---- floating sections and their order ---------------------------
	var float []*section
	addSec := func(name string) *section {
		s := &section{name: name}
		float = append(float, s)
		return s
	}
	var secCharset, secEncoding, secFDSelect, secFDArray *section
	if charsetData != nil {
		secCharset = addSec("Charset")
		secCharset.data = charsetData
	}
	if encodingData != nil {
		secEncoding = addSec("Encoding")
		secEncoding.data = encodingData
	}
	if f.IsCID {
		secFDSelect = addSec("FDSelect")
		secFDSelect.data = fdSelectData
	}
	secCharStrings := addSec("CharStrings")
	secCharStrings.data = charStrings
	if f.IsCID {
		secFDArray = addSec("FDArray")
	}
	secPriv := make([]*section, nFD)
	secSubrs := make([]*section, nFD)
	for i := range f.FDs {
		secPriv[i] = addSec(fmt.Sprintf("Private[%d]", i))
		if f.FDs[i].Private.HasSubrs {
			name := fmt.Sprintf("Subrs[%d]", i)
			secSubrs[i] = addSec(name)
			secSubrs[i].data = encodeIndex(f.FDs[i].Private.Subrs, w.offSize(name))
		}
	}
	if opt.Shuffle {
		for i := len(float) - 1; i > 0; i-- {
			j := pick(i + 1)
			float[i], float[j] = float[j], float[i]
		}
		// a Subrs INDEX is addressed by a non-negative offset from its Private DICT
		posOf := func(s *section) int {
			for i, t := range float {
				if t == s {
					return i
				}
			}
			return -1
		}
		for i := range secPriv {
			if secSubrs[i] != nil {
				a, b := posOf(secPriv[i]), posOf(secSubrs[i])
				if b < a {
					float[a], float[b] = float[b], float[a]
				}
			}
		}
		var names []string
		for _, s := range float {
			names = append(names, s.name)
		}
		if len(names) > 12 {
			names = append(names[:12], "...")
		}
		w.note("order=%s", strings.Join(names, ","))
	}
	if opt.Pad {
		for _, s := range float {
			if pick(3) == 2 {
				s.pad = 1 + pick(5)
			}
		}
		w.note("pad")
	}

	// ---- fixed point over the offsets ----------------------------------
	var topIndex []byte
	for iter := 0; ; iter++ {
		if iter > 100 {
			panic("refcffwalk: layout does not converge")
		}
		for i := range f.FDs {
			secPriv[i].data = encodeDictItems(privItems[i])
		}
		if f.IsCID {
			blobs := make([][]byte, nFD)
			for i := range blobs {
				blobs[i] = encodeDictItems(fdItems[i])
			}
			secFDArray.data = encodeIndex(blobs, w.offSize("FDArray"))
		}
		topIndex = encodeIndex([][]byte{encodeDictItems(top)}, w.offSize("TopDICT"))

		pos := hdrSize + len(nameIndex) + len(topIndex) + len(stringIndex) + len(gsubrIndex)
		for _, s := range float {
			pos += s.pad
			s.off = pos
			pos += len(s.data)
		}
		changed := false
		set := func(r *offRef, v int) {
			if r.val != v {
				r.val = v
				changed = true
			}
		}
		if secCharset != nil {
			set(offCharset, secCharset.off)
		}
		if secEncoding != nil {
			set(offEncoding, secEncoding.off)
		}
		set(offCharStrings, secCharStrings.off)
		if f.IsCID {
			set(offFDArray, secFDArray.off)
			set(offFDSelect, secFDSelect.off)
		}
		for i := range f.FDs {
			set(privOff[i], secPriv[i].off)
			set(privSize[i], len(secPriv[i].data))
			if secSubrs[i] != nil {
				set(subrsRel[i], secSubrs[i].off-secPriv[i].off)
			}
		}
		if !changed {
			break
		}
	}

	// ---- assemble ----------------------------------------------------------
	total := hdrSize + len(nameIndex) + len(topIndex) + len(stringIndex) + len(gsubrIndex)
	for _, s := range float {
		total += s.pad + len(s.data)
	}
	hdrOff := opt.HdrOffSize
	if m := minOffSize(total - 1); hdrOff < m {
		hdrOff = m
	}
	if hdrOff > 4 {
		hdrOff = 4
	}
	out := make([]byte, 0, total)
	out = append(out, 1, 0, byte(hdrSize), byte(hdrOff))
	for len(out) < hdrSize {
		out = append(out, 0xAA)
	}
	out = append(out, nameIndex...)
	out = append(out, topIndex...)
	out = append(out, stringIndex...)
	out = append(out, gsubrIndex...)
	for _, s := range float {
		for k := 0; k < s.pad; k++ {
			out = append(out, 0x55)
		}
		if len(out) != s.off {
			panic("refcffwalk: layout bookkeeping")
		}
		out = append(out, s.data...)
	}
	sort.Strings(w.trace)
	return out, strings.Join(w.trace, " ")
}

// contiguousEncoding reports whether the encoded glyphs are exactly GIDs
// 1..m for some m, the only shape encoding formats 0 and 1 can express.
func contiguousEncoding(enc *[256]int) bool {
	has := map[int]bool{}
	maxGID := 0
	for _, gid := range enc {
		if gid != 0 {
			has[gid] = true
			if gid > maxGID {
				maxGID = gid
			}
		}
	}
	return len(has) == maxGID
}

func (w *writer) permute(items []dictItem) {
	if !w.opt.Shuffle {
		return
	}
	for i := len(items) - 1; i > 0; i-- {
		j := w.opt.Pick(i + 1)
		items[i], items[j] = items[j], items[i]
	}
}

// encodeCharset writes the charset for vals (vals[0] is GID 0 and is not
// stored) in the requested format.
func (w *writer) encodeCharset(vals []int) []byte {
	for _, v := range vals {
		if v < 0 || v > 0xFFFF {
			panic(fmt.Sprintf("refcffwalk: charset value %d out of range", v))
		}
	}
	format := w.opt.CharsetFormat
	if format < 0 || format > 2 {
		format = 0
	}
	w.note("charset=%d", format)
	out := []byte{byte(format)}
	rest := vals[1:]
	if format == 0 {
		for _, v := range rest {
			out = append(out, byte(v>>8), byte(v))
		}
		return out
	}
	maxLeft := 255
	if format == 2 {
		maxLeft = 65535
	}
	for i := 0; i < len(rest); {
		j := i
		for j+1 < len(rest) && rest[j+1] == rest[j]+1 && j-i < maxLeft {
			j++
		}
		// optionally split a run although it could be longer
		if j > i && w.opt.Pick(8) == 7 {
			j = i + w.opt.Pick(j-i+1)
		}
		nLeft := j - i
		out = append(out, byte(rest[i]>>8), byte(rest[i]))
		if format == 2 {
			out = append(out, byte(nLeft>>8))
		}
		out = append(out, byte(nLeft))
		i = j + 1
	}
	return out
}

// encodeEncoding writes a custom encoding.  The glyphs that have a code
// must be exactly GIDs 1..m for some m (a format restriction: formats 0 and
// 1 assign codes to consecutive GIDs starting at 1).
func (w *writer) encodeEncoding(sids []int) []byte { return w.encodeEncodingPrefix(sids, -1) }

// encodeEncodingPrefix writes the encoding with glyphs 1..prefix in the main
// table and every other code as a supplement (prefix < 0: all encoded glyphs
// in the main table, or - sometimes, as an equivalent spelling - a drawn
// shorter prefix).
func (w *writer) encodeEncodingPrefix(sids []int, prefix int) []byte {
	f := w.f
	codes := map[int][]int{} // gid -> codes, ascending
	maxGID := 0
	for code, gid := range f.Encoding {
		if gid == 0 {
			continue
		}
		if gid < 0 || gid >= len(f.Glyphs) {
			panic("refcffwalk: encoding refers to a missing glyph")
		}
		codes[gid] = append(codes[gid], code)
		if gid > maxGID {
			maxGID = gid
		}
	}
	type sup struct{ code, sid int }
	var sups []sup
	if prefix < 0 && maxGID > 1 && w.opt.Pick(8) == 7 {
		// equivalent spelling: a shorter main table, the rest as supplements
		if p := w.opt.Pick(maxGID + 1); func() int {
			n := 0
			for gid := 1; gid <= maxGID; gid++ {
				if gid > p {
					n += len(codes[gid])
				} else if len(codes[gid]) > 1 {
					n += len(codes[gid]) - 1
				}
			}
			return n
		}() <= 255 {
			prefix = p
		}
	}
	if prefix >= 0 && prefix < maxGID {
		for gid := prefix + 1; gid <= maxGID; gid++ {
			for _, c := range codes[gid] {
				sups = append(sups, sup{c, sids[gid]})
			}
		}
		maxGID = prefix
	}
	main := make([]int, maxGID+1)
	for gid := 1; gid <= maxGID; gid++ {
		cs := codes[gid]
		if len(cs) == 0 {
			panic(fmt.Sprintf("refcffwalk: encoded glyphs are not GIDs 1..%d (GID %d has no code)", maxGID, gid))
		}
		k := 0
		if w.opt.SuppHigh {
			k = len(cs) - 1
		}
		main[gid] = cs[k]
		for i, c := range cs {
			if i != k {
				sups = append(sups, sup{c, sids[gid]})
			}
		}
	}
	format := w.opt.EncodingFormat
	if format != 1 {
		format = 0
	}
	if format == 0 && maxGID > 255 {
		format = 1 // nCodes is a Card8
	}
	w.note("encoding=%d+%d", format, len(sups))
	var out []byte
	if format == 0 {
		out = []byte{0, byte(maxGID)}
		for gid := 1; gid <= maxGID; gid++ {
			out = append(out, byte(main[gid]))
		}
	} else {
		n := 0
		// ranges are sometimes split at random; when that needs more than
		// the 255 ranges a Card8 can count, the maximal ranges are used
		for _, split := range []bool{true, false} {
			out = []byte{1, 0}
			n = 0
			for i := 1; i <= maxGID; {
				j := i
				for j+1 <= maxGID && main[j+1] == main[j]+1 {
					j++
				}
				if split && j > i && w.opt.Pick(8) == 7 {
					j = i + w.opt.Pick(j-i+1)
				}
				out = append(out, byte(main[i]), byte(j-i))
				n++
				i = j + 1
			}
			if n <= 255 {
				break
			}
		}
		if n > 255 {
			// too many ranges for a Card8: only format 0 can hold this
			w.trace = w.trace[:len(w.trace)-1]
			if maxGID > 255 {
				// 256 glyphs in 256 ranges: neither table form holds them;
				// glyph 256 goes to the supplemental codes (format 0 then fits)
				w.opt.EncodingFormat = 0
				return w.encodeEncodingPrefix(sids, 255)
			}
			w.opt.EncodingFormat = 0
			return w.encodeEncodingPrefix(sids, maxGID)
		}
		out[1] = byte(n)
	}
	if len(sups) > 0 {
		if len(sups) > 255 {
			panic("refcffwalk: too many encoding supplements")
		}
		out[0] |= 0x80
		out = append(out, byte(len(sups)))
		for _, s := range sups {
			out = append(out, byte(s.code), byte(s.sid>>8), byte(s.sid))
		}
	}
	return out
}

func (w *writer) encodeFDSelect() []byte {
	sel := w.f.FDSelect
	for _, fd := range sel {
		if fd < 0 || fd >= len(w.f.FDs) || fd > 255 {
			panic("refcffwalk: FDSelect out of range")
		}
	}
	w.note("fdselect=%d", w.opt.FDSelectFormat)
	if w.opt.FDSelectFormat != 3 {
		out := make([]byte, 1, 1+len(sel))
		for _, fd := range sel {
			out = append(out, byte(fd))
		}
		return out
	}
	out := []byte{3, 0, 0}
	n := 0
	for i, fd := range sel {
		// a new range starts where the FD changes (or, rarely, anywhere)
		if i == 0 || fd != sel[i-1] || w.opt.Pick(64) == 63 && len(sel) < 5000 {
			out = append(out, byte(i>>8), byte(i), byte(fd))
			n++
		}
	}
	out[1], out[2] = byte(n>>8), byte(n)
	return append(out, byte(len(sel)>>8), byte(len(sel)))
}
