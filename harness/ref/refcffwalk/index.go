package refcffwalk

import "fmt"

// parseIndex walks the INDEX starting at pos and returns its elements, its
// offSize (0 for an empty INDEX) and the position just after it.
func parseIndex(data []byte, pos int, name string) (items [][]byte, offSize, end int, err error) {
	if pos < 0 || pos+2 > len(data) {
		return nil, 0, 0, fmt.Errorf("%s INDEX: count at %d outside the file (len %d)", name, pos, len(data))
	}
	count := int(data[pos])<<8 | int(data[pos+1])
	if count == 0 {
		// TN5176 section 5: an empty INDEX is just the two-byte count.
		return nil, 0, pos + 2, nil
	}
	if pos+3 > len(data) {
		return nil, 0, 0, fmt.Errorf("%s INDEX: truncated header", name)
	}
	offSize = int(data[pos+2])
	if offSize < 1 || offSize > 4 {
		return nil, 0, 0, fmt.Errorf("%s INDEX: offSize %d", name, offSize)
	}
	offStart := pos + 3
	dataBase := offStart + (count+1)*offSize - 1 // offsets are relative to the byte before the data
	if dataBase+1 > len(data) {
		return nil, 0, 0, fmt.Errorf("%s INDEX: offset array (count %d, offSize %d) runs past the end", name, count, offSize)
	}
	offs := make([]int, count+1)
	for i := range offs {
		v := 0
		for j := 0; j < offSize; j++ {
			v = v<<8 | int(data[offStart+i*offSize+j])
		}
		offs[i] = v
	}
	if offs[0] != 1 {
		return nil, 0, 0, fmt.Errorf("%s INDEX: first offset is %d, not 1", name, offs[0])
	}
	for i := 1; i <= count; i++ {
		if offs[i] < offs[i-1] {
			return nil, 0, 0, fmt.Errorf("%s INDEX: offsets decrease at %d (%d < %d)", name, i, offs[i], offs[i-1])
		}
	}
	end = dataBase + offs[count]
	if end > len(data) {
		return nil, 0, 0, fmt.Errorf("%s INDEX: data end %d past the end of the file (%d)", name, end, len(data))
	}
	items = make([][]byte, count)
	for i := range items {
		items[i] = data[dataBase+offs[i] : dataBase+offs[i+1]]
	}
	return items, offSize, end, nil
}

// minOffSize is the smallest offSize that can hold the offsets of an INDEX
// with the given total data length.
func minOffSize(dataLen int) int {
	last := dataLen + 1
	switch {
	case last < 1<<8:
		return 1
	case last < 1<<16:
		return 2
	case last < 1<<24:
		return 3
	}
	return 4
}

// encodeIndex writes an INDEX with the given offSize (0 = smallest).
func encodeIndex(items [][]byte, offSize int) []byte {
	if len(items) == 0 {
		return []byte{0, 0}
	}
	if len(items) > 0xFFFF {
		panic("refcffwalk: too many INDEX items")
	}
	total := 0
	for _, it := range items {
		total += len(it)
	}
	if m := minOffSize(total); offSize < m {
		offSize = m
	}
	out := make([]byte, 0, 3+(len(items)+1)*offSize+total)
	out = append(out, byte(len(items)>>8), byte(len(items)), byte(offSize))
	pos := 1
	put := func(v int) {
		for j := offSize - 1; j >= 0; j-- {
			out = append(out, byte(v>>(8*j)))
		}
	}
	put(pos)
	for _, it := range items {
		pos += len(it)
		put(pos)
	}
	for _, it := range items {
		out = append(out, it...)
	}
	return out
}
