package refcffwalk

import "testing"

// The generated tables are cross-checked against the SID-range form in
// which TN5176 appendices B and C define the predefined charsets/encodings.

type rng struct{ lo, hi int }

func expand(rs []rng) []int {
	var out []int
	for _, r := range rs {
		for v := r.lo; v <= r.hi; v++ {
			out = append(out, v)
		}
	}
	return out
}

func TestPredefinedCharsets(t *testing.T) {
	if len(StdStrings) != 391 {
		t.Fatalf("%d standard strings", len(StdStrings))
	}
	seen := map[string]int{}
	for i, s := range StdStrings {
		if j, dup := seen[s]; dup {
			t.Errorf("standard string %q at %d and %d", s, j, i)
		}
		seen[s] = i
	}
	iso := expand([]rng{{0, 228}})
	expert := expand([]rng{{0, 1}, {229, 238}, {13, 15}, {99, 99}, {239, 248}, {27, 28}, {249, 266}, {109, 110},
		{267, 318}, {158, 158}, {155, 155}, {163, 163}, {319, 326}, {150, 150}, {164, 164}, {169, 169}, {327, 378}})
	subset := expand([]rng{{0, 1}, {231, 232}, {235, 238}, {13, 15}, {99, 99}, {239, 248}, {27, 28}, {249, 251},
		{253, 266}, {109, 110}, {267, 270}, {272, 272}, {300, 302}, {305, 305}, {314, 315}, {158, 158}, {155, 155},
		{163, 163}, {320, 326}, {150, 150}, {164, 164}, {169, 169}, {327, 346}})
	for _, c := range []struct {
		name string
		sids []int
		tab  []string
	}{{"ISOAdobe", iso, ISOAdobeCharset}, {"Expert", expert, ExpertCharset}, {"ExpertSubset", subset, ExpertSubsetCharset}} {
		if len(c.sids) != len(c.tab) {
			t.Errorf("%s: %d SIDs, %d names", c.name, len(c.sids), len(c.tab))
			continue
		}
		for i, sid := range c.sids {
			if StdStrings[sid] != c.tab[i] {
				t.Errorf("%s[%d]: SID %d = %q, table has %q", c.name, i, sid, StdStrings[sid], c.tab[i])
			}
		}
	}
}

func TestPredefinedEncodings(t *testing.T) {
	type m struct{ code, sid, n int }
	std := []m{{32, 1, 95}, {161, 96, 15}, {177, 111, 4}, {182, 115, 8}, {191, 123, 1}, {193, 124, 8}, {202, 132, 2},
		{205, 134, 4}, {225, 138, 1}, {227, 139, 1}, {232, 140, 4}, {241, 144, 1}, {245, 145, 1}, {248, 146, 4}}
	exp := []m{{32, 1, 1}, {33, 229, 2}, {36, 231, 8}, {44, 13, 3}, {47, 99, 1}, {48, 239, 10}, {58, 27, 2}, {60, 249, 4},
		{65, 253, 5}, {73, 258, 1}, {76, 259, 4}, {82, 263, 3}, {86, 266, 1}, {87, 109, 2}, {89, 267, 3}, {93, 270, 4},
		{97, 274, 26}, {123, 300, 4}, {161, 304, 3}, {166, 307, 5}, {172, 312, 1}, {175, 313, 1}, {178, 314, 2},
		{182, 316, 3}, {188, 158, 1}, {189, 155, 1}, {190, 163, 1}, {191, 319, 7}, {200, 326, 1}, {201, 150, 1},
		{202, 164, 1}, {203, 169, 1}, {204, 327, 52}}
	for _, c := range []struct {
		name string
		ms   []m
		tab  []string
	}{{"Standard", std, StandardEncodingNames}, {"Expert", exp, ExpertEncodingNames}} {
		want := make([]string, 256)
		for _, r := range c.ms {
			for k := 0; k < r.n; k++ {
				want[r.code+k] = StdStrings[r.sid+k]
			}
		}
		if len(c.tab) != 256 {
			t.Fatalf("%s: %d entries", c.name, len(c.tab))
		}
		for code := range want {
			if want[code] != c.tab[code] {
				t.Errorf("%s[%d]: ranges give %q, table has %q", c.name, code, want[code], c.tab[code])
			}
		}
	}
}
