package refcffwalk

import (
	"fmt"
	"math"
)

// Type 2 charstring operators used by trivial glyphs (Adobe TN5177).
const (
	t2vmoveto = 4
	t2rlineto = 5
	t2hlineto = 6
	t2vlineto = 7
	t2endchar = 14
	t2rmoveto = 21
	t2hmoveto = 22
)

// DecodeTrivial interprets a charstring that consists of an optional width,
// at most one moveto followed by linetos, and endchar.
func DecodeTrivial(cs []byte, defaultWidth, nominalWidth float64) (Glyph, error) {
	g := Glyph{Width: defaultWidth}
	var stack []float64
	var x, y float64
	widthDone := false
	moved := false
	takeWidth := func(expected int) error {
		if widthDone {
			if len(stack) != expected {
				return fmt.Errorf("charstring: %d operands where %d expected", len(stack), expected)
			}
			return nil
		}
		widthDone = true
		switch len(stack) {
		case expected:
		case expected + 1:
			g.Width = nominalWidth + stack[0]
			stack = stack[1:]
		default:
			return fmt.Errorf("charstring: %d operands before the first operator (want %d or %d)", len(stack), expected, expected+1)
		}
		return nil
	}
	i := 0
	for i < len(cs) {
		b := cs[i]
		switch {
		case b == 28:
			if i+3 > len(cs) {
				return g, fmt.Errorf("charstring: truncated number")
			}
			stack = append(stack, float64(int16(uint16(cs[i+1])<<8|uint16(cs[i+2]))))
			i += 3
			continue
		case b >= 32 && b <= 246:
			stack = append(stack, float64(int(b)-139))
			i++
			continue
		case b >= 247 && b <= 250:
			if i+2 > len(cs) {
				return g, fmt.Errorf("charstring: truncated number")
			}
			stack = append(stack, float64((int(b)-247)*256+int(cs[i+1])+108))
			i += 2
			continue
		case b >= 251 && b <= 254:
			if i+2 > len(cs) {
				return g, fmt.Errorf("charstring: truncated number")
			}
			stack = append(stack, float64(-(int(b)-251)*256-int(cs[i+1])-108))
			i += 2
			continue
		case b == 255:
			if i+5 > len(cs) {
				return g, fmt.Errorf("charstring: truncated number")
			}
			v := int32(uint32(cs[i+1])<<24 | uint32(cs[i+2])<<16 | uint32(cs[i+3])<<8 | uint32(cs[i+4]))
			stack = append(stack, float64(v)/65536)
			i += 5
			continue
		}
		if len(stack) > 48 {
			return g, fmt.Errorf("charstring: stack overflow")
		}
		i++
		switch b {
		case t2rmoveto, t2hmoveto, t2vmoveto:
			n := 2
			if b != t2rmoveto {
				n = 1
			}
			if err := takeWidth(n); err != nil {
				return g, err
			}
			if moved {
				return g, fmt.Errorf("charstring: second moveto (not a trivial glyph)")
			}
			moved = true
			switch b {
			case t2rmoveto:
				x += stack[0]
				y += stack[1]
			case t2hmoveto:
				x += stack[0]
			case t2vmoveto:
				y += stack[0]
			}
			g.Pts = append(g.Pts, [2]float64{x, y})
		case t2rlineto:
			if !moved || len(stack) == 0 || len(stack)%2 != 0 {
				return g, fmt.Errorf("charstring: rlineto with %d operands (moved=%v)", len(stack), moved)
			}
			for k := 0; k < len(stack); k += 2 {
				x += stack[k]
				y += stack[k+1]
				g.Pts = append(g.Pts, [2]float64{x, y})
			}
		case t2hlineto, t2vlineto:
			if !moved || len(stack) == 0 {
				return g, fmt.Errorf("charstring: h/vlineto with %d operands (moved=%v)", len(stack), moved)
			}
			horiz := b == t2hlineto
			for _, d := range stack {
				if horiz {
					x += d
				} else {
					y += d
				}
				horiz = !horiz
				g.Pts = append(g.Pts, [2]float64{x, y})
			}
		case t2endchar:
			if err := takeWidth(0); err != nil {
				return g, err
			}
			if i != len(cs) {
				return g, fmt.Errorf("charstring: %d bytes after endchar", len(cs)-i)
			}
			return g, nil
		default:
			return g, fmt.Errorf("charstring: operator %d is outside the trivial subset", b)
		}
		stack = stack[:0]
	}
	return g, fmt.Errorf("charstring: missing endchar")
}

// t2Number encodes x for a charstring.  form 0: shortest integer form if x is
// an integer in the int16 range, else 16.16; form 1: 3-byte integer if
// possible; form 2: always 16.16.
func t2Number(x float64, form int) []byte {
	isInt := x == math.Trunc(x) && x >= -32768 && x <= 32767
	if isInt && form < 2 {
		v := int(x)
		switch {
		case form == 0 && v >= -107 && v <= 107:
			return []byte{byte(v + 139)}
		case form == 0 && v >= 108 && v <= 1131:
			w := v - 108
			return []byte{byte(w>>8) + 247, byte(w)}
		case form == 0 && v >= -1131 && v <= -108:
			w := -v - 108
			return []byte{byte(w>>8) + 251, byte(w)}
		}
		return []byte{28, byte(v >> 8), byte(v)}
	}
	f := math.Round(x * 65536)
	if f < math.MinInt32 || f > math.MaxInt32 {
		panic(fmt.Sprintf("refcffwalk: %g does not fit a 16.16 charstring number", x))
	}
	v := int32(f)
	return []byte{255, byte(v >> 24), byte(v >> 16), byte(v >> 8), byte(v)}
}

// EncodeTrivial produces a charstring for g.  If explicitWidth is false and
// g.Width equals defaultWidth the width operand is omitted.  pick (may be
// nil) selects among equivalent encodings.
func EncodeTrivial(g Glyph, defaultWidth, nominalWidth float64, explicitWidth bool, pick func(n int) int) []byte {
	if pick == nil {
		pick = func(int) int { return 0 }
	}
	var out []byte
	if explicitWidth || g.Width != defaultWidth {
		out = append(out, t2Number(g.Width-nominalWidth, pick(3))...)
	}
	var x, y float64
	for k, p := range g.Pts {
		dx, dy := p[0]-x, p[1]-y
		x, y = p[0], p[1]
		if k == 0 {
			switch {
			case dy == 0 && pick(2) == 0:
				out = append(out, t2Number(dx, pick(3))...)
				out = append(out, t2hmoveto)
			case dx == 0 && pick(2) == 0:
				out = append(out, t2Number(dy, pick(3))...)
				out = append(out, t2vmoveto)
			default:
				out = append(out, t2Number(dx, pick(3))...)
				out = append(out, t2Number(dy, pick(3))...)
				out = append(out, t2rmoveto)
			}
			continue
		}
		switch {
		case dy == 0 && pick(2) == 0:
			out = append(out, t2Number(dx, pick(3))...)
			out = append(out, t2hlineto)
		case dx == 0 && pick(2) == 0:
			out = append(out, t2Number(dy, pick(3))...)
			out = append(out, t2vlineto)
		default:
			out = append(out, t2Number(dx, pick(3))...)
			out = append(out, t2Number(dy, pick(3))...)
			out = append(out, t2rlineto)
		}
	}
	return append(out, t2endchar)
}
