// Package refshape is a straightforward reference implementation of OpenType
// GSUB/GPOS lookup application, written for the harness from the OpenType
// specification (chapter 2, GSUB, GPOS) and the decisions documented in
// /repo/opentype/gtab/testcases (sections 1-3 and 5).  It reads the public
// data structures of seehuhn.de/go/sfnt/opentype/gtab but shares no logic
// with that package: every glyph is a node with an identity, matched input
// sequences are lists of nodes, and nested actions resolve their sequence
// index against the current node list.
//
// Wherever the specification and the documented decisions do not fix the
// outcome the model records a reason in Result.Undefined instead of guessing.
package refshape

import (
	"fmt"

	"seehuhn.de/go/postscript/funit"
	"seehuhn.de/go/sfnt/glyph"
	"seehuhn.de/go/sfnt/opentype/anchor"
	"seehuhn.de/go/sfnt/opentype/classdef"
	"seehuhn.de/go/sfnt/opentype/coverage"
	"seehuhn.de/go/sfnt/opentype/gdef"
	"seehuhn.de/go/sfnt/opentype/gtab"
)

type node struct {
	gid             glyph.ID
	text            []rune
	xoff, yoff, adv int
}

// Result is the outcome of Apply.
type Result struct {
	Seq []glyph.Info
	// Undefined lists the reasons why the outcome is not fixed by the
	// specification (empty = defined region).
	Undefined []string
	// Facts for the non-triviality rule.
	Fired          int  // subtable applications that matched
	SkippedInMatch bool // a flag skipped a glyph inside a match
	NestedAfterLen bool // a nested action ran after a length change
	Shadowed       bool // a later subtable of the same lookup would also have matched
	// DirectionDependent: a GSUB type 8 lookup gives different results when
	// processed end-to-start (specification) and start-to-end.
	DirectionDependent bool
}

type frame struct {
	input   []*node
	end     *node            // first node after the window (nil = end of sequence)
	pending []gtab.SeqLookup // actions still to run
}

// affected reports whether an ambiguity about input-sequence membership at
// sequence position idx can influence a pending action of frame f: only
// actions whose sequence index is at or beyond the number of input glyphs
// standing before idx can.
func (s *shaper) affected(f *frame, idx int) bool {
	k := 0
	for _, x := range f.input {
		if s.index(x) < idx {
			k++
		}
	}
	for _, a := range f.pending {
		if int(a.SequenceIndex) >= k {
			return true
		}
	}
	return false
}

type shaper struct {
	ll    gtab.LookupList
	gd    *gdef.Table
	seq   []*node
	stack []*frame
	res   *Result

	actions   int
	lenChange bool
}

func (s *shaper) undef(format string, a ...any) {
	msg := fmt.Sprintf(format, a...)
	for _, u := range s.res.Undefined {
		if u == msg {
			return
		}
	}
	s.res.Undefined = append(s.res.Undefined, msg)
}

// ---- lookup flags ----------------------------------------------------------

func (s *shaper) class(gid glyph.ID) uint16 {
	if s.gd == nil || s.gd.GlyphClass == nil {
		return 0
	}
	return s.gd.GlyphClass[gid]
}

// ignored implements chapter 2 "LookupFlag bit enumeration".
func (s *shaper) ignored(meta *gtab.LookupMetaInfo, gid glyph.ID) bool {
	if s.gd == nil || s.gd.GlyphClass == nil {
		return false
	}
	fl := meta.LookupFlags
	switch s.class(gid) {
	case 1:
		return fl&gtab.IgnoreBaseGlyphs != 0
	case 2:
		return fl&gtab.IgnoreLigatures != 0
	case 3:
		if fl&gtab.IgnoreMarks != 0 {
			return true
		}
		if fl&gtab.UseMarkFilteringSet != 0 {
			set := int(meta.MarkFilteringSet)
			if set >= len(s.gd.MarkGlyphSets) {
				s.undef("mark filtering set %d not defined in GDEF", set)
				return true
			}
			return !s.gd.MarkGlyphSets[set][gid]
		}
		if t := uint16(fl&gtab.MarkAttachTypeMask) >> 8; t != 0 {
			if s.gd.MarkAttachClass == nil {
				return true
			}
			return s.gd.MarkAttachClass[gid] != t
		}
	}
	return false
}

// ---- sequence helpers --------------------------------------------------------

func (s *shaper) index(n *node) int {
	if n == nil {
		return len(s.seq)
	}
	for i, x := range s.seq {
		if x == n {
			return i
		}
	}
	panic("refshape: node not in sequence")
}

type pred func(glyph.ID) bool

// forward matches preds on the non-ignored glyphs after position start,
// not reaching limit.  It returns the matched positions.
func (s *shaper) forward(meta *gtab.LookupMetaInfo, start, limit int, preds []pred) ([]int, bool) {
	var pos []int
	p := start
	for _, pr := range preds {
		p++
		for p < limit && s.ignored(meta, s.seq[p].gid) {
			p++
		}
		if p >= limit || !pr(s.seq[p].gid) {
			return nil, false
		}
		pos = append(pos, p)
	}
	return pos, true
}

func (s *shaper) backward(meta *gtab.LookupMetaInfo, start int, preds []pred) bool {
	p := start
	for _, pr := range preds {
		p--
		for p >= 0 && s.ignored(meta, s.seq[p].gid) {
			p--
		}
		if p < 0 || !pr(s.seq[p].gid) {
			return false
		}
	}
	return true
}

func isGid(g glyph.ID) pred     { return func(x glyph.ID) bool { return x == g } }
func inSet(c coverage.Set) pred { return func(x glyph.ID) bool { return c[x] } }
func inTable(c coverage.Table) pred {
	return func(x glyph.ID) bool { _, ok := c[x]; return ok }
}
func hasClass(cd classdef.Table, cls uint16) pred {
	return func(x glyph.ID) bool { return cd[x] == cls }
}

// ---- structural changes ---------------------------------------------------------

// window reports whether node n lies inside frame f's match window.
func (s *shaper) inWindow(f *frame, idx int) bool {
	if len(f.input) == 0 {
		return false
	}
	return idx >= s.index(f.input[0]) && idx < s.index(f.end)
}

func memberIdx(list []*node, n *node) int {
	for i, x := range list {
		if x == n {
			return i
		}
	}
	return -1
}

// noteChange is called when the glyph id of node n changes without a length
// change (single substitution).
func (s *shaper) noteChange(n *node) {
	idx := s.index(n)
	for _, f := range s.stack {
		if s.inWindow(f, idx) && memberIdx(f.input, n) < 0 && s.affected(f, idx) {
			s.undef("a nested lookup replaced a glyph that is not in its parent's input sequence while further actions remain (testcases section 4)")
		}
	}
}

// insertAfter replaces node n by n followed by extra (multiple substitution).
func (s *shaper) insertAfter(n *node, extra []*node) {
	idx := s.index(n)
	for _, f := range s.stack {
		if !s.inWindow(f, idx) {
			continue
		}
		k := memberIdx(f.input, n)
		if k < 0 {
			if s.affected(f, idx) {
				s.undef("a nested lookup expanded a glyph that is not in its parent's input sequence while further actions remain (testcases section 4)")
			}
			continue
		}
		in := append([]*node{}, f.input[:k+1]...)
		in = append(in, extra...)
		in = append(in, f.input[k+1:]...)
		f.input = in
	}
	seq := append([]*node{}, s.seq[:idx+1]...)
	seq = append(seq, extra...)
	seq = append(seq, s.seq[idx+1:]...)
	s.seq = seq
	if len(extra) > 0 {
		s.lenChange = true
	}
}

// merge turns comps[0] into the ligature and removes comps[1:]; the skipped
// glyphs stay in the sequence, directly behind the ligature.
func (s *shaper) merge(comps []*node) {
	first := s.index(comps[0])
	for _, f := range s.stack {
		if !s.inWindow(f, first) {
			continue
		}
		in := 0
		for _, c := range comps {
			if memberIdx(f.input, c) >= 0 {
				in++
			}
		}
		firstIn := memberIdx(f.input, comps[0]) >= 0
		if in != len(comps) && !firstIn && s.affected(f, first) {
			// Documented decision (testcases 2_08, layout.go): the ligature is
			// part of the parent's input sequence if the first component was.
			// If the first component was not, implementations differ (section 4).
			s.undef("a nested ligature whose first component is not in its parent's input sequence while affected actions remain (testcases section 4)")
		}
		var nl []*node
		for _, x := range f.input {
			if memberIdx(comps[1:], x) < 0 {
				nl = append(nl, x)
			}
		}
		f.input = nl
	}
	var seq []*node
	for _, x := range s.seq {
		if memberIdx(comps[1:], x) < 0 {
			seq = append(seq, x)
		}
	}
	// move skipped glyphs that stood between components behind the ligature:
	// with the components removed they already are.
	s.seq = seq
	if len(comps) > 1 {
		s.lenChange = true
	}
}

// ---- value records and anchors ------------------------------------------------------

func (s *shaper) adjust(n *node, vr *gtab.GposValueRecord) {
	if vr == nil {
		return
	}
	if vr.YAdvance != 0 || vr.XPlacementDevOffs != 0 || vr.YPlacementDevOffs != 0 || vr.XAdvanceDevOffs != 0 || vr.YAdvanceDevOffs != 0 {
		s.undef("positioning data the library declares unimplemented (vertical advance / device offsets)")
		return
	}
	n.xoff += int(vr.XPlacement)
	n.yoff += int(vr.YPlacement)
	n.adv += int(vr.XAdvance)
}

func vrFormatZero(vr *gtab.GposValueRecord) bool {
	return vr == nil || *vr == gtab.GposValueRecord{}
}

func btoi(b bool) int {
	if b {
		return 1
	}
	return 0
}

func anchorEmpty(a anchor.Table) bool { return a.X == 0 && a.Y == 0 }

// ---- applying one lookup at one position ------------------------------------------------

// applyAt tries the subtables of lookup l at position a with window end e.
// It returns whether one applied and the position after the match.
func (s *shaper) applyAt(l *gtab.LookupTable, a, e, depth int) (bool, int) {
	for i, st := range l.Subtables {
		ok, next := s.subtable(l, st, a, e, depth)
		if ok {
			s.res.Fired++
			_ = i
			return true, next
		}
	}
	return false, a + 1
}

func (s *shaper) subtable(l *gtab.LookupTable, st gtab.Subtable, a, e, depth int) (bool, int) {
	meta := l.Meta
	n := s.seq[a]
	gid := n.gid
	switch t := st.(type) {
	case *gtab.Gsub1_1:
		if !t.Cov[gid] {
			return false, 0
		}
		n.gid = gid + t.Delta
		s.noteChange(n)
		return true, a + 1
	case *gtab.Gsub1_2:
		idx, ok := t.Cov[gid]
		if !ok || idx >= len(t.SubstituteGlyphIDs) {
			return false, 0
		}
		n.gid = t.SubstituteGlyphIDs[idx]
		s.noteChange(n)
		return true, a + 1
	case *gtab.Gsub2_1:
		idx, ok := t.Cov[gid]
		if !ok || idx >= len(t.Repl) {
			return false, 0
		}
		repl := t.Repl[idx]
		if len(repl) == 0 {
			s.undef("multiple substitution with an empty sequence")
			return false, 0
		}
		n.gid = repl[0]
		var extra []*node
		for _, g := range repl[1:] {
			extra = append(extra, &node{gid: g})
		}
		if len(extra) == 0 {
			s.noteChange(n)
		}
		s.insertAfter(n, extra)
		return true, a + len(repl)
	case *gtab.Gsub3_1:
		idx, ok := t.Cov[gid]
		if !ok || idx >= len(t.Alternates) || len(t.Alternates[idx]) == 0 {
			return false, 0
		}
		n.gid = t.Alternates[idx][0]
		s.noteChange(n)
		return true, a + 1
	case *gtab.Gsub4_1:
		idx, ok := t.Cov[gid]
		if !ok || idx >= len(t.Repl) {
			return false, 0
		}
		for _, lig := range t.Repl[idx] {
			preds := make([]pred, len(lig.In))
			for i, g := range lig.In {
				preds[i] = isGid(g)
			}
			pos, ok := s.forward(meta, a, e, preds)
			if !ok {
				continue
			}
			comps := []*node{n}
			last := a
			for _, p := range pos {
				comps = append(comps, s.seq[p])
				last = p
			}
			skipped := last - a - len(pos)
			if skipped > 0 {
				s.res.SkippedInMatch = true
			}
			var text []rune
			for _, c := range comps {
				text = append(text, c.text...)
			}
			n.gid = lig.Out
			n.text = text
			if len(comps) == 1 {
				s.noteChange(n)
			}
			s.merge(comps)
			return true, a + 1 + skipped
		}
		return false, 0
	case *gtab.Gsub8_1:
		idx, ok := t.Input[gid]
		if !ok || idx >= len(t.SubstituteGlyphIDs) {
			return false, 0
		}
		bp := make([]pred, len(t.Backtrack))
		for i, c := range t.Backtrack {
			bp[i] = inTable(c)
		}
		lp := make([]pred, len(t.Lookahead))
		for i, c := range t.Lookahead {
			lp[i] = inTable(c)
		}
		if !s.backward(meta, a, bp) {
			return false, 0
		}
		if _, ok := s.forward(meta, a, len(s.seq), lp); !ok {
			return false, 0
		}
		if depth > 0 {
			s.undef("reverse chaining substitution used as a nested lookup")
		}
		n.gid = t.SubstituteGlyphIDs[idx]
		s.noteChange(n)
		return true, a + 1

	case *gtab.SeqContext1:
		idx, ok := t.Cov[gid]
		if !ok || idx >= len(t.Rules) {
			return false, 0
		}
		for _, r := range t.Rules[idx] {
			preds := make([]pred, len(r.Input))
			for i, g := range r.Input {
				preds[i] = isGid(g)
			}
			if pos, ok := s.forward(meta, a, e, preds); ok {
				return true, s.runContext(meta, a, pos, e, r.Actions, depth)
			}
		}
		return false, 0
	case *gtab.SeqContext2:
		if _, ok := t.Cov[gid]; !ok {
			return false, 0
		}
		cls := int(t.Input[gid])
		if cls >= len(t.Rules) {
			return false, 0
		}
		for _, r := range t.Rules[cls] {
			preds := make([]pred, len(r.Input))
			for i, c := range r.Input {
				preds[i] = hasClass(t.Input, c)
			}
			if pos, ok := s.forward(meta, a, e, preds); ok {
				return true, s.runContext(meta, a, pos, e, r.Actions, depth)
			}
		}
		return false, 0
	case *gtab.SeqContext3:
		if len(t.Input) == 0 || !t.Input[0][gid] {
			return false, 0
		}
		preds := make([]pred, len(t.Input)-1)
		for i, c := range t.Input[1:] {
			preds[i] = inSet(c)
		}
		if pos, ok := s.forward(meta, a, e, preds); ok {
			return true, s.runContext(meta, a, pos, e, t.Actions, depth)
		}
		return false, 0
	case *gtab.ChainedSeqContext1:
		idx, ok := t.Cov[gid]
		if !ok || idx >= len(t.Rules) {
			return false, 0
		}
		for _, r := range t.Rules[idx] {
			bp, ip, lp := make([]pred, len(r.Backtrack)), make([]pred, len(r.Input)), make([]pred, len(r.Lookahead))
			for i, g := range r.Backtrack {
				bp[i] = isGid(g)
			}
			for i, g := range r.Input {
				ip[i] = isGid(g)
			}
			for i, g := range r.Lookahead {
				lp[i] = isGid(g)
			}
			if ok, next := s.chained(meta, a, e, bp, ip, lp, r.Actions, depth); ok {
				return true, next
			}
		}
		return false, 0
	case *gtab.ChainedSeqContext2:
		if _, ok := t.Cov[gid]; !ok {
			return false, 0
		}
		cls := int(t.Input[gid])
		if cls >= len(t.Rules) {
			return false, 0
		}
		for _, r := range t.Rules[cls] {
			bp, ip, lp := make([]pred, len(r.Backtrack)), make([]pred, len(r.Input)), make([]pred, len(r.Lookahead))
			for i, c := range r.Backtrack {
				bp[i] = hasClass(t.Backtrack, c)
			}
			for i, c := range r.Input {
				ip[i] = hasClass(t.Input, c)
			}
			for i, c := range r.Lookahead {
				lp[i] = hasClass(t.Lookahead, c)
			}
			if ok, next := s.chained(meta, a, e, bp, ip, lp, r.Actions, depth); ok {
				return true, next
			}
		}
		return false, 0
	case *gtab.ChainedSeqContext3:
		if len(t.Input) == 0 || !t.Input[0][gid] {
			return false, 0
		}
		bp, ip, lp := make([]pred, len(t.Backtrack)), make([]pred, len(t.Input)-1), make([]pred, len(t.Lookahead))
		for i, c := range t.Backtrack {
			bp[i] = inSet(c)
		}
		for i, c := range t.Input[1:] {
			ip[i] = inSet(c)
		}
		for i, c := range t.Lookahead {
			lp[i] = inSet(c)
		}
		return s.chained(meta, a, e, bp, ip, lp, t.Actions, depth)

	case *gtab.Gpos1_1:
		if _, ok := t.Cov[gid]; !ok {
			return false, 0
		}
		s.adjust(n, t.Adjust)
		return true, a + 1
	case *gtab.Gpos1_2:
		idx, ok := t.Cov[gid]
		if !ok || idx >= len(t.Adjust) {
			return false, 0
		}
		s.adjust(n, t.Adjust[idx])
		return true, a + 1
	case gtab.Gpos2_1:
		firstCovered := false
		f2zero, f2some := true, false
		for pair, adj := range t {
			if pair.Left == gid {
				firstCovered = true
			}
			if adj != nil && !vrFormatZero(adj.Second) {
				f2zero = false
			}
			if adj != nil && adj.Second != nil {
				f2some = true
			}
		}
		if !firstCovered {
			return false, 0
		}
		pos, ok := s.forward(meta, a, e, []pred{func(glyph.ID) bool { return true }})
		if !ok {
			return false, 0
		}
		p := pos[0]
		adj, ok := t[glyph.Pair{Left: gid, Right: s.seq[p].gid}]
		if !ok || adj == nil {
			return false, 0
		}
		if p > a+1 {
			s.res.SkippedInMatch = true
		}
		// valueFormat2 is a property of the subtable (spec): the second glyph
		// is consumed iff it is non-zero.  Mixed nil/non-nil second records
		// cannot come from a file.
		if f2zero && f2some || (!f2zero && adj.Second == nil) {
			s.undef("pair adjustment subtable mixes present and absent second value records")
		}
		s.adjust(n, adj.First)
		if f2zero {
			return true, p
		}
		s.adjust(s.seq[p], adj.Second)
		return true, p + 1
	case *gtab.Gpos2_2:
		if !t.Cov[gid] {
			return false, 0
		}
		pos, ok := s.forward(meta, a, e, []pred{func(glyph.ID) bool { return true }})
		if !ok {
			return false, 0
		}
		p := pos[0]
		c1, c2 := int(t.Class1[gid]), int(t.Class2[s.seq[p].gid])
		if c1 >= len(t.Adjust) || c2 >= len(t.Adjust[c1]) || t.Adjust[c1][c2] == nil {
			return false, 0
		}
		f2zero, f2some := true, false
		for _, row := range t.Adjust {
			for _, adj := range row {
				if adj != nil && !vrFormatZero(adj.Second) {
					f2zero = false
				}
				if adj != nil && adj.Second != nil {
					f2some = true
				}
			}
		}
		adj := t.Adjust[c1][c2]
		if p > a+1 {
			s.res.SkippedInMatch = true
		}
		if f2zero && f2some || (!f2zero && adj.Second == nil) {
			s.undef("pair adjustment subtable mixes present and absent second value records")
		}
		s.adjust(n, adj.First)
		if f2zero {
			return true, p
		}
		s.adjust(s.seq[p], adj.Second)
		return true, p + 1
	case *gtab.Gpos4_1:
		mi, ok := t.MarkCov[gid]
		if !ok || mi >= len(t.MarkArray) {
			return false, 0
		}
		return s.attach(meta, a, t.MarkArray[mi].Class, t.MarkArray[mi].Table, t.BaseCov, t.BaseArray, false)
	case *gtab.Gpos6_1:
		mi, ok := t.Mark1Cov[gid]
		if !ok || mi >= len(t.Mark1Array) {
			return false, 0
		}
		return s.attach(meta, a, t.Mark1Array[mi].Class, t.Mark1Array[mi].Table, t.Mark2Cov, t.Mark2Array, true)
	default:
		s.undef("subtable type %T is outside the modelled set", st)
		return false, 0
	}
}

// attach implements mark-to-base (toMark=false) and mark-to-mark (toMark=true)
// attachment in the region where the specification fixes the attachment
// target; elsewhere it records an undefined reason.
func (s *shaper) attach(meta *gtab.LookupMetaInfo, a int, class uint16, markAnchor anchor.Table,
	cov coverage.Table, array [][]anchor.Table, toMark bool) (bool, int) {
	if meta.LookupFlags&^gtab.RightToLeft != 0 {
		s.undef("mark attachment lookup with glyph-skipping flags")
	}
	// the library's candidate: nearest preceding covered glyph
	p := a - 1
	for p >= 0 {
		if _, ok := cov[s.seq[p].gid]; ok {
			break
		}
		p--
	}
	// the specification's candidate
	q := a - 1
	if !toMark {
		for q >= 0 && s.class(s.seq[q].gid) == 3 {
			q--
		}
	}
	specCovered := false
	if q >= 0 {
		_, specCovered = cov[s.seq[q].gid]
		if toMark && s.class(s.seq[q].gid) != 3 {
			specCovered = false
		}
	}
	if !specCovered {
		if p >= 0 {
			s.undef("mark attachment would have to look past a glyph that is not a valid attachment target")
		}
		return false, 0
	}
	if p != q {
		s.undef("mark attachment target is ambiguous (a covered glyph lies between the mark and its base)")
		return false, 0
	}
	idx := cov[s.seq[q].gid]
	if idx >= len(array) || int(class) >= len(array[idx]) {
		return false, 0
	}
	target := array[idx][class]
	if anchorEmpty(target) {
		return false, 0
	}
	tn, n := s.seq[q], s.seq[a]
	if tn.xoff != 0 || tn.yoff != 0 || n.xoff != 0 || n.yoff != 0 {
		s.undef("mark attachment onto or of a glyph that already carries an offset")
	}
	dx := int(target.X) - int(markAnchor.X)
	dy := int(target.Y) - int(markAnchor.Y)
	for i := q; i < a; i++ {
		dx -= s.seq[i].adv
	}
	n.xoff += dx
	n.yoff += dy
	return true, a + 1
}

func (s *shaper) chained(meta *gtab.LookupMetaInfo, a, e int, bp, ip, lp []pred, actions []gtab.SeqLookup, depth int) (bool, int) {
	if !s.backward(meta, a, bp) {
		return false, 0
	}
	pos, ok := s.forward(meta, a, e, ip)
	if !ok {
		return false, 0
	}
	last := a
	if len(pos) > 0 {
		last = pos[len(pos)-1]
	}
	if _, ok := s.forward(meta, last, len(s.seq), lp); !ok {
		return false, 0
	}
	return true, s.runContext(meta, a, pos, e, actions, depth)
}

// runContext runs the nested actions of a matched context rule and returns
// the position after the (adjusted) match window.
func (s *shaper) runContext(meta *gtab.LookupMetaInfo, a int, pos []int, e int, actions []gtab.SeqLookup, depth int) int {
	f := &frame{input: []*node{s.seq[a]}}
	last := a
	for _, p := range pos {
		f.input = append(f.input, s.seq[p])
		last = p
	}
	if last-a != len(pos) {
		s.res.SkippedInMatch = true
	}
	// the window ends after trailing ignored glyphs
	p := last + 1
	for p < e && s.ignored(meta, s.seq[p].gid) {
		p++
	}
	if p < len(s.seq) {
		f.end = s.seq[p]
	}
	if depth > 12 {
		s.undef("nesting deeper than 12")
		return s.index(f.end)
	}
	s.stack = append(s.stack, f)
	lenChangedBefore := false
	for i, act := range actions {
		f.pending = actions[i+1:]
		s.actions++
		if s.actions >= 60 {
			s.undef("more nested actions than the engine's budget")
			break
		}
		if int(act.SequenceIndex) >= len(f.input) {
			continue
		}
		if int(act.LookupListIndex) >= len(s.ll) {
			continue
		}
		child := s.ll[act.LookupListIndex]
		nd := f.input[act.SequenceIndex]
		if s.ignored(child.Meta, nd.gid) {
			continue
		}
		if lenChangedBefore {
			s.res.NestedAfterLen = true
		}
		before := len(s.seq)
		s.applyAt(child, s.index(nd), s.index(f.end), depth+1)
		if len(s.seq) != before {
			lenChangedBefore = true
		}
	}
	f.pending = nil
	s.stack = s.stack[:len(s.stack)-1]
	return s.index(f.end)
}

// Options selects documented deviations of the implementation under test.
type Options struct {
	// Gsub8Forward processes reverse chaining (GSUB type 8) lookups from the
	// start of the sequence, as the repository's TODO says it does.
	Gsub8Forward bool
}

// Apply applies the given lookups, in the given order, to seq.
func Apply(ll gtab.LookupList, gd *gdef.Table, lookups []gtab.LookupIndex, in []glyph.Info) *Result {
	return ApplyOpts(ll, gd, lookups, in, Options{})
}

// ApplyOpts is Apply with options.
func ApplyOpts(ll gtab.LookupList, gd *gdef.Table, lookups []gtab.LookupIndex, in []glyph.Info, opt Options) *Result {
	s := &shaper{ll: ll, gd: gd, res: &Result{}}
	for _, g := range in {
		s.seq = append(s.seq, &node{gid: g.GID, text: append([]rune(nil), g.Text...),
			xoff: int(g.XOffset), yoff: int(g.YOffset), adv: int(g.Advance)})
	}
	for _, li := range lookups {
		if int(li) >= len(ll) {
			continue
		}
		l := ll[li]
		if hasReverse(l) {
			s.reverseLookup(l, opt.Gsub8Forward)
			continue
		}
		pos := 0
		for pos < len(s.seq) {
			if s.ignored(l.Meta, s.seq[pos].gid) {
				pos++
				continue
			}
			s.actions = 0
			ok, next := s.applyAt(l, pos, len(s.seq), 0)
			if !ok {
				pos++
				continue
			}
			if next <= pos {
				next = pos + 1
			}
			pos = next
		}
	}
	out := make([]glyph.Info, len(s.seq))
	for i, n := range s.seq {
		out[i] = glyph.Info{GID: n.gid, Text: n.text}
		if n.xoff < -32768 || n.xoff > 32767 || n.yoff < -32768 || n.yoff > 32767 || n.adv < -32768 || n.adv > 32767 {
			s.undef("position outside the 16-bit range of glyph.Info")
		}
		out[i].XOffset = funit.Int16(int16(n.xoff))
		out[i].YOffset = funit.Int16(int16(n.yoff))
		out[i].Advance = funit.Int16(int16(n.adv))
	}
	s.res.Seq = out
	return s.res
}

func hasReverse(l *gtab.LookupTable) bool {
	for _, st := range l.Subtables {
		if _, ok := st.(*gtab.Gsub8_1); ok {
			return true
		}
	}
	return false
}

// reverseLookup applies a type 8 lookup.  The specification processes the
// glyph sequence from the end to the beginning; with forward=true the
// sequence is processed from the start (what the repository documents as a
// TODO).  DirectionDependent records whether the two orders differ.
func (s *shaper) reverseLookup(l *gtab.LookupTable, forward bool) {
	snapshot := func() []node {
		r := make([]node, len(s.seq))
		for i, n := range s.seq {
			r[i] = *n
		}
		return r
	}
	restore := func(r []node) {
		for i := range r {
			*s.seq[i] = r[i]
		}
	}
	run := func(fwd bool) {
		if fwd {
			for pos := 0; pos < len(s.seq); pos++ {
				if !s.ignored(l.Meta, s.seq[pos].gid) {
					s.applyAt(l, pos, len(s.seq), 0)
				}
			}
		} else {
			for pos := len(s.seq) - 1; pos >= 0; pos-- {
				if !s.ignored(l.Meta, s.seq[pos].gid) {
					s.applyAt(l, pos, len(s.seq), 0)
				}
			}
		}
	}
	orig := snapshot()
	fired := s.res.Fired
	run(!forward)
	other := snapshot()
	restore(orig)
	s.res.Fired = fired
	run(forward)
	for i := range other {
		if other[i].gid != s.seq[i].gid {
			s.res.DirectionDependent = true
			break
		}
	}
}
