// Package refglyf is an independent model of the TrueType "glyf" and "loca"
// tables, written from the OpenType specification chapters "glyf" and
// "loca".  It shares no code with /repo.
//
// It contains
//
//   - an ENCODER for simple glyphs that can produce every legal
//     flag/coordinate encoding of a point list (the caller chooses, per
//     coordinate, between "same", short positive, short negative and long, and
//     chooses how flag bytes are grouped with REPEAT_FLAG),
//   - an encoder for composite glyph records with every argument/transform
//     size,
//   - an assembler for glyf+loca (short or long offsets, per-glyph padding),
//   - a strict DECODER for simple glyphs, composite glyphs and whole
//     glyf/loca pairs, and
//   - the conversion of a point list to line/quadratic segments (implied
//     on-curve points), used for the differential against x/image.
package refglyf

import (
	"errors"
	"fmt"
)

// Simple glyph flag bits (glyf chapter, "Simple Glyph Flags").
const (
	OnCurvePoint  = 0x01
	XShortVector  = 0x02
	YShortVector  = 0x04
	RepeatFlag    = 0x08
	XIsSameOrPos  = 0x10
	YIsSameOrPos  = 0x20
	OverlapSimple = 0x40
)

// Component flag bits (glyf chapter, "Composite Glyph Flags").
const (
	Arg1And2AreWords        = 0x0001
	ArgsAreXYValues         = 0x0002
	RoundXYToGrid           = 0x0004
	WeHaveAScale            = 0x0008
	MoreComponents          = 0x0020
	WeHaveAnXAndYScale      = 0x0040
	WeHaveATwoByTwo         = 0x0080
	WeHaveInstructions      = 0x0100
	UseMyMetrics            = 0x0200
	OverlapCompound         = 0x0400
	ScaledComponentOffset   = 0x0800
	UnscaledComponentOffset = 0x1000
)

// Point is one outline point in font units.
type Point struct {
	X, Y int16
	On   bool
}

// Simple is the content of a simple glyph description.
type Simple struct {
	Contours [][]Point // every contour has at least one point
	Instr    []byte
}

// NumPoints returns the total number of points.
func (s *Simple) NumPoints() int {
	n := 0
	for _, c := range s.Contours {
		n += len(c)
	}
	return n
}

// Mode says how one coordinate delta is stored.
type Mode uint8

const (
	Same     Mode = iota // delta is 0, no data (short bit clear, same bit set)
	ShortPos             // one byte, value added (short bit set, positive bit set)
	ShortNeg             // one byte, value subtracted (short bit set, positive bit clear)
	Long                 // two bytes, signed (both bits clear)
)

func (m Mode) String() string { return [...]string{"same", "+b", "-b", "w"}[m] }

// Legal reports whether delta can be stored with mode m.
func Legal(m Mode, delta int) bool {
	switch m {
	case Same:
		return delta == 0
	case ShortPos:
		return delta >= 0 && delta <= 255
	case ShortNeg:
		return delta <= 0 && delta >= -255
	case Long:
		return delta >= -32768 && delta <= 32767
	}
	return false
}

// Run groups N consecutive points under one flag byte.  N > 1 requires
// Repeat; Repeat with N == 1 writes a repeat count of zero.
type Run struct {
	N      int
	Repeat bool
}

// Encoding fixes every free choice of the simple glyph format.
type Encoding struct {
	X, Y    []Mode // one per point
	Runs    []Run  // must cover all points; nil: one flag byte per point
	Overlap bool   // set OVERLAP_SIMPLE on the first flag byte
}

// Flags returns the logical flag byte of every point (without REPEAT_FLAG).
func (e *Encoding) Flags(pts []Point) []byte {
	ff := make([]byte, len(pts))
	for i, p := range pts {
		var f byte
		if p.On {
			f |= OnCurvePoint
		}
		switch e.X[i] {
		case Same:
			f |= XIsSameOrPos
		case ShortPos:
			f |= XShortVector | XIsSameOrPos
		case ShortNeg:
			f |= XShortVector
		}
		switch e.Y[i] {
		case Same:
			f |= YIsSameOrPos
		case ShortPos:
			f |= YShortVector | YIsSameOrPos
		case ShortNeg:
			f |= YShortVector
		}
		if i == 0 && e.Overlap {
			f |= OverlapSimple
		}
		ff[i] = f
	}
	return ff
}

func abs(x int) int {
	if x < 0 {
		return -x
	}
	return x
}

// EncodeSimple returns the glyph description that follows the 10-byte glyph
// header: endPtsOfContours, instructionLength, instructions, flags,
// xCoordinates, yCoordinates.  No padding is added.
func EncodeSimple(s *Simple, e *Encoding) ([]byte, error) {
	var pts []Point
	var out []byte
	end := -1
	if len(s.Contours) > 32767 {
		return nil, errors.New("too many contours")
	}
	for _, c := range s.Contours {
		if len(c) == 0 {
			return nil, errors.New("empty contour")
		}
		pts = append(pts, c...)
		end += len(c)
		if end > 0xFFFF {
			return nil, errors.New("too many points")
		}
		out = append(out, byte(end>>8), byte(end))
	}
	if len(s.Instr) > 0xFFFF {
		return nil, errors.New("too many instructions")
	}
	out = append(out, byte(len(s.Instr)>>8), byte(len(s.Instr)))
	out = append(out, s.Instr...)

	n := len(pts)
	if len(e.X) != n || len(e.Y) != n {
		return nil, fmt.Errorf("encoding has %d/%d modes for %d points", len(e.X), len(e.Y), n)
	}
	// deltas and legality
	dx := make([]int, n)
	dy := make([]int, n)
	px, py := 0, 0
	for i, p := range pts {
		dx[i] = int(p.X) - px
		dy[i] = int(p.Y) - py
		px, py = int(p.X), int(p.Y)
		if !Legal(e.X[i], dx[i]) {
			return nil, fmt.Errorf("point %d: x delta %d cannot be stored as %v", i, dx[i], e.X[i])
		}
		if !Legal(e.Y[i], dy[i]) {
			return nil, fmt.Errorf("point %d: y delta %d cannot be stored as %v", i, dy[i], e.Y[i])
		}
	}
	ff := e.Flags(pts)

	runs := e.Runs
	if runs == nil {
		runs = make([]Run, n)
		for i := range runs {
			runs[i] = Run{N: 1}
		}
	}
	pos := 0
	for _, r := range runs {
		if r.N < 1 || r.N > 256 || pos+r.N > n {
			return nil, fmt.Errorf("bad run %+v at point %d of %d", r, pos, n)
		}
		if r.N > 1 && !r.Repeat {
			return nil, fmt.Errorf("run of %d points without repeat flag", r.N)
		}
		for j := 1; j < r.N; j++ {
			if ff[pos+j] != ff[pos] {
				return nil, fmt.Errorf("run at point %d: flags differ (%#x, %#x)", pos, ff[pos], ff[pos+j])
			}
		}
		if r.Repeat {
			out = append(out, ff[pos]|RepeatFlag, byte(r.N-1))
		} else {
			out = append(out, ff[pos])
		}
		pos += r.N
	}
	if pos != n {
		return nil, fmt.Errorf("runs cover %d of %d points", pos, n)
	}
	for i := range pts {
		switch e.X[i] {
		case ShortPos, ShortNeg:
			out = append(out, byte(abs(dx[i])))
		case Long:
			out = append(out, byte(uint16(int16(dx[i]))>>8), byte(dx[i]))
		}
	}
	for i := range pts {
		switch e.Y[i] {
		case ShortPos, ShortNeg:
			out = append(out, byte(abs(dy[i])))
		case Long:
			out = append(out, byte(uint16(int16(dy[i]))>>8), byte(dy[i]))
		}
	}
	return out, nil
}

// Compact returns the shortest-mode encoding with maximal repeat runs.
func Compact(s *Simple) *Encoding {
	var pts []Point
	for _, c := range s.Contours {
		pts = append(pts, c...)
	}
	e := &Encoding{X: make([]Mode, len(pts)), Y: make([]Mode, len(pts))}
	pick := func(d int) Mode {
		switch {
		case d == 0:
			return Same
		case d > 0 && d <= 255:
			return ShortPos
		case d < 0 && d >= -255:
			return ShortNeg
		}
		return Long
	}
	px, py := 0, 0
	for i, p := range pts {
		e.X[i] = pick(int(p.X) - px)
		e.Y[i] = pick(int(p.Y) - py)
		px, py = int(p.X), int(p.Y)
	}
	ff := e.Flags(pts)
	e.Runs = []Run{}
	for i := 0; i < len(ff); {
		j := i + 1
		for j < len(ff) && ff[j] == ff[i] && j-i < 256 {
			j++
		}
		e.Runs = append(e.Runs, Run{N: j - i, Repeat: j-i > 1})
		i = j
	}
	return e
}

// SimpleInfo describes how a decoded simple glyph was stored.
type SimpleInfo struct {
	Used                           int  // bytes of the description actually used
	Overlap                        bool // OVERLAP_SIMPLE on the first flag
	Repeats                        int  // number of flag bytes with REPEAT_FLAG
	ZeroCount                      int  // ... of these with a repeat count of 0
	ShortPos, ShortNeg, Long, Same int
}

var (
	ErrTruncated = errors.New("refglyf: glyph description truncated")
	ErrEndPts    = errors.New("refglyf: endPtsOfContours not strictly increasing")
	ErrRepeat    = errors.New("refglyf: flag repeat count runs past the last point")
)

// DecodeSimple decodes the description following the glyph header of a
// simple glyph with the given numberOfContours (>= 0).  Bytes after the last
// y coordinate are ignored (info.Used tells how many were consumed).
//
// Specification, glyf chapter: endPtsOfContours[numberOfContours],
// instructionLength, instructions[], flags[], xCoordinates[], yCoordinates[];
// the number of points is the last endPtsOfContours entry plus 1; every flag
// byte stands for one point plus, with REPEAT_FLAG, as many further points
// as the following byte says; coordinates are deltas to the previous point,
// the first relative to (0,0).
func DecodeSimple(numContours int, b []byte) (*Simple, *SimpleInfo, error) {
	if numContours < 0 {
		return nil, nil, errors.New("refglyf: not a simple glyph")
	}
	pos := 0
	need := func(n int) bool { return pos+n <= len(b) }
	if !need(2*numContours + 2) {
		return nil, nil, ErrTruncated
	}
	ends := make([]int, numContours)
	for i := range ends {
		ends[i] = int(b[pos])<<8 | int(b[pos+1])
		pos += 2
		if i > 0 && ends[i] <= ends[i-1] {
			return nil, nil, ErrEndPts
		}
	}
	numPoints := 0
	if numContours > 0 {
		numPoints = ends[numContours-1] + 1
	}
	il := int(b[pos])<<8 | int(b[pos+1])
	pos += 2
	if !need(il) {
		return nil, nil, ErrTruncated
	}
	instr := append([]byte{}, b[pos:pos+il]...)
	pos += il

	info := &SimpleInfo{}
	flags := make([]byte, 0, numPoints)
	for len(flags) < numPoints {
		if !need(1) {
			return nil, nil, ErrTruncated
		}
		f := b[pos]
		pos++
		if len(flags) == 0 && f&OverlapSimple != 0 {
			info.Overlap = true
		}
		flags = append(flags, f)
		if f&RepeatFlag != 0 {
			if !need(1) {
				return nil, nil, ErrTruncated
			}
			cnt := int(b[pos])
			pos++
			info.Repeats++
			if cnt == 0 {
				info.ZeroCount++
			}
			if len(flags)+cnt > numPoints {
				return nil, nil, ErrRepeat
			}
			for ; cnt > 0; cnt-- {
				flags = append(flags, f)
			}
		}
	}
	coord := func(short, same byte) ([]int16, error) {
		res := make([]int16, numPoints)
		var v int16
		for i, f := range flags {
			switch {
			case f&short != 0:
				if !need(1) {
					return nil, ErrTruncated
				}
				d := int16(b[pos])
				pos++
				if f&same != 0 {
					v += d
					info.ShortPos++
				} else {
					v -= d
					info.ShortNeg++
				}
			case f&same != 0:
				info.Same++
			default:
				if !need(2) {
					return nil, ErrTruncated
				}
				v += int16(uint16(b[pos])<<8 | uint16(b[pos+1]))
				pos += 2
				info.Long++
			}
			res[i] = v
		}
		return res, nil
	}
	xs, err := coord(XShortVector, XIsSameOrPos)
	if err != nil {
		return nil, nil, err
	}
	ys, err := coord(YShortVector, YIsSameOrPos)
	if err != nil {
		return nil, nil, err
	}
	info.Used = pos

	s := &Simple{Instr: instr, Contours: make([][]Point, numContours)}
	start := 0
	for i, e := range ends {
		c := make([]Point, 0, e+1-start)
		for j := start; j <= e; j++ {
			c = append(c, Point{xs[j], ys[j], flags[j]&OnCurvePoint != 0})
		}
		s.Contours[i] = c
		start = e + 1
	}
	return s, info, nil
}

// Component is one component record of a composite glyph.
type Component struct {
	Flags uint16 // all 16 bits as stored
	Glyph uint16
	// Arg1, Arg2: signed (int8/int16) if ARGS_ARE_XY_VALUES, else unsigned
	// (uint8/uint16); size by ARG_1_AND_2_ARE_WORDS.
	Arg1, Arg2 int
	// Transform holds 0, 1, 2 or 4 raw F2DOT14 values according to
	// WE_HAVE_A_SCALE / WE_HAVE_AN_X_AND_Y_SCALE / WE_HAVE_A_TWO_BY_TWO.
	Transform []int16
}

// NumTransform returns the number of F2DOT14 values the flags announce.
func NumTransform(flags uint16) int {
	switch {
	case flags&WeHaveAScale != 0:
		return 1
	case flags&WeHaveAnXAndYScale != 0:
		return 2
	case flags&WeHaveATwoByTwo != 0:
		return 4
	}
	return 0
}

// ArgBytes returns the bytes that follow flags and glyphIndex in the record.
func (c *Component) ArgBytes() ([]byte, error) {
	var out []byte
	words := c.Flags&Arg1And2AreWords != 0
	xy := c.Flags&ArgsAreXYValues != 0
	for _, a := range []int{c.Arg1, c.Arg2} {
		var lo, hi int
		switch {
		case words && xy:
			lo, hi = -32768, 32767
		case words:
			lo, hi = 0, 65535
		case xy:
			lo, hi = -128, 127
		default:
			lo, hi = 0, 255
		}
		if a < lo || a > hi {
			return nil, fmt.Errorf("argument %d outside [%d,%d] for flags %#04x", a, lo, hi, c.Flags)
		}
		if words {
			out = append(out, byte(uint16(a)>>8), byte(a))
		} else {
			out = append(out, byte(a))
		}
	}
	if len(c.Transform) != NumTransform(c.Flags) {
		return nil, fmt.Errorf("%d transform values for flags %#04x", len(c.Transform), c.Flags)
	}
	for _, v := range c.Transform {
		out = append(out, byte(uint16(v)>>8), byte(v))
	}
	return out, nil
}

// Composite is the content of a composite glyph description.
type Composite struct {
	Comps    []Component
	HasInstr bool // numInstr + instructions follow the last component
	Instr    []byte
}

// EncodeComposite returns the description following the glyph header.  The
// flags are written as given; the caller is responsible for MORE_COMPONENTS
// and WE_HAVE_INSTRUCTIONS being consistent (CheckComposite).
func EncodeComposite(c *Composite) ([]byte, error) {
	if err := CheckComposite(c); err != nil {
		return nil, err
	}
	var out []byte
	for i := range c.Comps {
		k := &c.Comps[i]
		out = append(out, byte(k.Flags>>8), byte(k.Flags), byte(k.Glyph>>8), byte(k.Glyph))
		ab, err := k.ArgBytes()
		if err != nil {
			return nil, err
		}
		out = append(out, ab...)
	}
	if c.HasInstr {
		if len(c.Instr) > 0xFFFF {
			return nil, errors.New("too many instructions")
		}
		out = append(out, byte(len(c.Instr)>>8), byte(len(c.Instr)))
		out = append(out, c.Instr...)
	}
	return out, nil
}

// CheckComposite verifies that the flags are consistent with the content.
func CheckComposite(c *Composite) error {
	if len(c.Comps) == 0 {
		return errors.New("composite glyph without components")
	}
	last := len(c.Comps) - 1
	for i, k := range c.Comps {
		if (k.Flags&MoreComponents != 0) != (i < last) {
			return fmt.Errorf("component %d of %d: MORE_COMPONENTS wrong", i, last+1)
		}
		// More than one transform flag is nominally excluded, but the
		// specification's own parsing fragment (glyf chapter: "if (flags &
		// WE_HAVE_A_SCALE) ... else if (flags & WE_HAVE_AN_X_AND_Y_SCALE) ...
		// else if (flags & WE_HAVE_A_TWO_BY_TWO)") fixes the record length by
		// priority; NumTransform follows it, so such records are well defined.
		if k.Flags&WeHaveInstructions != 0 && !c.HasInstr {
			return fmt.Errorf("component %d: WE_HAVE_INSTRUCTIONS without instructions", i)
		}
	}
	if c.HasInstr && !anyInstrFlag(c.Comps) {
		return errors.New("instructions without WE_HAVE_INSTRUCTIONS on any component")
	}
	if !c.HasInstr && len(c.Instr) > 0 {
		return errors.New("Instr without HasInstr")
	}
	return nil
}

// anyInstrFlag reports whether a component record carries
// WE_HAVE_INSTRUCTIONS.  The specification only says that the flag means
// "following the last component are instructions"; it does not say which
// record has to carry it.  Like the library (and fontTools) the model takes a
// flag on any record: this is the reading under which every composite value
// (flags as given, instruction block present) survives Encode/Decode.
func anyInstrFlag(cc []Component) bool {
	for _, k := range cc {
		if k.Flags&WeHaveInstructions != 0 {
			return true
		}
	}
	return false
}

// DecodeComposite decodes a composite glyph description (numberOfContours <
// 0).  It returns the number of bytes used.
func DecodeComposite(b []byte) (*Composite, int, error) {
	c := &Composite{}
	pos := 0
	for {
		if pos+4 > len(b) {
			return nil, 0, ErrTruncated
		}
		var k Component
		k.Flags = uint16(b[pos])<<8 | uint16(b[pos+1])
		k.Glyph = uint16(b[pos+2])<<8 | uint16(b[pos+3])
		pos += 4
		words := k.Flags&Arg1And2AreWords != 0
		xy := k.Flags&ArgsAreXYValues != 0
		args := make([]int, 2)
		for i := range args {
			if words {
				if pos+2 > len(b) {
					return nil, 0, ErrTruncated
				}
				v := uint16(b[pos])<<8 | uint16(b[pos+1])
				pos += 2
				if xy {
					args[i] = int(int16(v))
				} else {
					args[i] = int(v)
				}
			} else {
				if pos+1 > len(b) {
					return nil, 0, ErrTruncated
				}
				v := b[pos]
				pos++
				if xy {
					args[i] = int(int8(v))
				} else {
					args[i] = int(v)
				}
			}
		}
		k.Arg1, k.Arg2 = args[0], args[1]
		for i := NumTransform(k.Flags); i > 0; i-- {
			if pos+2 > len(b) {
				return nil, 0, ErrTruncated
			}
			k.Transform = append(k.Transform, int16(uint16(b[pos])<<8|uint16(b[pos+1])))
			pos += 2
		}
		c.Comps = append(c.Comps, k)
		if k.Flags&MoreComponents == 0 {
			break
		}
	}
	if anyInstrFlag(c.Comps) {
		if pos+2 > len(b) {
			return nil, 0, ErrTruncated
		}
		n := int(b[pos])<<8 | int(b[pos+1])
		pos += 2
		if pos+n > len(b) {
			return nil, 0, ErrTruncated
		}
		c.HasInstr = true
		c.Instr = append([]byte{}, b[pos:pos+n]...)
		pos += n
	}
	return c, pos, nil
}

// Glyph is one entry of the glyf table.  A nil *Glyph is an empty glyph
// (loca[i] == loca[i+1]).
type Glyph struct {
	XMin, YMin, XMax, YMax int16
	NumContours            int16 // >= 0 simple, < 0 composite
	Simple                 *Simple
	Composite              *Composite
	// Body is the exact description after the 10-byte header without padding.
	Body []byte
	// Info is set for decoded simple glyphs.
	Info *SimpleInfo
}

// Bytes returns header + body, unpadded.
func (g *Glyph) Bytes() []byte {
	if g == nil {
		return nil
	}
	out := make([]byte, 0, 10+len(g.Body))
	for _, v := range []int16{g.NumContours, g.XMin, g.YMin, g.XMax, g.YMax} {
		out = append(out, byte(uint16(v)>>8), byte(v))
	}
	return append(out, g.Body...)
}

// ParseGlyph decodes one glyph record (the bytes between two loca offsets).
func ParseGlyph(b []byte) (*Glyph, error) {
	if len(b) == 0 {
		return nil, nil
	}
	if len(b) < 10 {
		return nil, ErrTruncated
	}
	i16 := func(o int) int16 { return int16(uint16(b[o])<<8 | uint16(b[o+1])) }
	g := &Glyph{NumContours: i16(0), XMin: i16(2), YMin: i16(4), XMax: i16(6), YMax: i16(8)}
	if g.NumContours >= 0 {
		s, info, err := DecodeSimple(int(g.NumContours), b[10:])
		if err != nil {
			return nil, err
		}
		g.Simple, g.Info = s, info
		g.Body = b[10 : 10+info.Used]
	} else {
		c, used, err := DecodeComposite(b[10:])
		if err != nil {
			return nil, err
		}
		g.Composite = c
		g.Body = b[10 : 10+used]
	}
	return g, nil
}

// Offsets decodes a loca table and checks the invariants the specification
// gives: numGlyphs+1 entries, non-decreasing, inside the glyf data; short
// offsets are stored divided by two.
func Offsets(loca []byte, format int, glyfLen int) ([]int, error) {
	var offs []int
	switch format {
	case 0:
		if len(loca)%2 != 0 || len(loca) < 4 {
			return nil, fmt.Errorf("short loca has %d bytes", len(loca))
		}
		for i := 0; i < len(loca); i += 2 {
			offs = append(offs, 2*(int(loca[i])<<8|int(loca[i+1])))
		}
	case 1:
		if len(loca)%4 != 0 || len(loca) < 8 {
			return nil, fmt.Errorf("long loca has %d bytes", len(loca))
		}
		for i := 0; i < len(loca); i += 4 {
			offs = append(offs, int(loca[i])<<24|int(loca[i+1])<<16|int(loca[i+2])<<8|int(loca[i+3]))
		}
	default:
		return nil, fmt.Errorf("indexToLocFormat %d", format)
	}
	for i, o := range offs {
		if i > 0 && o < offs[i-1] {
			return nil, fmt.Errorf("loca[%d]=%d < loca[%d]=%d", i, o, i-1, offs[i-1])
		}
		if o > glyfLen {
			return nil, fmt.Errorf("loca[%d]=%d beyond glyf length %d", i, o, glyfLen)
		}
	}
	return offs, nil
}

// Parse decodes a glyf/loca pair.
func Parse(glyf, loca []byte, format int) ([]*Glyph, []int, error) {
	offs, err := Offsets(loca, format, len(glyf))
	if err != nil {
		return nil, nil, err
	}
	gg := make([]*Glyph, len(offs)-1)
	for i := range gg {
		g, err := ParseGlyph(glyf[offs[i]:offs[i+1]])
		if err != nil {
			return nil, offs, fmt.Errorf("glyph %d: %w", i, err)
		}
		gg[i] = g
	}
	return gg, offs, nil
}

// Assemble concatenates glyph records.  recs[i] is header+body of glyph i
// (empty = no outline); pad[i] extra zero bytes are appended to glyph i
// (on top of what is needed to reach the alignment align = 1, 2 or 4; short
// loca needs even offsets).
func Assemble(recs [][]byte, pad []int, align int, format int) (glyf, loca []byte, err error) {
	offs := make([]int, 0, len(recs)+1)
	for i, r := range recs {
		offs = append(offs, len(glyf))
		glyf = append(glyf, r...)
		if len(r) == 0 {
			continue // empty glyphs must stay empty
		}
		n := 0
		if pad != nil {
			n = pad[i]
		}
		for ; n > 0; n-- {
			glyf = append(glyf, 0)
		}
		for len(glyf)%align != 0 {
			glyf = append(glyf, 0)
		}
	}
	offs = append(offs, len(glyf))
	switch format {
	case 0:
		for _, o := range offs {
			if o%2 != 0 || o/2 > 0xFFFF {
				return nil, nil, fmt.Errorf("offset %d does not fit the short loca format", o)
			}
			loca = append(loca, byte(o>>9), byte(o>>1))
		}
	case 1:
		for _, o := range offs {
			loca = append(loca, byte(o>>24), byte(o>>16), byte(o>>8), byte(o))
		}
	default:
		return nil, nil, fmt.Errorf("format %d", format)
	}
	return glyf, loca, nil
}

// Segment is a line (Quad == false) to P or a quadratic Bézier with control
// point C ending at P.  Coordinates are in half font units (i.e. doubled),
// because implied on-curve points lie at midpoints.
type Segment struct {
	Quad   bool
	CX, CY int
	PX, PY int
}

// Path is a closed contour: start point (doubled coordinates) + segments; the
// last segment ends at the start point.
type Path struct {
	SX, SY int
	Segs   []Segment
}

// ContourPath converts a TrueType contour into segments following the glyf
// chapter: consecutive off-curve points imply an on-curve point at their
// midpoint; the contour is closed.  The start point is the first on-curve
// point; if there is none, the midpoint between the last and the first point
// is used (this is also what FreeType and x/image do).
func ContourPath(c []Point) Path {
	n := len(c)
	var p Path
	if n == 0 {
		return p
	}
	first := -1
	for i, q := range c {
		if q.On {
			first = i
			break
		}
	}
	// rotated point list beginning after the start point
	var rest []Point
	if first >= 0 {
		p.SX, p.SY = 2*int(c[first].X), 2*int(c[first].Y)
		for i := 1; i < n; i++ {
			rest = append(rest, c[(first+i)%n])
		}
	} else {
		p.SX = int(c[n-1].X) + int(c[0].X)
		p.SY = int(c[n-1].Y) + int(c[0].Y)
		rest = append(rest, c...)
	}
	haveCtl := false
	var cx, cy int
	for _, q := range rest {
		x, y := 2*int(q.X), 2*int(q.Y)
		if q.On {
			if haveCtl {
				p.Segs = append(p.Segs, Segment{Quad: true, CX: cx, CY: cy, PX: x, PY: y})
				haveCtl = false
			} else {
				p.Segs = append(p.Segs, Segment{PX: x, PY: y})
			}
		} else {
			if haveCtl {
				mx, my := (cx+x)/2, (cy+y)/2
				p.Segs = append(p.Segs, Segment{Quad: true, CX: cx, CY: cy, PX: mx, PY: my})
			}
			cx, cy = x, y
			haveCtl = true
		}
	}
	if haveCtl {
		p.Segs = append(p.Segs, Segment{Quad: true, CX: cx, CY: cy, PX: p.SX, PY: p.SY})
	} else {
		p.Segs = append(p.Segs, Segment{PX: p.SX, PY: p.SY})
	}
	return p
}
