// Package reft2 is a reference interpreter for Type 2 charstrings, written
// from Adobe Technical Note #5177 ("The Type 2 Charstring Format").  It shares
// no code with seehuhn.de/go/sfnt.
//
// The interpreter is strict: every deviation from the charstring grammar and
// from the operand counts of TN5177 is an *Error with a Kind, so that the
// checks can (a) demand that well-formed programs are accepted, (b) classify
// malformed programs by the kind of malformation, and (c) use the
// instrumentation (maximal stack depth, operand count of every operator,
// termination by endchar) to judge charstrings emitted by an encoder.
//
// Numbers.  A Type 2 operand is a 16.16 fixed point number.  The result of
// add/sub/neg/abs on such numbers is exact; mul, div and sqrt round, and the
// Technical Note does not fix the rounding.  The interpreter therefore
// computes in real (float64) arithmetic and carries with every value an error
// radius E that bounds the deviation of *any* conforming implementation
// (16.16 with truncation or rounding, or real arithmetic): E is 0 for values
// that are exact in 16.16, one unit in the last place (2^-16) is added by
// every inexact mul/div/sqrt, and radii propagate through later arithmetic.
// A comparison (eq, ifelse, and, or, not) whose outcome depends on values
// inside the radius is reported as KAmbiguous: the specification does not
// decide such a program.
package reft2

import (
	"fmt"
	"math"
)

// Implementation limits of TN5177 Appendix B.
const (
	MaxStack      = 48
	MaxNest       = 10
	MaxStems      = 96
	TransientSize = 32
	Ulp           = 1.0 / 65536
)

// Kind classifies a malformation.
type Kind int

const (
	KUnderflow      Kind = iota + 1 // operator other than a path operator finds too few operands
	KOverflow                       // more than 48 operands
	KMissingEndchar                 // main charstring ends (or returns) without endchar
	KBadSubr                        // subroutine number outside the INDEX
	KDrawBeforeMove                 // line/curve/flex before the first moveto
	KNesting                        // more than 10 nested calls
	KOperandCount                   // path/moveto/stem/mask/endchar operator with an illegal number of operands
	KReserved                       // reserved operator code
	KTruncated                      // operand, escape or mask bytes cut off by the end of the code
	KOrder                          // hint operator at an illegal place, mask without stems
	KUnspecified                    // behaviour left undefined by TN5177 (div by 0, sqrt<0, overflow, bad index, get before put)
	KAmbiguous                      // comparison depends on rounding of mul/div/sqrt
	KDeprecated                     // endchar with seac operands
	KMissingReturn                  // subroutine ends without return/endchar
	KLimit                          // more than 96 stems
)

func (k Kind) String() string {
	switch k {
	case KUnderflow:
		return "underflow"
	case KOverflow:
		return "overflow"
	case KMissingEndchar:
		return "missing-endchar"
	case KBadSubr:
		return "bad-subr"
	case KDrawBeforeMove:
		return "draw-before-move"
	case KNesting:
		return "nesting"
	case KOperandCount:
		return "operand-count"
	case KReserved:
		return "reserved"
	case KTruncated:
		return "truncated"
	case KOrder:
		return "order"
	case KUnspecified:
		return "unspecified"
	case KAmbiguous:
		return "ambiguous"
	case KDeprecated:
		return "deprecated"
	case KMissingReturn:
		return "missing-return"
	case KLimit:
		return "limit"
	}
	return fmt.Sprintf("kind(%d)", int(k))
}

// Error is the error type returned by Run.
type Error struct {
	Kind Kind
	Msg  string
}

func (e *Error) Error() string { return "reft2: " + e.Kind.String() + ": " + e.Msg }

func errf(k Kind, format string, a ...any) *Error {
	return &Error{Kind: k, Msg: fmt.Sprintf(format, a...)}
}

// Operator codes; two-byte operators are 0x0c00|second byte.
const (
	OpHStem      = 1
	OpVStem      = 3
	OpVMoveTo    = 4
	OpRLineTo    = 5
	OpHLineTo    = 6
	OpVLineTo    = 7
	OpRRCurveTo  = 8
	OpCallSubr   = 10
	OpReturn     = 11
	OpEscape     = 12
	OpEndChar    = 14
	OpHStemHM    = 18
	OpHintMask   = 19
	OpCntrMask   = 20
	OpRMoveTo    = 21
	OpHMoveTo    = 22
	OpVStemHM    = 23
	OpRCurveLine = 24
	OpRLineCurve = 25
	OpVVCurveTo  = 26
	OpHHCurveTo  = 27
	OpShortInt   = 28
	OpCallGSubr  = 29
	OpVHCurveTo  = 30
	OpHVCurveTo  = 31

	OpDotSection = 0x0c00
	OpAnd        = 0x0c03
	OpOr         = 0x0c04
	OpNot        = 0x0c05
	OpAbs        = 0x0c09
	OpAdd        = 0x0c0a
	OpSub        = 0x0c0b
	OpDiv        = 0x0c0c
	OpNeg        = 0x0c0e
	OpEq         = 0x0c0f
	OpDrop       = 0x0c12
	OpPut        = 0x0c14
	OpGet        = 0x0c15
	OpIfElse     = 0x0c16
	OpRandom     = 0x0c17
	OpMul        = 0x0c18
	OpSqrt       = 0x0c1a
	OpDup        = 0x0c1b
	OpExch       = 0x0c1c
	OpIndex      = 0x0c1d
	OpRoll       = 0x0c1e
	OpHFlex      = 0x0c22
	OpFlex       = 0x0c23
	OpHFlex1     = 0x0c24
	OpFlex1      = 0x0c25
)

// OpName returns the TN5177 name of an operator code.
func OpName(op int) string {
	switch op {
	case OpHStem:
		return "hstem"
	case OpVStem:
		return "vstem"
	case OpVMoveTo:
		return "vmoveto"
	case OpRLineTo:
		return "rlineto"
	case OpHLineTo:
		return "hlineto"
	case OpVLineTo:
		return "vlineto"
	case OpRRCurveTo:
		return "rrcurveto"
	case OpCallSubr:
		return "callsubr"
	case OpReturn:
		return "return"
	case OpEndChar:
		return "endchar"
	case OpHStemHM:
		return "hstemhm"
	case OpHintMask:
		return "hintmask"
	case OpCntrMask:
		return "cntrmask"
	case OpRMoveTo:
		return "rmoveto"
	case OpHMoveTo:
		return "hmoveto"
	case OpVStemHM:
		return "vstemhm"
	case OpRCurveLine:
		return "rcurveline"
	case OpRLineCurve:
		return "rlinecurve"
	case OpVVCurveTo:
		return "vvcurveto"
	case OpHHCurveTo:
		return "hhcurveto"
	case OpCallGSubr:
		return "callgsubr"
	case OpVHCurveTo:
		return "vhcurveto"
	case OpHVCurveTo:
		return "hvcurveto"
	case OpDotSection:
		return "dotsection"
	case OpAnd:
		return "and"
	case OpOr:
		return "or"
	case OpNot:
		return "not"
	case OpAbs:
		return "abs"
	case OpAdd:
		return "add"
	case OpSub:
		return "sub"
	case OpDiv:
		return "div"
	case OpNeg:
		return "neg"
	case OpEq:
		return "eq"
	case OpDrop:
		return "drop"
	case OpPut:
		return "put"
	case OpGet:
		return "get"
	case OpIfElse:
		return "ifelse"
	case OpRandom:
		return "random"
	case OpMul:
		return "mul"
	case OpSqrt:
		return "sqrt"
	case OpDup:
		return "dup"
	case OpExch:
		return "exch"
	case OpIndex:
		return "index"
	case OpRoll:
		return "roll"
	case OpHFlex:
		return "hflex"
	case OpFlex:
		return "flex"
	case OpHFlex1:
		return "hflex1"
	case OpFlex1:
		return "flex1"
	}
	return fmt.Sprintf("op(%#x)", op)
}

// Bias is the subroutine number bias for an INDEX of n subroutines
// (TN5177 section 4.7).
func Bias(n int) int {
	switch {
	case n < 1240:
		return 107
	case n < 33900:
		return 1131
	}
	return 32768
}

// Num is a value with an error radius (see the package comment).
type Num struct{ V, E float64 }

func (n Num) exact() bool { return n.E == 0 }

// CmdType is the type of an outline command.
type CmdType uint8

const (
	MoveTo CmdType = iota + 1
	LineTo
	CurveTo
	HintMask
	CntrMask
)

func (c CmdType) String() string {
	switch c {
	case MoveTo:
		return "moveto"
	case LineTo:
		return "lineto"
	case CurveTo:
		return "curveto"
	case HintMask:
		return "hintmask"
	case CntrMask:
		return "cntrmask"
	}
	return "?"
}

// Cmd is one command of the decoded glyph: absolute coordinates for the path
// commands (2 or 6 numbers), the mask bytes for the mask commands.
type Cmd struct {
	Op   CmdType
	Args []Num
	Mask []byte
	Src  int // operator that produced the command
}

// OpUse records one executed operator.
type OpUse struct {
	Op    int
	NArgs int // operands on the stack when the operator was executed
	Depth int // subroutine nesting depth (0 = main charstring)
}

// Input is a charstring with its environment.
type Input struct {
	Code          []byte
	GSubrs        [][]byte
	LSubrs        [][]byte
	DefaultWidthX float64
	NominalWidthX float64
}

// Result is the decoded glyph plus instrumentation.
type Result struct {
	Cmds         []Cmd
	HStem, VStem []Num // absolute edges, two per stem
	Width        Num
	HasWidth     bool // an explicit width operand was present

	MaxStack      int // maximal operand stack depth reached
	MaxDepth      int // maximal subroutine nesting reached
	Ops           []OpUse
	ArithOps      int  // number of arithmetic/logic/storage operators executed
	Inexact       bool // some value consumed by an operator had E > 0
	Fractional    bool // some operand was not an integer
	BigOperand    bool // some operand had a magnitude above 32000
	EndcharDepth  int  // nesting depth at which endchar was executed
	TrailingBytes int  // bytes after endchar in the active code and its callers
	ImplicitVStem bool // a mask operator declared vstems implicitly
	ImplicitNoH   bool // ... although no hstem had been declared
	LateCntrMask  bool // cntrmask after the first moveto
	HStemAfterV   bool
	CalledL       []int // local subroutines called (index), in order
	CalledG       []int // global ...
}

type frame struct {
	code []byte
	pos  int
}

type interp struct {
	in    Input
	res   *Result
	stack []Num
	tr    [TransientSize]Num
	trSet [TransientSize]bool

	frames []frame

	widthDone bool
	moved     bool
	x, y      Num
	rangeErr  *Error
	hintsOpen bool // no mask and no moveto executed yet: stems may be declared
	seenV     bool
	seenStem  bool
}

func isInt16_16(v float64) bool {
	s := v * 65536
	return s == math.Trunc(s)
}

// Run interprets a charstring.  On error the partial result is returned too.
func Run(in Input) (*Result, error) {
	it := &interp{in: in, res: &Result{}, hintsOpen: true}
	it.res.Width = Num{V: in.DefaultWidthX}
	it.frames = []frame{{code: in.Code}}
	err := it.run()
	if err != nil {
		return it.res, err
	}
	return it.res, nil
}

func (it *interp) push(n Num) *Error {
	if len(it.stack) >= MaxStack {
		return errf(KOverflow, "more than %d operands", MaxStack)
	}
	if n.V+n.E > 32767.99999 || n.V-n.E < -32768 {
		return errf(KUnspecified, "value %v outside the 16.16 range", n.V)
	}
	if n.V != math.Trunc(n.V) {
		it.res.Fractional = true
	}
	if math.Abs(n.V) > 32000 {
		it.res.BigOperand = true
	}
	it.stack = append(it.stack, n)
	if len(it.stack) > it.res.MaxStack {
		it.res.MaxStack = len(it.stack)
	}
	return nil
}

func (it *interp) need(op int, n int) *Error {
	if len(it.stack) < n {
		return errf(KUnderflow, "%s needs %d operands, has %d", OpName(op), n, len(it.stack))
	}
	return nil
}

func (it *interp) pop() Num {
	n := it.stack[len(it.stack)-1]
	it.stack = it.stack[:len(it.stack)-1]
	return n
}

// intArg converts an operand that must be an exact integer.
func intArg(op int, n Num) (int, *Error) {
	if !n.exact() || n.V != math.Trunc(n.V) {
		return 0, errf(KUnspecified, "%s with non-integer operand %v±%v", OpName(op), n.V, n.E)
	}
	return int(n.V), nil
}

func round16(n Num, inexact bool) Num {
	if inexact || !isInt16_16(n.V) {
		n.E += Ulp
	}
	return n
}

func (it *interp) run() *Error {
	for {
		f := &it.frames[len(it.frames)-1]
		if f.pos >= len(f.code) {
			if len(it.frames) == 1 {
				return errf(KMissingEndchar, "end of charstring without endchar")
			}
			return errf(KMissingReturn, "end of subroutine without return")
		}
		b := f.code[f.pos]
		rest := len(f.code) - f.pos
		switch {
		case b >= 32 && b <= 246:
			f.pos++
			if e := it.push(Num{V: float64(int(b) - 139)}); e != nil {
				return e
			}
			continue
		case b >= 247 && b <= 250:
			if rest < 2 {
				return errf(KTruncated, "two-byte number cut off")
			}
			v := (int(b)-247)*256 + int(f.code[f.pos+1]) + 108
			f.pos += 2
			if e := it.push(Num{V: float64(v)}); e != nil {
				return e
			}
			continue
		case b >= 251 && b <= 254:
			if rest < 2 {
				return errf(KTruncated, "two-byte number cut off")
			}
			v := -(int(b)-251)*256 - int(f.code[f.pos+1]) - 108
			f.pos += 2
			if e := it.push(Num{V: float64(v)}); e != nil {
				return e
			}
			continue
		case b == OpShortInt:
			if rest < 3 {
				return errf(KTruncated, "three-byte number cut off")
			}
			v := int16(uint16(f.code[f.pos+1])<<8 | uint16(f.code[f.pos+2]))
			f.pos += 3
			if e := it.push(Num{V: float64(v)}); e != nil {
				return e
			}
			continue
		case b == 255:
			if rest < 5 {
				return errf(KTruncated, "five-byte number cut off")
			}
			u := uint32(f.code[f.pos+1])<<24 | uint32(f.code[f.pos+2])<<16 | uint32(f.code[f.pos+3])<<8 | uint32(f.code[f.pos+4])
			f.pos += 5
			if e := it.push(Num{V: float64(int32(u)) / 65536}); e != nil {
				return e
			}
			continue
		}
		op := int(b)
		f.pos++
		if b == OpEscape {
			if rest < 2 {
				return errf(KTruncated, "escape without second byte")
			}
			op = 0x0c00 | int(f.code[f.pos])
			f.pos++
		}
		it.res.Ops = append(it.res.Ops, OpUse{Op: op, NArgs: len(it.stack), Depth: len(it.frames) - 1})
		done, e := it.exec(op)
		if e != nil {
			return e
		}
		if it.rangeErr != nil {
			return it.rangeErr
		}
		if done {
			return nil
		}
	}
}

func (it *interp) clear() { it.stack = it.stack[:0] }

// takeWidth removes the optional width operand from the bottom of the stack.
func (it *interp) takeWidth(present bool) {
	if it.widthDone {
		return
	}
	it.widthDone = true
	if present {
		w := it.stack[0]
		it.noteUse(w)
		it.res.Width = Num{V: w.V + it.in.NominalWidthX, E: w.E}
		it.res.HasWidth = true
		it.stack = it.stack[1:]
	}
}

// noteUse is called for every value consumed as a coordinate, stem edge or
// width.  Values derived implicitly by an operator (the negated sums of the
// flex operators) can leave the 16.16 range; that is an overflow, which
// TN5177 leaves undefined.
func (it *interp) noteUse(ns ...Num) {
	for _, n := range ns {
		if n.E > 0 {
			it.res.Inexact = true
		}
		if (n.V+n.E > 32767.99999 || n.V-n.E < -32768) && it.rangeErr == nil {
			it.rangeErr = errf(KUnspecified, "derived operand %v outside the 16.16 range", n.V)
		}
	}
}

func add(a, b Num) Num { return Num{V: a.V + b.V, E: a.E + b.E} }

func (it *interp) moveTo(dx, dy Num) {
	it.noteUse(dx, dy)
	it.x, it.y = add(it.x, dx), add(it.y, dy)
	it.moved = true
}

func (it *interp) emit(t CmdType, src int, args ...Num) {
	it.res.Cmds = append(it.res.Cmds, Cmd{Op: t, Args: append([]Num(nil), args...), Src: src})
}

func (it *interp) line(src int, dx, dy Num) {
	it.noteUse(dx, dy)
	it.x, it.y = add(it.x, dx), add(it.y, dy)
	it.emit(LineTo, src, it.x, it.y)
}

func (it *interp) curve(src int, dxa, dya, dxb, dyb, dxc, dyc Num) {
	it.noteUse(dxa, dya, dxb, dyb, dxc, dyc)
	xa, ya := add(it.x, dxa), add(it.y, dya)
	xb, yb := add(xa, dxb), add(ya, dyb)
	it.x, it.y = add(xb, dxc), add(yb, dyc)
	it.emit(CurveTo, src, xa, ya, xb, yb, it.x, it.y)
}

var zero = Num{}

func neg(a Num) Num { return Num{V: -a.V, E: a.E} }

func (it *interp) needMove(op int) *Error {
	if !it.moved {
		return errf(KDrawBeforeMove, "%s before the first moveto", OpName(op))
	}
	return nil
}

func (it *interp) stems(op int, vertical bool, args []Num) *Error {
	if len(args)%2 != 0 || len(args) == 0 {
		return errf(KOperandCount, "%s with %d operands", OpName(op), len(args))
	}
	var prev Num
	for k := 0; k+1 < len(args); k += 2 {
		it.noteUse(args[k], args[k+1])
		a := add(prev, args[k])
		b := add(a, args[k+1])
		if vertical {
			it.res.VStem = append(it.res.VStem, a, b)
		} else {
			it.res.HStem = append(it.res.HStem, a, b)
		}
		prev = b
	}
	if (len(it.res.HStem)+len(it.res.VStem))/2 > MaxStems {
		return errf(KLimit, "more than %d stems", MaxStems)
	}
	return nil
}

// truth decides whether a value is non-zero.
func truth(op int, n Num) (bool, *Error) {
	if n.E > 0 && math.Abs(n.V) <= n.E {
		return false, errf(KAmbiguous, "%s on %v±%v", OpName(op), n.V, n.E)
	}
	return n.V != 0, nil
}

func b2n(b bool) Num {
	if b {
		return Num{V: 1}
	}
	return Num{}
}

func (it *interp) exec(op int) (done bool, err *Error) {
	st := it.stack
	n := len(st)
	switch op {
	case OpRMoveTo, OpHMoveTo, OpVMoveTo:
		want := 1
		if op == OpRMoveTo {
			want = 2
		}
		if !it.widthDone && n == want+1 {
			it.takeWidth(true)
		} else if n != want {
			return false, errf(KOperandCount, "%s with %d operands", OpName(op), n)
		} else {
			it.takeWidth(false)
		}
		st = it.stack
		switch op {
		case OpRMoveTo:
			it.moveTo(st[0], st[1])
		case OpHMoveTo:
			it.moveTo(st[0], zero)
		default:
			it.moveTo(zero, st[0])
		}
		it.hintsOpen = false
		it.emit(MoveTo, op, it.x, it.y)
		it.clear()

	case OpRLineTo:
		if n < 2 || n%2 != 0 {
			return false, errf(KOperandCount, "rlineto with %d operands", n)
		}
		if e := it.needMove(op); e != nil {
			return false, e
		}
		for k := 0; k < n; k += 2 {
			it.line(op, st[k], st[k+1])
		}
		it.clear()

	case OpHLineTo, OpVLineTo:
		if n < 1 {
			return false, errf(KOperandCount, "%s with no operands", OpName(op))
		}
		if e := it.needMove(op); e != nil {
			return false, e
		}
		horiz := op == OpHLineTo
		for k := 0; k < n; k++ {
			if horiz {
				it.line(op, st[k], zero)
			} else {
				it.line(op, zero, st[k])
			}
			horiz = !horiz
		}
		it.clear()

	case OpRRCurveTo:
		if n < 6 || n%6 != 0 {
			return false, errf(KOperandCount, "rrcurveto with %d operands", n)
		}
		if e := it.needMove(op); e != nil {
			return false, e
		}
		for k := 0; k < n; k += 6 {
			it.curve(op, st[k], st[k+1], st[k+2], st[k+3], st[k+4], st[k+5])
		}
		it.clear()

	case OpRCurveLine:
		if n < 8 || (n-2)%6 != 0 {
			return false, errf(KOperandCount, "rcurveline with %d operands", n)
		}
		if e := it.needMove(op); e != nil {
			return false, e
		}
		k := 0
		for ; k+6 <= n-2; k += 6 {
			it.curve(op, st[k], st[k+1], st[k+2], st[k+3], st[k+4], st[k+5])
		}
		it.line(op, st[k], st[k+1])
		it.clear()

	case OpRLineCurve:
		if n < 8 || (n-6)%2 != 0 {
			return false, errf(KOperandCount, "rlinecurve with %d operands", n)
		}
		if e := it.needMove(op); e != nil {
			return false, e
		}
		k := 0
		for ; k+2 <= n-6; k += 2 {
			it.line(op, st[k], st[k+1])
		}
		it.curve(op, st[k], st[k+1], st[k+2], st[k+3], st[k+4], st[k+5])
		it.clear()

	case OpHHCurveTo, OpVVCurveTo:
		if n < 4 || (n%4 != 0 && n%4 != 1) {
			return false, errf(KOperandCount, "%s with %d operands", OpName(op), n)
		}
		if e := it.needMove(op); e != nil {
			return false, e
		}
		k := 0
		first := zero
		if n%4 == 1 {
			first = st[0]
			k = 1
		}
		for ; k < n; k += 4 {
			if op == OpHHCurveTo {
				// dy1? {dxa dxb dyb dxc}+
				it.curve(op, st[k], first, st[k+1], st[k+2], st[k+3], zero)
			} else {
				// dx1? {dya dxb dyb dyc}+
				it.curve(op, first, st[k], st[k+1], st[k+2], zero, st[k+3])
			}
			first = zero
		}
		it.clear()

	case OpHVCurveTo, OpVHCurveTo:
		if n < 4 || (n%4 != 0 && n%4 != 1) {
			return false, errf(KOperandCount, "%s with %d operands", OpName(op), n)
		}
		if e := it.needMove(op); e != nil {
			return false, e
		}
		horiz := op == OpHVCurveTo
		for k := 0; k+4 <= n; k += 4 {
			last := zero
			if k+5 == n {
				last = st[k+4]
			}
			if horiz {
				// starts horizontal, ends vertical: dx1 dx2 dy2 dy3 (dxf)
				it.curve(op, st[k], zero, st[k+1], st[k+2], last, st[k+3])
			} else {
				// starts vertical, ends horizontal: dy1 dx2 dy2 dx3 (dyf)
				it.curve(op, zero, st[k], st[k+1], st[k+2], st[k+3], last)
			}
			horiz = !horiz
		}
		it.clear()

	case OpFlex:
		if n != 13 {
			return false, errf(KOperandCount, "flex with %d operands", n)
		}
		if e := it.needMove(op); e != nil {
			return false, e
		}
		it.curve(op, st[0], st[1], st[2], st[3], st[4], st[5])
		it.curve(op, st[6], st[7], st[8], st[9], st[10], st[11])
		it.clear()

	case OpHFlex:
		if n != 7 {
			return false, errf(KOperandCount, "hflex with %d operands", n)
		}
		if e := it.needMove(op); e != nil {
			return false, e
		}
		// dx1 dx2 dy2 dx3 dx4 dx5 dx6
		it.curve(op, st[0], zero, st[1], st[2], st[3], zero)
		it.curve(op, st[4], zero, st[5], neg(st[2]), st[6], zero)
		it.clear()

	case OpHFlex1:
		if n != 9 {
			return false, errf(KOperandCount, "hflex1 with %d operands", n)
		}
		if e := it.needMove(op); e != nil {
			return false, e
		}
		// dx1 dy1 dx2 dy2 dx3 dx4 dx5 dy5 dx6
		it.curve(op, st[0], st[1], st[2], st[3], st[4], zero)
		dy := add(add(st[1], st[3]), st[7])
		it.curve(op, st[5], zero, st[6], st[7], st[8], neg(dy))
		it.clear()

	case OpFlex1:
		if n != 11 {
			return false, errf(KOperandCount, "flex1 with %d operands", n)
		}
		if e := it.needMove(op); e != nil {
			return false, e
		}
		// dx1 dy1 dx2 dy2 dx3 dy3 dx4 dy4 dx5 dy5 d6
		dx := add(add(add(add(st[0], st[2]), st[4]), st[6]), st[8])
		dy := add(add(add(add(st[1], st[3]), st[5]), st[7]), st[9])
		ax, ay := math.Abs(dx.V), math.Abs(dy.V)
		if (dx.E > 0 || dy.E > 0) && math.Abs(ax-ay) <= dx.E+dy.E {
			return false, errf(KAmbiguous, "flex1 orientation depends on rounding")
		}
		it.curve(op, st[0], st[1], st[2], st[3], st[4], st[5])
		if ax > ay {
			// last point: x moves by d6, y returns to the start
			it.curve(op, st[6], st[7], st[8], st[9], st[10], neg(dy))
		} else {
			it.curve(op, st[6], st[7], st[8], st[9], neg(dx), st[10])
		}
		it.clear()

	case OpHStem, OpHStemHM, OpVStem, OpVStemHM:
		vertical := op == OpVStem || op == OpVStemHM
		if !it.hintsOpen {
			return false, errf(KOrder, "%s after a mask or moveto", OpName(op))
		}
		if !vertical && it.seenV {
			it.res.HStemAfterV = true
			return false, errf(KOrder, "%s after vertical stems", OpName(op))
		}
		min := 2
		if !it.widthDone && n%2 == 1 {
			min = 3
		}
		if n < min {
			return false, errf(KUnderflow, "%s with %d operands", OpName(op), n)
		}
		it.takeWidth(n%2 == 1)
		if e := it.stems(op, vertical, it.stack); e != nil {
			return false, e
		}
		if vertical {
			it.seenV = true
		}
		it.seenStem = true
		it.clear()

	case OpHintMask, OpCntrMask:
		if !it.widthDone {
			it.takeWidth(n%2 == 1)
		}
		if len(it.stack) > 0 {
			if !it.hintsOpen {
				return false, errf(KOperandCount, "%s with %d operands outside the hint section", OpName(op), len(it.stack))
			}
			if e := it.stems(op, true, it.stack); e != nil {
				return false, e
			}
			it.res.ImplicitVStem = true
			if len(it.res.HStem) == 0 {
				it.res.ImplicitNoH = true
			}
		}
		it.hintsOpen = false
		nStems := (len(it.res.HStem) + len(it.res.VStem)) / 2
		if nStems == 0 {
			return false, errf(KOrder, "%s without stems", OpName(op))
		}
		k := (nStems + 7) / 8
		f := &it.frames[len(it.frames)-1]
		if len(f.code)-f.pos < k {
			return false, errf(KTruncated, "%s needs %d mask bytes, %d left", OpName(op), k, len(f.code)-f.pos)
		}
		mask := append([]byte(nil), f.code[f.pos:f.pos+k]...)
		f.pos += k
		t := HintMask
		if op == OpCntrMask {
			t = CntrMask
			if it.moved {
				it.res.LateCntrMask = true
			}
		}
		it.res.Cmds = append(it.res.Cmds, Cmd{Op: t, Mask: mask, Src: op})
		it.clear()

	case OpDotSection:
		// deprecated no-op (TN5177 appendix C); only defined with an empty stack
		if n != 0 {
			return false, errf(KOperandCount, "dotsection with %d operands", n)
		}

	case OpEndChar:
		switch {
		case n == 0:
			it.takeWidth(false)
		case n == 1 && !it.widthDone:
			it.takeWidth(true)
		case n == 4 || (n == 5 && !it.widthDone):
			return false, errf(KDeprecated, "endchar with seac operands")
		default:
			return false, errf(KOperandCount, "endchar with %d operands", n)
		}
		it.res.EndcharDepth = len(it.frames) - 1
		for _, f := range it.frames {
			it.res.TrailingBytes += len(f.code) - f.pos
		}
		it.clear()
		return true, nil

	case OpCallSubr, OpCallGSubr:
		if e := it.need(op, 1); e != nil {
			return false, e
		}
		a := it.pop()
		num, e := intArg(op, a)
		if e != nil {
			return false, e
		}
		subrs := it.in.LSubrs
		if op == OpCallGSubr {
			subrs = it.in.GSubrs
		}
		idx := num + Bias(len(subrs))
		if idx < 0 || idx >= len(subrs) {
			return false, errf(KBadSubr, "%s %d: index %d outside [0,%d)", OpName(op), num, idx, len(subrs))
		}
		if len(it.frames)-1 >= MaxNest {
			return false, errf(KNesting, "more than %d nested calls", MaxNest)
		}
		if op == OpCallGSubr {
			it.res.CalledG = append(it.res.CalledG, idx)
		} else {
			it.res.CalledL = append(it.res.CalledL, idx)
		}
		it.frames = append(it.frames, frame{code: subrs[idx]})
		if len(it.frames)-1 > it.res.MaxDepth {
			it.res.MaxDepth = len(it.frames) - 1
		}

	case OpReturn:
		if len(it.frames) == 1 {
			return false, errf(KMissingEndchar, "return outside a subroutine")
		}
		it.frames = it.frames[:len(it.frames)-1]

	default:
		return it.arith(op)
	}
	return false, nil
}

func (it *interp) arith(op int) (bool, *Error) {
	it.res.ArithOps++
	st := it.stack
	n := len(st)
	un := func() *Error { return it.need(op, 1) }
	bin := func() *Error { return it.need(op, 2) }
	repl := func(k int, v Num) *Error {
		it.stack = it.stack[:n-k]
		return it.push(v)
	}
	switch op {
	case OpAbs:
		if e := un(); e != nil {
			return false, e
		}
		a := st[n-1]
		return false, repl(1, Num{V: math.Abs(a.V), E: a.E})
	case OpNeg:
		if e := un(); e != nil {
			return false, e
		}
		return false, repl(1, neg(st[n-1]))
	case OpAdd:
		if e := bin(); e != nil {
			return false, e
		}
		return false, repl(2, add(st[n-2], st[n-1]))
	case OpSub:
		if e := bin(); e != nil {
			return false, e
		}
		return false, repl(2, add(st[n-2], neg(st[n-1])))
	case OpMul:
		if e := bin(); e != nil {
			return false, e
		}
		a, b := st[n-2], st[n-1]
		v := Num{V: a.V * b.V, E: math.Abs(a.V)*b.E + math.Abs(b.V)*a.E + a.E*b.E}
		return false, repl(2, round16(v, false))
	case OpDiv:
		if e := bin(); e != nil {
			return false, e
		}
		a, b := st[n-2], st[n-1]
		if math.Abs(b.V)-b.E <= 0 {
			return false, errf(KUnspecified, "div by %v±%v", b.V, b.E)
		}
		q := a.V / b.V
		v := Num{V: q, E: (a.E + math.Abs(q)*b.E) / (math.Abs(b.V) - b.E)}
		return false, repl(2, round16(v, false))
	case OpSqrt:
		if e := un(); e != nil {
			return false, e
		}
		a := st[n-1]
		if a.V-a.E < 0 {
			return false, errf(KUnspecified, "sqrt of %v±%v", a.V, a.E)
		}
		v := Num{V: math.Sqrt(a.V)}
		if a.E > 0 {
			v.E = math.Sqrt(a.V+a.E) - math.Sqrt(a.V-a.E)
		}
		return false, repl(1, round16(v, false))
	case OpDrop:
		if e := un(); e != nil {
			return false, e
		}
		it.stack = st[:n-1]
	case OpExch:
		if e := bin(); e != nil {
			return false, e
		}
		st[n-2], st[n-1] = st[n-1], st[n-2]
	case OpDup:
		if e := un(); e != nil {
			return false, e
		}
		return false, it.push(st[n-1])
	case OpIndex:
		if e := un(); e != nil {
			return false, e
		}
		i, e := intArg(op, st[n-1])
		if e != nil {
			return false, e
		}
		if i < 0 {
			i = 0
		}
		if n-2-i < 0 {
			return false, errf(KUnspecified, "index %d with %d elements below", i, n-1)
		}
		return false, repl(1, st[n-2-i])
	case OpRoll:
		if e := bin(); e != nil {
			return false, e
		}
		cnt, e := intArg(op, st[n-2])
		if e != nil {
			return false, e
		}
		j, e := intArg(op, st[n-1])
		if e != nil {
			return false, e
		}
		if cnt < 0 {
			return false, errf(KUnspecified, "roll with N=%d", cnt)
		}
		if cnt > n-2 {
			return false, errf(KUnderflow, "roll of %d elements, %d present", cnt, n-2)
		}
		it.stack = st[:n-2]
		if cnt > 0 {
			seg := it.stack[n-2-cnt:]
			old := append([]Num(nil), seg...)
			for i := range old {
				seg[((i+j)%cnt+cnt)%cnt] = old[i]
			}
		}
	case OpPut:
		if e := bin(); e != nil {
			return false, e
		}
		i, e := intArg(op, st[n-1])
		if e != nil {
			return false, e
		}
		if i < 0 || i >= TransientSize {
			return false, errf(KUnspecified, "put at %d", i)
		}
		it.tr[i], it.trSet[i] = st[n-2], true
		it.stack = st[:n-2]
	case OpGet:
		if e := un(); e != nil {
			return false, e
		}
		i, e := intArg(op, st[n-1])
		if e != nil {
			return false, e
		}
		if i < 0 || i >= TransientSize || !it.trSet[i] {
			return false, errf(KUnspecified, "get at %d (not set)", i)
		}
		return false, repl(1, it.tr[i])
	case OpAnd, OpOr:
		if e := bin(); e != nil {
			return false, e
		}
		a, e := truth(op, st[n-2])
		if e != nil {
			return false, e
		}
		b, e := truth(op, st[n-1])
		if e != nil {
			return false, e
		}
		if op == OpAnd {
			return false, repl(2, b2n(a && b))
		}
		return false, repl(2, b2n(a || b))
	case OpNot:
		if e := un(); e != nil {
			return false, e
		}
		a, e := truth(op, st[n-1])
		if e != nil {
			return false, e
		}
		return false, repl(1, b2n(!a))
	case OpEq:
		if e := bin(); e != nil {
			return false, e
		}
		a, b := st[n-2], st[n-1]
		if (a.E > 0 || b.E > 0) && math.Abs(a.V-b.V) <= a.E+b.E {
			return false, errf(KAmbiguous, "eq on %v±%v and %v±%v", a.V, a.E, b.V, b.E)
		}
		return false, repl(2, b2n(a.V == b.V))
	case OpIfElse:
		if e := it.need(op, 4); e != nil {
			return false, e
		}
		s1, s2, v1, v2 := st[n-4], st[n-3], st[n-2], st[n-1]
		if (v1.E > 0 || v2.E > 0) && math.Abs(v1.V-v2.V) <= v1.E+v2.E {
			return false, errf(KAmbiguous, "ifelse on %v±%v and %v±%v", v1.V, v1.E, v2.V, v2.E)
		}
		if v1.V <= v2.V {
			return false, repl(4, s1)
		}
		return false, repl(4, s2)
	case OpRandom:
		// any value in (0,1]
		return false, it.push(Num{V: 0.5, E: 0.5})
	default:
		it.res.ArithOps--
		return false, errf(KReserved, "reserved operator %s", OpName(op))
	}
	return false, nil
}
