package reft2

import (
	"fmt"
	"math"
)

// NumEnc selects one of the five operand encodings of TN5177 section 3.2.
type NumEnc int

const (
	EncAuto  NumEnc = iota // shortest encoding
	EncByte                // 32..246: -107..107
	EncPos2                // 247..250: 108..1131
	EncNeg2                // 251..254: -1131..-108
	EncShort               // 28: any int16
	EncFixed               // 255: any 16.16
)

// CanEncode reports whether v can be written with the given encoding.
func CanEncode(v float64, enc NumEnc) bool {
	isInt := v == math.Trunc(v)
	switch enc {
	case EncAuto:
		return v >= -32768 && v < 32768 && isInt16_16(v)
	case EncByte:
		return isInt && v >= -107 && v <= 107
	case EncPos2:
		return isInt && v >= 108 && v <= 1131
	case EncNeg2:
		return isInt && v <= -108 && v >= -1131
	case EncShort:
		return isInt && v >= -32768 && v <= 32767
	case EncFixed:
		return v >= -32768 && v < 32768 && isInt16_16(v)
	}
	return false
}

// AppendNumber appends the encoding of v (which must be a 16.16 number that
// the chosen encoding can represent; see CanEncode).
func AppendNumber(buf []byte, v float64, enc NumEnc) []byte {
	if enc == EncAuto {
		switch {
		case CanEncode(v, EncByte):
			enc = EncByte
		case CanEncode(v, EncPos2):
			enc = EncPos2
		case CanEncode(v, EncNeg2):
			enc = EncNeg2
		case CanEncode(v, EncShort):
			enc = EncShort
		default:
			enc = EncFixed
		}
	}
	if !CanEncode(v, enc) {
		panic(fmt.Sprintf("reft2: number %v not encodable as %d", v, enc))
	}
	switch enc {
	case EncByte:
		return append(buf, byte(int(v)+139))
	case EncPos2:
		x := int(v) - 108
		return append(buf, byte(x/256+247), byte(x%256))
	case EncNeg2:
		x := -int(v) - 108
		return append(buf, byte(x/256+251), byte(x%256))
	case EncShort:
		x := uint16(int16(v))
		return append(buf, 28, byte(x>>8), byte(x))
	default:
		x := uint32(int32(math.Round(v * 65536)))
		return append(buf, 255, byte(x>>24), byte(x>>16), byte(x>>8), byte(x))
	}
}

// AppendOp appends an operator code.
func AppendOp(buf []byte, op int) []byte {
	if op >= 0x0c00 {
		return append(buf, 12, byte(op))
	}
	return append(buf, byte(op))
}
