package refcmap

import (
	"errors"
	"sort"
)

// Chooser supplies the free choices of the encoders (backed by the test's
// random source).  Intn returns a value in [0, n), n >= 1.
type Chooser interface {
	Intn(label string, n int) int
}

// ErrTooLarge is returned when a mapping does not fit the 16-bit length (or
// offset) fields of a format with the layout that was chosen.
var ErrTooLarge = errors.New("refcmap: subtable would exceed 65535 bytes")

func put16(b []byte, v uint16) []byte { return append(b, byte(v>>8), byte(v)) }
func put32(b []byte, v uint32) []byte {
	return append(b, byte(v>>24), byte(v>>16), byte(v>>8), byte(v))
}

// EncodeFormat0 writes a byte encoding table.
func EncodeFormat0(g *[256]byte, language uint16) []byte {
	b := make([]byte, 0, 262)
	b = put16(b, 0)
	b = put16(b, 262)
	b = put16(b, language)
	return append(b, g[:]...)
}

// EncodeFormat6 writes a trimmed table for the mapping g (code -> glyph, 0 =
// unmapped).  The covered range may start before the first and end after the
// last mapped code (entries 0 there); with no mapped code the range is
// arbitrary, possibly empty.
func EncodeFormat6(g *[65536]uint16, language uint16, ch Chooser) []byte {
	lo, hi := -1, -1
	for c := 0; c < 65536; c++ {
		if g[c] != 0 {
			if lo < 0 {
				lo = c
			}
			hi = c
		}
	}
	var first, count int
	if lo < 0 {
		first = ch.Intn("f6first", 65536)
		count = ch.Intn("f6count", 4)
		if first+count > 65536 {
			count = 65536 - first
		}
	} else {
		lead := ch.Intn("f6lead", 4)
		if lead > lo {
			lead = lo
		}
		trail := ch.Intn("f6trail", 4)
		if hi+trail > 65535 {
			trail = 65535 - hi
		}
		first = lo - lead
		count = hi + trail - first + 1
	}
	if 10+2*count > 65535 {
		// cannot happen for count <= 32762; callers keep ranges short
		panic("refcmap: format 6 range too long")
	}
	b := make([]byte, 0, 10+2*count)
	b = put16(b, 6)
	b = put16(b, uint16(10+2*count))
	b = put16(b, language)
	b = put16(b, uint16(first))
	b = put16(b, uint16(count))
	for i := 0; i < count; i++ {
		b = put16(b, g[first+i])
	}
	return b
}

// F12Stats describes what EncodeFormat12 did.
type F12Stats struct {
	Groups     int
	SplitRuns  int // groups that continue the previous group's run
	ZeroGroups int // groups mapping unmapped codes to glyph 0
}

// EncodeFormat12 writes a segmented coverage table.  Runs of consecutive
// codes with consecutive glyphs may be split into several groups, and single
// unmapped codes may get a group of their own that maps them to glyph 0.
func EncodeFormat12(m map[uint32]uint16, language uint32, ch Chooser) ([]byte, F12Stats) {
	keys := make([]uint32, 0, len(m))
	for c, g := range m {
		if g != 0 {
			keys = append(keys, c)
		}
	}
	sort.Slice(keys, func(i, j int) bool { return keys[i] < keys[j] })
	var st F12Stats
	var groups []Group
	splitMode := ch.Intn("f12split", 3)    // 0 never, 1 sometimes, 2 always
	zeroMode := ch.Intn("f12zero", 3) != 0 // insert zero groups in some gaps
	for i := 0; i < len(keys); {
		c := keys[i]
		if zeroMode && c > 0 {
			prevEnd := int64(-1)
			if len(groups) > 0 {
				prevEnd = int64(groups[len(groups)-1].End)
			}
			if int64(c)-1 > prevEnd && ch.Intn("f12z", 8) == 0 {
				groups = append(groups, Group{c - 1, c - 1, 0})
				st.ZeroGroups++
			}
		}
		j := i + 1
		for j < len(keys) && keys[j] == keys[j-1]+1 && uint32(m[keys[j]]) == uint32(m[keys[j-1]])+1 {
			j++
		}
		// keys[i:j] is a maximal run
		for i < j {
			n := j - i
			switch splitMode {
			case 1:
				if n > 1 && ch.Intn("f12s", 3) == 0 {
					n = 1 + ch.Intn("f12n", n-1)
				}
			case 2:
				n = 1
			}
			if len(groups) > 0 && i > 0 && keys[i] == keys[i-1]+1 && uint32(m[keys[i]]) == uint32(m[keys[i-1]])+1 &&
				groups[len(groups)-1].End == keys[i-1] {
				st.SplitRuns++
			}
			groups = append(groups, Group{keys[i], keys[i+n-1], uint32(m[keys[i]])})
			i += n
		}
	}
	st.Groups = len(groups)
	L := 16 + 12*len(groups)
	b := make([]byte, 0, L)
	b = put16(b, 12)
	b = put16(b, 0)
	b = put32(b, uint32(L))
	b = put32(b, language)
	b = put32(b, uint32(len(groups)))
	for _, g := range groups {
		b = put32(b, g.Start)
		b = put32(b, g.End)
		b = put32(b, g.Glyph)
	}
	return b, st
}

// F4Stats describes what EncodeFormat4 did.
type F4Stats struct {
	Segments       int
	ArraySegs      int // segments with idRangeOffset != 0
	ArrayWithDelta int // ... of which idDelta != 0
	Shared         int // segments whose glyphIdArray range is (part of) another segment's
	SplitRuns      int // delta segments that stop before the end of their constant-delta run
	Permuted       bool
	Padding        int // unused words inside/after glyphIdArray
	SearchMode     int // 0 per spec, 1 zero, 2 arbitrary, 3 off by one segment
	LastIsArray    bool
}

type seg4 struct {
	start, end int
	array      bool
	delta      uint16
	vals       []uint16 // array segments that own their range
	shareOf    int      // index (into segs) of the owner, -1 if own
	shareOff   int      // word offset inside the owner's range
	pos        int      // word position in glyphIdArray
}

// EncodeFormat4 writes a format 4 subtable for the mapping g (code -> glyph,
// 0 = unmapped) using a randomly chosen legal layout: constant-delta runs may
// be split, any stretch of codes (also across unmapped codes) may be stored
// through glyphIdArray with an arbitrary idDelta that is then compensated in
// the stored values, segments may share glyphIdArray ranges, the ranges are
// laid out in arbitrary order with unused words between them, and the
// search fields may hold anything.
func EncodeFormat4(g *[65536]uint16, language uint16, ch Chooser) ([]byte, F4Stats, error) {
	var st F4Stats
	var segs []seg4
	words := 0 // glyphIdArray words so far
	budget := func() int { return 16 + 8*(len(segs)+1) + 2*words }

	arrayProb := ch.Intn("f4arrayProb", 4) // 0: rarely, 3: mostly
	leadZeros := ch.Intn("f4lead", 3) == 0

	c := 0
	for c < 0xFFFF {
		if g[c] == 0 {
			// next mapped code
			n := c
			for n < 0xFFFF && g[n] == 0 {
				n++
			}
			if n == 0xFFFF {
				// only unmapped codes remain before 0xFFFF; rarely cover a few of
				// them with an all-zero array segment
				if n-c >= 3 && budget() < 60000 && ch.Intn("f4zeroseg", 10) == 0 {
					s := c + ch.Intn("f4zs", n-c-2)
					l := 1 + ch.Intn("f4zl", 2)
					segs = append(segs, seg4{start: s, end: s + l - 1, array: true, delta: uint16(ch.Intn("f4zd", 65536)), vals: make([]uint16, l), shareOf: -1})
					words += l
				}
				break
			}
			lead := 0
			if leadZeros && n-c > 1 && budget() < 60000 {
				lead = ch.Intn("f4lz", 3)
				if lead > n-c-1 {
					lead = n - c - 1
				}
			}
			c = n - lead
			if lead > 0 {
				// a segment that starts on unmapped codes must be an array segment
				e := arrayEnd(g, n, ch)
				segs = append(segs, makeArraySeg(g, c, e, segs, ch, &st))
				if segs[len(segs)-1].shareOf < 0 {
					words += e - c + 1
				}
				c = e + 1
				continue
			}
		}
		// c is mapped
		delta := g[c] - uint16(c)
		rEnd := c
		for rEnd+1 < 0xFFFF && uint16(rEnd+1)+delta == g[rEnd+1] {
			rEnd++
		}
		runLen := rEnd - c + 1
		useArray := false
		if budget() < 60000 {
			switch {
			case runLen >= 4:
				useArray = ch.Intn("f4kindL", 8) < arrayProb
			default:
				useArray = ch.Intn("f4kindS", 4) < arrayProb+1
			}
		}
		if useArray {
			e := arrayEnd(g, c, ch)
			if budget()+2*(e-c+1) > 64000 {
				e = c
			}
			segs = append(segs, makeArraySeg(g, c, e, segs, ch, &st))
			if segs[len(segs)-1].shareOf < 0 {
				words += e - c + 1
			}
			c = e + 1
		} else {
			e := rEnd
			if runLen > 1 && budget() < 60000 && ch.Intn("f4splitrun", 4) == 0 {
				e = c + ch.Intn("f4sr", runLen-1)
				st.SplitRuns++
			}
			segs = append(segs, seg4{start: c, end: e, delta: delta, shareOf: -1})
			c = e + 1
		}
	}

	// the final segment 0xFFFF..0xFFFF
	{
		gl := g[0xFFFF]
		if budget() < 64000 && ch.Intn("f4lastArr", 8) == 0 {
			s := makeArraySeg(g, 0xFFFF, 0xFFFF, segs, ch, &st)
			segs = append(segs, s)
			if s.shareOf < 0 {
				words++
			}
			st.LastIsArray = true
		} else {
			// (0xFFFF + delta) mod 65536 = gl; gl = 0 gives delta 1
			segs = append(segs, seg4{start: 0xFFFF, end: 0xFFFF, delta: gl + 1, shareOf: -1})
		}
	}

	// lay out glyphIdArray
	var owners []int
	for i := range segs {
		if segs[i].array && segs[i].shareOf < 0 {
			owners = append(owners, i)
		}
	}
	if len(owners) > 1 && ch.Intn("f4perm", 2) == 0 {
		st.Permuted = true
		// Fisher-Yates with the chooser
		for i := len(owners) - 1; i > 0; i-- {
			j := ch.Intn("f4pj", i+1)
			owners[i], owners[j] = owners[j], owners[i]
		}
	}
	padMode := ch.Intn("f4pad", 4) // 0,1: none; 2: some; 3: also trailing
	var gia []uint16
	for _, i := range owners {
		if padMode >= 2 && ch.Intn("f4padHere", 4) == 0 {
			n := 1 + ch.Intn("f4padN", 3)
			for k := 0; k < n; k++ {
				gia = append(gia, uint16(ch.Intn("f4padV", 65536)))
			}
			st.Padding += n
		}
		segs[i].pos = len(gia)
		gia = append(gia, segs[i].vals...)
	}
	if padMode == 3 {
		n := 1 + ch.Intn("f4padT", 3)
		for k := 0; k < n; k++ {
			gia = append(gia, uint16(ch.Intn("f4padV", 65536)))
		}
		st.Padding += n
	}
	for i := range segs {
		if segs[i].array && segs[i].shareOf >= 0 {
			segs[i].pos = segs[segs[i].shareOf].pos + segs[i].shareOff
		}
	}

	n := len(segs)
	total := 16 + 8*n + 2*len(gia)
	if total > 65535 {
		return nil, st, ErrTooLarge
	}
	st.Segments = n

	// search fields
	st.SearchMode = ch.Intn("f4search", 4)
	var sr, es, rs uint16
	switch st.SearchMode {
	case 0, 3:
		nn := n
		if st.SearchMode == 3 {
			nn = n + 1
		}
		lg := 0
		for (2 << lg) <= nn {
			lg++
		}
		sr = uint16(2 << lg)
		es = uint16(lg)
		rs = uint16(2*nn) - sr
	case 1:
	case 2:
		sr = uint16(ch.Intn("f4sr16", 65536))
		es = uint16(ch.Intn("f4es16", 65536))
		rs = uint16(ch.Intn("f4rs16", 65536))
	}

	b := make([]byte, 0, total)
	b = put16(b, 4)
	b = put16(b, uint16(total))
	b = put16(b, language)
	b = put16(b, uint16(2*n))
	b = put16(b, sr)
	b = put16(b, es)
	b = put16(b, rs)
	for _, s := range segs {
		b = put16(b, uint16(s.end))
	}
	b = put16(b, 0) // reservedPad
	for _, s := range segs {
		b = put16(b, uint16(s.start))
	}
	for _, s := range segs {
		b = put16(b, s.delta)
	}
	for k, s := range segs {
		if !s.array {
			b = put16(b, 0)
			continue
		}
		// address of idRangeOffset[k] plus iro must be the address of
		// glyphIdArray[pos]: iro = 2*((n-k) + pos)
		iro := 2 * (n - k + s.pos)
		if iro > 65534 {
			return nil, st, ErrTooLarge
		}
		b = put16(b, uint16(iro))
		st.ArraySegs++
		if s.delta != 0 {
			st.ArrayWithDelta++
		}
	}
	for _, v := range gia {
		b = put16(b, v)
	}
	return b, st, nil
}

// arrayEnd chooses where an array segment that starts at (or before) the
// mapped code c ends; the end may lie in a gap or beyond further mapped codes,
// but not past 0xFFFE.
func arrayEnd(g *[65536]uint16, c int, ch Chooser) int {
	var l int
	switch ch.Intn("f4alenKind", 8) {
	case 0:
		l = 1
	case 1, 2, 3, 4:
		l = 1 + ch.Intn("f4alen", 8)
	case 5, 6:
		l = 1 + ch.Intn("f4alen", 40)
	default:
		l = 1 + ch.Intn("f4alen", 300)
	}
	e := c + l - 1
	if e > 0xFFFE {
		e = 0xFFFE
	}
	// mostly trim trailing unmapped codes
	if ch.Intn("f4trim", 4) != 0 {
		for e > c && g[e] == 0 {
			e--
		}
	}
	return e
}

// makeArraySeg builds the array segment start..end.  It picks idDelta and the
// stored values v with (v + idDelta) mod 65536 = glyph for mapped codes and
// v = 0 for unmapped ones, or re-uses a matching range of an earlier segment.
func makeArraySeg(g *[65536]uint16, start, end int, segs []seg4, ch Chooser, st *F4Stats) seg4 {
	l := end - start + 1
	gl := g[start : end+1]
	s := seg4{start: start, end: end, array: true, shareOf: -1}

	// try to share
	if len(segs) > 0 && ch.Intn("f4share", 2) == 0 {
		firstNZ := -1
		for i, x := range gl {
			if x != 0 {
				firstNZ = i
				break
			}
		}
		tries := 0
	search:
		for oi := len(segs) - 1; oi >= 0 && tries < 60; oi-- {
			o := &segs[oi]
			if !o.array || o.shareOf >= 0 || len(o.vals) < l {
				continue
			}
			for off := 0; off+l <= len(o.vals) && tries < 60; off++ {
				tries++
				var d uint16
				if firstNZ >= 0 {
					if o.vals[off+firstNZ] == 0 {
						continue
					}
					d = gl[firstNZ] - o.vals[off+firstNZ]
				} else {
					d = uint16(ch.Intn("f4zd", 65536))
				}
				ok := true
				for i := 0; i < l; i++ {
					v := o.vals[off+i]
					if (v == 0) != (gl[i] == 0) || (v != 0 && v+d != gl[i]) {
						ok = false
						break
					}
				}
				if ok {
					s.delta = d
					s.shareOf = oi
					s.shareOff = off
					st.Shared++
					break search
				}
			}
		}
		if s.shareOf >= 0 {
			return s
		}
	}

	var d uint16
	switch ch.Intn("f4dKind", 4) {
	case 0:
		d = 0
	case 1:
		d = uint16(1 + ch.Intn("f4dSmall", 300))
	case 2:
		d = uint16(65536 - 1 - ch.Intn("f4dNeg", 300))
	default:
		d = uint16(ch.Intn("f4dAny", 65536))
	}
	// a mapped code must not get the stored value 0
retry:
	for {
		for _, x := range gl {
			if x != 0 && x == d {
				d++
				continue retry
			}
		}
		break
	}
	s.delta = d
	s.vals = make([]uint16, l)
	for i, x := range gl {
		if x != 0 {
			s.vals[i] = x - d
		}
	}
	return s
}
