// Package refcmap is a reference model of the cmap subtable formats 0, 4, 6
// and 12, written from the OpenType specification ("cmap — Character to Glyph
// Index Mapping Table").  It shares no code with seehuhn.de/go/sfnt.
//
// The decoder evaluates the mapping for one character code at a time, by the
// procedure the specification gives for each format; it does not build a map
// first.  The encoders (encode.go) are deliberately unlike an optimising
// encoder: they use every device the formats allow.
package refcmap

import (
	"errors"
	"fmt"
	"sort"
)

// Subtable is a decoded (validated) subtable.
type Subtable struct {
	Format   uint16
	Length   uint32 // value of the length field
	Language uint32 // value of the language field

	data []byte

	// format 4
	SegCount                                   int
	SearchRange, EntrySelector, RangeShift     uint16
	ReservedPad                                uint16
	EndCode, StartCode, IDDelta, IDRangeOffset []uint16

	// format 6
	FirstCode, EntryCount int

	// format 12
	Groups []Group
}

// Group is a format 12 sequential map group.
type Group struct{ Start, End, Glyph uint32 }

func u16(b []byte, o int) uint16 { return uint16(b[o])<<8 | uint16(b[o+1]) }
func u32(b []byte, o int) uint32 {
	return uint32(b[o])<<24 | uint32(b[o+1])<<16 | uint32(b[o+2])<<8 | uint32(b[o+3])
}

// Decode validates a subtable of format 0, 4, 6 or 12.  data must be exactly
// the subtable (its length field must equal len(data)).  Everything the
// specification requires of a well-formed subtable is checked except the
// advisory binary-search fields of format 4 (see CheckFormat4Strict).
func Decode(data []byte) (*Subtable, error) {
	if len(data) < 6 {
		return nil, errors.New("refcmap: subtable too short")
	}
	s := &Subtable{Format: u16(data, 0), data: data}
	switch s.Format {
	case 0:
		s.Length = uint32(u16(data, 2))
		s.Language = uint32(u16(data, 4))
		if s.Length != 262 || len(data) != 262 {
			return nil, fmt.Errorf("refcmap: format 0: length field %d, have %d bytes, want 262", s.Length, len(data))
		}
	case 4:
		if err := s.decode4(); err != nil {
			return nil, err
		}
	case 6:
		if len(data) < 10 {
			return nil, errors.New("refcmap: format 6: too short")
		}
		s.Length = uint32(u16(data, 2))
		s.Language = uint32(u16(data, 4))
		s.FirstCode = int(u16(data, 6))
		s.EntryCount = int(u16(data, 8))
		if int(s.Length) != len(data) || len(data) != 10+2*s.EntryCount {
			return nil, fmt.Errorf("refcmap: format 6: length field %d, %d bytes, entryCount %d", s.Length, len(data), s.EntryCount)
		}
		if s.FirstCode+s.EntryCount > 0x10000 {
			return nil, errors.New("refcmap: format 6: codes beyond 0xFFFF")
		}
	case 12:
		if len(data) < 16 {
			return nil, errors.New("refcmap: format 12: too short")
		}
		if u16(data, 2) != 0 {
			return nil, errors.New("refcmap: format 12: reserved field not zero")
		}
		s.Length = u32(data, 4)
		s.Language = u32(data, 8)
		n := u32(data, 12)
		if uint64(s.Length) != uint64(len(data)) || uint64(len(data)) != 16+12*uint64(n) {
			return nil, fmt.Errorf("refcmap: format 12: length field %d, %d bytes, numGroups %d", s.Length, len(data), n)
		}
		s.Groups = make([]Group, n)
		for i := range s.Groups {
			g := Group{u32(data, 16+12*i), u32(data, 20+12*i), u32(data, 24+12*i)}
			if g.End < g.Start {
				return nil, fmt.Errorf("refcmap: format 12: group %d: end < start", i)
			}
			if i > 0 && g.Start <= s.Groups[i-1].End {
				return nil, fmt.Errorf("refcmap: format 12: group %d not after group %d", i, i-1)
			}
			if g.End > 0x10FFFF {
				return nil, fmt.Errorf("refcmap: format 12: group %d beyond U+10FFFF", i)
			}
			if uint64(g.Glyph)+uint64(g.End-g.Start) > 0xFFFF {
				return nil, fmt.Errorf("refcmap: format 12: group %d: glyph index beyond 65535", i)
			}
			s.Groups[i] = g
		}
	default:
		return nil, fmt.Errorf("refcmap: format %d not modelled", s.Format)
	}
	return s, nil
}

func (s *Subtable) decode4() error {
	data := s.data
	if len(data) < 16 {
		return errors.New("refcmap: format 4: too short")
	}
	s.Length = uint32(u16(data, 2))
	s.Language = uint32(u16(data, 4))
	if int(s.Length) != len(data) {
		return fmt.Errorf("refcmap: format 4: length field %d but %d bytes", s.Length, len(data))
	}
	sx2 := int(u16(data, 6))
	if sx2%2 != 0 || sx2 == 0 {
		return fmt.Errorf("refcmap: format 4: segCountX2 = %d", sx2)
	}
	n := sx2 / 2
	s.SegCount = n
	s.SearchRange = u16(data, 8)
	s.EntrySelector = u16(data, 10)
	s.RangeShift = u16(data, 12)
	if 16+8*n > len(data) {
		return errors.New("refcmap: format 4: arrays exceed the subtable")
	}
	if len(data)%2 != 0 {
		return errors.New("refcmap: format 4: odd length")
	}
	rd := func(base int) []uint16 {
		res := make([]uint16, n)
		for i := range res {
			res[i] = u16(data, base+2*i)
		}
		return res
	}
	s.EndCode = rd(14)
	s.ReservedPad = u16(data, 14+2*n)
	s.StartCode = rd(16 + 2*n)
	s.IDDelta = rd(16 + 4*n)
	s.IDRangeOffset = rd(16 + 6*n)
	for k := 0; k < n; k++ {
		if s.StartCode[k] > s.EndCode[k] {
			return fmt.Errorf("refcmap: format 4: segment %d: start %#x > end %#x", k, s.StartCode[k], s.EndCode[k])
		}
		if k > 0 && s.StartCode[k] <= s.EndCode[k-1] {
			return fmt.Errorf("refcmap: format 4: segment %d overlaps/precedes segment %d", k, k-1)
		}
		if iro := int(s.IDRangeOffset[k]); iro != 0 {
			if iro%2 != 0 {
				return fmt.Errorf("refcmap: format 4: segment %d: odd idRangeOffset", k)
			}
			first := 16 + 6*n + 2*k + iro
			last := first + 2*int(s.EndCode[k]-s.StartCode[k])
			if first < 16+8*n || last+2 > len(data) {
				return fmt.Errorf("refcmap: format 4: segment %d: idRangeOffset leaves glyphIdArray", k)
			}
		}
	}
	if s.EndCode[n-1] != 0xFFFF {
		return errors.New("refcmap: format 4: last endCode is not 0xFFFF")
	}
	return nil
}

// CheckFormat4Strict checks the fields a writer must set as the specification
// states, which Decode leaves alone because readers must not depend on them:
// searchRange = 2·2^floor(log2 segCount), entrySelector = floor(log2 segCount),
// rangeShift = 2·segCount − searchRange, reservedPad = 0, and the final segment
// is exactly 0xFFFF..0xFFFF.
func (s *Subtable) CheckFormat4Strict() error {
	if s.Format != 4 {
		return errors.New("refcmap: not format 4")
	}
	n := s.SegCount
	lg := 0
	for (2 << lg) <= n {
		lg++
	}
	// now 2^lg <= n < 2^(lg+1)
	wantSR := 2 * (1 << lg)
	if int(s.SearchRange) != wantSR {
		return fmt.Errorf("searchRange = %d, want %d (segCount %d)", s.SearchRange, wantSR, n)
	}
	if int(s.EntrySelector) != lg {
		return fmt.Errorf("entrySelector = %d, want %d (segCount %d)", s.EntrySelector, lg, n)
	}
	if int(s.RangeShift) != 2*n-wantSR {
		return fmt.Errorf("rangeShift = %d, want %d (segCount %d)", s.RangeShift, 2*n-wantSR, n)
	}
	if s.ReservedPad != 0 {
		return fmt.Errorf("reservedPad = %d", s.ReservedPad)
	}
	if s.StartCode[n-1] != 0xFFFF || s.EndCode[n-1] != 0xFFFF {
		return fmt.Errorf("final segment is %#x..%#x, want 0xFFFF..0xFFFF", s.StartCode[n-1], s.EndCode[n-1])
	}
	return nil
}

// Lookup maps one character code by the procedure of the specification.
func (s *Subtable) Lookup(c uint32) uint32 {
	switch s.Format {
	case 0:
		if c > 255 {
			return 0
		}
		return uint32(s.data[6+c])
	case 4:
		if c > 0xFFFF {
			return 0
		}
		// "search for the first endCode that is greater than or equal to the
		// character code"
		k := sort.Search(s.SegCount, func(i int) bool { return uint32(s.EndCode[i]) >= c })
		if k == s.SegCount || uint32(s.StartCode[k]) > c {
			return 0
		}
		if s.IDRangeOffset[k] == 0 {
			return (c + uint32(s.IDDelta[k])) & 0xFFFF
		}
		// glyphId = *(idRangeOffset[i]/2 + (c - startCode[i]) + &idRangeOffset[i])
		addr := 16 + 6*s.SegCount + 2*k + int(s.IDRangeOffset[k]) + 2*int(c-uint32(s.StartCode[k]))
		v := uint32(u16(s.data, addr))
		if v == 0 {
			return 0
		}
		return (v + uint32(s.IDDelta[k])) & 0xFFFF
	case 6:
		if c < uint32(s.FirstCode) || c >= uint32(s.FirstCode+s.EntryCount) {
			return 0
		}
		return uint32(u16(s.data, 10+2*int(c-uint32(s.FirstCode))))
	case 12:
		i := sort.Search(len(s.Groups), func(i int) bool { return s.Groups[i].End >= c })
		if i == len(s.Groups) || s.Groups[i].Start > c {
			return 0
		}
		return s.Groups[i].Glyph + (c - s.Groups[i].Start)
	}
	return 0
}

// NumArraySegments returns the number of format 4 segments that use
// glyphIdArray, and how many of those have a non-zero idDelta.
func (s *Subtable) NumArraySegments() (arr, arrWithDelta int) {
	for k := range s.IDRangeOffset {
		if s.IDRangeOffset[k] != 0 {
			arr++
			if s.IDDelta[k] != 0 {
				arrWithDelta++
			}
		}
	}
	return
}
