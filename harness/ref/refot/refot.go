// Package refot is an independent structural walker for the binary form of
// OpenType GSUB, GPOS and GDEF tables and of coverage and class definition
// tables.  It is written from the OpenType specification (chapters "OpenType
// Layout Common Table Formats", "GSUB", "GPOS", "GDEF") and shares no code
// with the library under test.
//
// The walker starts at the table header and follows every offset.  Each
// target must be a well-formed structure of the type the offset promises
// (bounds, formats, counts, ordering rules of the specification).  The byte
// range of every structure reached is recorded, so that the caller can check
// that the ranges tile the table without gap or overlap, i.e. that all
// declared sizes agree with the bytes emitted.
package refot

import (
	"fmt"
	"math/bits"
	"sort"
)

// Kind selects the table type.
type Kind int

const (
	GSUB Kind = iota
	GPOS
)

func (k Kind) String() string {
	if k == GPOS {
		return "GPOS"
	}
	return "GSUB"
}

// Range is the extent of one structure.
type Range struct {
	Start, End int // End is exclusive
	What       string
}

// LangSys is a language system table.
type LangSys struct {
	Tag      string // "" for the default language system
	Required uint16
	Features []uint16
}

// Script is a script table.
type Script struct {
	Tag     string
	Default *LangSys
	Langs   []LangSys
}

// Feature is a feature table.
type Feature struct {
	Tag     string
	Lookups []uint16
}

// Subtable describes one lookup subtable.
type Subtable struct {
	Pos    int    // position of the subtable proper
	Format uint16 // its format field
	Ext    bool   // reached through an extension record
	ExtPos int    // position of the extension record
}

// Lookup describes one lookup table.
type Lookup struct {
	Pos              int
	RawType          uint16 // lookupType as stored
	Type             uint16 // effective type (extensionLookupType for extension lookups)
	Flags            uint16
	MarkFilteringSet uint16
	Subtables        []Subtable
}

// Report is the result of walking a GSUB or GPOS table.
type Report struct {
	Kind      Kind
	Ranges    []Range
	Scripts   []Script
	Features  []Feature
	Lookups   []Lookup
	HasScript bool // offsets present (non-NULL)
	HasFeat   bool
	HasLookup bool
	ExtCount  int            // number of extension records
	Formats   map[string]int // "GSUB4.1" -> number of subtables
	CovFormat [3]int         // coverage tables by format
	ClsFormat [3]int         // class definition tables by format
}

// Error is a structural defect found by the walker.
type Error struct {
	Pos  int
	Path string
	Msg  string
}

func (e *Error) Error() string { return fmt.Sprintf("%s at %d: %s", e.Path, e.Pos, e.Msg) }

type walker struct {
	d      []byte
	ranges []Range
	seen   map[Range]bool
	rep    *Report
	cov    [3]int
	cls    [3]int
}

type fail struct{ err *Error }

func (w *walker) failf(pos int, path, format string, a ...any) {
	panic(fail{&Error{Pos: pos, Path: path, Msg: fmt.Sprintf(format, a...)}})
}

func (w *walker) need(pos, n int, path string) {
	if pos < 0 || n < 0 || pos+n > len(w.d) {
		w.failf(pos, path, "needs %d bytes, table has %d", n, len(w.d))
	}
}

func (w *walker) u16(pos int, path string) int {
	w.need(pos, 2, path)
	return int(w.d[pos])<<8 | int(w.d[pos+1])
}

func (w *walker) u32(pos int, path string) int {
	w.need(pos, 4, path)
	return int(w.d[pos])<<24 | int(w.d[pos+1])<<16 | int(w.d[pos+2])<<8 | int(w.d[pos+3])
}

func (w *walker) tag(pos int, path string) string {
	w.need(pos, 4, path)
	return string(w.d[pos : pos+4])
}

// mark records the extent of a structure.
func (w *walker) mark(start, end int, what string) {
	w.need(start, end-start, what)
	r := Range{start, end, what}
	if w.seen[r] {
		return
	}
	w.seen[r] = true
	w.ranges = append(w.ranges, r)
}

func run(fn func()) (err error) {
	defer func() {
		if r := recover(); r != nil {
			if f, ok := r.(fail); ok {
				err = f.err
				return
			}
			panic(r)
		}
	}()
	fn()
	return nil
}

// Tiling checks that the ranges cover [0,total) without gap or overlap.
func Tiling(ranges []Range, total int) error {
	rr := append([]Range(nil), ranges...)
	sort.SliceStable(rr, func(i, j int) bool {
		if rr[i].Start != rr[j].Start {
			return rr[i].Start < rr[j].Start
		}
		return rr[i].End < rr[j].End
	})
	pos := 0
	prev := "start of table"
	for _, r := range rr {
		if r.Start == r.End {
			continue
		}
		if r.Start > pos {
			return fmt.Errorf("gap: bytes %d..%d after %s are not part of any structure (next: %s at %d)", pos, r.Start, prev, r.What, r.Start)
		}
		if r.Start < pos {
			return fmt.Errorf("overlap: %s at %d..%d starts before the end (%d) of %s", r.What, r.Start, r.End, pos, prev)
		}
		pos = r.End
		prev = r.What
	}
	if pos != total {
		return fmt.Errorf("gap: bytes %d..%d after %s are not part of any structure", pos, total, prev)
	}
	return nil
}

// ---------------------------------------------------------------------------
// Coverage and class definition tables

// Coverage is a decoded coverage table.
type Coverage struct {
	Format int
	Glyphs []uint16 // in coverage index order
	Size   int
}

// MinCoverageSize returns the sizes of the two formats for a strictly
// increasing glyph list.
func MinCoverageSize(glyphs []uint16) (f1, f2 int) {
	f1 = 4 + 2*len(glyphs)
	runs := 0
	for i, g := range glyphs {
		if i == 0 || int(g) != int(glyphs[i-1])+1 {
			runs++
		}
	}
	return f1, 4 + 6*runs
}

func (w *walker) coverage(pos int, path string) *Coverage {
	path += "/Coverage"
	format := w.u16(pos, path)
	count := w.u16(pos+2, path)
	c := &Coverage{Format: format}
	switch format {
	case 1:
		c.Size = 4 + 2*count
		w.need(pos, c.Size, path)
		c.Glyphs = make([]uint16, count)
		for i := range c.Glyphs {
			g := w.u16(pos+4+2*i, path)
			if i > 0 && g <= int(c.Glyphs[i-1]) {
				w.failf(pos+4+2*i, path, "format 1: glyph %d (index %d) not above its predecessor %d", g, i, c.Glyphs[i-1])
			}
			c.Glyphs[i] = uint16(g)
		}
	case 2:
		c.Size = 4 + 6*count
		w.need(pos, c.Size, path)
		prevEnd := -1
		for i := 0; i < count; i++ {
			p := pos + 4 + 6*i
			start, end, idx := w.u16(p, path), w.u16(p+2, path), w.u16(p+4, path)
			if end < start {
				w.failf(p, path, "format 2: range %d has end %d < start %d", i, end, start)
			}
			if start <= prevEnd {
				w.failf(p, path, "format 2: range %d starts at %d, not above the previous end %d", i, start, prevEnd)
			}
			if idx != len(c.Glyphs) {
				w.failf(p, path, "format 2: range %d has startCoverageIndex %d, want %d", i, idx, len(c.Glyphs))
			}
			for g := start; g <= end; g++ {
				c.Glyphs = append(c.Glyphs, uint16(g))
			}
			prevEnd = end
		}
	default:
		w.failf(pos, path, "unknown coverage format %d", format)
	}
	f1, f2 := MinCoverageSize(c.Glyphs)
	if m := min(f1, f2); c.Size != m {
		w.failf(pos, path, "format %d uses %d bytes, but format 1 needs %d and format 2 needs %d (%d glyphs)", format, c.Size, f1, f2, len(c.Glyphs))
	}
	w.cov[format]++
	w.mark(pos, pos+c.Size, path)
	return c
}

// ClassDef is a decoded class definition table.
type ClassDef struct {
	Format  int
	Classes map[uint16]uint16 // non-zero classes only
	Size    int
}

// MinClassDefSize returns the sizes of the two formats for the given
// assignment of non-zero classes (format 1 spanning the first to the last
// glyph with a non-zero class, format 2 with maximal ranges); Impossible if
// the format's 16-bit count field cannot hold the table.
func MinClassDefSize(classes map[uint16]uint16) (f1, f2 int) {
	arr := make([]uint16, 0x10000)
	lo, hi := -1, -1
	for g, c := range classes {
		arr[g] = c
	}
	for g, c := range arr {
		if c != 0 {
			if lo < 0 {
				lo = g
			}
			hi = g
		}
	}
	if lo < 0 {
		return 6, 4
	}
	f1 = 6 + 2*(hi-lo+1)
	if hi-lo+1 > 0xFFFF {
		f1 = Impossible // glyphCount is a 16-bit field
	}
	runs := 0
	for g := lo; g <= hi; g++ {
		if arr[g] != 0 && (g == lo || arr[g] != arr[g-1]) {
			runs++
		}
	}
	f2 = 4 + 6*runs
	if runs > 0xFFFF {
		f2 = Impossible // classRangeCount is a 16-bit field
	}
	return f1, f2
}

// Impossible is the size reported for a format that cannot hold the table.
const Impossible = int(^uint(0) >> 1)

func (w *walker) classDef(pos int, path string) *ClassDef {
	path += "/ClassDef"
	format := w.u16(pos, path)
	c := &ClassDef{Format: format, Classes: map[uint16]uint16{}}
	switch format {
	case 1:
		start := w.u16(pos+2, path)
		count := w.u16(pos+4, path)
		c.Size = 6 + 2*count
		w.need(pos, c.Size, path)
		if count > 0 && start+count-1 > 0xFFFF {
			w.failf(pos, path, "format 1: start %d + count %d leaves the glyph range", start, count)
		}
		for i := 0; i < count; i++ {
			if v := w.u16(pos+6+2*i, path); v != 0 {
				c.Classes[uint16(start+i)] = uint16(v)
			}
		}
	case 2:
		count := w.u16(pos+2, path)
		c.Size = 4 + 6*count
		w.need(pos, c.Size, path)
		prevEnd := -1
		for i := 0; i < count; i++ {
			p := pos + 4 + 6*i
			start, end, v := w.u16(p, path), w.u16(p+2, path), w.u16(p+4, path)
			if end < start {
				w.failf(p, path, "format 2: range %d has end %d < start %d", i, end, start)
			}
			if start <= prevEnd {
				w.failf(p, path, "format 2: range %d starts at %d, not above the previous end %d", i, start, prevEnd)
			}
			if v != 0 {
				for g := start; g <= end; g++ {
					c.Classes[uint16(g)] = uint16(v)
				}
			}
			prevEnd = end
		}
	default:
		w.failf(pos, path, "unknown class definition format %d", format)
	}
	f1, f2 := MinClassDefSize(c.Classes)
	if m := min(f1, f2); c.Size > m {
		w.failf(pos, path, "format %d uses %d bytes, but format 1 needs %d and format 2 needs %d (%d glyphs)", format, c.Size, f1, f2, len(c.Classes))
	}
	w.cls[format]++
	w.mark(pos, pos+c.Size, path)
	return c
}

// WalkCoverage checks a stand-alone coverage table (which must fill data).
func WalkCoverage(data []byte) (*Coverage, error) {
	w := &walker{d: data, seen: map[Range]bool{}}
	var c *Coverage
	err := run(func() {
		c = w.coverage(0, "")
		if c.Size != len(data) {
			w.failf(0, "Coverage", "table is %d bytes, %d bytes emitted", c.Size, len(data))
		}
	})
	return c, err
}

// WalkClassDef checks a stand-alone class definition table.
func WalkClassDef(data []byte) (*ClassDef, error) {
	w := &walker{d: data, seen: map[Range]bool{}}
	var c *ClassDef
	err := run(func() {
		c = w.classDef(0, "")
		if c.Size != len(data) {
			w.failf(0, "ClassDef", "table is %d bytes, %d bytes emitted", c.Size, len(data))
		}
	})
	return c, err
}

// ---------------------------------------------------------------------------
// GDEF

// GdefReport is the result of walking a GDEF table.
type GdefReport struct {
	Version         uint32
	Ranges          []Range
	GlyphClass      *ClassDef // nil if the offset is NULL
	MarkAttachClass *ClassDef
	MarkGlyphSets   []*Coverage // nil if absent
	HasMarkSets     bool
	CovFormat       [3]int
	ClsFormat       [3]int
}

// WalkGDEF walks a GDEF table.
func WalkGDEF(data []byte) (*GdefReport, error) {
	w := &walker{d: data, seen: map[Range]bool{}}
	rep := &GdefReport{}
	err := run(func() {
		major, minor := w.u16(0, "GDEF"), w.u16(2, "GDEF")
		if major != 1 || (minor != 0 && minor != 2 && minor != 3) {
			w.failf(0, "GDEF", "unknown version %d.%d", major, minor)
		}
		rep.Version = uint32(major)<<16 | uint32(minor)
		hdr := 12
		glyphClass := w.u16(4, "GDEF")
		attach := w.u16(6, "GDEF")
		ligCaret := w.u16(8, "GDEF")
		markAttach := w.u16(10, "GDEF")
		markSets := 0
		if minor >= 2 {
			markSets = w.u16(12, "GDEF")
			hdr = 14
		}
		if minor >= 3 {
			if v := w.u32(14, "GDEF"); v != 0 {
				w.failf(14, "GDEF", "item variation store not supported by the walker")
			}
			hdr = 18
		}
		w.mark(0, hdr, "GDEF header")
		if attach != 0 || ligCaret != 0 {
			w.failf(6, "GDEF", "attachment list / ligature caret list not supported by the walker")
		}
		for _, o := range []int{glyphClass, markAttach, markSets} {
			if o != 0 && o < hdr {
				w.failf(4, "GDEF", "offset %d points into the header", o)
			}
		}
		if glyphClass != 0 {
			rep.GlyphClass = w.classDef(glyphClass, "GDEF/GlyphClassDef")
		}
		if markAttach != 0 {
			rep.MarkAttachClass = w.classDef(markAttach, "GDEF/MarkAttachClassDef")
		}
		if markSets != 0 {
			rep.HasMarkSets = true
			path := "GDEF/MarkGlyphSets"
			if f := w.u16(markSets, path); f != 1 {
				w.failf(markSets, path, "unknown format %d", f)
			}
			n := w.u16(markSets+2, path)
			w.mark(markSets, markSets+4+4*n, path)
			rep.MarkGlyphSets = make([]*Coverage, n)
			for i := 0; i < n; i++ {
				o := w.u32(markSets+4+4*i, path)
				if o < 4+4*n {
					w.failf(markSets+4+4*i, path, "coverage offset %d of set %d points into the offset array", o, i)
				}
				rep.MarkGlyphSets[i] = w.coverage(markSets+o, fmt.Sprintf("%s[%d]", path, i))
			}
		}
	})
	rep.Ranges = w.ranges
	rep.CovFormat, rep.ClsFormat = w.cov, w.cls
	return rep, err
}

// ---------------------------------------------------------------------------
// GSUB / GPOS

// Walk walks a GSUB or GPOS table.
func Walk(data []byte, kind Kind) (*Report, error) {
	w := &walker{d: data, seen: map[Range]bool{}}
	rep := &Report{Kind: kind, Formats: map[string]int{}}
	w.rep = rep
	err := run(func() {
		major, minor := w.u16(0, kind.String()), w.u16(2, kind.String())
		if major != 1 || minor > 1 {
			w.failf(0, kind.String(), "unknown version %d.%d", major, minor)
		}
		hdr := 10
		if minor == 1 {
			if v := w.u32(10, kind.String()); v != 0 {
				w.failf(10, kind.String(), "feature variations not supported by the walker")
			}
			hdr = 14
		}
		w.mark(0, hdr, kind.String()+" header")
		scriptList, featureList, lookupList := w.u16(4, "header"), w.u16(6, "header"), w.u16(8, "header")
		for i, o := range []int{scriptList, featureList, lookupList} {
			if o != 0 && o < hdr {
				w.failf(4+2*i, "header", "offset %d points into the header", o)
			}
		}
		if scriptList != 0 {
			rep.HasScript = true
			w.scriptList(scriptList)
		}
		if featureList != 0 {
			rep.HasFeat = true
			w.featureList(featureList)
		}
		if lookupList != 0 {
			rep.HasLookup = true
			w.lookupList(lookupList, kind)
		}
	})
	rep.Ranges = w.ranges
	rep.CovFormat, rep.ClsFormat = w.cov, w.cls
	return rep, err
}

func (w *walker) langSys(pos int, tag, path string) LangSys {
	if o := w.u16(pos, path); o != 0 {
		w.failf(pos, path, "lookupOrderOffset %d is reserved and must be NULL", o)
	}
	ls := LangSys{Tag: tag, Required: uint16(w.u16(pos+2, path))}
	n := w.u16(pos+4, path)
	w.mark(pos, pos+6+2*n, path)
	ls.Features = make([]uint16, n)
	for i := range ls.Features {
		ls.Features[i] = uint16(w.u16(pos+6+2*i, path))
	}
	return ls
}

func (w *walker) scriptList(pos int) {
	path := "ScriptList"
	n := w.u16(pos, path)
	w.mark(pos, pos+2+6*n, path)
	prevTag := ""
	for i := 0; i < n; i++ {
		p := pos + 2 + 6*i
		tag := w.tag(p, path)
		if i > 0 && tag <= prevTag {
			w.failf(p, path, "script records not in alphabetical order: %q after %q", tag, prevTag)
		}
		prevTag = tag
		off := w.u16(p+4, path)
		if off < 2+6*n {
			w.failf(p, path, "script %q: offset %d points into the record array", tag, off)
		}
		sp := pos + off
		spath := fmt.Sprintf("Script[%q]", tag)
		defOff := w.u16(sp, spath)
		cnt := w.u16(sp+2, spath)
		w.mark(sp, sp+4+6*cnt, spath)
		s := Script{Tag: tag}
		if defOff != 0 {
			if defOff < 4+6*cnt {
				w.failf(sp, spath, "defaultLangSysOffset %d points into the record array", defOff)
			}
			ls := w.langSys(sp+defOff, "", spath+"/DefaultLangSys")
			s.Default = &ls
		}
		prevLang := ""
		for j := 0; j < cnt; j++ {
			lp := sp + 4 + 6*j
			ltag := w.tag(lp, spath)
			if j > 0 && ltag <= prevLang {
				w.failf(lp, spath, "language system records not in alphabetical order: %q after %q", ltag, prevLang)
			}
			prevLang = ltag
			lo := w.u16(lp+4, spath)
			if lo < 4+6*cnt {
				w.failf(lp, spath, "language %q: offset %d points into the record array", ltag, lo)
			}
			s.Langs = append(s.Langs, w.langSys(sp+lo, ltag, fmt.Sprintf("%s/LangSys[%q]", spath, ltag)))
		}
		w.rep.Scripts = append(w.rep.Scripts, s)
	}
}

func (w *walker) featureList(pos int) {
	path := "FeatureList"
	n := w.u16(pos, path)
	w.mark(pos, pos+2+6*n, path)
	for i := 0; i < n; i++ {
		p := pos + 2 + 6*i
		tag := w.tag(p, path)
		off := w.u16(p+4, path)
		if off < 2+6*n {
			w.failf(p, path, "feature %d %q: offset %d points into the record array", i, tag, off)
		}
		fp := pos + off
		fpath := fmt.Sprintf("Feature[%d %q]", i, tag)
		if o := w.u16(fp, fpath); o != 0 {
			w.failf(fp, fpath, "featureParamsOffset %d not supported by the walker", o)
		}
		cnt := w.u16(fp+2, fpath)
		w.mark(fp, fp+4+2*cnt, fpath)
		f := Feature{Tag: tag, Lookups: make([]uint16, cnt)}
		for j := range f.Lookups {
			f.Lookups[j] = uint16(w.u16(fp+4+2*j, fpath))
		}
		w.rep.Features = append(w.rep.Features, f)
	}
}

func (w *walker) lookupList(pos int, kind Kind) {
	path := "LookupList"
	n := w.u16(pos, path)
	w.mark(pos, pos+2+2*n, path)
	extType := 7
	if kind == GPOS {
		extType = 9
	}
	for i := 0; i < n; i++ {
		off := w.u16(pos+2+2*i, path)
		if off < 2+2*n {
			w.failf(pos+2+2*i, path, "lookup %d: offset %d points into the offset array", i, off)
		}
		lp := pos + off
		lpath := fmt.Sprintf("Lookup[%d]", i)
		tp := w.u16(lp, lpath)
		flags := w.u16(lp+2, lpath)
		cnt := w.u16(lp+4, lpath)
		hdr := 6 + 2*cnt
		l := Lookup{Pos: lp, RawType: uint16(tp), Type: uint16(tp), Flags: uint16(flags)}
		if flags&0x0010 != 0 {
			l.MarkFilteringSet = uint16(w.u16(lp+hdr, lpath))
			hdr += 2
		}
		if flags&0x00E0 != 0 {
			w.failf(lp+2, lpath, "reserved lookup flag bits set: %#04x", flags)
		}
		w.mark(lp, lp+hdr, lpath)
		extTarget := -1
		for j := 0; j < cnt; j++ {
			so := w.u16(lp+6+2*j, lpath)
			if so < hdr {
				w.failf(lp+6+2*j, lpath, "subtable %d: offset %d points into the lookup header", j, so)
			}
			sp := lp + so
			spath := fmt.Sprintf("%s/Subtable[%d]", lpath, j)
			st := Subtable{Pos: sp}
			eff := tp
			if tp == extType {
				if f := w.u16(sp, spath); f != 1 {
					w.failf(sp, spath, "extension record with format %d", f)
				}
				et := w.u16(sp+2, spath)
				eo := w.u32(sp+4, spath)
				w.mark(sp, sp+8, spath+"/Extension")
				if et == extType {
					w.failf(sp, spath, "extension record of extension type")
				}
				if extTarget >= 0 && et != extTarget {
					w.failf(sp, spath, "extension records of one lookup have types %d and %d", extTarget, et)
				}
				extTarget = et
				if eo < 8 {
					w.failf(sp, spath, "extension offset %d points into the record itself", eo)
				}
				st.Ext, st.ExtPos = true, sp
				sp += eo
				st.Pos = sp
				eff = et
				w.rep.ExtCount++
			}
			l.Type = uint16(eff)
			st.Format = uint16(w.u16(sp, spath))
			spath = fmt.Sprintf("%s(%s%d.%d)", spath, kind, eff, st.Format)
			if kind == GSUB {
				w.gsubSubtable(sp, eff, int(st.Format), spath)
			} else {
				w.gposSubtable(sp, eff, int(st.Format), spath)
			}
			w.rep.Formats[fmt.Sprintf("%s%d.%d", kind, eff, st.Format)]++
			l.Subtables = append(l.Subtables, st)
		}
		w.rep.Lookups = append(w.rep.Lookups, l)
	}
}

// gidArray marks nothing; it checks that count 16-bit values are present.
func (w *walker) arr16(pos, count int, path string) {
	w.need(pos, 2*count, path)
}

func (w *walker) wantCount(pos int, path, what string, got int, cov *Coverage) {
	if got != len(cov.Glyphs) {
		w.failf(pos, path, "%s is %d but the coverage table has %d glyphs", what, got, len(cov.Glyphs))
	}
}

// off16 reads an offset relative to base that must not point before `after`
// (the end of the fixed part that contains it).
func (w *walker) off16(pos, after int, path, what string, null bool) int {
	o := w.u16(pos, path)
	if o == 0 {
		if null {
			return 0
		}
		w.failf(pos, path, "%s is NULL", what)
	}
	if o < after {
		w.failf(pos, path, "%s %d points into the fixed part (%d bytes) of its table", what, o, after)
	}
	return o
}

func (w *walker) gsubSubtable(sp, tp, format int, path string) {
	switch 10*tp + format {
	case 11:
		w.mark(sp, sp+6, path)
		w.coverage(sp+w.off16(sp+2, 6, path, "coverageOffset", false), path)
	case 12:
		n := w.u16(sp+4, path)
		w.mark(sp, sp+6+2*n, path)
		cov := w.coverage(sp+w.off16(sp+2, 6+2*n, path, "coverageOffset", false), path)
		w.wantCount(sp+4, path, "glyphCount", n, cov)
	case 21, 31:
		n := w.u16(sp+4, path)
		fixed := 6 + 2*n
		w.mark(sp, sp+fixed, path)
		cov := w.coverage(sp+w.off16(sp+2, fixed, path, "coverageOffset", false), path)
		w.wantCount(sp+4, path, "sequence/alternateSet count", n, cov)
		for i := 0; i < n; i++ {
			o := w.off16(sp+6+2*i, fixed, path, "sequence offset", false)
			cnt := w.u16(sp+o, path)
			w.mark(sp+o, sp+o+2+2*cnt, fmt.Sprintf("%s/Seq[%d]", path, i))
		}
	case 41:
		n := w.u16(sp+4, path)
		fixed := 6 + 2*n
		w.mark(sp, sp+fixed, path)
		cov := w.coverage(sp+w.off16(sp+2, fixed, path, "coverageOffset", false), path)
		w.wantCount(sp+4, path, "ligatureSetCount", n, cov)
		for i := 0; i < n; i++ {
			lsp := sp + w.off16(sp+6+2*i, fixed, path, "ligatureSet offset", false)
			lspath := fmt.Sprintf("%s/LigSet[%d]", path, i)
			m := w.u16(lsp, lspath)
			w.mark(lsp, lsp+2+2*m, lspath)
			for j := 0; j < m; j++ {
				lp := lsp + w.off16(lsp+2+2*j, 2+2*m, lspath, "ligature offset", false)
				comp := w.u16(lp+2, lspath)
				if comp < 1 {
					w.failf(lp+2, lspath, "ligature %d has componentCount 0", j)
				}
				w.mark(lp, lp+4+2*(comp-1), fmt.Sprintf("%s/Lig[%d]", lspath, j))
			}
		}
	case 51:
		w.seqContext1(sp, path)
	case 52:
		w.seqContext2(sp, path)
	case 53:
		w.seqContext3(sp, path)
	case 61:
		w.chained1(sp, path)
	case 62:
		w.chained2(sp, path)
	case 63:
		w.chained3(sp, path)
	case 81:
		pos := sp + 4
		nb := w.u16(pos, path)
		backPos := pos + 2
		pos += 2 + 2*nb
		nl := w.u16(pos, path)
		lookPos := pos + 2
		pos += 2 + 2*nl
		n := w.u16(pos, path)
		pos += 2 + 2*n
		fixed := pos - sp
		w.mark(sp, pos, path)
		cov := w.coverage(sp+w.off16(sp+2, fixed, path, "coverageOffset", false), path)
		w.wantCount(pos, path, "glyphCount", n, cov)
		for i := 0; i < nb; i++ {
			w.coverage(sp+w.off16(backPos+2*i, fixed, path, "backtrack coverage offset", false), fmt.Sprintf("%s/Backtrack[%d]", path, i))
		}
		for i := 0; i < nl; i++ {
			w.coverage(sp+w.off16(lookPos+2*i, fixed, path, "lookahead coverage offset", false), fmt.Sprintf("%s/Lookahead[%d]", path, i))
		}
	default:
		w.failf(sp, path, "unknown GSUB subtable %d.%d", tp, format)
	}
}

// seqRule walks a SequenceRule / ClassSequenceRule.
func (w *walker) seqRule(pos int, path string) {
	g := w.u16(pos, path)
	if g < 1 {
		w.failf(pos, path, "glyphCount 0")
	}
	n := w.u16(pos+2, path)
	w.mark(pos, pos+4+2*(g-1)+4*n, path)
}

func (w *walker) ruleSets(sp, arrPos, n, fixed int, path string, rule func(pos int, path string)) {
	for i := 0; i < n; i++ {
		o := w.off16(arrPos+2*i, fixed, path, "rule set offset", true)
		if o == 0 {
			continue
		}
		rs := sp + o
		rspath := fmt.Sprintf("%s/RuleSet[%d]", path, i)
		m := w.u16(rs, rspath)
		w.mark(rs, rs+2+2*m, rspath)
		for j := 0; j < m; j++ {
			rule(rs+w.off16(rs+2+2*j, 2+2*m, rspath, "rule offset", false), fmt.Sprintf("%s/Rule[%d]", rspath, j))
		}
	}
}

func (w *walker) seqContext1(sp int, path string) {
	n := w.u16(sp+4, path)
	fixed := 6 + 2*n
	w.mark(sp, sp+fixed, path)
	cov := w.coverage(sp+w.off16(sp+2, fixed, path, "coverageOffset", false), path)
	w.wantCount(sp+4, path, "seqRuleSetCount", n, cov)
	w.ruleSets(sp, sp+6, n, fixed, path, w.seqRule)
}

func (w *walker) seqContext2(sp int, path string) {
	n := w.u16(sp+6, path)
	fixed := 8 + 2*n
	w.mark(sp, sp+fixed, path)
	w.coverage(sp+w.off16(sp+2, fixed, path, "coverageOffset", false), path)
	w.classDef(sp+w.off16(sp+4, fixed, path, "classDefOffset", false), path)
	w.ruleSets(sp, sp+8, n, fixed, path, w.seqRule)
}

func (w *walker) seqContext3(sp int, path string) {
	g := w.u16(sp+2, path)
	if g < 1 {
		w.failf(sp+2, path, "glyphCount 0")
	}
	n := w.u16(sp+4, path)
	fixed := 6 + 2*g + 4*n
	w.mark(sp, sp+fixed, path)
	for i := 0; i < g; i++ {
		w.coverage(sp+w.off16(sp+6+2*i, fixed, path, "coverage offset", false), fmt.Sprintf("%s/Input[%d]", path, i))
	}
}

// chainedRule walks a ChainedSequenceRule / ChainedClassSequenceRule.
func (w *walker) chainedRule(pos int, path string) {
	p := pos
	nb := w.u16(p, path)
	p += 2 + 2*nb
	ni := w.u16(p, path)
	if ni < 1 {
		w.failf(p, path, "inputGlyphCount 0")
	}
	p += 2 + 2*(ni-1)
	nl := w.u16(p, path)
	p += 2 + 2*nl
	n := w.u16(p, path)
	p += 2 + 4*n
	w.mark(pos, p, path)
}

func (w *walker) chained1(sp int, path string) {
	n := w.u16(sp+4, path)
	fixed := 6 + 2*n
	w.mark(sp, sp+fixed, path)
	cov := w.coverage(sp+w.off16(sp+2, fixed, path, "coverageOffset", false), path)
	w.wantCount(sp+4, path, "chainedSeqRuleSetCount", n, cov)
	w.ruleSets(sp, sp+6, n, fixed, path, w.chainedRule)
}

func (w *walker) chained2(sp int, path string) {
	n := w.u16(sp+10, path)
	fixed := 12 + 2*n
	w.mark(sp, sp+fixed, path)
	w.coverage(sp+w.off16(sp+2, fixed, path, "coverageOffset", false), path)
	for i, name := range []string{"Backtrack", "Input", "Lookahead"} {
		if o := w.off16(sp+4+2*i, fixed, path, name+" classDefOffset", true); o != 0 {
			w.classDef(sp+o, path+"/"+name)
		}
	}
	w.ruleSets(sp, sp+12, n, fixed, path, w.chainedRule)
}

func (w *walker) chained3(sp int, path string) {
	p := sp + 2
	nb := w.u16(p, path)
	backPos := p + 2
	p += 2 + 2*nb
	ni := w.u16(p, path)
	if ni < 1 {
		w.failf(p, path, "inputGlyphCount 0")
	}
	inPos := p + 2
	p += 2 + 2*ni
	nl := w.u16(p, path)
	lookPos := p + 2
	p += 2 + 2*nl
	n := w.u16(p, path)
	p += 2 + 4*n
	fixed := p - sp
	w.mark(sp, p, path)
	for i := 0; i < nb; i++ {
		w.coverage(sp+w.off16(backPos+2*i, fixed, path, "backtrack coverage offset", false), fmt.Sprintf("%s/Backtrack[%d]", path, i))
	}
	for i := 0; i < ni; i++ {
		w.coverage(sp+w.off16(inPos+2*i, fixed, path, "input coverage offset", false), fmt.Sprintf("%s/Input[%d]", path, i))
	}
	for i := 0; i < nl; i++ {
		w.coverage(sp+w.off16(lookPos+2*i, fixed, path, "lookahead coverage offset", false), fmt.Sprintf("%s/Lookahead[%d]", path, i))
	}
}

func (w *walker) valueSize(pos, format int, path string) int {
	if format&0xFF00 != 0 {
		w.failf(pos, path, "reserved valueFormat bits set: %#04x", format)
	}
	return 2 * bits.OnesCount16(uint16(format))
}

func (w *walker) anchor(pos int, path string) {
	f := w.u16(pos, path)
	switch f {
	case 1:
		w.mark(pos, pos+6, path)
	case 2:
		w.mark(pos, pos+8, path)
	case 3:
		w.mark(pos, pos+10, path)
	default:
		w.failf(pos, path, "unknown anchor format %d", f)
	}
}

// markArray walks a MarkArray table and returns the number of records.
func (w *walker) markArray(pos int, path string) int {
	n := w.u16(pos, path)
	w.mark(pos, pos+2+4*n, path)
	for i := 0; i < n; i++ {
		o := w.off16(pos+2+4*i+2, 2+4*n, path, "mark anchor offset", false)
		w.anchor(pos+o, fmt.Sprintf("%s/Anchor[%d]", path, i))
	}
	return n
}

// anchorMatrix walks a BaseArray / Mark2Array: rows x cols offsets (NULL allowed).
func (w *walker) anchorMatrix(pos, cols int, path string) int {
	rows := w.u16(pos, path)
	fixed := 2 + 2*rows*cols
	w.mark(pos, pos+fixed, path)
	for i := 0; i < rows*cols; i++ {
		o := w.off16(pos+2+2*i, fixed, path, "anchor offset", true)
		if o != 0 {
			w.anchor(pos+o, fmt.Sprintf("%s/Anchor[%d,%d]", path, i/cols, i%cols))
		}
	}
	return rows
}

func (w *walker) gposSubtable(sp, tp, format int, path string) {
	switch 10*tp + format {
	case 11:
		vf := w.u16(sp+4, path)
		fixed := 6 + w.valueSize(sp+4, vf, path)
		w.mark(sp, sp+fixed, path)
		w.coverage(sp+w.off16(sp+2, fixed, path, "coverageOffset", false), path)
	case 12:
		vf := w.u16(sp+4, path)
		n := w.u16(sp+6, path)
		fixed := 8 + n*w.valueSize(sp+4, vf, path)
		w.mark(sp, sp+fixed, path)
		cov := w.coverage(sp+w.off16(sp+2, fixed, path, "coverageOffset", false), path)
		w.wantCount(sp+6, path, "valueCount", n, cov)
	case 21:
		vf1, vf2 := w.u16(sp+4, path), w.u16(sp+6, path)
		rec := 2 + w.valueSize(sp+4, vf1, path) + w.valueSize(sp+6, vf2, path)
		n := w.u16(sp+8, path)
		fixed := 10 + 2*n
		w.mark(sp, sp+fixed, path)
		cov := w.coverage(sp+w.off16(sp+2, fixed, path, "coverageOffset", false), path)
		w.wantCount(sp+8, path, "pairSetCount", n, cov)
		for i := 0; i < n; i++ {
			ps := sp + w.off16(sp+10+2*i, fixed, path, "pairSet offset", false)
			pspath := fmt.Sprintf("%s/PairSet[%d]", path, i)
			m := w.u16(ps, pspath)
			w.mark(ps, ps+2+m*rec, pspath)
			prev := -1
			for j := 0; j < m; j++ {
				g := w.u16(ps+2+j*rec, pspath)
				if g <= prev {
					w.failf(ps+2+j*rec, pspath, "pair value records not ordered by second glyph: %d after %d", g, prev)
				}
				prev = g
			}
		}
	case 22:
		vf1, vf2 := w.u16(sp+4, path), w.u16(sp+6, path)
		rec := w.valueSize(sp+4, vf1, path) + w.valueSize(sp+6, vf2, path)
		c1, c2 := w.u16(sp+12, path), w.u16(sp+14, path)
		fixed := 16 + c1*c2*rec
		w.mark(sp, sp+fixed, path)
		w.coverage(sp+w.off16(sp+2, fixed, path, "coverageOffset", false), path)
		w.classDef(sp+w.off16(sp+8, fixed, path, "classDef1Offset", false), path+"/Class1")
		w.classDef(sp+w.off16(sp+10, fixed, path, "classDef2Offset", false), path+"/Class2")
	case 31:
		n := w.u16(sp+4, path)
		fixed := 6 + 4*n
		w.mark(sp, sp+fixed, path)
		cov := w.coverage(sp+w.off16(sp+2, fixed, path, "coverageOffset", false), path)
		w.wantCount(sp+4, path, "entryExitCount", n, cov)
		for i := 0; i < 2*n; i++ {
			if o := w.off16(sp+6+2*i, fixed, path, "entry/exit anchor offset", true); o != 0 {
				w.anchor(sp+o, fmt.Sprintf("%s/EntryExit[%d].%d", path, i/2, i%2))
			}
		}
	case 41, 61:
		w.mark(sp, sp+12, path)
		cov1 := w.coverage(sp+w.off16(sp+2, 12, path, "mark coverage offset", false), path+"/MarkCov")
		cov2 := w.coverage(sp+w.off16(sp+4, 12, path, "base coverage offset", false), path+"/BaseCov")
		classes := w.u16(sp+6, path)
		nm := w.markArray(sp+w.off16(sp+8, 12, path, "markArrayOffset", false), path+"/MarkArray")
		w.wantCount(sp+8, path, "markCount", nm, cov1)
		nb := w.anchorMatrix(sp+w.off16(sp+10, 12, path, "baseArrayOffset", false), classes, path+"/BaseArray")
		w.wantCount(sp+10, path, "baseCount", nb, cov2)
	case 51:
		w.mark(sp, sp+12, path)
		cov1 := w.coverage(sp+w.off16(sp+2, 12, path, "mark coverage offset", false), path+"/MarkCov")
		cov2 := w.coverage(sp+w.off16(sp+4, 12, path, "ligature coverage offset", false), path+"/LigCov")
		classes := w.u16(sp+6, path)
		nm := w.markArray(sp+w.off16(sp+8, 12, path, "markArrayOffset", false), path+"/MarkArray")
		w.wantCount(sp+8, path, "markCount", nm, cov1)
		la := sp + w.off16(sp+10, 12, path, "ligatureArrayOffset", false)
		n := w.u16(la, path)
		w.mark(la, la+2+2*n, path+"/LigatureArray")
		w.wantCount(la, path, "ligatureCount", n, cov2)
		for i := 0; i < n; i++ {
			o := w.off16(la+2+2*i, 2+2*n, path, "ligatureAttach offset", false)
			w.anchorMatrix(la+o, classes, fmt.Sprintf("%s/LigatureAttach[%d]", path, i))
		}
	case 71:
		w.seqContext1(sp, path)
	case 72:
		w.seqContext2(sp, path)
	case 73:
		w.seqContext3(sp, path)
	case 81:
		w.chained1(sp, path)
	case 82:
		w.chained2(sp, path)
	case 83:
		w.chained3(sp, path)
	default:
		w.failf(sp, path, "unknown GPOS subtable %d.%d", tp, format)
	}
}
