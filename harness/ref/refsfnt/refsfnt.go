// Package refsfnt is an independent sfnt container walker and assembler
// written from the OpenType "otff" chapter.  It shares no code with /repo.
package refsfnt

import (
	"encoding/binary"
	"fmt"
	"math/bits"
	"sort"
)

// Record is one table directory entry.
type Record struct {
	Tag      string
	Checksum uint32
	Offset   uint32
	Length   uint32
}

// File is a parsed sfnt container.
type File struct {
	Scaler        uint32
	NumTables     int
	SearchRange   uint16
	EntrySelector uint16
	RangeShift    uint16
	Records       []Record
	Data          []byte
}

// Checksum is the OpenType table checksum: sum of big-endian uint32 words of
// the zero-padded data.
func Checksum(b []byte) uint32 {
	var sum uint32
	n := len(b)
	i := 0
	for ; i+4 <= n; i += 4 {
		sum += binary.BigEndian.Uint32(b[i:])
	}
	if i < n {
		var last [4]byte
		copy(last[:], b[i:])
		sum += binary.BigEndian.Uint32(last[:])
	}
	return sum
}

// Parse reads the directory.  It fails only if the directory itself does not
// fit in the data.
func Parse(b []byte) (*File, error) {
	if len(b) < 12 {
		return nil, fmt.Errorf("file too short for an offset table (%d bytes)", len(b))
	}
	f := &File{
		Scaler:        binary.BigEndian.Uint32(b),
		NumTables:     int(binary.BigEndian.Uint16(b[4:])),
		SearchRange:   binary.BigEndian.Uint16(b[6:]),
		EntrySelector: binary.BigEndian.Uint16(b[8:]),
		RangeShift:    binary.BigEndian.Uint16(b[10:]),
		Data:          b,
	}
	if len(b) < 12+16*f.NumTables {
		return nil, fmt.Errorf("directory with %d records does not fit into %d bytes", f.NumTables, len(b))
	}
	for i := 0; i < f.NumTables; i++ {
		p := 12 + 16*i
		f.Records = append(f.Records, Record{
			Tag:      string(b[p : p+4]),
			Checksum: binary.BigEndian.Uint32(b[p+4:]),
			Offset:   binary.BigEndian.Uint32(b[p+8:]),
			Length:   binary.BigEndian.Uint32(b[p+12:]),
		})
	}
	return f, nil
}

// Table returns the bytes of a table (nil, false if absent or out of range).
func (f *File) Table(tag string) ([]byte, bool) {
	for _, r := range f.Records {
		if r.Tag == tag {
			end := uint64(r.Offset) + uint64(r.Length)
			if end > uint64(len(f.Data)) {
				return nil, false
			}
			return f.Data[r.Offset:end], true
		}
	}
	return nil, false
}

// Validate checks every well-formedness clause of property C03 and returns
// the list of violations (empty = well formed).
func (f *File) Validate() []string {
	var errs []string
	add := func(format string, a ...any) { errs = append(errs, fmt.Sprintf(format, a...)) }
	n := f.NumTables
	// binary search fields
	if n > 0 {
		es := bits.Len(uint(n)) - 1
		sr := 16 << es
		if int(f.EntrySelector) != es {
			add("entrySelector %d, want %d for %d tables", f.EntrySelector, es, n)
		}
		if int(f.SearchRange) != sr {
			add("searchRange %d, want %d", f.SearchRange, sr)
		}
		if int(f.RangeShift) != 16*n-sr {
			add("rangeShift %d, want %d", f.RangeShift, 16*n-sr)
		}
	} else {
		if f.SearchRange != 0 && f.SearchRange != 16 || f.RangeShift != 0 && int(f.RangeShift) != 65536-16 {
			// with zero tables the formulas degenerate; accept 0/16
		}
	}
	for i := 1; i < len(f.Records); i++ {
		if !(f.Records[i-1].Tag < f.Records[i].Tag) {
			add("directory not strictly sorted by tag: %q before %q", f.Records[i-1].Tag, f.Records[i].Tag)
		}
	}
	dirEnd := uint64(12 + 16*n)
	type span struct {
		a, b uint64
		tag  string
	}
	var spans []span
	for _, r := range f.Records {
		off, l := uint64(r.Offset), uint64(r.Length)
		if off < dirEnd {
			add("table %q at offset %d overlaps the directory (ends at %d)", r.Tag, off, dirEnd)
		}
		if off%4 != 0 {
			add("table %q at offset %d is not 4-byte aligned", r.Tag, off)
		}
		if off+l > uint64(len(f.Data)) {
			add("table %q [%d,%d) extends beyond the file (%d bytes)", r.Tag, off, off+l, len(f.Data))
			continue
		}
		pad := (4 - l%4) % 4
		if off+l+pad > uint64(len(f.Data)) {
			add("table %q: padding missing at end of file", r.Tag)
		} else {
			for k := uint64(0); k < pad; k++ {
				if f.Data[off+l+k] != 0 {
					add("table %q: padding byte %d is %#x, not zero", r.Tag, k, f.Data[off+l+k])
				}
			}
		}
		if got := Checksum(f.Data[off : off+l]); r.Tag != "head" && got != r.Checksum {
			add("table %q: directory checksum %#08x, computed %#08x", r.Tag, r.Checksum, got)
		}
		if r.Tag == "head" && l >= 12 {
			tmp := append([]byte(nil), f.Data[off:off+l]...)
			tmp[8], tmp[9], tmp[10], tmp[11] = 0, 0, 0, 0
			if got := Checksum(tmp); got != r.Checksum {
				add("table head: directory checksum %#08x, computed (adjustment zeroed) %#08x", r.Checksum, got)
			}
		}
		spans = append(spans, span{off, off + l + pad, r.Tag})
	}
	sort.Slice(spans, func(i, j int) bool {
		if spans[i].a != spans[j].a {
			return spans[i].a < spans[j].a
		}
		return spans[i].b < spans[j].b
	})
	for i := 1; i < len(spans); i++ {
		if spans[i].a < spans[i-1].b && spans[i-1].b > spans[i-1].a && spans[i].b > spans[i].a {
			add("tables %q and %q overlap", spans[i-1].tag, spans[i].tag)
		}
	}
	if hd, ok := f.Table("head"); ok && len(hd) >= 12 {
		if len(f.Data)%4 == 0 {
			if sum := Checksum(f.Data); sum != 0xB1B0AFBA {
				add("whole-file checksum %#08x, want 0xB1B0AFBA", sum)
			}
		} else {
			add("file length %d is not a multiple of 4", len(f.Data))
		}
	}
	return errs
}

// Assemble builds a container from tables (spec-conforming, directory sorted
// by tag, data in tag order, head.checkSumAdjustment patched if present).
func Assemble(scaler uint32, tables map[string][]byte) []byte {
	return AssembleOrdered(scaler, tables, nil)
}

// AssembleOrdered is Assemble with the table data laid out in the given
// physical order (tags of order first, as listed, then the remaining tables
// in tag order); the directory stays sorted by tag.
func AssembleOrdered(scaler uint32, tables map[string][]byte, order []string) []byte {
	tags := make([]string, 0, len(tables))
	for t := range tables {
		tags = append(tags, t)
	}
	sort.Strings(tags)
	n := len(tags)
	if len(order) > 0 {
		return assembleOrdered(scaler, tables, tags, order)
	}
	out := make([]byte, 12+16*n)
	binary.BigEndian.PutUint32(out, scaler)
	binary.BigEndian.PutUint16(out[4:], uint16(n))
	if n > 0 {
		es := bits.Len(uint(n)) - 1
		binary.BigEndian.PutUint16(out[6:], uint16(16<<es))
		binary.BigEndian.PutUint16(out[8:], uint16(es))
		binary.BigEndian.PutUint16(out[10:], uint16(16*n-(16<<es)))
	}
	headPos := -1
	for i, t := range tags {
		d := append([]byte(nil), tables[t]...)
		if t == "head" && len(d) >= 12 {
			d[8], d[9], d[10], d[11] = 0, 0, 0, 0
			headPos = len(out)
		}
		p := 12 + 16*i
		copy(out[p:], t)
		binary.BigEndian.PutUint32(out[p+4:], Checksum(d))
		binary.BigEndian.PutUint32(out[p+8:], uint32(len(out)))
		binary.BigEndian.PutUint32(out[p+12:], uint32(len(d)))
		out = append(out, d...)
		for len(out)%4 != 0 {
			out = append(out, 0)
		}
	}
	if headPos >= 0 {
		binary.BigEndian.PutUint32(out[headPos+8:], 0xB1B0AFBA-Checksum(out))
	}
	return out
}

// Tables returns all tables of a parsed file as a map.
func (f *File) Tables() map[string][]byte {
	m := map[string][]byte{}
	for _, r := range f.Records {
		if d, ok := f.Table(r.Tag); ok {
			m[r.Tag] = d
		}
	}
	return m
}

func assembleOrdered(scaler uint32, tables map[string][]byte, tags, order []string) []byte {
	n := len(tags)
	out := make([]byte, 12+16*n)
	binary.BigEndian.PutUint32(out, scaler)
	binary.BigEndian.PutUint16(out[4:], uint16(n))
	es := bits.Len(uint(n)) - 1
	binary.BigEndian.PutUint16(out[6:], uint16(16<<es))
	binary.BigEndian.PutUint16(out[8:], uint16(es))
	binary.BigEndian.PutUint16(out[10:], uint16(16*n-(16<<es)))
	seen := map[string]bool{}
	var phys []string
	for _, t := range order {
		if _, ok := tables[t]; ok && !seen[t] {
			seen[t] = true
			phys = append(phys, t)
		}
	}
	for _, t := range tags {
		if !seen[t] {
			phys = append(phys, t)
		}
	}
	idx := map[string]int{}
	for i, t := range tags {
		idx[t] = i
	}
	headPos := -1
	for _, t := range phys {
		d := append([]byte(nil), tables[t]...)
		if t == "head" && len(d) >= 12 {
			d[8], d[9], d[10], d[11] = 0, 0, 0, 0
			headPos = len(out)
		}
		p := 12 + 16*idx[t]
		copy(out[p:], t)
		binary.BigEndian.PutUint32(out[p+4:], Checksum(d))
		binary.BigEndian.PutUint32(out[p+8:], uint32(len(out)))
		binary.BigEndian.PutUint32(out[p+12:], uint32(len(d)))
		out = append(out, d...)
		for len(out)%4 != 0 {
			out = append(out, 0)
		}
	}
	if headPos >= 0 {
		binary.BigEndian.PutUint32(out[headPos+8:], 0xB1B0AFBA-Checksum(out))
	}
	return out
}
