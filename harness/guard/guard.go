// Package guard wraps calls into go-sfnt: panics are recovered and
// attributed to the innermost go-sfnt frame, possibly non-terminating calls
// run under a watchdog, and allocation is measured deterministically.
package guard

import (
	"fmt"
	"os"
	"runtime"
	"strings"
	"sync"
	"syscall"
	"time"
)

const modPrefix = "seehuhn.de/go/sfnt"

// Panic describes a recovered panic.
type Panic struct {
	Value any
	Site  string // innermost go-sfnt function (without line number)
	Class string // coarse class of the panic value
	Stack string
}

func (p *Panic) Key() string { return "panic:" + p.Site + ":" + p.Class }

func (p *Panic) String() string {
	return fmt.Sprintf("panic %q at %s [%s]", fmt.Sprint(p.Value), p.Site, p.Class)
}

func classify(v any) string {
	s := fmt.Sprint(v)
	switch {
	case strings.Contains(s, "index out of range"):
		return "index"
	case strings.Contains(s, "slice bounds out of range"):
		return "slice"
	case strings.Contains(s, "nil pointer dereference"):
		return "nil"
	case strings.Contains(s, "nil map"):
		return "nilmap"
	case strings.Contains(s, "makeslice") || strings.Contains(s, "out of memory"):
		return "alloc"
	case strings.Contains(s, "divide by zero"):
		return "div0"
	case strings.Contains(s, "interface conversion"):
		return "iface"
	}
	if _, ok := v.(runtime.Error); ok {
		return "runtime"
	}
	// explicit panic("...") calls: use a short slug of the message
	s = strings.Map(func(r rune) rune {
		switch {
		case r >= 'a' && r <= 'z', r >= 'A' && r <= 'Z', r >= '0' && r <= '9':
			return r
		}
		return '_'
	}, s)
	if len(s) > 24 {
		s = s[:24]
	}
	return "explicit_" + s
}

// Try runs fn and returns a description of the panic it raised, or nil.
func Try(fn func()) (p *Panic) {
	defer func() {
		if r := recover(); r != nil {
			p = describe(r)
		}
	}()
	fn()
	return nil
}

func describe(r any) *Panic {
	pcs := make([]uintptr, 64)
	n := runtime.Callers(3, pcs)
	frames := runtime.CallersFrames(pcs[:n])
	site := "?"
	var sb strings.Builder
	found := false
	for {
		fr, more := frames.Next()
		fmt.Fprintf(&sb, "  %s\n", fr.Function)
		if !found && strings.HasPrefix(fr.Function, modPrefix) {
			site = strings.TrimPrefix(fr.Function, modPrefix)
			site = strings.TrimPrefix(site, "/")
			found = true
		}
		if !more {
			break
		}
	}
	return &Panic{Value: r, Site: site, Class: classify(r), Stack: sb.String()}
}

// ExitHang is the exit status a check process uses when its watchdog fires.
const ExitHang = 97

var wdMu sync.Mutex

// Watch runs fn under a watchdog.  If fn has not returned after limit, the
// in-flight input is written to $VERIF_REPLAY_OUT/inflight-<name>.bin and
// the process exits with ExitHang; the driver re-runs that single input with
// a doubled limit before anything is reported.
func Watch(name string, input []byte, limit time.Duration, fn func()) {
	if s := os.Getenv("VERIF_HANG_SCALE"); s != "" {
		var k int
		fmt.Sscan(s, &k)
		if k > 1 {
			limit *= time.Duration(k)
		}
	}
	done := make(chan struct{})
	go func() {
		t := time.NewTimer(limit)
		defer t.Stop()
		select {
		case <-done:
		case <-t.C:
			wdMu.Lock()
			dir := os.Getenv("VERIF_REPLAY_OUT")
			if dir != "" {
				os.MkdirAll(dir, 0o755)
				os.WriteFile(dir+"/inflight-"+name+".bin", input, 0o644)
			}
			fmt.Fprintf(os.Stderr, "VERIF-HANG target=%s len=%d limit=%s\n", name, len(input), limit)
			buf := make([]byte, 1<<16)
			n := runtime.Stack(buf, true)
			os.Stderr.Write(buf[:n])
			os.Exit(ExitHang)
		}
	}()
	defer close(done)
	fn()
}

// HangLimit is the generous default limit: 30 s + 1 s per KiB.
func HangLimit(n int) time.Duration {
	return 30*time.Second + time.Duration(n/1024)*time.Second
}

// Alloc runs fn and returns the number of bytes allocated meanwhile
// (TotalAlloc delta; the check process must not run tests in parallel).
func Alloc(fn func()) uint64 {
	var a, b runtime.MemStats
	runtime.ReadMemStats(&a)
	fn()
	runtime.ReadMemStats(&b)
	return b.TotalAlloc - a.TotalAlloc
}

// CPU runs fn on a locked OS thread and returns the CPU time (user + system)
// that thread consumed meanwhile.  Unlike wall-clock time this does not grow
// when the machine is busy with other work, so it can carry a (generous)
// bound: time the thread spends waiting for a core is not counted.
func CPU(fn func()) time.Duration {
	runtime.LockOSThread()
	defer runtime.UnlockOSThread()
	a := threadCPU()
	fn()
	return threadCPU() - a
}

func threadCPU() time.Duration {
	var ru syscall.Rusage
	const rusageThread = 1 // RUSAGE_THREAD (Linux)
	if err := syscall.Getrusage(rusageThread, &ru); err != nil {
		return 0
	}
	return time.Duration(ru.Utime.Nano() + ru.Stime.Nano())
}
