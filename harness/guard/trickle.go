package guard

import (
	"errors"
	"io"
)

// Trickle is a seekable source over data that delivers at most Chunk bytes
// per Read call (any io.Reader may do that).  A buffering reader then refills
// and compacts its buffer at other positions than with a source that fills
// every request, so a value kept from an earlier read and used after the next
// one (a stale view into the buffer) changes the decoded result.
type Trickle struct {
	Data  []byte
	Chunk int
	pos   int64
}

// NewTrickle returns a source delivering chunk bytes per Read.
func NewTrickle(data []byte, chunk int) *Trickle { return &Trickle{Data: data, Chunk: chunk} }

func (r *Trickle) Size() int64 { return int64(len(r.Data)) }

func (r *Trickle) Seek(off int64, whence int) (int64, error) {
	switch whence {
	case io.SeekCurrent:
		off += r.pos
	case io.SeekEnd:
		off += int64(len(r.Data))
	}
	if off < 0 {
		return r.pos, errors.New("seek before start")
	}
	r.pos = off
	return off, nil
}

func (r *Trickle) Read(p []byte) (int, error) {
	if len(p) == 0 {
		return 0, nil
	}
	if r.pos >= int64(len(r.Data)) {
		return 0, io.EOF
	}
	n := len(p)
	if r.Chunk > 0 && n > r.Chunk {
		n = r.Chunk
	}
	n = copy(p[:n], r.Data[r.pos:])
	r.pos += int64(n)
	return n, nil
}

// ReadSeekSizer is what the library's table readers take.
type ReadSeekSizer interface {
	io.ReadSeeker
	Size() int64
}

type plain struct {
	data []byte
	pos  int64
}

func (r *plain) Size() int64 { return int64(len(r.data)) }
func (r *plain) Seek(off int64, whence int) (int64, error) {
	t := Trickle{Data: r.data, pos: r.pos}
	n, err := t.Seek(off, whence)
	r.pos = t.pos
	return n, err
}
func (r *plain) Read(p []byte) (int, error) {
	t := Trickle{Data: r.data, pos: r.pos}
	n, err := t.Read(p)
	r.pos = t.pos
	return n, err
}

// Source returns a seekable source over data: for two thirds of the inputs
// (chosen by a hash of the bytes, so that a case always gets the same one) a
// source that fills every request, for the others one that delivers 1-7 bytes
// per call.  Decoders must return the same value either way; using Source
// instead of bytes.NewReader lets every decode of a check exercise both.
func Source(data []byte) ReadSeekSizer {
	h := uint32(2166136261)
	for _, b := range data {
		h = (h ^ uint32(b)) * 16777619
	}
	if h%3 != 0 || len(data) > 1<<15 {
		return &plain{data: data}
	}
	return NewTrickle(data, 1+int(h>>8)%7)
}
