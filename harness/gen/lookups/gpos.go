package lookups

import (
	"pgregory.net/rapid"

	"seehuhn.de/go/sfnt/glyph"
	"seehuhn.de/go/sfnt/opentype/anchor"
	"seehuhn.de/go/sfnt/opentype/coverage"
	"seehuhn.de/go/sfnt/opentype/gdef"
	"seehuhn.de/go/sfnt/opentype/gtab"
	"seehuhn.de/go/sfnt/opentype/markarray"
)

func (c *gctx) gpos1_1() gtab.Subtable {
	cov, _ := c.covTable("p11cov")
	return &gtab.Gpos1_1{Cov: cov, Adjust: c.valueRecord("p11adj")}
}

func (c *gctx) gpos1_2() gtab.Subtable {
	cov, gg := c.covTable("p12cov")
	adj := make([]*gtab.GposValueRecord, len(gg))
	for i := range adj {
		adj[i] = c.valueRecord("p12adj")
	}
	if len(adj) == 0 && c.chance("p12nil", 1, 2) {
		adj = nil
	}
	return &gtab.Gpos1_2{Cov: cov, Adjust: adj}
}

func (c *gctx) pairAdjust(label string, secondNil bool) *gtab.PairAdjust {
	pa := &gtab.PairAdjust{First: c.valueRecord(label + "1")}
	if !secondNil {
		pa.Second = c.valueRecord(label + "2")
	}
	return pa
}

func (c *gctx) gpos2_1() gtab.Subtable {
	res := gtab.Gpos2_1{}
	n := rapid.IntRange(1, 8).Draw(c.t, "p21n")
	if c.wild() && c.chance("p21empty", 1, 15) {
		n = 0
	}
	// In most subtables only the first glyph is adjusted (format2 == 0).
	secondNil := c.chance("p21secondNil", 1, 2)
	for i := 0; i < n; i++ {
		pair := glyph.Pair{Left: c.glyph("p21left"), Right: c.glyph("p21right")}
		res[pair] = c.pairAdjust("p21adj", secondNil)
	}
	return res
}

func (c *gctx) gpos2_2() gtab.Subtable {
	t := c.t
	k1 := rapid.IntRange(0, 3).Draw(t, "p22maxClass1")
	k2 := rapid.IntRange(0, 3).Draw(t, "p22maxClass2")
	res := &gtab.Gpos2_2{
		Cov:    c.covSet("p22cov"),
		Class1: c.classDef("p22class1", k1),
		Class2: c.classDef("p22class2", k2),
	}
	rows, cols := k1+1, k2+1
	if c.wild() {
		// class values beyond the matrix (the shaping code must cope)
		if c.chance("p22fewRows", 1, 6) {
			rows = rapid.IntRange(0, rows).Draw(t, "p22rows")
			c.label("class:beyond-matrix")
		}
		if c.chance("p22fewCols", 1, 6) {
			cols = rapid.IntRange(0, cols).Draw(t, "p22cols")
			c.label("class:beyond-matrix")
		}
	}
	secondNil := c.chance("p22secondNil", 1, 2)
	for i := 0; i < rows; i++ {
		row := make([]*gtab.PairAdjust, cols)
		for j := range row {
			row[j] = c.pairAdjust("p22adj", secondNil)
		}
		res.Adjust = append(res.Adjust, row)
	}
	return res
}

func (c *gctx) gpos3_1() gtab.Subtable {
	cov, gg := c.covTable("p31cov")
	recs := make([]gtab.EntryExitRecord, len(gg))
	for i := range recs {
		recs[i].Entry = c.anchor("p31entry", 3)
		recs[i].Exit = c.anchor("p31exit", 3)
	}
	if len(recs) == 0 && c.chance("p31nil", 1, 2) {
		recs = nil
	}
	return &gtab.Gpos3_1{Cov: cov, Records: recs}
}

// markSubset draws a subset preferring glyphs classified as marks (or as
// non-marks).
func (c *gctx) markSubset(label string, wantMarks bool) []glyph.ID {
	var res []glyph.ID
	for _, g := range c.env.Alphabet {
		isMark := c.env.Gdef.GlyphClass[g] == gdef.GlyphClassMark
		p := 1
		if isMark == wantMarks {
			p = 6
		}
		if rapid.IntRange(0, 9).Draw(c.t, label) < p {
			res = append(res, g)
		}
	}
	if len(res) == 0 && c.minCov() > 0 {
		res = []glyph.ID{rapid.SampledFrom(c.env.Alphabet).Draw(c.t, label+"One")}
	}
	return res
}

// markArrays draws the common part of mark attachment subtables: the mark
// array (one record per mark glyph) and an anchor matrix with one row per
// target glyph and one column per mark class.
func (c *gctx) markArrays(label string, marks, targets []glyph.ID) ([]markarray.Record, [][]anchor.Table) {
	t := c.t
	k := rapid.IntRange(1, 3).Draw(t, label+"Classes")
	recs := make([]markarray.Record, len(marks))
	for i := range recs {
		cls := rapid.IntRange(0, k-1).Draw(t, label+"Class")
		if c.wild() && c.chance(label+"ClassOut", 1, 8) {
			cls = k + rapid.SampledFrom([]int{0, 1, 100, 0xFFFF - k}).Draw(t, label+"ClassBeyond")
			c.label("markclass:beyond-row")
		}
		recs[i] = markarray.Record{Class: uint16(cls), Table: c.anchor(label+"MarkAnchor", 1)}
	}
	rows := make([][]anchor.Table, len(targets))
	for i := range rows {
		row := make([]anchor.Table, k)
		for j := range row {
			row[j] = c.anchor(label+"Anchor", 2)
		}
		rows[i] = row
	}
	if len(recs) == 0 && c.chance(label+"RecsNil", 1, 2) {
		recs = nil
	}
	if len(rows) == 0 && c.chance(label+"RowsNil", 1, 2) {
		rows = nil
	}
	return recs, rows
}

func (c *gctx) gpos4_1() gtab.Subtable {
	marks := c.markSubset("p41marks", true)
	bases := c.markSubset("p41bases", false)
	recs, rows := c.markArrays("p41", marks, bases)
	return &gtab.Gpos4_1{
		MarkCov:   CovTable(marks),
		BaseCov:   CovTable(bases),
		MarkArray: recs,
		BaseArray: rows,
	}
}

func (c *gctx) gpos6_1() gtab.Subtable {
	marks1 := c.markSubset("p61marks1", true)
	marks2 := c.markSubset("p61marks2", true)
	recs, rows := c.markArrays("p61", marks1, marks2)
	return &gtab.Gpos6_1{
		Mark1Cov:   CovTable(marks1),
		Mark2Cov:   CovTable(marks2),
		Mark1Array: recs,
		Mark2Array: rows,
	}
}

// gpos5_1 builds a mark-to-ligature subtable.  The library cannot encode
// this type; it is generated only when Options.Allow lists GPOS 5.1.
func (c *gctx) gpos5_1() gtab.Subtable {
	t := c.t
	marks := c.markSubset("p51marks", true)
	ligs := c.markSubset("p51ligs", false)
	k := rapid.IntRange(1, 3).Draw(t, "p51Classes")
	recs := make([]markarray.Record, len(marks))
	for i := range recs {
		recs[i] = markarray.Record{
			Class: uint16(rapid.IntRange(0, k-1).Draw(t, "p51Class")),
			Table: c.anchor("p51MarkAnchor", 1),
		}
	}
	arr := make([][][]anchor.Table, len(ligs))
	for i := range arr {
		// a ligature glyph may be listed without any component record
		nComp := rapid.SampledFrom([]int{0, 1, 1, 2, 2, 3}).Draw(t, "p51Components")
		arr[i] = make([][]anchor.Table, nComp)
		for j := range arr[i] {
			row := make([]anchor.Table, k)
			for m := range row {
				row[m] = c.anchor("p51Anchor", 2)
			}
			arr[i][j] = row
		}
	}
	if len(arr) >= 2 && rapid.IntRange(0, 3).Draw(t, "p51Lopsided") == 0 {
		// the first ligature has no component (so nothing about the table can
		// be read off its rows) and the widest rows belong to a mark class no
		// mark glyph uses: the class count is only visible in later rows
		arr[0] = nil
		if len(arr[1]) == 0 {
			row := make([]anchor.Table, k)
			for m := range row {
				row[m] = c.anchor("p51Anchor", 2)
			}
			arr[1] = [][]anchor.Table{row}
		}
		if k >= 2 {
			for i := range recs {
				if int(recs[i].Class) == k-1 {
					recs[i].Class = 0
				}
			}
		}
		c.label("gpos5:first-ligature-without-components")
	}
	return &gtab.Gpos5_1{
		MarkCov:   CovTable(marks),
		LigCov:    CovTable(ligs),
		MarkArray: recs,
		LigArray:  arr,
	}
}

var _ = coverage.Table(nil)
