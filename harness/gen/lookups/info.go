package lookups

import (
	"bytes"
	"fmt"
	"go/ast"
	"go/parser"
	"go/token"
	"os"
	"path/filepath"
	"sort"
	"strconv"
	"sync"

	"golang.org/x/text/language"
	"pgregory.net/rapid"

	"seehuhn.de/go/sfnt/opentype/gtab"
)

// TagEntry is one script/language tag of the library's built-in tables.
type TagEntry struct {
	Script string // OpenType script tag, e.g. "latn"
	Lang   string // OpenType language tag, e.g. "DEU " ("" = default language system)
	Tag    language.Tag
}

var (
	tagsOnce    sync.Once
	tagsAll     []TagEntry
	tagsByScr   map[string][]TagEntry
	tagScripts  []string
	tagsErr     error
	tagsDropped []string // scripts of the table for which the reader yields no tag
)

// repoDir returns the directory of the go-sfnt tree the harness is built
// against.
func repoDir() string {
	if d := os.Getenv("VERIF_REPO"); d != "" {
		return d
	}
	return "/repo"
}

// mapKeys extracts the string keys of the package-level map literal `name`
// from a Go source file.
func mapKeys(file, name string) ([]string, error) {
	fset := token.NewFileSet()
	f, err := parser.ParseFile(fset, file, nil, 0)
	if err != nil {
		return nil, err
	}
	var keys []string
	ast.Inspect(f, func(n ast.Node) bool {
		vs, ok := n.(*ast.ValueSpec)
		if !ok || len(vs.Names) != 1 || vs.Names[0].Name != name || len(vs.Values) != 1 {
			return true
		}
		lit, ok := vs.Values[0].(*ast.CompositeLit)
		if !ok {
			return true
		}
		for _, e := range lit.Elts {
			kv, ok := e.(*ast.KeyValueExpr)
			if !ok {
				continue
			}
			if bl, ok := kv.Key.(*ast.BasicLit); ok && bl.Kind == token.STRING {
				if s, err := strconv.Unquote(bl.Value); err == nil {
					keys = append(keys, s)
				}
			}
		}
		return false
	})
	if len(keys) == 0 {
		return nil, fmt.Errorf("map %s not found in %s", name, file)
	}
	sort.Strings(keys)
	return keys, nil
}

// scriptProbe builds a minimal GSUB table whose only script has a default
// language system (required feature 0) and one language system per entry of
// langs (required feature i+1), so that the tags returned by the reader can
// be attributed.
func scriptProbe(script string, langs []string) []byte {
	var b []byte
	u16 := func(v int) { b = append(b, byte(v>>8), byte(v)) }
	scriptTable := 4 + 6*len(langs)
	scriptListLen := 2 + 6 + scriptTable + 6*(len(langs)+1)
	b = append(b, 0, 1, 0, 0)
	u16(10)
	u16(10 + scriptListLen)
	u16(10 + scriptListLen + 2)
	u16(1) // scriptCount
	b = append(b, script...)
	u16(8)
	u16(scriptTable) // defaultLangSysOffset
	u16(len(langs))
	for i, l := range langs {
		b = append(b, l...)
		u16(scriptTable + 6*(i+1))
	}
	for i := 0; i <= len(langs); i++ {
		u16(0) // lookupOrderOffset
		u16(i) // requiredFeatureIndex
		u16(0) // featureIndexCount
	}
	u16(0) // featureCount
	u16(0) // lookupCount
	return b
}

func loadTags() {
	file := filepath.Join(repoDir(), "opentype", "gtab", "locale.go")
	scripts, err := mapKeys(file, "scriptBcp47")
	if err != nil {
		tagsErr = err
		return
	}
	langs, err := mapKeys(file, "langBcp47")
	if err != nil {
		tagsErr = err
		return
	}
	var okLangs []string
	for _, l := range langs {
		if len(l) == 4 {
			okLangs = append(okLangs, l)
		}
	}
	tagsByScr = map[string][]TagEntry{}
	for _, s := range scripts {
		if len(s) != 4 {
			continue
		}
		info, err := gtab.Read(bytes.NewReader(scriptProbe(s, okLangs)), gtab.TypeGsub)
		if err != nil {
			tagsErr = fmt.Errorf("script probe %q: %v", s, err)
			return
		}
		var entries []TagEntry
		for tag, ff := range info.ScriptList {
			e := TagEntry{Script: s, Tag: tag}
			if k := int(ff.Required); k > 0 && k <= len(okLangs) {
				e.Lang = okLangs[k-1]
			}
			entries = append(entries, e)
		}
		sort.Slice(entries, func(i, j int) bool { return entries[i].Lang < entries[j].Lang })
		if len(entries) == 0 {
			tagsDropped = append(tagsDropped, s)
			continue
		}
		tagsByScr[s] = entries
		tagScripts = append(tagScripts, s)
		tagsAll = append(tagsAll, entries...)
	}
	if len(tagsAll) == 0 {
		tagsErr = fmt.Errorf("no script/language tags found")
	}
}

// Tags returns every tag the library's reader produces for a (script,
// language) pair of its built-in tables, ordered by script, then language.
// It panics if the tables cannot be located ($VERIF_REPO, default /repo).
func Tags() []TagEntry {
	tagsOnce.Do(loadTags)
	if tagsErr != nil {
		panic("lookups.Tags: " + tagsErr.Error())
	}
	return tagsAll
}

// TagsOfScript returns the tags of one OpenType script (default language
// system first), and TagScripts the scripts that have tags.
func TagsOfScript(script string) []TagEntry { Tags(); return tagsByScr[script] }

// TagScripts returns the OpenType scripts for which the reader yields tags.
func TagScripts() []string { Tags(); return tagScripts }

// DroppedScripts returns the scripts of the library's table for which the
// reader produces no tag at all (they cannot occur in a gtab.Info).
func DroppedScripts() []string { Tags(); return tagsDropped }

// Site names of Info-level overflow classes.
const (
	SiteFeatureOffset    = "FeatureList.featureOffset" // feature table beyond 64 KiB (library refuses)
	SiteFeatureLookups   = "Feature.lookupIndexCount"  // more than 65535 lookup indices in one feature
	SiteLangSysOffset    = "ScriptList.langSysOffset"  // language system beyond 64 KiB of its script table
	SiteScriptOffset     = "ScriptList.scriptOffset"   // script table beyond 64 KiB of the script list
	SiteHeaderListOffset = "Info.lookupListOffset"     // script list + feature list exceed 64 KiB
)

// InfoOptions parametrises GenInfo (beyond the lookup Options).
type InfoOptions struct {
	MaxFeatures int // default 8
	MaxLangSys  int // default 5
	// Size: SizeMixed/SizeLarge add large feature and script lists and the
	// Info-level overflow classes (subject to Options.Skip).
	Size Size
	// NilLists permits nil ScriptList/FeatureList/LookupList next to
	// non-empty other lists.
	NilLists bool
}

// InfoResult is a generated Info with its description.
type InfoResult struct {
	Info     *gtab.Info
	Classes  []string
	Overflow []string
	Sites    []string
	Desc     []string
}

var featureTags = []string{
	"liga", "kern", "mark", "mkmk", "calt", "ccmp", "clig", "locl", "smcp", "ss01", "ss20", "cv99", "aalt", "DFLT", "    ", "a\x00b\xff",
}

// GenInfo generates a complete GSUB or GPOS table structure.
func GenInfo(env *Env, opt Options, iopt InfoOptions) *rapid.Generator[*InfoResult] {
	opt = opt.withDefaults()
	if iopt.MaxFeatures == 0 {
		iopt.MaxFeatures = 8
	}
	if iopt.MaxLangSys == 0 {
		iopt.MaxLangSys = 5
	}
	lg := GenLookups(env, opt)
	return rapid.Custom(func(t *rapid.T) *InfoResult {
		Tags()
		lr := lg.Draw(t, "lookups")
		c := &gctx{t: t, env: env, opt: opt, classes: map[string]bool{}}
		for _, l := range lr.Classes {
			c.label(l)
		}
		res := &InfoResult{Info: &gtab.Info{LookupList: lr.List}}
		res.Overflow = append(res.Overflow, lr.Overflow...)
		res.Sites = append(res.Sites, lr.Sites...)
		res.Desc = append(res.Desc, lr.Desc...)
		nLookups := len(lr.List)

		big := iopt.Size == SizeLarge || iopt.Size == SizeMixed && c.chance("infoLarge", 1, 6)
		fclass, sclass := "small", "small"
		if big {
			cands := []string{"features-large", "langs-all", "scripts-many", "header-overflow", "features-overflow", "feature-lookups-overflow", "langsys-overflow", "scripts-overflow"}
			sites := map[string]string{
				"header-overflow": SiteHeaderListOffset, "features-overflow": SiteFeatureOffset,
				"feature-lookups-overflow": SiteFeatureLookups, "langsys-overflow": SiteLangSysOffset,
				"scripts-overflow": SiteScriptOffset,
			}
			var ok []string
			for _, k := range cands {
				if s := sites[k]; s != "" && c.skip(s) {
					continue
				}
				ok = append(ok, k)
			}
			k := rapid.SampledFrom(ok).Draw(t, "infoClass")
			c.label("info:" + k)
			res.Desc = append(res.Desc, "info class "+k)
			if s := sites[k]; s != "" {
				res.Overflow = append(res.Overflow, s)
				res.Sites = append(res.Sites, s)
				c.label("overflow:" + s)
			}
			switch k {
			case "features-large", "features-overflow", "feature-lookups-overflow":
				fclass = k
			case "header-overflow":
				fclass, sclass = "features-50k", "langs-heavy"
			default:
				sclass = k
			}
		}

		// ---- feature list
		var fl gtab.FeatureListInfo
		lookupIdx := func(label string) gtab.LookupIndex {
			if c.wild() && c.chance(label+"Out", 1, 6) || nLookups == 0 {
				c.label("feature:lookup-out-of-range")
				return gtab.LookupIndex(rapid.SampledFrom([]int{nLookups, nLookups + 1, 0x7FFF, 0xFFFF}).Draw(t, label+"Any"))
			}
			return gtab.LookupIndex(rapid.IntRange(0, nLookups-1).Draw(t, label))
		}
		patterned := func(n, perFeature int) {
			tags := make([]string, 5)
			for i := range tags {
				tags[i] = rapid.SampledFrom(featureTags).Draw(t, "bigFeatureTag")
			}
			salt := rapid.IntRange(0, 999).Draw(t, "bigFeatureSalt")
			for i := 0; i < n; i++ {
				f := &gtab.Feature{Tag: tags[i%5]}
				for j := 0; j < (i+salt)%(perFeature+1); j++ {
					f.Lookups = append(f.Lookups, gtab.LookupIndex((i+j+salt)%max(nLookups, 1)))
				}
				fl = append(fl, f)
			}
		}
		switch fclass {
		case "small":
			n := rapid.IntRange(0, iopt.MaxFeatures).Draw(t, "nFeatures")
			for i := 0; i < n; i++ {
				tag := rapid.SampledFrom(featureTags).Draw(t, "featureTag")
				if c.wild() && c.chance("featureTagAny", 1, 8) {
					tag = string(rapid.SliceOfN(rapid.Byte(), 4, 4).Draw(t, "featureTagBytes"))
				}
				f := &gtab.Feature{Tag: tag}
				k := rapid.IntRange(0, 4).Draw(t, "nFeatureLookups")
				if nLookups == 0 && !c.wild() {
					k = 0
				}
				for j := 0; j < k; j++ {
					f.Lookups = append(f.Lookups, lookupIdx("featureLookup"))
				}
				fl = append(fl, f)
			}
			if n == 0 && (!iopt.NilLists || c.chance("featuresEmptyNotNil", 1, 2)) {
				fl = gtab.FeatureListInfo{}
			}
		case "features-large": // up to the 16-bit limit: 6+4+2*(0..2) bytes each
			patterned(rapid.IntRange(1000, 5300).Draw(t, "nFeaturesLarge"), 2)
		case "features-50k":
			patterned(rapid.IntRange(4700, 4900).Draw(t, "nFeatures50k"), 2)
		case "features-overflow":
			patterned(rapid.IntRange(5600, 7000).Draw(t, "nFeaturesOvf"), 2)
		case "feature-lookups-overflow":
			patterned(rapid.IntRange(0, 3).Draw(t, "nFeaturesBefore"), 2)
			f := &gtab.Feature{Tag: "liga"}
			n := rapid.SampledFrom([]int{0x10000, 0x10001, 0x10000 + 700}).Draw(t, "nFeatureLookupsOvf")
			f.Lookups = make([]gtab.LookupIndex, n)
			for j := range f.Lookups {
				f.Lookups[j] = gtab.LookupIndex(j % max(nLookups, 1))
			}
			fl = append(fl, f)
		}
		res.Info.FeatureList = fl
		nFeatures := len(fl)

		// ---- script list
		features := func(label string, nOpt int) *gtab.Features {
			ff := &gtab.Features{Required: 0xFFFF}
			if c.chance(label+"Req", 1, 3) {
				if nFeatures > 0 && !(c.wild() && c.chance(label+"ReqOut", 1, 5)) {
					ff.Required = gtab.FeatureIndex(rapid.IntRange(0, nFeatures-1).Draw(t, label+"ReqIdx"))
				} else if c.wild() {
					ff.Required = gtab.FeatureIndex(rapid.SampledFrom([]int{nFeatures, nFeatures + 3, 0xFFFE}).Draw(t, label+"ReqAny"))
				}
			}
			for j := 0; j < nOpt; j++ {
				if nFeatures > 0 && !(c.wild() && c.chance(label+"OptOut", 1, 8)) {
					ff.Optional = append(ff.Optional, gtab.FeatureIndex(rapid.IntRange(0, nFeatures-1).Draw(t, label+"Opt")))
				} else if c.wild() {
					ff.Optional = append(ff.Optional, gtab.FeatureIndex(rapid.SampledFrom([]int{nFeatures, nFeatures + 1, 0xFFFE}).Draw(t, label+"OptAny")))
				}
			}
			if len(ff.Optional) == 0 && c.chance(label+"OptEmpty", 1, 2) {
				ff.Optional = []gtab.FeatureIndex{}
			}
			return ff
		}
		patternFeatures := func(i, nOpt int) *gtab.Features {
			ff := &gtab.Features{Required: 0xFFFF}
			if i%3 == 0 && nFeatures > 0 {
				ff.Required = gtab.FeatureIndex(i % nFeatures)
			}
			for j := 0; j < nOpt; j++ {
				ff.Optional = append(ff.Optional, gtab.FeatureIndex((i+j)%max(nFeatures, 1)))
			}
			return ff
		}
		sl := gtab.ScriptListInfo{}
		switch sclass {
		case "small":
			n := rapid.IntRange(0, iopt.MaxLangSys).Draw(t, "nLangSys")
			scripts := TagScripts()
			script := rapid.SampledFrom(scripts).Draw(t, "script")
			for i := 0; i < n; i++ {
				if c.chance("newScript", 1, 2) {
					script = rapid.SampledFrom(scripts).Draw(t, "script")
				}
				entries := tagsByScr[script]
				var e TagEntry
				if c.chance("defaultLang", 1, 3) {
					e = entries[0]
				} else {
					e = rapid.SampledFrom(entries).Draw(t, "lang")
				}
				sl[e.Tag] = features("langSys", rapid.IntRange(0, 4).Draw(t, "nOptional"))
			}
			if len(sl) == 0 && iopt.NilLists && c.chance("scriptsNil", 1, 2) {
				sl = nil
			}
			if len(sl) > 1 {
				c.label("scripts:several")
			}
		case "langs-all", "langs-heavy", "langsys-overflow":
			// every language of one script: 6+6+2k bytes per language system
			nOpt := rapid.IntRange(0, 2).Draw(t, "nOptionalAll")
			switch sclass {
			case "langs-heavy": // about 12 KiB
				nOpt = 4
			case "langsys-overflow": // > 64 KiB inside one script table
				nOpt = rapid.IntRange(50, 60).Draw(t, "nOptionalOvf")
			}
			script := rapid.SampledFrom(TagScripts()).Draw(t, "scriptAll")
			for i, e := range tagsByScr[script] {
				sl[e.Tag] = patternFeatures(i, nOpt)
			}
		case "scripts-many", "scripts-overflow":
			// default language system plus a few languages of many scripts
			nLang := rapid.IntRange(1, 4).Draw(t, "langsPerScript")
			nOpt := rapid.IntRange(0, 2).Draw(t, "nOptionalMany")
			if sclass == "scripts-overflow" { // > 64 KiB in total
				nLang, nOpt = 40, 2
			}
			for i, s := range TagScripts() {
				for j, e := range tagsByScr[s] {
					if j >= nLang {
						break
					}
					sl[e.Tag] = patternFeatures(i+j, nOpt)
				}
			}
		}
		res.Info.ScriptList = sl

		if nLookups == 0 && res.Info.LookupList == nil && !iopt.NilLists {
			res.Info.LookupList = gtab.LookupList{}
		}
		if len(sl) > 0 && res.Info.LookupList == nil {
			c.label("info:nil-lookuplist-with-scripts")
		}
		if sl == nil && (nLookups > 0 || nFeatures > 0) {
			c.label("info:nil-scriptlist-with-content")
		}
		res.Classes = sortedKeys(c.classes)
		sort.Strings(res.Overflow)
		sort.Strings(res.Sites)
		return res
	})
}
