package lookups

import (
	"slices"

	"pgregory.net/rapid"

	"seehuhn.de/go/sfnt/glyph"
	"seehuhn.de/go/sfnt/opentype/classdef"
	"seehuhn.de/go/sfnt/opentype/coverage"
	"seehuhn.de/go/sfnt/opentype/gdef"
	"seehuhn.de/go/sfnt/opentype/gtab"
)

// NestedOptions parametrises GenNested.
type NestedOptions struct {
	// Wild permits actions that refer to the context itself or to earlier
	// lookups, sequence indices beyond the input, lookup indices beyond the
	// list, and rules with 60-90 actions (C07).
	Wild bool
}

// Nested is a lookup list made of 2-3 contextual lookups (GSUB 5.1, 5.3, 6.3)
// whose actions call later contexts and three leaves (a multiple
// substitution, a single substitution, a ligature), with its GDEF table.
type Nested struct {
	List     gtab.LookupList
	Gdef     *gdef.Table
	Alphabet []glyph.ID // bases 1..3, marks 5 and 6
	NumCtx   int
	Coherent bool
	// Inherit is set when the input of a context was built from the pattern
	// of a lookup it calls.
	Inherit bool
	// Ignore is set when a rule set has a second rule without actions.
	Ignore bool
	// Focus is set in lookahead-focus mode (see GenNested).
	Focus bool
	// MergeFocus is set in merge-focus mode (see GenNested).
	MergeFocus bool
	// Patterns lists, for every rule and for the ligature, a glyph sequence
	// its pattern (backtrack, input, lookahead) matches.
	Patterns [][]glyph.ID
}

// GenNested draws a nested lookup list.  The alphabet is small (three base
// glyphs, two marks in different mark glyph sets) and, in coherent mode, an
// action prefers a lookup whose first glyph is the input glyph it is applied
// to, so that chains of nested matches form often; flags are drawn from
// none / ignore marks / mark filtering set 0 / mark filtering set 1, so that
// two lookups with the same flag word and different sets are common.
func GenNested(t *rapid.T, opt NestedOptions) *Nested {
	bases := []glyph.ID{1, 2, 3}
	alpha := []glyph.ID{1, 2, 3, 5, 6}
	gd := &gdef.Table{
		GlyphClass:    classdef.Table{5: gdef.GlyphClassMark, 6: gdef.GlyphClassMark},
		MarkGlyphSets: []coverage.Set{{5: true}, {6: true}},
	}
	g := func(label string) glyph.ID { return rapid.SampledFrom(bases).Draw(t, label) }
	// gm: mostly a base glyph, sometimes a mark - marks are ordinary input
	// glyphs and ligature components for a lookup whose flags keep them
	gm := func(label string) glyph.ID {
		return rapid.SampledFrom([]glyph.ID{1, 2, 3, 1, 2, 3, 1, 2, 3, 5, 6}).Draw(t, label)
	}
	type fl struct {
		f   gtab.LookupFlags
		mfs uint16
	}
	flags := func(label string) fl {
		return rapid.SampledFrom([]fl{{0, 0}, {0, 0}, {gtab.IgnoreMarks, 0}, {gtab.UseMarkFilteringSet, 0}, {gtab.UseMarkFilteringSet, 1}}).Draw(t, label)
	}
	meta := func(tp uint16, label string) *gtab.LookupMetaInfo {
		x := flags(label)
		return &gtab.LookupMetaInfo{LookupType: tp, LookupFlags: x.f, MarkFilteringSet: x.mfs}
	}
	res := &Nested{Gdef: gd, Alphabet: alpha}
	nCtx := rapid.IntRange(2, 3).Draw(t, "nContexts")
	// lookahead focus (a fifth of the cases): the innermost context is a
	// chaining context with further input glyphs and a lookahead, the context
	// before it inherits exactly its input and calls it at the first glyph -
	// the callee's lookahead then lies just behind the caller's match window
	focus := !opt.Wild && rapid.IntRange(0, 4).Draw(t, "lookaheadFocus") == 0
	// merge focus (an eighth of the other cases): the ligature starts at a
	// mark, the innermost context P (no skipping) has that mark and the
	// ligature's second component as its second and third input glyph and
	// applies the ligature at the mark, and the context G before it
	// skips the mark, has the ligature's second component as its second input
	// glyph, calls P first and has further actions pending meanwhile - the
	// glyphs the ligature merges begin outside G's input sequence and end
	// inside it
	mergeFocus := !focus && rapid.IntRange(0, 7).Draw(t, "mergeFocus") == 0
	res.NumCtx = nCtx
	res.Focus = focus
	res.MergeFocus = mergeFocus
	const nLeaf = 3
	total := nCtx + nLeaf
	res.Coherent = rapid.IntRange(0, 3).Draw(t, "coherent") != 0 || focus
	ll := make(gtab.LookupList, total)
	firstOf := make([]glyph.ID, total)
	patOf := make([][]glyph.ID, total) // first glyph and further input glyphs
	aheadOf := make([]int, total)      // number of lookahead glyphs (chaining contexts)

	// leaves: an expansion, a single substitution, a ligature
	expFrom := g("expFrom")
	exp := make([]glyph.ID, rapid.IntRange(2, 3).Draw(t, "expLen"))
	for k := range exp {
		exp[k] = rapid.SampledFrom(alpha).Draw(t, "expGlyph")
	}
	ll[nCtx] = &gtab.LookupTable{Meta: meta(2, "expFlags"),
		Subtables: []gtab.Subtable{&gtab.Gsub2_1{Cov: CovTable([]glyph.ID{expFrom}), Repl: [][]glyph.ID{exp}}}}
	firstOf[nCtx] = expFrom
	patOf[nCtx] = []glyph.ID{expFrom}
	sFrom, sTo := g("subFrom"), g("subTo")
	ll[nCtx+1] = &gtab.LookupTable{Meta: meta(1, "subFlags"),
		Subtables: []gtab.Subtable{&gtab.Gsub1_2{Cov: CovTable([]glyph.ID{sFrom}), SubstituteGlyphIDs: []glyph.ID{sTo}}}}
	firstOf[nCtx+1] = sFrom
	patOf[nCtx+1] = []glyph.ID{sFrom}
	lFirst := g("ligFirst")
	if rapid.IntRange(0, 5).Draw(t, "ligFirstMark") == 0 {
		// a ligature that starts at a mark: for an outer rule whose flags skip
		// that mark the merged glyphs begin outside its input sequence and
		// may end inside it
		lFirst = rapid.SampledFrom([]glyph.ID{5, 6}).Draw(t, "ligFirstMarkGlyph")
	}
	if mergeFocus {
		lFirst = rapid.SampledFrom([]glyph.ID{5, 6}).Draw(t, "mergeFocusMark")
	}
	ligIn := make([]glyph.ID, rapid.SampledFrom([]int{1, 2, 2}).Draw(t, "ligLen"))
	for k := range ligIn {
		ligIn[k] = gm("ligIn")
	}
	if mergeFocus {
		ligIn = []glyph.ID{g("mergeFocusSecond")}
	}
	if rapid.IntRange(0, 3).Draw(t, "ligMarkLast") == 0 {
		// base + mark ligatures: a caller that ignores the mark has it
		// behind its last input glyph
		ligIn[len(ligIn)-1] = rapid.SampledFrom([]glyph.ID{5, 6}).Draw(t, "ligMark")
	}
	// the ligature glyph is often the first component again, so that what
	// applied to the first component still applies to the ligature
	ligOut := g("ligOut")
	if rapid.IntRange(0, 2).Draw(t, "ligOutSame") == 0 {
		ligOut = lFirst
	}
	ligMeta := meta(4, "ligFlags")
	if mergeFocus {
		ligMeta.LookupFlags, ligMeta.MarkFilteringSet = 0, 0
	}
	ll[nCtx+2] = &gtab.LookupTable{Meta: ligMeta,
		Subtables: []gtab.Subtable{&gtab.Gsub4_1{Cov: CovTable([]glyph.ID{lFirst}), Repl: [][]gtab.Ligature{{{In: ligIn, Out: ligOut}}}}}}
	firstOf[nCtx+2] = lFirst
	patOf[nCtx+2] = append([]glyph.ID{lFirst}, ligIn...)
	res.Patterns = append(res.Patterns, append([]glyph.ID{lFirst}, ligIn...))

	// contexts, innermost first, so that the first glyphs of the lookups an
	// action may call are known
	for i := nCtx - 1; i >= 0; i-- {
		ctxFlags := flags("ctxFlags")
		mergeP := mergeFocus && i == nCtx-1
		mergeG := mergeFocus && i == nCtx-2
		if mergeP {
			ctxFlags = fl{0, 0}
		} else if mergeG {
			// a flag word that skips the ligature's first glyph (set k keeps mark 5+k only)
			ctxFlags = rapid.SampledFrom([]fl{{gtab.IgnoreMarks, 0}, {gtab.UseMarkFilteringSet, uint16(6 - lFirst)}}).Draw(t, "mergeFocusFlags")
		}
		// kept tells whether the context's own flags let it see glyph x
		kept := func(x glyph.ID) bool {
			if x != 5 && x != 6 {
				return true
			}
			switch {
			case ctxFlags.f&gtab.IgnoreMarks != 0:
				return false
			case ctxFlags.f&gtab.UseMarkFilteringSet != 0:
				return gd.MarkGlyphSets[ctxFlags.mfs][x]
			}
			return true
		}
		first := g("ctxFirst")
		nIn := rapid.SampledFrom([]int{0, 1, 1, 2, 2, 3}).Draw(t, "ctxInputLen")
		if focus && i == nCtx-1 && nIn == 0 {
			nIn = 1
		}
		input := make([]glyph.ID, nIn)
		for k := range input {
			input[k] = gm("ctxInput")
		}
		if mergeP {
			// (the components of the ligature must lie inside P's window)
			nIn, input = 2, []glyph.ID{lFirst, ligIn[0]}
		} else if mergeG {
			first = firstOf[nCtx-1]
			input = []glyph.ID{ligIn[0]}
			if rapid.Bool().Draw(t, "mergeFocusTail") {
				input = append(input, g("mergeFocusTailGlyph"))
			}
			nIn = len(input)
		}
		inherit := -1
		focusCaller := focus && i == nCtx-2
		if focusCaller || (!mergeP && !mergeG && res.Coherent && rapid.IntRange(0, 2).Draw(t, "inheritPattern") != 0) {
			// the input sequence is the pattern of a later lookup, with marks
			// drawn into the gaps and possibly a tail: whether the callee
			// matches inside the caller's window is then a question of the
			// two flag words only
			cand := []int{total - 1} // the ligature, and any later lookup
			for j := i + 1; j < total; j++ {
				cand = append(cand, j)
				if aheadOf[j] > 0 && len(patOf[j]) > 1 {
					// a chaining context whose lookahead will lie behind the
					// window of a caller that inherits its input: preferred
					cand = append(cand, j, j)
				}
			}
			inherit = rapid.SampledFrom(cand).Draw(t, "inheritFrom")
			if focusCaller {
				inherit = nCtx - 1
			}
			var seq []glyph.ID
			for k, x := range patOf[inherit] {
				if k > 0 && rapid.IntRange(0, 2).Draw(t, "inheritGap") == 0 {
					seq = append(seq, rapid.SampledFrom([]glyph.ID{5, 6}).Draw(t, "inheritGapMark"))
				}
				seq = append(seq, x)
			}
			// a glyph the context's own flags skip can never be matched as
			// input: what the callee takes of them lies between (or behind)
			// the caller's input glyphs
			seq = slices.DeleteFunc(seq, func(x glyph.ID) bool { return !kept(x) })
			// (the lookahead of an inherited chaining context lies behind the
			// caller's window unless a tail covers it: mostly no tail then)
			exact := aheadOf[inherit] > 0 && (focusCaller || rapid.IntRange(0, 3).Draw(t, "inheritExactWindow") != 0)
			for !exact && len(seq) < 5 && rapid.IntRange(0, 2).Draw(t, "inheritTail") == 0 {
				seq = append(seq, gm("inheritTailGlyph"))
			}
			if len(seq) > 5 {
				seq = seq[:5]
			}
			if len(seq) > 5 {
				seq = seq[:5]
			}
			if !exact && len(seq) > 1 && rapid.IntRange(0, 3).Draw(t, "inheritPrefix") == 0 {
				// only a prefix: the callee reaches beyond the caller's input
				seq = seq[:rapid.IntRange(1, len(seq)-1).Draw(t, "inheritPrefixLen")]
			}
			if len(seq) > 0 && res.Gdef.GlyphClass[seq[0]] != gdef.GlyphClassMark {
				first, input, nIn = seq[0], seq[1:], len(seq)-1
				res.Inherit = true
			} else {
				inherit = -1
			}
		}
		firstOf[i] = first
		patOf[i] = append([]glyph.ID{first}, input...)
		at := func(idx int) (glyph.ID, bool) {
			switch {
			case idx == 0:
				return first, true
			case idx <= nIn:
				return input[idx-1], true
			}
			return 0, false
		}
		nAct := rapid.IntRange(1, 4).Draw(t, "nActions")
		if opt.Wild && rapid.IntRange(0, 4).Draw(t, "manyActions") == 0 {
			nAct = rapid.IntRange(60, 90).Draw(t, "nActionsMany")
		}
		if mergeG && nAct < 2 {
			nAct = 2
		}
		var actions []gtab.SeqLookup
		for k := 0; k < nAct; k++ {
			lo, hi, hiSeq := i+1, total-1, nIn
			if rapid.IntRange(0, 3).Draw(t, "seqIdxGrown") == 0 {
				// positions that exist only after an earlier action of the rule
				// has inserted glyphs (an index beyond the sequence at the time
				// the action runs does nothing)
				hiSeq = nIn + 2
			}
			if opt.Wild {
				lo, hi, hiSeq = 0, total, nIn+2 // self-referential / earlier lookups, out-of-range positions and lookups
			}
			idx := rapid.IntRange(0, hiSeq).Draw(t, "seqIdx")
			li := -1
			if k == 0 && inherit >= 0 && (focusCaller || rapid.IntRange(0, 3).Draw(t, "callInherited") != 0) {
				idx, li = 0, inherit
			}
			if gl, ok := at(idx); ok && res.Coherent && rapid.IntRange(0, 3).Draw(t, "fitting") != 0 {
				var cand []int
				for j := lo; j <= hi && j < total; j++ {
					if firstOf[j] == gl && (j > i || opt.Wild) {
						cand = append(cand, j)
					}
				}
				if len(cand) > 0 {
					li = rapid.SampledFrom(cand).Draw(t, "actLookupFitting")
				}
			}
			if li < 0 {
				li = rapid.IntRange(lo, hi).Draw(t, "actLookup")
			}
			if k == 0 && mergeP {
				idx, li = 1, nCtx+2
			} else if k == 0 && mergeG {
				idx, li = 0, nCtx-1
			}
			actions = append(actions, gtab.SeqLookup{SequenceIndex: uint16(idx), LookupListIndex: gtab.LookupIndex(li)})
		}
		sets := []coverage.Set{{first: true}}
		for _, x := range input {
			sets = append(sets, coverage.Set{x: true})
		}
		var st gtab.Subtable
		tp := uint16(5)
		// class tables for the class-based formats: base glyph g has class g
		// (the marks 5 and 6 have classes 4 and 5)
		classes := classdef.Table{1: 1, 2: 2, 3: 3, 5: 4, 6: 5}
		cls := func(gg []glyph.ID) []uint16 {
			res := make([]uint16, len(gg))
			for k, x := range gg {
				res[k] = classes[x]
			}
			return res
		}
		var back, ahead []glyph.ID
		format := rapid.SampledFrom([]int{0, 1, 2, 3, 3, 4, 4, 5, 5, 5}).Draw(t, "ctxFormat")
		focusCallee := focus && i == nCtx-1
		if focusCallee {
			format = rapid.SampledFrom([]int{3, 4, 5}).Draw(t, "ctxFormatChained")
		}
		if format >= 3 {
			for k := rapid.IntRange(0, 1).Draw(t, "nBacktrack"); k > 0; k-- {
				back = append(back, g("backtrack"))
			}
			for k := rapid.IntRange(0, 2).Draw(t, "nLookahead"); k > 0; k-- {
				ahead = append(ahead, g("lookahead"))
			}
			if focusCallee && len(ahead) == 0 {
				ahead = append(ahead, g("lookaheadFocus"))
			}
		}
		// an "ignore" rule: a second rule of the same rule set without
		// actions, standing before or behind the rule proper (the first
		// matching rule wins, and a match without actions still consumes its
		// input)
		var ignIn, ignBack, ignAhead []glyph.ID
		ignore, ignoreFirst := false, false
		if (format == 0 || format == 1 || format == 3 || format == 4) && rapid.IntRange(0, 2).Draw(t, "ignoreRule") == 0 {
			ignore = true
			ignoreFirst = rapid.IntRange(0, 2).Draw(t, "ignoreRuleFirst") != 0
			// in coherent mode the glyphs of the ignore rule are mostly the
			// first glyph of the rule set, so that the positions behind a
			// match are positions where the rule set applies again
			gi := func(label string) glyph.ID {
				if res.Coherent && rapid.IntRange(0, 2).Draw(t, label+"Same") != 0 {
					return first
				}
				return gm(label)
			}
			for k := rapid.IntRange(0, 3).Draw(t, "nIgnoreInput"); k > 0; k-- {
				ignIn = append(ignIn, gi("ignoreInput"))
			}
			if format >= 3 {
				for k := rapid.IntRange(0, 1).Draw(t, "nIgnoreBacktrack"); k > 0; k-- {
					ignBack = append(ignBack, g("ignoreBacktrack"))
				}
				for k := rapid.IntRange(0, 2).Draw(t, "nIgnoreLookahead"); k > 0; k-- {
					ignAhead = append(ignAhead, gi("ignoreLookahead"))
				}
			}
			res.Ignore = true
			res.Patterns = append(res.Patterns, append(append(append(append([]glyph.ID{}, ignBack...), first), ignIn...), ignAhead...))
		}
		res.Patterns = append(res.Patterns, append(append(append(append([]glyph.ID{}, back...), first), input...), ahead...))
		aheadOf[i] = len(ahead)
		switch format {
		case 0:
			rr := []*gtab.SeqRule{{Input: input, Actions: actions}}
			if ignore && ignoreFirst {
				rr = []*gtab.SeqRule{{Input: ignIn}, rr[0]}
			} else if ignore {
				rr = append(rr, &gtab.SeqRule{Input: ignIn})
			}
			st = &gtab.SeqContext1{Cov: CovTable([]glyph.ID{first}), Rules: [][]*gtab.SeqRule{rr}}
		case 1:
			rules := make([][]*gtab.ClassSeqRule, 4)
			rr := []*gtab.ClassSeqRule{{Input: cls(input), Actions: actions}}
			if ignore && ignoreFirst {
				rr = []*gtab.ClassSeqRule{{Input: cls(ignIn)}, rr[0]}
			} else if ignore {
				rr = append(rr, &gtab.ClassSeqRule{Input: cls(ignIn)})
			}
			rules[first] = rr
			st = &gtab.SeqContext2{Cov: CovTable([]glyph.ID{first}), Input: classes, Rules: rules}
		case 2:
			st = &gtab.SeqContext3{Input: sets, Actions: actions}
		case 3:
			tp = 6
			rr := []*gtab.ChainedSeqRule{{Backtrack: back, Input: input, Lookahead: ahead, Actions: actions}}
			ign := &gtab.ChainedSeqRule{Backtrack: ignBack, Input: ignIn, Lookahead: ignAhead}
			if ignore && ignoreFirst {
				rr = []*gtab.ChainedSeqRule{ign, rr[0]}
			} else if ignore {
				rr = append(rr, ign)
			}
			st = &gtab.ChainedSeqContext1{Cov: CovTable([]glyph.ID{first}), Rules: [][]*gtab.ChainedSeqRule{rr}}
		case 4:
			tp = 6
			rules := make([][]*gtab.ChainedClassSeqRule, 4)
			rr := []*gtab.ChainedClassSeqRule{{Backtrack: cls(back), Input: cls(input), Lookahead: cls(ahead), Actions: actions}}
			ign := &gtab.ChainedClassSeqRule{Backtrack: cls(ignBack), Input: cls(ignIn), Lookahead: cls(ignAhead)}
			if ignore && ignoreFirst {
				rr = []*gtab.ChainedClassSeqRule{ign, rr[0]}
			} else if ignore {
				rr = append(rr, ign)
			}
			rules[first] = rr
			st = &gtab.ChainedSeqContext2{Cov: CovTable([]glyph.ID{first}), Backtrack: classes, Input: classes, Lookahead: classes, Rules: rules}
		default:
			// backtrack and lookahead reach beyond the glyphs of the rule's own
			// input - when the rule runs as a nested lookup, beyond the match
			// window of the rule that called it
			tp = 6
			ch := &gtab.ChainedSeqContext3{Input: sets, Actions: actions}
			for _, x := range back {
				ch.Backtrack = append(ch.Backtrack, coverage.Set{x: true})
			}
			for _, x := range ahead {
				set := coverage.Set{x: true}
				if rapid.IntRange(0, 2).Draw(t, "lookaheadWide") == 0 {
					for _, y := range bases {
						set[y] = true
					}
				}
				ch.Lookahead = append(ch.Lookahead, set)
			}
			st = ch
		}
		ll[i] = &gtab.LookupTable{Meta: &gtab.LookupMetaInfo{LookupType: tp, LookupFlags: ctxFlags.f, MarkFilteringSet: ctxFlags.mfs}, Subtables: []gtab.Subtable{st}}
	}
	res.List = ll
	return res
}
