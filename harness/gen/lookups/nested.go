package lookups

import (
	"pgregory.net/rapid"

	"seehuhn.de/go/sfnt/glyph"
	"seehuhn.de/go/sfnt/opentype/classdef"
	"seehuhn.de/go/sfnt/opentype/coverage"
	"seehuhn.de/go/sfnt/opentype/gdef"
	"seehuhn.de/go/sfnt/opentype/gtab"
)

// NestedOptions parametrises GenNested.
type NestedOptions struct {
	// Wild permits actions that refer to the context itself or to earlier
	// lookups, sequence indices beyond the input, lookup indices beyond the
	// list, and rules with 60-90 actions (C07).
	Wild bool
}

// Nested is a lookup list made of 2-3 contextual lookups (GSUB 5.1, 5.3, 6.3)
// whose actions call later contexts and three leaves (a multiple
// substitution, a single substitution, a ligature), with its GDEF table.
type Nested struct {
	List     gtab.LookupList
	Gdef     *gdef.Table
	Alphabet []glyph.ID // bases 1..3, marks 5 and 6
	NumCtx   int
	Coherent bool
}

// GenNested draws a nested lookup list.  The alphabet is small (three base
// glyphs, two marks in different mark glyph sets) and, in coherent mode, an
// action prefers a lookup whose first glyph is the input glyph it is applied
// to, so that chains of nested matches form often; flags are drawn from
// none / ignore marks / mark filtering set 0 / mark filtering set 1, so that
// two lookups with the same flag word and different sets are common.
func GenNested(t *rapid.T, opt NestedOptions) *Nested {
	bases := []glyph.ID{1, 2, 3}
	alpha := []glyph.ID{1, 2, 3, 5, 6}
	gd := &gdef.Table{
		GlyphClass:    classdef.Table{5: gdef.GlyphClassMark, 6: gdef.GlyphClassMark},
		MarkGlyphSets: []coverage.Set{{5: true}, {6: true}},
	}
	g := func(label string) glyph.ID { return rapid.SampledFrom(bases).Draw(t, label) }
	type fl struct {
		f   gtab.LookupFlags
		mfs uint16
	}
	flags := func(label string) fl {
		return rapid.SampledFrom([]fl{{0, 0}, {0, 0}, {gtab.IgnoreMarks, 0}, {gtab.UseMarkFilteringSet, 0}, {gtab.UseMarkFilteringSet, 1}}).Draw(t, label)
	}
	meta := func(tp uint16, label string) *gtab.LookupMetaInfo {
		x := flags(label)
		return &gtab.LookupMetaInfo{LookupType: tp, LookupFlags: x.f, MarkFilteringSet: x.mfs}
	}
	res := &Nested{Gdef: gd, Alphabet: alpha}
	nCtx := rapid.IntRange(2, 3).Draw(t, "nContexts")
	res.NumCtx = nCtx
	const nLeaf = 3
	total := nCtx + nLeaf
	res.Coherent = rapid.IntRange(0, 3).Draw(t, "coherent") != 0
	ll := make(gtab.LookupList, total)
	firstOf := make([]glyph.ID, total)

	// leaves: an expansion, a single substitution, a ligature
	expFrom := g("expFrom")
	exp := make([]glyph.ID, rapid.IntRange(2, 3).Draw(t, "expLen"))
	for k := range exp {
		exp[k] = rapid.SampledFrom(alpha).Draw(t, "expGlyph")
	}
	ll[nCtx] = &gtab.LookupTable{Meta: meta(2, "expFlags"),
		Subtables: []gtab.Subtable{&gtab.Gsub2_1{Cov: CovTable([]glyph.ID{expFrom}), Repl: [][]glyph.ID{exp}}}}
	firstOf[nCtx] = expFrom
	sFrom, sTo := g("subFrom"), g("subTo")
	ll[nCtx+1] = &gtab.LookupTable{Meta: meta(1, "subFlags"),
		Subtables: []gtab.Subtable{&gtab.Gsub1_2{Cov: CovTable([]glyph.ID{sFrom}), SubstituteGlyphIDs: []glyph.ID{sTo}}}}
	firstOf[nCtx+1] = sFrom
	lFirst := g("ligFirst")
	ligIn := make([]glyph.ID, rapid.IntRange(1, 2).Draw(t, "ligLen"))
	for k := range ligIn {
		ligIn[k] = g("ligIn")
	}
	ll[nCtx+2] = &gtab.LookupTable{Meta: meta(4, "ligFlags"),
		Subtables: []gtab.Subtable{&gtab.Gsub4_1{Cov: CovTable([]glyph.ID{lFirst}), Repl: [][]gtab.Ligature{{{In: ligIn, Out: g("ligOut")}}}}}}
	firstOf[nCtx+2] = lFirst

	// contexts, innermost first, so that the first glyphs of the lookups an
	// action may call are known
	for i := nCtx - 1; i >= 0; i-- {
		first := g("ctxFirst")
		firstOf[i] = first
		nIn := rapid.IntRange(0, 2).Draw(t, "ctxInputLen")
		input := make([]glyph.ID, nIn)
		for k := range input {
			input[k] = g("ctxInput")
		}
		at := func(idx int) (glyph.ID, bool) {
			switch {
			case idx == 0:
				return first, true
			case idx <= nIn:
				return input[idx-1], true
			}
			return 0, false
		}
		nAct := rapid.IntRange(1, 4).Draw(t, "nActions")
		if opt.Wild && rapid.IntRange(0, 4).Draw(t, "manyActions") == 0 {
			nAct = rapid.IntRange(60, 90).Draw(t, "nActionsMany")
		}
		var actions []gtab.SeqLookup
		for k := 0; k < nAct; k++ {
			lo, hi, hiSeq := i+1, total-1, nIn
			if rapid.IntRange(0, 3).Draw(t, "seqIdxGrown") == 0 {
				// positions that exist only after an earlier action of the rule
				// has inserted glyphs (an index beyond the sequence at the time
				// the action runs does nothing)
				hiSeq = nIn + 2
			}
			if opt.Wild {
				lo, hi, hiSeq = 0, total, nIn+2 // self-referential / earlier lookups, out-of-range positions and lookups
			}
			idx := rapid.IntRange(0, hiSeq).Draw(t, "seqIdx")
			li := -1
			if gl, ok := at(idx); ok && res.Coherent && rapid.IntRange(0, 3).Draw(t, "fitting") != 0 {
				var cand []int
				for j := lo; j <= hi && j < total; j++ {
					if firstOf[j] == gl && (j > i || opt.Wild) {
						cand = append(cand, j)
					}
				}
				if len(cand) > 0 {
					li = rapid.SampledFrom(cand).Draw(t, "actLookupFitting")
				}
			}
			if li < 0 {
				li = rapid.IntRange(lo, hi).Draw(t, "actLookup")
			}
			actions = append(actions, gtab.SeqLookup{SequenceIndex: uint16(idx), LookupListIndex: gtab.LookupIndex(li)})
		}
		sets := []coverage.Set{{first: true}}
		for _, x := range input {
			sets = append(sets, coverage.Set{x: true})
		}
		var st gtab.Subtable
		tp := uint16(5)
		// class tables for the class-based formats: base glyph g has class g
		classes := classdef.Table{1: 1, 2: 2, 3: 3}
		cls := func(gg []glyph.ID) []uint16 {
			res := make([]uint16, len(gg))
			for k, x := range gg {
				res[k] = uint16(x)
			}
			return res
		}
		var back, ahead []glyph.ID
		format := rapid.IntRange(0, 7).Draw(t, "ctxFormat")
		if format >= 3 {
			for k := rapid.IntRange(0, 1).Draw(t, "nBacktrack"); k > 0; k-- {
				back = append(back, g("backtrack"))
			}
			for k := rapid.IntRange(0, 2).Draw(t, "nLookahead"); k > 0; k-- {
				ahead = append(ahead, g("lookahead"))
			}
		}
		switch format {
		case 0:
			st = &gtab.SeqContext1{Cov: CovTable([]glyph.ID{first}), Rules: [][]*gtab.SeqRule{{{Input: input, Actions: actions}}}}
		case 1:
			rules := make([][]*gtab.ClassSeqRule, 4)
			rules[first] = []*gtab.ClassSeqRule{{Input: cls(input), Actions: actions}}
			st = &gtab.SeqContext2{Cov: CovTable([]glyph.ID{first}), Input: classes, Rules: rules}
		case 2:
			st = &gtab.SeqContext3{Input: sets, Actions: actions}
		case 3:
			tp = 6
			st = &gtab.ChainedSeqContext1{Cov: CovTable([]glyph.ID{first}), Rules: [][]*gtab.ChainedSeqRule{{{Backtrack: back, Input: input, Lookahead: ahead, Actions: actions}}}}
		case 4:
			tp = 6
			rules := make([][]*gtab.ChainedClassSeqRule, 4)
			rules[first] = []*gtab.ChainedClassSeqRule{{Backtrack: cls(back), Input: cls(input), Lookahead: cls(ahead), Actions: actions}}
			st = &gtab.ChainedSeqContext2{Cov: CovTable([]glyph.ID{first}), Backtrack: classes, Input: classes, Lookahead: classes, Rules: rules}
		default:
			// backtrack and lookahead reach beyond the glyphs of the rule's own
			// input - when the rule runs as a nested lookup, beyond the match
			// window of the rule that called it
			tp = 6
			ch := &gtab.ChainedSeqContext3{Input: sets, Actions: actions}
			for _, x := range back {
				ch.Backtrack = append(ch.Backtrack, coverage.Set{x: true})
			}
			for _, x := range ahead {
				set := coverage.Set{x: true}
				if rapid.IntRange(0, 2).Draw(t, "lookaheadWide") == 0 {
					for _, y := range bases {
						set[y] = true
					}
				}
				ch.Lookahead = append(ch.Lookahead, set)
			}
			st = ch
		}
		ll[i] = &gtab.LookupTable{Meta: meta(tp, "ctxFlags"), Subtables: []gtab.Subtable{st}}
	}
	res.List = ll
	return res
}
