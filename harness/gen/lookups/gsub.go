package lookups

import (
	"pgregory.net/rapid"

	"seehuhn.de/go/sfnt/glyph"
	"seehuhn.de/go/sfnt/opentype/coverage"
	"seehuhn.de/go/sfnt/opentype/gtab"
)

func (c *gctx) gsub1_1() gtab.Subtable {
	cov := c.covSet("g11cov")
	var delta glyph.ID
	a := c.env.Alphabet
	switch rapid.IntRange(0, 3).Draw(c.t, "g11deltaKind") {
	case 0: // maps some alphabet glyph onto another alphabet glyph
		i := rapid.IntRange(0, len(a)-1).Draw(c.t, "g11from")
		j := rapid.IntRange(0, len(a)-1).Draw(c.t, "g11to")
		delta = a[j] - a[i]
	case 1:
		delta = glyph.ID(rapid.SampledFrom([]int{0, 1, 0xFFFF, 0x8000, 0x7FFF}).Draw(c.t, "g11deltaB"))
	default:
		delta = glyph.ID(rapid.IntRange(0, 0xFFFF).Draw(c.t, "g11delta"))
	}
	return &gtab.Gsub1_1{Cov: cov, Delta: delta}
}

func (c *gctx) gsub1_2() gtab.Subtable {
	cov, gg := c.covTable("g12cov")
	sub := make([]glyph.ID, len(gg))
	for i := range sub {
		sub[i] = c.glyph("g12sub")
	}
	if len(sub) == 0 && c.chance("g12nil", 1, 2) {
		sub = nil
	}
	return &gtab.Gsub1_2{Cov: cov, SubstituteGlyphIDs: sub}
}

func (c *gctx) gsub2_1() gtab.Subtable {
	cov, gg := c.covTable("g21cov")
	repl := make([][]glyph.ID, len(gg))
	for i := range repl {
		if c.wild() && c.chance("g21empty", 1, 6) {
			c.label("repl:empty")
			repl[i] = c.glyphs("g21repl", 0, 0)
			continue
		}
		repl[i] = c.glyphs("g21repl", 1, 4)
	}
	return &gtab.Gsub2_1{Cov: cov, Repl: repl}
}

func (c *gctx) gsub3_1() gtab.Subtable {
	cov, gg := c.covTable("g31cov")
	alt := make([][]glyph.ID, len(gg))
	for i := range alt {
		min := 1
		if c.wild() && c.chance("g31empty", 1, 6) {
			min = 0
			c.label("alternates:empty")
		}
		alt[i] = c.glyphs("g31alt", min, 3)
	}
	return &gtab.Gsub3_1{Cov: cov, Alternates: alt}
}

// gsub4_1 builds ligature sets whose members share prefixes: each further
// ligature of a set is, with probability 1/2, a prefix or an extension of
// an earlier one, so that the order of the entries matters.
func (c *gctx) gsub4_1() gtab.Subtable {
	t := c.t
	cov, gg := c.covTable("g41cov")
	repl := make([][]gtab.Ligature, len(gg))
	for i := range repl {
		n := rapid.IntRange(1, 4).Draw(t, "g41nLig")
		if c.wild() && c.chance("g41emptySet", 1, 10) {
			n = 0
			c.label("ligset:empty")
		}
		var set []gtab.Ligature
		for j := 0; j < n; j++ {
			var in []glyph.ID
			if j > 0 && c.chance("g41share", 1, 2) {
				base := set[rapid.IntRange(0, j-1).Draw(t, "g41base")].In
				switch rapid.IntRange(0, 2).Draw(t, "g41shareKind") {
				case 0: // proper prefix
					if len(base) > 0 {
						k := rapid.IntRange(0, len(base)-1).Draw(t, "g41prefixLen")
						in = append([]glyph.ID{}, base[:k]...)
					}
				case 1: // extension
					in = append(append([]glyph.ID{}, base...), c.glyph("g41ext"))
				default: // same input, different output
					in = append([]glyph.ID{}, base...)
				}
				c.label("ligset:shared-prefix")
			} else {
				in = c.glyphs("g41in", 0, 3)
			}
			if len(in) == 0 && c.chance("g41inNil", 1, 2) {
				in = nil
			}
			set = append(set, gtab.Ligature{In: in, Out: c.glyph("g41out")})
		}
		repl[i] = set
	}
	return &gtab.Gsub4_1{Cov: cov, Repl: repl}
}

func (c *gctx) covTables(label string, min, max int) []coverage.Table {
	n := rapid.IntRange(min, max).Draw(c.t, label+"N")
	if n == 0 {
		return nil
	}
	res := make([]coverage.Table, n)
	for i := range res {
		res[i], _ = c.covTable(label)
	}
	return res
}

func (c *gctx) gsub8_1() gtab.Subtable {
	cov, gg := c.covTable("g81cov")
	sub := make([]glyph.ID, len(gg))
	for i := range sub {
		sub[i] = c.glyph("g81sub")
	}
	res := &gtab.Gsub8_1{
		Input:              cov,
		Backtrack:          c.covTables("g81back", 0, 2),
		Lookahead:          c.covTables("g81ahead", 0, 2),
		SubstituteGlyphIDs: sub,
	}
	if len(res.Backtrack) > 0 {
		c.label("ctx:backtrack")
	}
	if len(res.Lookahead) > 0 {
		c.label("ctx:lookahead")
	}
	return res
}
