package lookups

import (
	"fmt"
	"sort"

	"pgregory.net/rapid"

	"seehuhn.de/go/postscript/funit"

	"seehuhn.de/go/sfnt/glyph"
	"seehuhn.de/go/sfnt/opentype/anchor"
	"seehuhn.de/go/sfnt/opentype/classdef"
	"seehuhn.de/go/sfnt/opentype/coverage"
	"seehuhn.de/go/sfnt/opentype/gtab"
)

// Mode selects how indices and optional parts are drawn (see package comment).
type Mode int

const (
	Defined Mode = iota
	Wild
)

func (m Mode) String() string {
	if m == Wild {
		return "wild"
	}
	return "defined"
}

// Format names a subtable format as 10*lookupType+subtableFormat, in the
// numbering of the table kind it is used with (GSUB 5.2 = 52, GPOS 7.2 = 72).
type Format uint16

// F builds a Format value.
func F(lookupType, format int) Format { return Format(10*lookupType + format) }

// Type returns the lookup type of the format.
func (f Format) Type() uint16 { return uint16(f) / 10 }

func (f Format) String() string { return fmt.Sprintf("%d.%d", uint16(f)/10, uint16(f)%10) }

var (
	gsubFormats = []Format{11, 12, 21, 31, 41, 51, 52, 53, 61, 62, 63, 81}
	gposFormats = []Format{11, 12, 21, 22, 31, 41, 61, 71, 72, 73, 81, 82, 83}
)

// AllFormats returns every subtable format of the given table kind that the
// library can encode (GPOS 5.1, whose encoder refuses, is not included; it is
// generated only if listed explicitly in Options.Allow).
func AllFormats(kind gtab.Type) []Format {
	if kind == gtab.TypeGpos {
		return append([]Format(nil), gposFormats...)
	}
	return append([]Format(nil), gsubFormats...)
}

// AllEncodableFormats is AllFormats plus GPOS 5.1 (mark-to-ligature
// attachment), which the library encodes and decodes but does not apply.
func AllEncodableFormats(kind gtab.Type) []Format {
	res := AllFormats(kind)
	if kind == gtab.TypeGpos {
		res = append(res, 51)
	}
	return res
}

// Size selects the size classes of the generated lookup list.
type Size int

const (
	// SizeSmall: subtables of a few bytes to a few hundred bytes (C06/C07).
	SizeSmall Size = iota
	// SizeMixed: mostly small; with probability ~1/3 one of the large
	// layouts of C08 (see big.go): single subtables of 30..130 KiB, several
	// large subtables in one lookup, several large lookups, up to 300
	// lookups, and subtables that exceed a 16-bit offset field on purpose.
	SizeMixed
	// SizeLarge: always one of the large layouts.
	SizeLarge
)

// Options parametrises GenLookups.
type Options struct {
	Kind       gtab.Type // gtab.TypeGsub (default) or gtab.TypeGpos
	Mode       Mode
	MinLookups int // default 1 (0 is used only if MaxLookups == 0 or MinLookups < 0)
	MaxLookups int // default 6
	// MaxSubtables bounds the subtables per lookup (default 3).
	MaxSubtables int
	// Allow lists the permitted subtable formats (nil: AllFormats(Kind)).
	Allow []Format
	Size  Size
	// Skip, if non-nil, is asked before an overflow class (a subtable or
	// table layout exceeding a 16-bit offset field on purpose) is generated;
	// the argument is the site name reported in Result.Overflow.  Returning
	// true excludes the class by construction.
	Skip func(site string) bool
	// Unimplemented permits value records with YAdvance and device offsets,
	// which the shaping code refuses (panic "not implemented"); encoding
	// and decoding support them.
	Unimplemented bool
	// EmptyLookups permits lookups without subtables (always on in Wild mode).
	EmptyLookups bool
}

func (o Options) withDefaults() Options {
	if o.Kind == 0 {
		o.Kind = gtab.TypeGsub
	}
	if o.MaxLookups == 0 && o.MinLookups == 0 {
		o.MinLookups, o.MaxLookups = 1, 6
	}
	if o.MinLookups < 0 {
		o.MinLookups = 0
	}
	if o.MaxLookups < o.MinLookups {
		o.MaxLookups = o.MinLookups
	}
	if o.MaxSubtables == 0 {
		o.MaxSubtables = 3
	}
	if o.Allow == nil {
		o.Allow = AllFormats(o.Kind)
	}
	return o
}

// Result is a generated lookup list with a description of what it contains.
type Result struct {
	List gtab.LookupList
	// Classes are labels for the evidence counters ("fmt:GSUB5.2",
	// "flag:markset", "big:gsub1_2", "actions:many", ...), sorted, unique.
	Classes []string
	// Overflow lists the 16-bit offset sites inside subtables that the case
	// exceeds on purpose; such a value is not representable in the binary
	// format (empty: every offset of every subtable fits when the parts are
	// laid out in specification order, and the lookup list is representable,
	// if need be with extension subtables).
	Overflow []string
	// Sites lists every site name for which Options.Skip was consulted and
	// which the case contains: the elements of Overflow plus
	// SiteSubtableOffset / SiteLookupOffset for lists that need extension
	// subtables but are representable.
	Sites []string
	// Desc describes the parameters of the pattern-built (large) parts, so
	// that a log line reproduces them.
	Desc []string
}

// gctx carries the state of one generation.
type gctx struct {
	t       *rapid.T
	env     *Env
	opt     Options
	idx, n  int // index of the lookup being generated, total number of lookups
	classes map[string]bool
	// flags of the lookup generated before (see flags)
	prevFlags     gtab.LookupFlags
	prevMfs       uint16
	havePrevFlags bool
}

func (c *gctx) label(s string) { c.classes[s] = true }

func (c *gctx) wild() bool { return c.opt.Mode == Wild }

// chance returns true with probability num/den.
func (c *gctx) chance(label string, num, den int) bool {
	return rapid.IntRange(0, den-1).Draw(c.t, label) < num
}

// glyph draws one glyph: from the alphabet, in Wild mode occasionally not.
func (c *gctx) glyph(label string) glyph.ID {
	if c.wild() && c.chance(label+"Out", 1, 12) {
		return glyph.ID(rapid.IntRange(0, 0xFFFF).Draw(c.t, label+"Any"))
	}
	return rapid.SampledFrom(c.env.Alphabet).Draw(c.t, label)
}

func (c *gctx) glyphs(label string, min, max int) []glyph.ID {
	n := rapid.IntRange(min, max).Draw(c.t, label+"Len")
	if n == 0 {
		if c.chance(label+"Nil", 1, 2) {
			return nil
		}
		return []glyph.ID{}
	}
	res := make([]glyph.ID, n)
	for i := range res {
		res[i] = c.glyph(label)
	}
	return res
}

// subset draws a subset of the alphabet with at least min elements
// (min <= 1), in increasing order.
func (c *gctx) subset(label string, min int) []glyph.ID {
	a := c.env.Alphabet
	mask := rapid.IntRange(0, 1<<len(a)-1).Draw(c.t, label+"Mask")
	if mask == 0 && min > 0 {
		mask = 1 << rapid.IntRange(0, len(a)-1).Draw(c.t, label+"One")
	}
	if c.chance(label+"Thin", 1, 2) { // prefer small sets: drop about half
		m2 := rapid.IntRange(0, 1<<len(a)-1).Draw(c.t, label+"Mask2")
		if mask&m2 != 0 || min == 0 {
			mask &= m2
		}
	}
	var res []glyph.ID
	for i, g := range a {
		if mask&(1<<i) != 0 {
			res = append(res, g)
		}
	}
	if c.wild() && c.chance(label+"Extra", 1, 10) {
		g := glyph.ID(rapid.IntRange(0, 0xFFFF).Draw(c.t, label+"ExtraGid"))
		res = append(res, g)
		sort.Slice(res, func(i, j int) bool { return res[i] < res[j] })
		res = dedup(res)
	}
	return res
}

func dedup(gg []glyph.ID) []glyph.ID {
	out := gg[:0]
	for i, g := range gg {
		if i == 0 || g != gg[i-1] {
			out = append(out, g)
		}
	}
	return out
}

// minCov is 0 when empty coverage tables are permitted.
func (c *gctx) minCov() int {
	if c.wild() && c.chance("emptyCov", 1, 15) {
		c.label("cov:empty")
		return 0
	}
	return 1
}

// CovTable converts a sorted list of distinct glyphs to a coverage table.
func CovTable(gg []glyph.ID) coverage.Table {
	res := make(coverage.Table, len(gg))
	for i, g := range gg {
		res[g] = i
	}
	return res
}

// CovSet converts a list of glyphs to a coverage set.
func CovSet(gg []glyph.ID) coverage.Set {
	res := make(coverage.Set, len(gg))
	for _, g := range gg {
		res[g] = true
	}
	return res
}

func (c *gctx) covTable(label string) (coverage.Table, []glyph.ID) {
	gg := c.subset(label, c.minCov())
	return CovTable(gg), gg
}

func (c *gctx) covSet(label string) coverage.Set {
	return CovSet(c.subset(label, c.minCov()))
}

func (c *gctx) covSets(label string, min, max int) []coverage.Set {
	n := rapid.IntRange(min, max).Draw(c.t, label+"N")
	if n == 0 {
		return nil
	}
	res := make([]coverage.Set, n)
	for i := range res {
		res[i] = c.covSet(label)
	}
	return res
}

// classDef draws a class definition over the alphabet with class values
// 0..maxClass.
func (c *gctx) classDef(label string, maxClass int) classdef.Table {
	res := classdef.Table{}
	for _, g := range c.env.Alphabet {
		cls := rapid.IntRange(0, maxClass).Draw(c.t, label)
		if cls != 0 {
			res[g] = uint16(cls)
		}
	}
	if c.wild() && c.chance(label+"Extra", 1, 10) {
		g := glyph.ID(rapid.IntRange(0, 0xFFFF).Draw(c.t, label+"ExtraGid"))
		res[g] = uint16(rapid.IntRange(1, maxClass+1).Draw(c.t, label+"ExtraCls"))
	}
	return res
}

// classes draws a sequence of class values; Defined: below numClasses.
func (c *gctx) classSeq(label string, min, max, numClasses int) []uint16 {
	n := rapid.IntRange(min, max).Draw(c.t, label+"Len")
	if n == 0 {
		if c.chance(label+"Nil", 1, 2) {
			return nil
		}
		return []uint16{}
	}
	res := make([]uint16, n)
	for i := range res {
		if c.wild() && c.chance(label+"Out", 1, 10) {
			res[i] = uint16(rapid.IntRange(numClasses, 0xFFFF).Draw(c.t, label+"Any"))
			c.label("class:out-of-range")
		} else {
			res[i] = uint16(rapid.IntRange(0, numClasses-1).Draw(c.t, label))
		}
	}
	return res
}

// actions draws the nested lookup records of a rule whose input sequence
// (including the first glyph) has inputLen glyphs.
func (c *gctx) actions(label string, inputLen int) []gtab.SeqLookup {
	t := c.t
	if !c.wild() {
		later := c.n - 1 - c.idx
		if later <= 0 {
			return nil
		}
		k := rapid.SampledFrom([]int{0, 1, 1, 1, 2, 2, 3}).Draw(t, label+"N")
		if c.chance(label+"Many", 1, 40) {
			k = rapid.IntRange(4, 40).Draw(t, label+"NMany")
			c.label("actions:4-40")
		}
		if k == 0 {
			return nil
		}
		res := make([]gtab.SeqLookup, k)
		for i := range res {
			res[i].SequenceIndex = uint16(rapid.IntRange(0, inputLen-1).Draw(t, label+"Seq"))
			res[i].LookupListIndex = gtab.LookupIndex(c.idx + 1 + rapid.IntRange(0, later-1).Draw(t, label+"Lookup"))
		}
		c.label("actions:nested")
		return res
	}
	k := rapid.SampledFrom([]int{0, 1, 1, 2, 3}).Draw(t, label+"N")
	if c.chance(label+"Many", 1, 25) {
		k = rapid.IntRange(65, 200).Draw(t, label+"NMany")
		c.label("actions:65-200")
	}
	if k == 0 {
		if c.chance(label+"Nil", 1, 2) {
			return nil
		}
		return []gtab.SeqLookup{}
	}
	res := make([]gtab.SeqLookup, k)
	for i := range res {
		switch rapid.IntRange(0, 5).Draw(t, label+"SeqKind") {
		case 0:
			res[i].SequenceIndex = uint16(inputLen) // one past the end
			c.label("seqidx:out-of-range")
		case 1:
			res[i].SequenceIndex = uint16(rapid.SampledFrom([]int{0x7FFF, 0x8000, 0xFFFF, 200}).Draw(t, label+"SeqBig"))
			c.label("seqidx:out-of-range")
		default:
			res[i].SequenceIndex = uint16(rapid.IntRange(0, inputLen-1).Draw(t, label+"Seq"))
		}
		switch rapid.IntRange(0, 6).Draw(t, label+"LookupKind") {
		case 0:
			res[i].LookupListIndex = gtab.LookupIndex(c.idx) // self reference
			c.label("nested:self")
		case 1:
			res[i].LookupListIndex = gtab.LookupIndex(c.n + rapid.IntRange(0, 3).Draw(t, label+"Beyond"))
			c.label("nested:out-of-range")
		case 2:
			res[i].LookupListIndex = gtab.LookupIndex(rapid.SampledFrom([]int{0x7FFF, 0x8000, 0xFFFE, 0xFFFF}).Draw(t, label+"LookupBig"))
			c.label("nested:out-of-range")
		default:
			res[i].LookupListIndex = gtab.LookupIndex(rapid.IntRange(0, max(c.n-1, 0)).Draw(t, label+"Lookup"))
			if int(res[i].LookupListIndex) <= c.idx {
				c.label("nested:backward")
			}
		}
	}
	c.label("actions:nested")
	return res
}

func (c *gctx) int16(label string) funit.Int16 {
	switch rapid.IntRange(0, 5).Draw(c.t, label+"Kind") {
	case 0:
		return 0
	case 1:
		return funit.Int16(rapid.SampledFrom([]int{-32768, -1, 1, 255, 256, 32767}).Draw(c.t, label+"B"))
	default:
		return funit.Int16(rapid.IntRange(-500, 500).Draw(c.t, label))
	}
}

// valueRecord draws a value record (possibly nil).
func (c *gctx) valueRecord(label string) *gtab.GposValueRecord {
	if c.chance(label+"Nil", 1, 6) {
		return nil
	}
	vr := &gtab.GposValueRecord{}
	mask := rapid.IntRange(0, 7).Draw(c.t, label+"Fields")
	if mask&1 != 0 {
		vr.XPlacement = c.int16(label + "XP")
	}
	if mask&2 != 0 {
		vr.YPlacement = c.int16(label + "YP")
	}
	if mask&4 != 0 {
		vr.XAdvance = c.int16(label + "XA")
	}
	if c.opt.Unimplemented && c.chance(label+"Unimpl", 1, 5) {
		c.label("valuerecord:unimplemented-fields")
		m2 := rapid.IntRange(1, 31).Draw(c.t, label+"Fields2")
		if m2&1 != 0 {
			vr.YAdvance = c.int16(label + "YA")
		}
		if m2&2 != 0 {
			vr.XPlacementDevOffs = uint16(rapid.IntRange(0, 0xFFFF).Draw(c.t, label+"D1"))
		}
		if m2&4 != 0 {
			vr.YPlacementDevOffs = uint16(rapid.IntRange(0, 0xFFFF).Draw(c.t, label+"D2"))
		}
		if m2&8 != 0 {
			vr.XAdvanceDevOffs = uint16(rapid.IntRange(0, 0xFFFF).Draw(c.t, label+"D3"))
		}
		if m2&16 != 0 {
			vr.YAdvanceDevOffs = uint16(rapid.IntRange(0, 0xFFFF).Draw(c.t, label+"D4"))
		}
	}
	return vr
}

// anchor draws an anchor; empty (0,0) with probability pEmpty/10.
func (c *gctx) anchor(label string, pEmpty int) anchor.Table {
	if rapid.IntRange(0, 9).Draw(c.t, label+"Empty") < pEmpty {
		return anchor.Table{}
	}
	return anchor.Table{X: c.int16(label + "X"), Y: c.int16(label + "Y")}
}

// flags draws lookup flags and the mark filtering set.
func (c *gctx) flags(lookupType uint16) (gtab.LookupFlags, uint16) {
	t := c.t
	var f gtab.LookupFlags
	var mfs uint16
	defer func() { c.prevFlags, c.prevMfs, c.havePrevFlags = f, mfs, true }()
	// correlated with the previous lookup: the same flag word (anything keyed
	// or cached by the flag word alone then sees two lookups it cannot tell
	// apart), with another mark filtering set where one is in use
	if c.havePrevFlags && c.prevFlags&^gtab.RightToLeft != 0 && c.chance("flagsAsPrevious", 1, 4) {
		f, mfs = c.prevFlags&^gtab.RightToLeft, c.prevMfs
		c.label("flag:same-word-as-previous-lookup")
		if nSets := len(c.env.Gdef.MarkGlyphSets); f&gtab.UseMarkFilteringSet != 0 && nSets > 1 && int(mfs) < nSets && c.chance("otherMarkSet", 2, 3) {
			mfs = uint16((int(mfs) + rapid.IntRange(1, nSets-1).Draw(t, "markSetShift")) % nSets)
			c.label("flag:same-word-other-markset")
		}
		return f, mfs
	}
	if c.chance("flagBase", 1, 5) {
		f |= gtab.IgnoreBaseGlyphs
		c.label("flag:ignore-base")
	}
	if c.chance("flagLig", 1, 5) {
		f |= gtab.IgnoreLigatures
		c.label("flag:ignore-lig")
	}
	if c.chance("flagMarks", 1, 5) {
		f |= gtab.IgnoreMarks
		c.label("flag:ignore-marks")
	}
	nSets := len(c.env.Gdef.MarkGlyphSets)
	if c.chance("flagMarkSet", 1, 4) {
		switch {
		case c.wild() && c.chance("markSetBeyond", 1, 3):
			f |= gtab.UseMarkFilteringSet
			mfs = uint16(nSets + rapid.SampledFrom([]int{0, 1, 7, 0xFFFF - nSets}).Draw(t, "markSetIdxBeyond"))
			c.label("flag:markset-beyond-gdef")
		case nSets > 0:
			f |= gtab.UseMarkFilteringSet
			mfs = uint16(rapid.IntRange(0, nSets-1).Draw(t, "markSetIdx"))
			c.label("flag:markset")
		}
	}
	if c.chance("flagAttach", 1, 4) {
		a := rapid.IntRange(1, 3).Draw(t, "attachType")
		if c.wild() && c.chance("attachAny", 1, 3) {
			a = rapid.IntRange(1, 255).Draw(t, "attachTypeAny")
		}
		f |= gtab.LookupFlags(a) << 8
		c.label("flag:mark-attach-type")
	}
	if c.opt.Kind == gtab.TypeGpos && lookupType == 3 && c.chance("flagRTL", 1, 3) {
		f |= gtab.RightToLeft
		c.label("flag:rtl")
	}
	if f == 0 {
		c.label("flag:none")
	}
	return f, mfs
}

func kindName(k gtab.Type) string {
	if k == gtab.TypeGpos {
		return "GPOS"
	}
	return "GSUB"
}

// subtable generates one subtable of the given format.
func (c *gctx) subtable(f Format) gtab.Subtable {
	c.label("fmt:" + kindName(c.opt.Kind) + f.String())
	if c.opt.Kind == gtab.TypeGpos {
		switch f {
		case 11:
			return c.gpos1_1()
		case 12:
			return c.gpos1_2()
		case 21:
			return c.gpos2_1()
		case 22:
			return c.gpos2_2()
		case 31:
			return c.gpos3_1()
		case 41:
			return c.gpos4_1()
		case 51:
			return c.gpos5_1()
		case 61:
			return c.gpos6_1()
		case 71:
			return c.seqContext1()
		case 72:
			return c.seqContext2()
		case 73:
			return c.seqContext3()
		case 81:
			return c.chained1()
		case 82:
			return c.chained2()
		case 83:
			return c.chained3()
		}
	} else {
		switch f {
		case 11:
			return c.gsub1_1()
		case 12:
			return c.gsub1_2()
		case 21:
			return c.gsub2_1()
		case 31:
			return c.gsub3_1()
		case 41:
			return c.gsub4_1()
		case 51:
			return c.seqContext1()
		case 52:
			return c.seqContext2()
		case 53:
			return c.seqContext3()
		case 61:
			return c.chained1()
		case 62:
			return c.chained2()
		case 63:
			return c.chained3()
		case 81:
			return c.gsub8_1()
		}
	}
	panic(fmt.Sprintf("lookups: unknown format %s %s", kindName(c.opt.Kind), f))
}

// typesOf groups the allowed formats by lookup type (sorted).
func typesOf(allow []Format) ([]uint16, map[uint16][]Format) {
	by := map[uint16][]Format{}
	for _, f := range allow {
		by[f.Type()] = append(by[f.Type()], f)
	}
	var types []uint16
	for tp := range by {
		types = append(types, tp)
	}
	sort.Slice(types, func(i, j int) bool { return types[i] < types[j] })
	for _, tp := range types {
		ff := by[tp]
		sort.Slice(ff, func(i, j int) bool { return ff[i] < ff[j] })
	}
	return types, by
}

// lookup generates lookup number c.idx.
func (c *gctx) lookup(types []uint16, by map[uint16][]Format) *gtab.LookupTable {
	t := c.t
	tp := rapid.SampledFrom(types).Draw(t, "lookupType")
	flags, mfs := c.flags(tp)
	lt := &gtab.LookupTable{
		Meta: &gtab.LookupMetaInfo{LookupType: tp, LookupFlags: flags, MarkFilteringSet: mfs},
	}
	nSub := rapid.IntRange(1, c.opt.MaxSubtables).Draw(t, "nSubtables")
	if (c.wild() || c.opt.EmptyLookups) && c.chance("emptyLookup", 1, 20) {
		nSub = 0
		c.label("lookup:no-subtables")
		if c.chance("emptyLookupNonNil", 1, 2) {
			lt.Subtables = []gtab.Subtable{}
		}
	}
	for j := 0; j < nSub; j++ {
		f := rapid.SampledFrom(by[tp]).Draw(t, "format")
		lt.Subtables = append(lt.Subtables, c.subtable(f))
	}
	if nSub > 1 {
		c.label("lookup:multi-subtable")
	}
	return lt
}

func sortedKeys(m map[string]bool) []string {
	res := make([]string, 0, len(m))
	for k := range m {
		res = append(res, k)
	}
	sort.Strings(res)
	return res
}

// GenLookups generates a lookup list over env.
func GenLookups(env *Env, opt Options) *rapid.Generator[*Result] {
	opt = opt.withDefaults()
	types, by := typesOf(opt.Allow)
	return rapid.Custom(func(t *rapid.T) *Result {
		c := &gctx{t: t, env: env, opt: opt, classes: map[string]bool{}}
		res := &Result{}
		big := false
		switch opt.Size {
		case SizeLarge:
			big = true
		case SizeMixed:
			big = c.chance("sizeLarge", 1, 3)
		}
		if big {
			c.bigList(res, types, by)
		} else {
			c.n = rapid.IntRange(opt.MinLookups, opt.MaxLookups).Draw(t, "nLookups")
			if c.n == 0 {
				if c.chance("nilList", 1, 2) {
					res.List = nil
				} else {
					res.List = gtab.LookupList{}
				}
			}
			for c.idx = 0; c.idx < c.n; c.idx++ {
				res.List = append(res.List, c.lookup(types, by))
			}
		}
		c.label("mode:" + opt.Mode.String())
		res.Classes = sortedKeys(c.classes)
		sort.Strings(res.Overflow)
		sort.Strings(res.Sites)
		return res
	})
}

// GenLookupList is GenLookups without the description.
func GenLookupList(env *Env, opt Options) *rapid.Generator[gtab.LookupList] {
	g := GenLookups(env, opt)
	return rapid.Custom(func(t *rapid.T) gtab.LookupList {
		return g.Draw(t, "lookups").List
	})
}
