package lookups

import (
	"fmt"

	"pgregory.net/rapid"

	"seehuhn.de/go/postscript/funit"

	"seehuhn.de/go/sfnt/glyph"
	"seehuhn.de/go/sfnt/opentype/anchor"
	"seehuhn.de/go/sfnt/opentype/classdef"
	"seehuhn.de/go/sfnt/opentype/coverage"
	"seehuhn.de/go/sfnt/opentype/gtab"
	"seehuhn.de/go/sfnt/opentype/markarray"
)

// Spread returns n distinct glyph ids in increasing order: start, then
// gaps cycling through strides (each >= 1).  It panics if the ids leave the
// 16-bit range.  Strides {1} give one contiguous range (coverage format 2,
// 10 bytes); strides >= 2 force coverage format 1 (4+2n bytes).
func Spread(n, start int, strides []int) []glyph.ID {
	res := make([]glyph.ID, n)
	g := start
	for i := range res {
		if g > 0xFFFF {
			panic(fmt.Sprintf("lookups.Spread: %d glyphs from %d with strides %v leave the 16-bit range", n, start, strides))
		}
		res[i] = glyph.ID(g)
		g += strides[i%len(strides)]
	}
	return res
}

// BigParams are the drawn parameters from which a large subtable is
// expanded by fixed arithmetic.
type BigParams struct {
	N       int   // principal count (meaning depends on the class)
	Start   int   // first glyph id
	Strides []int // gaps between covered glyph ids
	Salt    int   // varies the stored values
}

func (p BigParams) glyphs(n int) []glyph.ID { return Spread(n, p.Start, p.Strides) }

// scattered returns n glyph ids that never form a run (coverage format 1).
func (p BigParams) scattered(n, shift int) []glyph.ID {
	s := make([]int, len(p.Strides))
	for i, x := range p.Strides {
		s[i] = x + 1
	}
	return Spread(n, p.Start+shift, s)
}

func (p BigParams) gid(i int) glyph.ID { return glyph.ID(p.Salt + 7*i) }

// BigClass describes one family of large subtables.
type BigClass struct {
	Name   string    // e.g. "gsub2_1"
	Kind   gtab.Type // table kind
	Format Format    // subtable format in that kind's numbering
	// Lo..Hi is the range of BigParams.N for which every 16-bit offset of
	// the subtable fits (parts laid out in specification order).
	Lo, Hi int
	// OvfLo..OvfHi is a range of N for which the offset field named by Site
	// cannot hold its value; Loud tells whether the pinned library is
	// expected to refuse (panic) at that site already.
	OvfLo, OvfHi int
	Site         string
	// Scattered: the builder takes its N glyphs with every stride enlarged
	// by one (no runs, coverage format 1).
	Scattered bool
	Build     func(p BigParams) gtab.Subtable
}

func seqAct(salt, i int) []gtab.SeqLookup {
	return []gtab.SeqLookup{{SequenceIndex: uint16(i % 2), LookupListIndex: gtab.LookupIndex((salt + i) % 7)}}
}

func classesUpTo(gg []glyph.ID) classdef.Table {
	// glyph i gets class i (class 0 for the first): NumClasses == len(gg)
	res := make(classdef.Table, len(gg))
	for i, g := range gg {
		if i > 0 {
			res[g] = uint16(i)
		}
	}
	return res
}

// BigClasses lists the large-subtable families, GSUB first.
var BigClasses = []BigClass{
	{Name: "gsub1_2", Kind: gtab.TypeGsub, Format: 12, Lo: 4000, Hi: 32764, OvfLo: 32765, OvfHi: 33500,
		Site: "Gsub1_2.coverageOffset",
		Build: func(p BigParams) gtab.Subtable {
			gg := p.glyphs(p.N)
			sub := make([]glyph.ID, p.N)
			for i := range sub {
				sub[i] = p.gid(i)
			}
			return &gtab.Gsub1_2{Cov: CovTable(gg), SubstituteGlyphIDs: sub}
		}},
	{Name: "gsub2_1", Kind: gtab.TypeGsub, Format: 21, Lo: 2000, Hi: 8000, OvfLo: 8300, OvfHi: 9000,
		Site: "Gsub2_1.sequenceOffset",
		Build: func(p BigParams) gtab.Subtable {
			gg := p.glyphs(p.N)
			repl := make([][]glyph.ID, p.N)
			for i := range repl {
				r := make([]glyph.ID, 1+i%3)
				for j := range r {
					r[j] = p.gid(i + j)
				}
				repl[i] = r
			}
			return &gtab.Gsub2_1{Cov: CovTable(gg), Repl: repl}
		}},
	{Name: "gsub3_1", Kind: gtab.TypeGsub, Format: 31, Lo: 2000, Hi: 8000, OvfLo: 8300, OvfHi: 9000,
		Site: "Gsub3_1.alternateSetOffset",
		Build: func(p BigParams) gtab.Subtable {
			gg := p.glyphs(p.N)
			alt := make([][]glyph.ID, p.N)
			for i := range alt {
				r := make([]glyph.ID, 1+i%3)
				for j := range r {
					r[j] = p.gid(i + 2*j)
				}
				alt[i] = r
			}
			return &gtab.Gsub3_1{Cov: CovTable(gg), Alternates: alt}
		}},
	{Name: "gsub4_1", Kind: gtab.TypeGsub, Format: 41, Lo: 1000, Hi: 2700, OvfLo: 2800, OvfHi: 3200,
		Site: "Gsub4_1.coverageOffset",
		Build: func(p BigParams) gtab.Subtable {
			gg := p.glyphs(p.N)
			repl := make([][]gtab.Ligature, p.N)
			for i := range repl {
				repl[i] = []gtab.Ligature{
					{In: []glyph.ID{p.gid(i), p.gid(i + 1)}, Out: p.gid(i + 2)},
					{In: []glyph.ID{p.gid(i), p.gid(i + 3)}, Out: p.gid(i + 4)},
				}
			}
			return &gtab.Gsub4_1{Cov: CovTable(gg), Repl: repl}
		}},
	{Name: "gsub5_1", Kind: gtab.TypeGsub, Format: 51, Lo: 1500, Hi: 3600, OvfLo: 3700, OvfHi: 4000,
		Site: "SeqContext1.seqRuleSetOffset", Build: bigSeqContext1},
	{Name: "gsub5_2", Kind: gtab.TypeGsub, Format: 52, Lo: 1500, Hi: 3200, OvfLo: 3700, OvfHi: 4000,
		Site: "SeqContext2.classDefOffset", Build: bigSeqContext2},
	{Name: "gsub5_3", Kind: gtab.TypeGsub, Format: 53, Lo: 6000, Hi: 16000, OvfLo: 16500, OvfHi: 16900,
		Site: "SeqContext3.coverageOffset", Scattered: true, Build: bigSeqContext3},
	{Name: "gsub6_1", Kind: gtab.TypeGsub, Format: 61, Lo: 1200, Hi: 2450, OvfLo: 2800, OvfHi: 3100,
		Site: "ChainedSeqContext1.ruleSetOffset", Build: bigChained1},
	{Name: "gsub6_2", Kind: gtab.TypeGsub, Format: 62, Lo: 1200, Hi: 2100, OvfLo: 2600, OvfHi: 2900,
		Site: "ChainedSeqContext2.ruleSetOffset", Build: bigChained2},
	{Name: "gsub6_3", Kind: gtab.TypeGsub, Format: 63, Lo: 6000, Hi: 16000, OvfLo: 16500, OvfHi: 16900,
		Site: "ChainedSeqContext3.coverageOffset", Scattered: true, Build: bigChained3},
	{Name: "gsub8_1", Kind: gtab.TypeGsub, Format: 81, Lo: 6000, Hi: 16000, OvfLo: 16500, OvfHi: 16900,
		Site: "Gsub8_1.coverageOffset", Scattered: true,
		Build: func(p BigParams) gtab.Subtable {
			gg := p.scattered(p.N, 0)
			sub := make([]glyph.ID, p.N)
			for i := range sub {
				sub[i] = p.gid(i)
			}
			return &gtab.Gsub8_1{
				Input:              CovTable(gg),
				Backtrack:          []coverage.Table{CovTable(p.scattered(5, 1))},
				Lookahead:          []coverage.Table{CovTable(p.scattered(3, 2))},
				SubstituteGlyphIDs: sub,
			}
		}},

	{Name: "gpos1_2", Kind: gtab.TypeGpos, Format: 12, Lo: 6000, Hi: 16000, OvfLo: 16500, OvfHi: 17000,
		Site: "Gpos1_2.coverageOffset",
		Build: func(p BigParams) gtab.Subtable {
			gg := p.glyphs(p.N)
			adj := make([]*gtab.GposValueRecord, p.N)
			for i := range adj {
				adj[i] = &gtab.GposValueRecord{XPlacement: funit.Int16(1 + i%100), XAdvance: funit.Int16(p.Salt%50 - i%90 - 1)}
			}
			return &gtab.Gpos1_2{Cov: CovTable(gg), Adjust: adj}
		}},
	{Name: "gpos2_1", Kind: gtab.TypeGpos, Format: 21, Lo: 2000, Hi: 4600, OvfLo: 5500, OvfHi: 5900,
		Site: "Gpos2_1.pairSetOffset",
		Build: func(p BigParams) gtab.Subtable {
			gg := p.glyphs(p.N)
			res := make(gtab.Gpos2_1, 2*p.N)
			for i, g := range gg {
				for j := 0; j < 2; j++ {
					right := p.gid(i) + glyph.ID(j+1)
					res[glyph.Pair{Left: g, Right: right}] = &gtab.PairAdjust{
						First: &gtab.GposValueRecord{XAdvance: funit.Int16(-1 - (i+j)%200)},
					}
				}
			}
			return res
		}},
	{Name: "gpos2_2", Kind: gtab.TypeGpos, Format: 22, Lo: 60, Hi: 127, OvfLo: 130, OvfHi: 200,
		Site: "Gpos2_2.coverageOffset",
		Build: func(p BigParams) gtab.Subtable {
			k := p.N
			g1 := p.glyphs(k)
			g2 := Spread(k, p.Start+3, p.Strides)
			adj := make([][]*gtab.PairAdjust, k)
			for i := range adj {
				row := make([]*gtab.PairAdjust, k)
				for j := range row {
					row[j] = &gtab.PairAdjust{
						First:  &gtab.GposValueRecord{XAdvance: funit.Int16(1 + (i*j+p.Salt)%300)},
						Second: &gtab.GposValueRecord{XPlacement: funit.Int16(-1 - (i+j)%300)},
					}
				}
				adj[i] = row
			}
			return &gtab.Gpos2_2{Cov: CovSet(g1), Class1: classesUpTo(g1), Class2: classesUpTo(g2), Adjust: adj}
		}},
	{Name: "gpos3_1", Kind: gtab.TypeGpos, Format: 31, Lo: 2000, Hi: 4000, OvfLo: 4200, OvfHi: 4600,
		Site: "Gpos3_1.anchorOffset",
		Build: func(p BigParams) gtab.Subtable {
			gg := p.glyphs(p.N)
			recs := make([]gtab.EntryExitRecord, p.N)
			for i := range recs {
				recs[i].Entry = anchor.Table{X: funit.Int16(1 + i%500), Y: funit.Int16(p.Salt % 100)}
				recs[i].Exit = anchor.Table{X: funit.Int16(-1 - i%500), Y: funit.Int16(i % 7)}
			}
			return &gtab.Gpos3_1{Cov: CovTable(gg), Records: recs}
		}},
	{Name: "gpos4_1", Kind: gtab.TypeGpos, Format: 41, Lo: 2000, Hi: 5400, OvfLo: 6600, OvfHi: 7000,
		Site: "Gpos4_1.markArray",
		Build: func(p BigParams) gtab.Subtable {
			marks, recs, targets, rows := bigMarks(p, p.N, 40, 2)
			return &gtab.Gpos4_1{MarkCov: CovTable(marks), BaseCov: CovTable(targets), MarkArray: recs, BaseArray: rows}
		}},
	{Name: "gpos4_1b", Kind: gtab.TypeGpos, Format: 41, Lo: 1000, Hi: 2700, OvfLo: 2800, OvfHi: 3200,
		Site: "Gpos4_1.baseArray",
		Build: func(p BigParams) gtab.Subtable {
			// N base glyphs x 3 mark classes, all anchors present
			marks, recs, targets, rows := bigMarks(p, 30, p.N, 3)
			return &gtab.Gpos4_1{MarkCov: CovTable(marks), BaseCov: CovTable(targets), MarkArray: recs, BaseArray: rows}
		}},
	{Name: "gpos6_1", Kind: gtab.TypeGpos, Format: 61, Lo: 2000, Hi: 5400, OvfLo: 6600, OvfHi: 7000,
		Site: "Gpos6_1.mark1Array",
		Build: func(p BigParams) gtab.Subtable {
			marks, recs, targets, rows := bigMarks(p, p.N, 40, 2)
			return &gtab.Gpos6_1{Mark1Cov: CovTable(marks), Mark2Cov: CovTable(targets), Mark1Array: recs, Mark2Array: rows}
		}},
	{Name: "gpos6_1b", Kind: gtab.TypeGpos, Format: 61, Lo: 1000, Hi: 2700, OvfLo: 2800, OvfHi: 3200,
		Site: "Gpos6_1.mark2Array",
		Build: func(p BigParams) gtab.Subtable {
			marks, recs, targets, rows := bigMarks(p, 30, p.N, 3)
			return &gtab.Gpos6_1{Mark1Cov: CovTable(marks), Mark2Cov: CovTable(targets), Mark1Array: recs, Mark2Array: rows}
		}},
	{Name: "gpos7_1", Kind: gtab.TypeGpos, Format: 71, Lo: 1500, Hi: 3600, OvfLo: 3700, OvfHi: 4000,
		Site: "SeqContext1.seqRuleSetOffset", Build: bigSeqContext1},
	{Name: "gpos7_2", Kind: gtab.TypeGpos, Format: 72, Lo: 1500, Hi: 3200, OvfLo: 3700, OvfHi: 4000,
		Site: "SeqContext2.classDefOffset", Build: bigSeqContext2},
	{Name: "gpos7_3", Kind: gtab.TypeGpos, Format: 73, Lo: 6000, Hi: 16000, OvfLo: 16500, OvfHi: 16900,
		Site: "SeqContext3.coverageOffset", Scattered: true, Build: bigSeqContext3},
	{Name: "gpos8_1", Kind: gtab.TypeGpos, Format: 81, Lo: 1200, Hi: 2450, OvfLo: 2800, OvfHi: 3100,
		Site: "ChainedSeqContext1.ruleSetOffset", Build: bigChained1},
	{Name: "gpos8_2", Kind: gtab.TypeGpos, Format: 82, Lo: 1200, Hi: 2100, OvfLo: 2600, OvfHi: 2900,
		Site: "ChainedSeqContext2.ruleSetOffset", Build: bigChained2},
	{Name: "gpos8_3", Kind: gtab.TypeGpos, Format: 83, Lo: 6000, Hi: 16000, OvfLo: 16500, OvfHi: 16900,
		Site: "ChainedSeqContext3.coverageOffset", Scattered: true, Build: bigChained3},
}

// bigMarks builds m mark records (2 classes... k classes) and a b x k anchor
// matrix with every anchor present.
func bigMarks(p BigParams, m, b, k int) ([]glyph.ID, []markarray.Record, []glyph.ID, [][]anchor.Table) {
	marks := p.glyphs(m)
	recs := make([]markarray.Record, m)
	for i := range recs {
		recs[i] = markarray.Record{Class: uint16(i % k), Table: anchor.Table{X: funit.Int16(i % 300), Y: funit.Int16(p.Salt%200 + 1)}}
	}
	targets := Spread(b, p.Start+1, p.Strides)
	rows := make([][]anchor.Table, b)
	for i := range rows {
		row := make([]anchor.Table, k)
		for j := range row {
			row[j] = anchor.Table{X: funit.Int16(1 + i%400), Y: funit.Int16(-1 - j)}
		}
		rows[i] = row
	}
	return marks, recs, targets, rows
}

func bigSeqContext1(p BigParams) gtab.Subtable {
	gg := p.glyphs(p.N)
	rules := make([][]*gtab.SeqRule, p.N)
	for i := range rules {
		rules[i] = []*gtab.SeqRule{{Input: []glyph.ID{p.gid(i), p.gid(i + 1)}, Actions: seqAct(p.Salt, i)}}
	}
	return &gtab.SeqContext1{Cov: CovTable(gg), Rules: rules}
}

func bigSeqContext2(p BigParams) gtab.Subtable {
	gg := p.glyphs(p.N)
	rules := make([][]*gtab.ClassSeqRule, p.N)
	for i := range rules {
		rules[i] = []*gtab.ClassSeqRule{{Input: []uint16{uint16(i), uint16((i + 1) % p.N)}, Actions: seqAct(p.Salt, i)}}
	}
	return &gtab.SeqContext2{Cov: CovTable(gg), Input: classesUpTo(gg), Rules: rules}
}

func bigSeqContext3(p BigParams) gtab.Subtable {
	return &gtab.SeqContext3{
		Input: []coverage.Set{
			CovSet(p.scattered(p.N, 0)),
			CovSet(p.scattered(p.N, 1)),
			CovSet(p.scattered(p.N/2, 2)),
		},
		Actions: seqAct(p.Salt, 0),
	}
}

func bigChained1(p BigParams) gtab.Subtable {
	gg := p.glyphs(p.N)
	rules := make([][]*gtab.ChainedSeqRule, p.N)
	for i := range rules {
		rules[i] = []*gtab.ChainedSeqRule{{
			Backtrack: []glyph.ID{p.gid(i)},
			Input:     []glyph.ID{p.gid(i + 1)},
			Lookahead: []glyph.ID{p.gid(i + 2)},
			Actions:   seqAct(p.Salt, i),
		}}
	}
	return &gtab.ChainedSeqContext1{Cov: CovTable(gg), Rules: rules}
}

func bigChained2(p BigParams) gtab.Subtable {
	gg := p.glyphs(p.N)
	rules := make([][]*gtab.ChainedClassSeqRule, p.N)
	for i := range rules {
		rules[i] = []*gtab.ChainedClassSeqRule{{
			Backtrack: []uint16{uint16(i % 3)},
			Input:     []uint16{uint16((i + 1) % p.N)},
			Lookahead: []uint16{uint16(i % 2)},
			Actions:   seqAct(p.Salt, i),
		}}
	}
	small := classdef.Table{gg[0]: 1, gg[len(gg)-1]: 2}
	return &gtab.ChainedSeqContext2{
		Cov: CovTable(gg), Backtrack: small, Input: classesUpTo(gg),
		Lookahead: classdef.Table{gg[1]: 1}, Rules: rules,
	}
}

func bigChained3(p BigParams) gtab.Subtable {
	return &gtab.ChainedSeqContext3{
		Backtrack: []coverage.Set{CovSet(p.scattered(p.N, 0))},
		Input:     []coverage.Set{CovSet(p.scattered(p.N, 1))},
		Lookahead: []coverage.Set{CovSet(p.scattered(p.N/2, 2))},
		Actions:   seqAct(p.Salt, 1),
	}
}

// FindBigClass returns the class with the given name (nil if unknown).
func FindBigClass(name string) *BigClass {
	for i := range BigClasses {
		if BigClasses[i].Name == name {
			return &BigClasses[i]
		}
	}
	return nil
}

// Site names of list-level layouts that need extension subtables.
const (
	// SiteSubtableOffset: the subtables of ONE lookup do not fit into 16-bit
	// offsets from the lookup table (representable only if that lookup's
	// subtables become extension subtables).
	SiteSubtableOffset = "LookupTable.subtableOffset"
	// SiteLookupOffset: the lookup tables do not fit into 16-bit offsets
	// from the lookup list (some lookups must use extension subtables).
	SiteLookupOffset = "LookupList.lookupOffset"
)

// drawBigParams draws the parameters of one large subtable; N is taken from
// lo..hi, capped so that the glyph ids stay in the 16-bit range.
func (c *gctx) drawBigParams(label string, bc *BigClass, lo, hi int) BigParams {
	t := c.t
	var strides []int
	switch rapid.IntRange(0, 3).Draw(t, label+"Pattern") {
	case 0:
		strides = []int{1} // one range
	case 1:
		strides = []int{2}
	case 2:
		strides = []int{1, 1, 1, 3} // runs of four
	default:
		strides = []int{1, 2}
	}
	spanOf := func(strides []int, n int) int {
		sum := 0
		for _, s := range strides {
			sum += s
			if bc.Scattered {
				sum++
			}
		}
		return (n*sum + len(strides) - 1) / len(strides)
	}
	const room = 0xFFFF - 16 // the builders shift some spreads by up to 3
	if spanOf(strides, lo) > room {
		strides = []int{1} // pattern too sparse for this class
	}
	for hi > lo && spanOf(strides, hi) > room {
		hi = lo + (hi-lo)/2
	}
	n := rapid.IntRange(lo, hi).Draw(t, label+"N")
	start := 0
	if !c.chance(label+"Start0", 1, 3) {
		start = rapid.IntRange(0, max(0, room-spanOf(strides, n))).Draw(t, label+"Start")
	}
	return BigParams{N: n, Start: start, Strides: strides, Salt: rapid.IntRange(0, 9999).Draw(t, label+"Salt")}
}

// bigFor returns the big classes usable with the allowed formats.
func (c *gctx) bigFor(by map[uint16][]Format) []*BigClass {
	var res []*BigClass
	for i := range BigClasses {
		bc := &BigClasses[i]
		if bc.Kind != c.opt.Kind {
			continue
		}
		for _, f := range by[bc.Format.Type()] {
			if f == bc.Format {
				res = append(res, bc)
				break
			}
		}
	}
	return res
}

type slot struct {
	big  *BigClass
	ovf  bool
	many int // > 0: a lookup with this many tiny subtables
	lo   int // lower bound for N (0: class default)
	hi   int
}

func (c *gctx) skip(site string) bool {
	return c.opt.Skip != nil && c.opt.Skip(site)
}

// bigList generates one of the large layouts of C08.
func (c *gctx) bigList(res *Result, types []uint16, by map[uint16][]Format) {
	t := c.t
	bigs := c.bigFor(by)
	nSmall := func(lo, hi int) int { return rapid.IntRange(lo, hi).Draw(t, "nSmallLookups") }
	var slots []slot
	addSmall := func(n int) {
		for i := 0; i < n; i++ {
			slots = append(slots, slot{})
		}
	}
	layout := rapid.SampledFrom([]string{
		"one-big", "one-big", "big-subtables", "big-subtables", "big-lookups", "big-lookups",
		"many-lookups", "many-and-big", "many-subtables", "overflow", "overflow",
	}).Draw(t, "layout")
	if len(bigs) == 0 && layout != "many-lookups" && layout != "many-subtables" {
		layout = "many-lookups"
	}
	pick := func() *BigClass { return rapid.SampledFrom(bigs).Draw(t, "bigClass") }
	switch layout {
	case "one-big":
		addSmall(nSmall(0, 3))
		slots = append(slots, slot{big: pick()})
		addSmall(nSmall(0, 3))
	case "big-subtables":
		// several large subtables of one type inside ONE lookup
		if c.skip(SiteSubtableOffset) {
			layout = "one-big"
			slots = append(slots, slot{big: pick()})
			break
		}
		addSmall(nSmall(0, 2))
		slots = append(slots, slot{big: pick(), many: -rapid.IntRange(3, 4).Draw(t, "nBigSubtables")})
		addSmall(nSmall(0, 2))
		res.Sites = append(res.Sites, SiteSubtableOffset)
	case "big-lookups":
		if c.skip(SiteLookupOffset) {
			layout = "one-big"
			slots = append(slots, slot{big: pick()})
			break
		}
		res.Sites = append(res.Sites, SiteLookupOffset)
		addSmall(nSmall(0, 2))
		k := rapid.IntRange(2, 5).Draw(t, "nBigLookups")
		for i := 0; i < k; i++ {
			slots = append(slots, slot{big: pick()})
			addSmall(nSmall(0, 2))
		}
	case "many-lookups":
		addSmall(nSmall(40, 300))
	case "many-and-big":
		addSmall(nSmall(20, 120))
		slots = append(slots, slot{big: pick()})
		addSmall(nSmall(20, 120))
		slots = append(slots, slot{big: pick()})
	case "many-subtables":
		addSmall(nSmall(0, 3))
		if c.skip(SiteSubtableOffset) {
			// few enough to stay far below 64 KiB per lookup
			slots = append(slots, slot{many: rapid.IntRange(20, 40).Draw(t, "nTinySubtablesFew")})
		} else {
			// may or may not exceed 64 KiB within the one lookup
			res.Sites = append(res.Sites, SiteSubtableOffset)
			slots = append(slots, slot{many: rapid.IntRange(100, 2500).Draw(t, "nTinySubtables")})
		}
		addSmall(nSmall(0, 3))
		if len(bigs) > 0 && c.chance("manyPlusBig", 1, 2) {
			slots = append(slots, slot{big: pick()})
		}
	case "overflow":
		var cand []*BigClass
		for _, bc := range bigs {
			if !c.skip(bc.Site) {
				cand = append(cand, bc)
			}
		}
		addSmall(nSmall(0, 2))
		if len(cand) == 0 {
			layout = "one-big"
			slots = append(slots, slot{big: pick()})
		} else {
			bc := rapid.SampledFrom(cand).Draw(t, "ovfClass")
			slots = append(slots, slot{big: bc, ovf: true})
		}
		addSmall(nSmall(0, 2))
	}
	c.label("layout:" + layout)

	c.n = len(slots)
	for c.idx = 0; c.idx < c.n; c.idx++ {
		s := slots[c.idx]
		switch {
		case s.big != nil:
			bc := s.big
			flags, mfs := c.flags(bc.Format.Type())
			lt := &gtab.LookupTable{Meta: &gtab.LookupMetaInfo{LookupType: bc.Format.Type(), LookupFlags: flags, MarkFilteringSet: mfs}}
			nSub := 1
			if s.many < 0 {
				nSub = -s.many
			}
			for j := 0; j < nSub; j++ {
				lo, hi := bc.Lo, bc.Hi
				if s.ovf {
					lo, hi = bc.OvfLo, bc.OvfHi
					res.Overflow = append(res.Overflow, bc.Site)
					res.Sites = append(res.Sites, bc.Site)
					c.label("overflow:" + bc.Site)
				}
				if nSub > 1 && lo < hi {
					// upper half of the range: every class then yields more
					// than 33 KiB, so the third subtable starts beyond 64 KiB
					lo = lo + (hi-lo)/2
				}
				p := c.drawBigParams(fmt.Sprintf("big%d", j), bc, lo, hi)
				lt.Subtables = append(lt.Subtables, bc.Build(p))
				res.Desc = append(res.Desc, fmt.Sprintf("lookup %d subtable %d = BigClass %s %+v", c.idx, j, bc.Name, p))
				c.label("big:" + bc.Name)
				c.label("fmt:" + kindName(c.opt.Kind) + bc.Format.String())
			}
			if nSub > 1 {
				c.label("big:several-subtables-in-one-lookup")
			}
			res.List = append(res.List, lt)
		case s.many > 0:
			tp := rapid.SampledFrom(types).Draw(t, "tinyType")
			f := by[tp][0]
			flags, mfs := c.flags(tp)
			lt := &gtab.LookupTable{Meta: &gtab.LookupMetaInfo{LookupType: tp, LookupFlags: flags, MarkFilteringSet: mfs}}
			k := rapid.IntRange(1, 4).Draw(t, "tinyDistinct")
			var protos []gtab.Subtable
			for j := 0; j < k; j++ {
				protos = append(protos, c.subtable(f))
			}
			for j := 0; j < s.many; j++ {
				lt.Subtables = append(lt.Subtables, protos[j%k])
			}
			c.label("big:many-subtables")
			res.Desc = append(res.Desc, fmt.Sprintf("lookup %d = %d subtables cycling through the first %d", c.idx, s.many, k))
			res.List = append(res.List, lt)
		default:
			res.List = append(res.List, c.lookup(types, by))
		}
	}
}
