package lookups

import (
	"pgregory.net/rapid"

	"seehuhn.de/go/sfnt/opentype/gtab"
)

// nRules draws the number of rules of one rule set; -1 stands for a nil
// rule set (offset 0 in the binary format).
func (c *gctx) nRules(label string) int {
	switch rapid.IntRange(0, 7).Draw(c.t, label) {
	case 0:
		return -1
	case 1, 2, 3:
		return 1
	case 4, 5:
		return 2
	case 6:
		return 3
	default:
		// an empty, non-nil rule set: what the reader returns for a rule set
		// table with count 0 (some producers write one instead of a null
		// offset); rare outside the wild mode
		if c.wild() || rapid.IntRange(0, 3).Draw(c.t, label+"Empty") == 0 {
			return 0
		}
		return 1
	}
}

func (c *gctx) seqContext1() gtab.Subtable {
	cov, gg := c.covTable("s1cov")
	rules := make([][]*gtab.SeqRule, len(gg))
	for i := range rules {
		n := c.nRules("s1nRules")
		if n < 0 {
			continue
		}
		rules[i] = make([]*gtab.SeqRule, n)
		for j := range rules[i] {
			in := c.glyphs("s1in", 0, 3)
			rules[i][j] = &gtab.SeqRule{Input: in, Actions: c.actions("s1act", len(in)+1)}
		}
	}
	return &gtab.SeqContext1{Cov: cov, Rules: rules}
}

// numRuleSets decides the length of a class-indexed rule array: exactly
// numClasses in Defined mode, possibly shorter in Wild mode (never longer:
// the reader drops rule sets for classes that do not occur).
func (c *gctx) numRuleSets(label string, numClasses int) int {
	if c.wild() && c.chance(label+"Short", 1, 5) {
		c.label("class:beyond-rules")
		return rapid.IntRange(0, numClasses-1).Draw(c.t, label)
	}
	return numClasses
}

func (c *gctx) seqContext2() gtab.Subtable {
	cov, _ := c.covTable("s2cov")
	k := rapid.IntRange(0, 3).Draw(c.t, "s2maxClass")
	input := c.classDef("s2class", k)
	numClasses := input.NumClasses()
	rules := make([][]*gtab.ClassSeqRule, c.numRuleSets("s2nSets", numClasses))
	for i := range rules {
		n := c.nRules("s2nRules")
		if n < 0 {
			continue
		}
		rules[i] = make([]*gtab.ClassSeqRule, n)
		for j := range rules[i] {
			in := c.classSeq("s2in", 0, 3, numClasses)
			rules[i][j] = &gtab.ClassSeqRule{Input: in, Actions: c.actions("s2act", len(in)+1)}
		}
	}
	if len(rules) == 0 && c.chance("s2rulesNil", 1, 2) {
		rules = nil
	}
	return &gtab.SeqContext2{Cov: cov, Input: input, Rules: rules}
}

func (c *gctx) seqContext3() gtab.Subtable {
	in := c.covSets("s3in", 1, 4)
	return &gtab.SeqContext3{Input: in, Actions: c.actions("s3act", len(in))}
}

func (c *gctx) chained1() gtab.Subtable {
	cov, gg := c.covTable("c1cov")
	rules := make([][]*gtab.ChainedSeqRule, len(gg))
	for i := range rules {
		n := c.nRules("c1nRules")
		if n < 0 {
			continue
		}
		rules[i] = make([]*gtab.ChainedSeqRule, n)
		for j := range rules[i] {
			r := &gtab.ChainedSeqRule{
				Backtrack: c.glyphs("c1back", 0, 2),
				Input:     c.glyphs("c1in", 0, 3),
				Lookahead: c.glyphs("c1ahead", 0, 2),
			}
			r.Actions = c.actions("c1act", len(r.Input)+1)
			if len(r.Backtrack) > 0 {
				c.label("ctx:backtrack")
			}
			if len(r.Lookahead) > 0 {
				c.label("ctx:lookahead")
			}
			rules[i][j] = r
		}
	}
	return &gtab.ChainedSeqContext1{Cov: cov, Rules: rules}
}

func (c *gctx) chained2() gtab.Subtable {
	t := c.t
	cov, _ := c.covTable("c2cov")
	kb := rapid.IntRange(0, 2).Draw(t, "c2maxBack")
	ki := rapid.IntRange(0, 3).Draw(t, "c2maxIn")
	ka := rapid.IntRange(0, 2).Draw(t, "c2maxAhead")
	res := &gtab.ChainedSeqContext2{
		Cov:       cov,
		Backtrack: c.classDef("c2classBack", kb),
		Input:     c.classDef("c2classIn", ki),
		Lookahead: c.classDef("c2classAhead", ka),
	}
	numClasses := res.Input.NumClasses()
	rules := make([][]*gtab.ChainedClassSeqRule, c.numRuleSets("c2nSets", numClasses))
	for i := range rules {
		n := c.nRules("c2nRules")
		if n < 0 {
			continue
		}
		rules[i] = make([]*gtab.ChainedClassSeqRule, n)
		for j := range rules[i] {
			r := &gtab.ChainedClassSeqRule{
				Backtrack: c.classSeq("c2back", 0, 2, res.Backtrack.NumClasses()),
				Input:     c.classSeq("c2in", 0, 3, numClasses),
				Lookahead: c.classSeq("c2ahead", 0, 2, res.Lookahead.NumClasses()),
			}
			r.Actions = c.actions("c2act", len(r.Input)+1)
			if len(r.Backtrack) > 0 {
				c.label("ctx:backtrack")
			}
			if len(r.Lookahead) > 0 {
				c.label("ctx:lookahead")
			}
			rules[i][j] = r
		}
	}
	if len(rules) == 0 && c.chance("c2rulesNil", 1, 2) {
		rules = nil
	}
	res.Rules = rules
	return res
}

func (c *gctx) chained3() gtab.Subtable {
	res := &gtab.ChainedSeqContext3{
		Backtrack: c.covSets("c3back", 0, 2),
		Input:     c.covSets("c3in", 1, 3),
		Lookahead: c.covSets("c3ahead", 0, 2),
	}
	res.Actions = c.actions("c3act", len(res.Input))
	if len(res.Backtrack) > 0 {
		c.label("ctx:backtrack")
	}
	if len(res.Lookahead) > 0 {
		c.label("ctx:lookahead")
	}
	return res
}
