package lookups

import (
	"bytes"
	"testing"

	"pgregory.net/rapid"

	"seehuhn.de/go/sfnt/opentype/gtab"
)

// Smoke tests of the generator itself (not a property check).

func TestTags(t *testing.T) {
	tags := Tags()
	if len(tags) < 1000 {
		t.Fatalf("only %d tags", len(tags))
	}
	t.Logf("%d tags, %d scripts, dropped scripts %q", len(tags), len(TagScripts()), DroppedScripts())
	seen := map[string]bool{}
	for _, e := range tags {
		if seen[e.Tag.String()] {
			t.Fatalf("duplicate tag %s", e.Tag)
		}
		seen[e.Tag.String()] = true
	}
}

func TestSmallRoundTrip(t *testing.T) {
	for _, kind := range []gtab.Type{gtab.TypeGsub, gtab.TypeGpos} {
		for _, mode := range []Mode{Defined, Wild} {
			rapid.Check(t, func(t *rapid.T) {
				env := GenEnv(rapid.Bool().Draw(t, "wide")).Draw(t, "env")
				r := GenInfo(env, Options{Kind: kind, Mode: mode}, InfoOptions{}).Draw(t, "info")
				data := r.Info.Encode()
				_, err := gtab.Read(bytes.NewReader(data), kind)
				if err != nil {
					t.Fatalf("%v (%v)", err, r.Classes)
				}
			})
		}
	}
}
