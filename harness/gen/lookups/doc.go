// Package lookups contains the shared rapid generators for OpenType layout
// structures of seehuhn.de/go/sfnt/opentype/{gtab,gdef,coverage,classdef}
// (domain of C08; reused by C06/C07 for shaping semantics).
//
// # API
//
//	GenEnv(wide)            *rapid.Generator[*Env]
//	    a glyph alphabet of 4..12 ids (ids < 64, or spread over 0..0xFFFF
//	    when wide) and a GDEF table over it: glyph classes none/base/
//	    ligature/mark/component, mark attachment classes 0..3, 0..3 mark
//	    glyph sets.
//
//	GenLookups(env, opt)    *rapid.Generator[*Result]
//	GenLookupList(env, opt) *rapid.Generator[gtab.LookupList]   (= Result.List)
//	    a lookup list of kind opt.Kind (gtab.TypeGsub / gtab.TypeGpos) with
//	    opt.MinLookups..opt.MaxLookups lookups whose subtables use the
//	    formats in opt.Allow (nil: AllFormats(kind), i.e. everything the
//	    library can encode; GPOS 5.1 only when listed explicitly).  All
//	    glyphs come from env.Alphabet.  Result additionally reports class
//	    labels of what was generated and, for the Size classes of C08,
//	    which 16-bit offset sites are exceeded on purpose (Result.Overflow).
//
//	GenInfo(env, opt, iopt) *rapid.Generator[*InfoResult]
//	    a complete *gtab.Info: lookups as above plus a FeatureList and a
//	    ScriptList keyed by tags of the library's own script/language
//	    tables (see Tags).
//
//	Tags()                  []TagEntry
//	    every language.Tag the library's reader can produce from its built-in
//	    script and language tables, with the OpenType (script, language)
//	    pair it stands for, in a fixed order.
//
// # Modes
//
// Options.Mode selects how indices are drawn.  The *structure* is well
// formed in both modes (coverage indices are 0..n-1 in glyph order, arrays
// indexed by coverage index have the coverage's length, matrices are
// rectangular, class rule arrays are not longer than the number of classes,
// coverage-based contexts have at least one input glyph), so every value can
// be encoded and decoded again.
//
//   - Defined: nested actions refer only to strictly later lookups, at most
//     40 (normally 0..3) actions per rule, sequence indices inside the input
//     sequence, class values inside the rule arrays (len(Rules) ==
//     NumClasses), replacement lists non-empty, mark classes inside the
//     anchor rows, MarkFilteringSet inside GDEF.MarkGlyphSets, mark attach
//     type 0..3, all glyphs from the alphabet.
//   - Wild: anything constructible through the public structs: self-
//     referential/earlier/out-of-range lookup indices, out-of-range sequence
//     indices, empty replacement lists and alternates, rules with 65..200
//     actions, MarkFilteringSet beyond GDEF, arbitrary mark attach types,
//     class values beyond the rule arrays, mark classes beyond the anchor
//     rows, occasional glyphs outside the alphabet, empty coverage tables,
//     lookups without subtables.
//
// # Determinism
//
// Every choice is a rapid draw; maps are never iterated to make a choice
// (keys are sorted first).  Large structures (Size classes) are expanded
// from a few drawn parameters by fixed arithmetic patterns, not by a private
// random number generator.
package lookups
