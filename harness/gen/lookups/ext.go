package lookups

import "seehuhn.de/go/sfnt/opentype/gtab"

// ExtOptions selects how Extensionize deviates from the valid form.
type ExtOptions struct {
	// Hostile returns a number in [0,n) for the labelled choice; nil means
	// "always 0" = the valid form.  Choices: per extension record,
	// "extType" (0 = the original type, 1 = the extension type itself,
	// 2 = type 0, 3 = a type beyond the table's range, 4 = another valid
	// type) and "extTarget" (0 = the subtable, 1 = the record itself,
	// 2 = the next extension record, 3 = offset 0x7FFFFFFF).
	Hostile func(label string, n int) int
}

// Extensionize rewrites an encoded GSUB or GPOS table (as produced by
// gtab.Info.Encode, version 1.0, at most 64 KiB) so that every lookup uses
// extension subtables (GSUB type 7 / GPOS type 9), the form font compilers
// emit for large tables and the library's own writer only produces beyond
// 64 KiB.  Header, script list and feature list are kept; a new lookup list
// is appended, followed by a copy of the old lookup list region to which the
// 32-bit extension offsets point.  ok is false if the table does not have
// the expected shape.
func Extensionize(enc []byte, kind gtab.Type, opt ExtOptions) (out []byte, ok bool) {
	pick := opt.Hostile
	if pick == nil {
		pick = func(string, int) int { return 0 }
	}
	u16 := func(b []byte, p int) int { return int(b[p])<<8 | int(b[p+1]) }
	if len(enc) < 10 || u16(enc, 0) != 1 || u16(enc, 2) != 0 {
		return nil, false
	}
	L := u16(enc, 8)
	if L == 0 || L+2 > len(enc) {
		return nil, false
	}
	extType := 7
	maxType := 8
	if kind == gtab.TypeGpos {
		extType, maxType = 9, 9
	}
	n := u16(enc, L)
	if L+2+2*n > len(enc) {
		return nil, false
	}
	type lk struct {
		tp, flag, mfs int
		subs          []int // absolute positions
	}
	var lks []lk
	for i := 0; i < n; i++ {
		P := L + u16(enc, L+2+2*i)
		if P+6 > len(enc) {
			return nil, false
		}
		l := lk{tp: u16(enc, P), flag: u16(enc, P+2)}
		sc := u16(enc, P+4)
		if P+6+2*sc+2 > len(enc)+2 {
			return nil, false
		}
		for j := 0; j < sc; j++ {
			if P+6+2*j+2 > len(enc) {
				return nil, false
			}
			l.subs = append(l.subs, P+u16(enc, P+6+2*j))
		}
		if l.flag&0x0010 != 0 {
			if P+6+2*sc+2 > len(enc) {
				return nil, false
			}
			l.mfs = u16(enc, P+6+2*sc)
		}
		if l.tp == extType {
			return nil, false // already uses extension subtables
		}
		lks = append(lks, l)
	}

	// layout of the new lookup list
	newL := len(enc)
	if newL&1 != 0 {
		newL++
	}
	size := 2 + 2*n
	lookupPos := make([]int, n)
	for i, l := range lks {
		lookupPos[i] = size
		size += 6 + 2*len(l.subs)
		if l.flag&0x0010 != 0 {
			size += 2
		}
	}
	recPos := make([][]int, n)
	for i, l := range lks {
		for range l.subs {
			recPos[i] = append(recPos[i], size)
			size += 8
		}
	}
	if newL > 0xFFFF || size > 0xFFFF {
		return nil, false
	}
	copyPos := newL + size // where the old lookup list region is copied to
	out = append(out, enc...)
	for len(out) < newL {
		out = append(out, 0)
	}
	put16 := func(v int) { out = append(out, byte(v>>8), byte(v)) }
	put32 := func(v int) { out = append(out, byte(v>>24), byte(v>>16), byte(v>>8), byte(v)) }
	put16(n)
	for i := range lks {
		put16(lookupPos[i])
	}
	for i, l := range lks {
		put16(extType)
		put16(l.flag)
		put16(len(l.subs))
		for j := range l.subs {
			put16(recPos[i][j] - lookupPos[i])
		}
		if l.flag&0x0010 != 0 {
			put16(l.mfs)
		}
	}
	for i, l := range lks {
		for j, sub := range l.subs {
			here := newL + recPos[i][j]
			tp := l.tp
			switch pick("extType", 5) {
			case 1:
				tp = extType
			case 2:
				tp = 0
			case 3:
				tp = maxType + 1 + pick("extTypeBeyond", 3)
			case 4:
				tp = 1 + pick("extTypeOther", maxType)
			}
			target := copyPos + (sub - L) - here
			switch pick("extTarget", 4) {
			case 1:
				target = 0
			case 2:
				target = 8
			case 3:
				target = 0x7FFFFFFF
			}
			put16(1)
			put16(tp)
			put32(target)
		}
	}
	out = append(out, enc[L:]...)
	out[8], out[9] = byte(newL>>8), byte(newL)
	return out, true
}
