package lookups

import (
	"sort"

	"pgregory.net/rapid"

	"seehuhn.de/go/sfnt/glyph"
	"seehuhn.de/go/sfnt/opentype/classdef"
	"seehuhn.de/go/sfnt/opentype/coverage"
	"seehuhn.de/go/sfnt/opentype/gdef"
)

// Env is the glyph universe shared by the lookups of one generated case.
type Env struct {
	// Alphabet lists the glyph ids used by the lookups, in increasing order.
	Alphabet []glyph.ID

	// Gdef classifies the glyphs of Alphabet (never nil; GlyphClass,
	// MarkAttachClass may be empty, MarkGlyphSets may be nil).
	Gdef *gdef.Table

	// Wide records whether the alphabet is spread over the 16-bit range.
	Wide bool
}

// Marks returns the glyphs of the alphabet classified as marks.
func (e *Env) Marks() []glyph.ID {
	var res []glyph.ID
	for _, g := range e.Alphabet {
		if e.Gdef.GlyphClass[g] == gdef.GlyphClassMark {
			res = append(res, g)
		}
	}
	return res
}

// NonMarks returns the glyphs of the alphabet not classified as marks.
func (e *Env) NonMarks() []glyph.ID {
	var res []glyph.ID
	for _, g := range e.Alphabet {
		if e.Gdef.GlyphClass[g] != gdef.GlyphClassMark {
			res = append(res, g)
		}
	}
	return res
}

var boundaryGids = []int{0, 1, 2, 0xFE, 0xFF, 0x100, 0x101, 0x7FFE, 0x7FFF, 0x8000, 0x8001, 0xFFFD, 0xFFFE, 0xFFFF}

// GenEnv generates an alphabet and a GDEF table over it.
func GenEnv(wide bool) *rapid.Generator[*Env] {
	return rapid.Custom(func(t *rapid.T) *Env {
		n := rapid.IntRange(4, 12).Draw(t, "nGlyphs")
		seen := map[glyph.ID]bool{}
		var alpha []glyph.ID
		add := func(g int) {
			if g < 0 || g > 0xFFFF || seen[glyph.ID(g)] {
				return
			}
			seen[glyph.ID(g)] = true
			alpha = append(alpha, glyph.ID(g))
		}
		if wide {
			prev := -1
			for tries := 0; len(alpha) < n && tries < 6*n; tries++ {
				var g int
				switch rapid.IntRange(0, 3).Draw(t, "gidKind") {
				case 0:
					g = prev + 1 // run of consecutive ids
				case 1:
					g = rapid.SampledFrom(boundaryGids).Draw(t, "gidB")
				case 2:
					g = rapid.IntRange(0, 0xFFFF).Draw(t, "gid")
				default:
					g = prev + rapid.IntRange(2, 300).Draw(t, "gidGap")
				}
				add(g)
				if g >= 0 && g <= 0xFFFF {
					prev = g
				}
			}
		} else {
			g := rapid.IntRange(0, 5).Draw(t, "gid0")
			for len(alpha) < n {
				add(g)
				g += rapid.IntRange(1, 4).Draw(t, "gidGap")
			}
		}
		for g := 1; len(alpha) < n; g++ { // deterministic fill-up
			add(g)
		}
		sort.Slice(alpha, func(i, j int) bool { return alpha[i] < alpha[j] })

		env := &Env{Alphabet: alpha, Wide: wide, Gdef: &gdef.Table{}}
		gc := classdef.Table{}
		ma := classdef.Table{}
		for _, g := range alpha {
			cls := rapid.SampledFrom([]uint16{0, 1, 1, 1, 2, 2, 3, 3, 3, 4}).Draw(t, "glyphClass")
			if cls != 0 {
				gc[g] = cls
			}
			if cls == gdef.GlyphClassMark || rapid.IntRange(0, 9).Draw(t, "attachOnNonMark") == 0 {
				a := uint16(rapid.IntRange(0, 3).Draw(t, "attachClass"))
				if a != 0 {
					ma[g] = a
				}
			}
		}
		env.Gdef.GlyphClass = gc
		env.Gdef.MarkAttachClass = ma
		nSets := rapid.IntRange(0, 3).Draw(t, "nMarkSets")
		for i := 0; i < nSets; i++ {
			set := coverage.Set{}
			for _, g := range alpha {
				p := 5 // of 10
				if gc[g] != gdef.GlyphClassMark {
					p = 1
				}
				if rapid.IntRange(0, 9).Draw(t, "inMarkSet") < p {
					set[g] = true
				}
			}
			env.Gdef.MarkGlyphSets = append(env.Gdef.MarkGlyphSets, set)
		}
		return env
	})
}
