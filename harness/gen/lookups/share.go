package lookups

import "bytes"

// ShareTables rewrites an encoded GSUB or GPOS table (version 1.0, as
// produced by gtab.Info.Encode) into an equivalent spelling that font
// compilers commonly produce and the library's own writer never does:
// FeatureRecords whose Feature tables have the same content point to ONE
// Feature table, and the language systems of a script whose LangSys tables
// have the same content share one LangSys table.  Only offsets are changed;
// the tables that are no longer referenced stay behind as unused bytes.  The
// result describes exactly the same scripts, features and lookups.  shared
// is the number of offsets that were redirected.
func ShareTables(enc []byte) (out []byte, shared int) {
	u16 := func(b []byte, p int) int {
		if p < 0 || p+2 > len(b) {
			return -1
		}
		return int(b[p])<<8 | int(b[p+1])
	}
	if len(enc) < 10 || u16(enc, 0) != 1 || u16(enc, 2) != 0 {
		return enc, 0
	}
	out = append([]byte(nil), enc...)
	put := func(p, v int) { out[p], out[p+1] = byte(v>>8), byte(v) }

	// feature list
	if F := u16(enc, 6); F > 0 {
		n := u16(enc, F)
		type ft struct {
			off  int
			body []byte
		}
		var seen []ft
		for i := 0; i < n && n > 0; i++ {
			rp := F + 2 + 6*i
			off := u16(enc, rp+4)
			if off <= 0 {
				continue
			}
			fp := F + off
			cnt := u16(enc, fp+2)
			if cnt < 0 || u16(enc, fp) != 0 || fp+4+2*cnt > len(enc) {
				continue
			}
			body := enc[fp : fp+4+2*cnt]
			found := false
			for _, s := range seen {
				if bytes.Equal(s.body, body) {
					if s.off != off {
						put(rp+4, s.off)
						shared++
					}
					found = true
					break
				}
			}
			if !found {
				seen = append(seen, ft{off, body})
			}
		}
	}

	// language systems inside each script
	if S := u16(enc, 4); S > 0 {
		n := u16(enc, S)
		for i := 0; i < n && n > 0; i++ {
			so := u16(enc, S+2+6*i+4)
			if so <= 0 {
				continue
			}
			sp := S + so
			lc := u16(enc, sp+2)
			if lc < 0 {
				continue
			}
			type ls struct {
				off  int
				body []byte
			}
			var seen []ls
			try := func(offPos int) {
				off := u16(enc, offPos)
				if off <= 0 {
					return
				}
				lp := sp + off
				cnt := u16(enc, lp+4)
				if cnt < 0 || lp+6+2*cnt > len(enc) {
					return
				}
				body := enc[lp : lp+6+2*cnt]
				for _, s := range seen {
					if bytes.Equal(s.body, body) {
						if s.off != off {
							put(offPos, s.off)
							shared++
						}
						return
					}
				}
				seen = append(seen, ls{off, body})
			}
			try(sp) // defaultLangSysOffset
			for j := 0; j < lc; j++ {
				try(sp + 4 + 6*j + 4)
			}
		}
	}
	return out, shared
}
