// Package font contains the shared rapid generator for sfnt.Font values
// (domain of C01; reused by C03, C10, C12, C15, C16, C18, C20).
//
// Fonts are generated in the library's normal form for the fields whose
// Read∘Write is documented to normalise (see DESIGN.md §4 C01); the
// function Normalise applies the remaining one-line rules to the expected
// side of a comparison.
package font

import (
	"fmt"
	"math"
	"sort"
	"strings"
	"time"

	"golang.org/x/text/language"
	"pgregory.net/rapid"

	"seehuhn.de/go/geom/matrix"
	"seehuhn.de/go/postscript/cid"
	"seehuhn.de/go/postscript/funit"
	"seehuhn.de/go/postscript/type1"

	"seehuhn.de/go/sfnt"
	"seehuhn.de/go/sfnt/cff"
	"seehuhn.de/go/sfnt/cmap"
	"seehuhn.de/go/sfnt/glyf"
	"seehuhn.de/go/sfnt/glyph"
	"seehuhn.de/go/sfnt/head"
	"seehuhn.de/go/sfnt/maxp"
	"seehuhn.de/go/sfnt/opentype/classdef"
	"seehuhn.de/go/sfnt/opentype/coverage"
	"seehuhn.de/go/sfnt/opentype/gdef"
	"seehuhn.de/go/sfnt/opentype/gtab"
	"seehuhn.de/go/sfnt/os2"
)

// Kind selects the outline flavour.
type Kind int

const (
	KindAny Kind = iota
	KindGlyf
	KindCFF
	KindCID
)

func (k Kind) String() string {
	return [...]string{"any", "glyf", "cff", "cid"}[k]
}

// Layout selects which layout tables are generated.
type Layout int

const (
	LayoutMaybe  Layout = iota // GSUB/GPOS/GDEF each present with probability ~1/2
	LayoutNone                 // none (and no characters that make the reader synthesise ligatures)
	LayoutAll                  // GSUB, GPOS and GDEF all present
	LayoutSubset               // only what the subsetter supports: GSUB 1.1/4.1, GPOS 2.1, no GDEF
)

// Names selects how glyph names are generated.
type Names int

const (
	NamesProper Names = iota // unique valid names (CFF), unique or nil (glyf)
	NamesWild                // missing, duplicate and invalid names (C20)
)

// Opts parametrises the generator.
type Opts struct {
	Kind      Kind
	MinGlyphs int // default 1
	MaxGlyphs int // default 40
	Layout    Layout
	Names     Names
	// Composites enables composite TrueType glyphs (acyclic).
	NoComposites bool
	// WideCmap allows non-BMP code points (format 12 subtables).
	NoWideCmap bool
	// StemHeavy gives half of the CFF glyphs a stem list of 23-25 pairs (the
	// capacity of one stem operator is 24 pairs, 23 after a width operand).
	StemHeavy bool
	// NilMaxp lets a quarter of the TrueType fonts come without the TrueType
	// part of maxp (Outlines.Maxp == nil), as fonts read from files with a
	// version 0.5 maxp table do.
	NilMaxp bool
	// BigGlyf asks for a glyf table of 128-192 KiB (TrueType fonts with
	// enough simple glyphs to carry the padding).
	BigGlyf bool
}

// Case is a generated font with the facts the oracles need.
type Case struct {
	Font   *sfnt.Font
	Kind   Kind
	Labels []string
	// Points holds, for TrueType fonts, the contours every simple glyph
	// was generated from (nil for empty/composite glyphs).
	Points [][][]Pt
	// NonTrivial follows the C01 rule.
	NonTrivial bool
}

func (c *Case) label(l string) { c.Labels = append(c.Labels, l) }

// ---- strings -----------------------------------------------------------

var runePool = []rune{
	'A', 'B', 'C', 'H', 'a', 'b', 'e', 'x', 'z', ' ', '-', '.', '0', '1', '9',
	'é', 'ü', 'ß', '©', '®', 'Ω', 'π', 'ﬁ', '€', '™',
	'Ж', 'я', '中', '文', 'あ', '😀', '𝔸', '́', ' ', '"', '\'', '(', ')', '/', '%',
	// planes 2, 14 and 16 (high surrogates D840 and above in UTF-16)
	0x20BB7, 0x2A6D6, 0xE0100, 0x10FFFD,
}

// Text draws a string over a Unicode alphabet that includes non-BMP,
// combining and Mac-Roman-only characters.
func Text(maxLen int) *rapid.Generator[string] {
	return rapid.Custom(func(t *rapid.T) string {
		n := rapid.IntRange(0, maxLen).Draw(t, "strlen")
		var sb strings.Builder
		for i := 0; i < n; i++ {
			if rapid.IntRange(0, 3).Draw(t, "ascii") > 0 {
				sb.WriteRune(rune(rapid.IntRange('a', 'z').Draw(t, "ch")))
			} else {
				sb.WriteRune(rapid.SampledFrom(runePool).Draw(t, "ch"))
			}
		}
		return sb.String()
	})
}

// ---- deterministic filler ------------------------------------------------

func mix(x uint64) uint64 {
	x += 0x9E3779B97F4A7C15
	x = (x ^ (x >> 30)) * 0xBF58476D1CE4E5B9
	x = (x ^ (x >> 27)) * 0x94D049BB133111EB
	return x ^ (x >> 31)
}

type filler struct{ s uint64 }

func (f *filler) next() uint64 { f.s = mix(f.s); return f.s }
func (f *filler) intn(n int) int {
	if n <= 0 {
		return 0
	}
	return int(f.next() % uint64(n))
}
func (f *filler) rng(lo, hi int) int { return lo + f.intn(hi-lo+1) }

// ---- glyph names ---------------------------------------------------------

var stdNames = []string{"space", "exclam", "A", "B", "C", "H", "a", "b", "x", "f", "i", "l", "fi", "fl", "zero", "one",
	"Adieresis", "germandbls", "period", "comma", "hyphen", "Omega", "pi", "Euro"}

func properNames(t *rapid.T, n int, fl *filler) []string {
	names := make([]string, n)
	used := map[string]bool{".notdef": true}
	names[0] = ".notdef"
	for i := 1; i < n; i++ {
		var nm string
		if n <= 60 {
			switch rapid.IntRange(0, 3).Draw(t, "nameKind") {
			case 0:
				nm = rapid.SampledFrom(stdNames).Draw(t, "std")
			case 1:
				nm = fmt.Sprintf("uni%04X", rapid.IntRange(0x20, 0xFFFD).Draw(t, "u"))
			case 2:
				nm = rapid.StringMatching(`[A-Za-z_][A-Za-z0-9_.]{0,12}`).Draw(t, "custom")
			default:
				nm = fmt.Sprintf("g%d", i)
			}
		} else {
			switch fl.intn(3) {
			case 0:
				nm = stdNames[fl.intn(len(stdNames))]
			case 1:
				nm = fmt.Sprintf("uni%04X", fl.rng(0x20, 0xFFFD))
			default:
				nm = fmt.Sprintf("g%d", i)
			}
		}
		for used[nm] {
			nm = fmt.Sprintf("%s.%d", nm, i)
		}
		used[nm] = true
		names[i] = nm
	}
	return names
}

func wildNames(t *rapid.T, n int) []string {
	names := make([]string, n)
	pool := []string{"", "", "A", "A", "B", "fi", "f_i", "space", ".notdef", "a b", "x(y)", "uni0041", "glyph17", "orn001", "A.alt", "é", "1abc"}
	for i := range names {
		if rapid.IntRange(0, 2).Draw(t, "wk") == 0 {
			names[i] = fmt.Sprintf("n%d", i)
		} else {
			names[i] = rapid.SampledFrom(pool).Draw(t, "wild")
		}
	}
	return names
}

// ---- outlines ------------------------------------------------------------

func coordGen() *rapid.Generator[int] {
	return rapid.OneOf(rapid.IntRange(-300, 1200), rapid.IntRange(-300, 1200), rapid.IntRange(-3, 3),
		rapid.SampledFrom([]int{-32768, -32000, -256, -255, 255, 256, 32000, 32767}))
}

func genContours(t *rapid.T) [][]Pt {
	nc := rapid.IntRange(1, 3).Draw(t, "nContours")
	cc := make([][]Pt, nc)
	for i := range cc {
		np := rapid.IntRange(1, 6).Draw(t, "nPoints")
		c := make([]Pt, np)
		for j := range c {
			c[j] = Pt{int16(coordGen().Draw(t, "x")), int16(coordGen().Draw(t, "y")), rapid.Bool().Draw(t, "on")}
		}
		cc[i] = c
	}
	return cc
}

func fillContours(fl *filler) [][]Pt {
	nc := fl.rng(1, 2)
	cc := make([][]Pt, nc)
	for i := range cc {
		np := fl.rng(2, 4)
		c := make([]Pt, np)
		for j := range c {
			c[j] = Pt{int16(fl.rng(-200, 1000)), int16(fl.rng(-200, 1000)), fl.intn(4) > 0}
		}
		cc[i] = c
	}
	return cc
}

func put16(b []byte, v int) []byte { return append(b, byte(uint16(v)>>8), byte(v)) }

// genComponent draws one component record (flags consistent with data).
func genComponent(t *rapid.T, target glyph.ID, more, instr bool) glyf.GlyphComponent {
	var fl glyf.ComponentFlag
	var data []byte
	if rapid.Bool().Draw(t, "words") {
		fl |= glyf.FlagArg1And2AreWords
		data = put16(data, rapid.IntRange(-2000, 2000).Draw(t, "a1"))
		data = put16(data, rapid.IntRange(-2000, 2000).Draw(t, "a2"))
	} else {
		data = append(data, byte(rapid.IntRange(-128, 127).Draw(t, "a1")), byte(rapid.IntRange(-128, 127).Draw(t, "a2")))
	}
	if rapid.Bool().Draw(t, "xy") {
		fl |= glyf.FlagArgsAreXYValues
	}
	switch rapid.IntRange(0, 3).Draw(t, "xform") {
	case 1:
		fl |= glyf.FlagWeHaveAScale
		data = put16(data, rapid.IntRange(-32768, 32767).Draw(t, "s"))
	case 2:
		fl |= glyf.FlagWeHaveAnXAndYScale
		data = put16(data, rapid.IntRange(-32768, 32767).Draw(t, "sx"))
		data = put16(data, rapid.IntRange(-32768, 32767).Draw(t, "sy"))
	case 3:
		fl |= glyf.FlagWeHaveATwoByTwo
		for k := 0; k < 4; k++ {
			data = put16(data, rapid.IntRange(-32768, 32767).Draw(t, "m"))
		}
	}
	for _, opt := range []glyf.ComponentFlag{glyf.FlagRoundXYToGrid, glyf.FlagUseMyMetrics, glyf.FlagOverlapCompound, glyf.FlagScaledComponentOffset} {
		if rapid.IntRange(0, 4).Draw(t, "optflag") == 0 {
			fl |= opt
		}
	}
	if more {
		fl |= glyf.FlagMoreComponents
	}
	if instr {
		fl |= glyf.FlagWeHaveInstructions
	}
	return glyf.GlyphComponent{Flags: fl, GlyphIndex: target, Data: data}
}

func rect(t *rapid.T) funit.Rect16 {
	x0 := rapid.IntRange(-500, 500).Draw(t, "llx")
	y0 := rapid.IntRange(-500, 500).Draw(t, "lly")
	return funit.Rect16{LLx: funit.Int16(x0), LLy: funit.Int16(y0),
		URx: funit.Int16(x0 + rapid.IntRange(1, 1500).Draw(t, "w")), URy: funit.Int16(y0 + rapid.IntRange(1, 1500).Draw(t, "h"))}
}

func widthGen() *rapid.Generator[int] {
	return rapid.OneOf(rapid.IntRange(0, 2000), rapid.SampledFrom([]int{0, 500, 500, 600, 1000}), rapid.SampledFrom([]int{1, 255, 256, 4095, 32767}))
}

func genGlyf(t *rapid.T, n int, o Opts, c *Case, fl *filler) *glyf.Outlines {
	gg := make(glyf.Glyphs, n)
	c.Points = make([][][]Pt, n)
	widths := make([]funit.Int16, n)
	small := n <= 60
	// level[i] = 0 for simple/empty; composites refer only to lower levels
	level := make([]int, n)
	var compositeIdx []int
	type simpleRec struct {
		idx, style int
		instr      []byte
	}
	var simple []simpleRec
	for i := 0; i < n; i++ {
		var kind int // 0 empty, 1 simple, 2 composite
		if small {
			kind = rapid.SampledFrom([]int{0, 1, 1, 1, 1, 2}).Draw(t, "glyphKind")
		} else {
			kind = []int{0, 1, 1, 1, 1, 1, 1, 2}[fl.intn(8)]
		}
		if o.NoComposites && kind == 2 {
			kind = 1
		}
		if small {
			widths[i] = funit.Int16(widthGen().Draw(t, "width"))
		} else {
			widths[i] = funit.Int16([]int{500, 500, 600, 250, 1000, 0}[fl.intn(6)] + fl.intn(3)*fl.intn(40))
		}
		switch kind {
		case 0:
			gg[i] = nil
		case 1:
			var cc [][]Pt
			style := 0
			var instr []byte
			if small {
				if rapid.IntRange(0, 30).Draw(t, "zeroContours") == 0 {
					cc = nil
				} else {
					cc = genContours(t)
				}
				style = rapid.IntRange(0, 2).Draw(t, "encStyle")
				if rapid.IntRange(0, 3).Draw(t, "hasInstr") == 0 {
					instr = rapid.SliceOfN(rapid.Byte(), 1, 5).Draw(t, "instr")
				}
			} else {
				cc = fillContours(fl)
				style = fl.intn(3)
			}
			gg[i] = SimpleGlyph(cc, instr, style)
			c.Points[i] = cc
			simple = append(simple, simpleRec{i, style, instr})
		case 2:
			compositeIdx = append(compositeIdx, i)
		}
	}
	// composites: assign levels in index order of a drawn permutation so that
	// references may point forwards or backwards but never form a cycle.
	if len(compositeIdx) == n {
		// no possible component: the first one becomes an empty glyph
		compositeIdx = compositeIdx[1:]
	}
	if len(compositeIdx) > 0 {
		var lower []int // indices available as targets (simple, empty, or finished composites)
		for i := 0; i < n; i++ {
			if !contains(compositeIdx, i) {
				lower = append(lower, i)
			}
		}
		order := append([]int(nil), compositeIdx...)
		if small {
			order = rapid.Permutation(order).Draw(t, "compOrder")
		}
		maxDepth := 0
		for _, i := range order {
			nc := 1
			withInstr := false
			if small {
				nc = rapid.IntRange(1, 3).Draw(t, "nComp")
				withInstr = rapid.IntRange(0, 3).Draw(t, "compInstr") == 0
			} else {
				nc = fl.rng(1, 2)
			}
			comps := make([]glyf.GlyphComponent, nc)
			lv := 0
			for k := range comps {
				var tgt int
				if small {
					tgt = rapid.SampledFrom(lower).Draw(t, "compTarget")
					comps[k] = genComponent(t, glyph.ID(tgt), k < nc-1, withInstr && k == 0)
				} else {
					tgt = lower[fl.intn(len(lower))]
					var f glyf.ComponentFlag = glyf.FlagArgsAreXYValues
					if k < nc-1 {
						f |= glyf.FlagMoreComponents
					}
					comps[k] = glyf.GlyphComponent{Flags: f, GlyphIndex: glyph.ID(tgt), Data: []byte{byte(fl.intn(100)), byte(fl.intn(100))}}
				}
				if level[tgt]+1 > lv {
					lv = level[tgt] + 1
				}
			}
			if lv > 6 { // keep depth ≤ 6: re-point everything at level-0 glyphs
				lv = 1
				for k := range comps {
					comps[k].GlyphIndex = glyph.ID(firstLevel0(level, compositeIdx, n))
				}
			}
			level[i] = lv
			if lv > maxDepth {
				maxDepth = lv
			}
			cg := glyf.CompositeGlyph{Components: comps}
			if withInstr {
				cg.Instructions = rapid.SliceOfN(rapid.Byte(), 0, 4).Draw(t, "cinstr")
				if cg.Instructions == nil {
					cg.Instructions = []byte{}
				}
			}
			var bb funit.Rect16
			if small {
				bb = rect(t)
			} else {
				bb = funit.Rect16{LLx: 0, LLy: 0, URx: funit.Int16(fl.rng(1, 900)), URy: funit.Int16(fl.rng(1, 900))}
			}
			gg[i] = &glyf.Glyph{Rect16: bb, Data: cg}
			lower = append(lower, i)
		}
		c.label("composite")
		c.label(fmt.Sprintf("composite-depth-%d", maxDepth))
	}

	// size class: the glyf table is padded (with instruction bytes, at most
	// 30000 per glyph) to land exactly on or next to the sizes at which the
	// loca format changes (offsets/2 must fit 16 bits: 0x1FFFE is the last
	// size the short format can express) and at which a conservative writer
	// switches (0xFFFF).
	if len(simple) > 0 && (o.BigGlyf || rapid.IntRange(0, 3).Draw(t, "glyfSizeClass") == 0) {
		target := rapid.SampledFrom([]int{0xFFFE, 0x10000, 0x1FFFC, 0x1FFFE, 0x20000, 0x20000, 0x20000, 0x20002}).Draw(t, "glyfSize")
		if o.BigGlyf {
			target = rapid.SampledFrom([]int{0x1FFFE, 0x20000, 0x20002, 0x30000}).Draw(t, "glyfSizeBig")
		}
		need := target - len(gg.Encode().GlyfData)
		const per = 30000
		if need > 0 && need <= per*len(simple) {
			for _, sr := range simple {
				if need == 0 {
					break
				}
				chunk := need
				if chunk > per {
					chunk = per
				}
				body := gg[sr.idx].Data.(glyf.SimpleGlyph).Encoded
				k := chunk + (10+len(body))%2 // the glyph record is padded to even length
				instr := append([]byte(nil), sr.instr...)
				for j := 0; j < k; j++ {
					instr = append(instr, byte(fl.intn(256)))
				}
				gg[sr.idx] = SimpleGlyph(c.Points[sr.idx], instr, sr.style)
				need -= chunk
			}
			if got := len(gg.Encode().GlyfData); got == target {
				c.label(fmt.Sprintf("glyf-size-%#x", target))
			} else {
				c.label("glyf-size-padding-missed")
			}
		}
	}

	out := &glyf.Outlines{Glyphs: gg, Widths: widths}
	switch o.Names {
	case NamesProper:
		if rapid.Bool().Draw(t, "hasNames") {
			out.Names = properNames(t, n, fl)
			c.label("glyf-names")
		}
	case NamesWild:
		switch rapid.IntRange(0, 3).Draw(t, "wildNamesMode") {
		case 0: // none
		case 1:
			out.Names = wildNames(t, n)
		case 2:
			out.Names = properNames(t, n, fl)
		case 3: // short list
			out.Names = wildNames(t, rapid.IntRange(0, n).Draw(t, "shortNames"))
			c.label("short-names")
		}
	}
	if o.NilMaxp && rapid.IntRange(0, 3).Draw(t, "nilMaxp") == 0 {
		// what the reader returns for a TrueType font whose maxp table has
		// the short (version 0.5) form; the writer then emits that form
		out.Maxp = nil
		c.label("tt-maxp-short-form")
	} else {
		// maxp.Info documents TTF as the TrueType part of the table (nil only
		// for CFF fonts): a TrueType font value built in memory carries it.
		u := func(l string) uint16 {
			return uint16(rapid.OneOf(rapid.IntRange(0, 300), rapid.SampledFrom([]int{0, 1, 65535})).Draw(t, l))
		}
		out.Maxp = &maxp.TTFInfo{
			MaxPoints: u("mp"), MaxContours: u("mc"), MaxCompositePoints: u("mcp"), MaxCompositeContours: u("mcc"),
			MaxZones: u("mz"), MaxTwilightPoints: u("mt"), MaxStorage: u("ms"), MaxFunctionDefs: u("mf"),
			MaxInstructionDefs: u("mi"), MaxStackElements: u("mse"), MaxSizeOfInstructions: u("msi"),
			MaxComponentElements: u("mce"), MaxComponentDepth: u("mcd"),
		}
	}
	if rapid.IntRange(0, 2).Draw(t, "hasTables") == 0 {
		out.Tables = map[string][]byte{}
		for _, nm := range []string{"cvt ", "fpgm", "prep", "gasp"} {
			if rapid.Bool().Draw(t, "tbl") {
				out.Tables[nm] = rapid.SliceOfN(rapid.Byte(), 1, 9).Draw(t, "tblData")
			} else if rapid.IntRange(0, 3).Draw(t, "emptyTbl") == 0 {
				out.Tables[nm] = []byte{} // written with length 0, dropped on read
				c.label("tt-empty-extra-table")
			}
		}
		c.label("tt-extra-tables")
	}
	return out
}

func contains(s []int, x int) bool {
	for _, v := range s {
		if v == x {
			return true
		}
	}
	return false
}

func firstLevel0(level []int, comp []int, n int) int {
	for i := 0; i < n; i++ {
		if !contains(comp, i) {
			return i
		}
	}
	return 0
}

// cffCoord draws a coordinate that is exactly representable in 16.16 and
// whose differences are, too: integers and multiples of 1/16.
func cffCoord(t *rapid.T) float64 {
	switch rapid.IntRange(0, 5).Draw(t, "coordKind") {
	case 0:
		return float64(rapid.IntRange(-16000, 16000).Draw(t, "c16")) / 16
	case 1:
		return float64(rapid.SampledFrom([]int{-8000, -1132, -1131, -108, -107, 0, 107, 108, 1131, 1132, 8000}).Draw(t, "cEdge"))
	default:
		return float64(rapid.IntRange(-300, 1200).Draw(t, "c"))
	}
}

func genCFFGlyph(t *rapid.T, name string, width float64, stemHeavy bool) *cff.Glyph {
	g := cff.NewGlyph(name, width)
	nsub := rapid.IntRange(0, 3).Draw(t, "nSubpaths")
	for s := 0; s < nsub; s++ {
		g.MoveTo(cffCoord(t), cffCoord(t))
		nseg := rapid.IntRange(0, 6).Draw(t, "nSeg")
		x, y := g.Cmds[len(g.Cmds)-1].Args[0], g.Cmds[len(g.Cmds)-1].Args[1]
		for k := 0; k < nseg; k++ {
			switch rapid.IntRange(0, 6).Draw(t, "segKind") {
			case 5:
				// a curve whose first and last tangents are horizontal or
				// vertical (the shapes the compact curve operators encode)
				d := func() float64 { return float64(rapid.IntRange(-200, 200).Draw(t, "tanD")) }
				x1, y1 := x, y
				if rapid.Bool().Draw(t, "startH") {
					x1 += d()
				} else {
					y1 += d()
				}
				x2, y2 := x1+d(), y1+d()
				x3, y3 := x2, y2
				if rapid.Bool().Draw(t, "endH") {
					x3 += d()
				} else {
					y3 += d()
				}
				g.CurveTo(x1, y1, x2, y2, x3, y3)
				x, y = x3, y3
			case 6:
				// two curves joined with horizontal tangents throughout, as in
				// the flex operators; the second returns to the starting
				// height exactly, nearly, or not at all
				d := func() float64 { return float64(rapid.IntRange(-150, 150).Draw(t, "flexD")) }
				x1 := x + d()
				x2, y2 := x1+d(), y+d()
				x3 := x2 + d()
				g.CurveTo(x1, y, x2, y2, x3, y2)
				x4 := x3 + d()
				x5 := x4 + d()
				y5 := y
				switch rapid.IntRange(0, 2).Draw(t, "flexReturn") {
				case 1:
					y5 = y + float64(rapid.SampledFrom([]int{-2, -1, 1, 2}).Draw(t, "flexOff"))
				case 2:
					y5 = y2 + d()
				}
				x6 := x5 + d()
				g.CurveTo(x4, y2, x5, y5, x6, y5)
				x, y = x6, y5
			case 0:
				x = cffCoord(t)
				g.LineTo(x, y) // horizontal
			case 1:
				y = cffCoord(t)
				g.LineTo(x, y) // vertical
			case 2:
				x, y = cffCoord(t), cffCoord(t)
				g.LineTo(x, y)
			default:
				x1, y1, x2, y2 := cffCoord(t), cffCoord(t), cffCoord(t), cffCoord(t)
				x, y = cffCoord(t), cffCoord(t)
				g.CurveTo(x1, y1, x2, y2, x, y)
			}
		}
	}
	if rapid.IntRange(0, 3).Draw(t, "stems") == 0 {
		g.HStem = stemList(t)
		g.VStem = stemList(t)
	} else if stemHeavy && rapid.Bool().Draw(t, "fullStemList") {
		// exactly at the capacity of one stem operator, +-1
		var pos float64
		for i := 2 * rapid.IntRange(23, 25).Draw(t, "nStemPairs"); i > 0; i-- {
			pos += float64(rapid.IntRange(1, 40).Draw(t, "stemD"))
			g.HStem = append(g.HStem, pos)
		}
		if rapid.Bool().Draw(t, "vInstead") {
			g.HStem, g.VStem = nil, g.HStem
		}
	}
	return g
}

func stemList(t *rapid.T) []float64 {
	// a few stems, or about as many as one stem operator can take (24 pairs
	// fill the 48-entry operand stack; a width operand in front leaves room
	// for 23)
	n := rapid.OneOf(rapid.IntRange(0, 3), rapid.IntRange(0, 3), rapid.IntRange(0, 3), rapid.IntRange(22, 26)).Draw(t, "nStems")
	var res []float64
	pos := float64(rapid.IntRange(-200, 200).Draw(t, "stem0"))
	for i := 0; i < 2*n; i++ {
		pos += float64(rapid.IntRange(1, 200).Draw(t, "stemD"))
		res = append(res, pos)
	}
	return res
}

func fillCFFGlyph(fl *filler, name string, width float64) *cff.Glyph {
	g := cff.NewGlyph(name, width)
	if fl.intn(6) == 0 {
		return g
	}
	x, y := float64(fl.rng(-100, 500)), float64(fl.rng(-100, 500))
	g.MoveTo(x, y)
	for k := fl.rng(1, 4); k > 0; k-- {
		x, y = float64(fl.rng(-100, 900)), float64(fl.rng(-100, 900))
		if fl.intn(3) == 0 {
			g.CurveTo(x-10, y+5, x-3, y+2, x, y)
		} else {
			g.LineTo(x, y)
		}
	}
	return g
}

func genPrivate(t *rapid.T) *type1.PrivateDict {
	p := &type1.PrivateDict{BlueScale: 0.039625, BlueShift: 7, BlueFuzz: 1}
	if rapid.Bool().Draw(t, "blues") {
		nb := rapid.IntRange(1, 3).Draw(t, "nBlues")
		v := rapid.IntRange(-300, 0).Draw(t, "blue0")
		for i := 0; i < 2*nb; i++ {
			p.BlueValues = append(p.BlueValues, funit.Int16(v))
			v += rapid.IntRange(1, 300).Draw(t, "blueD")
		}
	}
	if rapid.IntRange(0, 2).Draw(t, "otherBlues") == 0 {
		v := rapid.IntRange(-600, -300).Draw(t, "ob0")
		p.OtherBlues = []funit.Int16{funit.Int16(v), funit.Int16(v + rapid.IntRange(1, 50).Draw(t, "obD"))}
	}
	if rapid.IntRange(0, 2).Draw(t, "privNums") == 0 {
		p.BlueScale = float64(rapid.IntRange(1, 99999).Draw(t, "blueScale")) / 1000000
		p.BlueShift = int32(rapid.IntRange(0, 50).Draw(t, "blueShift"))
		p.BlueFuzz = int32(rapid.IntRange(0, 10).Draw(t, "blueFuzz"))
		p.StdHW = float64(rapid.IntRange(0, 300).Draw(t, "stdhw"))
		p.StdVW = float64(rapid.IntRange(0, 2400).Draw(t, "stdvw")) / 8
		p.ForceBold = rapid.Bool().Draw(t, "forceBold")
	}
	return p
}

func genCFF(t *rapid.T, n int, cidKeyed bool, o Opts, c *Case, fl *filler) *cff.Outlines {
	out := &cff.Outlines{}
	small := n <= 60
	var names []string
	if !cidKeyed {
		if o.Names == NamesWild {
			names = wildNames(t, n)
			names[0] = ".notdef"
		} else {
			names = properNames(t, n, fl)
		}
	} else {
		names = make([]string, n)
		if o.Names == NamesWild && rapid.Bool().Draw(t, "cidNames") {
			names = wildNames(t, n)
		}
	}
	out.Glyphs = make([]*cff.Glyph, n)
	for i := range out.Glyphs {
		if small {
			out.Glyphs[i] = genCFFGlyph(t, names[i], float64(widthGen().Draw(t, "width")), o.StemHeavy)
		} else {
			w := float64([]int{500, 500, 600, 250, 1000, 0}[fl.intn(6)] + fl.intn(3)*fl.intn(40))
			out.Glyphs[i] = fillCFFGlyph(fl, names[i], w)
		}
	}
	if !cidKeyed {
		out.Private = []*type1.PrivateDict{genPrivate(t)}
		out.FDSelect = func(glyph.ID) int { return 0 }
		switch rapid.IntRange(0, 3).Draw(t, "encKind") {
		case 3:
			// free encoding: any codes for any glyphs, in any order, glyphs
			// with several codes and glyphs without one (needs supplemental
			// codes in the file)
			enc := make([]glyph.ID, 256)
			if n > 1 {
				for i := rapid.IntRange(1, 40).Draw(t, "encFreeN"); i > 0; i-- {
					enc[rapid.IntRange(0, 255).Draw(t, "encCode")] = glyph.ID(rapid.IntRange(1, n-1).Draw(t, "encGid"))
				}
			}
			out.Encoding = enc
			c.label("custom-encoding")
			c.label("free-encoding")
		case 0: // nil = standard encoding
		case 1:
			out.Encoding = cff.StandardEncoding(out.Glyphs)
		case 2:
			// custom encoding obeying the contiguity rule: glyphs 1..k get
			// codes in increasing gid order
			enc := make([]glyph.ID, 256)
			k := rapid.IntRange(0, min(n-1, 200)).Draw(t, "encN")
			code := rapid.IntRange(0, 40).Draw(t, "encStart")
			for gid := 1; gid <= k && code < 256; gid++ {
				enc[code] = glyph.ID(gid)
				code += rapid.SampledFrom([]int{1, 1, 1, 2, 5}).Draw(t, "encStep")
			}
			out.Encoding = enc
			c.label("custom-encoding")
		}
	} else {
		nfd := rapid.SampledFrom([]int{1, 1, 2, 3, 5}).Draw(t, "nFD")
		if n > 1000 && rapid.IntRange(0, 3).Draw(t, "manyFD") == 0 {
			nfd = rapid.IntRange(6, 256).Draw(t, "nFDmany")
		}
		out.Private = make([]*type1.PrivateDict, nfd)
		out.FontMatrices = make([]matrix.Matrix, nfd)
		for i := range out.Private {
			out.Private[i] = genPrivate(t)
			out.FontMatrices[i] = matrix.Identity
			if rapid.IntRange(0, 3).Draw(t, "fdMatrix") == 0 {
				s := float64(rapid.IntRange(1, 40).Draw(t, "fdScale")) / 8
				out.FontMatrices[i] = matrix.Matrix{s, 0, 0, s, 0, 0}
			}
		}
		sel := make([]int, n)
		if nfd > 1 {
			// run structure
			cur := 0
			for i := range sel {
				if small {
					if rapid.IntRange(0, 2).Draw(t, "fdSwitch") == 0 {
						cur = rapid.IntRange(0, nfd-1).Draw(t, "fd")
					}
				} else if fl.intn(50) == 0 {
					cur = fl.intn(nfd)
				}
				sel[i] = cur
			}
			c.label("multi-fd")
		}
		out.FDSelect = func(gid glyph.ID) int { return sel[gid] }
		out.ROS = &cid.SystemInfo{
			Registry:   rapid.SampledFrom([]string{"Adobe", "Verif"}).Draw(t, "registry"),
			Ordering:   rapid.SampledFrom([]string{"Identity", "Japan1", "Test"}).Draw(t, "ordering"),
			Supplement: int32(rapid.IntRange(0, 7).Draw(t, "supplement")),
		}
		out.GIDToCID = make([]cid.CID, n)
		cur := 0
		for i := 1; i < n; i++ {
			if small {
				cur += rapid.SampledFrom([]int{1, 1, 1, 2, 7, 100}).Draw(t, "cidStep")
			} else {
				cur += 1 + fl.intn(2)*fl.intn(3)
			}
			if room := 65535 - (n - 1 - i); cur > room {
				// CIDs are 16-bit numbers: the remaining glyphs need one each
				cur = room
			}
			out.GIDToCID[i] = cid.CID(cur)
		}
	}
	return out
}

// ---- cmap ----------------------------------------------------------------

var cmapRunes = []rune{'A', 'B', 'H', 'a', 'b', 'f', 'i', 'l', 'x', ' ', 'é', 'Ω', 0x0301, 0x2014, 0xFFFD}

// genCmap draws rune→gid and installs format 4 and/or format 12 subtables.
func genCmap(t *rapid.T, n int, o Opts, noLiga bool, c *Case, fl *filler) (cmap.Table, map[rune]glyph.ID) {
	m := map[rune]glyph.ID{}
	if n < 2 {
		return nil, m
	}
	cnt := rapid.IntRange(0, min(2*n, 60)).Draw(t, "cmapN")
	wide := !o.NoWideCmap && rapid.IntRange(0, 3).Draw(t, "cmapWide") == 0
	for i := 0; i < cnt; i++ {
		var r rune
		switch rapid.IntRange(0, 4).Draw(t, "runeKind") {
		case 0, 1:
			r = rapid.SampledFrom(cmapRunes).Draw(t, "r")
		case 2:
			r = rune(rapid.IntRange(0x20, 0x17F).Draw(t, "r"))
		case 3:
			r = rune(rapid.IntRange(0xFB00, 0xFB04).Draw(t, "r"))
		default:
			if wide {
				r = rune(rapid.IntRange(0x10000, 0x10FFFF).Draw(t, "r"))
			} else {
				r = rune(rapid.IntRange(0x20, 0xFFFD).Draw(t, "r"))
			}
		}
		if r >= 0xD800 && r < 0xE000 {
			continue
		}
		if noLiga && r >= 0xFB00 && r <= 0xFB04 {
			continue
		}
		m[r] = glyph.ID(rapid.IntRange(1, n-1).Draw(t, "gid"))
	}
	if n > 300 { // bulk: a long run plus scattered points
		start := rune(0x4E00)
		for i := 1; i < n && i < 3000; i++ {
			if fl.intn(4) > 0 {
				m[start+rune(i)] = glyph.ID(i)
			}
		}
	}
	if len(m) == 0 && rapid.Bool().Draw(t, "nilCmap") {
		return nil, m
	}
	tbl := cmap.Table{}
	isWide := false
	f4 := cmap.Format4{}
	f12 := cmap.Format12{}
	for r, g := range m {
		if r > 0xFFFF {
			isWide = true
		} else {
			f4[uint16(r)] = g
		}
		f12[uint32(r)] = g
	}
	lang := uint16(0)
	if isWide || rapid.IntRange(0, 4).Draw(t, "force12") == 0 {
		// under the Unicode key, the Windows key or both (the same bytes:
		// the writer stores them once, wherever the two keys stand in the
		// sorted list of encoding records)
		b := f12.Encode(lang)
		which := rapid.SampledFrom([]int{3, 3, 3, 1, 2}).Draw(t, "keys12")
		if which&1 != 0 {
			tbl[cmap.Key{PlatformID: 0, EncodingID: 4}] = b
		}
		if which&2 != 0 {
			tbl[cmap.Key{PlatformID: 3, EncodingID: 10}] = b
		}
		c.label("cmap-format12")
	}
	if !isWide || rapid.Bool().Draw(t, "alsoBMP") {
		b := f4.Encode(lang)
		which := rapid.SampledFrom([]int{3, 3, 1, 1, 2}).Draw(t, "keys4")
		if which&1 != 0 {
			tbl[cmap.Key{PlatformID: 0, EncodingID: 3}] = b
		}
		if which&2 != 0 {
			tbl[cmap.Key{PlatformID: 3, EncodingID: 1}] = b
		}
		c.label("cmap-format4")
	}
	if rapid.IntRange(0, 5).Draw(t, "macKeys") == 0 {
		// Macintosh subtables for one or two languages (same platform and
		// encoding, different language field)
		mac := cmap.Format4{}
		for r, g := range m {
			if r < 0x80 {
				mac[uint16(r)] = g
			}
		}
		if rapid.Bool().Draw(t, "macHighCodes") {
			// codes 0x80..0xFF of a Macintosh subtable are Mac Roman codes,
			// not Unicode code points (0x8A is a-dieresis, U+00E4)
			for i := rapid.IntRange(1, 4).Draw(t, "nMacHigh"); i > 0; i-- {
				mac[uint16(rapid.IntRange(0x80, 0xFF).Draw(t, "macCode"))] = glyph.ID(rapid.IntRange(1, n-1).Draw(t, "macGid"))
			}
			c.label("cmap-mac-high-codes")
		}
		langs := rapid.SampledFrom([][]uint16{{0}, {0, 2}, {5, 1}, {0, 1, 2}}).Draw(t, "macLangs")
		for _, l := range langs {
			tbl[cmap.Key{PlatformID: 1, EncodingID: 0, Language: l}] = mac.Encode(l)
		}
		c.label(fmt.Sprintf("cmap-mac-%d", len(langs)))
	}
	if rapid.IntRange(0, 7).Draw(t, "interleavedSharing") == 0 && len(f4) > 0 {
		// the layout many real fonts have: one BMP subtable under the Unicode
		// and the Windows key with a Macintosh subtable standing between them
		// in the sorted list of records, and a full-repertoire subtable last
		a := f4.Encode(lang)
		mac := cmap.Format4{}
		for r, g := range m {
			if r < 0x80 {
				mac[uint16(r)] = g
			}
		}
		tbl = cmap.Table{
			{PlatformID: 0, EncodingID: 3}:  a,
			{PlatformID: 1, EncodingID: 0}:  mac.Encode(0),
			{PlatformID: 3, EncodingID: 1}:  a,
			{PlatformID: 3, EncodingID: 10}: f12.Encode(lang),
		}
		c.label("cmap-interleaved-sharing")
	}
	if n <= 256 && rapid.IntRange(0, 5).Draw(t, "byteEncodingKeys") == 0 {
		// a byte encoding table (format 0) under a key that is not the
		// Macintosh one: codes 0..255 are character codes as they stand
		// (symbol fonts, old Unicode-keyed tables)
		b0 := &cmap.Format0{}
		for r, g := range m {
			if r < 256 {
				b0.Data[r] = byte(g)
			}
		}
		if rapid.Bool().Draw(t, "byteEncodingExtra") {
			b0.Data[rapid.IntRange(0, 255).Draw(t, "byteCode")] = byte(rapid.IntRange(1, n-1).Draw(t, "byteGid"))
		}
		key := rapid.SampledFrom([]cmap.Key{{PlatformID: 3, EncodingID: 0}, {PlatformID: 0, EncodingID: 0}, {PlatformID: 0, EncodingID: 1}}).Draw(t, "byteEncodingKey")
		tbl[key] = b0.Encode(0)
		c.label("cmap-format0-not-mac")
	}
	return tbl, m
}

// ---- layout tables -------------------------------------------------------

// Canonical script-list tags (the form gtab.Read returns).
var tagPool = []string{"und-Latn-x-latn", "de-Latn-x-latn-deu", "und-Cyrl-x-cyrl", "und-Grek-x-grek", "tr-Latn-x-latn-trk", "und-Zzzz-x-dflt"}

func gidGen(n int) *rapid.Generator[int] { return rapid.IntRange(0, n-1) }

func genCovTable(t *rapid.T, n int, maxN int) (coverage.Table, []glyph.ID) {
	k := rapid.IntRange(1, min(maxN, n)).Draw(t, "covN")
	set := map[glyph.ID]bool{}
	for i := 0; i < k; i++ {
		set[glyph.ID(gidGen(n).Draw(t, "covGid"))] = true
	}
	keys := make([]glyph.ID, 0, len(set))
	for g := range set {
		keys = append(keys, g)
	}
	sort.Slice(keys, func(i, j int) bool { return keys[i] < keys[j] })
	cov := coverage.Table{}
	for i, g := range keys {
		cov[g] = i
	}
	return cov, keys
}

func genValueRecord(t *rapid.T) *gtab.GposValueRecord {
	v := &gtab.GposValueRecord{}
	if rapid.Bool().Draw(t, "vrXA") {
		v.XAdvance = funit.Int16(rapid.IntRange(-200, 200).Draw(t, "xa"))
	}
	if rapid.IntRange(0, 2).Draw(t, "vrXP") == 0 {
		v.XPlacement = funit.Int16(rapid.IntRange(-200, 200).Draw(t, "xp"))
	}
	if rapid.IntRange(0, 2).Draw(t, "vrYP") == 0 {
		v.YPlacement = funit.Int16(rapid.IntRange(-200, 200).Draw(t, "yp"))
	}
	if *v == (gtab.GposValueRecord{}) {
		v.XAdvance = 10
	}
	return v
}

// genGsubLookup draws a GSUB lookup.  A third of the lookups get one or two
// further subtables of the same kind, drawn independently, so that coverage
// tables overlap and the first-matching-subtable rule decides.
func genGsubLookup(t *rapid.T, n int, subsetOnly bool) *gtab.LookupTable {
	lt := genGsubLookup1(t, n, subsetOnly, 0)
	if rapid.IntRange(0, 2).Draw(t, "moreSubtables") == 0 {
		kind := map[bool]int{true: 1, false: 4}[func() bool { _, ok := lt.Subtables[0].(*gtab.Gsub1_1); return ok }()]
		switch lt.Subtables[0].(type) {
		case *gtab.Gsub1_1, *gtab.Gsub4_1:
			for i := rapid.IntRange(1, 2).Draw(t, "nMoreSubtables"); i > 0; i-- {
				lt.Subtables = append(lt.Subtables, genGsubLookup1(t, n, subsetOnly, kind).Subtables[0])
			}
		}
	}
	return lt
}

func genGsubLookup1(t *rapid.T, n int, subsetOnly bool, force int) *gtab.LookupTable {
	kinds := []int{1, 2, 4, 12, 3}
	if force != 0 {
		kinds = []int{force}
	}
	if subsetOnly && force == 0 {
		kinds = []int{1, 4}
	}
	switch rapid.SampledFrom(kinds).Draw(t, "gsubType") {
	case 12:
		cov, keys := genCovTable(t, n, 5)
		subst := make([]glyph.ID, len(keys))
		for i := range subst {
			subst[i] = glyph.ID(gidGen(n).Draw(t, "substGid"))
		}
		return &gtab.LookupTable{Meta: &gtab.LookupMetaInfo{LookupType: 1},
			Subtables: []gtab.Subtable{&gtab.Gsub1_2{Cov: cov, SubstituteGlyphIDs: subst}}}
	case 3:
		cov, keys := genCovTable(t, n, 4)
		alts := make([][]glyph.ID, len(keys))
		for i := range alts {
			k := rapid.IntRange(1, 3).Draw(t, "altN")
			for j := 0; j < k; j++ {
				alts[i] = append(alts[i], glyph.ID(gidGen(n).Draw(t, "altGid")))
			}
		}
		return &gtab.LookupTable{Meta: &gtab.LookupMetaInfo{LookupType: 3},
			Subtables: []gtab.Subtable{&gtab.Gsub3_1{Cov: cov, Alternates: alts}}}
	case 1:
		cov, keys := genCovTable(t, n, 5)
		_ = cov
		maxG := keys[len(keys)-1]
		minG := keys[0]
		// delta such that all results stay within 0..n-1
		lo, hi := -int(minG), n-1-int(maxG)
		d := rapid.IntRange(lo, hi).Draw(t, "delta")
		set := coverage.Set{}
		for _, g := range keys {
			set[g] = true
		}
		return &gtab.LookupTable{Meta: &gtab.LookupMetaInfo{LookupType: 1},
			Subtables: []gtab.Subtable{&gtab.Gsub1_1{Cov: set, Delta: glyph.ID(uint16(int16(d)))}}}
	case 2:
		cov, keys := genCovTable(t, n, 4)
		repl := make([][]glyph.ID, len(keys))
		for i := range repl {
			k := rapid.IntRange(1, 3).Draw(t, "replN")
			for j := 0; j < k; j++ {
				repl[i] = append(repl[i], glyph.ID(gidGen(n).Draw(t, "replGid")))
			}
		}
		return &gtab.LookupTable{Meta: &gtab.LookupMetaInfo{LookupType: 2},
			Subtables: []gtab.Subtable{&gtab.Gsub2_1{Cov: cov, Repl: repl}}}
	default:
		cov, keys := genCovTable(t, n, 3)
		repl := make([][]gtab.Ligature, len(keys))
		for i := range repl {
			k := rapid.IntRange(1, 3).Draw(t, "ligN")
			seen := map[string]bool{}
			for j := 0; j < k; j++ {
				m := rapid.IntRange(1, 3).Draw(t, "ligLen")
				in := make([]glyph.ID, m)
				for q := range in {
					in[q] = glyph.ID(gidGen(n).Draw(t, "ligIn"))
				}
				// a ligature behind a shorter one that is its prefix (it never
				// fires: the order inside a set is part of the font), or in
				// front of it
				if len(repl[i]) > 0 && rapid.Bool().Draw(t, "ligPrefix") {
					prev := repl[i][rapid.IntRange(0, len(repl[i])-1).Draw(t, "ligPrefixOf")].In
					if rapid.Bool().Draw(t, "ligLonger") {
						in = append(append([]glyph.ID{}, prev...), in...)
					} else if len(prev) > 1 {
						in = append([]glyph.ID{}, prev[:rapid.IntRange(1, len(prev)-1).Draw(t, "ligShorter")]...)
					}
				}
				key := fmt.Sprint(in)
				if seen[key] {
					continue
				}
				seen[key] = true
				repl[i] = append(repl[i], gtab.Ligature{In: in, Out: glyph.ID(gidGen(n).Draw(t, "ligOut"))})
			}
		}
		return &gtab.LookupTable{Meta: &gtab.LookupMetaInfo{LookupType: 4},
			Subtables: []gtab.Subtable{&gtab.Gsub4_1{Cov: cov, Repl: repl}}}
	}
}

func genGposLookup(t *rapid.T, n int, subsetOnly bool) *gtab.LookupTable {
	k := 2
	if !subsetOnly {
		k = rapid.SampledFrom([]int{1, 2, 2}).Draw(t, "gposType")
	}
	if k == 1 {
		cov, _ := genCovTable(t, n, 5)
		return &gtab.LookupTable{Meta: &gtab.LookupMetaInfo{LookupType: 1},
			Subtables: []gtab.Subtable{&gtab.Gpos1_1{Cov: cov, Adjust: genValueRecord(t)}}}
	}
	// one to three pair subtables; later subtables repeat pairs of earlier
	// ones (the first subtable listing a pair decides), and a pair may carry
	// an all-zero adjustment, which is how a font exempts one pair from the
	// kerning a later subtable gives it
	lt := &gtab.LookupTable{Meta: &gtab.LookupMetaInfo{LookupType: 2}}
	var earlier []glyph.Pair
	for k := rapid.SampledFrom([]int{1, 1, 2, 3}).Draw(t, "nPairSubtables"); k > 0; k-- {
		sub := gtab.Gpos2_1{}
		np := rapid.IntRange(1, 6).Draw(t, "nPairs")
		nonZero := false
		for i := 0; i < np; i++ {
			p := glyph.Pair{Left: glyph.ID(gidGen(n).Draw(t, "pl")), Right: glyph.ID(gidGen(n).Draw(t, "pr"))}
			if len(earlier) > 0 && rapid.IntRange(0, 2).Draw(t, "repeatPair") == 0 {
				p = rapid.SampledFrom(earlier).Draw(t, "earlierPair")
			}
			v := rapid.IntRange(-300, 300).Draw(t, "kern")
			if rapid.IntRange(0, 5).Draw(t, "zeroPair") == 0 && (nonZero || i < np-1) {
				v = 0
			}
			if i == np-1 && !nonZero && v == 0 {
				v = 10 // the value format of the subtable has at least one field
			}
			nonZero = nonZero || v != 0
			sub[p] = &gtab.PairAdjust{First: &gtab.GposValueRecord{XAdvance: funit.Int16(v)}}
			earlier = append(earlier, p)
		}
		hasNonZero := false
		for _, a := range sub {
			hasNonZero = hasNonZero || a.First.XAdvance != 0
		}
		if !hasNonZero {
			// (a repeated key replaced the only non-zero pair) deterministic choice: the smallest pair
			var first *glyph.Pair
			for p := range sub {
				p := p
				if first == nil || p.Left < first.Left || (p.Left == first.Left && p.Right < first.Right) {
					first = &p
				}
			}
			sub[*first].First.XAdvance = 10
		}
		lt.Subtables = append(lt.Subtables, sub)
	}
	return lt
}

func genInfo(t *rapid.T, n int, gsub, subsetOnly bool) *gtab.Info {
	if !subsetOnly && rapid.IntRange(0, 11).Draw(t, "emptyInfo") == 0 {
		// a table that is present but has no lookups (what gtab.Read returns
		// for a header without lists)
		return &gtab.Info{ScriptList: gtab.ScriptListInfo{}}
	}
	nl := rapid.IntRange(1, 3).Draw(t, "nLookups")
	info := &gtab.Info{ScriptList: gtab.ScriptListInfo{}}
	for i := 0; i < nl; i++ {
		if gsub {
			info.LookupList = append(info.LookupList, genGsubLookup(t, n, subsetOnly))
		} else {
			info.LookupList = append(info.LookupList, genGposLookup(t, n, subsetOnly))
		}
	}
	tags := []string{"liga", "ccmp", "calt", "smcp"}
	if !gsub {
		tags = []string{"kern", "mark", "cpsp"}
	}
	nf := rapid.IntRange(1, 3).Draw(t, "nFeatures")
	for i := 0; i < nf; i++ {
		f := &gtab.Feature{Tag: rapid.SampledFrom(tags).Draw(t, "ftag")}
		k := rapid.IntRange(1, nl).Draw(t, "fLookups")
		seen := map[int]bool{}
		for j := 0; j < k; j++ {
			li := rapid.IntRange(0, nl-1).Draw(t, "fl")
			if !seen[li] {
				seen[li] = true
				f.Lookups = append(f.Lookups, gtab.LookupIndex(li))
			}
		}
		sort.Slice(f.Lookups, func(a, b int) bool { return f.Lookups[a] < f.Lookups[b] })
		info.FeatureList = append(info.FeatureList, f)
	}
	ns := rapid.IntRange(1, 2).Draw(t, "nScripts")
	for i := 0; i < ns; i++ {
		tag := language.MustParse(rapid.SampledFrom(tagPool).Draw(t, "stag"))
		ff := &gtab.Features{Required: 0xFFFF}
		if rapid.IntRange(0, 3).Draw(t, "hasReq") == 0 {
			ff.Required = gtab.FeatureIndex(rapid.IntRange(0, nf-1).Draw(t, "req"))
		}
		for j := 0; j < nf; j++ {
			if rapid.Bool().Draw(t, "opt") {
				ff.Optional = append(ff.Optional, gtab.FeatureIndex(j))
			}
		}
		info.ScriptList[tag] = ff
	}
	return info
}

func genGdef(t *rapid.T, n int) *gdef.Table {
	g := &gdef.Table{GlyphClass: classdef.Table{}}
	k := rapid.IntRange(1, min(n, 8)).Draw(t, "gdefN")
	for i := 0; i < k; i++ {
		g.GlyphClass[glyph.ID(gidGen(n).Draw(t, "gdGid"))] = uint16(rapid.IntRange(1, 4).Draw(t, "gdClass"))
	}
	if rapid.IntRange(0, 2).Draw(t, "markAttach") == 0 {
		g.MarkAttachClass = classdef.Table{}
		for i := 0; i < 3; i++ {
			g.MarkAttachClass[glyph.ID(gidGen(n).Draw(t, "maGid"))] = uint16(rapid.IntRange(1, 3).Draw(t, "maClass"))
		}
	}
	if rapid.IntRange(0, 2).Draw(t, "markSets") == 0 {
		ns := rapid.IntRange(1, 2).Draw(t, "nMarkSets")
		for i := 0; i < ns; i++ {
			s := coverage.Set{}
			for j := 0; j < 2; j++ {
				s[glyph.ID(gidGen(n).Draw(t, "msGid"))] = true
			}
			g.MarkGlyphSets = append(g.MarkGlyphSets, s)
		}
	}
	return g
}

// ---- the font --------------------------------------------------------------

func i16(label string) func(t *rapid.T) funit.Int16 {
	return func(t *rapid.T) funit.Int16 {
		return funit.Int16(rapid.OneOf(rapid.IntRange(-1000, 2000), rapid.SampledFrom([]int{-32768, -1, 0, 1, 32767})).Draw(t, label))
	}
}

// Gen returns the generator of font cases.
func Gen(o Opts) *rapid.Generator[*Case] {
	if o.MinGlyphs < 1 {
		o.MinGlyphs = 1
	}
	if o.MaxGlyphs < o.MinGlyphs {
		o.MaxGlyphs = 40
		if o.MaxGlyphs < o.MinGlyphs {
			o.MaxGlyphs = o.MinGlyphs
		}
	}
	return rapid.Custom(func(t *rapid.T) *Case {
		c := &Case{}
		kind := o.Kind
		if kind == KindAny {
			kind = rapid.SampledFrom([]Kind{KindGlyf, KindGlyf, KindCFF, KindCFF, KindCID}).Draw(t, "kind")
		}
		c.Kind = kind
		c.label("kind-" + kind.String())
		var n int
		switch {
		case o.MaxGlyphs <= 8:
			n = rapid.IntRange(o.MinGlyphs, o.MaxGlyphs).Draw(t, "nGlyphs")
		default:
			n = rapid.OneOf(
				rapid.IntRange(o.MinGlyphs, max(o.MinGlyphs, min(o.MaxGlyphs, 8))),
				rapid.IntRange(o.MinGlyphs, max(o.MinGlyphs, min(o.MaxGlyphs, 40))),
				rapid.IntRange(o.MinGlyphs, o.MaxGlyphs),
			).Draw(t, "nGlyphs")
			if o.MaxGlyphs >= 259 && rapid.IntRange(0, 9).Draw(t, "n258") == 0 {
				n = rapid.IntRange(257, 259).Draw(t, "nGlyphs258")
			}
		}
		fl := &filler{s: rapid.Uint64().Draw(t, "fillSeed")}
		switch {
		case n == 1:
			c.label("glyphs-1")
		case n <= 40:
			c.label("glyphs-2..40")
		case n <= 300:
			c.label("glyphs-41..300")
		case n <= 3000:
			c.label("glyphs-301..3000")
		default:
			c.label("glyphs->3000")
		}

		f := &sfnt.Font{}
		switch kind {
		case KindGlyf:
			f.Outlines = genGlyf(t, n, o, c, fl)
		case KindCFF:
			f.Outlines = genCFF(t, n, false, o, c, fl)
		case KindCID:
			f.Outlines = genCFF(t, n, true, o, c, fl)
		}

		// a font in which every advance width is zero (hmtx still needs one
		// long metric; numberOfHMetrics cannot shrink to nothing)
		if rapid.IntRange(0, 24).Draw(t, "allWidthsZero") == 0 {
			switch o := f.Outlines.(type) {
			case *glyf.Outlines:
				for i := range o.Widths {
					o.Widths[i] = 0
				}
			case *cff.Outlines:
				for _, g := range o.Glyphs {
					g.Width = 0
				}
			}
			c.label("all-widths-zero")
		}

		// layout tables
		hasGsub, hasGpos, hasGdef := false, false, false
		switch o.Layout {
		case LayoutMaybe:
			hasGsub = rapid.Bool().Draw(t, "hasGsub")
			hasGpos = rapid.Bool().Draw(t, "hasGpos")
			hasGdef = rapid.Bool().Draw(t, "hasGdef")
		case LayoutAll:
			hasGsub, hasGpos, hasGdef = true, true, true
		case LayoutSubset:
			hasGsub = rapid.Bool().Draw(t, "hasGsub")
			hasGpos = rapid.Bool().Draw(t, "hasGpos")
		}
		if n < 2 {
			hasGsub, hasGpos, hasGdef = false, false, false
		}
		f.CMapTable, _ = genCmap(t, n, o, !hasGsub, c, fl)
		if hasGsub {
			f.Gsub = genInfo(t, n, true, o.Layout == LayoutSubset)
			c.label("gsub")
		}
		if hasGpos {
			f.Gpos = genInfo(t, n, false, o.Layout == LayoutSubset)
			c.label("gpos")
		}
		if hasGdef {
			f.Gdef = genGdef(t, n)
			c.label("gdef")
		}

		// names and strings
		f.FamilyName = rapid.OneOf(rapid.SampledFrom([]string{"Test", "Verif Sans", "Bold Face", "Fünf"}),
			// family names that contain the words subfamily names are made of
			rapid.SampledFrom([]string{"Italic Hand", "Oblique Strategies", "Regular Joe", "Semi Bold Italic", "Thin Light",
				"Black Medium", "Extra Bold", "Condensed Bold Oblique", "Ultra Expanded", "Bolder", "italic", "BoldItalic"}),
			Text(12)).Draw(t, "family")
		if f.FamilyName == "" {
			f.FamilyName = "F"
		}
		f.Description = Text(20).Draw(t, "description")
		f.SampleText = Text(20).Draw(t, "sample")
		f.Copyright = Text(20).Draw(t, "copyright")
		f.Trademark = Text(12).Draw(t, "trademark")
		f.License = Text(12).Draw(t, "license")
		f.LicenseURL = Text(12).Draw(t, "licenseURL")

		f.Width = os2.Width(rapid.IntRange(1, 9).Draw(t, "widthClass"))
		f.Weight = os2.Weight(rapid.OneOf(rapid.SampledFrom([]int{100, 200, 300, 400, 400, 500, 600, 700, 800, 900}), rapid.IntRange(1, 1000)).Draw(t, "weight"))
		f.IsBold = rapid.Bool().Draw(t, "isBold")
		f.IsItalic = rapid.Bool().Draw(t, "isItalic")
		f.IsOblique = rapid.IntRange(0, 3).Draw(t, "isOblique") == 0
		f.IsRegular = rapid.Bool().Draw(t, "isRegular")
		if f.IsBold {
			// OS/2 fsSelection: REGULAR excludes BOLD; a font value with both
			// set is contradictory and outside the representable domain
			f.IsRegular = false
		}
		f.IsSerif = rapid.Bool().Draw(t, "isSerif")
		f.IsScript = rapid.IntRange(0, 3).Draw(t, "isScript") == 0
		f.CodePageRange = os2.CodePageRange(rapid.OneOf(rapid.Just(uint64(0)), rapid.Just(uint64(1)), rapid.Uint64()).Draw(t, "codePages"))
		f.PermUse = os2.Permissions(rapid.IntRange(0, 3).Draw(t, "perm"))

		ver := rapid.OneOf(rapid.IntRange(0, 9999), rapid.IntRange(0, 65535999)).Draw(t, "version1000")
		f.Version = head.Version(math.Round(float64(ver) / 1000 * 65536))

		// timestamps: at least one set; whole seconds, 1904 < t < 2200
		ts := func(l string) time.Time {
			s := rapid.Int64Range(-2082844799, 7258118400).Draw(t, l)
			return time.Unix(s, 0)
		}
		switch rapid.IntRange(0, 3).Draw(t, "times") {
		case 0:
			f.CreationTime = ts("created")
		case 1:
			f.ModificationTime = ts("modified")
		default:
			f.CreationTime = ts("created")
			f.ModificationTime = ts("modified")
		}

		f.UnitsPerEm = uint16(rapid.OneOf(rapid.SampledFrom([]int{1000, 1000, 2048, 1024, 16, 16384}), rapid.IntRange(16, 16384)).Draw(t, "upm"))
		q := 1 / float64(f.UnitsPerEm)
		f.FontMatrix = matrix.Matrix{q, 0, 0, q, 0, 0}
		if kind != KindGlyf && rapid.IntRange(0, 3).Draw(t, "skewMatrix") == 0 {
			// arbitrary matrices for CFF fonts, nine significant digits at most
			f.FontMatrix = matrix.Matrix{q, 0, float64(rapid.IntRange(-300, 300).Draw(t, "fmC")) / 1000 * q, q, 0, 0}
			c.label("cff-skew-matrix")
		}

		f.Ascent = i16("ascent")(t)
		f.Descent = i16("descent")(t)
		f.LineGap = i16("lineGap")(t)
		f.CapHeight = funit.Int16(rapid.OneOf(rapid.IntRange(0, 1500), rapid.SampledFrom([]int{0, 1, 32767})).Draw(t, "capHeight"))
		f.XHeight = funit.Int16(rapid.OneOf(rapid.IntRange(0, 1500), rapid.SampledFrom([]int{0, 1, 32767})).Draw(t, "xHeight"))
		switch rapid.IntRange(0, 3).Draw(t, "angleKind") {
		case 0, 1:
			f.ItalicAngle = 0
		case 2:
			f.ItalicAngle = float64(rapid.IntRange(-89, 89).Draw(t, "angleDeg"))
		default:
			f.ItalicAngle = float64(rapid.IntRange(-89*65536, 89*65536).Draw(t, "angle16")) / 65536
		}
		f.UnderlinePosition = funit.Float64(rapid.IntRange(-500, 100).Draw(t, "ulPos"))
		f.UnderlineThickness = funit.Float64(rapid.IntRange(0, 300).Draw(t, "ulThick"))
		if rapid.IntRange(0, 5).Draw(t, "ulFrac") == 0 {
			f.UnderlinePosition += 0.5
			f.UnderlineThickness += 0.25
			c.label("underline-fractional")
		}

		c.Font = f
		c.NonTrivial = nonTrivial(c, n)
		return c
	})
}

func nonTrivial(c *Case, n int) bool {
	f := c.Font
	outl := 0
	switch o := f.Outlines.(type) {
	case *glyf.Outlines:
		for _, g := range o.Glyphs {
			if g != nil {
				outl++
			}
		}
	case *cff.Outlines:
		for _, g := range o.Glyphs {
			if len(g.Cmds) > 0 {
				outl++
			}
		}
	}
	if outl < 2 {
		return false
	}
	has := func(l string) bool {
		for _, x := range c.Labels {
			if x == l {
				return true
			}
		}
		return false
	}
	extreme := f.Ascent == 32767 || f.Ascent == -32768 || f.Descent == 32767 || f.Descent == -32768 ||
		f.LineGap == 32767 || f.LineGap == -32768 || f.UnitsPerEm == 16 || f.UnitsPerEm == 16384 || f.CapHeight == 32767
	return has("composite") || has("multi-fd") || has("cmap-format12") ||
		(f.Gsub != nil && f.Gpos != nil && f.Gdef != nil) || n > 258 || extreme
}

// Dump renders the metadata of a font (for failure messages).
func Dump(f *sfnt.Font) string {
	return fmt.Sprintf("family=%q width=%d weight=%d regular=%v bold=%v italic=%v oblique=%v serif=%v script=%v cpr=%#x version=%d created=%v modified=%v descr=%q sample=%q copyright=%q trademark=%q license=%q url=%q perm=%d upm=%d matrix=%v asc=%d desc=%d gap=%d cap=%d xh=%d angle=%v ulpos=%v ulthick=%v",
		f.FamilyName, f.Width, f.Weight, f.IsRegular, f.IsBold, f.IsItalic, f.IsOblique, f.IsSerif, f.IsScript, uint64(f.CodePageRange), f.Version,
		f.CreationTime.UTC(), f.ModificationTime.UTC(), f.Description, f.SampleText, f.Copyright, f.Trademark, f.License, f.LicenseURL, f.PermUse,
		f.UnitsPerEm, f.FontMatrix, f.Ascent, f.Descent, f.LineGap, f.CapHeight, f.XHeight, f.ItalicAngle, f.UnderlinePosition, f.UnderlineThickness)
}

// String returns a short description of the font for evidence samples.
func (c *Case) String() string {
	f := c.Font
	return fmt.Sprintf("%s font %q n=%d upm=%d cmapKeys=%d gsub=%v gpos=%v gdef=%v labels=%v",
		c.Kind, f.FamilyName, f.NumGlyphs(), f.UnitsPerEm, len(f.CMapTable), f.Gsub != nil, f.Gpos != nil, f.Gdef != nil, c.Labels)
}

// MixPairRecords gives the pair adjustment subtables of the font (GPOS 2.1) the
// shape tables built in memory often have and tables read from files never
// have: some pairs carry a second value record, others none, and a pair with
// a second record may lack the first.  (The binary form has one value format
// per subtable; an absent record is written as zeros.)  It reports whether a
// subtable was changed.
func MixPairRecords(t *rapid.T, f *sfnt.Font) bool {
	if f.Gpos == nil {
		return false
	}
	changed := false
	for _, l := range f.Gpos.LookupList {
		for _, st := range l.Subtables {
			sub, ok := st.(gtab.Gpos2_1)
			if !ok || len(sub) < 2 {
				continue
			}
			pairs := make([]glyph.Pair, 0, len(sub))
			for p := range sub {
				pairs = append(pairs, p)
			}
			sort.Slice(pairs, func(i, j int) bool {
				if pairs[i].Left != pairs[j].Left {
					return pairs[i].Left < pairs[j].Left
				}
				return pairs[i].Right < pairs[j].Right
			})
			for i, p := range pairs {
				// the first pair keeps its shape, so that the mixture is real
				if i == 0 {
					continue
				}
				switch rapid.IntRange(0, 3).Draw(t, "pairShape") {
				case 0:
					sub[p].Second = &gtab.GposValueRecord{XPlacement: funit.Int16(rapid.IntRange(-50, 50).Draw(t, "secondX"))}
					changed = true
				case 1:
					sub[p].Second = &gtab.GposValueRecord{XAdvance: funit.Int16(rapid.IntRange(-50, 50).Draw(t, "secondAdv"))}
					sub[p].First = nil
					changed = true
				}
			}
		}
	}
	return changed
}
