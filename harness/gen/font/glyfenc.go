package font

import (
	"seehuhn.de/go/postscript/funit"
	"seehuhn.de/go/sfnt/glyf"
)

// Pt is a point of a TrueType contour.
type Pt struct {
	X, Y int16
	On   bool
}

// EncodeSimple encodes contours as the body of a simple glyph (the part
// after the 10-byte glyph header), written from the OpenType "glyf"
// specification.  style selects the flag/coordinate encoding:
//
//	0: most compact (short vectors, "same" flags, repeat counts)
//	1: every coordinate as a 16-bit delta, no repeats
//	2: short vectors where possible, no repeats
func EncodeSimple(contours [][]Pt, instr []byte, style int) (body []byte, bbox funit.Rect16) {
	var out []byte
	n := 0
	for _, c := range contours {
		n += len(c)
		out = append(out, byte((n-1)>>8), byte(n-1))
	}
	out = append(out, byte(len(instr)>>8), byte(len(instr)))
	out = append(out, instr...)

	var flags []byte
	var xs, ys []byte
	var px, py int16
	first := true
	for _, c := range contours {
		for _, p := range c {
			var f byte
			if p.On {
				f |= 0x01
			}
			dx := int(p.X) - int(px)
			dy := int(p.Y) - int(py)
			switch {
			case style != 1 && dx == 0:
				f |= 0x10
			case style != 1 && dx >= -255 && dx <= 255:
				f |= 0x02
				if dx > 0 {
					f |= 0x10
					xs = append(xs, byte(dx))
				} else {
					xs = append(xs, byte(-dx))
				}
			default:
				d := int16(dx)
				xs = append(xs, byte(uint16(d)>>8), byte(d))
			}
			switch {
			case style != 1 && dy == 0:
				f |= 0x20
			case style != 1 && dy >= -255 && dy <= 255:
				f |= 0x04
				if dy > 0 {
					f |= 0x20
					ys = append(ys, byte(dy))
				} else {
					ys = append(ys, byte(-dy))
				}
			default:
				d := int16(dy)
				ys = append(ys, byte(uint16(d)>>8), byte(d))
			}
			flags = append(flags, f)
			px, py = p.X, p.Y
			if first {
				bbox = funit.Rect16{LLx: funit.Int16(p.X), URx: funit.Int16(p.X), LLy: funit.Int16(p.Y), URy: funit.Int16(p.Y)}
				first = false
			} else {
				if funit.Int16(p.X) < bbox.LLx {
					bbox.LLx = funit.Int16(p.X)
				}
				if funit.Int16(p.X) > bbox.URx {
					bbox.URx = funit.Int16(p.X)
				}
				if funit.Int16(p.Y) < bbox.LLy {
					bbox.LLy = funit.Int16(p.Y)
				}
				if funit.Int16(p.Y) > bbox.URy {
					bbox.URy = funit.Int16(p.Y)
				}
			}
		}
	}
	if style == 0 {
		for i := 0; i < len(flags); {
			j := i + 1
			for j < len(flags) && flags[j] == flags[i] && j-i < 256 {
				j++
			}
			if j-i >= 2 {
				out = append(out, flags[i]|0x08, byte(j-i-1))
			} else {
				out = append(out, flags[i])
			}
			i = j
		}
	} else {
		out = append(out, flags...)
	}
	out = append(out, xs...)
	out = append(out, ys...)
	return out, bbox
}

// SimpleGlyph wraps encoded contours into a *glyf.Glyph.
func SimpleGlyph(contours [][]Pt, instr []byte, style int) *glyf.Glyph {
	body, bbox := EncodeSimple(contours, instr, style)
	return &glyf.Glyph{
		Rect16: bbox,
		Data: glyf.SimpleGlyph{
			NumContours: int16(len(contours)),
			Encoded:     body,
		},
	}
}
