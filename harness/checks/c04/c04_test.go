// C04: compiling glyphs to Type 2 charstrings preserves outline, hints and
// width.
//
// Glyph programs are generated, written with (*cff.Font).Write, and the
// emitted CharStrings are extracted with the harness's own CFF reader
// (ref/refcff) and executed by the harness's own Type 2 interpreter
// (ref/reft2), which is strict about stack depth, operand counts and
// termination.  cff.Read is used as a second opinion only.
package c04

import (
	"bytes"
	"errors"
	"fmt"
	"math"
	"sort"
	"strings"
	"testing"

	"pgregory.net/rapid"

	"seehuhn.de/go/geom/matrix"
	"seehuhn.de/go/postscript/cid"
	"seehuhn.de/go/postscript/type1"

	"seehuhn.de/go/sfnt/cff"
	"seehuhn.de/go/sfnt/glyph"
	"verif/harness/guard"
	"verif/harness/ref/refcff"
	"verif/harness/ref/reft2"
	"verif/harness/stats"
)

func TestMain(m *testing.M) { stats.MainExit(m) }

const (
	ulp    = 1.0 / 65536
	coordM = 32000.0

	// keys of classes that can be listed as known findings
	keyBigDelta  = "delta-beyond-16.16"        // |delta| >= 32768 between consecutive points/stem edges: silently wrong charstring
	keyFracWidth = "fractional-dict-width"     // non-integral defaultWidthX/nominalWidthX truncated in the Private DICT
	keyStemRound = "stem-rounding-accumulates" // stem deltas rounded against the unrounded previous edge
)

func excluded(key string) bool {
	if stats.IsListed("C04", key) {
		stats.Excluded(key)
		return true
	}
	return false
}

// ---------------------------------------------------------------------------
// generator

type ggen struct {
	t            *rapid.T
	noFloatStems bool
	mode         int     // 0 integers, 1 k/65536, 2 arbitrary floats, 3 mixed
	scale        float64 // typical step
	x, y         float64
	g            *cff.Glyph
	feat         map[string]bool
	noBig        bool
}

func (g *ggen) intn(lo, hi int, label string) int { return rapid.IntRange(lo, hi).Draw(g.t, label) }
func (g *ggen) chance(p int) bool                 { return rapid.IntRange(0, 99).Draw(g.t, "p") < p }

func clamp(v float64) float64 {
	if v > coordM {
		return coordM
	}
	if v < -coordM {
		return -coordM
	}
	return v
}

// quant turns a raw value into one of the generator's number classes.
func (g *ggen) quant(v float64) float64 {
	m := g.mode
	if m == 3 {
		m = g.intn(0, 2, "qm")
	}
	switch m {
	case 0:
		v = math.Round(v)
	case 1:
		v = math.Round(v) + float64(g.intn(0, 65535, "q16"))/65536
		g.feat["frac16"] = true
	default:
		v = v + rapid.Float64Range(-1, 1).Draw(g.t, "qf")
		g.feat["float"] = true
	}
	return clamp(v)
}

// step draws a displacement.
func (g *ggen) step() float64 {
	switch c := g.intn(0, 99, "sc"); {
	case c < 10:
		return 0
	case c < 60:
		return float64(g.intn(-int(g.scale), int(g.scale), "s1"))
	case c < 80:
		return float64(g.intn(-107, 107, "s2"))
	case c < 90:
		return float64(g.intn(-1200, 1200, "s3"))
	case c < 97:
		return float64(g.intn(-8*int(g.scale), 8*int(g.scale), "s4"))
	}
	if g.noBig {
		return float64(g.intn(-1200, 1200, "s3"))
	}
	g.feat["jump"] = true
	return float64(g.intn(-64000, 64000, "s5"))
}

// near returns a coordinate near v.
func (g *ggen) near(v float64) float64 { return g.quant(clamp(v + g.step())) }

func (g *ggen) moveTo() {
	if g.chance(20) {
		// absolute target; without the jump class it stays within one operand of the current point
		lox, hix, loy, hiy := -32000, 32000, -32000, 32000
		if g.noBig {
			lox, hix = max(lox, int(g.x)-32700), min(hix, int(g.x)+32700)
			loy, hiy = max(loy, int(g.y)-32700), min(hiy, int(g.y)+32700)
		}
		g.x, g.y = g.quant(float64(g.intn(lox, hix, "ax"))), g.quant(float64(g.intn(loy, hiy, "ay")))
	} else {
		g.x, g.y = g.near(g.x), g.near(g.y)
	}
	g.g.MoveTo(g.x, g.y)
}

// line kinds: 0 general, 1 horizontal, 2 vertical, 3 zero length
func (g *ggen) line(kind int) {
	switch kind {
	case 0:
		g.x, g.y = g.near(g.x), g.near(g.y)
	case 1:
		g.x = g.near(g.x)
	case 2:
		g.y = g.near(g.y)
	}
	g.g.LineTo(g.x, g.y)
}

// curve: tangent kinds 0 free, 1 horizontal, 2 vertical, 3 zero
func (g *ggen) curve(startT, endT int) {
	ax, ay := g.x, g.y
	switch startT {
	case 0:
		ax, ay = g.near(g.x), g.near(g.y)
	case 1:
		ax = g.near(g.x)
	case 2:
		ay = g.near(g.y)
	}
	bx, by := g.near(ax), g.near(ay)
	cx, cy := bx, by
	switch endT {
	case 0:
		cx, cy = g.near(bx), g.near(by)
	case 1:
		cx = g.near(bx)
	case 2:
		cy = g.near(by)
	}
	g.g.CurveTo(ax, ay, bx, by, cx, cy)
	g.x, g.y = cx, cy
}

// flexPair emits two curves in the shape the hflex/hflex1 operators encode.
func (g *ggen) flexPair() {
	y0 := g.y
	if g.chance(50) {
		// hflex: both outer tangents horizontal, joint horizontal, returns to y0
		ax := g.near(g.x)
		bx, by := g.near(ax), g.near(y0)
		cx := g.near(bx)
		g.g.CurveTo(ax, y0, bx, by, cx, by)
		dx := g.near(cx)
		ex := g.near(dx)
		fx := g.near(ex)
		g.g.CurveTo(dx, by, ex, y0, fx, y0)
		g.x, g.y = fx, y0
		g.feat["hflex-shape"] = true
		return
	}
	// hflex1: joint horizontal, end returns to y0
	ax, ay := g.near(g.x), g.near(y0)
	bx, by := g.near(ax), g.near(ay)
	cx := g.near(bx)
	g.g.CurveTo(ax, ay, bx, by, cx, by)
	dx := g.near(cx)
	ex, ey := g.near(dx), g.near(by)
	fx := g.near(ex)
	g.g.CurveTo(dx, by, ex, ey, fx, y0)
	g.x, g.y = fx, y0
	g.feat["hflex1-shape"] = true
}

func (g *ggen) runLen() int {
	switch c := g.intn(0, 9, "rl"); {
	case c < 5:
		return g.intn(1, 6, "rn")
	case c < 9:
		return g.intn(7, 30, "rn")
	}
	g.feat["long-run"] = true
	return g.intn(31, 120, "rn")
}

// run emits one styled run of segments.
func (g *ggen) run() {
	n := g.runLen()
	switch style := g.intn(0, 11, "style"); style {
	case 0: // random mix
		for i := 0; i < n; i++ {
			switch g.intn(0, 5, "k") {
			case 0, 1:
				g.line(g.intn(0, 3, "lk"))
			case 2, 3:
				g.curve(g.intn(0, 3, "st"), g.intn(0, 2, "et"))
			case 4:
				g.curve(0, 0)
			default:
				g.flexPair()
			}
		}
	case 1: // alternating horizontal/vertical lines
		k := g.intn(1, 2, "hv")
		for i := 0; i < n; i++ {
			g.line(k)
			k = 3 - k
		}
		g.feat["hv-lines"] = true
	case 2: // hvcurveto/vhcurveto chain
		k := g.intn(1, 2, "hv")
		for i := 0; i < n; i++ {
			end := 3 - k
			if i == n-1 && g.chance(50) {
				end = 0
			}
			g.curve(k, end)
			k = 3 - k
		}
		g.feat["hv-curves"] = true
	case 3: // hhcurveto / vvcurveto chain
		k := g.intn(1, 2, "hv")
		for i := 0; i < n; i++ {
			st := k
			if i == 0 && g.chance(50) {
				st = 0
			}
			g.curve(st, k)
		}
		g.feat["hh-curves"] = true
	case 4: // general lines
		for i := 0; i < n; i++ {
			g.line(0)
		}
	case 5: // general curves
		for i := 0; i < n; i++ {
			g.curve(0, 0)
		}
	case 6: // lines then a curve
		for i := 0; i < n; i++ {
			g.line(0)
		}
		g.curve(0, 0)
		g.feat["linecurve"] = true
	case 7: // curves then a line
		for i := 0; i < n; i++ {
			g.curve(0, 0)
		}
		g.line(0)
		g.feat["curveline"] = true
	case 8: // flex pairs
		for i := 0; i < (n+1)/2; i++ {
			g.flexPair()
		}
	case 9: // degenerate segments
		for i := 0; i < n; i++ {
			if g.chance(50) {
				g.line(3)
			} else {
				g.curve(3, g.intn(0, 2, "et"))
			}
		}
		g.feat["degenerate"] = true
	case 10: // lines with one axis fixed for the whole run
		k := g.intn(1, 2, "hv")
		for i := 0; i < n; i++ {
			g.line(k)
		}
	default: // axis-aligned mixture of lines and curves
		for i := 0; i < n; i++ {
			if g.chance(50) {
				g.line(g.intn(1, 2, "lk"))
			} else {
				g.curve(g.intn(1, 2, "st"), g.intn(1, 2, "et"))
			}
		}
	}
}

// stems draws n increasing stems (2n edges).
func (g *ggen) stems(n int) []float64 {
	if n == 0 {
		return nil
	}
	if g.noFloatStems && g.mode >= 2 {
		defer func(m int) { g.mode = m }(g.mode)
		g.mode = 1
	}
	res := make([]float64, 0, 2*n)
	pos := float64(g.intn(-1000, 200, "s0"))
	if g.chance(10) || !g.noBig && g.chance(40) {
		pos = float64(g.intn(-32000, 0, "s0big"))
	}
	room := (coordM - pos) / float64(n)
	for i := 0; i < n; i++ {
		gap := float64(g.intn(0, int(math.Min(room/2, 400)), "sg"))
		w := float64(g.intn(1, int(math.Max(1, math.Min(room/2, 300))), "sw"))
		if !g.noBig && pos <= -8300 && g.chance(25) {
			gap = float64(g.intn(32700, 40000, "sgbig"))
			g.feat["stem-jump"] = true
		}
		a := g.quant(pos + gap)
		b := g.quant(a + w)
		if g.chance(6) {
			b = a - 20 // ghost hint
			if g.chance(50) {
				b = a - 21
			}
		}
		a, b = clamp(a), clamp(b)
		res = append(res, a, b)
		pos = math.Max(a, b)
	}
	return res
}

func (g *ggen) mask(nStems int, cntr bool) {
	k := (nStems + 7) / 8
	args := make([]float64, k)
	for i := range args {
		args[i] = float64(g.intn(0, 255, "mb"))
	}
	if r := nStems % 8; r != 0 {
		args[k-1] = float64(int(args[k-1]) & (0xFF << (8 - r)) & 0xFF)
	}
	op := cff.OpHintMask
	if cntr {
		op = cff.OpCntrMask
		g.feat["cntrmask"] = true
	} else {
		g.feat["hintmask"] = true
	}
	g.g.Cmds = append(g.g.Cmds, cff.GlyphOp{Op: op, Args: args})
}

// genGlyph draws one glyph program.
func genGlyph(t *rapid.T, name string, width float64, noBig bool) (*cff.Glyph, map[string]bool) {
	g := &ggen{t: t, g: cff.NewGlyph(name, width), feat: map[string]bool{}, noBig: noBig,
		noFloatStems: excluded(keyStemRound)}
	g.mode = g.intn(0, 3, "mode")
	g.scale = float64(rapid.SampledFrom([]int{20, 100, 400, 3000}).Draw(t, "scale"))
	if g.chance(15) {
		// work near the edge of the coordinate range
		g.x = float64(rapid.SampledFrom([]int{-32000, 32000, 31000, -31500}).Draw(t, "edge"))
		g.y = float64(rapid.SampledFrom([]int{-32000, 32000, 0}).Draw(t, "edge"))
		g.feat["edge"] = true
	}
	var nH, nV int
	switch c := g.intn(0, 99, "hc"); {
	case c < 40:
	case c < 75:
		nH, nV = g.intn(0, 4, "nh"), g.intn(0, 4, "nv")
	case c < 90:
		nH, nV = g.intn(0, 30, "nh"), g.intn(0, 30, "nv")
	default:
		nH = g.intn(0, 96, "nh")
		nV = 96 - nH
		if g.chance(50) {
			nV = g.intn(0, 96-nH, "nv")
		}
	}
	g.g.HStem = g.stems(nH)
	g.g.VStem = g.stems(nV)
	nStems := nH + nV
	if nStems > 48 {
		g.feat["stems>48"] = true
	}
	useMasks := nStems > 0 && g.chance(55)
	maybeMask := func(p int) {
		for useMasks && g.chance(p) {
			g.mask(nStems, g.chance(30))
			p /= 2
		}
	}
	if useMasks && g.chance(50) {
		g.mask(nStems, g.chance(40)) // mask as first command: implicit vstem
		g.feat["mask-first"] = true
	}
	nSub := 0
	switch c := g.intn(0, 9, "nsub"); {
	case c < 1:
	case c < 6:
		nSub = 1
	default:
		nSub = g.intn(2, 4, "ns")
	}
	for s := 0; s < nSub; s++ {
		maybeMask(20)
		g.moveTo()
		nRuns := g.intn(0, 3, "nruns")
		for r := 0; r < nRuns; r++ {
			maybeMask(20)
			g.run()
		}
	}
	maybeMask(15)
	return g.g, g.feat
}

// ---------------------------------------------------------------------------
// fonts

type fontCase struct {
	font   *cff.Font
	fdsel  []int
	feat   map[string]bool
	labels []string
}

func drawWidth(t *rapid.T) float64 {
	switch c := rapid.IntRange(0, 99).Draw(t, "wc"); {
	case c < 45:
		return float64(rapid.IntRange(0, 1500).Draw(t, "w"))
	case c < 60:
		return float64(rapid.SampledFrom([]int{0, 500, 600, 1000, 250}).Draw(t, "w"))
	case c < 80:
		return float64(rapid.IntRange(0, 1500).Draw(t, "w")) + float64(rapid.IntRange(1, 65535).Draw(t, "wf"))/65536
	case c < 88:
		return float64(rapid.IntRange(0, 1500).Draw(t, "w")) + 0.5
	case c < 94:
		return float64(rapid.IntRange(-1200, -1).Draw(t, "w"))
	case c < 97:
		return rapid.Float64Range(-2000, 4000).Draw(t, "wfl")
	}
	return float64(rapid.IntRange(-16000, 16000).Draw(t, "w"))
}

func genFont(t *rapid.T) *fontCase {
	fc := &fontCase{feat: map[string]bool{}}
	nGlyphs := 1
	switch c := rapid.IntRange(0, 9).Draw(t, "ng"); {
	case c < 2:
	case c < 9:
		nGlyphs = rapid.IntRange(2, 6).Draw(t, "nGlyphs")
	default:
		nGlyphs = rapid.IntRange(7, 30).Draw(t, "nGlyphs")
	}
	isCID := rapid.IntRange(0, 9).Draw(t, "cid") < 3
	// jumps that no single operand can hold form a separate, rarer class
	noBig := excluded(keyBigDelta) || rapid.IntRange(0, 9).Draw(t, "jumps") != 0
	noFrac := excluded(keyFracWidth)

	// widths: a small pool so that default-width selection has ties and majorities
	pool := make([]float64, rapid.IntRange(1, 4).Draw(t, "npool"))
	for i := range pool {
		pool[i] = drawWidth(t)
		if noFrac {
			pool[i] = math.Round(pool[i])
		}
	}
	info := &type1.FontInfo{FontName: "C04", FontMatrix: matrix.Matrix{0.001, 0, 0, 0.001, 0, 0}}
	out := &cff.Outlines{}
	nFD := 1
	if isCID {
		nFD = rapid.IntRange(1, 3).Draw(t, "nFD")
		out.ROS = &cid.SystemInfo{Registry: "Adobe", Ordering: "Identity"}
	}
	for i := 0; i < nFD; i++ {
		out.Private = append(out.Private, &type1.PrivateDict{BlueScale: 0.039625, BlueShift: 7, BlueFuzz: 1})
		if isCID {
			out.FontMatrices = append(out.FontMatrices, matrix.Identity)
		}
	}
	for i := 0; i < nGlyphs; i++ {
		w := pool[rapid.IntRange(0, len(pool)-1).Draw(t, "wi")]
		if rapid.IntRange(0, 4).Draw(t, "wuniq") == 0 {
			w = drawWidth(t)
			if noFrac {
				w = math.Round(w)
			}
		}
		name := ".notdef"
		if i > 0 {
			name = fmt.Sprintf("g%d", i)
		}
		if isCID {
			name = ""
		}
		g, feat := genGlyph(t, name, w, noBig)
		for f := range feat {
			fc.feat[f] = true
		}
		out.Glyphs = append(out.Glyphs, g)
		fd := 0
		if nFD > 1 {
			fd = rapid.IntRange(0, nFD-1).Draw(t, "fd")
		}
		fc.fdsel = append(fc.fdsel, fd)
		if isCID {
			out.GIDToCID = append(out.GIDToCID, cid.CID(i))
		}
	}
	sel := fc.fdsel
	out.FDSelect = func(gid glyph.ID) int { return sel[gid] }
	fc.font = &cff.Font{FontInfo: info, Outlines: out}
	if isCID {
		fc.feat["cid"] = true
	} else {
		fc.feat["simple"] = true
	}
	return fc
}

func fmtGlyph(g *cff.Glyph) string {
	var sb strings.Builder
	fmt.Fprintf(&sb, "width=%v hstem=%v vstem=%v:", g.Width, g.HStem, g.VStem)
	for _, c := range g.Cmds {
		fmt.Fprintf(&sb, " %v%v", c.Op, c.Args)
	}
	return sb.String()
}

func (fc *fontCase) String() string {
	var sb strings.Builder
	fmt.Fprintf(&sb, "font cid=%v nPrivate=%d fdselect=%v\n", fc.font.ROS != nil, len(fc.font.Private), fc.fdsel)
	for i, g := range fc.font.Glyphs {
		fmt.Fprintf(&sb, "  glyph %d: %s\n", i, fmtGlyph(g))
	}
	return sb.String()
}

// ---------------------------------------------------------------------------
// oracle

// bigDelta reports whether the glyph has consecutive points (or stem edges)
// whose distance along one axis cannot be a single 16.16 operand.
func bigDelta(g *cff.Glyph) (definitely, maybe bool) {
	chk := func(d float64) {
		d = math.Abs(d)
		if d >= 32768 {
			definitely = true
		}
		if d > 32767.9 {
			maybe = true
		}
	}
	var x, y float64
	for _, c := range g.Cmds {
		switch c.Op {
		case cff.OpMoveTo, cff.OpLineTo:
			chk(c.Args[0] - x)
			chk(c.Args[1] - y)
			x, y = c.Args[0], c.Args[1]
		case cff.OpCurveTo:
			chk(c.Args[0] - x)
			chk(c.Args[1] - y)
			chk(c.Args[2] - c.Args[0])
			chk(c.Args[3] - c.Args[1])
			chk(c.Args[4] - c.Args[2])
			chk(c.Args[5] - c.Args[3])
			x, y = c.Args[4], c.Args[5]
		}
	}
	for _, st := range [][]float64{g.HStem, g.VStem} {
		// stems are written in chunks; every chunk restarts at 0
		prev := 0.0
		for _, e := range st {
			chk(e - prev)
			chk(e) // first edge of a later chunk
			prev = e
		}
	}
	return
}

// over32000 reports whether some path operand of the glyph exceeds 32000 in
// magnitude.
func over32000(g *cff.Glyph) bool {
	var x, y float64
	for _, c := range g.Cmds {
		if c.Op != cff.OpMoveTo && c.Op != cff.OpLineTo && c.Op != cff.OpCurveTo {
			continue
		}
		for k := 0; k < len(c.Args); k += 2 {
			if math.Abs(c.Args[k]-x) > 32000 || math.Abs(c.Args[k+1]-y) > 32000 {
				return true
			}
			x, y = c.Args[k], c.Args[k+1]
		}
	}
	return false
}

func near(a, b float64) bool { return math.Abs(a-b) <= ulp }

// cmpRef compares the interpreted charstring with the glyph it was made from.
func cmpRef(in *cff.Glyph, res *reft2.Result) error {
	if !near(res.Width.V, in.Width) {
		return fmt.Errorf("width %v, want %v", res.Width.V, in.Width)
	}
	for _, p := range []struct {
		name string
		want []float64
		got  []reft2.Num
	}{{"HStem", in.HStem, res.HStem}, {"VStem", in.VStem, res.VStem}} {
		if len(p.want) != len(p.got) {
			return fmt.Errorf("%s: %d edges, want %d", p.name, len(p.got), len(p.want))
		}
		for i := range p.want {
			if !near(p.got[i].V, p.want[i]) {
				return fmt.Errorf("%s[%d] = %v, want %v", p.name, i, p.got[i].V, p.want[i])
			}
		}
	}
	if len(res.Cmds) != len(in.Cmds) {
		return fmt.Errorf("%d commands, want %d", len(res.Cmds), len(in.Cmds))
	}
	for i, c := range in.Cmds {
		r := res.Cmds[i]
		var want reft2.CmdType
		switch c.Op {
		case cff.OpMoveTo:
			want = reft2.MoveTo
		case cff.OpLineTo:
			want = reft2.LineTo
		case cff.OpCurveTo:
			want = reft2.CurveTo
		case cff.OpHintMask:
			want = reft2.HintMask
		case cff.OpCntrMask:
			want = reft2.CntrMask
		}
		if r.Op != want {
			return fmt.Errorf("command %d is %v (from %s), want %v", i, r.Op, reft2.OpName(r.Src), c.Op)
		}
		if want == reft2.HintMask || want == reft2.CntrMask {
			if len(r.Mask) != len(c.Args) {
				return fmt.Errorf("command %d (%v): %d mask bytes, want %d", i, c.Op, len(r.Mask), len(c.Args))
			}
			for k, b := range r.Mask {
				if float64(b) != c.Args[k] {
					return fmt.Errorf("command %d (%v): mask byte %d = %#x, want %v", i, c.Op, k, b, c.Args[k])
				}
			}
			continue
		}
		for k := range c.Args {
			if !near(r.Args[k].V, c.Args[k]) {
				return fmt.Errorf("command %d (%v from %s): coordinate %d = %v, want %v (diff %g)",
					i, c.Op, reft2.OpName(r.Src), k, r.Args[k].V, c.Args[k], r.Args[k].V-c.Args[k])
			}
		}
	}
	return nil
}

// cmpRead compares the glyph returned by cff.Read with the input glyph.
func cmpRead(in, got *cff.Glyph) error {
	if !near(got.Width, in.Width) {
		return fmt.Errorf("width %v, want %v", got.Width, in.Width)
	}
	for _, p := range []struct {
		name      string
		want, got []float64
	}{{"HStem", in.HStem, got.HStem}, {"VStem", in.VStem, got.VStem}} {
		if len(p.want) != len(p.got) {
			return fmt.Errorf("%s: %d edges, want %d", p.name, len(p.got), len(p.want))
		}
		for i := range p.want {
			if !near(p.got[i], p.want[i]) {
				return fmt.Errorf("%s[%d] = %v, want %v", p.name, i, p.got[i], p.want[i])
			}
		}
	}
	if len(got.Cmds) != len(in.Cmds) {
		return fmt.Errorf("%d commands, want %d", len(got.Cmds), len(in.Cmds))
	}
	for i, c := range in.Cmds {
		r := got.Cmds[i]
		if r.Op != c.Op || len(r.Args) != len(c.Args) {
			return fmt.Errorf("command %d is %v%v, want %v%v", i, r.Op, r.Args, c.Op, c.Args)
		}
		for k := range c.Args {
			if !near(r.Args[k], c.Args[k]) {
				return fmt.Errorf("command %d (%v): argument %d = %v, want %v", i, c.Op, k, r.Args[k], c.Args[k])
			}
		}
	}
	return nil
}

type verdict struct {
	labels []string
	nt     bool
	fp     uint64
	fail   string
}

func ntGlyph(g *cff.Glyph) bool {
	segs, curves := 0, 0
	nonInt := g.Width != math.Trunc(g.Width)
	for _, c := range g.Cmds {
		switch c.Op {
		case cff.OpLineTo:
			segs++
		case cff.OpCurveTo:
			segs++
			curves++
		case cff.OpHintMask, cff.OpCntrMask:
			return true
		}
		if c.Op == cff.OpMoveTo || c.Op == cff.OpLineTo || c.Op == cff.OpCurveTo {
			for _, a := range c.Args {
				if a != math.Trunc(a) {
					nonInt = true
				}
			}
		}
	}
	return curves >= 1 || segs >= 6 || len(g.HStem)+len(g.VStem) > 0 || nonInt
}

// check runs the oracle on one font.
func check(fc *fontCase) verdict {
	var v verdict
	lab := map[string]bool{}
	for f := range fc.feat {
		lab["f:"+f] = true
	}
	f := fc.font
	stats.LabelN("compile", "glyph-programs", int64(len(f.Glyphs)))
	defBig, maybeBig := false, false
	for _, g := range f.Glyphs {
		d, m := bigDelta(g)
		defBig = defBig || d
		maybeBig = maybeBig || m
		if ntGlyph(g) {
			v.nt = true
		}
	}
	buf := &bytes.Buffer{}
	var werr error
	if pn := guard.Try(func() { werr = f.Write(buf) }); pn != nil {
		v.fail = "(*cff.Font).Write: " + pn.String()
		return v
	}
	if werr != nil {
		if maybeBig {
			// a delta that no single operand can hold: refusing is allowed
			lab["bigdelta-refused"] = true
			v.labels = keys(lab)
			v.fp = stats.Hash("refused", fc.String())
			return v
		}
		v.fail = fmt.Sprintf("(*cff.Font).Write fails on a font inside the domain: %v", werr)
		return v
	}
	if defBig {
		lab["bigdelta-written"] = true
	}
	data := buf.Bytes()
	file, err := refcff.Parse(data)
	if err != nil {
		v.fail = fmt.Sprintf("the written CFF cannot be parsed by the reference reader: %v", err)
		return v
	}
	if len(file.CharStrings) != len(f.Glyphs) {
		v.fail = fmt.Sprintf("%d CharStrings for %d glyphs", len(file.CharStrings), len(f.Glyphs))
		return v
	}
	parts := []any{}
	abstained := map[int]bool{} // glyphs whose charstring lies in the region TN5177 leaves open
	for gi, g := range f.Glyphs {
		code := file.CharStrings[gi]
		parts = append(parts, code)
		fdi := file.FDSelect[gi]
		if f.ROS != nil && fdi != fc.fdsel[gi] {
			v.fail = fmt.Sprintf("glyph %d: FDSelect %d, want %d", gi, fdi, fc.fdsel[gi])
			return v
		}
		fd := file.FDs[fdi]
		res, rerr := reft2.Run(reft2.Input{Code: code, GSubrs: file.GSubrs, LSubrs: fd.Subrs,
			DefaultWidthX: fd.DefaultWidthX, NominalWidthX: fd.NominalWidthX})
		ctx := func() string {
			return fmt.Sprintf("glyph %d: charstring %x (defaultWidthX=%v nominalWidthX=%v)", gi, code, fd.DefaultWidthX, fd.NominalWidthX)
		}
		if rerr != nil {
			var te *reft2.Error
			if errors.As(rerr, &te) && te.Kind == reft2.KUnspecified && maybeBig && strings.Contains(rerr.Error(), "derived operand") {
				// every operand in the charstring is in range; the closing
				// delta a flex operator leaves implicit is not (a jump of
				// 32768 units or more).  TN5177 does not say whether an
				// interpreter forms that sum or returns to the start
				// coordinate, so the charstring is neither right nor wrong by
				// the specification: the reference abstains on this glyph.
				lab["bigdelta-implicit-flex-delta(reference abstains)"] = true
				abstained[gi] = true
				continue
			}
			v.fail = fmt.Sprintf("%s is not a legal Type 2 charstring: %v", ctx(), rerr)
			return v
		}
		if res.TrailingBytes != 0 {
			v.fail = fmt.Sprintf("%s: %d bytes after endchar", ctx(), res.TrailingBytes)
			return v
		}
		if err := cmpRef(g, res); err != nil {
			v.fail = fmt.Sprintf("%s executes to a different glyph: %v", ctx(), err)
			return v
		}
		if res.MaxStack == reft2.MaxStack {
			lab["stack48"] = true
		}
		if res.MaxStack >= 40 {
			lab["stack>=40"] = true
		}
		if res.HasWidth {
			lab["width-explicit"] = true
		} else {
			lab["width-default"] = true
		}
		if res.ImplicitVStem {
			lab["implicit-vstem"] = true
		}
		for _, u := range res.Ops {
			lab["op:"+reft2.OpName(u.Op)] = true
		}
		if fd.DefaultWidthX != math.Trunc(fd.DefaultWidthX) || fd.NominalWidthX != math.Trunc(fd.NominalWidthX) {
			lab["fractional-dict-width"] = true
		}
	}
	// second opinion: the library's own reader
	var back *cff.Font
	var rerr error
	if pn := guard.Try(func() { back, rerr = cff.Read(bytes.NewReader(data)) }); pn != nil {
		v.fail = "cff.Read of the written font: " + pn.String()
		return v
	}
	if rerr != nil {
		v.fail = fmt.Sprintf("cff.Read rejects the written font: %v", rerr)
		return v
	}
	if len(back.Glyphs) != len(f.Glyphs) {
		v.fail = fmt.Sprintf("cff.Read returns %d glyphs, want %d", len(back.Glyphs), len(f.Glyphs))
		return v
	}
	for gi, g := range f.Glyphs {
		if over32000(g) && stats.IsListed("C05", "operand-above-32000") {
			// the decoder's clamp of path operands at +-32000 is a listed C05 finding
			stats.Excluded("C05/operand-above-32000")
			continue
		}
		if abstained[gi] {
			// what an interpreter makes of an implicit flex delta beyond the
			// 16.16 range is not specified: the library's decoder is not
			// judged on it either
			continue
		}
		if err := cmpRead(g, back.Glyphs[gi]); err != nil {
			v.fail = fmt.Sprintf("glyph %d (charstring %x): cff.Read of the written font gives a different glyph: %v", gi, file.CharStrings[gi], err)
			return v
		}
	}
	v.labels = keys(lab)
	v.fp = stats.Hash(parts...)
	return v
}

func keys(m map[string]bool) []string {
	res := make([]string, 0, len(m))
	for k := range m {
		res = append(res, k)
	}
	sort.Strings(res)
	return res
}

func propCompile(t *rapid.T) {
	fc := genFont(t)
	v := check(fc)
	if v.fail != "" {
		t.Fatalf("%s\n%s", v.fail, fc)
	}
	// the same glyph objects with other coordinates (every path coordinate
	// moved one unit towards zero, no command or stem added or removed, widths
	// unchanged): compile again.  Whatever the compiler remembers about a
	// glyph it has seen must not survive the edit.
	edited := 0
	for _, g := range fc.font.Glyphs {
		for i := range g.Cmds {
			for j, a := range g.Cmds[i].Args {
				if g.Cmds[i].Op == cff.OpHintMask || g.Cmds[i].Op == cff.OpCntrMask {
					continue
				}
				if a > 0 {
					g.Cmds[i].Args[j] = a - 1
				} else {
					g.Cmds[i].Args[j] = a + 1
				}
				edited++
			}
		}
	}
	if edited > 0 && !rapid.Bool().Draw(t, "skipRecompile") {
		v2 := check(fc)
		if v2.fail != "" {
			t.Fatalf("second compilation, after the glyphs were edited in place: %s\n%s", v2.fail, fc)
		}
		v.labels = append(v.labels, "recompiled-after-in-place-edit")
	}
	stats.CaseIn("compile", v.fp, v.nt, func() string { return fc.String() }, v.labels...)
}

func TestC04Compile(t *testing.T) { rapid.Check(t, propCompile) }

// FuzzC04Compile drives the same property from the native coverage-guided
// fuzzer (the input bytes are rapid's random bit stream).
func FuzzC04Compile(f *testing.F) { f.Fuzz(rapid.MakeFuzz(propCompile)) }
