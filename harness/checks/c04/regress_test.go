package c04

import (
	"fmt"
	"testing"

	"seehuhn.de/go/geom/matrix"
	"seehuhn.de/go/postscript/type1"

	"seehuhn.de/go/sfnt/cff"
	"seehuhn.de/go/sfnt/glyph"
	"verif/harness/stats"
)

// mkFont builds a simple font from glyphs (names are assigned here).
func mkFont(glyphs ...*cff.Glyph) *fontCase {
	for i, g := range glyphs {
		g.Name = ".notdef"
		if i > 0 {
			g.Name = fmt.Sprintf("g%d", i)
		}
	}
	fc := &fontCase{feat: map[string]bool{}, fdsel: make([]int, len(glyphs))}
	fc.font = &cff.Font{
		FontInfo: &type1.FontInfo{FontName: "C04", FontMatrix: matrix.Matrix{0.001, 0, 0, 0.001, 0, 0}},
		Outlines: &cff.Outlines{
			Glyphs:   glyphs,
			Private:  []*type1.PrivateDict{{BlueScale: 0.039625, BlueShift: 7, BlueFuzz: 1}},
			FDSelect: func(glyph.ID) int { return 0 },
		},
	}
	return fc
}

func regress(t *testing.T, key string, fc *fontCase) {
	t.Helper()
	v := check(fc)
	if v.fail != "" {
		if stats.Known("C04", key) {
			t.Logf("known finding %s still present: %s", key, v.fail)
			return
		}
		t.Fatalf("%s\n%s", v.fail, fc)
	}
}

func square(w float64) *cff.Glyph {
	g := cff.NewGlyph("", w)
	g.MoveTo(10, 10)
	g.LineTo(90, 10)
	g.LineTo(90, 90)
	g.LineTo(10, 90)
	return g
}

// The most frequent width becomes defaultWidthX; if it is not an integer the
// Private DICT must still reproduce it (or it must not be chosen).
func TestC04RegressFractionalDefaultWidth(t *testing.T) {
	regress(t, keyFracWidth, mkFont(square(500.5), square(500.5), square(300)))
	regress(t, keyFracWidth, mkFont(square(500.5)))
	stats.CaseIn("regress", stats.Hash("frac-default"), true, nil, "fractional-default-width")
}

// nominalWidthX is derived from the smallest/largest non-default width and
// inherits its fraction; every explicit width is relative to it.
func TestC04RegressFractionalNominalWidth(t *testing.T) {
	regress(t, keyFracWidth, mkFont(square(300), square(300), square(700.5)))
	regress(t, keyFracWidth, mkFont(square(300), square(300), square(100.25), square(2000)))
	stats.CaseIn("regress", stats.Hash("frac-nominal"), true, nil, "fractional-nominal-width")
}

// Both points are inside [-32000, 32000] but 32768 apart: no Type 2 operand
// can hold the difference.  Write must refuse (or find a faithful encoding),
// not emit a charstring that draws something else.
func TestC04RegressBigDelta(t *testing.T) {
	g := cff.NewGlyph("", 0)
	g.MoveTo(-32000, -32000)
	g.LineTo(768, -32000)
	regress(t, keyBigDelta, mkFont(g))
	g = cff.NewGlyph("", 0)
	g.MoveTo(20000, 0)
	g.CurveTo(20000, 100, -20000, 100, -20000, 0)
	regress(t, keyBigDelta, mkFont(g))
	g = square(500)
	g.HStem = []float64{-32000, -31000, 10000, 10020}
	regress(t, keyBigDelta, mkFont(g))
	stats.CaseIn("regress", stats.Hash("bigdelta"), true, nil, "bigdelta")
}

// 24 stems whose edges all lie 0.4/65536 above a multiple of 10: every delta
// rounds down by 0.4 units, and after 48 edges the decoded edge is 19 units
// (of 2^-16) away from the input.
func TestC04RegressStemRounding(t *testing.T) {
	g := square(500)
	for i := 1; i <= 48; i++ {
		g.HStem = append(g.HStem, float64(10*i)+float64(i)*0.4/65536)
	}
	regress(t, keyStemRound, mkFont(g))
	stats.CaseIn("regress", stats.Hash("stem-rounding"), true, nil, "stem-rounding")
}
