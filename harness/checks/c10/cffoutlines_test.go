package c10

import (
	"bytes"
	"fmt"
	"testing"

	"pgregory.net/rapid"

	"seehuhn.de/go/sfnt"
	"seehuhn.de/go/sfnt/cff"
	"seehuhn.de/go/sfnt/glyph"
	genfont "verif/harness/gen/font"
	"verif/harness/guard"
	"verif/harness/stats"
)

// TestC10CFFOutlines checks (*cff.Outlines).Subset, the second subsetting
// entry point named by the property: glyph i of the result is the original
// glyph list[i] (outline, width, name, CID, private dictionary and font
// matrix of its font dictionary), built-in encodings keep their meaning, the
// original is unchanged, and a font carrying the subset outlines can be
// written and read back.
func TestC10CFFOutlines(t *testing.T) {
	rapid.Check(t, func(t *rapid.T) {
		kind := rapid.SampledFrom([]genfont.Kind{genfont.KindCFF, genfont.KindCID, genfont.KindCID}).Draw(t, "kind")
		o := genfont.Opts{Kind: kind, MaxGlyphs: 16, Layout: genfont.LayoutNone}
		if stats.Thorough() {
			o.MaxGlyphs = 60
		}
		fullEncoding := kind == genfont.KindCFF && rapid.IntRange(0, 5).Draw(t, "fullEncoding") == 0
		if fullEncoding {
			o.MinGlyphs, o.MaxGlyphs = 257, 270
		}
		c := genfont.Gen(o).Draw(t, "font")
		f := c.Font
		old := f.Outlines.(*cff.Outlines)
		list := genList(t, f.NumGlyphs())
		if fullEncoding {
			// every one of the 256 codes in use (code c selects glyph c+1), and
			// a glyph list that keeps all encoded glyphs, cut into a drawn
			// number of blocks that are shuffled: in the subset the codes form
			// that many ranges
			old.Encoding = make([]glyph.ID, 256)
			for c := range old.Encoding {
				old.Encoding[c] = glyph.ID(c + 1)
			}
			k := rapid.SampledFrom([]int{2, 5, 100, 127, 128, 129, 200, 254, 255, 256}).Draw(t, "nBlocks")
			cuts := map[int]bool{}
			for len(cuts) < k-1 {
				cuts[rapid.IntRange(1, 255).Draw(t, "cut")] = true
			}
			var blocks [][]glyph.ID
			start := 0
			for i := 1; i <= 256; i++ {
				if i == 256 || cuts[i] {
					var b []glyph.ID
					for g := start; g < i; g++ {
						b = append(b, glyph.ID(g+1))
					}
					blocks = append(blocks, b)
					start = i
				}
			}
			blocks = rapid.Permutation(blocks).Draw(t, "blockOrder")
			list = []glyph.ID{0}
			for _, b := range blocks {
				list = append(list, b...)
			}
		}
		ctx := func() string { return fmt.Sprintf("list=%v\n%s", list, c) }

		var before bytes.Buffer
		f.Write(&before)
		var sub *cff.Outlines
		if pn := guard.Try(func() { sub = old.Subset(append([]glyph.ID(nil), list...)) }); pn != nil {
			t.Fatalf("cff.Outlines.Subset panicked: %s\n%s\n%s", pn, ctx(), pn.Stack)
		}
		var after bytes.Buffer
		f.Write(&after)
		if !bytes.Equal(before.Bytes(), after.Bytes()) {
			t.Fatalf("cff.Outlines.Subset modified the original outlines\n%s", ctx())
		}

		s := *f
		s.Outlines = sub
		s.CMapTable = nil
		s.Gsub, s.Gpos, s.Gdef = nil, nil, nil
		if len(sub.Glyphs) != len(list) {
			t.Fatalf("subset outlines have %d glyphs, %d requested\n%s", len(sub.Glyphs), len(list), ctx())
		}
		if sub.IsCIDKeyed() != old.IsCIDKeyed() {
			t.Fatalf("subset outlines changed between CID-keyed and simple\n%s", ctx())
		}
		if len(sub.Private) == 0 || (sub.IsCIDKeyed() && len(sub.FontMatrices) != len(sub.Private)) {
			t.Fatalf("subset outlines: %d private dictionaries, %d font matrices\n%s", len(sub.Private), len(sub.FontMatrices), ctx())
		}
		fdOrderChanged := false
		for i, g := range list {
			fd := sub.FDSelect(glyph.ID(i))
			if fd < 0 || fd >= len(sub.Private) {
				t.Fatalf("subset glyph %d selects font dictionary %d of %d\n%s", i, fd, len(sub.Private), ctx())
			}
			if fd != old.FDSelect(g) {
				fdOrderChanged = true
			}
			if a, b := sigFull(f, g), sigFull(&s, glyph.ID(i)); a != b {
				t.Fatalf("[intact] subset glyph %d differs from original glyph %d:\n  want %s\n  got  %s\n%s", i, g, a, b, ctx())
			}
		}
		if (old.ROS == nil) != (sub.ROS == nil) || (old.ROS != nil && *old.ROS != *sub.ROS) {
			t.Fatalf("registry/ordering/supplement changed: %v -> %v\n%s", old.ROS, sub.ROS, ctx())
		}
		// the built-in encoding keeps its meaning
		if old.Encoding != nil {
			if len(sub.Encoding) != len(old.Encoding) {
				t.Fatalf("[encoding] length %d -> %d\n%s", len(old.Encoding), len(sub.Encoding), ctx())
			}
			newIdx := map[glyph.ID]glyph.ID{}
			for i, g := range list {
				newIdx[g] = glyph.ID(i)
			}
			for code, g := range old.Encoding {
				want, kept := newIdx[g]
				if g == 0 || !kept {
					want = 0
				}
				if sub.Encoding[code] != want {
					t.Fatalf("[encoding] code %d: old glyph %d, new glyph %d, want %d\n%s", code, g, sub.Encoding[code], want, ctx())
				}
			}
		} else if sub.Encoding != nil && !sub.IsCIDKeyed() {
			// a nil encoding means the standard encoding (by glyph name): stays nil
			t.Fatalf("[encoding] nil (standard) encoding became explicit\n%s", ctx())
		}
		// the subset can be written and read back
		var buf bytes.Buffer
		var err error
		if pn := guard.Try(func() { _, err = s.Write(&buf) }); pn != nil {
			t.Fatalf("[write] writing a font with the subset outlines panicked: %s\n%s", pn, ctx())
		}
		if err != nil {
			t.Fatalf("[write] writing a font with the subset outlines failed: %v\n%s", err, ctx())
		}
		s2, err := sfnt.Read(bytes.NewReader(buf.Bytes()))
		if err != nil {
			t.Fatalf("[write] reading it back failed: %v\n%s", err, ctx())
		}
		o2, ok := s2.Outlines.(*cff.Outlines)
		if !ok || len(o2.Glyphs) != len(list) {
			t.Fatalf("[write] read back %T with %d glyphs\n%s", s2.Outlines, s2.NumGlyphs(), ctx())
		}
		for i := range list {
			if a, b := fmt.Sprint(sub.Glyphs[i].Cmds), fmt.Sprint(o2.Glyphs[i].Cmds); a != b {
				t.Fatalf("[write] outline of glyph %d changed by Write+Read:\n  %s\n  %s\n%s", i, a, b, ctx())
			}
			if sub.IsCIDKeyed() && sub.GIDToCID[i] != o2.GIDToCID[i] {
				t.Fatalf("[write] CID of glyph %d changed by Write+Read\n%s", i, ctx())
			}
		}
		if sub.Encoding != nil && !sub.IsCIDKeyed() {
			for code := range sub.Encoding {
				var got glyph.ID
				if o2.Encoding != nil {
					got = o2.Encoding[code]
				} else if std := cff.StandardEncoding(o2.Glyphs); std != nil {
					got = std[code]
				}
				if got != sub.Encoding[code] {
					t.Fatalf("[write] built-in encoding changed by Write+Read: code %d selects glyph %d, was %d\n%s", code, got, sub.Encoding[code], ctx())
				}
			}
		}
		labels := append([]string{}, c.Labels...)
		if fullEncoding {
			labels = append(labels, "all-256-codes-in-use")
		}
		if fdOrderChanged {
			labels = append(labels, "fd-renumbered")
		}
		identity := true
		for i, g := range list {
			if int(g) != i {
				identity = false
			}
		}
		stats.CaseIn("cff-outlines", stats.Hash(before.Bytes(), fmt.Sprint(list)), !identity && (fdOrderChanged || old.Encoding != nil),
			func() string { return "[cff.Outlines.Subset] " + ctx() }, labels...)
	})
}
