// C10: subsetting keeps every selected glyph intact and consistently re-indexed.
package c10

import (
	"bytes"
	"fmt"
	"sort"
	"strings"
	"testing"
	"time"

	"pgregory.net/rapid"

	"seehuhn.de/go/geom/matrix"
	"seehuhn.de/go/postscript/type1"

	"golang.org/x/text/language"
	"seehuhn.de/go/postscript/funit"
	"seehuhn.de/go/sfnt"
	"seehuhn.de/go/sfnt/cff"
	"seehuhn.de/go/sfnt/cmap"
	"seehuhn.de/go/sfnt/glyf"
	"seehuhn.de/go/sfnt/glyph"
	"seehuhn.de/go/sfnt/opentype/coverage"
	"seehuhn.de/go/sfnt/opentype/gtab"
	"verif/harness/fontcmp"
	genfont "verif/harness/gen/font"
	"verif/harness/guard"
	"verif/harness/stats"
)

func TestMain(m *testing.M) { stats.MainExit(m) }

// sig renders everything the property says must be preserved for one glyph,
// with composite references resolved recursively to the component content
// (so it is independent of glyph numbering).
func sig(f *sfnt.Font, gid glyph.ID) string {
	full := sigFull(f, gid)
	if len(full) > 60 {
		return fmt.Sprintf("%.40s…#%012x", full, stats.Hash(full)&0xffffffffffff)
	}
	return full
}

func sigFull(f *sfnt.Font, gid glyph.ID) string {
	if int(gid) >= f.NumGlyphs() {
		return fmt.Sprintf("OUT-OF-RANGE(%d)", gid)
	}
	switch o := f.Outlines.(type) {
	case *glyf.Outlines:
		name := ""
		if int(gid) < len(o.Names) {
			name = o.Names[gid] // (a names list may be shorter than the glyph list)
		}
		return fmt.Sprintf("w=%d n=%q %s", o.Widths[gid], name, flatten(o, gid, 0))
	case *cff.Outlines:
		g := o.Glyphs[gid]
		fd := o.FDSelect(gid)
		s := fmt.Sprintf("w=%v n=%q cmds=%v h=%v v=%v priv=%+v", g.Width, g.Name, g.Cmds, g.HStem, g.VStem, *o.Private[fd])
		if o.IsCIDKeyed() {
			s += fmt.Sprintf(" cid=%d fm=%v", o.GIDToCID[gid], o.FontMatrices[fd])
		}
		return s
	}
	return "?"
}

func flatten(o *glyf.Outlines, gid glyph.ID, depth int) string {
	if depth > 10 {
		return "TOO-DEEP"
	}
	if int(gid) >= len(o.Glyphs) {
		return fmt.Sprintf("DANGLING(%d)", gid)
	}
	g := o.Glyphs[gid]
	if g == nil {
		return "blank"
	}
	switch d := g.Data.(type) {
	case glyf.SimpleGlyph:
		return fmt.Sprintf("S%v:%d:%x", g.Rect16, d.NumContours, d.Encoded)
	case glyf.CompositeGlyph:
		var sb strings.Builder
		fmt.Fprintf(&sb, "C%v[", g.Rect16)
		for _, c := range d.Components {
			fmt.Fprintf(&sb, "(%04x:%x:%s)", uint16(c.Flags), c.Data, flatten(o, c.GlyphIndex, depth+1))
		}
		fmt.Fprintf(&sb, "]i=%v:%x", d.Instructions != nil, d.Instructions)
		return sb.String()
	}
	return "?"
}

// closure computes old glyph ids the subset needs beyond list.  required:
// outputs of substitution rules whose inputs are all retained (transitively
// through GSUB), then the components of everything retained so far
// (transitively through composites).  allowed: the joint fixed point of both
// relations (a superset: an implementation may also follow substitutions
// starting from component glyphs).
func closure(f *sfnt.Font, list []glyph.ID) (required, allowed map[glyph.ID]bool) {
	run := func(joint bool) map[glyph.ID]bool {
		have := map[glyph.ID]bool{}
		for _, g := range list {
			have[g] = true
		}
		extra := map[glyph.ID]bool{}
		add := func(g glyph.ID) bool {
			if have[g] || int(g) >= f.NumGlyphs() {
				return false
			}
			have[g] = true
			extra[g] = true
			return true
		}
		gsubStep := func() bool {
			changed := false
			if f.Gsub == nil {
				return false
			}
			for _, l := range f.Gsub.LookupList {
				for _, st := range l.Subtables {
					switch st := st.(type) {
					case *gtab.Gsub1_1:
						for g := range st.Cov {
							if have[g] && add(g+st.Delta) {
								changed = true
							}
						}
					case *gtab.Gsub4_1:
						for g, idx := range st.Cov {
							if !have[g] {
								continue
							}
						ligs:
							for _, lig := range st.Repl[idx] {
								for _, in := range lig.In {
									if !have[in] {
										continue ligs
									}
								}
								if add(lig.Out) {
									changed = true
								}
							}
						}
					}
				}
			}
			return changed
		}
		compStep := func() bool {
			changed := false
			o, ok := f.Outlines.(*glyf.Outlines)
			if !ok {
				return false
			}
			var cur []glyph.ID
			for g := range have {
				cur = append(cur, g)
			}
			for _, g := range cur {
				for _, c := range o.Glyphs[g].Components() {
					if add(c) {
						changed = true
					}
				}
			}
			return changed
		}
		if joint {
			for gsubStep() || compStep() {
			}
		} else {
			for gsubStep() {
			}
			for compStep() {
			}
		}
		return extra
	}
	return run(false), run(true)
}

// gsubReach returns the glyphs outside list that substitution rules can
// produce from sequences of listed glyphs (the GSUB part of the closure):
// these can occur in shaped text of the subset, component-only glyphs cannot.
func gsubReach(f *sfnt.Font, list []glyph.ID) map[glyph.ID]bool {
	if f.Gsub == nil {
		return nil
	}
	g := *f
	if o, ok := f.Outlines.(*glyf.Outlines); ok {
		// same font without composite references
		o2 := *o
		o2.Glyphs = make(glyf.Glyphs, len(o.Glyphs))
		g.Outlines = &o2
	}
	req, _ := closure(&g, list)
	return req
}

func allLookups(info *gtab.Info) []gtab.LookupIndex {
	var all []gtab.LookupIndex
	for i := range info.LookupList {
		all = append(all, gtab.LookupIndex(i))
	}
	return all
}

func shape(f *sfnt.Font, info *gtab.Info, lookups []gtab.LookupIndex, seq []glyph.ID) (out []glyph.Info, pn *guard.Panic) {
	in := make([]glyph.Info, len(seq))
	for i, g := range seq {
		in[i] = glyph.Info{GID: g, Text: []rune{rune('a' + i)}, Advance: 100}
	}
	pn = guard.Try(func() {
		ctx := gtab.NewContext(info.LookupList, f.Gdef, lookups)
		out = ctx.Apply(in)
	})
	return
}

func render(f *sfnt.Font, seq []glyph.Info) string {
	var sb strings.Builder
	for _, g := range seq {
		fmt.Fprintf(&sb, "{%s|%q|%d,%d,%d}", sig(f, g.GID), string(g.Text), g.XOffset, g.YOffset, g.Advance)
	}
	return sb.String()
}

func genList(t *rapid.T, n int) []glyph.ID {
	list := []glyph.ID{0}
	if n == 1 {
		return list
	}
	rest := make([]int, 0, n-1)
	for i := 1; i < n; i++ {
		rest = append(rest, i)
	}
	perm := rapid.Permutation(rest).Draw(t, "perm")
	k := rapid.IntRange(0, len(perm)).Draw(t, "listLen")
	for _, g := range perm[:k] {
		list = append(list, glyph.ID(g))
	}
	return list
}

func subtableMap(st cmap.Subtable) map[rune]glyph.ID {
	m := map[rune]glyph.ID{}
	switch st := st.(type) {
	case cmap.Format4:
		for c, g := range st {
			m[rune(c)] = g
		}
	case cmap.Format12:
		for c, g := range st {
			m[rune(c)] = g
		}
	case *cmap.Format0:
		for c, g := range st.Data {
			if g != 0 {
				m[rune(c)] = glyph.ID(g)
			}
		}
	default:
		panic(fmt.Sprintf("harness: subtable type %T not rendered", st))
	}
	return m
}

// installChain replaces the font's layout tables by a chain of dependent
// substitutions a -> b, "b c" -> d, "d c" -> e (in one or several lookups, in
// any lookup order) plus kerning pairs that involve the glyphs only the chain
// produces, and returns a glyph list that requests a and c but usually not
// b, d, e: the subsetter then has to follow the chain to its end, and the
// pairs of the appended glyphs have to survive.
func installChain(t *rapid.T, f *sfnt.Font, list []glyph.ID) []glyph.ID {
	n := f.NumGlyphs()
	ids := make([]int, 0, n-1)
	for i := 1; i < n; i++ {
		ids = append(ids, i)
	}
	p := rapid.Permutation(ids).Draw(t, "chainGlyphs")
	a, b, c, d, e, x := glyph.ID(p[0]), glyph.ID(p[1]), glyph.ID(p[2]), glyph.ID(p[3]), glyph.ID(p[4]), glyph.ID(p[5])
	single := &gtab.LookupTable{Meta: &gtab.LookupMetaInfo{LookupType: 1},
		Subtables: []gtab.Subtable{&gtab.Gsub1_1{Cov: coverage.Set{a: true}, Delta: b - a}}}
	lig := func(first, out glyph.ID) *gtab.LookupTable {
		return &gtab.LookupTable{Meta: &gtab.LookupMetaInfo{LookupType: 4},
			Subtables: []gtab.Subtable{&gtab.Gsub4_1{Cov: coverage.Table{first: 0}, Repl: [][]gtab.Ligature{{{In: []glyph.ID{c}, Out: out}}}}}}
	}
	var ll gtab.LookupList
	if rapid.Bool().Draw(t, "chainOneSubtable") {
		cov := coverage.Table{b: 0, d: 1}
		repl := [][]gtab.Ligature{{{In: []glyph.ID{c}, Out: d}}, {{In: []glyph.ID{c}, Out: e}}}
		if d < b {
			cov = coverage.Table{d: 0, b: 1}
			repl[0], repl[1] = repl[1], repl[0]
		}
		ll = gtab.LookupList{single, {Meta: &gtab.LookupMetaInfo{LookupType: 4}, Subtables: []gtab.Subtable{&gtab.Gsub4_1{Cov: cov, Repl: repl}}}}
	} else {
		ll = gtab.LookupList{single, lig(b, d), lig(d, e)}
	}
	order := rapid.Permutation(ll).Draw(t, "chainLookupOrder")
	all := make([]gtab.LookupIndex, len(order))
	for i := range all {
		all[i] = gtab.LookupIndex(i)
	}
	tag := language.MustParse("und-Latn")
	f.Gsub = &gtab.Info{
		ScriptList:  gtab.ScriptListInfo{tag: {Required: 0xFFFF, Optional: []gtab.FeatureIndex{0}}},
		FeatureList: gtab.FeatureListInfo{{Tag: "liga", Lookups: all}},
		LookupList:  order,
	}
	pairs := gtab.Gpos2_1{}
	for _, pr := range [][2]glyph.ID{{x, d}, {d, x}, {e, x}, {x, e}, {b, c}, {a, c}, {e, e}} {
		if rapid.IntRange(0, 3).Draw(t, "chainPair") > 0 {
			pairs[glyph.Pair{Left: pr[0], Right: pr[1]}] = &gtab.PairAdjust{First: &gtab.GposValueRecord{XAdvance: funit.Int16(rapid.IntRange(-200, 200).Draw(t, "chainKern"))}}
		}
	}
	if len(pairs) > 0 {
		f.Gpos = &gtab.Info{
			ScriptList:  gtab.ScriptListInfo{tag: {Required: 0xFFFF, Optional: []gtab.FeatureIndex{0}}},
			FeatureList: gtab.FeatureListInfo{{Tag: "kern", Lookups: []gtab.LookupIndex{0}}},
			LookupList:  gtab.LookupList{{Meta: &gtab.LookupMetaInfo{LookupType: 2}, Subtables: []gtab.Subtable{pairs}}},
		}
	}
	f.Gdef = nil
	// the list: a, c and x requested; b, d, e only sometimes
	drop := map[glyph.ID]bool{}
	for _, g := range []glyph.ID{b, d, e} {
		if rapid.IntRange(0, 3).Draw(t, "chainKeepProduced") > 0 {
			drop[g] = true
		}
	}
	have := map[glyph.ID]bool{}
	var res []glyph.ID
	for _, g := range list {
		if !drop[g] {
			res = append(res, g)
			have[g] = true
		}
	}
	for _, g := range []glyph.ID{a, c, x} {
		if !have[g] {
			pos := rapid.IntRange(1, len(res)).Draw(t, "chainInsertAt")
			res = append(res[:pos], append([]glyph.ID{g}, res[pos:]...)...)
			have[g] = true
		}
	}
	return res
}

func TestC10Subset(t *testing.T) {
	o := genfont.Opts{MaxGlyphs: 16, Layout: genfont.LayoutSubset}
	if stats.Thorough() {
		o.MaxGlyphs = 60
	}
	rapid.Check(t, func(t *rapid.T) {
		o := o
		if k := rapid.IntRange(0, 19).Draw(t, "sizeClass"); k == 0 {
			// around the sizes where a glyph index no longer fits a byte
			o.MinGlyphs, o.MaxGlyphs = 250, 300
		} else if k == 1 {
			o.MinGlyphs, o.MaxGlyphs = 301, 3000
		}
		c := genfont.Gen(o).Draw(t, "font")
		f := c.Font
		n := f.NumGlyphs()
		list := genList(t, n)
		if co, ok := f.Outlines.(*cff.Outlines); ok && len(co.Private) > 1 && n > 2 && rapid.IntRange(0, 2).Draw(t, "allFDsPermuted") == 0 {
			// a list that uses every font dictionary of the original, first
			// used in a drawn order (not the order of the original's array)
			byFD := map[int][]glyph.ID{}
			for gid := 1; gid < n; gid++ {
				fd := co.FDSelect(glyph.ID(gid))
				byFD[fd] = append(byFD[fd], glyph.ID(gid))
			}
			fds := make([]int, 0, len(byFD))
			for fd := range byFD {
				fds = append(fds, fd)
			}
			sort.Ints(fds)
			fds = rapid.Permutation(fds).Draw(t, "fdOrder")
			head := []glyph.ID{0}
			taken := map[glyph.ID]bool{0: true}
			for _, fd := range fds {
				g := rapid.SampledFrom(byFD[fd]).Draw(t, "fdGlyph")
				head = append(head, g)
				taken[g] = true
			}
			for _, g := range list {
				if !taken[g] {
					head = append(head, g)
				}
			}
			list = head
			c.Labels = append(c.Labels, "list:every-fd-in-drawn-order")
		}
		chained := false
		if n >= 7 && rapid.IntRange(0, 3).Draw(t, "chainProfile") == 0 {
			list = installChain(t, f, list)
			chained = true
		}
		ctx := func() string { return fmt.Sprintf("list=%v\n%s", list, c) }

		if o, ok := f.Outlines.(*glyf.Outlines); ok && len(o.Names) > 1 && rapid.IntRange(0, 7).Draw(t, "shortNames") == 0 {
			// what the reader returns for a file whose post table lists fewer
			// names than there are glyphs: the glyphs behind have no name
			o.Names = o.Names[:rapid.IntRange(1, len(o.Names)-1).Draw(t, "namesLen")]
			c.Labels = append(c.Labels, "tt-short-names-list")
		} else if rapid.IntRange(0, 2).Draw(t, "fromFile") == 0 {
			// the usual way a font gets subset: it has been read from a file
			// (other slice/map shapes, shared cmap subtables, FDSelect as the
			// reader builds it)
			var buf bytes.Buffer
			if _, err := f.Write(&buf); err == nil {
				if rf, err := sfnt.Read(bytes.NewReader(buf.Bytes())); err == nil && rf.NumGlyphs() == n {
					f = rf
					c.Font = rf
					c.Labels = append(c.Labels, "font-read-from-file")
				}
			}
		}

		var before bytes.Buffer
		f.Write(&before)

		var s *sfnt.Font
		if pn := guard.Try(func() { s = f.Subset(append([]glyph.ID(nil), list...)) }); pn != nil {
			t.Fatalf("Subset panicked: %s\n%s\n%s", pn, ctx(), pn.Stack)
		}
		var after bytes.Buffer
		f.Write(&after)
		if !bytes.Equal(before.Bytes(), after.Bytes()) {
			t.Fatalf("Subset modified the original font\n%s", ctx())
		}

		newIdx := map[glyph.ID]int{}
		for i, g := range list {
			newIdx[g] = i
		}
		required, extra := closure(f, list)

		// (a)+(c): glyph i is the original glyph list[i], composite references
		// resolve to the same component content
		if s.NumGlyphs() < len(list) {
			t.Fatalf("subset has %d glyphs, %d requested\n%s", s.NumGlyphs(), len(list), ctx())
		}
		for i, old := range list {
			if a, b := sig(f, old), sig(s, glyph.ID(i)); a != b {
				t.Fatalf("[intact] subset glyph %d differs from original glyph %d:\n  want %s\n  got  %s\n%s", i, old, a, b, ctx())
			}
		}
		// (b) closure: exactly the needed extra glyphs appended, by content
		wantExtra, allowedExtra := map[string]int{}, map[string]int{}
		for g := range required {
			wantExtra[sig(f, g)]++
		}
		for g := range extra {
			allowedExtra[sig(f, g)]++
		}
		gotExtra := map[string]int{}
		for j := len(list); j < s.NumGlyphs(); j++ {
			gotExtra[sig(s, glyph.ID(j))]++
		}
		for k, v := range wantExtra {
			if gotExtra[k] < v {
				t.Fatalf("[closure] a glyph needed by a composite or substitution rule is missing from the subset: %s\n%s", k, ctx())
			}
		}
		for k, v := range gotExtra {
			if allowedExtra[k] < v {
				t.Fatalf("[closure] subset has an appended glyph nothing needs: %s\n%s", k, ctx())
			}
		}

		// (d) cmap
		if len(s.CMapTable) != len(f.CMapTable) {
			t.Fatalf("[cmap] subset has %d cmap subtables, original %d\n%s", len(s.CMapTable), len(f.CMapTable), ctx())
		}
		for key := range f.CMapTable {
			oldSt, err := f.CMapTable.Get(key)
			if err != nil {
				continue
			}
			newSt, err := s.CMapTable.Get(key)
			if err != nil {
				t.Fatalf("[cmap] subtable %v missing or unreadable in subset: %v\n%s", key, err, ctx())
			}
			oldM, newM := subtableMap(oldSt), subtableMap(newSt)
			for r, og := range oldM {
				ng := newM[r]
				if i, ok := newIdx[og]; ok {
					if int(ng) != i {
						t.Fatalf("[cmap] %v: U+%04X mapped to old glyph %d = new glyph %d, subset maps it to %d\n%s", key, r, og, i, ng, ctx())
					}
				} else if extra[og] {
					// appended glyph: either unmapped or mapped to an equal appended glyph
					if ng != 0 && (int(ng) < len(list) || sig(s, ng) != sig(f, og)) {
						t.Fatalf("[cmap] %v: U+%04X mapped to appended old glyph %d, subset maps it to %d\n%s", key, r, og, ng, ctx())
					}
				} else if ng != 0 {
					t.Fatalf("[cmap] %v: U+%04X mapped to dropped glyph %d, subset maps it to %d\n%s", key, r, og, ng, ctx())
				}
			}
			for r, ng := range newM {
				if _, ok := oldM[r]; !ok && ng != 0 {
					t.Fatalf("[cmap] %v: U+%04X is mapped in the subset (to %d) but not in the original\n%s", key, r, ng, ctx())
				}
			}
		}

		// (e) CFF encoding and CIDs (CIDs are part of sig)
		if fo, ok := f.Outlines.(*cff.Outlines); ok && !fo.IsCIDKeyed() {
			so := s.Outlines.(*cff.Outlines)
			if fo.Encoding != nil {
				if len(so.Encoding) != 256 {
					t.Fatalf("[encoding] subset encoding has length %d\n%s", len(so.Encoding), ctx())
				}
				for code, og := range fo.Encoding {
					want := 0
					if i, ok := newIdx[og]; ok && og != 0 {
						want = i
					}
					if got := int(so.Encoding[code]); got != want {
						if extra[og] && got >= len(list) && sig(s, glyph.ID(got)) == sig(f, og) {
							continue
						}
						t.Fatalf("[encoding] code %d: old glyph %d, want new glyph %d, got %d\n%s", code, og, want, got, ctx())
					}
				}
			}
		}

		// (f) layout rules among retained glyphs keep their meaning.  Retained
		// = requested glyphs plus the appended ones; an appended glyph is
		// identified by its content when that is unambiguous.
		newIdxAll := map[glyph.ID]int{}
		for g, i := range newIdx {
			newIdxAll[g] = i
		}
		var retained []glyph.ID
		retained = append(retained, list...)
		{
			bySig := map[string][]int{}
			for j := len(list); j < s.NumGlyphs(); j++ {
				k := sig(s, glyph.ID(j))
				bySig[k] = append(bySig[k], j)
			}
			oldBySig := map[string][]glyph.ID{}
			for g := range extra {
				k := sig(f, g)
				oldBySig[k] = append(oldBySig[k], g)
			}
			// only glyphs that shaping can produce from requested glyphs:
			// rules that start from a component-only glyph are not demanded
			// (see the closure oracle)
			var olds []glyph.ID
			for g := range gsubReach(f, list) {
				olds = append(olds, g)
			}
			sort.Slice(olds, func(i, j int) bool { return olds[i] < olds[j] })
			for _, g := range olds {
				k := sig(f, g)
				if len(bySig[k]) == 1 && len(oldBySig[k]) == 1 {
					newIdxAll[g] = bySig[k][0]
					retained = append(retained, g)
				}
			}
		}
		seqs := [][]glyph.ID{}
		if len(retained) > len(list) {
			// sequences that involve appended glyphs
			for k := 0; k < 30; k++ {
				l := rapid.IntRange(1, 4).Draw(t, "seqLenR")
				sq := make([]glyph.ID, l)
				for i := range sq {
					sq[i] = rapid.SampledFrom(retained).Draw(t, "seqGidR")
				}
				seqs = append(seqs, sq)
			}
		}
		if len(list) <= 5 {
			var rec func(prefix []glyph.ID)
			rec = func(prefix []glyph.ID) {
				if len(prefix) > 0 {
					seqs = append(seqs, append([]glyph.ID(nil), prefix...))
				}
				if len(prefix) == 3 {
					return
				}
				for _, g := range list {
					rec(append(prefix, g))
				}
			}
			rec(nil)
		} else {
			for k := 0; k < 40; k++ {
				l := rapid.IntRange(1, 5).Draw(t, "seqLen")
				sq := make([]glyph.ID, l)
				for i := range sq {
					sq[i] = rapid.SampledFrom(list).Draw(t, "seqGid")
				}
				seqs = append(seqs, sq)
			}
		}
		fired := false
		for _, pair := range []struct {
			name string
			a, b *gtab.Info
		}{{"GSUB", f.Gsub, s.Gsub}, {"GPOS", f.Gpos, s.Gpos}} {
			if pair.a == nil {
				if pair.b != nil {
					t.Fatalf("[layout] subset has a %s table, original has none\n%s", pair.name, ctx())
				}
				continue
			}
			if pair.b == nil {
				t.Fatalf("[layout] %s table lost\n%s", pair.name, ctx())
			}
			if d := fontcmp.DeepDiff(pair.name+".FeatureList tags", featureTags(pair.a), featureTags(pair.b)); d != "" {
				t.Fatalf("[layout] %s\n%s", d, ctx())
			}
			// per feature, as a user would select lookups, and all lookups together
			sets := [][2][]gtab.LookupIndex{}
			for i := range pair.a.FeatureList {
				if i < len(pair.b.FeatureList) {
					sets = append(sets, [2][]gtab.LookupIndex{pair.a.FeatureList[i].Lookups, pair.b.FeatureList[i].Lookups})
				}
			}
			sets = append(sets, [2][]gtab.LookupIndex{allLookups(pair.a), allLookups(pair.b)})
			for _, ls := range sets {
				for _, sq := range seqs {
					want, pn := shape(f, pair.a, ls[0], sq)
					if pn != nil {
						continue // shaping safety is C07's business
					}
					mapped := make([]glyph.ID, len(sq))
					for i, g := range sq {
						mapped[i] = glyph.ID(newIdxAll[g])
					}
					got, pn := shape(s, pair.b, ls[1], mapped)
					if pn != nil {
						t.Fatalf("[layout] %s: shaping %v in the subset panicked: %s\n%s", pair.name, mapped, pn, ctx())
					}
					w, g := render(f, want), render(s, got)
					if w != g {
						t.Fatalf("[layout] %s lookups %v/%v: sequence %v (new %v) shapes differently in the subset\n  original: %s\n  subset:   %s\n  original table: %s\n  subset table:   %s\n  retained=%v required=%v allowed=%v subset glyphs=%d\n%s", pair.name, ls[0], ls[1], sq, mapped, w, g, fontcmp.Dump(pair.a.LookupList), fontcmp.Dump(pair.b.LookupList), retained, required, extra, s.NumGlyphs(), ctx())
					}
					if len(want) != len(sq) {
						fired = true
					} else {
						for i := range want {
							if want[i].GID != sq[i] || want[i].Advance != 100 || want[i].XOffset != 0 {
								fired = true
							}
						}
					}
				}
			}
		}

		// (g) the subset can be written and read back
		var buf bytes.Buffer
		var err error
		if pn := guard.Try(func() { _, err = s.Write(&buf) }); pn != nil {
			t.Fatalf("[write] writing the subset panicked: %s\n%s", pn, ctx())
		}
		writable := true
		if err != nil {
			if strings.Contains(err.Error(), "encoded glyphs not contiguous") && stats.IsListed("C10", knownEncoding) {
				// known finding, matched by its error: the rest of the case still counts
				stats.Excluded(knownEncoding)
				writable = false
			} else {
				t.Fatalf("[write] writing the subset failed: %v\n%s", err, ctx())
			}
		}
		var s2 *sfnt.Font
		if writable {
			if pn := guard.Try(func() { s2, err = sfnt.Read(bytes.NewReader(buf.Bytes())) }); pn != nil {
				t.Fatalf("[write] reading the subset back panicked: %s\n%s", pn, ctx())
			}
			if err != nil {
				t.Fatalf("[write] reading the subset back failed: %v\n%s", err, ctx())
			}
			if d := fontcmp.DiffOutlines(s.Outlines, s2.Outlines); d != "" {
				t.Fatalf("[write] subset outlines change on write/read: %s\n%s", d, ctx())
			}
		}

		prefix := true
		for i, g := range list {
			if int(g) != i {
				prefix = false
			}
		}
		labels := append([]string{}, c.Labels...)
		if len(extra) > 0 {
			labels = append(labels, "closure-extra")
		}
		if fired {
			labels = append(labels, "layout-rule-fired")
		}
		if prefix {
			labels = append(labels, "identity-prefix")
		}
		hasComp := false
		for _, l := range c.Labels {
			if l == "composite" || l == "multi-fd" {
				hasComp = true
			}
		}
		nt := !prefix && (hasComp || fired)
		if chained {
			labels = append(labels, "chain-profile")
		}
		if len(retained) > len(list) {
			labels = append(labels, "layout-compared-on-appended-glyphs")
		}
		stats.CaseIn("subset", stats.Hash(before.Bytes(), fmt.Sprint(list)), nt, func() string { return ctx() }, labels...)
	})
}

func featureTags(info *gtab.Info) []string {
	var res []string
	for _, f := range info.FeatureList {
		res = append(res, f.Tag)
	}
	return res
}

var _ = sort.Ints

const knownEncoding = "cff-subset-encoding-not-contiguous"

// TestC10KnownEncoding is the committed minimal reproducer of the former
// finding cff-subset-encoding-not-contiguous (repaired in the library; kept
// as a regression test, and reported again should it return).
func TestC10KnownEncoding(t *testing.T) {
	mk := func(name string) *cff.Glyph {
		g := cff.NewGlyph(name, 500)
		g.MoveTo(0, 0)
		g.LineTo(100, 0)
		g.LineTo(100, 100)
		return g
	}
	o := &cff.Outlines{
		Glyphs:   []*cff.Glyph{mk(".notdef"), mk("A"), mk("B"), mk("C"), mk("D")},
		Private:  []*type1.PrivateDict{{BlueScale: 0.039625, BlueShift: 7, BlueFuzz: 1}},
		FDSelect: func(glyph.ID) int { return 0 },
		Encoding: make([]glyph.ID, 256),
	}
	o.Encoding[65], o.Encoding[66], o.Encoding[67] = 1, 2, 3 // D has no code
	f := &sfnt.Font{
		FamilyName: "Repro", Width: 5, Weight: 400, UnitsPerEm: 1000,
		FontMatrix: matrix.Matrix{0.001, 0, 0, 0.001, 0, 0}, Ascent: 800, Descent: -200,
		CreationTime: time.Unix(1700000000, 0), Outlines: o,
	}
	var buf bytes.Buffer
	if _, err := f.Write(&buf); err != nil {
		t.Fatalf("the full font must be writable: %v", err)
	}
	// D (no code) becomes glyph 1, A (code 65) glyph 2: the encoded glyphs
	// of the subset no longer form a range starting at glyph 1
	s := f.Subset([]glyph.ID{0, 4, 1})
	buf.Reset()
	_, err := s.Write(&buf)
	if err != nil {
		if stats.Known("C10", knownEncoding) {
			t.Logf("known finding still present: %v", err)
			return
		}
		t.Fatalf("subset with non-contiguous encoding cannot be written: %v", err)
	}
	stats.CaseIn("known-encoding", 1, false, nil)
}

// TestC10RegressByteEncodingCmap: a font whose cmap has a format 0 subtable
// under the Windows symbol key is subset; the codes keep their meaning.
func TestC10RegressByteEncodingCmap(t *testing.T) {
	c := genfont.Gen(genfont.Opts{Kind: genfont.KindCFF, MinGlyphs: 5, MaxGlyphs: 6, Layout: genfont.LayoutNone}).Example(3)
	f := c.Font
	b0 := &cmap.Format0{}
	b0.Data[0x41], b0.Data[0x42], b0.Data[0xF0] = 1, 2, 3
	key := cmap.Key{PlatformID: 3, EncodingID: 0}
	f.CMapTable = cmap.Table{key: b0.Encode(0)}
	var s *sfnt.Font
	if pn := guard.Try(func() { s = f.Subset([]glyph.ID{0, 3, 1}) }); pn != nil {
		t.Fatalf("Subset panicked: %s", pn)
	}
	st, err := s.CMapTable.Get(key)
	if err != nil {
		t.Fatalf("subtable %v lost: %v", key, err)
	}
	for code, want := range map[rune]glyph.ID{0x41: 2, 0x42: 0, 0xF0: 1, 0x43: 0} {
		if got := st.Lookup(code); got != want {
			t.Errorf("code %#x: new glyph %d, want %d", code, got, want)
		}
	}
}

// TestC10RegressMacHighCodes: the Macintosh subtable of a subset keeps the
// meaning of the Mac Roman codes above 0x7F.
func TestC10RegressMacHighCodes(t *testing.T) {
	c := genfont.Gen(genfont.Opts{Kind: genfont.KindCFF, MinGlyphs: 5, MaxGlyphs: 6, Layout: genfont.LayoutNone}).Example(3)
	f := c.Font
	key := cmap.Key{PlatformID: 1, EncodingID: 0}
	f.CMapTable = cmap.Table{key: cmap.Format4{0x41: 1, 0x8A: 2, 0xE4: 3}.Encode(0)} // A, a-dieresis, per mille
	var s *sfnt.Font
	if pn := guard.Try(func() { s = f.Subset([]glyph.ID{0, 3, 2}) }); pn != nil {
		t.Fatalf("Subset panicked: %s", pn)
	}
	st, err := s.CMapTable.Get(key)
	if err != nil {
		t.Fatalf("subtable %v lost: %v", key, err)
	}
	for r, want := range map[rune]glyph.ID{'A': 0, 0xE4: 2, 0x2030: 1, 0x8A: 0} {
		if got := st.Lookup(r); got != want {
			t.Errorf("U+%04X: new glyph %d, want %d", r, got, want)
		}
	}
}

// TestC10RegressShortNames: a TrueType font with a names list shorter than
// its glyph list (and one without widths) can be subset.
func TestC10RegressShortNames(t *testing.T) {
	var c *genfont.Case
	for seed := 1; ; seed++ {
		c = genfont.Gen(genfont.Opts{Kind: genfont.KindGlyf, MinGlyphs: 6, MaxGlyphs: 8, Layout: genfont.LayoutNone, NoComposites: true}).Example(seed)
		if o := c.Font.Outlines.(*glyf.Outlines); len(o.Names) >= 6 {
			break
		}
	}
	o := c.Font.Outlines.(*glyf.Outlines)
	o.Names = o.Names[:3]
	var s *sfnt.Font
	if pn := guard.Try(func() { s = c.Font.Subset([]glyph.ID{0, 5, 2}) }); pn != nil {
		t.Fatalf("Subset panicked on a short names list: %s", pn)
	}
	if got, want := s.GlyphName(2), c.Font.GlyphName(2); got != want {
		t.Errorf("glyph 2 of the subset is named %q, the original glyph %q", got, want)
	}
	if got := s.GlyphName(1); got != "" {
		t.Errorf("glyph 1 of the subset (old glyph 5, beyond the names list) is named %q", got)
	}
	o.Names, o.Widths = nil, nil
	if pn := guard.Try(func() { s = c.Font.Subset([]glyph.ID{0, 5, 2}) }); pn != nil {
		t.Fatalf("Subset panicked on a font without widths: %s", pn)
	}
	if w := s.GlyphWidth(1); w != 0 {
		t.Errorf("width %v for a glyph of a font without widths", w)
	}
}
