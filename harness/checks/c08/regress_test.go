package c08

import (
	"bytes"
	"testing"

	"seehuhn.de/go/sfnt/glyph"
	"seehuhn.de/go/sfnt/opentype/anchor"
	"seehuhn.de/go/sfnt/opentype/classdef"
	"seehuhn.de/go/sfnt/opentype/coverage"
	"seehuhn.de/go/sfnt/opentype/gdef"
	"seehuhn.de/go/sfnt/opentype/gtab"
	"seehuhn.de/go/sfnt/opentype/markarray"
	"verif/harness/fontcmp"
	"verif/harness/gen/lookups"
	"verif/harness/guard"
	"verif/harness/stats"
)

// Plain regression tests, one per repaired defect (see
// /verif/proposed-fixes/C08-notes.md).  Each fails on the pinned tree and
// passes with the corresponding diff applied; a failure that is listed in
// known-findings.txt is counted instead.

func regressInfo(t *testing.T, name string, c *infoCase) {
	t.Helper()
	v, f := checkInfo(c)
	known := settle(t, c, f)
	labels := append([]string{}, v.labels...)
	if known {
		labels = append(labels, "known-finding")
	}
	stats.CaseIn("regress", stats.Hash(name), true, func() string { return name }, labels...)
}

// A nil LookupList (or ScriptList, FeatureList) must not make the other
// lists disappear.
func TestC08RegressNilLists(t *testing.T) {
	lookup := gtab.LookupList{{
		Meta:      &gtab.LookupMetaInfo{LookupType: 1},
		Subtables: []gtab.Subtable{&gtab.Gsub1_1{Cov: coverage.Set{3: true}, Delta: 2}},
	}}
	for _, v := range []struct {
		name string
		x    *gtab.Info
	}{
		{"nil-lookuplist", &gtab.Info{ScriptList: dfltScripts(), FeatureList: oneFeature(), LookupList: nil}},
		{"nil-featurelist", &gtab.Info{ScriptList: dfltScripts(), FeatureList: nil, LookupList: lookup}},
		{"nil-scriptlist", &gtab.Info{ScriptList: nil, FeatureList: oneFeature(), LookupList: lookup}},
		{"nil-featurelist-all-empty", &gtab.Info{ScriptList: gtab.ScriptListInfo{}, FeatureList: nil, LookupList: gtab.LookupList{}}},
	} {
		regressInfo(t, "nil-lists/"+v.name, &infoCase{kind: gtab.TypeGsub, info: v.x, desc: []string{v.name}})
	}
}

// Three 36 KiB subtables in one lookup need extension subtables.
func TestC08RegressSubtableOffsets(t *testing.T) {
	bc := lookups.FindBigClass("gsub1_2")
	regressInfo(t, "subtable-offsets", &infoCase{
		kind:  gtab.TypeGsub,
		info:  &gtab.Info{ScriptList: dfltScripts(), FeatureList: oneFeature(), LookupList: gtab.LookupList{bigLookup(bc, 9000, 9001, 9002)}},
		sites: []string{lookups.SiteSubtableOffset},
		desc:  []string{"one lookup with three Gsub1_2 subtables of 9000, 9001, 9002 glyphs (stride 2)"},
	})
}

// Extension lookups in a kerning-only GPOS table and in tables that hold
// only contextual lookups must carry lookup type 9 / 7.
func TestC08RegressExtensionType(t *testing.T) {
	for _, name := range []string{"gpos2_1", "gsub5_1", "gpos8_1"} {
		bc := lookups.FindBigClass(name)
		n := (bc.Lo + bc.Hi) / 2
		regressInfo(t, "ext-type/"+name, &infoCase{
			kind:  bc.Kind,
			info:  &gtab.Info{ScriptList: dfltScripts(), FeatureList: oneFeature(), LookupList: gtab.LookupList{bigLookup(bc, n), bigLookup(bc, n+1), bigLookup(bc, n+2)}},
			sites: []string{lookups.SiteLookupOffset},
			desc:  []string{"three lookups, each one subtable " + name},
		})
	}
}

// A lookup list offset beyond 64 KiB must be refused, not wrapped.
func TestC08RegressHeaderOffset(t *testing.T) {
	fl := make(gtab.FeatureListInfo, 6553)
	for i := range fl {
		fl[i] = &gtab.Feature{Tag: "test"}
	}
	regressInfo(t, "header-offset", &infoCase{
		kind:     gtab.TypeGsub,
		info:     &gtab.Info{ScriptList: gtab.ScriptListInfo{}, FeatureList: fl, LookupList: gtab.LookupList{}},
		overflow: []string{lookups.SiteHeaderListOffset},
		sites:    []string{lookups.SiteHeaderListOffset},
		desc:     []string{"6553 features without lookups: lookup list would start at offset 65544"},
	})
}

func altClasses(n, shift, period int) classdef.Table {
	cd := make(classdef.Table, n)
	for g := 0; g < n; g++ {
		cd[glyph.ID(g+shift)] = uint16(1 + (g/period)%2)
	}
	return cd
}

func regressTable(t *testing.T, name string, labels []string, f *failure) {
	t.Helper()
	if f != nil {
		if !stats.Known(prop, f.key) {
			t.Errorf("C08 violated [key=%s] in %s: %s", f.key, name, f.msg)
			return
		}
		labels = append(labels, "known-finding")
	}
	stats.CaseIn("regress", stats.Hash(name), true, func() string { return name }, labels...)
}

// GDEF sub-table offsets beyond 64 KiB must be refused, not wrapped.
func TestC08RegressGdefHeaderOffset(t *testing.T) {
	c := &gdefCase{
		table: &gdef.Table{
			GlyphClass:      altClasses(20000, 0, 1),
			MarkAttachClass: altClasses(20000, 3, 1),
			MarkGlyphSets:   []coverage.Set{{1: true, 2: true}},
		},
		desc: "two alternating class tables of 20000 glyphs (40 KiB each) and one mark glyph set",
	}
	labels, f := checkGdef(c)
	regressTable(t, "gdef-header-offset", labels, f)
}

// A class table that classifies all 65536 glyphs cannot use format 1.
func TestC08RegressClassDefFullRange(t *testing.T) {
	// 32768 ranges of two glyphs: format 2 (196612 bytes) is the only choice
	labels, f := checkClassDef(altClasses(0x10000, 0, 2))
	regressTable(t, "classdef-full-range-format2", labels, f)
	// 65536 ranges: neither format can hold the table
	labels, f = checkClassDef(altClasses(0x10000, 0, 1))
	regressTable(t, "classdef-full-range-unrepresentable", labels, f)
}

// A mark-to-ligature subtable without any ligature component whose mark has
// class 0xFFFF (gtab.Read accepts such a table): the class count of the
// header is a 16-bit field, the encoder derived 65536 and refused.
func TestC08RegressGpos5MarkClassFFFF(t *testing.T) {
	for _, v := range []struct {
		name string
		st   *gtab.Gpos5_1
	}{
		{"no-ligatures", &gtab.Gpos5_1{MarkCov: coverage.Table{3: 0}, MarkArray: []markarray.Record{{Class: 0xFFFF}}, LigCov: coverage.Table{}}},
		{"ligatures-without-components", &gtab.Gpos5_1{MarkCov: coverage.Table{3: 0}, MarkArray: []markarray.Record{{Class: 0xFFFF}},
			LigCov: coverage.Table{7: 0, 9: 1}, LigArray: [][][]anchor.Table{{}, {}}}},
	} {
		regressInfo(t, "gpos5-mark-class-ffff/"+v.name, &infoCase{
			kind: gtab.TypeGpos,
			info: &gtab.Info{ScriptList: dfltScripts(), FeatureList: oneFeature(), LookupList: gtab.LookupList{{
				Meta: &gtab.LookupMetaInfo{LookupType: 5}, Subtables: []gtab.Subtable{v.st}}}},
			desc: []string{v.name},
		})
	}
}

// TestC08RegressRuleOffsets: values whose size sits in ONE long rule (33000
// glyphs) instead of many rules or rule sets - the offset of the rule behind
// it inside its rule set passes 64 KiB - and a pair set with all 65536 second
// glyphs (a 16-bit count cannot say 65536).  The format cannot hold these
// values: the encoder must refuse loudly or, if it writes anything, the bytes
// must read back as the value.
func TestC08RegressRuleOffsets(t *testing.T) {
	long := make([]glyph.ID, 33000)
	longCls := make([]uint16, 33000)
	for i := range long {
		long[i] = glyph.ID(1 + i%100)
		longCls[i] = uint16(1 + i%3)
	}
	classes := classdef.Table{1: 1, 2: 2, 3: 3}
	pairs := gtab.Gpos2_1{}
	for r := 0; r < 65536; r++ {
		pairs[glyph.Pair{Left: 3, Right: glyph.ID(r)}] = &gtab.PairAdjust{First: &gtab.GposValueRecord{XAdvance: 10}}
	}
	cases := []struct {
		name string
		kind gtab.Type
		tp   uint16
		st   gtab.Subtable
	}{
		{"SeqContext1: second rule behind a 66 KB rule", gtab.TypeGsub, 5, &gtab.SeqContext1{Cov: coverage.Table{5: 0},
			Rules: [][]*gtab.SeqRule{{{Input: long}, {Input: []glyph.ID{7}}}}}},
		{"SeqContext2: second rule behind a 66 KB rule", gtab.TypeGsub, 5, &gtab.SeqContext2{Cov: coverage.Table{1: 0}, Input: classes,
			Rules: [][]*gtab.ClassSeqRule{nil, {{Input: longCls}, {Input: []uint16{2}}}}}},
		{"ChainedSeqContext1: second rule behind a 66 KB rule", gtab.TypeGsub, 6, &gtab.ChainedSeqContext1{Cov: coverage.Table{5: 0},
			Rules: [][]*gtab.ChainedSeqRule{{{Backtrack: long}, {Backtrack: []glyph.ID{7}}}}}},
		{"Gpos2_1: one first glyph with all 65536 second glyphs", gtab.TypeGpos, 2, pairs},
	}
	for _, c := range cases {
		info := &gtab.Info{LookupList: gtab.LookupList{{Meta: &gtab.LookupMetaInfo{LookupType: c.tp}, Subtables: []gtab.Subtable{c.st}}}}
		var data []byte
		if pn := guard.Try(func() { data = info.Encode() }); pn != nil {
			stats.CaseIn("regress-rule-offsets", stats.Hash(c.name), true, func() string { return c.name + ": refused" }, "refused-loudly")
			continue
		}
		got, err := gtab.Read(bytes.NewReader(data), c.kind)
		if err != nil {
			t.Errorf("%s: Encode wrote %d bytes without complaint, Read rejects them: %v", c.name, len(data), err)
			continue
		}
		if d := fontcmp.DeepDiff("lookups", info.LookupList, got.LookupList); d != "" {
			t.Errorf("%s: Encode wrote %d bytes without complaint, they read back as another value: %s", c.name, len(data), d)
			continue
		}
		stats.CaseIn("regress-rule-offsets", stats.Hash(c.name), true, func() string { return c.name + ": written and read back" }, "written-intact")
	}
}
