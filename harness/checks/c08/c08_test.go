// C08: GSUB/GPOS/GDEF binary encoding round-trips with consistent offsets
// and sizes.
//
// Oracle for a gtab.Info x (see DESIGN.md §4 C08):
//
//  1. x.Encode() either returns bytes or refuses loudly (panic).  A refusal
//     is legitimate only for values the binary format cannot hold: the
//     generator knows by construction which cases exceed a 16-bit offset
//     field (Result.Overflow).  A panic on any other value is a violation.
//  2. The bytes are walked by the independent reference walker refot from
//     the header: every offset must land on a well-formed structure of the
//     expected type, coverage tables list glyphs in increasing order with
//     indices 0..n-1 and use the smaller format, extension records are
//     uniform, and the byte ranges reached must tile the table exactly
//     (declared sizes == emitted sizes).
//  3. What the walker saw (lookup types, flags, mark filtering sets,
//     subtable formats, feature records, script/language records) equals x.
//  4. gtab.Read(bytes) == x up to the documented normalisation (nil == empty,
//     shared valueFormat of a value record column).
//
// Silent corruption of a case that exceeds a 16-bit field is reported under
// the key "wrap:<site>"; one key per encoder site.
package c08

import (
	"bytes"
	"fmt"
	"sort"
	"strings"
	"testing"

	"golang.org/x/text/language"
	"pgregory.net/rapid"

	"seehuhn.de/go/sfnt/opentype/gtab"
	"verif/harness/gen/lookups"
	"verif/harness/guard"
	"verif/harness/ref/refot"
	"verif/harness/stats"
)

const prop = "C08"

func TestMain(m *testing.M) { stats.MainExit(m) }

// skipSite excludes an overflow/extension class by construction when the
// corresponding wrap-around is a listed known finding.
func skipSite(site string) bool {
	if stats.IsListed(prop, "wrap:"+site) {
		stats.Excluded("wrap:" + site)
		return true
	}
	return false
}

type infoCase struct {
	kind     gtab.Type
	info     *gtab.Info
	overflow []string // sites exceeded on purpose (refusal is legitimate)
	// mayRefuse: the case lies between the sizes known to fit and known to
	// overflow - the encoder may refuse it loudly or encode it; what it
	// encodes must be consistent
	mayRefuse bool
	// noTrickle: skip the second and third read from chunked sources (sweeps
	// that call checkInfo hundreds of times per case)
	noTrickle bool
	sites     []string // all special sites present
	classes   []string
	desc      []string
	emitted   int // size of the encoding (set by checkInfo)
}

func (c *infoCase) String() string {
	return fmt.Sprintf("%s classes=%v overflow=%v sites=%v desc=%v\n  info=%s",
		c.kind, c.classes, c.overflow, c.sites, c.desc, dump(c.info, 6000))
}

// failure is a violated oracle clause.
type failure struct {
	key string // known-findings key
	msg string
}

type verdict struct {
	refused bool
	size    int
	ext     int
	formats int
	labels  []string
}

// subFormat returns the (lookup type, subtable format) a Go subtable value
// must be stored as in a table of the given kind.
func subFormat(kind gtab.Type, s gtab.Subtable) (uint16, uint16) {
	ctx := uint16(5)
	if kind == gtab.TypeGpos {
		ctx = 7
	}
	switch s.(type) {
	case *gtab.Gsub1_1:
		return 1, 1
	case *gtab.Gsub1_2:
		return 1, 2
	case *gtab.Gsub2_1:
		return 2, 1
	case *gtab.Gsub3_1:
		return 3, 1
	case *gtab.Gsub4_1:
		return 4, 1
	case *gtab.Gsub8_1:
		return 8, 1
	case *gtab.Gpos1_1:
		return 1, 1
	case *gtab.Gpos1_2:
		return 1, 2
	case gtab.Gpos2_1:
		return 2, 1
	case *gtab.Gpos2_2:
		return 2, 2
	case *gtab.Gpos3_1:
		return 3, 1
	case *gtab.Gpos4_1:
		return 4, 1
	case *gtab.Gpos5_1:
		return 5, 1
	case *gtab.Gpos6_1:
		return 6, 1
	case *gtab.SeqContext1:
		return ctx, 1
	case *gtab.SeqContext2:
		return ctx, 2
	case *gtab.SeqContext3:
		return ctx, 3
	case *gtab.ChainedSeqContext1:
		return ctx + 1, 1
	case *gtab.ChainedSeqContext2:
		return ctx + 1, 2
	case *gtab.ChainedSeqContext3:
		return ctx + 1, 3
	}
	return 0, 0
}

var (
	tagIndex map[language.Tag]lookups.TagEntry
)

func tagEntry(tag language.Tag) (lookups.TagEntry, bool) {
	if tagIndex == nil {
		tagIndex = map[language.Tag]lookups.TagEntry{}
		for _, e := range lookups.Tags() {
			tagIndex[e.Tag] = e
		}
	}
	e, ok := tagIndex[tag]
	return e, ok
}

// compareReport checks that what the walker saw equals the input.
func compareReport(c *infoCase, rep *refot.Report) error {
	x := c.info
	if rep.HasLookup || len(x.LookupList) > 0 {
		if len(rep.Lookups) != len(x.LookupList) {
			return fmt.Errorf("lookup list has %d lookups, want %d", len(rep.Lookups), len(x.LookupList))
		}
	}
	for i, l := range x.LookupList {
		r := rep.Lookups[i]
		if len(l.Subtables) > 0 && r.Type != l.Meta.LookupType {
			return fmt.Errorf("lookup %d: stored type %d (raw %d), want %d", i, r.Type, r.RawType, l.Meta.LookupType)
		}
		if len(l.Subtables) == 0 && r.RawType != l.Meta.LookupType {
			return fmt.Errorf("lookup %d (no subtables): stored type %d, want %d", i, r.RawType, l.Meta.LookupType)
		}
		if r.Flags != uint16(l.Meta.LookupFlags) {
			return fmt.Errorf("lookup %d: stored flags %#04x, want %#04x", i, r.Flags, l.Meta.LookupFlags)
		}
		if l.Meta.LookupFlags&gtab.UseMarkFilteringSet != 0 && r.MarkFilteringSet != l.Meta.MarkFilteringSet {
			return fmt.Errorf("lookup %d: stored markFilteringSet %d, want %d", i, r.MarkFilteringSet, l.Meta.MarkFilteringSet)
		}
		if len(r.Subtables) != len(l.Subtables) {
			return fmt.Errorf("lookup %d: %d subtables stored, want %d", i, len(r.Subtables), len(l.Subtables))
		}
		for j, s := range l.Subtables {
			tp, f := subFormat(c.kind, s)
			if tp != r.Type || f != r.Subtables[j].Format {
				return fmt.Errorf("lookup %d subtable %d: stored as %d.%d, but %T is %d.%d", i, j, r.Type, r.Subtables[j].Format, s, tp, f)
			}
			if r.Subtables[j].Ext != r.Subtables[0].Ext {
				return fmt.Errorf("lookup %d: mixes extension and plain subtables", i)
			}
		}
	}
	if rep.HasFeat || len(x.FeatureList) > 0 {
		if len(rep.Features) != len(x.FeatureList) {
			return fmt.Errorf("feature list has %d features, want %d", len(rep.Features), len(x.FeatureList))
		}
	}
	for i, f := range x.FeatureList {
		r := rep.Features[i]
		if r.Tag != f.Tag {
			return fmt.Errorf("feature %d: stored tag %q, want %q", i, r.Tag, f.Tag)
		}
		if len(r.Lookups) != len(f.Lookups) {
			return fmt.Errorf("feature %d: %d lookup indices stored, want %d", i, len(r.Lookups), len(f.Lookups))
		}
		for j, l := range f.Lookups {
			if r.Lookups[j] != uint16(l) {
				return fmt.Errorf("feature %d: lookup index %d stored as %d, want %d", i, j, r.Lookups[j], l)
			}
		}
	}
	// script list: group the tags by OpenType script
	type ls struct {
		lang string
		ff   *gtab.Features
	}
	want := map[string][]ls{}
	for tag, ff := range x.ScriptList {
		e, ok := tagEntry(tag)
		if !ok {
			return fmt.Errorf("harness: tag %s is not in the tag table", tag)
		}
		want[e.Script] = append(want[e.Script], ls{e.Lang, ff})
	}
	var scripts []string
	for s := range want {
		scripts = append(scripts, s)
	}
	sort.Strings(scripts)
	if len(rep.Scripts) != len(scripts) {
		return fmt.Errorf("script list has %d scripts, want %d (%q)", len(rep.Scripts), len(scripts), scripts)
	}
	sameLS := func(where string, r refot.LangSys, ff *gtab.Features) error {
		if r.Required != uint16(ff.Required) {
			return fmt.Errorf("%s: required feature stored as %d, want %d", where, r.Required, ff.Required)
		}
		if len(r.Features) != len(ff.Optional) {
			return fmt.Errorf("%s: %d feature indices stored, want %d", where, len(r.Features), len(ff.Optional))
		}
		for i, f := range ff.Optional {
			if r.Features[i] != uint16(f) {
				return fmt.Errorf("%s: feature index %d stored as %d, want %d", where, i, r.Features[i], f)
			}
		}
		return nil
	}
	for i, s := range scripts {
		r := rep.Scripts[i]
		if r.Tag != s {
			return fmt.Errorf("script %d: stored tag %q, want %q", i, r.Tag, s)
		}
		ll := want[s]
		sort.Slice(ll, func(a, b int) bool { return ll[a].lang < ll[b].lang })
		var langs []ls
		for _, l := range ll {
			if l.lang == "" {
				if r.Default == nil {
					return fmt.Errorf("script %q: default language system missing", s)
				}
				if err := sameLS(fmt.Sprintf("script %q default", s), *r.Default, l.ff); err != nil {
					return err
				}
			} else {
				langs = append(langs, l)
			}
		}
		if len(langs) == len(ll) && r.Default != nil {
			return fmt.Errorf("script %q: unexpected default language system", s)
		}
		if len(r.Langs) != len(langs) {
			return fmt.Errorf("script %q: %d language systems stored, want %d", s, len(r.Langs), len(langs))
		}
		for j, l := range langs {
			if r.Langs[j].Tag != l.lang {
				return fmt.Errorf("script %q: language %d stored as %q, want %q", s, j, r.Langs[j].Tag, l.lang)
			}
			if err := sameLS(fmt.Sprintf("script %q language %q", s, l.lang), r.Langs[j], l.ff); err != nil {
				return err
			}
		}
	}
	return nil
}

// extTypeUndetermined reports whether the lookup list has subtables, but
// none from which the pinned encoder recognises the table kind (it looks
// for pointer types that exist in only one of GSUB and GPOS; contextual
// subtables are shared, and Gpos2_1 is a map type used by value).
func extTypeUndetermined(ll gtab.LookupList) bool {
	n := 0
	for _, l := range ll {
		for _, s := range l.Subtables {
			switch s.(type) {
			case *gtab.SeqContext1, *gtab.SeqContext2, *gtab.SeqContext3,
				*gtab.ChainedSeqContext1, *gtab.ChainedSeqContext2, *gtab.ChainedSeqContext3,
				gtab.Gpos2_1:
				n++
			default:
				return false
			}
		}
	}
	return n > 0
}

const keyExtType = "ext-type:undetermined"

// keyNilList: a nil ScriptList, FeatureList or LookupList next to non-empty
// other lists is written as a NULL offset, and the reader then drops the
// other lists (or rejects the table).
const keyNilList = "nil-list:content-lost"

func nilListWithContent(x *gtab.Info) bool {
	if x.ScriptList != nil && x.LookupList != nil && x.FeatureList == nil {
		return true // the reader rejects a NULL feature list offset next to the others
	}
	return (x.ScriptList == nil || x.FeatureList == nil || x.LookupList == nil) &&
		len(x.ScriptList)+len(x.FeatureList)+len(x.LookupList) > 0
}

// siteKey chooses the known-findings key for corrupt output.
func siteKey(c *infoCase, clause string) string {
	if len(c.overflow) > 0 {
		return "wrap:" + c.overflow[0]
	}
	if c.emitted > 0xFFFF && extTypeUndetermined(c.info.LookupList) {
		// extension records are only written for tables beyond 64 KiB
		return keyExtType
	}
	if nilListWithContent(c.info) && clause == "lists-dropped" {
		return keyNilList
	}
	for _, s := range c.sites {
		if s == lookups.SiteSubtableOffset || s == lookups.SiteLookupOffset {
			return "wrap:" + s
		}
	}
	return "clause:" + clause
}

// checkInfo evaluates the oracle.
func checkInfo(c *infoCase) (*verdict, *failure) {
	v := &verdict{}
	var data []byte
	if pn := guard.Try(func() { data = c.info.Encode() }); pn != nil {
		if len(c.overflow) > 0 || c.mayRefuse {
			v.refused = true
			v.labels = append(v.labels, "refused-loudly")
			return v, nil
		}
		return v, &failure{key: pn.Key(), msg: fmt.Sprintf("Encode refuses a representable value: %s\n%s", pn, pn.Stack)}
	}
	v.size = len(data)
	c.emitted = len(data)
	kind := refot.GSUB
	if c.kind == gtab.TypeGpos {
		kind = refot.GPOS
	}
	rep, err := refot.Walk(data, kind)
	if err != nil {
		return v, &failure{key: siteKey(c, "walk"), msg: fmt.Sprintf("emitted bytes (%d) are not well-formed: %v", len(data), err)}
	}
	if err := refot.Tiling(rep.Ranges, len(data)); err != nil {
		return v, &failure{key: siteKey(c, "tiling"), msg: fmt.Sprintf("declared sizes disagree with the %d emitted bytes: %v", len(data), err)}
	}
	if err := compareReport(c, rep); err != nil {
		return v, &failure{key: siteKey(c, "content"), msg: "stored fields differ from the input: " + err.Error()}
	}
	var got *gtab.Info
	if pn := guard.Try(func() { got, err = gtab.Read(bytes.NewReader(data), c.kind) }); pn != nil {
		return v, &failure{key: siteKey(c, "read"), msg: fmt.Sprintf("Read of the emitted bytes: %s", pn)}
	}
	if err != nil {
		clause := "read"
		if strings.Contains(err.Error(), "header has invalid offset 0") {
			clause = "lists-dropped" // a NULL offset next to non-NULL ones
		}
		return v, &failure{key: siteKey(c, clause), msg: fmt.Sprintf("Read of the emitted bytes fails: %v", err)}
	}
	// the same bytes from a source that delivers a few bytes per call: the
	// reader's buffer then moves at other places, and the result must not
	// depend on that
	chunks := []int{1 + len(data)%5, 64}
	switch {
	case len(data) > 1<<16:
		chunks = nil
	case len(data) > 6000:
		chunks = []int{61}
	}
	if c.noTrickle {
		chunks = nil
	}
	for _, chunk := range chunks {
		var got2 *gtab.Info
		var err2 error
		if pn := guard.Try(func() { got2, err2 = gtab.Read(guard.NewTrickle(data, chunk), c.kind) }); pn != nil {
			return v, &failure{key: siteKey(c, "read-trickle"), msg: fmt.Sprintf("Read from a source delivering %d bytes per call: %s", chunk, pn)}
		}
		if err2 != nil {
			return v, &failure{key: siteKey(c, "read-trickle"), msg: fmt.Sprintf("Read succeeds from a source that fills every request and fails from one delivering %d bytes per call: %v", chunk, err2)}
		}
		if err := equal(got, got2); err != nil {
			return v, &failure{key: siteKey(c, "read-trickle"), msg: fmt.Sprintf("Read returns different tables for the same bytes delivered at once and %d bytes per call: %v", chunk, err)}
		}
	}
	if err := equal(expectInfo(c.info), got); err != nil {
		clause := "roundtrip"
		x := c.info
		if len(got.ScriptList) == 0 && len(got.FeatureList) == 0 && len(got.LookupList) == 0 &&
			len(x.ScriptList)+len(x.FeatureList)+len(x.LookupList) > 0 {
			clause = "lists-dropped" // the reader returned the empty table
		}
		return v, &failure{key: siteKey(c, clause), msg: "Read(Encode(x)) != x: " + err.Error()}
	}
	if len(c.overflow) > 0 {
		// cannot happen if the generator's arithmetic is right
		return v, &failure{key: "harness:overflow-class-consistent", msg: fmt.Sprintf("HARNESS: case claims to exceed %v, but the encoding is consistent", c.overflow)}
	}
	v.ext = rep.ExtCount
	v.formats = len(rep.Formats)
	if rep.ExtCount > 0 {
		v.labels = append(v.labels, "extension-subtables")
	}
	if len(data) > 0xFFFF {
		v.labels = append(v.labels, "size>64KiB")
	}
	for f := range rep.Formats {
		v.labels = append(v.labels, "walked:"+f)
	}
	if rep.CovFormat[1] > 0 {
		v.labels = append(v.labels, "coverage-format1")
	}
	if rep.CovFormat[2] > 0 {
		v.labels = append(v.labels, "coverage-format2")
	}
	if rep.ClsFormat[1] > 0 {
		v.labels = append(v.labels, "classdef-format1")
	}
	if rep.ClsFormat[2] > 0 {
		v.labels = append(v.labels, "classdef-format2")
	}
	sort.Strings(v.labels)
	return v, nil
}

// settle turns a failure into a test failure unless it is a listed finding.
func settle(t interface {
	Fatalf(string, ...any)
}, c *infoCase, f *failure) bool {
	if f == nil {
		return false
	}
	if stats.Known(prop, f.key) {
		return true
	}
	t.Fatalf("C08 violated [key=%s]: %s\ncase: %s", f.key, f.msg, c)
	return false
}

func genInfoCase(t *rapid.T) *infoCase {
	kind := rapid.SampledFrom([]gtab.Type{gtab.TypeGsub, gtab.TypeGpos}).Draw(t, "kind")
	mode := rapid.SampledFrom([]lookups.Mode{lookups.Defined, lookups.Wild, lookups.Wild}).Draw(t, "mode")
	env := lookups.GenEnv(rapid.Bool().Draw(t, "wide")).Draw(t, "env")
	size := lookups.SizeSmall
	den := 12
	if stats.Thorough() {
		den = 6
	}
	if rapid.IntRange(0, den-1).Draw(t, "large") == 0 {
		size = lookups.SizeLarge
	}
	isize := lookups.SizeSmall
	if rapid.IntRange(0, 2*den-1).Draw(t, "largeInfo") == 0 {
		isize = lookups.SizeLarge
	}
	opt := lookups.Options{
		Kind: kind, Mode: mode, MinLookups: -1, MaxLookups: 8, Size: size, Allow: lookups.AllEncodableFormats(kind),
		Skip: skipSite, Unimplemented: true, EmptyLookups: true,
	}
	nilLists := !stats.IsListed(prop, keyNilList)
	if !nilLists {
		stats.Excluded(keyNilList)
	}
	r := lookups.GenInfo(env, opt, lookups.InfoOptions{Size: isize, NilLists: nilLists}).Draw(t, "info")
	c := &infoCase{kind: kind, info: r.Info, overflow: r.Overflow, sites: r.Sites, classes: r.Classes, desc: r.Desc}
	if len(c.overflow) == 0 && extTypeUndetermined(c.info.LookupList) && stats.IsListed(prop, keyExtType) {
		// excluded by construction: add a lookup that tells GSUB from GPOS
		stats.Excluded(keyExtType)
		bc := lookups.FindBigClass(map[gtab.Type]string{gtab.TypeGsub: "gsub1_2", gtab.TypeGpos: "gpos1_2"}[kind])
		c.info.LookupList = append(c.info.LookupList, bigLookup(bc, 3))
		c.desc = append(c.desc, "appended a small "+bc.Name+" lookup")
	}
	return c
}

func TestC08Info(t *testing.T) {
	rapid.Check(t, func(t *rapid.T) {
		c := genInfoCase(t)
		v, f := checkInfo(c)
		known := settle(t, c, f)
		labels := append([]string{}, c.classes...)
		labels = append(labels, v.labels...)
		if f == nil && !v.refused && v.size < 200000 {
			// the same objects with other content: encode again
			if editInPlace(c.info) > 0 {
				c.desc = append(c.desc, "second encoding after an in-place edit of values (no length changed)")
				_, f2 := checkInfo(c)
				settle(t, c, f2)
				labels = append(labels, "re-encoded-after-in-place-edit")
			}
		}
		labels = append(labels, "kind:"+c.kind.String())
		if known {
			labels = append(labels, "known-finding")
		}
		nLookups := len(c.info.LookupList)
		switch {
		case nLookups == 0:
			labels = append(labels, "lookups:0")
		case nLookups <= 8:
			labels = append(labels, "lookups:1-8")
		case nLookups <= 100:
			labels = append(labels, "lookups:9-100")
		default:
			labels = append(labels, "lookups:101-300")
		}
		nt := v.formats >= 2 || v.size > 0xFFFF || v.ext > 0
		fp := stats.Hash(c.kind.String(), strings.Join(c.classes, ","), strings.Join(c.desc, ","), dump(c.info, 4000), v.size)
		stats.CaseIn("info", fp, nt, func() string {
			return fmt.Sprintf("%s %d lookups, %d features, %d language systems, %d bytes, %d extension records, formats=%d, classes=%v",
				c.kind, nLookups, len(c.info.FeatureList), len(c.info.ScriptList), v.size, v.ext, v.formats, c.classes)
		}, labels...)
	})
}
