package c08

import (
	"bytes"
	"fmt"
	"testing"

	"pgregory.net/rapid"

	"seehuhn.de/go/sfnt/opentype/gtab"
	"verif/harness/gen/lookups"
	"verif/harness/guard"
	"verif/harness/ref/refot"
	"verif/harness/stats"
)

// TestC08Spelling is the reading half of the round trip for spellings of a
// table that the library's writer does not choose itself but every font
// compiler does: (a) all lookups expressed through extension subtables, and
// (b) FeatureRecords / language systems with equal content sharing one
// Feature / LangSys table.  Both are pure changes of offsets; the reader must
// return the value the table was generated from, exactly as for the
// library's own encoding.
func TestC08Spelling(t *testing.T) {
	rapid.Check(t, func(t *rapid.T) {
		kind := rapid.SampledFrom([]gtab.Type{gtab.TypeGsub, gtab.TypeGpos}).Draw(t, "kind")
		env := lookups.GenEnv(rapid.Bool().Draw(t, "wide")).Draw(t, "env")
		opt := lookups.Options{Kind: kind, Mode: lookups.Defined, MinLookups: 1, MaxLookups: 6, Unimplemented: true, Allow: lookups.AllEncodableFormats(kind),
			Skip: func(string) bool { return true }}
		r := lookups.GenInfo(env, opt, lookups.InfoOptions{MaxFeatures: 10}).Draw(t, "info")
		info := r.Info
		// duplicate features and language systems so that there is something to share
		if n := len(info.FeatureList); n > 0 {
			for i := rapid.IntRange(0, 3).Draw(t, "dupFeatures"); i > 0; i-- {
				src := info.FeatureList[rapid.IntRange(0, n-1).Draw(t, "dupSrc")]
				tag := rapid.SampledFrom([]string{"liga", "clig", "kern", "mark", "mkmk", "calt", "ss01"}).Draw(t, "dupTag")
				info.FeatureList = append(info.FeatureList, &gtab.Feature{Tag: tag, Lookups: append([]gtab.LookupIndex(nil), src.Lookups...)})
			}
		}
		var enc []byte
		if pn := guard.Try(func() { enc = info.Encode() }); pn != nil {
			t.Skip("not encodable")
		}
		want := expectInfo(info)
		read := func(b []byte, what string) *gtab.Info {
			var got *gtab.Info
			var err error
			if pn := guard.Try(func() { got, err = gtab.Read(bytes.NewReader(b), kind) }); pn != nil {
				t.Fatalf("C08 violated [key=spelling:%s:panic]: Read panicked: %s\n%s", what, pn, dump(info, 3000))
			}
			if err != nil {
				t.Fatalf("C08 violated [key=spelling:%s:rejected]: Read rejects the %s spelling of a table it reads in the library's own spelling: %v\n%s", what, what, err, dump(info, 3000))
			}
			return got
		}
		if err := equal(want, read(enc, "plain")); err != nil {
			t.Skip("plain round trip differs (judged by TestC08Info)")
		}
		var labels []string
		nt := false
		if ext, ok := lookups.Extensionize(enc, kind, lookups.ExtOptions{}); ok {
			rk := refot.GSUB
			if kind == gtab.TypeGpos {
				rk = refot.GPOS
			}
			rep, err := refot.Walk(ext, rk)
			if err != nil || rep.ExtCount == 0 {
				t.Fatalf("HARNESS: extension spelling is not well-formed: %v", err)
			}
			if err := equal(want, read(ext, "extension")); err != nil {
				t.Fatalf("C08 violated [key=spelling:extension:value]: the table spelled with extension subtables reads as a different value: %v\n%s", err, dump(info, 3000))
			}
			labels = append(labels, "extension-spelling")
			nt = true
		}
		if sh, n := lookups.ShareTables(enc); n > 0 {
			if err := equal(want, read(sh, "shared")); err != nil {
				t.Fatalf("C08 violated [key=spelling:shared:value]: the table with %d shared Feature/LangSys tables reads as a different value: %v\n%s", n, err, dump(info, 3000))
			}
			labels = append(labels, "shared-tables")
			nt = true
			if ext, ok := lookups.Extensionize(sh, kind, lookups.ExtOptions{}); ok {
				if err := equal(want, read(ext, "shared+extension")); err != nil {
					t.Fatalf("C08 violated [key=spelling:shared+extension:value]: %v\n%s", err, dump(info, 3000))
				}
			}
		}
		stats.CaseIn("spelling", stats.Hash(enc), nt, func() string {
			return fmt.Sprintf("%s %d lookups, %d features, %d language systems, %d bytes: %v", kind, len(info.LookupList), len(info.FeatureList), len(info.ScriptList), len(enc), labels)
		}, labels...)
	})
}
