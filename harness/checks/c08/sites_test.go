package c08

import (
	"fmt"
	"pgregory.net/rapid"
	"strings"
	"testing"

	"golang.org/x/text/language"

	"seehuhn.de/go/sfnt/opentype/gtab"
	"verif/harness/gen/lookups"
	"verif/harness/stats"
)

// Deterministic instances of every size class: for each family of large
// subtables the largest value that fits and the smallest generated value
// that exceeds a 16-bit offset field, the list-level layouts that need
// extension subtables, and the Info-level overflow classes.  These are the
// committed reproducers of the "wrap:<site>" findings.

type siteCase struct {
	name string
	c    *infoCase
}

func dfltScripts() gtab.ScriptListInfo {
	return gtab.ScriptListInfo{
		language.MustParse("und-Zzzz-x-dflt"): {Required: 0xFFFF, Optional: []gtab.FeatureIndex{0}},
	}
}

func oneFeature() gtab.FeatureListInfo {
	return gtab.FeatureListInfo{{Tag: "test", Lookups: []gtab.LookupIndex{0}}}
}

func bigParams(bc *lookups.BigClass, n int) lookups.BigParams {
	p := lookups.BigParams{N: n, Start: 1, Strides: []int{2}, Salt: 17}
	per := 2
	if bc.Scattered {
		per = 3
	}
	if n*per > 0xFFFF-32 {
		p.Strides = []int{1}
	}
	return p
}

func bigLookup(bc *lookups.BigClass, ns ...int) *gtab.LookupTable {
	lt := &gtab.LookupTable{Meta: &gtab.LookupMetaInfo{LookupType: bc.Format.Type()}}
	for _, n := range ns {
		lt.Subtables = append(lt.Subtables, bc.Build(bigParams(bc, n)))
	}
	return lt
}

func siteCases() []siteCase {
	var res []siteCase
	for i := range lookups.BigClasses {
		bc := &lookups.BigClasses[i]
		mk := func(n int, overflow bool) *infoCase {
			c := &infoCase{
				kind: bc.Kind,
				info: &gtab.Info{ScriptList: dfltScripts(), FeatureList: oneFeature(), LookupList: gtab.LookupList{bigLookup(bc, n)}},
				desc: []string{fmt.Sprintf("BigClass %s %+v", bc.Name, bigParams(bc, n))},
			}
			if overflow {
				c.overflow = []string{bc.Site}
				c.sites = c.overflow
			}
			return c
		}
		res = append(res,
			siteCase{"fit-lo:" + bc.Name, mk(bc.Lo, false)},
			siteCase{"fit-hi:" + bc.Name, mk(bc.Hi, false)},
			siteCase{"overflow:" + bc.Name, mk(bc.OvfLo, true)},
		)
	}
	for _, name := range []string{"gsub1_2", "gpos1_2"} {
		bc := lookups.FindBigClass(name)
		// three 36 KiB subtables in one lookup: subtable offsets exceed 16 bits
		res = append(res, siteCase{"subtable-offsets:" + name, &infoCase{
			kind:  bc.Kind,
			info:  &gtab.Info{ScriptList: dfltScripts(), FeatureList: oneFeature(), LookupList: gtab.LookupList{bigLookup(bc, 9000, 9001, 9002)}},
			sites: []string{lookups.SiteSubtableOffset},
			desc:  []string{"one lookup with three subtables " + name + " N=9000,9001,9002"},
		}})
		// the same with small lookups before and after
		small := lookups.FindBigClass(name)
		res = append(res, siteCase{"subtable-offsets-mixed:" + name, &infoCase{
			kind: bc.Kind,
			info: &gtab.Info{ScriptList: dfltScripts(), FeatureList: oneFeature(), LookupList: gtab.LookupList{
				bigLookup(small, 5), bigLookup(bc, 9000, 9001, 9002), bigLookup(small, 7, 9)}},
			sites: []string{lookups.SiteSubtableOffset},
			desc:  []string{"lookups: small, three subtables " + name + " N=9000.., small"},
		}})
		// three lookups of 36 KiB each: lookup offsets exceed 16 bits
		res = append(res, siteCase{"lookup-offsets:" + name, &infoCase{
			kind: bc.Kind,
			info: &gtab.Info{ScriptList: dfltScripts(), FeatureList: oneFeature(), LookupList: gtab.LookupList{
				bigLookup(bc, 9000), bigLookup(small, 5), bigLookup(bc, 9001), bigLookup(bc, 9002), bigLookup(small, 6, 7)}},
			sites: []string{lookups.SiteLookupOffset},
			desc:  []string{"five lookups, three with one subtable " + name + " N=9000.."},
		}})
	}

	// Lists that hold only contextual subtables (shared by GSUB and GPOS) or
	// only pair adjustments (Gpos2_1 is used by value): the extension lookup
	// type 7 or 9 must still be determined.
	for _, name := range []string{"gsub5_1", "gsub6_3", "gpos7_2", "gpos8_1", "gpos2_1"} {
		bc := lookups.FindBigClass(name)
		n := (bc.Lo + bc.Hi) / 2
		res = append(res, siteCase{"lookup-offsets-contextual-only:" + name, &infoCase{
			kind:  bc.Kind,
			info:  &gtab.Info{ScriptList: dfltScripts(), FeatureList: oneFeature(), LookupList: gtab.LookupList{bigLookup(bc, n), bigLookup(bc, n+1), bigLookup(bc, n+2)}},
			sites: []string{lookups.SiteLookupOffset},
			desc:  []string{fmt.Sprintf("three lookups with one subtable %s N=%d..", name, n)},
		}})
	}

	// Info-level classes
	someLookups := func() gtab.LookupList {
		return gtab.LookupList{bigLookup(lookups.FindBigClass("gsub1_2"), 3)}
	}
	features := func(n, k int) gtab.FeatureListInfo {
		fl := make(gtab.FeatureListInfo, n)
		for i := range fl {
			f := &gtab.Feature{Tag: "f" + fmt.Sprintf("%03d", i%1000)}
			for j := 0; j < k; j++ {
				f.Lookups = append(f.Lookups, gtab.LookupIndex(j))
			}
			fl[i] = f
		}
		return fl
	}
	langs := func(script string, nLang, nOpt int) gtab.ScriptListInfo {
		sl := gtab.ScriptListInfo{}
		for j, e := range lookups.TagsOfScript(script) {
			if j >= nLang {
				break
			}
			ff := &gtab.Features{Required: 0xFFFF}
			for k := 0; k < nOpt; k++ {
				ff.Optional = append(ff.Optional, gtab.FeatureIndex(k))
			}
			sl[e.Tag] = ff
		}
		return sl
	}
	info := func(name string, site string, x *gtab.Info) {
		c := &infoCase{kind: gtab.TypeGsub, info: x, desc: []string{name}}
		if site != "" {
			c.overflow = []string{site}
			c.sites = c.overflow
		}
		res = append(res, siteCase{name, c})
	}
	// feature list up to the 16-bit limit of the header: 6552 features
	// without lookups are 65522 bytes, the lookup list starts at 65534
	info("features-at-limit", "", &gtab.Info{ScriptList: gtab.ScriptListInfo{}, FeatureList: features(6552, 0), LookupList: gtab.LookupList{}})
	// one feature more: the feature list itself is fine (last feature at
	// 65528), but the lookup list offset exceeds 16 bits
	info("features-beyond-header-limit", lookups.SiteHeaderListOffset, &gtab.Info{ScriptList: gtab.ScriptListInfo{}, FeatureList: features(6553, 0), LookupList: gtab.LookupList{}})
	info("features-overflow", lookups.SiteFeatureOffset, &gtab.Info{ScriptList: dfltScripts(), FeatureList: features(6560, 0), LookupList: someLookups()})
	fl := features(2, 1)
	fl[1].Lookups = make([]gtab.LookupIndex, 0x10000+5)
	info("feature-lookups-overflow", lookups.SiteFeatureLookups, &gtab.Info{ScriptList: dfltScripts(), FeatureList: fl, LookupList: someLookups()})
	info("langs-all-latn", "", &gtab.Info{ScriptList: langs("latn", 1000, 2), FeatureList: features(3, 1), LookupList: someLookups()})
	info("langsys-overflow", lookups.SiteLangSysOffset, &gtab.Info{ScriptList: langs("latn", 1000, 50), FeatureList: features(50, 1), LookupList: someLookups()})
	many := gtab.ScriptListInfo{}
	for _, s := range lookups.TagScripts() {
		for tag, ff := range langs(s, 40, 2) {
			many[tag] = ff
		}
	}
	info("scripts-overflow", lookups.SiteScriptOffset, &gtab.Info{ScriptList: many, FeatureList: features(3, 1), LookupList: someLookups()})
	few := gtab.ScriptListInfo{}
	for _, s := range lookups.TagScripts() {
		for tag, ff := range langs(s, 3, 1) {
			few[tag] = ff
		}
	}
	info("scripts-many", "", &gtab.Info{ScriptList: few, FeatureList: features(3, 1), LookupList: someLookups()})
	// 12 KiB script list + 55 KiB feature list: the lookup list offset exceeds 16 bits
	info("header-overflow", lookups.SiteHeaderListOffset, &gtab.Info{ScriptList: langs("latn", 1000, 4), FeatureList: features(4500, 1), LookupList: someLookups()})
	return res
}

func TestC08Sites(t *testing.T) {
	only := "" // development aid
	for _, sc := range siteCases() {
		if only != "" && !strings.Contains(sc.name, only) {
			continue
		}
		v, f := checkInfo(sc.c)
		known := false
		if f != nil {
			if stats.Known(prop, f.key) {
				known = true
			} else {
				t.Errorf("C08 violated [key=%s] in %s: %s\n  desc=%v", f.key, sc.name, f.msg, sc.c.desc)
				continue
			}
		}
		labels := append([]string{}, v.labels...)
		if known {
			labels = append(labels, "known-finding")
		}
		if strings.HasPrefix(sc.name, "overflow:") || len(sc.c.overflow) > 0 {
			labels = append(labels, "class:overflow")
		} else {
			labels = append(labels, "class:must-fit")
		}
		stats.CaseIn("sites", stats.Hash(sc.name), true, func() string {
			return fmt.Sprintf("%s: %d bytes, refused=%v, %d extension records", sc.name, v.size, v.refused, v.ext)
		}, labels...)
		t.Logf("%-40s size=%-7d refused=%-5v ext=%-3d known=%v", sc.name, v.size, v.refused, v.ext, known)
	}
	stats.Exhaustive("sites")
}

// TestC08ExtensionBoundary sweeps the size of the lookup list across the
// point where one more lookup must be turned into an extension lookup: a
// 16 KiB lookup, 160 lookups of 418..482 bytes and one lookup whose size
// grows in steps of two bytes over 500 bytes (more than one of the others).  Whatever the layout algorithm
// decides, every 16-bit offset must hold; an estimate that is off by a few
// bytes shows up at one of the steps.
func TestC08ExtensionBoundary(t *testing.T) {
	big := lookups.FindBigClass("gsub1_2")
	var fixed gtab.LookupList
	fixed = append(fixed, bigLookup(big, 4000))
	for i := 0; i < 160; i++ {
		fixed = append(fixed, bigLookup(big, 100+i%17))
	}
	ext, noExt := 0, 0
	for j := 1; j <= 250; j++ {
		gg := lookups.Spread(j, 5, []int{2}) // coverage format 1: 4+2j bytes
		tuner := &gtab.LookupTable{
			Meta:      &gtab.LookupMetaInfo{LookupType: 1, LookupFlags: gtab.UseMarkFilteringSet, MarkFilteringSet: 3},
			Subtables: []gtab.Subtable{&gtab.Gsub1_1{Cov: lookups.CovSet(gg), Delta: 1}},
		}
		ll := append(append(gtab.LookupList{}, fixed[:40]...), tuner)
		ll = append(ll, fixed[40:]...)
		c := &infoCase{
			kind:  gtab.TypeGsub,
			info:  &gtab.Info{ScriptList: dfltScripts(), FeatureList: oneFeature(), LookupList: ll},
			sites: []string{lookups.SiteLookupOffset},
			desc:  []string{fmt.Sprintf("162 lookups: Gsub1_2 N=4000, 160 x Gsub1_2 N=100..116, Gsub1_1 with %d glyphs at position 40", j)},
		}
		v, f := checkInfo(c)
		if f != nil {
			if !stats.Known(prop, f.key) {
				t.Fatalf("C08 violated [key=%s]: %s\n  desc=%v", f.key, f.msg, c.desc)
			}
			continue
		}
		if v.ext > 0 {
			ext++
		} else {
			noExt++
		}
		stats.CaseIn("ext-boundary", stats.Hash(j, v.size, v.ext), true, func() string {
			return fmt.Sprintf("%s: %d bytes, %d extension records", c.desc[0], v.size, v.ext)
		}, fmt.Sprintf("extension-records:%d", v.ext))
	}
	t.Logf("%d layouts with extension records, %d without", ext, noExt)
	stats.Exhaustive("ext-boundary")
}

// TestC08ExtensionBoundaryGen is TestC08ExtensionBoundary with drawn
// parameters: many small lookups (sizes, number, and the share of them that
// carries a mark filtering set are drawn, so that per-lookup header sizes
// enter the layout arithmetic in different proportions), one large lookup,
// and one lookup whose size is swept in steps of two bytes across more than
// the size of a small lookup.  Every emitted 16-bit offset must hold at
// every step.
func TestC08ExtensionBoundaryGen(t *testing.T) {
	big := lookups.FindBigClass("gsub1_2")
	rapid.Check(t, func(t *rapid.T) {
		smallN := rapid.IntRange(4, 110).Draw(t, "smallN")
		smallBytes := 8 + 10 + 4*smallN // lookup table + Gsub1_2 with format 1 coverage (approx.)
		bigN := rapid.IntRange(1500, 6000).Draw(t, "bigN")
		target := rapid.IntRange(68000, 110000).Draw(t, "totalBytes")
		nSmall := (target - (18 + 4*bigN)) / smallBytes
		if nSmall < 20 {
			nSmall = 20
		}
		if nSmall > 1200 {
			nSmall = 1200
		}
		flagged := rapid.SampledFrom([]int{0, 1, 2, 2, 2}).Draw(t, "flagged") // none, every other, all
		var fixed gtab.LookupList
		bigPos := rapid.IntRange(0, nSmall).Draw(t, "bigPos")
		for i := 0; i <= nSmall; i++ {
			if i == bigPos {
				fixed = append(fixed, bigLookup(big, bigN))
				continue
			}
			l := bigLookup(big, smallN+i%7)
			if flagged == 2 || (flagged == 1 && i%2 == 0) {
				m := *l.Meta
				m.LookupFlags |= gtab.UseMarkFilteringSet
				m.MarkFilteringSet = uint16(i % 3)
				l = &gtab.LookupTable{Meta: &m, Subtables: l.Subtables}
			}
			fixed = append(fixed, l)
		}
		tunerPos := rapid.IntRange(0, len(fixed)).Draw(t, "tunerPos")
		steps := smallBytes/2 + 40
		if steps > 260 {
			steps = 260
		}
		ext := 0
		for j := 1; j <= steps; j++ {
			gg := lookups.Spread(j, 5, []int{2})
			tuner := &gtab.LookupTable{
				Meta:      &gtab.LookupMetaInfo{LookupType: 1, LookupFlags: gtab.UseMarkFilteringSet, MarkFilteringSet: 3},
				Subtables: []gtab.Subtable{&gtab.Gsub1_1{Cov: lookups.CovSet(gg), Delta: 1}},
			}
			ll := append(append(gtab.LookupList{}, fixed[:tunerPos]...), tuner)
			ll = append(ll, fixed[tunerPos:]...)
			c := &infoCase{
				kind:  gtab.TypeGsub,
				info:  &gtab.Info{ScriptList: dfltScripts(), FeatureList: oneFeature(), LookupList: ll},
				sites: []string{lookups.SiteLookupOffset},
				desc: []string{fmt.Sprintf("%d lookups: Gsub1_2 N=%d at %d, %d x Gsub1_2 N=%d..%d (mark filtering set on %s), Gsub1_1 with %d glyphs at position %d",
					len(ll), bigN, bigPos, nSmall, smallN, smallN+6, []string{"none", "every other one", "all"}[flagged], j, tunerPos)},
			}
			v, f := checkInfo(c)
			if f != nil {
				if !stats.Known(prop, f.key) {
					t.Fatalf("C08 violated [key=%s]: %s\n  desc=%v", f.key, f.msg, c.desc)
				}
				continue
			}
			if v.ext > 0 {
				ext++
			}
		}
		stats.LabelN("ext-boundary-gen", "layouts", int64(steps))
		stats.LabelN("ext-boundary-gen", "layouts-with-extension-records", int64(ext))
		stats.CaseIn("ext-boundary-gen", stats.Hash(smallN, bigN, nSmall, flagged, bigPos, tunerPos), ext > 0, func() string {
			return fmt.Sprintf("%d small lookups (N=%d, mark filtering set on %s), big N=%d: %d size steps, %d with extension records", nSmall, smallN, []string{"none", "every other one", "all"}[flagged], bigN, steps, ext)
		}, fmt.Sprintf("flagged-%d", flagged))
	})
}

// TestC08SiteBoundaries walks every family of large subtables across the
// point where its encoder starts to refuse: the smallest refused size is
// found by bisection between the size known to fit and the size known to
// overflow, then every size from 14 below to 3 above it is encoded.  At each
// of them the encoder must either refuse loudly or emit bytes that are
// well-formed, tile the table and read back as the input - an offset that
// wrapped silently fails the walk.  (The last element of a table usually
// straddles the 64 KiB mark at exactly one of these sizes.)
func TestC08SiteBoundaries(t *testing.T) {
	for i := range lookups.BigClasses {
		bc := &lookups.BigClasses[i]
		for _, salt := range []int{17, 4} {
			mk := func(n int) *infoCase {
				p := bigParams(bc, n)
				p.Salt = salt
				lt := &gtab.LookupTable{Meta: &gtab.LookupMetaInfo{LookupType: bc.Format.Type()}, Subtables: []gtab.Subtable{bc.Build(p)}}
				return &infoCase{
					kind:      bc.Kind,
					info:      &gtab.Info{ScriptList: dfltScripts(), FeatureList: oneFeature(), LookupList: gtab.LookupList{lt}},
					desc:      []string{fmt.Sprintf("BigClass %s %+v", bc.Name, p)},
					mayRefuse: true,
				}
			}
			refuses := func(n int) bool {
				c := mk(n)
				var refused bool
				func() {
					defer func() {
						if recover() != nil {
							refused = true
						}
					}()
					c.info.Encode()
				}()
				return refused
			}
			lo, hi := bc.Hi, bc.OvfLo
			if !refuses(hi) {
				continue // the library writes this size (judged by TestC08Sites)
			}
			if refuses(lo) {
				t.Errorf("C08 violated [key=refuse:%s]: size N=%d is known to fit but is refused", bc.Name, lo)
				continue
			}
			for hi-lo > 1 {
				mid := (lo + hi) / 2
				if refuses(mid) {
					hi = mid
				} else {
					lo = mid
				}
			}
			// hi is the smallest refused size
			nRefused, nWritten := 0, 0
			for n := hi - 14; n <= hi+3; n++ {
				if n < bc.Lo {
					continue
				}
				c := mk(n)
				v, f := checkInfo(c)
				if f != nil {
					if !stats.Known(prop, f.key) {
						t.Errorf("C08 violated [key=%s] %d below/above the first refused size (N=%d, first refused N=%d): %s\n  desc=%v", f.key, n-hi, n, hi, f.msg, c.desc)
					}
					continue
				}
				if v.refused {
					nRefused++
				} else {
					nWritten++
				}
			}
			stats.CaseIn("site-boundaries", stats.Hash(bc.Name, salt), true, func() string {
				return fmt.Sprintf("%s (salt %d): first refused N=%d; around it %d sizes written consistently, %d refused", bc.Name, salt, hi, nWritten, nRefused)
			}, "class:"+bc.Name)
		}
	}
	stats.Exhaustive("site-boundaries")
}
