package c08

import (
	"seehuhn.de/go/postscript/funit"
	"seehuhn.de/go/sfnt/glyph"
	"seehuhn.de/go/sfnt/opentype/anchor"
	"seehuhn.de/go/sfnt/opentype/gtab"
)

// editInPlace changes the content of a table in place without changing any
// length or map size: value records and pair adjustments are replaced by
// modified copies under the same keys, substitute glyphs and anchors are
// changed where they stand.  It returns the number of edits.  An encoder
// that remembers anything about a value it has encoded before (by identity,
// length or count) now sees the same objects with other content.
func editInPlace(info *gtab.Info) int {
	n := 0
	bumpVR := func(vr *gtab.GposValueRecord) *gtab.GposValueRecord {
		if vr == nil {
			return nil
		}
		// fields that are present stay present (the value format, and with
		// it every size, is unchanged)
		c := *vr
		for _, f := range []*funit.Int16{&c.XPlacement, &c.YPlacement, &c.XAdvance, &c.YAdvance} {
			switch {
			case *f == 0:
			case *f == -1:
				*f = -3
				n++
			default:
				*f++
				n++
			}
		}
		return &c
	}
	bumpAnchor := func(a *anchor.Table) {
		if !a.IsEmpty() {
			a.X += 5
			a.Y -= 7
			if a.IsEmpty() {
				a.X++
			}
			n++
		}
	}
	flip := func(g *glyph.ID) { *g ^= 1; n++ }
	for _, l := range info.LookupList {
		for _, st := range l.Subtables {
			switch s := st.(type) {
			case *gtab.Gsub1_2:
				for i := range s.SubstituteGlyphIDs {
					if i%3 == 0 {
						flip(&s.SubstituteGlyphIDs[i])
					}
				}
			case *gtab.Gsub2_1:
				for i := range s.Repl {
					if len(s.Repl[i]) > 0 && i%2 == 0 {
						flip(&s.Repl[i][len(s.Repl[i])-1])
					}
				}
			case *gtab.Gsub3_1:
				for i := range s.Alternates {
					if len(s.Alternates[i]) > 0 && i%2 == 0 {
						flip(&s.Alternates[i][0])
					}
				}
			case *gtab.Gsub4_1:
				for i := range s.Repl {
					for j := range s.Repl[i] {
						if (i+j)%2 == 0 {
							flip(&s.Repl[i][j].Out)
						}
					}
				}
			case *gtab.Gpos1_1:
				s.Adjust = bumpVR(s.Adjust)
			case *gtab.Gpos1_2:
				for i := range s.Adjust {
					if i%2 == 0 {
						s.Adjust[i] = bumpVR(s.Adjust[i])
					}
				}
			case gtab.Gpos2_1:
				k := 0
				for _, key := range sortedPairs(s) {
					if k%2 == 0 {
						old := s[key]
						s[key] = &gtab.PairAdjust{First: bumpVR(old.First), Second: bumpVR(old.Second)}
					}
					k++
				}
			case *gtab.Gpos2_2:
				for i := range s.Adjust {
					for j := range s.Adjust[i] {
						if (i+j)%2 == 0 && s.Adjust[i][j] != nil {
							old := s.Adjust[i][j]
							s.Adjust[i][j] = &gtab.PairAdjust{First: bumpVR(old.First), Second: bumpVR(old.Second)}
						}
					}
				}
			case *gtab.Gpos4_1:
				for i := range s.MarkArray {
					bumpAnchor(&s.MarkArray[i].Table)
				}
				for i := range s.BaseArray {
					for j := range s.BaseArray[i] {
						bumpAnchor(&s.BaseArray[i][j])
					}
				}
			case *gtab.Gpos6_1:
				for i := range s.Mark1Array {
					bumpAnchor(&s.Mark1Array[i].Table)
				}
				for i := range s.Mark2Array {
					for j := range s.Mark2Array[i] {
						bumpAnchor(&s.Mark2Array[i][j])
					}
				}
			}
		}
	}
	return n
}

func sortedPairs(m gtab.Gpos2_1) []glyph.Pair {
	keys := make([]glyph.Pair, 0, len(m))
	for k := range m {
		keys = append(keys, k)
	}
	for i := 1; i < len(keys); i++ {
		for j := i; j > 0 && (keys[j].Left < keys[j-1].Left || (keys[j].Left == keys[j-1].Left && keys[j].Right < keys[j-1].Right)); j-- {
			keys[j], keys[j-1] = keys[j-1], keys[j]
		}
	}
	return keys
}
