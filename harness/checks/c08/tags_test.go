package c08

import (
	"testing"

	"verif/harness/gen/lookups"
	"verif/harness/stats"
)

// TestC08TagTable covers the reading half of "script/language lists
// round-trip for all built-in tags" for the whole built-in tag table at once:
// for every script tag of the library's table a minimal GSUB table with the
// default language system and one language system per built-in language tag
// is decoded (gen/lookups does this to learn the tag domain); no script may
// come back without its language systems, and every script must yield the
// same number of distinct entries (one per language system written).  The
// generators draw their tags from what the reader yields, so without this
// check a script the reader silently drops would also vanish from the
// generated domain.
func TestC08TagTable(t *testing.T) {
	if d := lookups.DroppedScripts(); len(d) > 0 {
		t.Errorf("the reader drops every language system of the built-in script tag(s) %q", d)
	}
	want := 0
	for _, s := range lookups.TagScripts() {
		if n := len(lookups.TagsOfScript(s)); n > want {
			want = n
		}
	}
	bad := 0
	for _, s := range lookups.TagScripts() {
		entries := lookups.TagsOfScript(s)
		seen := map[string]bool{}
		for _, e := range entries {
			seen[e.Lang] = true
		}
		if len(entries) != want || len(seen) != want {
			bad++
			t.Errorf("script %q: %d of %d language systems come back from the reader (%d distinct)", s, len(entries), want, len(seen))
		}
		stats.CaseIn("tag-table", stats.Hash(s), true, func() string {
			return "script " + s + ": default + every built-in language tag decoded"
		})
	}
	if want < 2 {
		t.Errorf("only %d tag(s) per script", want)
	}
	stats.Exhaustive("tag-table") // every (script, language) pair of the built-in tag tables
}
