package c08

import (
	"fmt"
	"testing"

	"pgregory.net/rapid"

	"seehuhn.de/go/sfnt/opentype/gtab"
	"verif/harness/gen/lookups"
	"verif/harness/stats"
)

// TestC08Sliding moves a small lookup list across the table in steps of two
// bytes: the first feature gets k = 0..560 extra lookup indices (a Feature
// table grows by two bytes per index), so every structure of the lookup list
// takes every even position relative to the 1 KiB windows in which the reader
// buffers its input, with more than 1 KiB of data behind it.  Decoders keep
// short-lived views into that buffer; a value used after the window has
// moved is wrong only at a few of these positions.
func TestC08Sliding(t *testing.T) {
	rapid.Check(t, func(t *rapid.T) {
		kind := rapid.SampledFrom([]gtab.Type{gtab.TypeGsub, gtab.TypeGpos}).Draw(t, "kind")
		env := lookups.GenEnv(false).Draw(t, "env")
		all := lookups.AllEncodableFormats(kind)
		// one to three lookups of drawn formats
		var allow []lookups.Format
		for i := rapid.IntRange(1, 3).Draw(t, "nFormats"); i > 0; i-- {
			allow = append(allow, rapid.SampledFrom(all).Draw(t, "format"))
		}
		r := lookups.GenLookups(env, lookups.Options{Kind: kind, Mode: lookups.Defined, MinLookups: 1, MaxLookups: 3,
			Allow: allow, Unimplemented: true, Skip: func(string) bool { return true }}).Draw(t, "lookups")
		ll := append(gtab.LookupList{}, r.List...)
		// more than 1 KiB behind the lookups under test
		tailName := map[gtab.Type]string{gtab.TypeGsub: "gsub1_2", gtab.TypeGpos: "gpos1_2"}[kind]
		ll = append(ll, bigLookup(lookups.FindBigClass(tailName), 320))
		bad := 0
		for k := 0; k <= 560; k++ {
			f := &gtab.Feature{Tag: "test", Lookups: make([]gtab.LookupIndex, k)}
			c := &infoCase{
				kind:    kind,
				info:    &gtab.Info{ScriptList: dfltScripts(), FeatureList: gtab.FeatureListInfo{f}, LookupList: ll},
				classes: r.Classes, noTrickle: k%40 != 0,
				desc: []string{fmt.Sprintf("lookup list moved by %d bytes (feature with %d lookup indices)", 2*k, k)},
			}
			_, fl := checkInfo(c)
			if fl != nil {
				if !stats.Known(prop, fl.key) {
					t.Fatalf("C08 violated [key=%s]: %s\ncase: %s", fl.key, fl.msg, c)
				}
				bad++
			}
		}
		stats.LabelN("sliding", "encodings", 561)
		stats.CaseIn("sliding", stats.Hash(kind.String(), fmt.Sprint(allow), fmt.Sprint(r.Desc), dump(ll[:len(ll)-1], 3000)), true, func() string {
			return fmt.Sprintf("%s lookups %v (%v) at 561 positions two bytes apart", kind, allow, r.Classes)
		}, r.Classes...)
	})
}
