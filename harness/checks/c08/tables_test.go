package c08

import (
	"bytes"
	"fmt"
	"sort"
	"testing"

	"pgregory.net/rapid"

	"seehuhn.de/go/sfnt/glyph"
	"seehuhn.de/go/sfnt/opentype/classdef"
	"seehuhn.de/go/sfnt/opentype/coverage"
	"seehuhn.de/go/sfnt/opentype/gdef"
	"seehuhn.de/go/sfnt/parser"
	"verif/harness/gen/lookups"
	"verif/harness/guard"
	"verif/harness/ref/refot"
	"verif/harness/stats"
)

// Site names of the stand-alone tables.
const (
	siteClassDefCount = "classdef.format1Count" // format 1 over all 65536 glyphs: glyphCount wraps to 0
	siteGdefHeader    = "gdef.headerOffset"     // a sub-table of GDEF starts beyond 64 KiB
)

// drawHuge decides whether a table with (tens of) thousands of entries is
// generated: about 1 in 8 cases in the quick tier, 1 in 3 in the thorough tier.
func drawHuge(t *rapid.T, label string) bool {
	den := 8
	if stats.Thorough() {
		den = 3
	}
	return rapid.IntRange(0, den-1).Draw(t, label+"Huge") == 0
}

var boundary = []int{0, 1, 2, 0xFE, 0xFF, 0x100, 0x7FFF, 0x8000, 0xFFFE, 0xFFFF}

// genGlyphSet draws a set of glyph ids over the full 16-bit range, in
// increasing order.  Large sets are expanded from a few drawn parameters.
func genGlyphSet(t *rapid.T, label string) ([]glyph.ID, string) {
	seen := map[int]bool{}
	kinds := []string{"empty", "few", "few", "few", "few", "runs", "runs", "runs"}
	huge := drawHuge(t, label)
	if huge {
		kinds = []string{"runs-long", "pattern", "pattern", "full", "holes"}
	}
	kind := rapid.SampledFrom(kinds).Draw(t, label+"Kind")
	switch kind {
	case "few":
		n := rapid.IntRange(1, 12).Draw(t, label+"N")
		prev := 0
		for i := 0; i < n; i++ {
			var g int
			switch rapid.IntRange(0, 3).Draw(t, label+"How") {
			case 0:
				g = rapid.SampledFrom(boundary).Draw(t, label+"B")
			case 1:
				g = min(prev+1, 0xFFFF)
			default:
				g = rapid.IntRange(0, 0xFFFF).Draw(t, label+"G")
			}
			seen[g] = true
			prev = g
		}
	case "runs", "runs-long":
		n := rapid.IntRange(1, 6).Draw(t, label+"NRuns")
		for i := 0; i < n; i++ {
			start := rapid.IntRange(0, 0xFFFF).Draw(t, label+"RunStart")
			if rapid.IntRange(0, 3).Draw(t, label+"RunB") == 0 {
				start = rapid.SampledFrom(boundary).Draw(t, label+"RunStartB")
			}
			l := rapid.SampledFrom([]int{1, 2, 3, 4, 5, 10, 100, 300}).Draw(t, label+"RunLen")
			if kind == "runs-long" {
				l = rapid.SampledFrom([]int{1000, 5000, 20000, 70000}).Draw(t, label+"RunLenLong")
			}
			for g := start; g < start+l && g <= 0xFFFF; g++ {
				seen[g] = true
			}
		}
	case "pattern":
		strides := rapid.SampledFrom([][]int{{2}, {3}, {1, 2}, {1, 1, 3}, {1, 1, 1, 2}, {1, 5}, {7}, {1, 1, 1, 1, 1, 2}}).Draw(t, label+"Strides")
		sum := 0
		for _, s := range strides {
			sum += s
		}
		start := rapid.IntRange(0, 3000).Draw(t, label+"Start")
		maxN := (0xFFFF - start) * len(strides) / sum
		n := rapid.IntRange(1, maxN).Draw(t, label+"N")
		if rapid.IntRange(0, 2).Draw(t, label+"ToEnd") == 0 {
			n = maxN
		}
		for _, g := range lookups.Spread(n, start, strides) {
			seen[int(g)] = true
		}
	case "full":
		for g := 0; g <= 0xFFFF; g++ {
			seen[g] = true
		}
	case "holes":
		for g := 0; g <= 0xFFFF; g++ {
			seen[g] = true
		}
		n := rapid.IntRange(1, 5).Draw(t, label+"NHoles")
		for i := 0; i < n; i++ {
			h := rapid.IntRange(0, 0xFFFF).Draw(t, label+"Hole")
			if rapid.IntRange(0, 2).Draw(t, label+"HoleB") == 0 {
				h = rapid.SampledFrom(boundary).Draw(t, label+"HoleAt")
			}
			delete(seen, h)
		}
	}
	res := make([]glyph.ID, 0, len(seen))
	for g := range seen {
		res = append(res, glyph.ID(g))
	}
	sort.Slice(res, func(i, j int) bool { return res[i] < res[j] })
	return res, kind
}

func u16s(gg []glyph.ID) []uint16 {
	res := make([]uint16, len(gg))
	for i, g := range gg {
		res[i] = uint16(g)
	}
	return res
}

// checkCoverage evaluates the oracle for one coverage table.
func checkCoverage(gg []glyph.ID) (labels []string, err error) {
	table := lookups.CovTable(gg)
	var data []byte
	var encLen int
	if pn := guard.Try(func() { data = table.Encode(); encLen = table.EncodeLen() }); pn != nil {
		return nil, fmt.Errorf("Encode: %s", pn)
	}
	if encLen != len(data) {
		return nil, fmt.Errorf("EncodeLen() = %d, but Encode() emits %d bytes", encLen, len(data))
	}
	cov, werr := refot.WalkCoverage(data)
	if werr != nil {
		return nil, fmt.Errorf("emitted bytes % x… not well-formed: %v", data[:min(len(data), 16)], werr)
	}
	if len(cov.Glyphs) != len(gg) {
		return nil, fmt.Errorf("%d glyphs stored, want %d", len(cov.Glyphs), len(gg))
	}
	for i, g := range gg {
		if cov.Glyphs[i] != uint16(g) {
			return nil, fmt.Errorf("coverage index %d is glyph %d, want %d", i, cov.Glyphs[i], g)
		}
	}
	// with a prefix, to make sure positions are honoured
	buf := append([]byte{0xAA, 0xBB, 0xCC}, data...)
	buf = append(buf, 0xDD)
	got, rerr := coverage.Read(parser.New(bytes.NewReader(buf)), 3)
	if rerr != nil {
		return nil, fmt.Errorf("coverage.Read: %v", rerr)
	}
	if e := equal(table, got); e != nil {
		return nil, fmt.Errorf("Read(Encode(x)) != x: %v", e)
	}
	gotSet, rerr := coverage.ReadSet(parser.New(bytes.NewReader(buf)), 3)
	if rerr != nil {
		return nil, fmt.Errorf("coverage.ReadSet: %v", rerr)
	}
	set := lookups.CovSet(gg)
	if e := equal(set, gotSet); e != nil {
		return nil, fmt.Errorf("ReadSet(Encode(x)) != x: %v", e)
	}
	if e := equal(table, set.ToTable()); e != nil {
		return nil, fmt.Errorf("Set.ToTable: %v", e)
	}
	if e := equal(set, table.ToSet()); e != nil {
		return nil, fmt.Errorf("Table.ToSet: %v", e)
	}
	if e := equal(gg, table.Glyphs()); e != nil && len(gg) > 0 {
		return nil, fmt.Errorf("Table.Glyphs: %v", e)
	}
	f1, f2 := refot.MinCoverageSize(u16s(gg))
	labels = append(labels, fmt.Sprintf("coverage-format%d", cov.Format))
	if f1 == f2 {
		labels = append(labels, "coverage-format-tie")
	}
	return labels, nil
}

func TestC08Coverage(t *testing.T) {
	rapid.Check(t, func(t *rapid.T) {
		gg, kind := genGlyphSet(t, "cov")
		labels, err := checkCoverage(gg)
		if err != nil {
			t.Fatalf("C08 violated [key=clause:coverage]: %v\ncase: %d glyphs (%s): %v", err, len(gg), kind, head(gg))
		}
		labels = append(labels, "set:"+kind)
		stats.CaseIn("coverage", hashGlyphs(gg), len(gg) >= 2, func() string {
			return fmt.Sprintf("%d glyphs (%s): %v %v", len(gg), kind, head(gg), labels)
		}, labels...)
	})
}

func hashGlyphs(gg []glyph.ID) uint64 {
	buf := make([]byte, 2*len(gg))
	for i, g := range gg {
		buf[2*i], buf[2*i+1] = byte(g>>8), byte(g)
	}
	return stats.Hash(buf)
}

func hashClasses(c classdef.Table) uint64 {
	buf := make([]byte, 0, 5*len(c)+1)
	if c == nil {
		buf = append(buf, 'n')
	}
	for g := 0; g <= 0xFFFF && len(c) > 0; g++ {
		if v, ok := c[glyph.ID(g)]; ok {
			buf = append(buf, byte(g>>8), byte(g), byte(v>>8), byte(v), ',')
		}
	}
	return stats.Hash(buf)
}

func head[T any](x []T) string {
	if len(x) <= 24 {
		return fmt.Sprint(x)
	}
	return fmt.Sprintf("%v… (%d more) …%v", x[:16], len(x)-20, x[len(x)-4:])
}

// genClassDef draws a class definition table over the full glyph range.
// Explicit zero entries occur only strictly between classified glyphs.
func genClassDef(t *rapid.T, label string) (classdef.Table, string) {
	res := classdef.Table{}
	kinds := []string{"empty", "few", "few", "few", "ranges", "ranges", "alternating", "alternating"}
	huge := drawHuge(t, label)
	if huge {
		kinds = []string{"ranges-long", "alternating-long", "alternating-long", "full-one-class", "full-alternating", "full-alternating"}
	}
	kind := rapid.SampledFrom(kinds).Draw(t, label+"Kind")
	cls := func() uint16 {
		if rapid.IntRange(0, 4).Draw(t, label+"ClsB") == 0 {
			return uint16(rapid.SampledFrom([]int{1, 255, 256, 0x7FFF, 0xFFFF}).Draw(t, label+"ClsBig"))
		}
		return uint16(rapid.IntRange(1, 4).Draw(t, label+"Cls"))
	}
	switch kind {
	case "few":
		gg, _ := genGlyphSet(t, label+"G")
		if len(gg) > 40 {
			gg = gg[:40]
		}
		for _, g := range gg {
			res[g] = cls()
		}
	case "ranges", "ranges-long":
		n := rapid.IntRange(1, 6).Draw(t, label+"NRanges")
		for i := 0; i < n; i++ {
			start := rapid.IntRange(0, 0xFFFF).Draw(t, label+"Start")
			if rapid.IntRange(0, 3).Draw(t, label+"StartB") == 0 {
				start = rapid.SampledFrom(boundary).Draw(t, label+"StartAt")
			}
			l := rapid.SampledFrom([]int{1, 2, 3, 5, 10, 100, 300}).Draw(t, label+"Len")
			if kind == "ranges-long" {
				l = rapid.SampledFrom([]int{3000, 30000, 70000}).Draw(t, label+"LenLong")
			}
			c := cls()
			for g := start; g < start+l && g <= 0xFFFF; g++ {
				res[glyph.ID(g)] = c
			}
		}
	case "alternating", "alternating-long", "full-alternating":
		// dense table: classes cycle with period k over [a, b]
		k := rapid.IntRange(2, 4).Draw(t, label+"Period")
		cc := make([]uint16, k)
		for i := range cc {
			cc[i] = cls()
			if i > 0 && cc[i] == cc[i-1] {
				cc[i]++
				if cc[i] == 0 {
					cc[i] = 1
				}
			}
		}
		a, b := 0, 0xFFFF
		switch kind {
		case "alternating":
			a = rapid.IntRange(0, 0xFFFF).Draw(t, label+"A")
			b = min(0xFFFF, a+rapid.SampledFrom([]int{1, 2, 3, 4, 5, 6, 7, 10, 100, 400}).Draw(t, label+"Span"))
		case "alternating-long":
			a = rapid.IntRange(0, 0xFFFF).Draw(t, label+"A")
			if rapid.Bool().Draw(t, label+"A01") {
				a = rapid.IntRange(0, 1).Draw(t, label+"Alow")
			}
			b = min(0xFFFF, a+rapid.SampledFrom([]int{5000, 21844, 21845, 21846, 40000, 65534}).Draw(t, label+"SpanLong"))
		}
		runLen := rapid.SampledFrom([]int{1, 1, 2, 3, 4}).Draw(t, label+"RunLen")
		for g := a; g <= b; g++ {
			res[glyph.ID(g)] = cc[((g-a)/runLen)%k]
		}
	case "full-one-class":
		c := cls()
		for g := 0; g <= 0xFFFF; g++ {
			res[glyph.ID(g)] = c
		}
	}
	// holes (glyphs of class 0) and explicit zero entries strictly inside
	if len(res) > 2 && rapid.IntRange(0, 2).Draw(t, label+"Holes") == 0 {
		lo, hi := 0xFFFF, 0
		for g := range res {
			lo, hi = min(lo, int(g)), max(hi, int(g))
		}
		n := rapid.IntRange(1, 4).Draw(t, label+"NHoles")
		for i := 0; i < n && hi-lo >= 2; i++ {
			h := glyph.ID(rapid.IntRange(lo+1, hi-1).Draw(t, label+"Hole"))
			if rapid.Bool().Draw(t, label+"ExplicitZero") {
				res[h] = 0
			} else {
				delete(res, h)
			}
		}
	}
	return res, kind
}

func nonZero(c classdef.Table) map[uint16]uint16 {
	res := make(map[uint16]uint16, len(c))
	for g, v := range c {
		if v != 0 {
			res[uint16(g)] = v
		}
	}
	return res
}

// classDefState classifies a table by what the binary format can hold:
// "ok", "needs-format2" (all 65536 glyphs classified, so format 1 with its
// 16-bit glyphCount is impossible, but at most 65535 ranges), or
// "unrepresentable" (all 65536 glyphs classified in 65536 ranges).
func classDefState(c classdef.Table) string {
	f1, f2 := refot.MinClassDefSize(nonZero(c))
	switch {
	case f1 == refot.Impossible && f2 == refot.Impossible:
		return "unrepresentable"
	case f1 == refot.Impossible:
		return "needs-format2"
	}
	return "ok"
}

func checkClassDef(c classdef.Table) (labels []string, f *failure) {
	prefix := []byte{1, 2, 3, 4, 5}
	var data []byte
	var encLen int
	state := classDefState(c)
	key := "clause:classdef"
	if state != "ok" {
		key = "wrap:" + siteClassDefCount
	}
	if pn := guard.Try(func() { data = c.Append(append([]byte{}, prefix...)); encLen = c.AppendLen() }); pn != nil {
		if state == "unrepresentable" {
			return []string{"refused-loudly"}, nil
		}
		return nil, &failure{pn.Key(), fmt.Sprintf("Append refuses a representable table: %s", pn)}
	}
	if !bytes.HasPrefix(data, prefix) {
		return nil, &failure{"clause:classdef", "Append clobbers the buffer it appends to"}
	}
	body := data[len(prefix):]
	if encLen != len(body) {
		return nil, &failure{key, fmt.Sprintf("AppendLen() = %d, but Append() emits %d bytes", encLen, len(body))}
	}
	cd, err := refot.WalkClassDef(body)
	if err != nil {
		return nil, &failure{key, fmt.Sprintf("emitted bytes % x… not well-formed: %v", body[:min(len(body), 16)], err)}
	}
	want := nonZero(c)
	if len(cd.Classes) != len(want) {
		return nil, &failure{key, fmt.Sprintf("%d glyphs with a class stored, want %d", len(cd.Classes), len(want))}
	}
	for g, v := range want {
		if cd.Classes[g] != v {
			return nil, &failure{key, fmt.Sprintf("glyph %d stored with class %d, want %d", g, cd.Classes[g], v)}
		}
	}
	got, err := classdef.Read(parser.New(bytes.NewReader(append(data, 0xEE))), int64(len(prefix)))
	if err != nil {
		return nil, &failure{key, fmt.Sprintf("classdef.Read: %v", err)}
	}
	if e := equal(normClass(c), got); e != nil {
		return nil, &failure{key, fmt.Sprintf("Read(Append(x)) != x: %v", e)}
	}
	if state == "unrepresentable" {
		return nil, &failure{"harness:overflow-class-consistent", "HARNESS: class table claimed unrepresentable but the encoding is consistent"}
	}
	labels = append(labels, fmt.Sprintf("classdef-format%d", cd.Format), "classdef:"+state)
	if f1, f2 := refot.MinClassDefSize(want); f1 == f2 {
		labels = append(labels, "classdef-format-tie")
	}
	return labels, nil
}

func TestC08ClassDef(t *testing.T) {
	rapid.Check(t, func(t *rapid.T) {
		c, kind := genClassDef(t, "cd")
		if classDefState(c) != "ok" && skipSite(siteClassDefCount) {
			// excluded by construction: drop the last glyph (and explicit
			// zero entries, which must stay strictly inside the table)
			delete(c, 0xFFFF)
			c = normClass(c)
		}
		labels, f := checkClassDef(c)
		if f != nil && !stats.Known(prop, f.key) {
			t.Fatalf("C08 violated [key=%s]: %s\ncase: %d entries (%s): %s", f.key, f.msg, len(c), kind, dump(c, 3000))
		}
		labels = append(labels, "table:"+kind)
		stats.CaseIn("classdef", hashClasses(c), len(nonZero(c)) >= 2, func() string {
			return fmt.Sprintf("%d entries (%s) %v: %s", len(c), kind, labels, dump(c, 300))
		}, labels...)
	})
}

// ---------------------------------------------------------------------------
// GDEF

type gdefCase struct {
	table    *gdef.Table
	overflow bool // the second class table starts beyond 64 KiB behind the first (the mark glyph sets use 32-bit offsets): refusal is legitimate
	desc     string
}

func setGlyphs(gg []glyph.ID) coverage.Set { return lookups.CovSet(gg) }

func genGdef(t *rapid.T) *gdefCase {
	c := &gdefCase{table: &gdef.Table{}}
	big := rapid.IntRange(0, 9).Draw(t, "gdefBig") == 0
	if !big {
		if rapid.IntRange(0, 4).Draw(t, "hasGlyphClass") > 0 {
			cd := classdef.Table{}
			gg, _ := genGlyphSet(t, "gc")
			if len(gg) > 3000 {
				gg = gg[:3000]
			}
			for _, g := range gg {
				if v := rapid.IntRange(0, 4).Draw(t, "glyphClass"); v != 0 {
					cd[g] = uint16(v)
				}
			}
			c.table.GlyphClass = cd
		}
		if rapid.IntRange(0, 2).Draw(t, "hasMarkAttach") > 0 {
			c.table.MarkAttachClass, _ = genClassDef(t, "ma")
			if len(c.table.MarkAttachClass) > 20000 {
				c.table.MarkAttachClass = classdef.Table{7: 1, 8: 2}
			}
			c.table.MarkAttachClass = normClass(c.table.MarkAttachClass)
		}
		switch rapid.IntRange(0, 3).Draw(t, "markSets") {
		case 0:
		case 1:
			c.table.MarkGlyphSets = []coverage.Set{}
		default:
			n := rapid.IntRange(1, 4).Draw(t, "nMarkSets")
			for i := 0; i < n; i++ {
				gg, _ := genGlyphSet(t, "ms")
				if len(gg) > 5000 && i > 0 {
					gg = gg[:50]
				}
				c.table.MarkGlyphSets = append(c.table.MarkGlyphSets, setGlyphs(gg))
			}
		}
		c.desc = "small"
		return c
	}
	// large class tables: alternating classes over n glyphs need 6+2n bytes
	alt := func(n, shift int) classdef.Table {
		cd := make(classdef.Table, n)
		for g := 0; g < n; g++ {
			cd[glyph.ID(g+shift)] = uint16(1 + g%2)
		}
		return cd
	}
	layout := rapid.SampledFrom([]string{"fits-60k+4k", "fits-2x40k", "fits-60k+20k+sets", "fits-1st>64k-alone", "overflow-1st>64k"}).Draw(t, "gdefLayout")
	if layout == "overflow-1st>64k" && skipSite(siteGdefHeader) {
		layout = "fits-60k+4k"
	}
	switch layout {
	case "fits-60k+4k": // everything starts below 64 KiB
		c.table.GlyphClass = alt(rapid.IntRange(25000, 30000).Draw(t, "n1"), 0)
		c.table.MarkAttachClass = alt(2000, 5)
		c.table.MarkGlyphSets = []coverage.Set{setGlyphs(lookups.Spread(10000, 0, []int{2}))}
	case "fits-2x40k": // 80 KiB of class tables: the second starts at 40 KiB, the coverage tables of the sets come last
		n := rapid.IntRange(20000, 24000).Draw(t, "n2")
		c.table.GlyphClass = alt(n, 0)
		c.table.MarkAttachClass = alt(n, 3)
		c.table.MarkGlyphSets = []coverage.Set{setGlyphs([]glyph.ID{1, 2, 3})}
	case "fits-60k+20k+sets":
		c.table.GlyphClass = alt(30000, 0)
		c.table.MarkAttachClass = alt(10000, 3)
		c.table.MarkGlyphSets = []coverage.Set{setGlyphs([]glyph.ID{9}), setGlyphs(lookups.Spread(3000, 5, []int{3}))}
	case "fits-1st>64k-alone": // one class table beyond 64 KiB, nothing behind it but coverage tables
		c.table.GlyphClass = alt(rapid.IntRange(33000, 40000).Draw(t, "n3"), 0)
		if rapid.Bool().Draw(t, "withSets") {
			c.table.MarkGlyphSets = []coverage.Set{setGlyphs([]glyph.ID{4, 5})}
		}
	case "overflow-1st>64k": // second class table starts beyond 64 KiB
		c.table.GlyphClass = alt(rapid.IntRange(33000, 40000).Draw(t, "n3"), 0)
		c.table.MarkAttachClass = alt(10, 3)
		c.overflow = true
	}
	c.desc = layout
	return c
}

func checkGdef(c *gdefCase) (labels []string, f *failure) {
	x := c.table
	key := "clause:gdef"
	if c.overflow {
		key = "wrap:" + siteGdefHeader
	}
	var data []byte
	if pn := guard.Try(func() { data = x.Encode() }); pn != nil {
		if c.overflow {
			return []string{"refused-loudly"}, nil
		}
		return nil, &failure{pn.Key(), fmt.Sprintf("Encode refuses a representable table: %s", pn)}
	}
	rep, err := refot.WalkGDEF(data)
	if err != nil {
		return nil, &failure{key, fmt.Sprintf("emitted bytes (%d) not well-formed: %v", len(data), err)}
	}
	if err := refot.Tiling(rep.Ranges, len(data)); err != nil {
		return nil, &failure{key, fmt.Sprintf("declared sizes disagree with the %d emitted bytes: %v", len(data), err)}
	}
	cmp := func(name string, want classdef.Table, got *refot.ClassDef) error {
		if got == nil {
			if len(nonZero(want)) > 0 || want != nil {
				return fmt.Errorf("%s: offset is NULL but the table has %d entries (nil=%v)", name, len(want), want == nil)
			}
			return nil
		}
		w := nonZero(want)
		if len(w) != len(got.Classes) {
			return fmt.Errorf("%s: %d glyphs stored, want %d", name, len(got.Classes), len(w))
		}
		for g, v := range w {
			if got.Classes[g] != v {
				return fmt.Errorf("%s: glyph %d stored with class %d, want %d", name, g, got.Classes[g], v)
			}
		}
		return nil
	}
	if err := cmp("GlyphClass", x.GlyphClass, rep.GlyphClass); err != nil {
		return nil, &failure{key, err.Error()}
	}
	if err := cmp("MarkAttachClass", x.MarkAttachClass, rep.MarkAttachClass); err != nil {
		return nil, &failure{key, err.Error()}
	}
	if (x.MarkGlyphSets != nil) != rep.HasMarkSets || len(x.MarkGlyphSets) != len(rep.MarkGlyphSets) {
		return nil, &failure{key, fmt.Sprintf("%d mark glyph sets stored (present=%v), want %d (nil=%v)", len(rep.MarkGlyphSets), rep.HasMarkSets, len(x.MarkGlyphSets), x.MarkGlyphSets == nil)}
	}
	for i, set := range x.MarkGlyphSets {
		gg := set.Glyphs()
		got := rep.MarkGlyphSets[i].Glyphs
		if len(gg) != len(got) {
			return nil, &failure{key, fmt.Sprintf("mark glyph set %d: %d glyphs stored, want %d", i, len(got), len(gg))}
		}
		for j := range gg {
			if uint16(gg[j]) != got[j] {
				return nil, &failure{key, fmt.Sprintf("mark glyph set %d: index %d is glyph %d, want %d", i, j, got[j], gg[j])}
			}
		}
	}
	var got *gdef.Table
	if pn := guard.Try(func() { got, err = gdef.Read(guard.Source(data)) }); pn != nil {
		return nil, &failure{key, fmt.Sprintf("gdef.Read: %s", pn)}
	}
	if err != nil {
		return nil, &failure{key, fmt.Sprintf("gdef.Read fails: %v", err)}
	}
	want := &gdef.Table{GlyphClass: normClass(x.GlyphClass), MarkAttachClass: normClass(x.MarkAttachClass), MarkGlyphSets: x.MarkGlyphSets}
	if e := equal(want, got); e != nil {
		return nil, &failure{key, "Read(Encode(x)) != x: " + e.Error()}
	}
	if c.overflow {
		return nil, &failure{"harness:overflow-class-consistent", "HARNESS: GDEF case claims to exceed 64 KiB offsets but the encoding is consistent"}
	}
	if len(data) > 0xFFFF {
		labels = append(labels, "size>64KiB")
	}
	if rep.HasMarkSets {
		labels = append(labels, "version-1.2")
	} else {
		labels = append(labels, "version-1.0")
	}
	return labels, nil
}

func TestC08Gdef(t *testing.T) {
	rapid.Check(t, func(t *rapid.T) {
		c := genGdef(t)
		labels, f := checkGdef(c)
		if f != nil && !stats.Known(prop, f.key) {
			t.Fatalf("C08 violated [key=%s]: %s\ncase (%s): %s", f.key, f.msg, c.desc, dump(c.table, 4000))
		}
		labels = append(labels, "gdef:"+c.desc)
		x := c.table
		nt := 0
		for _, b := range []bool{len(x.GlyphClass) > 0, len(x.MarkAttachClass) > 0, len(x.MarkGlyphSets) > 0} {
			if b {
				nt++
			}
		}
		fp := stats.Hash(hashClasses(x.GlyphClass), hashClasses(x.MarkAttachClass), len(x.MarkGlyphSets), x.MarkGlyphSets == nil, c.desc)
		for _, set := range x.MarkGlyphSets {
			fp = stats.Hash(fp, hashGlyphs(set.Glyphs()))
		}
		stats.CaseIn("gdef", fp, nt >= 2, func() string {
			return fmt.Sprintf("%s: %d glyph classes, %d attach classes, %d mark sets %v", c.desc, len(x.GlyphClass), len(x.MarkAttachClass), len(x.MarkGlyphSets), labels)
		}, labels...)
	})
}
