package c08

import (
	"fmt"
	"reflect"
	"sort"
	"strings"

	"seehuhn.de/go/sfnt/glyph"
	"seehuhn.de/go/sfnt/opentype/classdef"
	"seehuhn.de/go/sfnt/opentype/coverage"
	"seehuhn.de/go/sfnt/opentype/gtab"
)

// ---------------------------------------------------------------------------
// Expected value after one encode/decode cycle.
//
// The binary formats cannot express every distinction the Go structs can:
//
//   - a value record array shares ONE valueFormat: if any record of the
//     column is present, absent (nil) records are stored as all-zero records
//     and come back non-nil; if every record is nil they all stay nil;
//   - class 0 is "not listed": explicit zero entries of a class definition
//     table disappear;
//   - nil and empty slices/maps are the same (handled by the comparer).
//
// expectInfo returns x with these rules applied (x itself is not modified).

func normVR(vr *gtab.GposValueRecord, present bool) *gtab.GposValueRecord {
	if vr == nil && present {
		return &gtab.GposValueRecord{}
	}
	return vr
}

func normClass(c classdef.Table) classdef.Table {
	hasZero := false
	for _, v := range c {
		if v == 0 {
			hasZero = true
			break
		}
	}
	if !hasZero {
		return c
	}
	res := classdef.Table{}
	for g, v := range c {
		if v != 0 {
			res[g] = v
		}
	}
	return res
}

func expectSubtable(s gtab.Subtable) gtab.Subtable {
	switch s := s.(type) {
	case *gtab.Gpos1_2:
		any := false
		for _, a := range s.Adjust {
			any = any || a != nil
		}
		res := &gtab.Gpos1_2{Cov: s.Cov, Adjust: make([]*gtab.GposValueRecord, len(s.Adjust))}
		for i, a := range s.Adjust {
			res.Adjust[i] = normVR(a, any)
		}
		return res
	case gtab.Gpos2_1:
		any1, any2 := false, false
		for _, pa := range s {
			any1 = any1 || pa.First != nil
			any2 = any2 || pa.Second != nil
		}
		res := make(gtab.Gpos2_1, len(s))
		for k, pa := range s {
			res[k] = &gtab.PairAdjust{First: normVR(pa.First, any1), Second: normVR(pa.Second, any2)}
		}
		return res
	case *gtab.Gpos2_2:
		any1, any2 := false, false
		for _, row := range s.Adjust {
			for _, pa := range row {
				any1 = any1 || pa.First != nil
				any2 = any2 || pa.Second != nil
			}
		}
		res := &gtab.Gpos2_2{Cov: s.Cov, Class1: normClass(s.Class1), Class2: normClass(s.Class2)}
		for _, row := range s.Adjust {
			r := make([]*gtab.PairAdjust, len(row))
			for j, pa := range row {
				r[j] = &gtab.PairAdjust{First: normVR(pa.First, any1), Second: normVR(pa.Second, any2)}
			}
			res.Adjust = append(res.Adjust, r)
		}
		return res
	}
	return s
}

func expectInfo(x *gtab.Info) *gtab.Info {
	res := &gtab.Info{ScriptList: x.ScriptList, FeatureList: x.FeatureList}
	if x.LookupList != nil {
		res.LookupList = make(gtab.LookupList, len(x.LookupList))
	}
	for i, l := range x.LookupList {
		nl := &gtab.LookupTable{Meta: l.Meta}
		for _, s := range l.Subtables {
			nl.Subtables = append(nl.Subtables, expectSubtable(s))
		}
		res.LookupList[i] = nl
	}
	return res
}

// ---------------------------------------------------------------------------
// Deep equality with nil == empty for slices and maps.

func equal(want, got any) error {
	return eq(reflect.ValueOf(want), reflect.ValueOf(got), "")
}

func eq(a, b reflect.Value, path string) error {
	if !a.IsValid() || !b.IsValid() {
		if a.IsValid() != b.IsValid() {
			return fmt.Errorf("%s: want valid=%v got valid=%v", path, a.IsValid(), b.IsValid())
		}
		return nil
	}
	if a.Type() != b.Type() {
		return fmt.Errorf("%s: want type %s, got %s", path, a.Type(), b.Type())
	}
	// fast paths for the large maps
	if a.CanInterface() && b.CanInterface() {
		switch x := a.Interface().(type) {
		case coverage.Table:
			y := b.Interface().(coverage.Table)
			if len(x) != len(y) {
				return fmt.Errorf("%s: want %d covered glyphs, got %d", path, len(x), len(y))
			}
			for g, i := range x {
				if j, ok := y[g]; !ok || i != j {
					return fmt.Errorf("%s[%d]: want coverage index %d, got %d (present=%v)", path, g, i, j, ok)
				}
			}
			return nil
		case coverage.Set:
			y := b.Interface().(coverage.Set)
			if len(x) != len(y) {
				return fmt.Errorf("%s: want %d covered glyphs, got %d", path, len(x), len(y))
			}
			for g, i := range x {
				if j, ok := y[g]; !ok || i != j {
					return fmt.Errorf("%s[%d]: want %v, got %v (present=%v)", path, g, i, j, ok)
				}
			}
			return nil
		case classdef.Table:
			y := b.Interface().(classdef.Table)
			if len(x) != len(y) {
				return fmt.Errorf("%s: want %d classified glyphs, got %d", path, len(x), len(y))
			}
			for g, i := range x {
				if j, ok := y[g]; !ok || i != j {
					return fmt.Errorf("%s[%d]: want class %d, got %d (present=%v)", path, g, i, j, ok)
				}
			}
			return nil
		case []glyph.ID:
			y := b.Interface().([]glyph.ID)
			if len(x) != len(y) {
				return fmt.Errorf("%s: want %d glyphs, got %d", path, len(x), len(y))
			}
			for i := range x {
				if x[i] != y[i] {
					return fmt.Errorf("%s[%d]: want glyph %d, got %d", path, i, x[i], y[i])
				}
			}
			return nil
		}
	}
	switch a.Kind() {
	case reflect.Ptr:
		if a.IsNil() || b.IsNil() {
			if a.IsNil() != b.IsNil() {
				return fmt.Errorf("%s: want nil=%v, got nil=%v", path, a.IsNil(), b.IsNil())
			}
			return nil
		}
		return eq(a.Elem(), b.Elem(), path)
	case reflect.Interface:
		if a.IsNil() || b.IsNil() {
			if a.IsNil() != b.IsNil() {
				return fmt.Errorf("%s: want nil=%v, got nil=%v", path, a.IsNil(), b.IsNil())
			}
			return nil
		}
		return eq(a.Elem(), b.Elem(), path)
	case reflect.Struct:
		for i := 0; i < a.NumField(); i++ {
			if err := eq(a.Field(i), b.Field(i), path+"."+a.Type().Field(i).Name); err != nil {
				return err
			}
		}
		return nil
	case reflect.Slice, reflect.Array:
		if a.Len() != b.Len() {
			return fmt.Errorf("%s: want length %d, got %d", path, a.Len(), b.Len())
		}
		for i := 0; i < a.Len(); i++ {
			if err := eq(a.Index(i), b.Index(i), fmt.Sprintf("%s[%d]", path, i)); err != nil {
				return err
			}
		}
		return nil
	case reflect.Map:
		if a.Len() != b.Len() {
			return fmt.Errorf("%s: want %d map entries, got %d", path, a.Len(), b.Len())
		}
		iter := a.MapRange()
		for iter.Next() {
			bv := b.MapIndex(iter.Key())
			if !bv.IsValid() {
				return fmt.Errorf("%s[%v]: missing", path, iter.Key())
			}
			if err := eq(iter.Value(), bv, fmt.Sprintf("%s[%v]", path, iter.Key())); err != nil {
				return err
			}
		}
		return nil
	case reflect.String:
		if a.String() != b.String() {
			return fmt.Errorf("%s: want %q, got %q", path, a.String(), b.String())
		}
		return nil
	case reflect.Bool:
		if a.Bool() != b.Bool() {
			return fmt.Errorf("%s: want %v, got %v", path, a.Bool(), b.Bool())
		}
		return nil
	case reflect.Int, reflect.Int8, reflect.Int16, reflect.Int32, reflect.Int64:
		if a.Int() != b.Int() {
			return fmt.Errorf("%s: want %d, got %d", path, a.Int(), b.Int())
		}
		return nil
	case reflect.Uint, reflect.Uint8, reflect.Uint16, reflect.Uint32, reflect.Uint64:
		if a.Uint() != b.Uint() {
			return fmt.Errorf("%s: want %d, got %d", path, a.Uint(), b.Uint())
		}
		return nil
	}
	return fmt.Errorf("%s: unsupported kind %s", path, a.Kind())
}

// ---------------------------------------------------------------------------
// dump renders a value for failure messages: pointers followed, maps sorted,
// output limited to max bytes.

type dumper struct {
	sb  strings.Builder
	max int
}

func dump(v any, max int) string {
	d := &dumper{max: max}
	d.val(reflect.ValueOf(v))
	s := d.sb.String()
	if len(s) > max {
		s = s[:max] + "…(truncated)"
	}
	return s
}

func (d *dumper) val(v reflect.Value) {
	if d.sb.Len() > d.max {
		return
	}
	if !v.IsValid() {
		d.sb.WriteString("nil")
		return
	}
	switch v.Kind() {
	case reflect.Ptr, reflect.Interface:
		if v.IsNil() {
			d.sb.WriteString("nil")
			return
		}
		if v.Kind() == reflect.Ptr {
			d.sb.WriteByte('&')
		}
		d.val(v.Elem())
	case reflect.Struct:
		d.sb.WriteString(v.Type().Name() + "{")
		for i := 0; i < v.NumField(); i++ {
			if i > 0 {
				d.sb.WriteString(", ")
			}
			d.sb.WriteString(v.Type().Field(i).Name + ":")
			d.val(v.Field(i))
		}
		d.sb.WriteByte('}')
	case reflect.Slice, reflect.Array:
		if v.Kind() == reflect.Slice && v.IsNil() {
			d.sb.WriteString("nil")
			return
		}
		d.sb.WriteByte('[')
		for i := 0; i < v.Len() && d.sb.Len() <= d.max; i++ {
			if i > 0 {
				d.sb.WriteByte(' ')
			}
			d.val(v.Index(i))
		}
		d.sb.WriteByte(']')
	case reflect.Map:
		if v.IsNil() {
			d.sb.WriteString("nil")
			return
		}
		keys := v.MapKeys()
		if len(keys) > 0 && keys[0].Kind() == reflect.Uint16 {
			sort.Slice(keys, func(i, j int) bool { return keys[i].Uint() < keys[j].Uint() })
		} else {
			type named struct {
				k reflect.Value
				s string
			}
			nn := make([]named, len(keys))
			for i, k := range keys {
				nn[i] = named{k, fmt.Sprint(k)}
			}
			sort.Slice(nn, func(i, j int) bool { return nn[i].s < nn[j].s })
			for i := range nn {
				keys[i] = nn[i].k
			}
		}
		d.sb.WriteString("map[")
		for i, k := range keys {
			if d.sb.Len() > d.max {
				break
			}
			if i > 0 {
				d.sb.WriteByte(' ')
			}
			d.sb.WriteString(fmt.Sprint(k))
			d.sb.WriteByte(':')
			d.val(v.MapIndex(k))
		}
		d.sb.WriteByte(']')
	case reflect.String:
		d.sb.WriteString(fmt.Sprintf("%q", v.String()))
	default:
		d.sb.WriteString(fmt.Sprint(v))
	}
}
