// C12: metrics/header tables round-trip exactly; derived header fields equal
// their definitions; the Font's metric queries are mutually consistent.
//
// Part 1 (tables_test.go): hmtx/hhea, head, maxp, OS/2 and post Info values
// over the whole field range; oracle = decode(encode(x)) == normal-form(x),
// where the normal form is derived from the width/meaning of the field in the
// OpenType specification, plus an independent reading of the raw big-endian
// fields of the encoded tables.
//
// Part 2 (font_test.go): small complete fonts (glyf, simple CFF, CID-keyed
// CFF) are written with (*sfnt.Font).Write; the container is walked by the
// code in walker_test.go and the derived fields are recomputed from their
// definitions using the generator's own outline model; the query methods of
// the Font are compared with that model and with each other;
// golang.org/x/image/font/sfnt is a second judge on the written file.
package c12

import (
	"fmt"
	"math"
	"testing"

	"pgregory.net/rapid"

	"verif/harness/stats"
)

func TestMain(m *testing.M) { stats.MainExit(m) }

const prop = "C12"

// ---- raw big-endian readers -------------------------------------------------

func u16(b []byte, o int) uint16 { return uint16(b[o])<<8 | uint16(b[o+1]) }
func i16(b []byte, o int) int16  { return int16(u16(b, o)) }
func u32(b []byte, o int) uint32 {
	return uint32(b[o])<<24 | uint32(b[o+1])<<16 | uint32(b[o+2])<<8 | uint32(b[o+3])
}
func i32(b []byte, o int) int32 { return int32(u32(b, o)) }
func i64(b []byte, o int) int64 {
	return int64(uint64(u32(b, o))<<32 | uint64(u32(b, o+4)))
}

// ---- generators for scalar fields ------------------------------------------

// extremes records whether a case touched the end of a field's range.
type extremes struct{ hit bool }

func (e *extremes) i16(v int16) int16 {
	if v == math.MinInt16 || v == math.MaxInt16 {
		e.hit = true
	}
	return v
}

func (e *extremes) u16(v uint16) uint16 {
	if v == math.MaxUint16 {
		e.hit = true
	}
	return v
}

var i16Corners = []int16{math.MinInt16, math.MinInt16 + 1, -1, 0, 1, math.MaxInt16 - 1, math.MaxInt16, 255, 256, -256, -257}

func genI16() *rapid.Generator[int16] {
	return rapid.OneOf(
		rapid.Int16(),
		rapid.SampledFrom(i16Corners),
		rapid.Int16Range(-2000, 3000),
	)
}

var u16Corners = []uint16{0, 1, 255, 256, 0x7FFF, 0x8000, 0xFFFE, 0xFFFF}

func genU16() *rapid.Generator[uint16] {
	return rapid.OneOf(
		rapid.Uint16(),
		rapid.SampledFrom(u16Corners),
		rapid.Uint16Range(0, 3000),
	)
}

func genU32() *rapid.Generator[uint32] {
	return rapid.OneOf(
		rapid.Uint32(),
		rapid.SampledFrom([]uint32{0, 1, 0x00010000, 0x7FFFFFFF, 0x80000000, 0xFFFFFFFF}),
	)
}

func drawI16(t *rapid.T, e *extremes, label string) int16 {
	return e.i16(genI16().Draw(t, label))
}

func drawU16(t *rapid.T, e *extremes, label string) uint16 {
	return e.u16(genU16().Draw(t, label))
}

func b2i(b bool) int {
	if b {
		return 1
	}
	return 0
}

func lbl(cond bool, s string) string {
	if cond {
		return s
	}
	return ""
}

// angleDiff returns the distance of two angles on the circle.
func angleDiff(a, b float64) float64 {
	d := math.Mod(a-b, 2*math.Pi)
	if d > math.Pi {
		d -= 2 * math.Pi
	} else if d < -math.Pi {
		d += 2 * math.Pi
	}
	return math.Abs(d)
}

func failf(t *rapid.T, format string, args ...any) {
	t.Helper()
	t.Fatalf("%s", fmt.Sprintf(format, args...))
}
