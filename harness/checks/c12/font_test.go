package c12

import (
	"bytes"
	"fmt"
	"math"
	"sort"
	"strings"
	"testing"
	"time"

	xfont "golang.org/x/image/font"
	xsfnt "golang.org/x/image/font/sfnt"
	"golang.org/x/image/math/fixed"
	"pgregory.net/rapid"

	"seehuhn.de/go/geom/matrix"
	"seehuhn.de/go/geom/rect"
	"seehuhn.de/go/postscript/cid"
	"seehuhn.de/go/postscript/funit"
	"seehuhn.de/go/postscript/type1"

	"seehuhn.de/go/sfnt"
	"seehuhn.de/go/sfnt/cff"
	"seehuhn.de/go/sfnt/cmap"
	"seehuhn.de/go/sfnt/glyf"
	"seehuhn.de/go/sfnt/glyph"
	"seehuhn.de/go/sfnt/maxp"
	"seehuhn.de/go/sfnt/os2"
	"verif/harness/guard"
	"verif/harness/stats"
)

// ---------------------------------------------------------------------------
// the harness's own model of a font: outlines as point lists, widths, cmap

type mcmd struct {
	op byte          // 'M', 'L', 'C'
	p  [3][2]float64 // 'M','L': p[0]; 'C': two control points and the end point
}

type mglyph struct {
	width float64
	cmds  []mcmd // the outline; for glyf all coordinates are integers and ops are M/L
	on    []bool // glyf: on-curve flag per point (in cmds order)
	fd    int
}

func (g *mglyph) hasOutline() bool { return len(g.cmds) > 0 }

// cubicRange returns the range of one coordinate of a cubic Bézier segment.
func cubicRange(p0, p1, p2, p3 float64) (lo, hi float64) {
	lo, hi = math.Min(p0, p3), math.Max(p0, p3)
	at := func(t float64) {
		if t <= 0 || t >= 1 || math.IsNaN(t) {
			return
		}
		s := 1 - t
		v := s*s*s*p0 + 3*s*s*t*p1 + 3*s*t*t*p2 + t*t*t*p3
		lo, hi = math.Min(lo, v), math.Max(hi, v)
	}
	// derivative/3 = a t^2 + b t + c
	a := -p0 + 3*p1 - 3*p2 + p3
	b := 2 * (p0 - 2*p1 + p2)
	c := p1 - p0
	if a == 0 {
		if b != 0 {
			at(-c / b)
		}
		return
	}
	disc := b*b - 4*a*c
	if disc < 0 {
		return
	}
	sq := math.Sqrt(disc)
	at((-b + sq) / (2 * a))
	at((-b - sq) / (2 * a))
	return
}

// bounds returns the bounding box of the outline after applying M (the
// image of a Bézier curve under an affine map is the Bézier curve of the
// mapped control points).  tight=false uses the segment end points only.
func (g *mglyph) bounds(M matrix.Matrix, tight bool) (r rect.Rect, ok bool) {
	first := true
	add := func(x, y float64) {
		if first {
			r = rect.Rect{LLx: x, LLy: y, URx: x, URy: y}
			first = false
			return
		}
		r.LLx, r.URx = math.Min(r.LLx, x), math.Max(r.URx, x)
		r.LLy, r.URy = math.Min(r.LLy, y), math.Max(r.URy, y)
	}
	var cx, cy float64
	for _, c := range g.cmds {
		switch c.op {
		case 'M', 'L':
			cx, cy = M.Apply(c.p[0][0], c.p[0][1])
			add(cx, cy)
		case 'C':
			x1, y1 := M.Apply(c.p[0][0], c.p[0][1])
			x2, y2 := M.Apply(c.p[1][0], c.p[1][1])
			x3, y3 := M.Apply(c.p[2][0], c.p[2][1])
			if tight {
				lo, hi := cubicRange(cx, x1, x2, x3)
				add(lo, y3)
				add(hi, y3)
				lo, hi = cubicRange(cy, y1, y2, y3)
				add(x3, lo)
				add(x3, hi)
			}
			add(x3, y3)
			cx, cy = x3, y3
		}
	}
	return r, !first
}

// curveBulges reports whether some curve of the glyph leaves the box of
// the segment end points (i.e. has an extremum that is not a node).
func (g *mglyph) curveBulges(M matrix.Matrix) bool {
	a, ok := g.bounds(M, true)
	b, _ := g.bounds(M, false)
	return ok && a != b
}

type box4 struct{ llx, lly, urx, ury int }

func (b box4) isZero() bool { return b == box4{} }

func (b box4) String() string { return fmt.Sprintf("[%d %d %d %d]", b.llx, b.lly, b.urx, b.ury) }

func (b *box4) extend(o box4, first bool) {
	if first {
		*b = o
		return
	}
	b.llx, b.lly = min(b.llx, o.llx), min(b.lly, o.lly)
	b.urx, b.ury = max(b.urx, o.urx), max(b.ury, o.ury)
}

// designBox is the glyph box in design units: the outline's bounding box,
// rounded outwards to integers.
func (g *mglyph) designBox(tight bool) box4 {
	r, ok := g.bounds(matrix.Identity, tight)
	if !ok {
		return box4{}
	}
	return box4{int(math.Floor(r.LLx)), int(math.Floor(r.LLy)), int(math.Ceil(r.URx)), int(math.Ceil(r.URy))}
}

type fontCase struct {
	kind      string // glyf | cff | cid
	upem      uint16
	fm        matrix.Matrix   // Font.FontMatrix
	fdm       []matrix.Matrix // CID: one matrix per private dict
	glyphs    []*mglyph
	codes     map[uint32]int // character code -> gid (never 0)
	cmapClass string         // none | f4 | f12 | f12-bmp | f4-win-only | f4-uni-only
	fracWidth bool
	curves    string // none | inside | bulging
	font      *sfnt.Font
	desc      string
}

func (fc *fontCase) anyOutline() bool {
	for _, g := range fc.glyphs {
		if g.hasOutline() {
			return true
		}
	}
	return false
}

func (fc *fontCase) fullMatrix(gid int) matrix.Matrix {
	if fc.kind == "cid" {
		return fc.fdm[fc.glyphs[gid].fd].Mul(fc.fm)
	}
	return fc.fm
}

func (fc *fontCase) String() string {
	var sb strings.Builder
	f := fc.font
	fmt.Fprintf(&sb, "font kind=%s upem=%d FontMatrix=%v fdMatrices=%v cmap=%s codes=%v\n", fc.kind, fc.upem, fc.fm, fc.fdm, fc.cmapClass, fc.sortedCodes())
	fmt.Fprintf(&sb, "  Ascent=%d Descent=%d LineGap=%d CapHeight=%d XHeight=%d ItalicAngle=%v UnderlinePosition=%v UnderlineThickness=%v Weight=%d Width=%d PermUse=%d CodePageRange=%#x Created=%d Modified=%d\n",
		f.Ascent, f.Descent, f.LineGap, f.CapHeight, f.XHeight, f.ItalicAngle, f.UnderlinePosition, f.UnderlineThickness, f.Weight, f.Width, f.PermUse, uint64(f.CodePageRange), f.CreationTime.Unix(), f.ModificationTime.Unix())
	for i, g := range fc.glyphs {
		if i >= 48 {
			fmt.Fprintf(&sb, "  … %d more glyphs\n", len(fc.glyphs)-i)
			break
		}
		fmt.Fprintf(&sb, "  gid %d: width=%v fd=%d outline=", i, g.width, g.fd)
		for _, c := range g.cmds {
			switch c.op {
			case 'C':
				fmt.Fprintf(&sb, "C%v,%v,%v ", c.p[0], c.p[1], c.p[2])
			default:
				fmt.Fprintf(&sb, "%c%v ", c.op, c.p[0])
			}
		}
		sb.WriteByte('\n')
	}
	return sb.String()
}

func (fc *fontCase) sortedCodes() []string {
	keys := make([]uint32, 0, len(fc.codes))
	for k := range fc.codes {
		keys = append(keys, k)
	}
	sort.Slice(keys, func(i, j int) bool { return keys[i] < keys[j] })
	res := make([]string, len(keys))
	for i, k := range keys {
		res[i] = fmt.Sprintf("U+%04X:%d", k, fc.codes[k])
	}
	return res
}

// ---------------------------------------------------------------------------
// generator

type coordClass struct {
	name   string
	lo, hi int
}

// genCoordClass draws the coordinate range of a font.  lim is the largest
// magnitude: 32767 for TrueType, 32000 for Type 2 charstrings ("numbers are
// limited to -32000..32000", which the library's charstring decoder enforces
// by clamping).  The extreme classes are one-sided so that every delta
// between consecutive points still fits the 16-bit delta encodings.
func genCoordClass(t *rapid.T, label string, lim int) coordClass {
	return rapid.SampledFrom([]coordClass{
		{"normal", -500, 1500}, {"normal", -500, 1500}, {"normal", -500, 1500},
		{"positive", 10, 900}, {"negative", -900, -10},
		{"pos-extreme", 0, lim}, {"neg-extreme", -lim, 0},
		{"tiny", -2, 2},
	}).Draw(t, label)
}

func genOutline(t *rapid.T, kind string, xc, yc coordClass, curves string, frac bool) ([]mcmd, []bool) {
	var cmds []mcmd
	var on []bool
	coord := func(c coordClass, label string) float64 {
		var v int
		if rapid.IntRange(0, 7).Draw(t, label+"Edge") == 0 {
			v = rapid.SampledFrom([]int{c.lo, c.hi}).Draw(t, label)
		} else {
			v = rapid.IntRange(c.lo, c.hi).Draw(t, label)
		}
		x := float64(v)
		if frac && v > c.lo && v < c.hi {
			x += rapid.SampledFrom([]float64{0, 0, 0.25, 0.5, -0.25, -0.5}).Draw(t, label+"Frac")
		}
		return x
	}
	nContours := rapid.IntRange(1, 3).Draw(t, "nContours")
	for c := 0; c < nContours; c++ {
		nPts := rapid.IntRange(1, 5).Draw(t, "nPoints")
		var px, py float64
		for i := 0; i < nPts; i++ {
			x, y := coord(xc, "x"), coord(yc, "y")
			switch {
			case i == 0:
				cmds = append(cmds, mcmd{op: 'M', p: [3][2]float64{{x, y}}})
			case kind != "glyf" && curves != "none" && rapid.Bool().Draw(t, "isCurve"):
				var c1x, c1y, c2x, c2y float64
				if curves == "inside" {
					// control points inside the box of the end points: the
					// curve cannot leave that box
					pick := func(a, b float64, label string) float64 {
						lo, hi := math.Min(a, b), math.Max(a, b)
						return lo + math.Round((hi-lo)*rapid.Float64Range(0, 1).Draw(t, label)*4)/4
					}
					c1x, c1y = pick(px, x, "c1x"), pick(py, y, "c1y")
					c2x, c2y = pick(px, x, "c2x"), pick(py, y, "c2y")
					if !frac {
						c1x, c1y, c2x, c2y = math.Round(c1x), math.Round(c1y), math.Round(c2x), math.Round(c2y)
					}
				} else {
					c1x, c1y = coord(xc, "c1x"), coord(yc, "c1y")
					c2x, c2y = coord(xc, "c2x"), coord(yc, "c2y")
				}
				cmds = append(cmds, mcmd{op: 'C', p: [3][2]float64{{c1x, c1y}, {c2x, c2y}, {x, y}}})
			default:
				cmds = append(cmds, mcmd{op: 'L', p: [3][2]float64{{x, y}}})
			}
			on = append(on, i == 0 || rapid.IntRange(0, 3).Draw(t, "onCurve") != 0)
			px, py = x, y
		}
	}
	return cmds, on
}

func genWidthsInt(t *rapid.T, n, lim int) ([]int, string) {
	w0 := rapid.OneOf(rapid.IntRange(1, 2000), rapid.SampledFrom([]int{1, 500, 1000, lim - 1, lim})).Draw(t, "w0")
	class := rapid.SampledFrom([]string{"fixed", "fixed+zeros", "almost-fixed", "random", "random", "pool", "tail", "with-extreme", "all-zero"}).Draw(t, "widthClass")
	if class == "all-zero" && rapid.IntRange(0, 2).Draw(t, "keepAllZero") != 0 {
		class = "random"
	}
	w := make([]int, n)
	switch class {
	case "fixed":
		for i := range w {
			w[i] = w0
		}
	case "fixed+zeros":
		for i := range w {
			if rapid.IntRange(0, 2).Draw(t, "isZero") != 0 {
				w[i] = w0
			}
		}
	case "almost-fixed":
		for i := range w {
			w[i] = w0
		}
		d := rapid.SampledFrom([]int{-1, 1}).Draw(t, "d")
		if w0+d >= 0 && w0+d <= lim {
			w[rapid.IntRange(0, n-1).Draw(t, "odd")] = w0 + d
		}
	case "pool":
		pool := []int{0, w0, w0 / 2}
		for i := range w {
			w[i] = rapid.SampledFrom(pool).Draw(t, "w")
		}
	case "tail":
		p := rapid.IntRange(0, n).Draw(t, "prefix")
		for i := range w {
			w[i] = w0
			if i < p {
				w[i] = rapid.IntRange(0, 2000).Draw(t, "w")
			}
		}
	case "with-extreme":
		for i := range w {
			w[i] = rapid.SampledFrom([]int{0, 1, w0, lim, lim - 1}).Draw(t, "w")
		}
	case "all-zero":
	default:
		for i := range w {
			w[i] = rapid.IntRange(0, 2000).Draw(t, "w")
		}
	}
	return w, class
}

func genFontTime(t *rapid.T, label string) time.Time {
	lo := epoch1904 + 1
	hi := time.Date(2200, 1, 1, 0, 0, 0, 0, time.UTC).Unix()
	return time.Unix(rapid.Int64Range(lo, hi).Draw(t, label), 0).UTC()
}

func genFont(t *rapid.T) *fontCase {
	fc := &fontCase{}
	fc.kind = rapid.SampledFrom([]string{"glyf", "glyf", "cff", "cff", "cid"}).Draw(t, "kind")
	var n int
	switch rapid.IntRange(0, 19).Draw(t, "nClass") {
	case 0, 1, 2, 3, 4, 5, 6, 7, 8, 9:
		n = rapid.IntRange(2, 8).Draw(t, "n")
	case 10, 11, 12, 13, 14, 15, 16:
		n = rapid.IntRange(9, 40).Draw(t, "n")
	case 17, 18:
		n = rapid.IntRange(41, 300).Draw(t, "n")
	default:
		n = 1
	}
	fc.upem = rapid.OneOf(rapid.SampledFrom([]uint16{1000, 1000, 2048, 16, 16384, 64, 1024}), rapid.Uint16Range(16, 16384)).Draw(t, "upem")
	q := 1 / float64(fc.upem)
	fc.fm = matrix.Matrix{q, 0, 0, q, 0, 0}
	nfd := 1
	if fc.kind != "glyf" {
		switch rapid.IntRange(0, 7).Draw(t, "fmClass") {
		case 6: // slightly rotated
			fc.fm[1] = q * 0.1
		case 7: // rotated and sheared: GlyphWidthPDF applies a correction term
			// that WidthsPDF does not have; that pair is not compared then
			fc.fm[1] = q * 0.1
			fc.fm[2] = q * 0.2
		case 0: // oblique: sheared
			fc.fm[2] = q * rapid.SampledFrom([]float64{0.2, -0.2, 0.5}).Draw(t, "shear")
		case 1: // anisotropic
			fc.fm[0] = q * rapid.SampledFrom([]float64{0.5, 0.8, 1.25}).Draw(t, "xScale")
		case 2: // translated
			fc.fm[4] = rapid.SampledFrom([]float64{0.01, -0.02}).Draw(t, "dx")
			fc.fm[5] = rapid.SampledFrom([]float64{0.015, -0.01}).Draw(t, "dy")
		}
	}
	if fc.kind == "cid" {
		nfd = rapid.IntRange(1, 3).Draw(t, "nfd")
		fdClass := rapid.SampledFrom([]string{"identity", "identity", "scale-in-fd", "mixed"}).Draw(t, "fdClass")
		for i := 0; i < nfd; i++ {
			m := matrix.Identity
			switch fdClass {
			case "scale-in-fd": // the usual layout of CID-keyed CFF: top dict identity, font dicts 0.001
				m = matrix.Matrix{q, 0, 0, q, 0, 0}
			case "mixed":
				s := rapid.SampledFrom([]float64{1, 2, 0.5}).Draw(t, "fdScale")
				m = matrix.Matrix{s, 0, 0, s, 0, 0}
			}
			fc.fdm = append(fc.fdm, m)
		}
		if fdClass == "scale-in-fd" {
			fc.fm = matrix.Identity
		}
	}

	fc.fracWidth = fc.kind != "glyf" && rapid.IntRange(0, 7).Draw(t, "fracWidths") == 5
	fracCoord := fc.kind != "glyf" && rapid.IntRange(0, 3).Draw(t, "fracCoords") == 2
	fc.curves = "none"
	if fc.kind != "glyf" {
		fc.curves = rapid.SampledFrom([]string{"none", "inside", "inside", "bulging"}).Draw(t, "curves")
		if fc.curves != "none" && stats.IsListed(prop, keyCurveBox) {
			// known finding: keep every curve extremum at a node, in design
			// space and under the font matrix (a shear moves extrema)
			if fc.curves == "bulging" {
				stats.Excluded(keyCurveBox)
				fc.curves = "inside"
			}
			if fc.fm[1] != 0 || fc.fm[2] != 0 {
				stats.Excluded(keyCurveBox)
				fc.curves = "none"
			}
		}
	}
	lim := 32767
	if fc.kind != "glyf" {
		lim = 32000
	}
	xc, yc := genCoordClass(t, "xClass", lim), genCoordClass(t, "yClass", lim)
	emptyPct := rapid.SampledFrom([]int{25, 0, 25, 10, 60, 25, 0, 100}).Draw(t, "emptyPct")
	widths, _ := genWidthsInt(t, n, lim)
	for i := 0; i < n; i++ {
		g := &mglyph{width: float64(widths[i])}
		if fc.fracWidth && widths[i] < 31000 {
			g.width += rapid.SampledFrom([]float64{0, 0, 0.25, 0.4, 0.5, 0.75}).Draw(t, "wFrac")
		}
		if rapid.IntRange(0, 99).Draw(t, "isEmpty") >= emptyPct {
			g.cmds, g.on = genOutline(t, fc.kind, xc, yc, fc.curves, fracCoord)
		}
		if nfd > 1 {
			g.fd = rapid.IntRange(0, nfd-1).Draw(t, "fd")
		}
		fc.glyphs = append(fc.glyphs, g)
	}

	// character map: codes -> gid in 1..n-1
	fc.codes = map[uint32]int{}
	fc.cmapClass = rapid.SampledFrom([]string{"f4", "f12", "f4", "none", "f4", "f12", "f12-bmp", "f4-win-only", "f4-uni-only"}).Draw(t, "cmapClass")
	if fc.cmapClass != "none" && n > 1 {
		nCodes := rapid.SampledFrom([]int{3, 1, 2, 5, 8, 12, 0}).Draw(t, "nCodes")
		bmp := rapid.OneOf(rapid.Uint32Range(0x20, 0x7E), rapid.Uint32Range(0, 0xFFFF),
			rapid.SampledFrom([]uint32{0, 1, 0x20, 0x41, 0xD7FF, 0xE000, 0xFFFD, 0xFFFE, 0xFFFF}))
		sup := rapid.OneOf(rapid.Uint32Range(0x10000, 0x10FFFF), rapid.SampledFrom([]uint32{0x10000, 0x1F600, 0x10FFFF}))
		for i := 0; i < nCodes; i++ {
			g := bmp
			if fc.cmapClass == "f12" && (i == 0 || rapid.Bool().Draw(t, "isSup")) {
				g = sup
			}
			fc.codes[g.Draw(t, "code")] = rapid.IntRange(1, n-1).Draw(t, "gid")
		}
	}

	fc.build(t)
	return fc
}

// encodeSimpleGlyph produces the body of a TrueType simple glyph (what
// follows the 10-byte header) from integer points, following the "glyf"
// chapter: endPtsOfContours, instructionLength, flags, x and y deltas.
func encodeSimpleGlyph(g *mglyph) (body []byte, nContours, nPoints int) {
	var ends []int
	for i, c := range g.cmds {
		if c.op == 'M' && i > 0 {
			ends = append(ends, i-1)
		}
	}
	ends = append(ends, len(g.cmds)-1)
	for _, e := range ends {
		body = append(body, byte(e>>8), byte(e))
	}
	body = append(body, 0, 0) // no instructions
	var flags, xs, ys []byte
	px, py := 0, 0
	for i, c := range g.cmds {
		x, y := int(c.p[0][0]), int(c.p[0][1])
		var fl byte
		if g.on[i] {
			fl |= 0x01
		}
		put := func(d int, short, same byte, out *[]byte) {
			switch {
			case d == 0:
				fl |= same
			case d > 0 && d < 256:
				fl |= short | same
				*out = append(*out, byte(d))
			case d < 0 && d > -256:
				fl |= short
				*out = append(*out, byte(-d))
			default:
				*out = append(*out, byte(uint16(int16(d))>>8), byte(d))
			}
		}
		put(x-px, 0x02, 0x10, &xs)
		put(y-py, 0x04, 0x20, &ys)
		flags = append(flags, fl)
		px, py = x, y
	}
	body = append(body, flags...)
	body = append(body, xs...)
	body = append(body, ys...)
	return body, len(ends), len(g.cmds)
}

func (fc *fontCase) build(t *rapid.T) {
	n := len(fc.glyphs)
	fi := func(g *rapid.Generator[int16], l string) funit.Int16 { return funit.Int16(g.Draw(t, l)) }
	typical := rapid.OneOf(rapid.Int16Range(-1000, 2000), genI16())
	f := &sfnt.Font{
		FamilyName: "Test",
		Width:      os2.Width(rapid.Uint16Range(1, 9).Draw(t, "osWidth")),
		Weight:     os2.Weight(rapid.SampledFrom([]uint16{100, 250, 400, 700, 900, 1000}).Draw(t, "osWeight")),
		IsRegular:  rapid.Bool().Draw(t, "isRegular"),

		CodePageRange: os2.CodePageRange(rapid.OneOf(rapid.Uint64(), rapid.SampledFrom([]uint64{0, 1, math.MaxUint64})).Draw(t, "cpr")),
		PermUse:       rapid.SampledFrom([]os2.Permissions{os2.PermInstall, os2.PermEdit, os2.PermView, os2.PermRestricted}).Draw(t, "perm"),
		Version:       0x00010000,

		UnitsPerEm: fc.upem,
		FontMatrix: fc.fm,

		Ascent:    fi(typical, "ascent"),
		Descent:   fi(typical, "descent"),
		LineGap:   fi(typical, "lineGap"),
		CapHeight: fi(rapid.Int16Range(0, 2000), "capHeight"),
		XHeight:   fi(rapid.Int16Range(0, 2000), "xHeight"),
	}
	switch rapid.IntRange(0, 3).Draw(t, "timeClass") {
	case 0:
		f.CreationTime = genFontTime(t, "created")
	case 1:
		f.ModificationTime = genFontTime(t, "modified")
	default:
		f.CreationTime = genFontTime(t, "created")
		f.ModificationTime = genFontTime(t, "modified")
	}
	switch rapid.IntRange(0, 3).Draw(t, "italicClass") {
	case 0, 1:
	case 2:
		f.ItalicAngle = float64(rapid.Int32Range(-60*65536, 60*65536).Draw(t, "italicFix")) / 65536
	default:
		f.ItalicAngle = rapid.Float64Range(-89, 89).Draw(t, "italic")
	}
	ul := rapid.OneOf(
		rapid.Float64Range(-500, 500),
		rapid.Custom(func(t *rapid.T) float64 { return float64(rapid.IntRange(-2000, 2000).Draw(t, "k")) / 4 }),
	)
	f.UnderlinePosition = funit.Float64(ul.Draw(t, "ulPos"))
	f.UnderlineThickness = funit.Float64(math.Abs(ul.Draw(t, "ulThick")))

	switch fc.kind {
	case "glyf":
		o := &glyf.Outlines{Widths: make([]funit.Int16, n), Maxp: &maxp.TTFInfo{MaxZones: 2}}
		for i, g := range fc.glyphs {
			o.Widths[i] = funit.Int16(g.width)
			if !g.hasOutline() {
				o.Glyphs = append(o.Glyphs, nil)
				continue
			}
			body, nc, np := encodeSimpleGlyph(g)
			b := g.designBox(false)
			o.Glyphs = append(o.Glyphs, &glyf.Glyph{
				Rect16: funit.Rect16{LLx: funit.Int16(b.llx), LLy: funit.Int16(b.lly), URx: funit.Int16(b.urx), URy: funit.Int16(b.ury)},
				Data:   glyf.SimpleGlyph{NumContours: int16(nc), Encoded: body},
			})
			o.Maxp.MaxPoints = max(o.Maxp.MaxPoints, uint16(np))
			o.Maxp.MaxContours = max(o.Maxp.MaxContours, uint16(nc))
		}
		f.Outlines = o
	default:
		o := &cff.Outlines{}
		for i, g := range fc.glyphs {
			name := fmt.Sprintf("g%d", i)
			if i == 0 {
				name = ".notdef"
			}
			if fc.kind == "cid" {
				name = ""
			}
			cg := cff.NewGlyph(name, g.width)
			for _, c := range g.cmds {
				switch c.op {
				case 'M':
					cg.MoveTo(c.p[0][0], c.p[0][1])
				case 'L':
					cg.LineTo(c.p[0][0], c.p[0][1])
				case 'C':
					cg.CurveTo(c.p[0][0], c.p[0][1], c.p[1][0], c.p[1][1], c.p[2][0], c.p[2][1])
				}
			}
			o.Glyphs = append(o.Glyphs, cg)
		}
		nfd := max(1, len(fc.fdm))
		for i := 0; i < nfd; i++ {
			o.Private = append(o.Private, &type1.PrivateDict{BlueValues: []funit.Int16{-10, 0, 700, 710}, BlueScale: 0.039625, BlueShift: 7, BlueFuzz: 1})
		}
		if fc.kind == "cid" {
			fds := make([]int, n)
			for i, g := range fc.glyphs {
				fds[i] = g.fd
			}
			o.FDSelect = func(gid glyph.ID) int { return fds[gid] }
			o.ROS = &cid.SystemInfo{Registry: "Adobe", Ordering: "Identity", Supplement: 0}
			o.GIDToCID = make([]cid.CID, n)
			for i := range o.GIDToCID {
				o.GIDToCID[i] = cid.CID(i)
			}
			o.FontMatrices = fc.fdm
		} else {
			o.FDSelect = func(glyph.ID) int { return 0 }
			o.Encoding = make([]glyph.ID, 256)
		}
		f.Outlines = o
	}

	if fc.cmapClass != "none" {
		var sub cmap.Subtable
		if strings.HasPrefix(fc.cmapClass, "f12") {
			m := cmap.Format12{}
			for c, g := range fc.codes {
				m[c] = glyph.ID(g)
			}
			sub = m
		} else {
			m := cmap.Format4{}
			for c, g := range fc.codes {
				m[uint16(c)] = glyph.ID(g)
			}
			sub = m
		}
		switch fc.cmapClass {
		case "f4-win-only":
			f.CMapTable = cmap.Table{{PlatformID: 3, EncodingID: 1}: sub.Encode(0)}
		case "f4-uni-only":
			f.CMapTable = cmap.Table{{PlatformID: 0, EncodingID: 3}: sub.Encode(0)}
		default:
			f.InstallCMap(sub)
		}
	}
	fc.font = f
	fc.desc = fc.String()
}

// ---------------------------------------------------------------------------
// the check

const (
	keyCurveBox = "cff-glyph-box-ignores-curve-extrema"
)

func TestC12Font(t *testing.T) {
	rapid.Check(t, func(t *rapid.T) {
		fc := genFont(t)
		checkFont(t, fc)
	})
}

func near(a, b float64) bool {
	return math.Abs(a-b) <= 1e-9*(1+math.Max(math.Abs(a), math.Abs(b)))
}

func nearRect(a, b rect.Rect) bool {
	return near(a.LLx, b.LLx) && near(a.LLy, b.LLy) && near(a.URx, b.URx) && near(a.URy, b.URy)
}

type fataler interface {
	Fatalf(format string, args ...any)
}

func checkFont(t fataler, fc *fontCase) {
	var labels []string
	add := func(s string) { labels = append(labels, s) }
	f := fc.font
	n := len(fc.glyphs)
	fail := func(format string, args ...any) {
		t.Fatalf("%s\ncase: %s", fmt.Sprintf(format, args...), fc.desc)
	}

	// ---- the model's view ------------------------------------------------
	tight := fc.kind != "glyf"
	boxes := make([]box4, n)
	var fontBox box4
	firstBox := true
	nonEmpty, bulging := 0, 0
	for i, g := range fc.glyphs {
		boxes[i] = g.designBox(tight)
		if g.hasOutline() && boxes[i].isZero() {
			add("outline-with-zero-box")
		}
		if boxes[i].isZero() {
			continue // "non-empty glyph boxes"
		}
		nonEmpty++
		fontBox.extend(boxes[i], firstBox)
		firstBox = false
		if tight && g.curveBulges(matrix.Identity) {
			bulging++
		}
	}

	// ---- query methods on the font value ---------------------------------
	checkQueries(t, fc, f, "built", boxes, fontBox, &labels)

	// ---- written file -----------------------------------------------------
	buf := &bytes.Buffer{}
	var werr error
	if pn := guard.Try(func() { _, werr = f.Write(buf) }); pn != nil {
		fail("Write: %s", pn)
	}
	if werr != nil {
		fail("Write: %v", werr)
	}
	data := buf.Bytes()
	if !fc.fracWidth {
		checkWritten(t, fc, data, boxes, fontBox, nonEmpty, &labels)

		// the font read back answers the same queries the same way
		var back *sfnt.Font
		var rerr error
		if pn := guard.Try(func() { back, rerr = sfnt.Read(bytes.NewReader(data)) }); pn != nil {
			fail("Read of the written font: %s", pn)
		}
		emptyGlyf := fc.kind == "glyf" && !fc.anyOutline()
		if rerr != nil && emptyGlyf {
			// a zero-length glyf table: whether such a file is readable is
			// the business of C01/C03, not of the metrics property
			add("empty-glyf-table:reread-skipped")
			rerr, back = nil, nil
		}
		if rerr != nil {
			fail("Read of the written font: %v", rerr)
		}
		if back != nil {
			if back.NumGlyphs() != n {
				fail("re-read font has %d glyphs, want %d", back.NumGlyphs(), n)
			}
			// the queries of the re-read font are judged against its own
			// matrices (CFF stores them as decimal reals; their precision is
			// the subject of C13, glyf fonts get 1/unitsPerEm)
			fcBack := *fc
			fcBack.font = back
			fcBack.fm = back.FontMatrix
			if o, ok := back.Outlines.(*cff.Outlines); ok && fc.kind == "cid" {
				if len(o.FontMatrices) != len(fc.fdm) {
					fail("re-read font has %d font dict matrices, want %d", len(o.FontMatrices), len(fc.fdm))
				}
				fcBack.fdm = o.FontMatrices
				for i, g := range fc.glyphs {
					if got := o.FDSelect(glyph.ID(i)); got != g.fd {
						fail("re-read font: FDSelect(%d) = %d, want %d", i, got, g.fd)
					}
				}
			}
			checkQueries(t, &fcBack, back, "re-read", boxes, fontBox, &labels)
		}
	} else {
		add("fractional-widths:queries-only")
	}

	// ---- evidence ----------------------------------------------------------
	wTail := 1
	for wTail < n && fc.glyphs[n-1-wTail].width == fc.glyphs[n-1].width {
		wTail++
	}
	lim := 32767
	if fc.kind != "glyf" {
		lim = 32000
	}
	extreme := fontBox.urx == lim || fontBox.ury == lim || fontBox.llx == -lim || fontBox.lly == -lim
	for _, g := range fc.glyphs {
		if g.width == float64(lim) {
			extreme = true
		}
	}
	nt := (wTail >= 2 && wTail < n) || extreme
	add("kind:" + fc.kind)
	add("cmap:" + fc.cmapClass)
	add("curves:" + fc.curves)
	add(lbl(n == 1, "n=1"))
	add(lbl(n > 40, "n>40"))
	add(lbl(nonEmpty == 0, "no-glyph-with-outline"))
	add(lbl(nonEmpty > 0 && nonEmpty < n, "some-empty-glyphs"))
	add(lbl(bulging > 0, "curve-extremum-not-at-node"))
	add(lbl(extreme, "extreme-field"))
	add(lbl(wTail >= 2 && wTail < n, "tail:2..n-1"))
	seen := map[string]bool{}
	uniq := labels[:0]
	for _, l := range labels { // per-glyph labels count once per case
		if l != "" && !seen[l] {
			seen[l] = true
			uniq = append(uniq, l)
		}
	}
	stats.CaseIn("font", stats.Hash(data), nt, func() string { return fc.desc }, uniq...)
}

// modelFixedPitch: all non-zero widths agree.  For fractional widths the
// documentation ("the same width") and the 0.5 tolerance leave a gap in
// which both answers are accepted (return value "either").
func modelFixedPitch(widths []float64) (fixed, either bool) {
	lo, hi := math.Inf(1), math.Inf(-1)
	for _, w := range widths {
		if w != 0 {
			lo, hi = math.Min(lo, w), math.Max(hi, w)
		}
	}
	if math.IsInf(lo, 1) || hi == lo {
		return true, false
	}
	if hi-lo >= 1 {
		return false, false
	}
	return false, true
}

func checkQueries(t fataler, fc *fontCase, f *sfnt.Font, which string, boxes []box4, fontBox box4, labels *[]string) {
	n := len(fc.glyphs)
	fail := func(format string, args ...any) {
		t.Fatalf("[%s font] %s\ncase: %s", which, fmt.Sprintf(format, args...), fc.desc)
	}
	var (
		widths, widthsPDF []float64
		gboxes            []funit.Rect16
		fbox              funit.Rect16
		fboxPDF           rect.Rect
		isFixed           bool
	)
	if pn := guard.Try(func() {
		widths, widthsPDF = f.Widths(), f.WidthsPDF()
		gboxes = f.GlyphBBoxes()
		fbox, fboxPDF = f.FontBBox(), f.FontBBoxPDF()
		isFixed = f.IsFixedPitch()
	}); pn != nil {
		fail("query methods: %s", pn)
	}
	if f.NumGlyphs() != n || len(widths) != n || len(widthsPDF) != n || len(gboxes) != n {
		fail("NumGlyphs=%d len(Widths)=%d len(WidthsPDF)=%d len(GlyphBBoxes)=%d, want %d", f.NumGlyphs(), len(widths), len(widthsPDF), len(gboxes), n)
	}
	modelW := make([]float64, n)
	var unionPDF rect.Rect
	firstPDF := true
	extraUnion := make([]rect.Rect, len(extraBoxMatrices))
	extraSeen := make([]bool, len(extraBoxMatrices))
	for i, g := range fc.glyphs {
		gid := glyph.ID(i)
		modelW[i] = g.width
		M := fc.fullMatrix(i)

		// widths
		if widths[i] != g.width {
			fail("Widths()[%d] = %v, want %v", i, widths[i], g.width)
		}
		var gw, gwPDF float64
		var gb funit.Rect16
		var gbPDF rect.Rect
		if pn := guard.Try(func() {
			gw, gwPDF = f.GlyphWidth(gid), f.GlyphWidthPDF(gid)
			gb = f.GlyphBBox(gid)
			gbPDF = f.Outlines.GlyphBBoxPDF(f.FontMatrix, gid)
		}); pn != nil {
			fail("per-glyph queries for gid %d: %s", i, pn)
		}
		if gw != g.width {
			fail("GlyphWidth(%d) = %v, want %v", i, gw, g.width)
		}
		// text space: the horizontal displacement (w, 0) maps to w*M[0]
		wantText := g.width * M[0]
		if !near(widthsPDF[i], wantText) {
			fail("WidthsPDF()[%d] = %v, want %v = width %v x matrix entry %v (text space units)", i, widthsPDF[i], wantText, g.width, M[0])
		}
		if M[1] != 0 && M[2] != 0 {
			*labels = append(*labels, "rotated+sheared:GlyphWidthPDF-skipped")
		} else if !near(gwPDF, 1000*wantText) {
			fail("GlyphWidthPDF(%d) = %v, want %v = 1000 x WidthsPDF()[%d] (%v)", i, gwPDF, 1000*wantText, i, widthsPDF[i])
		}

		// boxes in design units
		want := boxes[i]
		if got := (box4{int(gb.LLx), int(gb.LLy), int(gb.URx), int(gb.URy)}); got != want {
			fail("GlyphBBox(%d) = %v, the outline's box is %v", i, got, want)
		}
		if gboxes[i] != gb {
			fail("GlyphBBoxes()[%d] = %v but GlyphBBox(%d) = %v", i, gboxes[i], i, gb)
		}
		// boxes in PDF glyph space: the outline under M x 1000
		M1000 := M.Mul(matrix.Scale(1000, 1000))
		var wantPDF rect.Rect
		if fc.kind == "glyf" {
			// TrueType: the box stored with the glyph, all four corners mapped
			if !want.isZero() {
				corner := &mglyph{cmds: []mcmd{
					{op: 'M', p: [3][2]float64{{float64(want.llx), float64(want.lly)}}},
					{op: 'L', p: [3][2]float64{{float64(want.urx), float64(want.lly)}}},
					{op: 'L', p: [3][2]float64{{float64(want.urx), float64(want.ury)}}},
					{op: 'L', p: [3][2]float64{{float64(want.llx), float64(want.ury)}}},
				}}
				wantPDF, _ = corner.bounds(M1000, false)
				// the font matrix is an argument of this query: matrices that
				// turn or shear the box (where the extreme of an output
				// coordinate comes from the lower-right or upper-left corner)
				for k, X := range extraBoxMatrices {
					var gotX rect.Rect
					if pn := guard.Try(func() { gotX = f.Outlines.GlyphBBoxPDF(X, gid) }); pn != nil {
						fail("GlyphBBoxPDF(%v, %d): %s", X, i, pn)
					}
					wantX, _ := corner.bounds(X.Mul(matrix.Scale(1000, 1000)), false)
					if !nearRect(gotX, wantX) {
						fail("Outlines.GlyphBBoxPDF(%v, %d) = %v, the glyph box %v under that matrix x 1000 has the bounds %v", X, i, gotX, want, wantX)
					}
					if !extraSeen[k] {
						extraUnion[k], extraSeen[k] = wantX, true
					} else {
						u := &extraUnion[k]
						u.LLx, u.LLy = math.Min(u.LLx, wantX.LLx), math.Min(u.LLy, wantX.LLy)
						u.URx, u.URy = math.Max(u.URx, wantX.URx), math.Max(u.URy, wantX.URy)
					}
				}
			}
		} else {
			wantPDF, _ = g.bounds(M1000, true)
		}
		if !nearRect(gbPDF, wantPDF) {
			fail("GlyphBBoxPDF(%d) = %v, the outline under the font matrix x 1000 has the box %v", i, gbPDF, wantPDF)
		}
		if !wantPDF.IsZero() {
			if firstPDF {
				unionPDF = wantPDF
				firstPDF = false
			} else {
				unionPDF.LLx, unionPDF.LLy = math.Min(unionPDF.LLx, wantPDF.LLx), math.Min(unionPDF.LLy, wantPDF.LLy)
				unionPDF.URx, unionPDF.URy = math.Max(unionPDF.URx, wantPDF.URx), math.Max(unionPDF.URy, wantPDF.URy)
			}
		}
	}
	if got := (box4{int(fbox.LLx), int(fbox.LLy), int(fbox.URx), int(fbox.URy)}); got != fontBox {
		fail("FontBBox() = %v, the union of the non-empty glyph boxes is %v", got, fontBox)
	}
	if !nearRect(fboxPDF, unionPDF) {
		fail("FontBBoxPDF() = %v, the union of the glyph boxes is %v", fboxPDF, unionPDF)
	}
	if co, ok := f.Outlines.(*cff.Outlines); ok {
		// the outlines' own font box query
		var ob funit.Rect16
		if pn := guard.Try(func() { ob = co.BBox() }); pn != nil {
			fail("cff.Outlines.BBox panicked: %s", pn)
		}
		if got := (box4{int(ob.LLx), int(ob.LLy), int(ob.URx), int(ob.URy)}); got != fontBox {
			fail("cff.Outlines.BBox() = %v, the union of the non-empty glyph boxes is %v", got, fontBox)
		}
	}
	if fc.kind == "glyf" {
		// the font matrix of a TrueType font is the caller's to set (synthetic
		// oblique, rotation): the font box is the union of the glyph boxes
		// under that matrix, which is not the font box under that matrix
		for k, X := range extraBoxMatrices {
			if !extraSeen[k] {
				continue
			}
			f2 := f.Clone()
			f2.FontMatrix = X
			var gotF rect.Rect
			if pn := guard.Try(func() { gotF = f2.FontBBoxPDF() }); pn != nil {
				fail("FontBBoxPDF with FontMatrix %v: %s", X, pn)
			}
			if !nearRect(gotF, extraUnion[k]) {
				fail("FontBBoxPDF() with FontMatrix %v = %v, the union of the glyph boxes under that matrix x 1000 is %v", X, gotF, extraUnion[k])
			}
		}
	}
	wantFixed, either := modelFixedPitch(modelW)
	if either {
		*labels = append(*labels, "fixed-pitch-undetermined")
	} else if isFixed != wantFixed {
		fail("IsFixedPitch() = %v, want %v (widths %v)", isFixed, wantFixed, modelW)
	}
	if which == "built" {
		*labels = append(*labels, lbl(wantFixed, "fixed-pitch"), lbl(!wantFixed && !either, "proportional"))
	}
}

// extraBoxMatrices: rotation by 30 degrees, slant to the left, vertical shear
// with a negative entry, a general matrix with mixed signs, a mirror image.
var extraBoxMatrices = []matrix.Matrix{
	{0.000866, 0.0005, -0.0005, 0.000866, 0, 0},
	{0.001, 0, -0.0003, 0.001, 0, 0},
	{0.001, -0.0002, 0, 0.001, 0, 0},
	{0.0008, -0.0006, 0.0006, 0.0008, 0, 0},
	{-0.001, 0, 0.0004, 0.001, 0, 0},
}

// checkWritten walks the file and recomputes the derived fields.
func checkWritten(t fataler, fc *fontCase, data []byte, boxes []box4, fontBox box4, nonEmpty int, labels *[]string) {
	n := len(fc.glyphs)
	f := fc.font
	add := func(s string) { *labels = append(*labels, s) }
	fail := func(format string, args ...any) {
		t.Fatalf("[written file] %s\ncase: %s", fmt.Sprintf(format, args...), fc.desc)
	}
	sf, err := walkSfnt(data)
	if err != nil {
		fail("%v", err)
	}
	need := func(tag string, minLen int) []byte {
		b := sf.tables[tag]
		if len(b) < minLen {
			fail("table %q has %d bytes, need %d", tag, len(b), minLen)
		}
		return b
	}
	hhea, head, maxpT, os2T, post := need("hhea", 36), need("head", 54), need("maxp", 6), need("OS/2", 78), need("post", 32)
	hm := sf.tables["hmtx"]

	// maxp, head
	if got := int(u16(maxpT, 4)); got != n {
		fail("maxp.numGlyphs = %d, want %d", got, n)
	}
	if o, ok := f.Outlines.(*glyf.Outlines); ok {
		if len(maxpT) != 32 || u32(maxpT, 0) != 0x00010000 || u16(maxpT, 6) != o.Maxp.MaxPoints || u16(maxpT, 8) != o.Maxp.MaxContours || u16(maxpT, 14) != o.Maxp.MaxZones {
			fail("maxp % x does not carry the TrueType maxima %+v", maxpT, *o.Maxp)
		}
	} else if len(maxpT) != 6 || u32(maxpT, 0) != 0x00005000 {
		fail("maxp % x: want version 0.5 for CFF outlines", maxpT)
	}
	if got := u16(head, 18); got != fc.upem {
		fail("head.unitsPerEm = %d, want %d", got, fc.upem)
	}
	for _, tc := range []struct {
		name string
		off  int
		in   time.Time
	}{{"created", 20, f.CreationTime}, {"modified", 28, f.ModificationTime}} {
		var want int64
		if !tc.in.IsZero() {
			want = tc.in.Unix() - epoch1904
		}
		if got := i64(head, tc.off); got != want {
			fail("head.%s = %d, want %d", tc.name, got, want)
		}
	}
	headBox := box4{int(i16(head, 36)), int(i16(head, 38)), int(i16(head, 40)), int(i16(head, 42))}
	if headBox != fontBox {
		fail("head bounding box %v, the union of the non-empty glyph boxes is %v", headBox, fontBox)
	}

	// hmtx: every advance and bearing, numberOfHMetrics minimal
	wInt := make([]int, n)
	for i, g := range fc.glyphs {
		wInt[i] = int(g.width)
	}
	tail := 1
	for tail < n && wInt[n-1-tail] == wInt[n-1] {
		tail++
	}
	numLong := int(u16(hhea, 34))
	if numLong != n-tail+1 {
		fail("numberOfHMetrics = %d, want %d", numLong, n-tail+1)
	}
	if len(hm) != 4*numLong+2*(n-numLong) {
		fail("hmtx has %d bytes, want %d", len(hm), 4*numLong+2*(n-numLong))
	}
	fw := make([]funit.Int16, n)
	fb := make([]funit.Rect16, n)
	for i := 0; i < n; i++ {
		var aw, l int
		if i < numLong {
			aw, l = int(u16(hm, 4*i)), int(i16(hm, 4*i+2))
		} else {
			aw, l = int(u16(hm, 4*(numLong-1))), int(i16(hm, 4*numLong+2*(i-numLong)))
		}
		if aw != wInt[i] {
			fail("hmtx advance of gid %d = %d, want %d", i, aw, wInt[i])
		}
		if l != boxes[i].llx {
			fail("hmtx lsb of gid %d = %d, want xMin = %d", i, l, boxes[i].llx)
		}
		fw[i] = funit.Int16(wInt[i])
		b := boxes[i]
		fb[i] = funit.Rect16{LLx: funit.Int16(b.llx), LLy: funit.Int16(b.lly), URx: funit.Int16(b.urx), URy: funit.Int16(b.ury)}
	}
	// hhea aggregates
	d := deriveHhea(fw, nil, fb)
	if got := int(u16(hhea, 10)); got != d.advMax {
		fail("hhea.advanceWidthMax = %d, want %d", got, d.advMax)
	}
	if d.anyNonEmpty {
		if got := int(i16(hhea, 12)); got != d.minLSB {
			fail("hhea.minLeftSideBearing = %d, want %d", got, d.minLSB)
		}
		if d.okRSB {
			if got := int(i16(hhea, 14)); got != d.minRSB {
				fail("hhea.minRightSideBearing = %d, want %d", got, d.minRSB)
			}
		} else {
			add("rsb-not-int16")
		}
		if got := int(i16(hhea, 16)); got != d.maxExtent {
			fail("hhea.xMaxExtent = %d, want %d", got, d.maxExtent)
		}
	}
	if i16(hhea, 4) != int16(f.Ascent) || i16(hhea, 6) != int16(f.Descent) || i16(hhea, 8) != int16(f.LineGap) {
		fail("hhea ascender/descender/lineGap = %d/%d/%d", i16(hhea, 4), i16(hhea, 6), i16(hhea, 8))
	}
	rise, run := i16(hhea, 18), i16(hhea, 20)
	if dlt, tol, ok := caretOK(math.Atan2(float64(rise), float64(run))-math.Pi/2, f.ItalicAngle/180*math.Pi); !ok {
		fail("hhea caret slope %d/%d is %.3g rad (> %.3g) away from the italic angle %v deg", rise, run, dlt, tol, f.ItalicAngle)
	}

	// OS/2
	if i16(os2T, 68) != int16(f.Ascent) || i16(os2T, 70) != int16(f.Descent) || i16(os2T, 72) != int16(f.LineGap) {
		fail("OS/2 typo ascender/descender/lineGap = %d/%d/%d", i16(os2T, 68), i16(os2T, 70), i16(os2T, 72))
	}
	// xAvgCharWidth (OS/2 version >= 3): "the arithmetic average of the
	// escapement (width) of all non-zero width glyphs"; an integer field:
	// either neighbour of the exact mean is accepted
	sum, cnt := 0, 0
	for _, w := range wInt {
		if w != 0 {
			sum += w
			cnt++
		}
	}
	avg := int(i16(os2T, 2))
	if u16(os2T, 0) < 3 {
		fail("OS/2 version %d", u16(os2T, 0))
	}
	if cnt == 0 {
		if avg != 0 {
			fail("OS/2.xAvgCharWidth = %d for a font without non-zero widths", avg)
		}
	} else if avg*cnt > sum+cnt-1 || avg*cnt < sum-cnt+1 {
		fail("OS/2.xAvgCharWidth = %d, the mean of the %d non-zero widths is %d/%d = %.3f", avg, cnt, sum, cnt, float64(sum)/float64(cnt))
	}
	// first/last character from the character map
	gotFirst, gotLast := u16(os2T, 64), u16(os2T, 66)
	if cm, ok := sf.tables["cmap"]; ok {
		subs, err := cmapSubtables(cm)
		if err != nil {
			fail("%v", err)
		}
		sub, key, ok := bestCmap(subs)
		if !ok {
			fail("no usable cmap subtable among %v", subs)
		}
		low, high, count, err := cmapMapped(sub)
		if err != nil {
			fail("%v", err)
		}
		// the file's map must be the model's map (so that the range is the font's)
		mlow, mhigh := uint32(math.MaxUint32), uint32(0)
		for c := range fc.codes {
			mlow, mhigh = min(mlow, c), max(mhigh, c)
		}
		if count != len(fc.codes) || (count > 0 && (low != mlow || high != mhigh)) {
			fail("cmap subtable %v maps %d codes in [%#x, %#x], the font has %d codes in [%#x, %#x]", key, count, low, high, len(fc.codes), mlow, mhigh)
		}
		if count == 0 {
			add("cmap-empty:first/last-skipped")
		} else {
			wantFirst, wantLast := uint16(min(low, 0xFFFF)), uint16(min(high, 0xFFFF))
			if gotFirst != wantFirst || gotLast != wantLast {
				fail("OS/2 usFirstCharIndex/usLastCharIndex = %#04x/%#04x, the cmap maps [%#x, %#x]: want %#04x/%#04x", gotFirst, gotLast, low, high, wantFirst, wantLast)
			}
			add(lbl(high > 0xFFFF, "last-char-clamped"))
			add(lbl(low > 0xFFFF, "first-char-clamped"))
		}
	} else {
		if fc.cmapClass != "none" {
			fail("no cmap table")
		}
		if gotFirst != 0 || gotLast != 0 {
			fail("OS/2 first/last char %#x/%#x without a cmap", gotFirst, gotLast)
		}
	}
	// usWinAscent = yMax, usWinDescent = -yMin; both fields are unsigned:
	// fonts whose box does not straddle the baseline are carved out
	if nonEmpty > 0 {
		if fontBox.ury >= 0 {
			if got := int(u16(os2T, 74)); got != fontBox.ury {
				fail("OS/2.usWinAscent = %d, want yMax = %d", got, fontBox.ury)
			}
		} else {
			add("yMax<0:winAscent-skipped")
		}
		if fontBox.lly <= 0 {
			if got := int(u16(os2T, 76)); got != -fontBox.lly {
				fail("OS/2.usWinDescent = %d, want -yMin = %d", got, -fontBox.lly)
			}
		} else {
			add("yMin>0:winDescent-skipped")
		}
	}
	if u16(os2T, 4) != uint16(f.Weight) || u16(os2T, 6) != uint16(f.Width) {
		fail("OS/2 weight/width class %d/%d", u16(os2T, 4), u16(os2T, 6))
	}
	wantType := map[os2.Permissions]uint16{os2.PermInstall: 0, os2.PermRestricted: 2, os2.PermView: 4, os2.PermEdit: 8}[f.PermUse]
	if u16(os2T, 8) != wantType {
		fail("OS/2.fsType = %#x, want %#x", u16(os2T, 8), wantType)
	}
	if len(os2T) < 86 || u32(os2T, 78) != uint32(f.CodePageRange) || u32(os2T, 82) != uint32(f.CodePageRange>>32) {
		fail("OS/2 code page ranges")
	}

	// post
	if dlt := math.Abs(float64(i32(post, 4))/65536 - f.ItalicAngle); dlt > (1.0/131072)*(1+1e-9) {
		fail("post.italicAngle = %v, want %v to 2^-16", float64(i32(post, 4))/65536, f.ItalicAngle)
	}
	if dlt := math.Abs(float64(i16(post, 8)) - float64(f.UnderlinePosition)); dlt > 0.5 {
		fail("post.underlinePosition = %d, want %v to the unit", i16(post, 8), f.UnderlinePosition)
	}
	if dlt := math.Abs(float64(i16(post, 10)) - float64(f.UnderlineThickness)); dlt > 0.5 {
		fail("post.underlineThickness = %d, want %v to the unit", i16(post, 10), f.UnderlineThickness)
	}
	distinct := map[int]bool{}
	for _, w := range wInt {
		if w != 0 {
			distinct[w] = true
		}
	}
	if got := u32(post, 12) != 0; got != (len(distinct) <= 1) {
		fail("post.isFixedPitch = %v with %d distinct non-zero advances", got, len(distinct))
	}

	// ---- second judge: golang.org/x/image/font/sfnt ------------------------
	xf, err := xsfnt.Parse(data)
	if err != nil {
		if strings.Contains(err.Error(), "unsupported") || (strings.Contains(err.Error(), "cmap") && len(fc.codes) == 0) ||
			(fc.kind == "glyf" && !fc.anyOutline()) {
			// x/image insists on a cmap table with a Unicode subtable it can use
			add("ximage-abstains")
			return
		}
		fail("x/image rejects the file: %v", err)
	}
	if xf.NumGlyphs() != n {
		fail("x/image sees %d glyphs, want %d", xf.NumGlyphs(), n)
	}
	var xb xsfnt.Buffer
	ppem := fixed.Int26_6(fc.upem) // scale factor 1: results are design units
	fits := func(v int) bool { return math.Abs(float64(v))*float64(fc.upem) < 1<<31-float64(fc.upem) }
	for i := 0; i < n; i++ {
		if !fits(wInt[i]) {
			add("ximage-overflow-skipped")
			continue
		}
		adv, err := xf.GlyphAdvance(&xb, xsfnt.GlyphIndex(i), ppem, xfont.HintingNone)
		if err != nil {
			fail("x/image GlyphAdvance(%d): %v", i, err)
		}
		if int(adv) != wInt[i] {
			fail("x/image GlyphAdvance(%d) = %d, want %d", i, adv, wInt[i])
		}
	}
	if fits(int(f.Ascent)) && fits(int(f.Descent)) && fits(int(f.Ascent)-int(f.Descent)+int(f.LineGap)) {
		m, err := xf.Metrics(&xb, ppem, xfont.HintingNone)
		if err != nil {
			fail("x/image Metrics: %v", err)
		}
		if int(m.Ascent) != int(f.Ascent) || int(m.Descent) != -int(f.Descent) || int(m.Height) != int(f.Ascent)-int(f.Descent)+int(f.LineGap) {
			fail("x/image Metrics ascent/descent/height = %d/%d/%d, font has ascent %d descent %d line gap %d", m.Ascent, m.Descent, m.Height, f.Ascent, f.Descent, f.LineGap)
		}
		if m.CaretSlope.X != int(run) || m.CaretSlope.Y != int(rise) {
			fail("x/image CaretSlope %v, hhea has rise %d run %d", m.CaretSlope, rise, run)
		}
		if f.XHeight > 0 && f.CapHeight > 0 && (int(m.XHeight) != int(f.XHeight) || int(m.CapHeight) != int(f.CapHeight)) {
			fail("x/image XHeight/CapHeight = %d/%d, want %d/%d", m.XHeight, m.CapHeight, f.XHeight, f.CapHeight)
		}
	} else {
		add("ximage-overflow-skipped")
	}
	if fits(fontBox.llx) && fits(fontBox.lly) && fits(fontBox.urx) && fits(fontBox.ury) {
		b, err := xf.Bounds(&xb, ppem, xfont.HintingNone)
		if err != nil {
			fail("x/image Bounds: %v", err)
		}
		if got := (box4{int(b.Min.X), -int(b.Max.Y), int(b.Max.X), -int(b.Min.Y)}); got != fontBox {
			fail("x/image Bounds %v, want %v", got, fontBox)
		}
	} else {
		add("ximage-overflow-skipped")
	}
	add("ximage-agreed")
}
