package c12

import (
	"math"
	"testing"
)

// TestC12CaretGapSelfTest pins the harness's own tolerance function on
// slopes whose Farey neighbours are known.
func TestC12CaretGapSelfTest(t *testing.T) {
	const N = 32767.0
	for _, c := range []struct{ x, lo, hi float64 }{
		{0.3 / N, 0, 1 / N},                         // next to the axis
		{1 - 0.3/N, (N - 1) / N, 1},                 // next to the diagonal
		{0.5 + 1e-9, 0.5, (N + 1) / 2 / (N)},        // just above 1/2: neighbour 16384/32767
		{1 / 3.0, 10922.0 / 32767, 10922.0 / 32765}, // 1/3 is irrational in binary: enclosed by its Farey neighbours
	} {
		// angle whose reduced slope is x: direction (run, rise) = (x, 1) -> angle = atan2(1, x) - pi/2
		angle := math.Atan2(1, c.x) - math.Pi/2
		got := caretGap(angle)
		want := math.Atan(c.hi) - math.Atan(c.lo)
		if c.x == 1/3.0 {
			// the neighbours of a value next to 1/3 are 1/3 itself and one of
			// (10922/32765, 10923/32768 is out of range -> 10922/32767); accept either side
			lo := math.Atan(1/3.0) - math.Atan(10922.0/32767)
			hi := math.Atan(10922.0/32765) - math.Atan(1/3.0)
			if math.Abs(got-lo) > 1e-15 && math.Abs(got-hi) > 1e-15 {
				t.Errorf("x=%v: gap %g, want %g or %g", c.x, got, lo, hi)
			}
			continue
		}
		if math.Abs(got-want) > 1e-15 {
			t.Errorf("x=%v: gap %g, want %g", c.x, got, want)
		}
	}
	// the gap is never larger than at the axis and never zero
	for i := 0; i <= 20000; i++ {
		a := -math.Pi + 2*math.Pi*float64(i)/20000
		g := caretGap(a)
		if !(g > 0) || g > math.Atan(1/N)*(1+1e-12) {
			t.Fatalf("angle %v: gap %g", a, g)
		}
	}
}
