package c12

import (
	"bytes"
	"fmt"
	"math"
	"testing"

	"pgregory.net/rapid"

	"seehuhn.de/go/postscript/funit"

	"seehuhn.de/go/sfnt/hmtx"
	"verif/harness/guard"
	"verif/harness/stats"
)

// tile draws min(n, maxDraw) elements and repeats them cyclically up to
// length n (large vectors stay cheap to draw and to shrink).
func tile[T any](t *rapid.T, n, maxDraw int, g *rapid.Generator[T], label string) []T {
	if n == 0 {
		return nil
	}
	m := n
	if m > maxDraw {
		m = rapid.IntRange(1, maxDraw).Draw(t, label+"PatLen")
	}
	pat := rapid.SliceOfN(g, m, m).Draw(t, label)
	res := make([]T, n)
	for i := range res {
		res[i] = pat[i%m]
	}
	return res
}

// genGlyphCount draws the number of glyphs, 1..65535.
func genGlyphCount(t *rapid.T) int {
	switch rapid.IntRange(0, 19).Draw(t, "nClass") {
	case 0, 1, 2, 3, 4, 5:
		return rapid.IntRange(1, 4).Draw(t, "n")
	case 6, 7, 8, 9, 10, 11, 12, 13, 14:
		return rapid.IntRange(5, 40).Draw(t, "n")
	case 15, 16, 17:
		return rapid.IntRange(41, 600).Draw(t, "n")
	case 18:
		return rapid.SampledFrom([]int{255, 256, 257, 258, 259, 32767, 32768, 65534, 65535}).Draw(t, "n")
	default:
		return rapid.IntRange(601, 65535).Draw(t, "n")
	}
}

type hmtxCase struct {
	n        int
	mode     string // lsb | ext | both-eq | both-any | hhea-only
	widths   []funit.Int16
	lsb      []funit.Int16  // as given to the library (may be nil)
	ext      []funit.Rect16 // may be nil
	info     *hmtx.Info
	negWidth bool
	altFrac  float64 // selects the alternative numberOfHMetrics for the decode-only clause
}

// altLong picks a numberOfHMetrics in [minimal, n] from the drawn fraction.
func (c *hmtxCase) altLong(minimal int) int {
	return minimal + int(c.altFrac*float64(c.n-minimal)+0.5)
}

func (c *hmtxCase) String() string {
	show := func(v any, n int) string {
		s := fmt.Sprintf("%v", v)
		if n > 64 {
			return fmt.Sprintf("(len %d) %.400s…", n, s)
		}
		return s
	}
	return fmt.Sprintf("hmtx.Info{n=%d mode=%s Widths=%s LSB=%s GlyphExtents=%s Ascent=%d Descent=%d LineGap=%d CaretAngle=%v (%x) CaretOffset=%d altFrac=%v}",
		c.n, c.mode, show(c.widths, len(c.widths)), show(c.lsb, len(c.lsb)), show(c.ext, len(c.ext)),
		c.info.Ascent, c.info.Descent, c.info.LineGap, c.info.CaretAngle, math.Float64bits(c.info.CaretAngle), c.info.CaretOffset, c.altFrac)
}

func genRect16(t *rapid.T, e *extremes) funit.Rect16 {
	x0 := drawI16(t, e, "x0")
	x1 := drawI16(t, e, "x1")
	y0 := drawI16(t, e, "y0")
	y1 := drawI16(t, e, "y1")
	if x0 > x1 {
		x0, x1 = x1, x0
	}
	if y0 > y1 {
		y0, y1 = y1, y0
	}
	return funit.Rect16{LLx: funit.Int16(x0), LLy: funit.Int16(y0), URx: funit.Int16(x1), URy: funit.Int16(y1)}
}

func genAngle(t *rapid.T) float64 {
	switch rapid.IntRange(0, 9).Draw(t, "angleClass") {
	case 0:
		return 0
	case 1: // typical italic angles, in degrees
		return rapid.Float64Range(-30, 30).Draw(t, "deg") / 180 * math.Pi
	case 2, 3: // the whole open half circle around vertical
		return rapid.Float64Range(-math.Pi/2, math.Pi/2).Draw(t, "rad")
	case 4: // exactly representable slopes
		rise := rapid.IntRange(1, 32767).Draw(t, "rise")
		run := rapid.IntRange(-32767, 32767).Draw(t, "run")
		return math.Atan2(float64(rise), float64(run)) - math.Pi/2
	case 5: // very close to vertical
		return rapid.Float64Range(-1e-4, 1e-4).Draw(t, "nearV")
	case 6: // very close to horizontal
		s := rapid.SampledFrom([]float64{-1, 1}).Draw(t, "side")
		return s * (math.Pi/2 - rapid.Float64Range(0, 1e-4).Draw(t, "nearH"))
	case 7: // steep rational slopes near the limits of the int16 pair
		k := rapid.IntRange(1, 40).Draw(t, "k")
		d := rapid.Float64Range(-0.5, 0.5).Draw(t, "d")
		return math.Atan2((32767+d)/float64(k), 1) - math.Pi/2
	default: // all angles
		return rapid.Float64Range(-math.Pi, math.Pi).Draw(t, "any")
	}
}

func genHmtx(t *rapid.T, e *extremes) *hmtxCase {
	c := &hmtxCase{}
	n := genGlyphCount(t)
	c.n = n
	c.mode = rapid.SampledFrom([]string{"lsb", "ext", "ext", "both-eq", "both-any", "both-any", "hhea-only"}).Draw(t, "mode")
	if c.mode == "hhea-only" && rapid.IntRange(0, 3).Draw(t, "keepHheaOnly") != 0 {
		c.mode = "ext"
	}

	// widths = prefix + constant tail
	var wg *rapid.Generator[int16]
	switch rapid.IntRange(0, 5).Draw(t, "widthDomain") {
	case 0: // few distinct values: many accidental runs
		pool := rapid.SliceOfN(rapid.Int16Range(0, math.MaxInt16), 1, 3).Draw(t, "pool")
		wg = rapid.SampledFrom(pool)
	case 1:
		wg = rapid.Int16Range(0, 2048)
	case 2, 3:
		wg = rapid.OneOf(rapid.Int16Range(0, math.MaxInt16), rapid.SampledFrom([]int16{0, 1, math.MaxInt16 - 1, math.MaxInt16}))
	case 4: // the file format's uFWORD values >= 0x8000 appear as negative funit.Int16
		wg = genI16()
	default:
		wg = rapid.Int16Range(0, 3)
	}
	var tail int
	switch rapid.IntRange(0, 6).Draw(t, "tailClass") {
	case 0:
		tail = 0
	case 1:
		tail = 1
	case 2:
		tail = 2
	case 3:
		tail = n - 1
	case 4:
		tail = n
	default:
		tail = rapid.IntRange(0, n).Draw(t, "tail")
	}
	if tail > n {
		tail = n
	}
	if tail < 0 {
		tail = 0
	}
	p := n - tail
	prefix := tile(t, p, 40, wg, "wPrefix")
	tv := wg.Draw(t, "wTail")
	if p > 0 && tail > 0 && prefix[p-1] == tv && rapid.IntRange(0, 4).Draw(t, "separate") != 0 {
		prefix[p-1] = tv ^ 1 // stays in the same sign domain
	}
	c.widths = make([]funit.Int16, n)
	for i := range c.widths {
		v := tv
		if i < p {
			v = prefix[i]
		}
		e.i16(v)
		if v < 0 {
			c.negWidth = true
		}
		c.widths[i] = funit.Int16(v)
	}

	// extents
	if c.mode != "lsb" {
		emptyPct := rapid.SampledFrom([]int{10, 0, 30, 10, 60, 0, 30, 100}).Draw(t, "emptyPct")
		boxG := rapid.Custom(func(t *rapid.T) funit.Rect16 {
			if rapid.IntRange(0, 99).Draw(t, "isEmpty") < emptyPct {
				return funit.Rect16{}
			}
			return genRect16(t, e)
		})
		c.ext = tile(t, n, 40, boxG, "ext")
	}
	// explicit left side bearings
	switch c.mode {
	case "lsb", "both-any":
		raw := tile(t, n, 40, genI16(), "lsb")
		c.lsb = make([]funit.Int16, n)
		for i, v := range raw {
			c.lsb[i] = funit.Int16(e.i16(v))
		}
		if c.mode == "both-any" {
			// the specification asks for lsb 0 on glyphs without contours
			for i := range c.lsb {
				if c.ext[i].IsZero() {
					c.lsb[i] = 0
				}
			}
		}
	case "both-eq":
		c.lsb = make([]funit.Int16, n)
		for i := range c.lsb {
			c.lsb[i] = c.ext[i].LLx
		}
	}

	c.info = &hmtx.Info{
		Widths:       c.widths,
		GlyphExtents: c.ext,
		LSB:          c.lsb,
		Ascent:       funit.Int16(drawI16(t, e, "ascent")),
		Descent:      funit.Int16(drawI16(t, e, "descent")),
		LineGap:      funit.Int16(drawI16(t, e, "lineGap")),
		CaretAngle:   genAngle(t),
		CaretOffset:  funit.Int16(drawI16(t, e, "caretOffset")),
	}
	if c.mode == "hhea-only" {
		c.info.Widths = nil
	}
	c.altFrac = rapid.SampledFrom([]float64{1, 0.5, 0, 0.25, 0.75, 0.01, 0.99}).Draw(t, "altLongFrac")
	return c
}

// caretTol is the precision of a (rise, run) pair of int16 values: the
// directions representable with |rise|, |run| <= 32767 are densest-gapped
// next to the axes, where neighbouring directions are atan(1/32767) apart.
// Rounding to the nearest representable direction therefore loses at most
// half of that (plus floating point noise).
var caretTol = math.Atan(1.0/32767)/2*1.02 + 1e-12

// caretGap returns the angular distance between the two representable
// directions that enclose the direction pi/2+angle (1 unit in the last
// place of the caretSlopeRise/caretSlopeRun pair at that angle).  By the
// symmetries of the square [-32767, 32767]^2 the direction is reduced to a
// slope x in [0, 1]; the representable slopes there are the Farey sequence
// of order 32767, whose neighbours of x are found by a Stern-Brocot descent.
func caretGap(angle float64) float64 {
	const N = 32767
	a, b := math.Abs(math.Cos(angle+math.Pi/2)), math.Abs(math.Sin(angle+math.Pi/2))
	if a > b {
		a, b = b, a
	}
	x := a / b // 0 <= x <= 1
	lp, lq, hp, hq := 0.0, 1.0, 1.0, 1.0
	for {
		moved := false
		// advance the lower bound by k mediants while it stays <= x
		if k := math.Floor((N - lq) / hq); k >= 1 {
			if den := hp - x*hq; den > 0 {
				k = math.Min(k, math.Floor((x*lq-lp)/den))
			}
			if k >= 1 {
				lp, lq, moved = lp+k*hp, lq+k*hq, true
			}
		}
		// advance the upper bound while it stays >= x
		if k := math.Floor((N - hq) / lq); k >= 1 {
			if den := x*lq - lp; den > 0 {
				k = math.Min(k, math.Floor((hp-x*hq)/den))
			}
			if k >= 1 {
				hp, hq, moved = hp+k*lp, hq+k*lq, true
			}
		}
		if !moved {
			break
		}
	}
	return math.Atan2(hp, hq) - math.Atan2(lp, lq)
}

// caretOK: the stored slope must be one of the two representable directions
// next to the requested one, and never further away than rounding to the
// nearest direction can be anywhere on the circle.
func caretOK(got, want float64) (diff, tol float64, ok bool) {
	// a caret is a line: (rise, run) and (-rise, -run) are the same slope,
	// so angles are compared modulo pi (the directed comparison used before
	// failed, in the thorough tier, on an angle 4.5e-6 beyond +90 degrees,
	// where rise rounds to 0 and the library writes run = +1)
	diff = angleDiff(got, want)
	if math.Pi-diff < diff {
		diff = math.Pi - diff
	}
	tol = math.Min(caretTol, caretGap(want)+1e-12)
	return diff, tol, diff <= tol
}

// hheaDerived holds the derived hhea fields computed from the definitions
// in the OpenType specification ("hhea" chapter); ok* tell whether the
// definition yields a value the int16 field can hold.
type hheaDerived struct {
	advMax                    int
	haveBoxes                 bool
	minLSB, minRSB, maxExtent int
	okLSB, okRSB, okExtent    bool
	anyNonEmpty               bool
}

func deriveHhea(widths []funit.Int16, lsb []funit.Int16, ext []funit.Rect16) hheaDerived {
	var d hheaDerived
	for _, w := range widths {
		if int(w) > d.advMax {
			d.advMax = int(w)
		}
	}
	if ext == nil {
		return d
	}
	d.haveBoxes = true
	first := true
	for i, b := range ext {
		if b == (funit.Rect16{}) {
			continue // glyph without contours: ignored by definition
		}
		l := int(b.LLx)
		if lsb != nil {
			l = int(lsb[i])
		}
		extent := l + (int(b.URx) - int(b.LLx))
		if first || l < d.minLSB {
			d.minLSB = l
		}
		if first || extent > d.maxExtent {
			d.maxExtent = extent
		}
		if widths != nil {
			rsb := int(widths[i]) - extent
			if first || rsb < d.minRSB {
				d.minRSB = rsb
			}
		}
		first = false
	}
	d.anyNonEmpty = !first
	in16 := func(v int) bool { return v >= math.MinInt16 && v <= math.MaxInt16 }
	d.okLSB, d.okRSB, d.okExtent = in16(d.minLSB), in16(d.minRSB), in16(d.maxExtent)
	return d
}

func TestC12Hmtx(t *testing.T) {
	rapid.Check(t, func(t *rapid.T) {
		var e extremes
		c := genHmtx(t, &e)
		checkHmtx(t, c, &e)
	})
}

func checkHmtx(t *rapid.T, c *hmtxCase, e *extremes) {
	info := c.info
	n := c.n

	var hhea, hm []byte
	if pn := guard.Try(func() { hhea, hm = info.Encode() }); pn != nil {
		failf(t, "Encode: %s\ncase: %s", pn, c)
	}
	if len(hhea) != 36 {
		failf(t, "hhea has %d bytes, want 36\ncase: %s", len(hhea), c)
	}
	if v := u32(hhea, 0); v != 0x00010000 {
		failf(t, "hhea version %#x\ncase: %s", v, c)
	}
	for o := 24; o < 34; o += 2 { // reserved ×4, metricDataFormat
		if u16(hhea, o) != 0 {
			failf(t, "hhea bytes %d..%d = %#x, must be 0\ncase: %s", o, o+1, u16(hhea, o), c)
		}
	}
	// directly stored fields
	for _, f := range []struct {
		name string
		off  int
		want funit.Int16
	}{
		{"ascender", 4, info.Ascent}, {"descender", 6, info.Descent}, {"lineGap", 8, info.LineGap},
		{"caretOffset", 22, info.CaretOffset},
	} {
		if got := i16(hhea, f.off); got != int16(f.want) {
			failf(t, "hhea.%s = %d, want %d\ncase: %s", f.name, got, f.want, c)
		}
	}
	// caret slope: direction (run, rise) makes the angle pi/2 + CaretAngle
	// with the x axis (rise 1, run 0 is vertical; a right-leaning caret has run > 0)
	rise, run := i16(hhea, 18), i16(hhea, 20)
	if rise == 0 && run == 0 {
		failf(t, "caretSlopeRise = caretSlopeRun = 0\ncase: %s", c)
	}
	rawAngle := math.Atan2(float64(rise), float64(run)) - math.Pi/2
	if d, tol, ok := caretOK(rawAngle, info.CaretAngle); !ok {
		failf(t, "caret slope rise=%d run=%d is the angle %v, input %v: off by %.3g rad > %.3g\ncase: %s",
			rise, run, rawAngle, info.CaretAngle, d, tol, c)
	}

	// derived fields
	var lsbEff []funit.Int16 // what the hmtx table must contain
	switch {
	case c.lsb != nil:
		lsbEff = c.lsb
	case c.ext != nil:
		lsbEff = make([]funit.Int16, n)
		for i, b := range c.ext {
			lsbEff[i] = b.LLx
		}
	}
	var labels []string
	labels = append(labels, "mode:"+c.mode)
	var wForDerive []funit.Int16
	if info.Widths != nil {
		wForDerive = c.widths
	}
	d := deriveHhea(wForDerive, c.lsb, c.ext)
	if c.negWidth {
		// advance widths are unsigned in the file; the library's signed type
		// cannot express values >= 0x8000, the derived maxima are not
		// defined for such vectors: round trip (bit pattern) only
		labels = append(labels, "width>=0x8000:derived-skipped")
	} else {
		if got := int(i16(hhea, 10)); got != d.advMax {
			failf(t, "hhea.advanceWidthMax = %d, want %d\ncase: %s", got, d.advMax, c)
		}
		if d.haveBoxes && d.anyNonEmpty {
			if d.okLSB {
				if got := int(i16(hhea, 12)); got != d.minLSB {
					failf(t, "hhea.minLeftSideBearing = %d, want %d (min over glyphs with contours)\ncase: %s", got, d.minLSB, c)
				}
			}
			if info.Widths != nil {
				if d.okRSB {
					if got := int(i16(hhea, 14)); got != d.minRSB {
						failf(t, "hhea.minRightSideBearing = %d, want %d = min(aw - (lsb + xMax - xMin)) over glyphs with contours\ncase: %s", got, d.minRSB, c)
					}
				} else {
					labels = append(labels, "rsb-not-int16")
				}
			}
			if d.okExtent {
				if got := int(i16(hhea, 16)); got != d.maxExtent {
					failf(t, "hhea.xMaxExtent = %d, want %d = max(lsb + (xMax - xMin)) over glyphs with contours\ncase: %s", got, d.maxExtent, c)
				}
			} else {
				labels = append(labels, "extent-not-int16")
			}
		} else if d.haveBoxes {
			labels = append(labels, "all-glyphs-empty")
		}
	}

	tailRun := 0
	if info.Widths == nil || lsbEff == nil {
		// nothing but hhea can be produced
		if hm != nil {
			failf(t, "hmtx data without widths\ncase: %s", c)
		}
		var dec *hmtx.Info
		var err error
		if pn := guard.Try(func() { dec, err = hmtx.Decode(hhea, nil) }); pn != nil {
			failf(t, "Decode: %s\ncase: %s", pn, c)
		}
		if err != nil {
			failf(t, "Decode: %v\ncase: %s", err, c)
		}
		compareHheaScalars(t, c, dec)
	} else {
		// numberOfHMetrics: minimal, at least 1
		for tailRun = 1; tailRun < n && c.widths[n-1-tailRun] == c.widths[n-1]; tailRun++ {
		}
		wantLong := n - tailRun + 1
		numLong := int(u16(hhea, 34))
		if numLong != wantLong {
			failf(t, "numberOfHMetrics = %d, want %d (n=%d, %d equal trailing widths)\ncase: %s", numLong, wantLong, n, tailRun, c)
		}
		if want := 4*numLong + 2*(n-numLong); len(hm) != want {
			failf(t, "hmtx has %d bytes, want %d\ncase: %s", len(hm), want, c)
		}
		// read the hmtx table ourselves
		for i := 0; i < n; i++ {
			var aw, l int16
			if i < numLong {
				aw, l = i16(hm, 4*i), i16(hm, 4*i+2)
			} else {
				aw, l = i16(hm, 4*(numLong-1)), i16(hm, 4*numLong+2*(i-numLong))
			}
			if aw != int16(c.widths[i]) || l != int16(lsbEff[i]) {
				failf(t, "hmtx bytes: glyph %d has aw=%d lsb=%d, want aw=%d lsb=%d\ncase: %s", i, aw, l, c.widths[i], lsbEff[i], c)
			}
		}

		var dec *hmtx.Info
		var err error
		if pn := guard.Try(func() { dec, err = hmtx.Decode(hhea, hm) }); pn != nil {
			failf(t, "Decode: %s\ncase: %s", pn, c)
		}
		if err != nil {
			failf(t, "Decode: %v\ncase: %s", err, c)
		}
		compareHheaScalars(t, c, dec)
		if len(dec.Widths) != n || len(dec.LSB) != n {
			failf(t, "decoded %d widths and %d bearings, want %d\ncase: %s", len(dec.Widths), len(dec.LSB), n, c)
		}
		for i := 0; i < n; i++ {
			if dec.Widths[i] != c.widths[i] {
				failf(t, "decoded width[%d] = %d, want %d\ncase: %s", i, dec.Widths[i], c.widths[i], c)
			}
			if dec.LSB[i] != lsbEff[i] {
				failf(t, "decoded lsb[%d] = %d, want %d\ncase: %s", i, dec.LSB[i], lsbEff[i], c)
			}
		}
		// "however trailing equal widths are compressed": any numberOfHMetrics
		// between the minimal one and n describes the same metrics; the table
		// is assembled here, not by the library
		if altLong := c.altLong(wantLong); altLong != wantLong {
			hhea3 := append([]byte(nil), hhea...)
			hhea3[34], hhea3[35] = byte(altLong>>8), byte(altLong)
			hm3 := make([]byte, 0, 4*altLong+2*(n-altLong))
			for i := 0; i < n; i++ {
				if i < altLong {
					hm3 = append(hm3, byte(uint16(c.widths[i])>>8), byte(c.widths[i]))
				}
				hm3 = append(hm3, byte(uint16(lsbEff[i])>>8), byte(lsbEff[i]))
			}
			var dec3 *hmtx.Info
			if pn := guard.Try(func() { dec3, err = hmtx.Decode(hhea3, hm3) }); pn != nil {
				failf(t, "Decode with numberOfHMetrics=%d: %s\ncase: %s", altLong, pn, c)
			}
			if err != nil {
				failf(t, "Decode with numberOfHMetrics=%d: %v\ncase: %s", altLong, err, c)
			}
			if len(dec3.Widths) != n || len(dec3.LSB) != n {
				failf(t, "numberOfHMetrics=%d: decoded %d widths and %d bearings, want %d\ncase: %s", altLong, len(dec3.Widths), len(dec3.LSB), n, c)
			}
			for i := 0; i < n; i++ {
				if dec3.Widths[i] != c.widths[i] || dec3.LSB[i] != lsbEff[i] {
					failf(t, "numberOfHMetrics=%d: glyph %d decoded as aw=%d lsb=%d, want aw=%d lsb=%d\ncase: %s", altLong, i, dec3.Widths[i], dec3.LSB[i], c.widths[i], lsbEff[i], c)
				}
			}
			labels = append(labels, "decode-non-minimal-numberOfHMetrics")
		}

		// second generation: the decoded value (plus the boxes, which are not
		// part of the two tables) encodes to the same bytes
		dec.GlyphExtents = c.ext
		var hhea2, hm2 []byte
		if pn := guard.Try(func() { hhea2, hm2 = dec.Encode() }); pn != nil {
			failf(t, "second Encode: %s\ncase: %s", pn, c)
		}
		if !bytes.Equal(hm2, hm) {
			failf(t, "second-generation hmtx differs\ncase: %s", c)
		}
		if !bytes.Equal(hhea2, hhea) {
			failf(t, "second-generation hhea differs:\n % x\n % x\ncase: %s", hhea, hhea2, c)
		}
	}

	nt := e.hit || (tailRun >= 2 && tailRun < n)
	labels = append(labels,
		lbl(tailRun == 1, "tail=1"), lbl(tailRun >= 2 && tailRun < n, "tail:2..n-1"), lbl(tailRun == n && n > 1, "tail=n"),
		lbl(n == 1, "n=1"), lbl(n > 600, "n>600"), lbl(n == 65535, "n=65535"),
		lbl(e.hit, "extreme-field"), lbl(rise == 1 && run == 0, "caret-vertical"), lbl(run != 0, "caret-slanted"),
		lbl(math.Abs(info.CaretAngle) > math.Pi/2, "angle-beyond-90deg"))
	stats.CaseIn("hmtx", stats.Hash(hhea, hm), nt, func() string { return c.String() }, labels...)
}

func compareHheaScalars(t *rapid.T, c *hmtxCase, dec *hmtx.Info) {
	info := c.info
	if dec.Ascent != info.Ascent || dec.Descent != info.Descent || dec.LineGap != info.LineGap || dec.CaretOffset != info.CaretOffset {
		failf(t, "decoded ascent/descent/lineGap/caretOffset = %d/%d/%d/%d\ncase: %s", dec.Ascent, dec.Descent, dec.LineGap, dec.CaretOffset, c)
	}
	if d, tol, ok := caretOK(dec.CaretAngle, info.CaretAngle); !ok || math.IsNaN(dec.CaretAngle) {
		failf(t, "decoded CaretAngle %v, input %v: off by %.3g rad > %.3g\ncase: %s", dec.CaretAngle, info.CaretAngle, d, tol, c)
	}
}
