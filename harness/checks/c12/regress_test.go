package c12

import (
	"fmt"
	"testing"

	"seehuhn.de/go/geom/matrix"
	"seehuhn.de/go/postscript/cid"
	"seehuhn.de/go/postscript/funit"
	"seehuhn.de/go/postscript/type1"

	"seehuhn.de/go/sfnt"
	"seehuhn.de/go/sfnt/cff"
	"seehuhn.de/go/sfnt/glyph"
	"seehuhn.de/go/sfnt/hmtx"
	"verif/harness/stats"
)

// TestC12RegressHheaBearings: hhea.minRightSideBearing and xMaxExtent are
// defined as min(aw - (lsb + xMax - xMin)) and max(lsb + (xMax - xMin)) over
// the glyphs with contours.  The unrepaired encoder used aw - xMax and xMax
// (ignoring an explicit lsb) and did the per-glyph subtraction in int16.
func TestC12RegressHheaBearings(t *testing.T) {
	for _, c := range []struct {
		name                string
		info                *hmtx.Info
		wantRSB, wantExtent int16
	}{
		{
			name: "explicit lsb differs from xMin",
			info: &hmtx.Info{
				Widths:       []funit.Int16{600},
				LSB:          []funit.Int16{50},
				GlyphExtents: []funit.Rect16{{LLx: 100, LLy: 0, URx: 500, URy: 700}},
			},
			wantRSB: 600 - (50 + 400), wantExtent: 50 + 400,
		},
		{
			name: "one glyph's right side bearing exceeds int16",
			info: &hmtx.Info{
				Widths:       []funit.Int16{1000, 1},
				GlyphExtents: []funit.Rect16{{LLx: 0, LLy: 0, URx: 900, URy: 10}, {LLx: -32768, LLy: 0, URx: -32768, URy: 10}},
			},
			wantRSB: 100, wantExtent: 900,
		},
	} {
		hhea, _ := c.info.Encode()
		if got := i16(hhea, 14); got != c.wantRSB {
			t.Errorf("%s: hhea.minRightSideBearing = %d, want %d", c.name, got, c.wantRSB)
		}
		if got := i16(hhea, 16); got != c.wantExtent {
			t.Errorf("%s: hhea.xMaxExtent = %d, want %d", c.name, got, c.wantExtent)
		}
		stats.CaseIn("regress", stats.Hash("hhea-bearings", c.name), true, func() string { return c.name })
	}
}

func cidFont() *sfnt.Font {
	o := &cff.Outlines{
		Private:      []*type1.PrivateDict{{BlueScale: 0.039625, BlueShift: 7, BlueFuzz: 1}},
		FDSelect:     func(glyph.ID) int { return 0 },
		ROS:          &cid.SystemInfo{Registry: "Adobe", Ordering: "Identity"},
		GIDToCID:     []cid.CID{0, 1},
		FontMatrices: []matrix.Matrix{{0.001, 0, 0, 0.001, 0, 0}},
	}
	o.Glyphs = append(o.Glyphs, cff.NewGlyph("", 500))
	g := cff.NewGlyph("", 600)
	g.MoveTo(0, 0)
	g.LineTo(500, 0)
	g.LineTo(500, 700)
	o.Glyphs = append(o.Glyphs, g)
	return &sfnt.Font{
		FamilyName: "Test",
		UnitsPerEm: 1000,
		FontMatrix: matrix.Identity, // the default of a CID-keyed CFF top dict; the scale sits in the font dict
		Outlines:   o,
	}
}

// TestC12RegressWidthsPDFCID: for a CID-keyed CFF font GlyphWidthPDF and
// GlyphBBoxPDF compose the font dict matrix with Font.FontMatrix; WidthsPDF
// used Font.FontMatrix alone, so that with the usual layout (identity in the
// top dict, 0.001 in the font dicts) it returned design units.
func TestC12RegressWidthsPDFCID(t *testing.T) {
	f := cidFont()
	w := f.WidthsPDF()
	for gid, wantDesign := range []float64{500, 600} {
		want := wantDesign * 0.001
		if !near(w[gid], want) {
			t.Errorf("WidthsPDF()[%d] = %v, want %v (text space units)", gid, w[gid], want)
		}
		if gw := f.GlyphWidthPDF(glyph.ID(gid)); !near(gw, 1000*w[gid]) {
			t.Errorf("GlyphWidthPDF(%d) = %v but WidthsPDF()[%d] = %v (ratio must be 1000)", gid, gw, gid, w[gid])
		}
	}
	stats.CaseIn("regress", stats.Hash("widthspdf-cid"), true, func() string { return "CID-keyed font, font dict matrix 0.001" })
}

// TestC12KnownCurveBox is the reproducer of the known finding
// cff-glyph-box-ignores-curve-extrema: the curve below rises to y = 75
// between its end points, but the boxes are computed from the end points.
func TestC12KnownCurveBox(t *testing.T) {
	g := cff.NewGlyph("arch", 100)
	g.MoveTo(0, 0)
	g.CurveTo(0, 100, 100, 100, 100, 0)
	o := &cff.Outlines{
		Glyphs:   []*cff.Glyph{g},
		Private:  []*type1.PrivateDict{{}},
		FDSelect: func(glyph.ID) int { return 0 },
	}
	ext := g.Extent()
	pdf := o.GlyphBBoxPDF(matrix.Matrix{0.001, 0, 0, 0.001, 0, 0}, 0)
	msg := ""
	if ext != (funit.Rect16{LLx: 0, LLy: 0, URx: 100, URy: 75}) {
		msg += fmt.Sprintf("Extent() = %v, want {0 0 100 75}; ", ext)
	}
	if !near(pdf.URy, 75) || !near(pdf.URx, 100) || pdf.LLx != 0 || pdf.LLy != 0 {
		msg += fmt.Sprintf("GlyphBBoxPDF = %v, want {0 0 100 75}", pdf)
	}
	stats.CaseIn("regress", stats.Hash("curve-box"), true, func() string { return "M(0,0) C(0,100 100,100 100,0)" })
	if msg == "" {
		return
	}
	if stats.Known(prop, keyCurveBox) {
		t.Logf("known finding %s still present: %s", keyCurveBox, msg)
		return
	}
	t.Fatalf("%s", msg)
}
