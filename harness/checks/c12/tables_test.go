package c12

import (
	"bytes"
	"fmt"
	"math"
	"strings"
	"testing"
	"time"

	"pgregory.net/rapid"

	"seehuhn.de/go/postscript/funit"

	"seehuhn.de/go/sfnt/head"
	"seehuhn.de/go/sfnt/maxp"
	"seehuhn.de/go/sfnt/os2"
	"seehuhn.de/go/sfnt/post"
	"verif/harness/guard"
	"verif/harness/stats"
)

// ---------------------------------------------------------------------------
// head

// epoch1904 is the origin of LONGDATETIME values, computed here from the
// calendar rather than copied from the library.
var epoch1904 = time.Date(1904, time.January, 1, 0, 0, 0, 0, time.UTC).Unix()

type timeCase struct {
	t     time.Time
	class string
}

func genTime(t *rapid.T, label string) timeCase {
	loc := rapid.SampledFrom([]*time.Location{time.UTC, time.FixedZone("east", 5*3600+1800), time.FixedZone("west", -8*3600)}).Draw(t, label+"Loc")
	nsec := rapid.SampledFrom([]int64{0, 0, 1, 499999999, 500000000, 999999999}).Draw(t, label+"Nsec")
	mk := func(sec int64) time.Time { return time.Unix(sec, nsec).In(loc) }
	lo := epoch1904
	hi := time.Date(2200, 1, 1, 0, 0, 0, 0, time.UTC).Unix()
	switch rapid.IntRange(0, 9).Draw(t, label+"Class") {
	case 0:
		return timeCase{time.Time{}, "unset"}
	case 1: // seconds right after the origin (the origin itself means "unset")
		return timeCase{mk(lo + rapid.Int64Range(1, 3).Draw(t, label+"Sec")), "near-1904"}
	case 2: // where the low 32 bits wrap (2040-02-06)
		return timeCase{mk(lo + (1 << 32) + rapid.Int64Range(-2, 2).Draw(t, label+"Sec")), "near-2^32"}
	case 3: // Unix epoch and the 2038 boundary
		return timeCase{mk(rapid.SampledFrom([]int64{-1, 0, 1, 1<<31 - 1, 1 << 31}).Draw(t, label+"Sec")), "unix-boundary"}
	case 4: // outside 1904..2200 but inside the signed 64-bit field
		s := rapid.OneOf(rapid.Int64Range(lo-200*366*86400, lo-1), rapid.Int64Range(hi, hi+7000*366*86400)).Draw(t, label+"Sec")
		return timeCase{mk(s), "outside-1904-2200"}
	default:
		return timeCase{mk(rapid.Int64Range(lo+1, hi).Draw(t, label+"Sec")), "1904-2200"}
	}
}

func headString(h *head.Info) string {
	return fmt.Sprintf("head.Info{FontRevision:%#x HasYBaseAt0:%v HasXBaseAt0:%v IsNonlinear:%v UnitsPerEm:%d Created:%s (unix %d.%09d) Modified:%s (unix %d.%09d) FontBBox:%v IsBold:%v IsItalic:%v HasShadow:%v IsCondensed:%v IsExtended:%v LowestRecPPEM:%d LocaFormat:%d}",
		uint32(h.FontRevision), h.HasYBaseAt0, h.HasXBaseAt0, h.IsNonlinear, h.UnitsPerEm,
		h.Created.Format(time.RFC3339Nano), h.Created.Unix(), h.Created.Nanosecond(),
		h.Modified.Format(time.RFC3339Nano), h.Modified.Unix(), h.Modified.Nanosecond(),
		h.FontBBox, h.IsBold, h.IsItalic, h.HasShadow, h.IsCondensed, h.IsExtended, h.LowestRecPPEM, h.LocaFormat)
}

func TestC12Head(t *testing.T) {
	rapid.Check(t, func(t *rapid.T) {
		var e extremes
		cr := genTime(t, "created")
		mo := genTime(t, "modified")
		h := &head.Info{
			FontRevision: head.Version(genU32().Draw(t, "rev")),
			HasYBaseAt0:  rapid.Bool().Draw(t, "yBase"),
			HasXBaseAt0:  rapid.Bool().Draw(t, "xBase"),
			IsNonlinear:  rapid.Bool().Draw(t, "nonlinear"),
			UnitsPerEm:   drawU16(t, &e, "upem"),
			Created:      cr.t,
			Modified:     mo.t,
			FontBBox: funit.Rect16{
				LLx: funit.Int16(drawI16(t, &e, "xMin")), LLy: funit.Int16(drawI16(t, &e, "yMin")),
				URx: funit.Int16(drawI16(t, &e, "xMax")), URy: funit.Int16(drawI16(t, &e, "yMax")),
			},
			IsBold:        rapid.Bool().Draw(t, "bold"),
			IsItalic:      rapid.Bool().Draw(t, "italic"),
			HasShadow:     rapid.Bool().Draw(t, "shadow"),
			IsCondensed:   rapid.Bool().Draw(t, "condensed"),
			IsExtended:    rapid.Bool().Draw(t, "extended"),
			LowestRecPPEM: drawU16(t, &e, "ppem"),
			LocaFormat:    rapid.OneOf(rapid.Int16Range(0, 1), rapid.Int16Range(0, 1), genI16()).Draw(t, "loca"),
		}
		e.i16(h.LocaFormat)
		cs := headString(h)

		var data []byte
		if pn := guard.Try(func() { data = h.Encode() }); pn != nil {
			failf(t, "Encode: %s\ncase: %s", pn, cs)
		}
		if len(data) != 54 {
			failf(t, "head has %d bytes, want 54\ncase: %s", len(data), cs)
		}
		// raw fields
		if u32(data, 0) != 0x00010000 || u32(data, 12) != 0x5F0F3CF5 {
			failf(t, "head version %#x magic %#x\ncase: %s", u32(data, 0), u32(data, 12), cs)
		}
		if u32(data, 4) != uint32(h.FontRevision) {
			failf(t, "fontRevision %#x\ncase: %s", u32(data, 4), cs)
		}
		if u32(data, 8) != 0 {
			failf(t, "checksumAdjustment %#x in a bare table\ncase: %s", u32(data, 8), cs)
		}
		flags := u16(data, 16)
		if flags&1 != 0 != h.HasYBaseAt0 || flags&2 != 0 != h.HasXBaseAt0 || flags&4 != 0 != h.IsNonlinear {
			failf(t, "flags %#04x\ncase: %s", flags, cs)
		}
		if flags&0xC000 != 0 {
			failf(t, "reserved flag bits set: %#04x\ncase: %s", flags, cs)
		}
		if u16(data, 18) != h.UnitsPerEm {
			failf(t, "unitsPerEm %d\ncase: %s", u16(data, 18), cs)
		}
		for _, tc := range []struct {
			name string
			off  int
			in   timeCase
		}{{"created", 20, cr}, {"modified", 28, mo}} {
			got := i64(data, tc.off)
			var want int64
			if !tc.in.t.IsZero() {
				want = tc.in.t.Unix() - epoch1904 // whole seconds since 1904-01-01T00:00:00Z
			}
			if got != want {
				failf(t, "%s = %d s after 1904, want %d\ncase: %s", tc.name, got, want, cs)
			}
		}
		for i, want := range []funit.Int16{h.FontBBox.LLx, h.FontBBox.LLy, h.FontBBox.URx, h.FontBBox.URy} {
			if got := i16(data, 36+2*i); got != int16(want) {
				failf(t, "bbox field %d = %d, want %d\ncase: %s", i, got, want, cs)
			}
		}
		mac := u16(data, 44)
		wantMac := uint16(b2i(h.IsBold) | b2i(h.IsItalic)<<1 | b2i(h.HasShadow)<<4 | b2i(h.IsCondensed)<<5 | b2i(h.IsExtended)<<6)
		if mac != wantMac {
			failf(t, "macStyle %#04x, want %#04x\ncase: %s", mac, wantMac, cs)
		}
		if u16(data, 46) != h.LowestRecPPEM || i16(data, 50) != h.LocaFormat || u16(data, 52) != 0 {
			failf(t, "lowestRecPPEM %d indexToLocFormat %d glyphDataFormat %d\ncase: %s", u16(data, 46), i16(data, 50), u16(data, 52), cs)
		}

		var dec *head.Info
		var err error
		if pn := guard.Try(func() { dec, err = head.Read(bytes.NewReader(data)) }); pn != nil {
			failf(t, "Read: %s\ncase: %s", pn, cs)
		}
		if err != nil {
			failf(t, "Read: %v\ncase: %s", err, cs)
		}
		// timestamps: to the second
		for _, tc := range []struct {
			name string
			in   timeCase
			out  time.Time
		}{{"Created", cr, dec.Created}, {"Modified", mo, dec.Modified}} {
			if tc.in.t.IsZero() != tc.out.IsZero() {
				failf(t, "%s: IsZero %v -> %v\ncase: %s", tc.name, tc.in.t.IsZero(), tc.out.IsZero(), cs)
			}
			if !tc.in.t.IsZero() && tc.out.Unix() != tc.in.t.Unix() {
				failf(t, "%s: %d -> %d (unix seconds)\ncase: %s", tc.name, tc.in.t.Unix(), tc.out.Unix(), cs)
			}
		}
		want := *h
		got := *dec
		want.Created, want.Modified, got.Created, got.Modified = time.Time{}, time.Time{}, time.Time{}, time.Time{}
		if got != want {
			failf(t, "decoded %s\ncase:   %s", headString(dec), cs)
		}
		var data2 []byte
		if pn := guard.Try(func() { data2 = dec.Encode() }); pn != nil {
			failf(t, "second Encode: %s\ncase: %s", pn, cs)
		}
		if !bytes.Equal(data, data2) {
			failf(t, "second-generation bytes differ\n % x\n % x\ncase: %s", data, data2, cs)
		}

		stats.CaseIn("head", stats.Hash(data), e.hit, func() string { return cs },
			"created:"+cr.class, "modified:"+mo.class, lbl(e.hit, "extreme-field"),
			lbl(h.LocaFormat != 0 && h.LocaFormat != 1, "loca-other"))
	})
}

// ---------------------------------------------------------------------------
// maxp

func TestC12Maxp(t *testing.T) {
	rapid.Check(t, func(t *rapid.T) {
		var e extremes
		n := rapid.OneOf(rapid.IntRange(1, 65535), rapid.SampledFrom([]int{1, 2, 255, 256, 257, 32767, 32768, 65534, 65535})).Draw(t, "numGlyphs")
		if n == 1 || n == 65535 {
			e.hit = true
		}
		m := &maxp.Info{NumGlyphs: n}
		var f [13]uint16
		if rapid.Bool().Draw(t, "ttf") {
			for i := range f {
				f[i] = drawU16(t, &e, "f")
			}
			m.TTF = &maxp.TTFInfo{
				MaxPoints: f[0], MaxContours: f[1], MaxCompositePoints: f[2], MaxCompositeContours: f[3],
				MaxZones: f[4], MaxTwilightPoints: f[5], MaxStorage: f[6], MaxFunctionDefs: f[7],
				MaxInstructionDefs: f[8], MaxStackElements: f[9], MaxSizeOfInstructions: f[10],
				MaxComponentElements: f[11], MaxComponentDepth: f[12],
			}
		}
		cs := fmt.Sprintf("maxp.Info{NumGlyphs:%d TTF:%+v}", n, m.TTF)
		var data []byte
		if pn := guard.Try(func() { data = m.Encode() }); pn != nil {
			failf(t, "Encode: %s\ncase: %s", pn, cs)
		}
		// raw: version 0.5 has 6 bytes, version 1.0 has 32 bytes, fields in
		// the order of the specification
		if m.TTF == nil {
			if len(data) != 6 || u32(data, 0) != 0x00005000 {
				failf(t, "maxp 0.5: % x\ncase: %s", data, cs)
			}
		} else {
			if len(data) != 32 || u32(data, 0) != 0x00010000 {
				failf(t, "maxp 1.0: % x\ncase: %s", data, cs)
			}
			for i, v := range f {
				if got := u16(data, 6+2*i); got != v {
					failf(t, "maxp field %d = %d, want %d\ncase: %s", i, got, v, cs)
				}
			}
		}
		if int(u16(data, 4)) != n {
			failf(t, "numGlyphs %d\ncase: %s", u16(data, 4), cs)
		}
		var dec *maxp.Info
		var err error
		if pn := guard.Try(func() { dec, err = maxp.Read(bytes.NewReader(data)) }); pn != nil {
			failf(t, "Read: %s\ncase: %s", pn, cs)
		}
		if err != nil {
			failf(t, "Read: %v\ncase: %s", err, cs)
		}
		if dec.NumGlyphs != n || (dec.TTF == nil) != (m.TTF == nil) || (m.TTF != nil && *dec.TTF != *m.TTF) {
			failf(t, "decoded NumGlyphs:%d TTF:%+v\ncase: %s", dec.NumGlyphs, dec.TTF, cs)
		}
		if data2 := dec.Encode(); !bytes.Equal(data, data2) {
			failf(t, "second-generation bytes differ\ncase: %s", cs)
		}
		stats.CaseIn("maxp", stats.Hash(data), e.hit, func() string { return cs },
			lbl(m.TTF != nil, "version-1.0"), lbl(m.TTF == nil, "version-0.5"), lbl(e.hit, "extreme-field"))
	})
}

// ---------------------------------------------------------------------------
// OS/2

func os2String(o *os2.Info) string {
	return fmt.Sprintf("os2.Info{WeightClass:%d WidthClass:%d IsBold:%v IsItalic:%v IsRegular:%v IsOblique:%v First:%#04x Last:%#04x Ascent:%d Descent:%d WinAscent:%d WinDescent:%d LineGap:%d CapHeight:%d XHeight:%d Avg:%d Sub:%d,%d,%d,%d Super:%d,%d,%d,%d Strike:%d,%d FamilyClass:%d Panose:%v Vendor:%q UnicodeRange:%08x CodePageRange:%#016x PermUse:%d NoSubsetting:%v OnlyBitmap:%v}",
		o.WeightClass, o.WidthClass, o.IsBold, o.IsItalic, o.IsRegular, o.IsOblique, o.FirstCharIndex, o.LastCharIndex,
		o.Ascent, o.Descent, o.WinAscent, o.WinDescent, o.LineGap, o.CapHeight, o.XHeight, o.AvgGlyphWidth,
		o.SubscriptXSize, o.SubscriptYSize, o.SubscriptXOffset, o.SubscriptYOffset,
		o.SuperscriptXSize, o.SuperscriptYSize, o.SuperscriptXOffset, o.SuperscriptYOffset,
		o.StrikeoutSize, o.StrikeoutPosition, o.FamilyClass, o.Panose, o.Vendor, o.UnicodeRange, uint64(o.CodePageRange),
		o.PermUse, o.PermNoSubsetting, o.PermOnlyBitmap)
}

func TestC12OS2(t *testing.T) {
	rapid.Check(t, func(t *rapid.T) {
		var e extremes
		fi := func(l string) funit.Int16 { return funit.Int16(drawI16(t, &e, l)) }
		o := &os2.Info{
			WeightClass: os2.Weight(rapid.OneOf(rapid.Uint16Range(1, 1000), genU16()).Draw(t, "weight")),
			WidthClass:  os2.Width(rapid.OneOf(rapid.Uint16Range(1, 9), genU16()).Draw(t, "width")),
			IsBold:      rapid.Bool().Draw(t, "bold"),
			IsItalic:    rapid.Bool().Draw(t, "italic"),
			IsRegular:   rapid.Bool().Draw(t, "regular"),
			IsOblique:   rapid.Bool().Draw(t, "oblique"),

			FirstCharIndex: drawU16(t, &e, "first"),
			LastCharIndex:  drawU16(t, &e, "last"),

			Ascent: fi("asc"), Descent: fi("desc"), WinAscent: fi("wasc"), WinDescent: fi("wdesc"), LineGap: fi("gap"),
			AvgGlyphWidth:  fi("avg"),
			SubscriptXSize: fi("s1"), SubscriptYSize: fi("s2"), SubscriptXOffset: fi("s3"), SubscriptYOffset: fi("s4"),
			SuperscriptXSize: fi("s5"), SuperscriptYSize: fi("s6"), SuperscriptXOffset: fi("s7"), SuperscriptYOffset: fi("s8"),
			StrikeoutSize: fi("s9"), StrikeoutPosition: fi("s10"),
			FamilyClass: drawI16(t, &e, "family"),

			CodePageRange:    os2.CodePageRange(rapid.OneOf(rapid.Uint64(), rapid.SampledFrom([]uint64{0, 1, 1 << 31, 1 << 32, 1 << 63, math.MaxUint64})).Draw(t, "cpr")),
			PermUse:          rapid.SampledFrom([]os2.Permissions{os2.PermInstall, os2.PermEdit, os2.PermView, os2.PermRestricted}).Draw(t, "perm"),
			PermNoSubsetting: rapid.Bool().Draw(t, "noSubset"),
			PermOnlyBitmap:   rapid.Bool().Draw(t, "onlyBitmap"),
		}
		e.u16(uint16(o.WeightClass))
		e.u16(uint16(o.WidthClass))
		// x-height and cap height are distances above the baseline ("0 = not
		// specified"): the domain is 0..32767; negative values are a labelled
		// carve-out (the reader may drop them)
		negHeight := false
		hg := rapid.OneOf(rapid.Int16Range(0, math.MaxInt16), rapid.SampledFrom([]int16{0, 1, math.MaxInt16}), rapid.Int16Range(0, 2000))
		o.XHeight = funit.Int16(e.i16(hg.Draw(t, "xHeight")))
		o.CapHeight = funit.Int16(e.i16(hg.Draw(t, "capHeight")))
		if rapid.IntRange(0, 19).Draw(t, "negHeights") == 13 {
			o.XHeight = funit.Int16(rapid.Int16Range(math.MinInt16, -1).Draw(t, "negX"))
			o.CapHeight = funit.Int16(rapid.Int16Range(math.MinInt16, -1).Draw(t, "negCap"))
			negHeight = true
		}
		copy(o.Panose[:], rapid.SliceOfN(rapid.Byte(), 10, 10).Draw(t, "panose"))
		// achVendID is a 4-byte tag; "" stands for "no vendor" = four spaces
		if rapid.IntRange(0, 5).Draw(t, "noVendor") == 4 {
			o.Vendor = ""
		} else {
			o.Vendor = string(rapid.SliceOfN(rapid.OneOf(rapid.ByteRange(0x20, 0x7E), rapid.Byte()), 4, 4).Draw(t, "vendor"))
		}
		for i := range o.UnicodeRange {
			o.UnicodeRange[i] = genU32().Draw(t, "ur")
		}
		cs := os2String(o)

		var data []byte
		if pn := guard.Try(func() { data = o.Encode() }); pn != nil {
			failf(t, "Encode: %s\ncase: %s", pn, cs)
		}
		ver := u16(data, 0)
		if ver < 4 || ver > 5 {
			// fsSelection bit 9 (oblique) and bit 7 need version 4 or later
			failf(t, "OS/2 version %d\ncase: %s", ver, cs)
		}
		if want := map[uint16]int{4: 96, 5: 100}[ver]; len(data) != want {
			failf(t, "OS/2 version %d table has %d bytes, want %d\ncase: %s", ver, len(data), want, cs)
		}
		// raw fields, offsets from the OS/2 chapter
		for _, f := range []struct {
			name string
			off  int
			want funit.Int16
		}{
			{"xAvgCharWidth", 2, o.AvgGlyphWidth},
			{"ySubscriptXSize", 10, o.SubscriptXSize}, {"ySubscriptYSize", 12, o.SubscriptYSize},
			{"ySubscriptXOffset", 14, o.SubscriptXOffset}, {"ySubscriptYOffset", 16, o.SubscriptYOffset},
			{"ySuperscriptXSize", 18, o.SuperscriptXSize}, {"ySuperscriptYSize", 20, o.SuperscriptYSize},
			{"ySuperscriptXOffset", 22, o.SuperscriptXOffset}, {"ySuperscriptYOffset", 24, o.SuperscriptYOffset},
			{"yStrikeoutSize", 26, o.StrikeoutSize}, {"yStrikeoutPosition", 28, o.StrikeoutPosition},
			{"sFamilyClass", 30, funit.Int16(o.FamilyClass)},
			{"sTypoAscender", 68, o.Ascent}, {"sTypoDescender", 70, o.Descent}, {"sTypoLineGap", 72, o.LineGap},
			{"usWinAscent", 74, o.WinAscent}, {"usWinDescent", 76, o.WinDescent},
		} {
			if got := i16(data, f.off); got != int16(f.want) {
				failf(t, "OS/2.%s = %d, want %d\ncase: %s", f.name, got, f.want, cs)
			}
		}
		if !negHeight {
			if i16(data, 86) != int16(o.XHeight) || i16(data, 88) != int16(o.CapHeight) {
				failf(t, "sxHeight %d sCapHeight %d\ncase: %s", i16(data, 86), i16(data, 88), cs)
			}
		}
		if u16(data, 4) != uint16(o.WeightClass) || u16(data, 6) != uint16(o.WidthClass) {
			failf(t, "usWeightClass %d usWidthClass %d\ncase: %s", u16(data, 4), u16(data, 6), cs)
		}
		fsType := u16(data, 8)
		wantType := map[os2.Permissions]uint16{os2.PermInstall: 0, os2.PermRestricted: 2, os2.PermView: 4, os2.PermEdit: 8}[o.PermUse] |
			uint16(b2i(o.PermNoSubsetting))<<8 | uint16(b2i(o.PermOnlyBitmap))<<9
		if fsType != wantType {
			failf(t, "fsType %#04x, want %#04x\ncase: %s", fsType, wantType, cs)
		}
		if !bytes.Equal(data[32:42], o.Panose[:]) {
			failf(t, "panose % x\ncase: %s", data[32:42], cs)
		}
		for i := 0; i < 4; i++ {
			got, want := u32(data, 42+4*i), o.UnicodeRange[i]
			if i == 1 { // bit 57 is derived, see below
				got &^= 1 << 25
				want &^= 1 << 25
			}
			if got != want {
				failf(t, "ulUnicodeRange%d = %#08x, want %#08x\ncase: %s", i+1, got, want, cs)
			}
		}
		wantVendor := o.Vendor
		if wantVendor == "" {
			wantVendor = "    "
		}
		if string(data[58:62]) != wantVendor {
			failf(t, "achVendID %q, want %q\ncase: %s", data[58:62], wantVendor, cs)
		}
		// fsSelection: bit 0 italic, 5 bold, 6 regular, 9 oblique; "if bit 6
		// is set, then bits 0 and 5 must be clear"
		nfBold, nfItalic := o.IsBold && !o.IsRegular, o.IsItalic && !o.IsRegular
		sel := u16(data, 62)
		if sel&1 != 0 != nfItalic || sel&0x20 != 0 != nfBold || sel&0x40 != 0 != o.IsRegular || sel&0x200 != 0 != o.IsOblique {
			failf(t, "fsSelection %#04x\ncase: %s", sel, cs)
		}
		if sel&0xFC00 != 0 {
			failf(t, "fsSelection %#04x has reserved bits\ncase: %s", sel, cs)
		}
		if u16(data, 64) != o.FirstCharIndex || u16(data, 66) != o.LastCharIndex {
			failf(t, "usFirstCharIndex %#x usLastCharIndex %#x\ncase: %s", u16(data, 64), u16(data, 66), cs)
		}
		if u32(data, 78) != uint32(o.CodePageRange) || u32(data, 82) != uint32(o.CodePageRange>>32) {
			failf(t, "ulCodePageRange1 %#08x ulCodePageRange2 %#08x\ncase: %s", u32(data, 78), u32(data, 82), cs)
		}

		var dec *os2.Info
		var err error
		if pn := guard.Try(func() { dec, err = os2.Read(bytes.NewReader(data)) }); pn != nil {
			failf(t, "Read: %s\ncase: %s", pn, cs)
		}
		if err != nil {
			failf(t, "Read: %v\ncase: %s", err, cs)
		}
		want := *o
		want.IsBold, want.IsItalic = nfBold, nfItalic
		want.Vendor = wantVendor
		// bit 57 ("Non-Plane 0") is tied to usLastCharIndex == 0xFFFF by the
		// library on both directions (documented in os2.go); not claimed here
		want.UnicodeRange[1] &^= 1 << 25
		got := *dec
		got.UnicodeRange[1] &^= 1 << 25
		if negHeight {
			for _, p := range []struct {
				name    string
				in, out funit.Int16
			}{{"XHeight", o.XHeight, dec.XHeight}, {"CapHeight", o.CapHeight, dec.CapHeight}} {
				if p.out != 0 && p.out != p.in {
					failf(t, "negative %s %d came back as %d\ncase: %s", p.name, p.in, p.out, cs)
				}
			}
			want.XHeight, want.CapHeight, got.XHeight, got.CapHeight = 0, 0, 0, 0
		}
		if got != want {
			failf(t, "decoded %s\nwant    %s\ncase:   %s", os2String(&got), os2String(&want), cs)
		}
		// fixed point from the first decoded value on
		var data2 []byte
		if pn := guard.Try(func() { data2 = dec.Encode() }); pn != nil {
			failf(t, "second Encode: %s\ncase: %s", pn, cs)
		}
		if !negHeight && !bytes.Equal(data, data2) {
			failf(t, "second-generation bytes differ\n % x\n % x\ncase: %s", data, data2, cs)
		}
		dec2, err := os2.Read(bytes.NewReader(data2))
		if err != nil || *dec2 != *dec {
			failf(t, "second-generation value differs (err=%v)\n%s\n%s\ncase: %s", err, os2String(dec), os2String(dec2), cs)
		}

		stats.CaseIn("os2", stats.Hash(data), e.hit, func() string { return cs },
			lbl(e.hit, "extreme-field"), lbl(negHeight, "negative-heights:carved-out"),
			lbl(o.IsRegular && (o.IsBold || o.IsItalic), "regular+bold/italic"),
			lbl(o.Vendor == "", "no-vendor"), "perm:"+o.PermUse.String(),
			lbl(o.LastCharIndex == 0xFFFF, "last=0xFFFF"))
	})
}

// ---------------------------------------------------------------------------
// post

func genItalicAngle(t *rapid.T) (float64, string) {
	switch rapid.IntRange(0, 6).Draw(t, "angleClass") {
	case 0:
		return 0, "zero"
	case 1: // multiples of 2^-16 in (-90, 90)
		return float64(rapid.Int32Range(-90*65536+1, 90*65536-1).Draw(t, "fix")) / 65536, "multiple-of-2^-16"
	case 2:
		return rapid.Float64Range(-90, 90).Draw(t, "deg"), "(-90,90)"
	case 3: // halfway between two representable values
		return (float64(rapid.Int32Range(-90*65536, 90*65536-1).Draw(t, "fix")) + 0.5) / 65536, "tie"
	case 4: // the whole range of a signed 16.16 number
		return float64(rapid.Int32().Draw(t, "fixAny")) / 65536, "any-16.16"
	case 5:
		return rapid.Float64Range(-32768, 32767.99999).Draw(t, "wide"), "wide"
	default:
		return rapid.Float64Range(-30, 30).Draw(t, "deg"), "typical"
	}
}

func genPostNames(t *rapid.T) []string {
	if rapid.IntRange(0, 2).Draw(t, "hasNames") != 0 {
		return nil
	}
	name := rapid.OneOf(
		rapid.SampledFrom([]string{".notdef", "space", "A", "a", "Aacute", "dcroat", "uni20AC", "f_i", "x"}),
		rapid.StringOfN(rapid.RuneFrom([]rune("abcXYZ019._")), 1, 63, 63),
	)
	return rapid.SliceOfN(name, 1, 40).Draw(t, "names")
}

func TestC12Post(t *testing.T) {
	rapid.Check(t, func(t *rapid.T) {
		var e extremes
		angle, aclass := genItalicAngle(t)
		p := &post.Info{
			ItalicAngle:        angle,
			UnderlinePosition:  funit.Int16(drawI16(t, &e, "ulPos")),
			UnderlineThickness: funit.Int16(drawI16(t, &e, "ulThick")),
			IsFixedPitch:       rapid.Bool().Draw(t, "fixed"),
			Names:              genPostNames(t),
		}
		cs := fmt.Sprintf("post.Info{ItalicAngle:%v (%#x) UnderlinePosition:%d UnderlineThickness:%d IsFixedPitch:%v Names:%q}",
			p.ItalicAngle, math.Float64bits(p.ItalicAngle), p.UnderlinePosition, p.UnderlineThickness, p.IsFixedPitch, p.Names)

		var data []byte
		if pn := guard.Try(func() { data = p.Encode() }); pn != nil {
			failf(t, "Encode: %s\ncase: %s", pn, cs)
		}
		if len(data) < 32 {
			failf(t, "post has %d bytes\ncase: %s", len(data), cs)
		}
		ver := u32(data, 0)
		if p.Names == nil && (ver != 0x00030000 || len(data) != 32) {
			failf(t, "post without names: version %#x, %d bytes\ncase: %s", ver, len(data), cs)
		}
		if p.Names != nil && ver != 0x00020000 && ver != 0x00010000 {
			failf(t, "post with names: version %#x\ncase: %s", ver, cs)
		}
		// italicAngle is a signed 16.16 number: the nearest one
		rawAngle := float64(i32(data, 4)) / 65536
		const half = 1.0 / 131072
		if d := math.Abs(rawAngle - angle); d > half*(1+1e-9) {
			failf(t, "italicAngle raw %v for %v: off by %g > 2^-17\ncase: %s", rawAngle, angle, d, cs)
		}
		if i16(data, 8) != int16(p.UnderlinePosition) || i16(data, 10) != int16(p.UnderlineThickness) {
			failf(t, "underlinePosition %d underlineThickness %d\ncase: %s", i16(data, 8), i16(data, 10), cs)
		}
		if u32(data, 12) != 0 != p.IsFixedPitch {
			failf(t, "isFixedPitch %d\ncase: %s", u32(data, 12), cs)
		}

		var dec *post.Info
		var err error
		if pn := guard.Try(func() { dec, err = post.Read(bytes.NewReader(data)) }); pn != nil {
			failf(t, "Read: %s\ncase: %s", pn, cs)
		}
		if err != nil {
			failf(t, "Read: %v\ncase: %s", err, cs)
		}
		if dec.ItalicAngle != rawAngle {
			failf(t, "decoded ItalicAngle %v, the table holds %v\ncase: %s", dec.ItalicAngle, rawAngle, cs)
		}
		if dec.UnderlinePosition != p.UnderlinePosition || dec.UnderlineThickness != p.UnderlineThickness || dec.IsFixedPitch != p.IsFixedPitch {
			failf(t, "decoded %+v\ncase: %s", dec, cs)
		}
		if (dec.Names == nil) != (p.Names == nil) || strings.Join(dec.Names, "\x00") != strings.Join(p.Names, "\x00") {
			failf(t, "decoded Names %q\ncase: %s", dec.Names, cs)
		}
		var data2 []byte
		if pn := guard.Try(func() { data2 = dec.Encode() }); pn != nil {
			failf(t, "second Encode: %s\ncase: %s", pn, cs)
		}
		if !bytes.Equal(data, data2) {
			failf(t, "second-generation bytes differ\ncase: %s", cs)
		}
		stats.CaseIn("post", stats.Hash(data), e.hit || aclass == "tie" || aclass == "any-16.16", func() string { return cs },
			"angle:"+aclass, lbl(e.hit, "extreme-field"), lbl(p.Names != nil, "names"))
	})
}
