package c12

import (
	"errors"
	"fmt"
	"sort"
)

// A minimal reader for the sfnt container and for the "cmap" formats 4 and
// 12, written from the OpenType specification ("otff", "cmap" chapters).
// It shares no code with the library under test.

type sfntFile struct {
	scaler uint32
	tables map[string][]byte
	tags   []string
}

func walkSfnt(data []byte) (*sfntFile, error) {
	if len(data) < 12 {
		return nil, errors.New("walker: file shorter than the offset table")
	}
	f := &sfntFile{scaler: u32(data, 0), tables: map[string][]byte{}}
	n := int(u16(data, 4))
	if len(data) < 12+16*n {
		return nil, errors.New("walker: truncated table directory")
	}
	for i := 0; i < n; i++ {
		rec := data[12+16*i:]
		tag := string(rec[:4])
		off, length := int64(u32(rec, 8)), int64(u32(rec, 12))
		if off+length > int64(len(data)) {
			return nil, fmt.Errorf("walker: table %q [%d,+%d) outside the file (%d bytes)", tag, off, length, len(data))
		}
		if off%4 != 0 {
			return nil, fmt.Errorf("walker: table %q at unaligned offset %d", tag, off)
		}
		if _, dup := f.tables[tag]; dup {
			return nil, fmt.Errorf("walker: table %q listed twice", tag)
		}
		f.tables[tag] = data[off : off+length]
		f.tags = append(f.tags, tag)
	}
	if !sort.StringsAreSorted(f.tags) {
		return nil, fmt.Errorf("walker: directory not sorted by tag: %q", f.tags)
	}
	return f, nil
}

type cmapKey struct{ platform, encoding uint16 }

// cmapSubtables returns the raw subtables of a cmap table by (platform, encoding).
func cmapSubtables(data []byte) (map[cmapKey][]byte, error) {
	if len(data) < 4 || u16(data, 0) != 0 {
		return nil, errors.New("walker: bad cmap header")
	}
	n := int(u16(data, 2))
	if len(data) < 4+8*n {
		return nil, errors.New("walker: truncated cmap header")
	}
	res := map[cmapKey][]byte{}
	for i := 0; i < n; i++ {
		rec := data[4+8*i:]
		off := int(u32(rec, 4))
		if off+4 > len(data) {
			return nil, errors.New("walker: cmap subtable offset outside the table")
		}
		res[cmapKey{u16(rec, 0), u16(rec, 2)}] = data[off:]
	}
	return res, nil
}

// cmapMapped returns the smallest and largest character code that the
// subtable maps to a glyph other than 0, and the number of such codes.
func cmapMapped(sub []byte) (low, high uint32, count int, err error) {
	note := func(code uint32, gid uint32) {
		if gid == 0 {
			return
		}
		if count == 0 || code < low {
			low = code
		}
		if count == 0 || code > high {
			high = code
		}
		count++
	}
	switch format := u16(sub, 0); format {
	case 4:
		if len(sub) < 14 {
			return 0, 0, 0, errors.New("walker: short format 4 subtable")
		}
		length := int(u16(sub, 2))
		if length > len(sub) || length < 16 {
			return 0, 0, 0, errors.New("walker: bad format 4 length")
		}
		sub = sub[:length]
		segX2 := int(u16(sub, 6))
		seg := segX2 / 2
		if 16+4*segX2 > length {
			return 0, 0, 0, errors.New("walker: format 4 arrays exceed the subtable")
		}
		endO, startO := 14, 14+segX2+2
		deltaO, rangeO := startO+segX2, startO+2*segX2
		for s := 0; s < seg; s++ {
			end, start := uint32(u16(sub, endO+2*s)), uint32(u16(sub, startO+2*s))
			delta, ro := u16(sub, deltaO+2*s), int(u16(sub, rangeO+2*s))
			for c := start; c <= end; c++ {
				var gid uint16
				if ro == 0 {
					gid = uint16(c) + delta
				} else {
					p := rangeO + 2*s + ro + 2*int(c-start)
					if p+2 > len(sub) {
						return 0, 0, 0, errors.New("walker: format 4 glyphIdArray index outside the subtable")
					}
					gid = u16(sub, p)
					if gid != 0 {
						gid += delta
					}
				}
				note(c, uint32(gid))
			}
		}
	case 12:
		if len(sub) < 16 {
			return 0, 0, 0, errors.New("walker: short format 12 subtable")
		}
		n := int(u32(sub, 12))
		if 16+12*n > len(sub) {
			return 0, 0, 0, errors.New("walker: format 12 groups exceed the subtable")
		}
		for g := 0; g < n; g++ {
			start, end, gid := u32(sub, 16+12*g), u32(sub, 20+12*g), u32(sub, 24+12*g)
			if end < start || end-start > 0x110000 {
				return 0, 0, 0, errors.New("walker: bad format 12 group")
			}
			for c := start; ; c++ {
				note(c, gid+(c-start))
				if c == end {
					break
				}
			}
		}
	default:
		return 0, 0, 0, fmt.Errorf("walker: cmap format %d not handled", format)
	}
	return low, high, count, nil
}

// bestCmap picks the subtable an application would use: full-repertoire
// Unicode first, then BMP Unicode (Windows before the Unicode platform),
// then Mac Roman.
func bestCmap(subs map[cmapKey][]byte) ([]byte, cmapKey, bool) {
	for _, k := range []cmapKey{{3, 10}, {0, 4}, {3, 1}, {0, 3}, {1, 0}} {
		if s, ok := subs[k]; ok {
			return s, k, true
		}
	}
	return nil, cmapKey{}, false
}
