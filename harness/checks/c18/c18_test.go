// C18: I/O faults and truncation surface as errors with accurate byte counts.
package c18

import (
	"bytes"
	"errors"
	"fmt"
	"io"
	"slices"
	"sort"
	"testing"

	"pgregory.net/rapid"

	"seehuhn.de/go/sfnt"
	"verif/harness/fontcmp"
	genfont "verif/harness/gen/font"
	"verif/harness/guard"
	"verif/harness/ref/refsfnt"
	"verif/harness/stats"
)

func TestMain(m *testing.M) { stats.MainExit(m) }

var errFault = errors.New("injected I/O fault")

// faultWriter accepts exactly limit bytes.
//
//	mode 0: the call that crosses the limit accepts the bytes up to the limit and fails
//	mode 1: the call that crosses the limit accepts nothing and fails
//	mode 2: like 0, but the fault is transient: later calls succeed again
type faultWriter struct {
	limit    int
	mode     int
	accepted int
	failed   bool
	calls    int
}

func (w *faultWriter) Write(p []byte) (int, error) {
	w.calls++
	if w.failed && w.mode != 2 {
		return 0, errFault
	}
	if w.failed && w.mode == 2 {
		w.accepted += len(p)
		return len(p), nil
	}
	if w.accepted+len(p) <= w.limit {
		w.accepted += len(p)
		return len(p), nil
	}
	w.failed = true
	n := 0
	if w.mode != 1 {
		n = w.limit - w.accepted
	}
	w.accepted += n
	return n, errFault
}

// faultReaderAt fails every access that touches an offset >= limit.
type faultReaderAt struct {
	data  []byte
	limit int
	// eofWithData: a read that ends exactly at the end of the input returns
	// its bytes together with io.EOF (io.ReaderAt allows either)
	eofWithData bool
}

func (r *faultReaderAt) ReadAt(p []byte, off int64) (int, error) {
	if off < 0 {
		return 0, errors.New("negative offset")
	}
	end := off + int64(len(p))
	if end > int64(len(r.data)) {
		end = int64(len(r.data))
	}
	if end > int64(r.limit) && len(p) > 0 {
		// deliver what lies before the fault, then fail (not EOF)
		n := 0
		if off < int64(r.limit) {
			n = copy(p, r.data[off:r.limit])
		}
		return n, errFault
	}
	if off >= int64(len(r.data)) {
		return 0, io.EOF
	}
	n := copy(p, r.data[off:])
	if n < len(p) || (r.eofWithData && off+int64(n) == int64(len(r.data)) && n > 0) {
		return n, io.EOF
	}
	return n, nil
}

// faultReader is a streaming reader that fails (not EOF) at limit.
type faultReader struct {
	data  []byte
	pos   int
	limit int
	chunk int
}

func (r *faultReader) Read(p []byte) (int, error) {
	if len(p) == 0 {
		return 0, nil
	}
	if r.pos >= r.limit && r.limit < len(r.data) {
		return 0, errFault
	}
	if r.pos >= len(r.data) {
		return 0, io.EOF
	}
	end := r.pos + len(p)
	if r.chunk > 0 && end > r.pos+r.chunk {
		end = r.pos + r.chunk
	}
	if end > len(r.data) {
		end = len(r.data)
	}
	if end > r.limit && r.limit < len(r.data) {
		end = r.limit
		n := copy(p, r.data[r.pos:end])
		r.pos = end
		return n, errFault
	}
	n := copy(p, r.data[r.pos:end])
	r.pos = end
	return n, nil
}

type writerFn struct {
	name     string
	hasCount bool
	fn       func(w io.Writer) (int64, error)
}

func writersOf(f *sfnt.Font) []writerFn {
	ws := []writerFn{{"Write", true, func(w io.Writer) (int64, error) { return f.Write(w) }}}
	if f.IsGlyf() {
		ws = append(ws, writerFn{"WriteTrueTypePDF", true, func(w io.Writer) (int64, error) { return f.WriteTrueTypePDF(w) }})
	}
	if f.IsCFF() {
		ws = append(ws, writerFn{"WriteOpenTypeCFFPDF", false, func(w io.Writer) (int64, error) { return 0, f.WriteOpenTypeCFFPDF(w) }})
		ws = append(ws, writerFn{"cff.Font.Write", false, func(w io.Writer) (int64, error) { return 0, f.AsCFF().Write(w) }})
	}
	return ws
}

// faultPoints returns the stratified (quick) or complete (thorough, small
// files) set of fault points for a file of length L with the given
// structural boundaries.
func faultPoints(t *rapid.T, L int, bounds []int, all bool) []int {
	set := map[int]bool{0: true, L: true}
	add := func(k int) {
		if k >= 0 && k <= L {
			set[k] = true
		}
	}
	if all {
		for k := 0; k <= L; k++ {
			set[k] = true
		}
	} else {
		for k := 0; k < 600; k++ {
			add(k)
		}
		for _, b := range bounds {
			for d := -2; d <= 2; d++ {
				add(b + d)
			}
		}
		start := rapid.IntRange(0, 96).Draw(t, "stride0")
		for k := start; k <= L; k += 97 {
			add(k)
		}
		for i := 0; i < 20; i++ {
			add(rapid.IntRange(0, L).Draw(t, "k"))
		}
		add(L - 1)
		add(L - 2)
		add(L - 3)
	}
	ks := make([]int, 0, len(set))
	for k := range set {
		ks = append(ks, k)
	}
	sort.Ints(ks)
	return ks
}

func opts() genfont.Opts {
	o := genfont.Opts{MaxGlyphs: 30}
	if stats.Thorough() {
		o.MaxGlyphs = 300
	}
	return o
}

func TestC18Writers(t *testing.T) {
	rapid.Check(t, func(t *rapid.T) {
		o := opts()
		if rapid.IntRange(0, 5).Draw(t, "bigTable") == 0 {
			// a table of more than 128 KiB (a writer may hand large tables
			// to the destination in pieces)
			o.Kind, o.MinGlyphs, o.MaxGlyphs, o.BigGlyf, o.NoComposites = genfont.KindGlyf, 10, 30, true, true
		}
		c := genfont.Gen(o).Draw(t, "font")
		f := c.Font
		for _, w := range writersOf(f) {
			var clean bytes.Buffer
			n, err := w.fn(&clean)
			if err != nil {
				t.Fatalf("%s failed without fault: %v\n%s", w.name, err, c)
			}
			L := clean.Len()
			if w.hasCount && n != int64(L) {
				t.Fatalf("%s: success with count %d, %d bytes written\n%s", w.name, n, L, c)
			}
			var bounds []int
			if rf, err := refsfnt.Parse(clean.Bytes()); err == nil && w.name != "cff.Font.Write" {
				bounds = append(bounds, 12+16*rf.NumTables)
				for _, r := range rf.Records {
					bounds = append(bounds, int(r.Offset), int(r.Offset+r.Length))
				}
			}
			all := stats.Thorough() && L <= 6000
			for _, k := range faultPoints(t, L, bounds, all) {
				for mode := 0; mode < 3; mode++ {
					fw := &faultWriter{limit: k, mode: mode}
					var n int64
					var err error
					if pn := guard.Try(func() { n, err = w.fn(fw) }); pn != nil {
						t.Fatalf("%s panicked with a writer failing after %d of %d bytes (mode %d): %s\n%s", w.name, k, L, mode, pn, c)
					}
					if k < L {
						if err == nil {
							t.Fatalf("%s: no error although the writer failed after %d of %d bytes (mode %d)\n%s", w.name, k, L, mode, c)
						}
					} else if err != nil {
						t.Fatalf("%s: error %v although the writer accepted all %d bytes\n%s", w.name, err, L, c)
					}
					if w.hasCount && n != int64(fw.accepted) {
						t.Fatalf("%s: returned count %d, destination accepted %d (limit %d of %d, mode %d, err=%v)\n%s", w.name, n, fw.accepted, k, L, mode, err, c)
					}
				}
				inside := k > 0 && k < L
				stats.CaseIn("writers", stats.Hash(clean.Bytes(), w.name, k), inside, func() string {
					return fmt.Sprintf("%s of %s: writer fails after %d of %d bytes (3 modes)", w.name, c, k, L)
				}, w.name)
			}
		}
	})
}

func TestC18Readers(t *testing.T) {
	rapid.Check(t, func(t *rapid.T) {
		c := genfont.Gen(opts()).Draw(t, "font")
		var buf bytes.Buffer
		if _, err := c.Font.Write(&buf); err != nil {
			t.Fatalf("Write failed: %v", err)
		}
		type fileVariant struct {
			variant string
			b       []byte
		}
		files := []fileVariant{{"as written", buf.Bytes()}}
		if rf0, err := refsfnt.Parse(buf.Bytes()); err == nil {
			if rapid.Bool().Draw(t, "emptyLast") {
				// corpus variant: the same tables re-assembled in tag order with an
				// empty table as the physically last one
				tables := rf0.Tables()
				tables[rapid.SampledFrom([]string{"zzzz", "prep", "vmtx"}).Draw(t, "emptyTag")] = []byte{}
				files = append(files, fileVariant{"re-assembled with an empty last table", refsfnt.Assemble(rf0.Scaler, tables)})
			} else {
				// corpus variant: files as other tools write them - tables the
				// library does not interpret (signature, bitmaps, metadata) among
				// its own, and the table data in another physical order
				tables := rf0.Tables()
				foreign := []string{"DSIG"}
				if rapid.Bool().Draw(t, "secondForeign") {
					foreign = append(foreign, rapid.SampledFrom([]string{"EBDT", "EBLC", "zzzz", "meta", "LTSH", "FFTM"}).Draw(t, "foreignTag"))
				}
				for _, tag := range foreign {
					tables[tag] = rapid.SliceOfN(rapid.Byte(), 1, 300).Draw(t, "foreignData")
				}
				var order []string
				for tag := range tables {
					order = append(order, tag)
				}
				sort.Strings(order)
				order = rapid.Permutation(order).Draw(t, "physicalOrder")
				if rapid.IntRange(0, 3).Draw(t, "foreignLast") != 0 {
					// a foreign table is the physically last one
					last := rapid.SampledFrom(foreign).Draw(t, "lastTable")
					order = append(slices.DeleteFunc(order, func(x string) bool { return x == last }), last)
				}
				files = append(files, fileVariant{"re-assembled with foreign tables (last: " + order[len(order)-1] + ")", refsfnt.AssembleOrdered(rf0.Scaler, tables, order)})
			}
		}
		for _, fv := range files {
			b, variant := fv.b, fv.variant
			L := len(b)
			clean, err := sfnt.Read(bytes.NewReader(b))
			if err != nil {
				t.Fatalf("clean Read failed (%s): %v\n%s", variant, err, c)
			}
			rf, err := refsfnt.Parse(b)
			if err != nil {
				t.Fatalf("%v", err)
			}
			// needed bytes: directory and every table's data
			D := 12 + 16*rf.NumTables
			var bounds []int
			bounds = append(bounds, D)
			type span struct{ a, b int }
			var spans []span
			for _, r := range rf.Records {
				bounds = append(bounds, int(r.Offset), int(r.Offset+r.Length))
				spans = append(spans, span{int(r.Offset), int(r.Offset + r.Length)})
				if e := int(r.Offset + r.Length); e > D {
					D = e
				}
			}
			all := stats.Thorough() && L <= 4000
			for _, k := range faultPoints(t, L, bounds, all) {
				type attempt struct {
					name string
					mk   func() io.Reader
				}
				attempts := []attempt{
					{"truncated/ReaderAt", func() io.Reader { return bytes.NewReader(b[:k]) }},
					{"truncated/Reader", func() io.Reader { return &faultReader{data: b[:k], limit: k} }},
					{"fault/ReaderAt", func() io.Reader { return readerAtOnly{&faultReaderAt{data: b, limit: k}} }},
					{"fault/ReaderAt(EOF with the last bytes)", func() io.Reader { return readerAtOnly{&faultReaderAt{data: b, limit: k, eofWithData: true}} }},
					{"fault/Reader", func() io.Reader { return &faultReader{data: b, limit: k, chunk: 512} }},
				}
				for _, a := range attempts {
					var g *sfnt.Font
					var err error
					r := a.mk()
					if pn := guard.Try(func() { g, err = sfnt.Read(r) }); pn != nil {
						t.Fatalf("%s at %d of %d: Read panicked: %s\n%s\n%s", a.name, k, L, pn, c, pn.Stack)
					}
					if err == nil {
						if k < D {
							t.Fatalf("%s at %d of %d: Read succeeded although table data extends to %d\n%s", a.name, k, L, D, c)
						}
						if d := fontcmp.Diff(clean, g); d != "" {
							t.Fatalf("%s at %d of %d: Read succeeded with a different font: %s\n%s", a.name, k, L, d, c)
						}
					} else if k >= L {
						t.Fatalf("%s at %d of %d (complete file): Read failed: %v\n%s", a.name, k, L, err, c)
					}
				}
				inside := k < 12+16*rf.NumTables
				for _, s := range spans {
					if k > s.a && k < s.b {
						inside = true
					}
				}
				stats.CaseIn("readers", stats.Hash(b, k), inside, func() string {
					return fmt.Sprintf("%s (%s): fault/truncation at %d of %d (4 reader flavours)", c, variant, k, L)
				}, variant)
			}
		}
	})
}

// readerAtOnly is an io.Reader that is also an io.ReaderAt; sfnt.Read uses
// the ReaderAt interface when present.
type readerAtOnly struct{ r *faultReaderAt }

func (x readerAtOnly) Read(p []byte) (int, error) {
	return 0, errors.New("sequential Read must not be used when ReaderAt is available")
}
func (x readerAtOnly) ReadAt(p []byte, off int64) (int, error) { return x.r.ReadAt(p, off) }
