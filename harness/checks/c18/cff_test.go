package c18

import (
	"bytes"
	"fmt"
	"io"
	"testing"

	"pgregory.net/rapid"

	"seehuhn.de/go/sfnt/cff"
	"verif/harness/fontcmp"
	genfont "verif/harness/gen/font"
	"verif/harness/guard"
	"verif/harness/ref/refcff"
	"verif/harness/stats"
)

// seekFault is a ReadSeeker with a size over data[:size] that delivers at
// most chunk bytes per Read (0: no limit) and fails (not with EOF) for any
// read touching an offset >= limit when limit < size.
type seekFault struct {
	data  []byte
	size  int
	limit int
	chunk int
	pos   int64
}

func (r *seekFault) Size() int64 { return int64(r.size) }

func (r *seekFault) Seek(off int64, whence int) (int64, error) {
	switch whence {
	case io.SeekCurrent:
		off += r.pos
	case io.SeekEnd:
		off += int64(r.size)
	}
	if off < 0 {
		return r.pos, fmt.Errorf("seek before start")
	}
	r.pos = off
	return off, nil
}

func (r *seekFault) Read(p []byte) (int, error) {
	if len(p) == 0 {
		return 0, nil
	}
	if r.pos >= int64(r.size) {
		return 0, io.EOF
	}
	end := r.pos + int64(len(p))
	if r.chunk > 0 && end > r.pos+int64(r.chunk) {
		end = r.pos + int64(r.chunk)
	}
	if end > int64(r.size) {
		end = int64(r.size)
	}
	if r.limit < r.size && end > int64(r.limit) {
		n := 0
		if r.pos < int64(r.limit) {
			n = copy(p, r.data[r.pos:r.limit])
			r.pos += int64(n)
		}
		return n, errFault
	}
	n := copy(p, r.data[r.pos:end])
	r.pos += int64(n)
	return n, nil
}

// TestC18BareCFF applies the reading half of the property to the other file
// format the library reads and writes on its own: a bare CFF font program
// (cff.Read, the counterpart of cff.Font.Write).  A source cut short or
// failing at byte k gives an error - or, where the missing bytes are not
// needed, exactly the font the complete source gives - and never a panic or
// a different font.  Readers that deliver the data in small pieces (as any
// io.Reader may) give the same font as one that delivers it at once.
func TestC18BareCFF(t *testing.T) {
	rapid.Check(t, func(t *rapid.T) {
		o := opts()
		o.Kind = rapid.SampledFrom([]genfont.Kind{genfont.KindCFF, genfont.KindCID}).Draw(t, "kind")
		o.Layout = genfont.LayoutNone
		c := genfont.Gen(o).Draw(t, "font")
		var buf bytes.Buffer
		if err := c.Font.AsCFF().Write(&buf); err != nil {
			t.Fatalf("cff.Font.Write failed: %v\n%s", err, c)
		}
		b := buf.Bytes()
		L := len(b)
		clean, err := cff.Read(bytes.NewReader(b))
		if err != nil {
			t.Fatalf("clean cff.Read failed: %v\n%s", err, c)
		}
		want := fontcmp.Dump(clean)
		// complete data, delivered in pieces
		for _, chunk := range []int{1, 3, 7, 64, 1000} {
			var g *cff.Font
			var err error
			r := &seekFault{data: b, size: L, limit: L, chunk: chunk}
			if pn := guard.Try(func() { g, err = cff.Read(r) }); pn != nil {
				t.Fatalf("cff.Read panicked on a reader delivering %d bytes per call: %s\n%s\n%s", chunk, pn, c, pn.Stack)
			}
			if err != nil {
				t.Fatalf("cff.Read failed on a complete source delivered %d bytes per call: %v\n%s", chunk, err, c)
			}
			if got := fontcmp.Dump(g); got != want {
				t.Fatalf("cff.Read gives a different font when the source delivers %d bytes per call\n%s", chunk, c)
			}
		}
		all := stats.Thorough() && L <= 3000
		for _, k := range faultPoints(t, L, nil, all) {
			if k >= L {
				continue
			}
			type attempt struct {
				name string
				r    *seekFault
			}
			attempts := []attempt{
				{"truncated", &seekFault{data: b, size: k, limit: k}},
				{"truncated/chunks", &seekFault{data: b, size: k, limit: k, chunk: 5}},
				{"fault", &seekFault{data: b, size: L, limit: k}},
				{"fault/chunks", &seekFault{data: b, size: L, limit: k, chunk: 512}},
			}
			rejected := 0
			for _, a := range attempts {
				var g *cff.Font
				var err error
				if pn := guard.Try(func() { g, err = cff.Read(a.r) }); pn != nil {
					t.Fatalf("%s at %d of %d: cff.Read panicked: %s\n%s\n%s", a.name, k, L, pn, c, pn.Stack)
				}
				if err != nil {
					rejected++
					continue
				}
				if got := fontcmp.Dump(g); got != want {
					t.Fatalf("%s at %d of %d: cff.Read succeeded with a different font than the complete source gives\n%s", a.name, k, L, c)
				}
			}
			lab := "all-rejected"
			if rejected < len(attempts) {
				lab = "accepted-unneeded-tail"
			}
			stats.CaseIn("bare-cff", stats.Hash(b, k), k > 4, func() string {
				return fmt.Sprintf("bare CFF of %s: fault/truncation at %d of %d (4 reader flavours)", c, k, L)
			}, lab)
		}
	})
}

// TestC18ForeignCFF is the truncation clause for bare CFF programs as other
// producers write them (assembled by the harness's own CFF writer): global
// and local subroutine INDEXes that no glyph calls, INDEX data areas larger
// than the reader's 1 KiB buffer, offSize 1-4, a gap between the Private
// DICTs and the local subroutines.  In these files every byte lies inside a
// structure the format declares and that is referenced from the Top DICT or
// a Private DICT, and the last declared structure ends exactly at the end of
// the file, so a source cut short at ANY k < len must be rejected ("truncated
// anywhere inside its table data"); a source that fails (rather than ends) at
// k may alternatively give exactly the font the complete source gives.
func TestC18ForeignCFF(t *testing.T) {
	rapid.Check(t, func(t *rapid.T) {
		filler := func(lab string, n int) []byte {
			seed := rapid.Uint64().Draw(t, lab)
			b := make([]byte, n)
			for i := range b {
				seed = seed*6364136223846793005 + 1442695040888963407
				b[i] = byte(seed >> 56)
			}
			if n > 0 {
				b[n-1] = 11 // return
			}
			return b
		}
		sizes := func(lab string) [][]byte {
			var res [][]byte
			for i := rapid.IntRange(0, 4).Draw(t, lab+"N"); i > 0; i-- {
				n := rapid.SampledFrom([]int{1, 2, 30, 600, 1023, 1024, 1025, 1500, 2100}).Draw(t, lab+"Len")
				res = append(res, filler(lab+"Fill", n))
			}
			return res
		}
		spec := refcff.Spec{FontName: "Foreign", IndexOffSize: rapid.SampledFrom([]int{0, 0, 2, 3, 4}).Draw(t, "offSize"),
			Gap: rapid.SampledFrom([]int{0, 0, 3, 1100}).Draw(t, "gap")}
		spec.GSubrs = sizes("gsubr")
		nGlyphs := rapid.IntRange(1, 6).Draw(t, "nGlyphs")
		for i := 0; i < nGlyphs; i++ {
			// [dx dy rmoveto] [dx dy rlineto]* endchar, no subroutine calls
			cs := []byte{139 + byte(i), 139, 21}
			for k := rapid.IntRange(0, 3).Draw(t, "nLines"); k > 0; k-- {
				cs = append(cs, byte(rapid.IntRange(32, 246).Draw(t, "dx")), byte(rapid.IntRange(32, 246).Draw(t, "dy")), 5)
			}
			spec.CharStrings = append(spec.CharStrings, append(cs, 14))
		}
		spec.CID = rapid.Bool().Draw(t, "cid")
		nFD := 1
		if spec.CID {
			nFD = rapid.IntRange(1, 3).Draw(t, "nFD")
			spec.FDSelectFormat = rapid.SampledFrom([]int{0, 3}).Draw(t, "fdSelectFormat")
			for i := 0; i < nGlyphs; i++ {
				spec.FDSelect = append(spec.FDSelect, rapid.IntRange(0, nFD-1).Draw(t, "fd"))
			}
		}
		for i := 0; i < nFD; i++ {
			spec.FDs = append(spec.FDs, refcff.FDSpec{Subrs: sizes(fmt.Sprintf("lsubr%d", i)), DefaultWidthX: 500})
		}
		// the last FD always has a Subrs INDEX that ends the file
		if last := &spec.FDs[nFD-1]; len(last.Subrs) == 0 {
			last.Subrs = [][]byte{filler("tail", rapid.SampledFrom([]int{1, 700, 1800}).Draw(t, "tailLen"))}
		}
		var b []byte
		if pn := guard.Try(func() { b = refcff.Build(spec) }); pn != nil {
			t.Skip("not assembled")
		}
		L := len(b)
		clean, err := cff.Read(bytes.NewReader(b))
		if err != nil {
			// the harness's writer and the library disagree on a complete file: C05/C13 judge that
			stats.Label("foreign-cff", "complete-file-rejected")
			t.Skip("complete file rejected: " + err.Error())
		}
		want := fontcmp.Dump(clean)
		big := false
		for _, ss := range append([][][]byte{spec.GSubrs}, func() (r [][][]byte) {
			for _, fd := range spec.FDs {
				r = append(r, fd.Subrs)
			}
			return
		}()...) {
			total := 0
			for _, s := range ss {
				total += len(s)
			}
			big = big || total > 1024
		}
		all := stats.Thorough() && L <= 4000
		for _, k := range faultPoints(t, L, nil, all) {
			if k >= L {
				continue
			}
			for _, chunk := range []int{0, 5, 700} {
				var err error
				r := &seekFault{data: b, size: k, limit: k, chunk: chunk}
				if pn := guard.Try(func() { _, err = cff.Read(r) }); pn != nil {
					t.Fatalf("truncated at %d of %d (chunk %d): cff.Read panicked: %s\n%s", k, L, chunk, pn, pn.Stack)
				}
				if err == nil {
					t.Fatalf("cff.Read accepts a font program cut short at byte %d of %d (source delivers %d bytes per call; the file's last declared structure ends at %d): spec=%+v", k, L, chunk, L, specSummary(spec))
				}
			}
			var g *cff.Font
			r := &seekFault{data: b, size: L, limit: k, chunk: 0}
			if pn := guard.Try(func() { g, err = cff.Read(r) }); pn != nil {
				t.Fatalf("fault at %d of %d: cff.Read panicked: %s\n%s", k, L, pn, pn.Stack)
			}
			if err == nil && fontcmp.Dump(g) != want {
				t.Fatalf("fault at %d of %d: cff.Read succeeded with a different font than the complete source gives", k, L)
			}
			lab := "index-data<=1KiB"
			if big {
				lab = "index-data>1KiB"
			}
			stats.CaseIn("foreign-cff", stats.Hash(b, k), k > 4, func() string {
				return fmt.Sprintf("harness-written CFF (%s): truncation/fault at %d of %d", specSummary(spec), k, L)
			}, lab, fmt.Sprintf("offSize-%d", spec.IndexOffSize))
		}
	})
}

func specSummary(s refcff.Spec) string {
	lens := func(ss [][]byte) []int {
		var r []int
		for _, x := range ss {
			r = append(r, len(x))
		}
		return r
	}
	out := fmt.Sprintf("cid=%v glyphs=%d offSize=%d gap=%d gsubrs=%v", s.CID, len(s.CharStrings), s.IndexOffSize, s.Gap, lens(s.GSubrs))
	for i, fd := range s.FDs {
		out += fmt.Sprintf(" subrs[%d]=%v", i, lens(fd.Subrs))
	}
	return out
}
