package c18

import (
	"bytes"
	"fmt"
	"io"
	"testing"

	"pgregory.net/rapid"

	"seehuhn.de/go/sfnt/cff"
	"verif/harness/fontcmp"
	genfont "verif/harness/gen/font"
	"verif/harness/guard"
	"verif/harness/stats"
)

// seekFault is a ReadSeeker with a size over data[:size] that delivers at
// most chunk bytes per Read (0: no limit) and fails (not with EOF) for any
// read touching an offset >= limit when limit < size.
type seekFault struct {
	data  []byte
	size  int
	limit int
	chunk int
	pos   int64
}

func (r *seekFault) Size() int64 { return int64(r.size) }

func (r *seekFault) Seek(off int64, whence int) (int64, error) {
	switch whence {
	case io.SeekCurrent:
		off += r.pos
	case io.SeekEnd:
		off += int64(r.size)
	}
	if off < 0 {
		return r.pos, fmt.Errorf("seek before start")
	}
	r.pos = off
	return off, nil
}

func (r *seekFault) Read(p []byte) (int, error) {
	if len(p) == 0 {
		return 0, nil
	}
	if r.pos >= int64(r.size) {
		return 0, io.EOF
	}
	end := r.pos + int64(len(p))
	if r.chunk > 0 && end > r.pos+int64(r.chunk) {
		end = r.pos + int64(r.chunk)
	}
	if end > int64(r.size) {
		end = int64(r.size)
	}
	if r.limit < r.size && end > int64(r.limit) {
		n := 0
		if r.pos < int64(r.limit) {
			n = copy(p, r.data[r.pos:r.limit])
			r.pos += int64(n)
		}
		return n, errFault
	}
	n := copy(p, r.data[r.pos:end])
	r.pos += int64(n)
	return n, nil
}

// TestC18BareCFF applies the reading half of the property to the other file
// format the library reads and writes on its own: a bare CFF font program
// (cff.Read, the counterpart of cff.Font.Write).  A source cut short or
// failing at byte k gives an error - or, where the missing bytes are not
// needed, exactly the font the complete source gives - and never a panic or
// a different font.  Readers that deliver the data in small pieces (as any
// io.Reader may) give the same font as one that delivers it at once.
func TestC18BareCFF(t *testing.T) {
	rapid.Check(t, func(t *rapid.T) {
		o := opts()
		o.Kind = rapid.SampledFrom([]genfont.Kind{genfont.KindCFF, genfont.KindCID}).Draw(t, "kind")
		o.Layout = genfont.LayoutNone
		c := genfont.Gen(o).Draw(t, "font")
		var buf bytes.Buffer
		if err := c.Font.AsCFF().Write(&buf); err != nil {
			t.Fatalf("cff.Font.Write failed: %v\n%s", err, c)
		}
		b := buf.Bytes()
		L := len(b)
		clean, err := cff.Read(bytes.NewReader(b))
		if err != nil {
			t.Fatalf("clean cff.Read failed: %v\n%s", err, c)
		}
		want := fontcmp.Dump(clean)
		// complete data, delivered in pieces
		for _, chunk := range []int{1, 3, 7, 64, 1000} {
			var g *cff.Font
			var err error
			r := &seekFault{data: b, size: L, limit: L, chunk: chunk}
			if pn := guard.Try(func() { g, err = cff.Read(r) }); pn != nil {
				t.Fatalf("cff.Read panicked on a reader delivering %d bytes per call: %s\n%s\n%s", chunk, pn, c, pn.Stack)
			}
			if err != nil {
				t.Fatalf("cff.Read failed on a complete source delivered %d bytes per call: %v\n%s", chunk, err, c)
			}
			if got := fontcmp.Dump(g); got != want {
				t.Fatalf("cff.Read gives a different font when the source delivers %d bytes per call\n%s", chunk, c)
			}
		}
		all := stats.Thorough() && L <= 3000
		for _, k := range faultPoints(t, L, nil, all) {
			if k >= L {
				continue
			}
			type attempt struct {
				name string
				r    *seekFault
			}
			attempts := []attempt{
				{"truncated", &seekFault{data: b, size: k, limit: k}},
				{"truncated/chunks", &seekFault{data: b, size: k, limit: k, chunk: 5}},
				{"fault", &seekFault{data: b, size: L, limit: k}},
				{"fault/chunks", &seekFault{data: b, size: L, limit: k, chunk: 512}},
			}
			rejected := 0
			for _, a := range attempts {
				var g *cff.Font
				var err error
				if pn := guard.Try(func() { g, err = cff.Read(a.r) }); pn != nil {
					t.Fatalf("%s at %d of %d: cff.Read panicked: %s\n%s\n%s", a.name, k, L, pn, c, pn.Stack)
				}
				if err != nil {
					rejected++
					continue
				}
				if got := fontcmp.Dump(g); got != want {
					t.Fatalf("%s at %d of %d: cff.Read succeeded with a different font than the complete source gives\n%s", a.name, k, L, c)
				}
			}
			lab := "all-rejected"
			if rejected < len(attempts) {
				lab = "accepted-unneeded-tail"
			}
			stats.CaseIn("bare-cff", stats.Hash(b, k), k > 4, func() string {
				return fmt.Sprintf("bare CFF of %s: fault/truncation at %d of %d (4 reader flavours)", c, k, L)
			}, lab)
		}
	})
}
