package c18

import (
	"bytes"
	"errors"
	"fmt"
	"io"
	"testing"

	"golang.org/x/image/font/gofont/goregular"
	"pgregory.net/rapid"

	"seehuhn.de/go/sfnt"
	"verif/harness/fontcmp"
	genfont "verif/harness/gen/font"
	"verif/harness/guard"
	"verif/harness/ref/refsfnt"
	"verif/harness/stats"
)

// regionReaderAt is a seekable source in which only a region is unreadable
// (a bad sector), or which starts failing after a number of successful
// accesses (a network file going away).  Accesses touching [lo,hi) deliver
// what lies before lo and then fail with a non-EOF error; with after >= 0
// every access from number after+1 on fails.
type regionReaderAt struct {
	data     []byte
	lo, hi   int
	after    int // -1: no access budget
	accesses int
}

func (r *regionReaderAt) Read(p []byte) (int, error) {
	return 0, errors.New("sequential Read must not be used when ReaderAt is available")
}

func (r *regionReaderAt) ReadAt(p []byte, off int64) (int, error) {
	r.accesses++
	if r.after >= 0 && r.accesses > r.after {
		return 0, errFault
	}
	if off < 0 {
		return 0, errors.New("negative offset")
	}
	if off >= int64(len(r.data)) {
		return 0, io.EOF
	}
	end := off + int64(len(p))
	if end > int64(len(r.data)) {
		end = int64(len(r.data))
	}
	if len(p) > 0 && off < int64(r.hi) && end > int64(r.lo) {
		n := 0
		if off < int64(r.lo) {
			n = copy(p, r.data[off:r.lo])
		}
		return n, errFault
	}
	n := copy(p, r.data[off:end])
	if n < len(p) {
		return n, io.EOF
	}
	return n, nil
}

// TestC18RegionFaults: faults that header-level probing cannot see.  The
// reader of the property "starts failing at any offset that is needed"; here
// the source fails only inside one table (whole table, first half, second
// half, one byte) or from the n-th access on.  The oracle is the part of the
// clause that holds for every correct reader whatever it buffers: the result
// is an error or exactly the font the intact source gives - never a font
// that silently lacks what the unreadable bytes held - and never a panic.
func TestC18RegionFaults(t *testing.T) {
	rapid.Check(t, func(t *rapid.T) {
		var b []byte
		desc := "goregular"
		if rapid.IntRange(0, 5).Draw(t, "goregular") == 0 {
			b = goregular.TTF
		} else {
			o := opts()
			// TrueType fonts with hinting tables twice as often as the others
			o.Kind = rapid.SampledFrom([]genfont.Kind{genfont.KindGlyf, genfont.KindGlyf, genfont.KindCFF, genfont.KindCID}).Draw(t, "kind")
			c := genfont.Gen(o).Draw(t, "font")
			var buf bytes.Buffer
			if _, err := c.Font.Write(&buf); err != nil {
				t.Fatalf("Write failed: %v", err)
			}
			b = buf.Bytes()
			desc = c.String()
		}
		L := len(b)
		counting := &regionReaderAt{data: b, after: -1}
		clean, err := sfnt.Read(counting)
		if err != nil {
			t.Fatalf("clean Read failed: %v\n%s", err, desc)
		}
		total := counting.accesses
		rf, err := refsfnt.Parse(b)
		if err != nil {
			t.Fatalf("%v", err)
		}
		try := func(r *regionReaderAt, what, tag string) {
			var g *sfnt.Font
			var err error
			if pn := guard.Try(func() { g, err = sfnt.Read(r) }); pn != nil {
				t.Fatalf("%s: Read panicked: %s\n%s\n%s", what, pn, desc, pn.Stack)
			}
			lab := "rejected"
			if err == nil {
				lab = "accepted-same-font"
				if d := fontcmp.Diff(clean, g); d != "" {
					t.Fatalf("%s: Read reports success but returns a different font than the intact source gives: %s\n%s", what, d, desc)
				}
			}
			stats.CaseIn("region-faults", stats.Hash(b, what), true, func() string {
				return fmt.Sprintf("%s (%d bytes): %s -> %s", desc, L, what, lab)
			}, lab, tag)
		}
		for _, rec := range rf.Records {
			a, e := int(rec.Offset), int(rec.Offset+rec.Length)
			if e <= a || e > L {
				continue
			}
			mid := a + (e-a)/2
			one := a + rapid.IntRange(0, e-a-1).Draw(t, "byteIn"+rec.Tag)
			for _, reg := range [][2]int{{a, e}, {a, max(mid, a+1)}, {min(mid, e-1), e}, {one, one + 1}} {
				try(&regionReaderAt{data: b, lo: reg[0], hi: reg[1], after: -1},
					fmt.Sprintf("bytes %d..%d of table %q (%d..%d) unreadable", reg[0], reg[1], rec.Tag, a, e), "region:"+rec.Tag)
			}
		}
		// the directory
		try(&regionReaderAt{data: b, lo: 12, hi: 12 + 16*rf.NumTables, after: -1}, "directory unreadable", "region:directory")
		// access budgets: every n for short runs, else the ends and a stride
		for n := 0; n < total; n++ {
			if total > 120 && n > 20 && n < total-40 && n%7 != 0 {
				continue
			}
			try(&regionReaderAt{data: b, after: n}, fmt.Sprintf("source fails from access %d of %d on", n+1, total), "access-budget")
		}
	})
}
