// C01: whole-font write/read round trip and byte fixed point.
package c01

import (
	"bytes"
	"fmt"
	"math"
	"sort"
	"strings"
	"testing"
	"verif/harness/ref/refsfnt"

	"pgregory.net/rapid"

	"seehuhn.de/go/postscript/funit"
	"seehuhn.de/go/sfnt"
	"seehuhn.de/go/sfnt/cff"
	"seehuhn.de/go/sfnt/glyf"
	"seehuhn.de/go/sfnt/glyph"
	"verif/harness/fontcmp"
	genfont "verif/harness/gen/font"
	"verif/harness/guard"
	"verif/harness/stats"
)

func TestMain(m *testing.M) { stats.MainExit(m) }

// glyphHeight is the top of the glyph's bounding box (0 for blank glyphs).
func glyphHeight(f *sfnt.Font, gid glyph.ID) funit.Int16 {
	return f.GlyphBBox(gid).URy
}

// normalise applies the documented merge rules of read.go to the expected
// side (DESIGN.md §4 C01).  It returns a shallow copy.
func normalise(f *sfnt.Font) *sfnt.Font {
	e := f.Clone()
	sub := f.Subfamily()
	e.IsItalic = f.IsItalic || f.IsOblique || f.ItalicAngle != 0
	e.IsBold = f.IsBold || (strings.Contains(sub, "Bold") && !strings.Contains(sub, "Semi Bold") && !strings.Contains(sub, "Extra Bold"))
	e.IsRegular = f.IsRegular && !e.IsItalic && !e.IsBold
	e.UnderlinePosition = funit.Float64(math.Round(float64(f.UnderlinePosition)))
	e.UnderlineThickness = funit.Float64(math.Round(float64(f.UnderlineThickness)))
	if f.IsSerif {
		e.IsScript = false
	}
	best, _ := f.CMapTable.GetBest()
	lookup := func(r rune) glyph.ID {
		if best == nil {
			return 0
		}
		gid := best.Lookup(r)
		if int(gid) >= f.NumGlyphs() {
			return 0
		}
		return gid
	}
	if f.CapHeight <= 0 {
		e.CapHeight = 0
		if gid := lookup('H'); gid != 0 {
			e.CapHeight = glyphHeight(f, gid)
		}
	}
	if o, ok := f.Outlines.(*glyf.Outlines); ok && o.Tables != nil {
		// empty cvt/fpgm/prep/gasp tables are written with length 0 and not
		// reported by the reader
		o2 := *o
		o2.Tables = map[string][]byte{}
		for k, v := range o.Tables {
			if len(v) > 0 {
				o2.Tables[k] = v
			}
		}
		e.Outlines = &o2
	}
	if o, ok := f.Outlines.(*cff.Outlines); ok {
		// advance widths are stored in hmtx, a table of 16-bit integers
		// (the writer drops the fraction)
		var glyphs []*cff.Glyph
		for i, g := range o.Glyphs {
			if w := float64(funit.Int16(g.Width)); w != g.Width {
				if glyphs == nil {
					glyphs = append(glyphs, o.Glyphs...)
				}
				g2 := *g
				g2.Width = w
				glyphs[i] = &g2
			}
		}
		if glyphs != nil {
			o2 := *o
			o2.Glyphs = glyphs
			e.Outlines = &o2
		}
	}
	if f.XHeight <= 0 {
		e.XHeight = 0
		if gid := lookup('x'); gid != 0 {
			e.XHeight = glyphHeight(f, gid)
		}
	}
	return e
}

func write(f *sfnt.Font) (data []byte, err error, pn *guard.Panic) {
	pn = guard.Try(func() {
		var buf bytes.Buffer
		_, err = f.Write(&buf)
		data = buf.Bytes()
	})
	return
}

// nestingWriter is a destination that, when it receives its first chunk,
// writes another font completely before returning.
type nestingWriter struct {
	buf, inner bytes.Buffer
	other      *sfnt.Font
	done       bool
	err        error
}

func (w *nestingWriter) Write(p []byte) (int, error) {
	if !w.done {
		w.done = true
		_, w.err = w.other.Write(&w.inner)
	}
	return w.buf.Write(p)
}

func mustWrite(f *sfnt.Font) []byte {
	b, _, _ := write(f)
	return b
}

func read(b []byte) (f *sfnt.Font, err error, pn *guard.Panic) {
	pn = guard.Try(func() { f, err = sfnt.Read(bytes.NewReader(b)) })
	return
}

func opts() genfont.Opts {
	o := genfont.Opts{MaxGlyphs: 40, NilMaxp: true}
	if stats.Thorough() {
		o.MaxGlyphs = 3000
	}
	return o
}

// checkValue is part (a): Read(Write(F)) == normal-form(F), Write deterministic.
func checkValue(t *rapid.T, c *genfont.Case) []byte {
	f := c.Font
	b1, err, pn := write(f)
	if pn != nil {
		t.Fatalf("Write panicked: %s\n%s\n%s", pn, c, pn.Stack)
	}
	if err != nil {
		t.Fatalf("Write failed on a representable font: %v\n%s", err, c)
	}
	b1 = append([]byte(nil), b1...)
	b2, err, pn := write(f)
	if pn != nil || err != nil {
		t.Fatalf("second Write failed: %v %v", err, pn)
	}
	if !bytes.Equal(b1, b2) {
		t.Fatalf("Write is not deterministic: two calls on the same font differ (first difference at byte %d of %d/%d)\n%s", firstDiff(b1, b2), len(b1), len(b2), c)
	}
	b3, err, pn := write(f.Clone())
	if pn != nil || err != nil || !bytes.Equal(b1, b3) {
		t.Fatalf("Write(Clone) differs from Write: err=%v panic=%v", err, pn)
	}
	// "always the same bytes": also when the destination, on receiving the
	// first chunk, writes a sibling font (same size, other strings) before
	// it returns - nothing a Write call holds may be shared with another
	// Write call
	{
		sib := f.Clone()
		flip := func(r rune) rune {
			switch {
			case r >= 'a' && r <= 'y', r >= 'A' && r <= 'Y', r >= '0' && r <= '8':
				return r + 1
			}
			return r
		}
		sib.FamilyName = strings.Map(flip, f.FamilyName)
		sib.Copyright = strings.Map(flip, f.Copyright)
		sib.Trademark = strings.Map(flip, f.Trademark)
		sib.UnderlineThickness = f.UnderlineThickness + 1
		w := &nestingWriter{other: sib}
		var err error
		pn := guard.Try(func() { _, err = f.Write(w) })
		if pn != nil || err != nil || w.err != nil {
			t.Fatalf("Write into a destination that writes a sibling font meanwhile: err=%v inner err=%v panic=%v\n%s", err, w.err, pn, c)
		}
		if !w.done {
			t.Fatalf("Write never called the destination")
		}
		if !bytes.Equal(b1, w.buf.Bytes()) {
			t.Fatalf("Write gives other bytes when a sibling font is written while the destination holds the first chunk (first difference at byte %d of %d/%d)\n%s", firstDiff(b1, w.buf.Bytes()), len(b1), w.buf.Len(), c)
		}
		if !bytes.Equal(w.inner.Bytes(), mustWrite(sib)) {
			t.Fatalf("the sibling font written from inside the destination differs from the same font written alone\n%s", c)
		}
		stats.Label("value", "nested-write-compared")
	}
	g, err, pn := read(b1)
	if pn != nil {
		t.Fatalf("Read panicked on Write output: %s\n%s\n%s", pn, c, pn.Stack)
	}
	if err != nil {
		t.Fatalf("Read rejects Write output: %v\n%s", err, c)
	}
	want := normalise(f)
	if d := fontcmp.Diff(want, g); d != "" {
		t.Fatalf("Read(Write(F)) != normal-form(F): %s\n%s\n%s", d, c, genfont.Dump(f))
	}
	return b1
}

func firstDiff(a, b []byte) int {
	for i := 0; i < len(a) && i < len(b); i++ {
		if a[i] != b[i] {
			return i
		}
	}
	return min(len(a), len(b))
}

// checkFixedPoint is part (b) for a byte string b accepted by Read.
func checkFixedPoint(t interface{ Fatalf(string, ...any) }, b []byte, what string) bool {
	return checkFixedPointNF(t, b, what, false)
}

// checkFixedPointNF: with normalForm set, the re-read font is compared with
// the normal form of the first-read font (the same documented merge rules as
// in the value clause: a file of another producer may yield a font value that
// is not in the writer's normal form, e.g. a fractional underline position
// taken from a CFF table when there is no post table); the font read after
// that must then equal the re-read font exactly, and the bytes are compared
// as always.
func checkFixedPointNF(t interface{ Fatalf(string, ...any) }, b []byte, what string, normalForm bool) bool {
	f1, err, pn := read(b)
	if pn != nil {
		// totality is C02's concern; count and skip
		return false
	}
	if err != nil {
		return false
	}
	b1, err, pn := write(f1)
	if pn != nil {
		return false // re-encoding panics on decoder output are C02's accessor sweep
	}
	if err != nil {
		return false
	}
	b1 = append([]byte(nil), b1...)
	f2, err, pn := read(b1)
	if pn != nil || err != nil {
		t.Fatalf("%s: Read rejects Write(Read(b)): err=%v panic=%v", what, err, pn)
	}
	want := f1
	if normalForm {
		want = normalise(f1)
	}
	if d := fontcmp.Diff(want, f2); d != "" {
		t.Fatalf("%s: Read(Write(Read(b))) != Read(b): %s", what, d)
	}
	b2, err, pn := write(f2)
	if pn != nil || err != nil {
		t.Fatalf("%s: second Write failed: err=%v panic=%v", what, err, pn)
	}
	if !bytes.Equal(b1, b2) {
		t.Fatalf("%s: Write(Read(Write(Read(b)))) != Write(Read(b)): first difference at byte %d (lengths %d, %d)%s", what, firstDiff(b1, b2), len(b1), len(b2), differingTables(b1, b2))
	}
	if normalForm {
		f3, err, pn := read(append([]byte(nil), b2...))
		if pn != nil || err != nil {
			t.Fatalf("%s: third Read failed: err=%v panic=%v", what, err, pn)
		}
		if d := fontcmp.Diff(f2, f3); d != "" {
			t.Fatalf("%s: the re-read font is not a fixed point: %s", what, d)
		}
	}
	return true
}

// editInPlace changes the font value in place without replacing any object:
// every advance width grows by one unit, CFF path coordinates move one unit
// towards zero, the ascent grows by one.  It returns the number of edits.
// Anything the writers remember about a font (or glyph) they have written
// before is stale afterwards.
func editInPlace(f *sfnt.Font) int {
	n := 0
	switch o := f.Outlines.(type) {
	case *glyf.Outlines:
		for i := range o.Widths {
			if o.Widths[i] > 0 && o.Widths[i] < 32000 {
				o.Widths[i]++
				n++
			}
		}
	case *cff.Outlines:
		for _, g := range o.Glyphs {
			if g.Width > 0 && g.Width < 32000 {
				g.Width++
				n++
			}
			for i := range g.Cmds {
				if g.Cmds[i].Op == cff.OpHintMask || g.Cmds[i].Op == cff.OpCntrMask {
					continue
				}
				for j, a := range g.Cmds[i].Args {
					if a > 0 {
						g.Cmds[i].Args[j] = a - 1
					} else {
						g.Cmds[i].Args[j] = a + 1
					}
					n++
				}
			}
		}
	}
	if f.Ascent < 32000 {
		f.Ascent++
		n++
	}
	return n
}

func TestC01Value(t *testing.T) {
	o := opts()
	rapid.Check(t, func(t *rapid.T) {
		c := genfont.Gen(o).Draw(t, "font")
		b := checkValue(t, c)
		checkFixedPoint(t, b, "written font")
		if rapid.Bool().Draw(t, "secondRound") && editInPlace(c.Font) > 0 {
			// the same font object, edited in place, written and read again
			c.Labels = append(c.Labels, "second-round-after-in-place-edit")
			checkValue(t, c)
		}
		stats.CaseIn("value", stats.Hash(b), c.NonTrivial, func() string { return c.String() }, c.Labels...)
	})
}

// mutate applies a structure-aware mutation to a written font.
func mutate(t *rapid.T, b []byte) []byte {
	b = append([]byte(nil), b...)
	if len(b) < 12 {
		return b
	}
	numTables := int(b[4])<<8 | int(b[5])
	type rec struct{ off, length int }
	var recs []rec
	for i := 0; i < numTables && 12+16*i+16 <= len(b); i++ {
		p := 12 + 16*i
		off := int(b[p+8])<<24 | int(b[p+9])<<16 | int(b[p+10])<<8 | int(b[p+11])
		l := int(b[p+12])<<24 | int(b[p+13])<<16 | int(b[p+14])<<8 | int(b[p+15])
		recs = append(recs, rec{off, l})
	}
	nm := rapid.IntRange(1, 3).Draw(t, "nMut")
	for k := 0; k < nm; k++ {
		if len(recs) == 0 {
			break
		}
		r := recs[rapid.IntRange(0, len(recs)-1).Draw(t, "mutTable")]
		if r.length == 0 || r.off+r.length > len(b) {
			continue
		}
		pos := r.off + rapid.IntRange(0, r.length-1).Draw(t, "mutPos")
		switch rapid.IntRange(0, 2).Draw(t, "mutKind") {
		case 0:
			b[pos] ^= 1 << rapid.IntRange(0, 7).Draw(t, "bit")
		case 1:
			b[pos] = byte(rapid.SampledFrom([]int{0, 1, 0x7f, 0x80, 0xff}).Draw(t, "const"))
		default:
			b[pos] = rapid.Byte().Draw(t, "byte")
		}
	}
	return b
}

func TestC01FixedPoint(t *testing.T) {
	o := opts()
	o.MaxGlyphs = 40
	rapid.Check(t, func(t *rapid.T) {
		c := genfont.Gen(o).Draw(t, "font")
		b, err, pn := write(c.Font)
		if err != nil || pn != nil {
			t.Skip("not writable")
		}
		m := mutate(t, b)
		accepted := checkFixedPoint(t, m, "mutant of written font")
		lab := "mutant-rejected"
		if accepted {
			lab = "mutant-accepted"
		}
		stats.CaseIn("fixedpoint", stats.Hash(m), accepted && c.NonTrivial, func() string {
			return fmt.Sprintf("mutant (%d bytes) of %s", len(m), c)
		}, append(c.Labels, lab)...)
	})
}

// differingTables names the tables in which two files differ (for messages).
func differingTables(b1, b2 []byte) string {
	f1, err1 := refsfnt.Parse(b1)
	f2, err2 := refsfnt.Parse(b2)
	if err1 != nil || err2 != nil {
		return ""
	}
	t1, t2 := f1.Tables(), f2.Tables()
	var names []string
	for tag, d := range t1 {
		d2, ok := t2[tag]
		switch {
		case !ok:
			names = append(names, tag+" (only in the first)")
		case !bytes.Equal(d, d2):
			names = append(names, fmt.Sprintf("%s (byte %d)", tag, firstDiff(d, d2)))
		}
	}
	for tag := range t2 {
		if _, ok := t1[tag]; !ok {
			names = append(names, tag+" (only in the second)")
		}
	}
	sort.Strings(names)
	return "; tables that differ: " + strings.Join(names, ", ")
}
