package c01

import (
	"fmt"
	"testing"

	"pgregory.net/rapid"

	"seehuhn.de/go/sfnt/glyf"
	genfont "verif/harness/gen/font"
	"verif/harness/ref/refname"
	"verif/harness/stats"
)

// TestC01Huge is the value clause on whole fonts at the upper end of the
// glyph-count range (the counts are 16-bit fields in maxp, hhea, post and the
// CFF charset; loca has one entry more than there are glyphs).
func TestC01Huge(t *testing.T) {
	rapid.Check(t, func(t *rapid.T) {
		n := rapid.SampledFrom([]int{65535, 65535, 65534, 32768, 32767, 20000}).Draw(t, "numGlyphs")
		kind := rapid.SampledFrom([]genfont.Kind{genfont.KindGlyf, genfont.KindCID, genfont.KindCFF}).Draw(t, "kind")
		if kind == genfont.KindCFF && n > 64000 {
			// glyph names are string ids, a 16-bit field shared with the 391
			// standard strings and the other strings of the font: a simple
			// CFF font cannot have 65535 glyphs with names of their own
			n = 64000
		}
		o := genfont.Opts{Kind: kind, MinGlyphs: n, MaxGlyphs: n, NilMaxp: true}
		c := genfont.Gen(o).Draw(t, "font")
		if o, ok := c.Font.Outlines.(*glyf.Outlines); ok && len(o.Names) > 65000 {
			// post format 2 indexes at most 65278 names of the font's own (a
			// 16-bit index, 258 values of which mean the standard Macintosh
			// names): the first 258 glyphs get the standard names
			for i := range o.Names {
				if i < 258 {
					o.Names[i] = refname.MacGlyphNames[i]
				} else {
					o.Names[i] = fmt.Sprintf("g%d", i)
				}
			}
		}
		b := checkValue(t, c)
		checkFixedPoint(t, b, "written font")
		stats.CaseIn("huge", stats.Hash(b), true, func() string { return c.String() }, append(c.Labels, "huge-font")...)
	})
}
