package c01

import (
	"fmt"
	"testing"

	"pgregory.net/rapid"

	"seehuhn.de/go/sfnt/opentype/gtab"
	"verif/harness/fontcmp"
	genfont "verif/harness/gen/font"
	"verif/harness/gen/lookups"
	"verif/harness/guard"
	"verif/harness/stats"
)

// TestC01BigLayout is the "any GSUB/GPOS content the encoders support" clause
// at the sizes where the layout encoders change strategy: lookup lists beyond
// 64 KiB (lookups moved, extension subtables introduced), several large
// subtables inside one lookup, hundreds of lookups or subtables.  The font
// around the table is small; the large-layout generator is the one C08 uses.
// Layouts that the format cannot hold at all (the encoder refuses them) are
// outside the representable domain and are excluded by construction.
func TestC01BigLayout(t *testing.T) {
	rapid.Check(t, func(t *rapid.T) {
		c := genfont.Gen(genfont.Opts{MaxGlyphs: 12, Layout: genfont.LayoutNone}).Draw(t, "font")
		kind := rapid.SampledFrom([]gtab.Type{gtab.TypeGsub, gtab.TypeGpos}).Draw(t, "kind")
		env := lookups.GenEnv(true).Draw(t, "env")
		opt := lookups.Options{
			Kind: kind, Mode: lookups.Defined, Size: lookups.SizeLarge,
			Skip: func(site string) bool {
				// keep the layouts that need extension subtables, drop the unrepresentable ones
				return site != lookups.SiteSubtableOffset && site != lookups.SiteLookupOffset
			},
		}
		r := lookups.GenInfo(env, opt, lookups.InfoOptions{}).Draw(t, "info")
		if len(r.Overflow) > 0 {
			t.Skip("unrepresentable layout")
		}
		// the encoder must accept it (refusals are judged by C08 against the
		// format's own size arithmetic; here they would only hide the case)
		var enc []byte
		if pn := guard.Try(func() { enc = r.Info.Encode() }); pn != nil {
			t.Fatalf("Encode panicked on a layout generated as representable: %s\nclasses=%v", pn, r.Classes)
		}
		// the font carries the table in the normal form the binary format
		// imposes (one value format per record column, class 0 = not listed)
		if kind == gtab.TypeGsub {
			c.Font.Gsub = fontcmp.ExpectInfo(r.Info)
		} else {
			c.Font.Gpos = fontcmp.ExpectInfo(r.Info)
		}
		c.Font.Gdef = env.Gdef
		b := checkValue(t, c)
		labels := append([]string{"kind:" + kind.String()}, r.Classes...)
		switch {
		case len(enc) > 0xFFFF:
			labels = append(labels, "table>64KiB")
		default:
			labels = append(labels, "table<=64KiB")
		}
		stats.CaseIn("biglayout", stats.Hash(b), len(enc) > 0xFFFF || len(r.Info.LookupList) > 40, func() string {
			return fmt.Sprintf("%s table of %d bytes, %d lookups, classes=%v, in %s", kind, len(enc), len(r.Info.LookupList), r.Classes, c)
		}, labels...)
	})
}
