package c01

import (
	"bytes"
	"fmt"
	"os"
	"path/filepath"
	"sort"
	"strconv"
	"strings"
	"testing"

	"golang.org/x/image/font/gofont/gobolditalic"
	"golang.org/x/image/font/gofont/gomono"
	"golang.org/x/image/font/gofont/goregular"
	"pgregory.net/rapid"

	"seehuhn.de/go/sfnt/cmap"
	"seehuhn.de/go/sfnt/glyph"
	genfont "verif/harness/gen/font"
	"verif/harness/ref/refsfnt"
	"verif/harness/stats"
)

// fuzzCorpus reads the []byte entries of a native Go fuzz corpus directory.
func fuzzCorpus(dir string) map[string][]byte {
	res := map[string][]byte{}
	files, _ := filepath.Glob(filepath.Join(dir, "*"))
	for _, fn := range files {
		data, err := os.ReadFile(fn)
		if err != nil {
			continue
		}
		lines := strings.Split(string(data), "\n")
		if len(lines) < 2 || !strings.HasPrefix(lines[0], "go test fuzz") {
			continue
		}
		l := strings.TrimSpace(lines[1])
		if !strings.HasPrefix(l, "[]byte(") || !strings.HasSuffix(l, ")") {
			continue
		}
		s, err := strconv.Unquote(l[len("[]byte(") : len(l)-1])
		if err != nil {
			continue
		}
		res[filepath.Base(fn)] = []byte(s)
	}
	return res
}

func repoDir() string {
	if d := os.Getenv("VERIF_REPO"); d != "" {
		return d
	}
	return "/repo"
}

// TestC01Corpus: fixed point on real files and on the repository's own corpus.
func TestC01Corpus(t *testing.T) {
	inputs := map[string][]byte{
		"goregular":    goregular.TTF,
		"gobolditalic": gobolditalic.TTF,
		"gomono":       gomono.TTF,
	}
	for k, v := range fuzzCorpus(filepath.Join(repoDir(), "testdata", "fuzz", "FuzzFont")) {
		inputs["FuzzFont/"+k] = v
	}
	names := make([]string, 0, len(inputs))
	for k := range inputs {
		names = append(names, k)
	}
	sort.Strings(names)
	for _, name := range names {
		b := inputs[name]
		accepted := checkFixedPoint(t, b, name)
		lab := "rejected"
		if accepted {
			lab = "accepted"
		}
		stats.CaseIn("corpus", stats.Hash(b), accepted, func() string { return fmt.Sprintf("%s (%d bytes)", name, len(b)) }, lab)
	}
}

func buildKern(pairs map[[2]uint16]int16) []byte {
	var b []byte
	u16 := func(v int) { b = append(b, byte(v>>8), byte(v)) }
	keys := make([][2]uint16, 0, len(pairs))
	for k := range pairs {
		keys = append(keys, k)
	}
	sort.Slice(keys, func(i, j int) bool {
		if keys[i][0] != keys[j][0] {
			return keys[i][0] < keys[j][0]
		}
		return keys[i][1] < keys[j][1]
	})
	n := len(keys)
	u16(0)
	u16(1)
	u16(0)
	u16(14 + 6*n)
	b = append(b, 0, 1)
	u16(n)
	es := 0
	for (1 << (es + 1)) <= n {
		es++
	}
	sr := 0
	if n > 0 {
		sr = 6 << es
	}
	u16(sr)
	u16(es)
	u16(6*n - sr)
	for _, k := range keys {
		u16(int(k[0]))
		u16(int(k[1]))
		u16(int(uint16(pairs[k])))
	}
	return b
}

// TestC01Synth: files that make the reader synthesise layout data (a kern
// table without GPOS; a proportional font with f-ligatures but no GSUB).
func TestC01Synth(t *testing.T) {
	rapid.Check(t, func(t *rapid.T) {
		c := genfont.Gen(genfont.Opts{MaxGlyphs: 12, MinGlyphs: 10, Layout: genfont.LayoutNone, NoWideCmap: true}).Draw(t, "font")
		f := c.Font
		f.Gdef = nil
		n := f.NumGlyphs()
		m := cmap.Format4{'a': 1}
		gid := glyph.ID(2)
		for _, r := range []rune{'f', 'i', 'l', 0xFB00, 0xFB01, 0xFB02, 0xFB03, 0xFB04} {
			if rapid.IntRange(0, 3).Draw(t, "hasRune") > 0 {
				m[uint16(r)] = gid
			}
			gid++
		}
		f.InstallCMap(m)
		b, err, pn := write(f)
		if err != nil || pn != nil {
			t.Skip("not writable")
		}
		what := "ligature font"
		if rapid.Bool().Draw(t, "kern") {
			what = "kern-only font"
			rf, err := refsfnt.Parse(b)
			if err != nil {
				t.Fatal(err)
			}
			pairs := map[[2]uint16]int16{}
			for i := rapid.IntRange(1, 8).Draw(t, "nPairs"); i > 0; i-- {
				pairs[[2]uint16{uint16(rapid.IntRange(0, n-1).Draw(t, "l")), uint16(rapid.IntRange(0, n-1).Draw(t, "r"))}] = int16(rapid.IntRange(-200, 200).Draw(t, "v"))
			}
			tables := rf.Tables()
			tables["kern"] = buildKern(pairs)
			b = refsfnt.Assemble(rf.Scaler, tables)
		}
		accepted := checkFixedPoint(t, b, what+" "+c.String())
		if !accepted {
			if _, err, _ := read(b); err != nil {
				t.Fatalf("%s rejected by Read: %v\n%s", what, err, c)
			}
		}
		g, _, _ := read(b)
		synth := g != nil && (g.Gsub != nil || g.Gpos != nil)
		var labels []string
		if g != nil && g.Gsub != nil {
			labels = append(labels, "synthesised-gsub")
		}
		if g != nil && g.Gpos != nil {
			labels = append(labels, "synthesised-gpos")
		}
		stats.CaseIn("synth", stats.Hash(b), accepted && synth, func() string { return what + ": " + c.String() }, labels...)
	})
}

var _ = bytes.Equal
