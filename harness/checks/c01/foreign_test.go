package c01

import (
	"bytes"
	"encoding/binary"
	"fmt"
	"sort"
	"strings"
	"testing"

	"pgregory.net/rapid"

	"seehuhn.de/go/sfnt/cff"
	genfont "verif/harness/gen/font"
	"verif/harness/ref/refcmap"
	"verif/harness/ref/refglyf"
	"verif/harness/ref/refname"
	"verif/harness/ref/refsfnt"
	"verif/harness/stats"
)

// TestC01Foreign is the fixed-point clause on files as *other* producers
// write them.  The bytes the library writes are one spelling of a font; the
// clause quantifies over every file the reader accepts.  A written font is
// taken apart with the harness's own container reader and re-assembled with
// tables re-spelled by the harness's encoders (name tables with one platform
// only, other languages, differing strings per platform; cmap subtables in
// formats 0, 6, 4 and 12 under every key; post formats 2 and 3; OS/2 versions
// 0-5; long horizontal metrics for every glyph; padded or re-aligned glyf
// data in the other loca format; a short maxp; head fields a writer derives),
// optional tables dropped, unknown tables added, another physical order.
// Whatever sfnt.Read makes of such a file, one Write/Read cycle must
// reproduce it: Read(Write(Read(b))) == Read(b), and the bytes written from
// the re-read font equal the bytes written from the first-read font.
func TestC01Foreign(t *testing.T) {
	o := opts()
	o.MaxGlyphs = 30
	rapid.Check(t, func(t *rapid.T) {
		c := genfont.Gen(o).Draw(t, "font")
		b, err, pn := write(c.Font)
		if err != nil || pn != nil {
			t.Skip("not writable")
		}
		f, perr := refsfnt.Parse(b)
		if perr != nil {
			t.Fatalf("the harness's container reader rejects a written font: %v", perr)
		}
		tables := f.Tables()
		n := c.Font.NumGlyphs()
		var ops []string
		nOps := rapid.IntRange(1, 4).Draw(t, "nOps")
		for i := 0; i < nOps; i++ {
			op := rapid.SampledFrom([]string{"name", "name", "cmap", "cmap", "post", "os2", "drop", "extra", "hmtx", "glyf", "maxp", "head", "cff-widths"}).Draw(t, "op")
			if respell(t, op, tables, n, c) {
				ops = append(ops, op)
			}
		}
		var order []string
		if rapid.Bool().Draw(t, "reorder") {
			for tag := range tables {
				order = append(order, tag)
			}
			sort.Strings(order)
			order = rapid.Permutation(order).Draw(t, "physicalOrder")
			ops = append(ops, "order")
		}
		out := refsfnt.AssembleOrdered(f.Scaler, tables, order)
		sort.Strings(ops)
		what := "file re-spelled (" + strings.Join(ops, ",") + ")"
		accepted := checkFixedPointNF(t, out, what, true)
		lab := "foreign-rejected"
		if accepted {
			lab = "foreign-accepted"
		}
		labels := []string{lab}
		for _, op := range ops {
			labels = append(labels, "respelled:"+op)
			if accepted {
				labels = append(labels, "accepted:"+op)
			}
		}
		stats.CaseIn("foreign", stats.Hash(out), accepted && len(ops) > 0, func() string {
			return fmt.Sprintf("%s, %d bytes, of %s", what, len(out), c)
		}, labels...)
	})
}

type rapidChooser struct{ t *rapid.T }

func (c rapidChooser) Intn(label string, n int) int {
	if n <= 1 {
		return 0
	}
	return rapid.IntRange(0, n-1).Draw(c.t, label)
}

// respell replaces or removes tables in place; it reports whether it changed anything.
func respell(t *rapid.T, op string, tables map[string][]byte, numGlyphs int, c *genfont.Case) bool {
	switch op {
	case "name":
		tables["name"] = foreignName(t, c)
		return true
	case "cmap":
		d := foreignCmap(t, numGlyphs)
		if d == nil {
			return false
		}
		tables["cmap"] = d
		return true
	case "post":
		d, ok := tables["post"]
		if !ok {
			return false
		}
		p, err := refname.ParsePost(d)
		if err != nil {
			return false
		}
		switch rapid.IntRange(0, 2).Draw(t, "postForm") {
		case 0: // no names
			p.Version = 0x00030000
			p.Index, p.Strings = nil, nil
		case 1: // format 2, every name stored as a string of its own (also the standard ones), in reverse order
			names := p.Names
			if len(names) != numGlyphs {
				names = make([]string, numGlyphs)
				for i := range names {
					names[i] = fmt.Sprintf("g%d", i)
				}
				names[0] = ".notdef"
			}
			p.Version = 0x00020000
			p.Index = make([]uint16, numGlyphs)
			p.Strings = nil
			for i := numGlyphs - 1; i >= 0; i-- {
				if len(names[i]) > 255 || len(p.Strings) >= 60000 {
					return false
				}
				p.Index[i] = uint16(258 + len(p.Strings))
				p.Strings = append(p.Strings, names[i])
			}
		default: // header fields a writer may set differently
			p.Mem = [4]uint32{rapid.Uint32().Draw(t, "minMemType42"), 1, 2, 3}
			p.IsFixedPitch = uint32(rapid.SampledFrom([]int{0, 1, 7}).Draw(t, "isFixedPitch"))
		}
		tables["post"] = refname.BuildPost(p)
		return true
	case "os2":
		d, ok := tables["OS/2"]
		if !ok || len(d) < 78 {
			return false
		}
		v := rapid.IntRange(0, 5).Draw(t, "os2Version")
		size := []int{78, 86, 96, 96, 96, 100}[v]
		if v == 0 && rapid.Bool().Draw(t, "os2AppleShort") {
			size = 68
		}
		nd := make([]byte, size)
		copy(nd, d)
		binary.BigEndian.PutUint16(nd, uint16(v))
		tables["OS/2"] = nd
		return true
	case "drop":
		cand := []string{"OS/2", "post", "name", "cmap", "GDEF", "GSUB", "GPOS", "cvt ", "fpgm", "prep", "gasp"}
		if _, isCFF := tables["CFF "]; isCFF {
			cand = append(cand, "head", "maxp", "hhea", "hmtx")
		}
		tag := rapid.SampledFrom(cand).Draw(t, "dropTag")
		if _, ok := tables[tag]; !ok {
			return false
		}
		delete(tables, tag)
		return true
	case "extra":
		for i := rapid.IntRange(1, 3).Draw(t, "nExtra"); i > 0; i-- {
			tag := rapid.SampledFrom([]string{"DSIG", "LTSH", "VDMX", "hdmx", "zzzz", "FFTM", "meta", "EBDT"}).Draw(t, "extraTag")
			tables[tag] = rapid.SliceOfN(rapid.Byte(), 0, 40).Draw(t, "extraData")
		}
		return true
	case "hmtx":
		hhea, ok1 := tables["hhea"]
		hmtx, ok2 := tables["hmtx"]
		if !ok1 || !ok2 || len(hhea) < 36 {
			return false
		}
		nLong := int(binary.BigEndian.Uint16(hhea[34:]))
		if nLong < 1 || len(hmtx) < 4*nLong+2*(numGlyphs-nLong) || nLong > numGlyphs {
			return false
		}
		// every glyph gets a long metric (no compression of the constant tail)
		last := hmtx[4*(nLong-1) : 4*(nLong-1)+2]
		nd := append([]byte(nil), hmtx[:4*nLong]...)
		for i := nLong; i < numGlyphs; i++ {
			lsb := hmtx[4*nLong+2*(i-nLong):]
			nd = append(nd, last[0], last[1], lsb[0], lsb[1])
		}
		nh := append([]byte(nil), hhea...)
		binary.BigEndian.PutUint16(nh[34:], uint16(numGlyphs))
		tables["hmtx"], tables["hhea"] = nd, nh
		return true
	case "glyf":
		glyf, ok1 := tables["glyf"]
		loca, ok2 := tables["loca"]
		head, ok3 := tables["head"]
		if !ok1 || !ok2 || !ok3 || len(head) < 54 {
			return false
		}
		format := int(binary.BigEndian.Uint16(head[50:]))
		offs, err := refglyf.Offsets(loca, format, len(glyf))
		if err != nil {
			return false
		}
		recs := make([][]byte, len(offs)-1)
		pad := make([]int, len(recs))
		for i := range recs {
			recs[i] = glyf[offs[i]:offs[i+1]]
			if len(recs[i]) > 0 && rapid.IntRange(0, 3).Draw(t, "glyphPad") == 0 {
				pad[i] = 2 * rapid.IntRange(1, 3).Draw(t, "glyphPadLen")
			}
		}
		nf := rapid.IntRange(0, 1).Draw(t, "locaFormat")
		align := rapid.SampledFrom([]int{2, 4}).Draw(t, "glyphAlign")
		g2, l2, err := refglyf.Assemble(recs, pad, align, nf)
		if err != nil {
			return false
		}
		nh := append([]byte(nil), head...)
		binary.BigEndian.PutUint16(nh[50:], uint16(nf))
		tables["glyf"], tables["loca"], tables["head"] = g2, l2, nh
		return true
	case "cff-widths":
		// a CFF table that carries fractional advance widths and no hmtx
		// table beside it (what a PDF producer embeds): the widths are then
		// taken from the CFF table
		co, ok := c.Font.Outlines.(*cff.Outlines)
		if !ok {
			return false
		}
		o2 := *co
		o2.Glyphs = make([]*cff.Glyph, len(co.Glyphs))
		for i, g := range co.Glyphs {
			g2 := *g
			if rapid.IntRange(0, 2).Draw(t, "fractionalWidth") == 0 {
				g2.Width += float64(rapid.SampledFrom([]int{1, 4, 8, 12, 15}).Draw(t, "sixteenths")) / 16
			}
			o2.Glyphs[i] = &g2
		}
		var buf bytes.Buffer
		if err := (&cff.Font{FontInfo: c.Font.GetFontInfo(), Outlines: &o2}).Write(&buf); err != nil {
			return false
		}
		tables["CFF "] = buf.Bytes()
		delete(tables, "hmtx")
		delete(tables, "hhea")
		return true
	case "maxp":
		d, ok := tables["maxp"]
		if !ok || len(d) < 6 {
			return false
		}
		if _, isCFF := tables["CFF "]; isCFF {
			// a version 1.0 table in a CFF font (some producers write one)
			nd := make([]byte, 32)
			copy(nd, d[:6])
			binary.BigEndian.PutUint32(nd, 0x00010000)
			tables["maxp"] = nd
			return true
		}
		nd := append([]byte(nil), d[:6]...)
		binary.BigEndian.PutUint32(nd, 0x00005000)
		tables["maxp"] = nd
		return true
	case "head":
		d, ok := tables["head"]
		if !ok || len(d) < 54 {
			return false
		}
		nd := append([]byte(nil), d...)
		switch rapid.IntRange(0, 4).Draw(t, "headField") {
		case 0: // flags
			binary.BigEndian.PutUint16(nd[16:], rapid.Uint16().Draw(t, "headFlags"))
		case 1: // macStyle, possibly at odds with OS/2 fsSelection
			binary.BigEndian.PutUint16(nd[44:], uint16(rapid.IntRange(0, 127).Draw(t, "macStyle")))
		case 2: // lowestRecPPEM, fontDirectionHint
			binary.BigEndian.PutUint16(nd[46:], rapid.Uint16().Draw(t, "lowestRecPPEM"))
			binary.BigEndian.PutUint16(nd[48:], uint16(rapid.IntRange(-2, 2).Draw(t, "directionHint")))
		case 3: // both timestamps unset
			for i := 20; i < 36; i++ {
				nd[i] = 0
			}
		default: // the bounding box a producer computed differently
			for i := 36; i < 44; i += 2 {
				binary.BigEndian.PutUint16(nd[i:], uint16(rapid.IntRange(-2000, 2000).Draw(t, "bbox")))
			}
		}
		tables["head"] = nd
		return true
	}
	return false
}

// foreignName spells a name table the way various producers do.
func foreignName(t *rapid.T, c *genfont.Case) []byte {
	f := c.Font
	ascii := func(s string) string {
		var sb strings.Builder
		for _, r := range s {
			if r >= 32 && r < 127 {
				sb.WriteRune(r)
			}
		}
		if sb.Len() == 0 {
			return "X"
		}
		return sb.String()
	}
	family := f.FamilyName
	sub := rapid.SampledFrom([]string{"Regular", "Bold", "Italic", "Bold Italic", "Oblique", "Light", "Condensed Bold", "Book", "Semi Bold Italic", "Black", "", "regular"}).Draw(t, "subfamily")
	base := map[uint16]string{
		0: f.Copyright, 1: family, 2: sub, 3: "unique " + family, 4: family + " " + sub, 5: "Version 1.234",
		6: ascii(strings.ReplaceAll(family+"-"+sub, " ", "")), 7: f.Trademark, 13: f.License, 14: f.LicenseURL,
		10: f.Description, 19: f.SampleText, 16: "Typo " + family, 17: "Typo " + sub, 256: "custom",
	}
	if rapid.IntRange(0, 3).Draw(t, "versionForm") == 0 {
		base[5] = rapid.SampledFrom([]string{"1.0", "Version 2", "Version 001.000 ", "v3.14 beta", "", "Version 1.234;PS 1.2;hotconv"}).Draw(t, "versionString")
	}
	ids := []uint16{0, 1, 2, 3, 4, 5, 6, 7, 10, 13, 14, 16, 17, 19, 256}
	var recs []refname.RawRecord
	add := func(platform, encoding, lang uint16, variant string, only func(uint16) bool) {
		for _, id := range ids {
			if only != nil && !only(id) {
				continue
			}
			s := base[id]
			if variant != "" && (id == 1 || id == 2 || id == 4) {
				s = variant + s
			}
			var data []byte
			if platform == 1 {
				data = []byte(ascii(s))
				if s == "" {
					data = nil
				}
			} else {
				data = refname.EncodeUTF16BE(s)
			}
			recs = append(recs, refname.RawRecord{Platform: platform, Encoding: encoding, Language: lang, NameID: id, Data: data, Share: rapid.Bool().Draw(t, "share")})
		}
	}
	some := func(label string) func(uint16) bool {
		keep := map[uint16]bool{}
		for _, id := range ids {
			keep[id] = rapid.IntRange(0, 3).Draw(t, label) != 0
		}
		return func(id uint16) bool { return keep[id] }
	}
	form := rapid.SampledFrom([]string{"win-only", "mac-only", "both", "both-different", "win-german+mac-english", "win-german-only", "mac-german-only", "win-subset+mac-subset", "win-uk+win-us",
		"unicode-platform-only", "win-symbol-only", "win-unknown-language", "no-records"}).Draw(t, "nameForm")
	switch form {
	case "unicode-platform-only":
		add(0, 3, 0, "", nil)
	case "win-symbol-only":
		add(3, 0, 0x409, "", nil)
	case "win-unknown-language":
		add(3, 1, 0x0C00, "", nil)
	case "no-records":
	case "win-only":
		add(3, 1, 0x409, "", nil)
	case "mac-only":
		add(1, 0, 0, "", nil)
	case "both":
		add(1, 0, 0, "", nil)
		add(3, 1, 0x409, "", nil)
	case "both-different":
		add(1, 0, 0, "Mac ", nil)
		add(3, 1, 0x409, "", nil)
	case "win-german+mac-english":
		add(1, 0, 0, "", nil)
		add(3, 1, 0x407, "Deutsch ", nil)
	case "win-german-only":
		add(3, 1, 0x407, "Deutsch ", nil)
	case "mac-german-only":
		add(1, 0, 2, "Deutsch ", nil)
	case "win-subset+mac-subset":
		add(1, 0, 0, "", some("macKeep"))
		add(3, 1, 0x409, "", some("winKeep"))
	default:
		add(3, 1, 0x809, "UK ", nil)
		add(3, 1, 0x409, "", nil)
	}
	sort.SliceStable(recs, func(i, j int) bool {
		a, b := recs[i], recs[j]
		if a.Platform != b.Platform {
			return a.Platform < b.Platform
		}
		if a.Encoding != b.Encoding {
			return a.Encoding < b.Encoding
		}
		if a.Language != b.Language {
			return a.Language < b.Language
		}
		return a.NameID < b.NameID
	})
	version := uint16(rapid.IntRange(0, 1).Draw(t, "nameVersion"))
	var tags [][]byte
	if version == 1 && rapid.Bool().Draw(t, "langTag") {
		tags = [][]byte{refname.EncodeUTF16BE("de-CH")}
	}
	d, err := refname.Build(version, recs, tags, rapid.IntRange(0, 3).Draw(t, "namePad"))
	if err != nil {
		t.Skip("name table not buildable")
	}
	stats.Label("foreign", "name-form:"+form)
	return d
}

// foreignCmap spells a cmap table with 1-3 subtables in formats 0, 6, 4, 12.
func foreignCmap(t *rapid.T, numGlyphs int) []byte {
	if numGlyphs < 2 {
		return nil
	}
	ch := rapidChooser{t}
	gid := func() uint16 { return uint16(rapid.IntRange(1, numGlyphs-1).Draw(t, "cmapGid")) }
	type sub struct {
		platform, encoding uint16
		data               []byte
	}
	var subs []sub
	seen := map[[2]uint16]bool{}
	for k := rapid.IntRange(1, 3).Draw(t, "nSubtables"); k > 0; k-- {
		kind := rapid.SampledFrom([]string{"f0-mac", "f6-mac", "f6-unicode", "f4-win", "f4-unicode", "f12-win", "f12-unicode", "f4-symbol"}).Draw(t, "cmapKind")
		var s sub
		switch kind {
		case "f0-mac":
			var g [256]byte
			for i := rapid.IntRange(0, 12).Draw(t, "nCodes"); i > 0; i-- {
				if numGlyphs-1 > 255 {
					break
				}
				g[rapid.IntRange(0, 255).Draw(t, "code8")] = byte(gid())
			}
			s = sub{1, 0, refcmap.EncodeFormat0(&g, 0)}
		case "f6-mac", "f6-unicode":
			var g [65536]uint16
			lo := rapid.SampledFrom([]int{0, 32, 65, 128, 200, 0x400}).Draw(t, "f6lo")
			if kind == "f6-mac" && lo > 200 {
				lo = 32
			}
			for i := rapid.IntRange(0, 12).Draw(t, "nCodes"); i > 0; i-- {
				g[lo+rapid.IntRange(0, 50).Draw(t, "codeOff")] = gid()
			}
			s = sub{0, 3, refcmap.EncodeFormat6(&g, 0, ch)}
			if kind == "f6-mac" {
				s.platform, s.encoding = 1, 0
			}
		case "f4-win", "f4-unicode", "f4-symbol":
			var g [65536]uint16
			for i := rapid.IntRange(0, 20).Draw(t, "nCodes"); i > 0; i-- {
				code := rapid.OneOf(rapid.IntRange(32, 126), rapid.IntRange(0xA0, 0x17F), rapid.IntRange(0xF000, 0xF0FF), rapid.IntRange(0, 0xFFFF)).Draw(t, "code16")
				g[code] = gid()
			}
			d, _, err := refcmap.EncodeFormat4(&g, 0, ch)
			if err != nil {
				continue
			}
			s = sub{3, 1, d}
			if kind == "f4-unicode" {
				s.platform, s.encoding = 0, 3
			} else if kind == "f4-symbol" {
				s.platform, s.encoding = 3, 0
			}
		default:
			m := map[uint32]uint16{}
			for i := rapid.IntRange(0, 20).Draw(t, "nCodes"); i > 0; i-- {
				code := rapid.OneOf(rapid.IntRange(32, 126), rapid.IntRange(0x1F600, 0x1F640), rapid.IntRange(0, 0x10FFFF)).Draw(t, "code32")
				m[uint32(code)] = gid()
			}
			d, _ := refcmap.EncodeFormat12(m, 0, ch)
			s = sub{3, 10, d}
			if kind == "f12-unicode" {
				s.platform, s.encoding = 0, 4
			}
		}
		key := [2]uint16{s.platform, s.encoding}
		if seen[key] || s.data == nil {
			continue
		}
		seen[key] = true
		subs = append(subs, s)
		stats.Label("foreign", "cmap-subtable:"+kind)
	}
	if len(subs) == 0 {
		return nil
	}
	sort.Slice(subs, func(i, j int) bool {
		if subs[i].platform != subs[j].platform {
			return subs[i].platform < subs[j].platform
		}
		return subs[i].encoding < subs[j].encoding
	})
	out := make([]byte, 4+8*len(subs))
	binary.BigEndian.PutUint16(out[2:], uint16(len(subs)))
	for i, s := range subs {
		binary.BigEndian.PutUint16(out[4+8*i:], s.platform)
		binary.BigEndian.PutUint16(out[6+8*i:], s.encoding)
		binary.BigEndian.PutUint32(out[8+8*i:], uint32(len(out)))
		out = append(out, s.data...)
	}
	return out
}

// TestC01RegressPostlessFractionalUnderline: a CFF-based file without post
// table whose CFF table holds fractional underline metrics (as another
// producer may write it) must reach the byte fixed point after one cycle.
func TestC01RegressPostlessFractionalUnderline(t *testing.T) {
	var c *genfont.Case
	for seed := 1; c == nil; seed++ {
		x := genfont.Gen(genfont.Opts{Kind: genfont.KindCFF, MinGlyphs: 2, MaxGlyphs: 4, Layout: genfont.LayoutNone}).Example(seed)
		if _, err, pn := write(x.Font); err == nil && pn == nil {
			c = x
		}
	}
	c.Font.UnderlinePosition = -100.5
	c.Font.UnderlineThickness = 50.25
	// Font.Write would round: the foreign producer's spelling is obtained by
	// writing the CFF table alone and wrapping it
	b, err, pn := write(c.Font)
	if err != nil || pn != nil {
		t.Fatalf("not writable: %v %v", err, pn)
	}
	f, perr := refsfnt.Parse(b)
	if perr != nil {
		t.Fatal(perr)
	}
	tables := f.Tables()
	var cffBuf strings.Builder
	if err := c.Font.AsCFF().Write(&cffBuf); err != nil {
		t.Fatal(err)
	}
	tables["CFF "] = []byte(cffBuf.String())
	delete(tables, "post")
	out := refsfnt.Assemble(f.Scaler, tables)
	f1, err, pn := read(out)
	if err != nil || pn != nil {
		t.Fatalf("not readable: %v %v", err, pn)
	}
	if f1.UnderlinePosition != -100.5 {
		t.Fatalf("the reader does not take the fractional underline position from the CFF table any more (got %v): the regression input has lost its point", f1.UnderlinePosition)
	}
	if !checkFixedPointNF(t, out, "post-less CFF font with fractional underline metrics", true) {
		t.Fatal("file not accepted")
	}
}
