// C05: Type 2 charstring interpretation conforms to Adobe TN5177.
//
// Well-formed programs are generated from a grammar, wrapped into a CFF font
// program by the harness's own writer (ref/refcff) and read with cff.Read;
// the decoded glyphs must agree with the harness's reference interpreter
// (ref/reft2) and, where it is able to judge, with golang.org/x/image.
// Single-fault mutants of such programs must be rejected.
package c05

import (
	"bytes"
	"fmt"
	"math"
	"sort"
	"strings"
	"testing"

	"golang.org/x/image/font/sfnt"
	"golang.org/x/image/math/fixed"
	"pgregory.net/rapid"

	"seehuhn.de/go/sfnt/cff"
	"verif/harness/guard"
	"verif/harness/ref/refcff"
	"verif/harness/ref/reft2"
	"verif/harness/stats"
)

func TestMain(m *testing.M) { stats.MainExit(m) }

// ---------------------------------------------------------------------------
// font assembly

type fdCase struct {
	dw, nw      float64
	nLocal      int
	omitSubrs   bool
	emptyFiller bool
	subrsReal   int // spelling of the Subrs offset: 0 integer, 1 real "N", 2 real "N.0"
}

type glyphCase struct {
	prog *program
	fd   int
}

type fontCase struct {
	cid         bool
	fds         []fdCase
	nGlobal     int
	emptyFillG  bool
	glyphs      []glyphCase
	fdselFormat int
	gap         int

	// built
	gsubrs [][]byte
	lsubrs [][][]byte
	codes  [][]byte
	data   []byte
}

func drawWidthParam(t *rapid.T, label string) float64 {
	switch rapid.IntRange(0, 5).Draw(t, label+"c") {
	case 0:
		return 0
	case 1:
		return float64(rapid.IntRange(-2000, 2000).Draw(t, label)) + float64(rapid.IntRange(1, 65535).Draw(t, label+"f"))/65536
	case 2:
		return float64(rapid.IntRange(-2000, 2000).Draw(t, label)) + 0.5
	}
	return float64(rapid.IntRange(-1000, 3000).Draw(t, label))
}

// genFont draws the programs and the font around them (not yet built).
func genFont(t *rapid.T, maxGlyphs int) *fontCase {
	fc := &fontCase{}
	fc.cid = rapid.IntRange(0, 9).Draw(t, "cid") < 4
	nFD := 1
	if fc.cid {
		nFD = rapid.IntRange(1, 3).Draw(t, "nFD")
		fc.fdselFormat = rapid.SampledFrom([]int{0, 3}).Draw(t, "fdselFormat")
	}
	fc.gap = rapid.IntRange(0, 9).Draw(t, "gap")
	nGlyphs := rapid.IntRange(1, maxGlyphs).Draw(t, "nGlyphs")
	for i := 0; i < nFD; i++ {
		fc.fds = append(fc.fds, fdCase{
			dw: drawWidthParam(t, "dw"),
			nw: drawWidthParam(t, "nw"),
		})
	}
	for i := 0; i < nGlyphs; i++ {
		o := drawOpts(t)
		g := genProgram(t, o)
		p := &program{main: &body{toks: g.toks, index: -1}, feat: g.feat}
		fd := 0
		if nFD > 1 {
			fd = rapid.IntRange(0, nFD-1).Draw(t, "fd")
		}
		fc.glyphs = append(fc.glyphs, glyphCase{prog: p, fd: fd})
	}
	return fc
}

// finish draws INDEX sizes and subroutine positions and builds the font.
// extraLocal/extraGlobal reserve room for bodies a mutator adds later.
func (fc *fontCase) finish(t *rapid.T) {
	var gl []*body
	loc := make([][]*body, len(fc.fds))
	for _, g := range fc.glyphs {
		for _, b := range g.prog.bodies {
			if b.global {
				gl = append(gl, b)
			} else {
				loc[g.fd] = append(loc[g.fd], b)
			}
		}
	}
	fc.nGlobal = drawIndexSize(t, len(gl), "nG")
	fc.emptyFillG = rapid.IntRange(0, 19).Draw(t, "emptyFillG") == 0
	placeSubrs(t, gl, fc.nGlobal, "g")
	for i := range fc.fds {
		fc.fds[i].nLocal = drawIndexSize(t, len(loc[i]), "nL")
		fc.fds[i].emptyFiller = rapid.IntRange(0, 19).Draw(t, "emptyFillL") == 0
		fc.fds[i].omitSubrs = fc.fds[i].nLocal == 0 && rapid.Bool().Draw(t, "omitSubrs")
		fc.fds[i].subrsReal = rapid.SampledFrom([]int{0, 0, 0, 0, 0, 1, 2}).Draw(t, "subrsOffsetSpelling")
		placeSubrs(t, loc[i], fc.fds[i].nLocal, "l")
	}
	// random encodings for the call operands
	for _, g := range fc.glyphs {
		all := append([]*body{g.prog.main}, g.prog.bodies...)
		for _, b := range all {
			for k := range b.toks {
				if b.toks[k].kind == tCall && rapid.IntRange(0, 3).Draw(t, "callenc") == 0 {
					n := fc.fds[g.fd].nLocal
					if b.toks[k].sub.global {
						n = fc.nGlobal
					}
					v := float64(b.toks[k].sub.index - reft2.Bias(n))
					if e := rapid.SampledFrom([]reft2.NumEnc{reft2.EncShort, reft2.EncFixed}).Draw(t, "ce"); reft2.CanEncode(v, e) {
						b.toks[k].enc = e
					}
				}
			}
		}
	}
	fc.build()
}

func filler(n int, empty bool) [][]byte {
	res := make([][]byte, n)
	if !empty {
		ret := []byte{reft2.OpReturn}
		for i := range res {
			res[i] = ret
		}
	}
	return res
}

func (fc *fontCase) build() {
	fc.gsubrs = filler(fc.nGlobal, fc.emptyFillG)
	fc.lsubrs = make([][][]byte, len(fc.fds))
	for i, fd := range fc.fds {
		fc.lsubrs[i] = filler(fd.nLocal, fd.emptyFiller)
	}
	fc.codes = make([][]byte, len(fc.glyphs))
	for gi, g := range fc.glyphs {
		tb := subrTables{nLocal: fc.fds[g.fd].nLocal, nGlobal: fc.nGlobal}
		for _, b := range g.prog.bodies {
			code := b.bytes(tb)
			if b.global {
				fc.gsubrs[b.index] = code
			} else {
				fc.lsubrs[g.fd][b.index] = code
			}
		}
		fc.codes[gi] = g.prog.main.bytes(tb)
	}
	spec := refcff.Spec{
		FontName:       "C05",
		CharStrings:    fc.codes,
		GSubrs:         fc.gsubrs,
		CID:            fc.cid,
		FDSelectFormat: fc.fdselFormat,
		Gap:            fc.gap,
	}
	for i, fd := range fc.fds {
		spec.FDs = append(spec.FDs, refcff.FDSpec{DefaultWidthX: fd.dw, NominalWidthX: fd.nw,
			Subrs: fc.lsubrs[i], OmitSubrs: fd.omitSubrs, SubrsOffsetReal: fd.subrsReal})
	}
	for _, g := range fc.glyphs {
		spec.FDSelect = append(spec.FDSelect, g.fd)
	}
	fc.data = refcff.Build(spec)
}

func (fc *fontCase) input(gi int) reft2.Input {
	g := fc.glyphs[gi]
	return reft2.Input{Code: fc.codes[gi], GSubrs: fc.gsubrs, LSubrs: fc.lsubrs[g.fd],
		DefaultWidthX: fc.fds[g.fd].dw, NominalWidthX: fc.fds[g.fd].nw}
}

func (fc *fontCase) String() string {
	var sb strings.Builder
	fmt.Fprintf(&sb, "font cid=%v fdsel=%d gap=%d nGlobal=%d(emptyfill=%v)\n", fc.cid, fc.fdselFormat, fc.gap, fc.nGlobal, fc.emptyFillG)
	for i, fd := range fc.fds {
		fmt.Fprintf(&sb, "  fd %d: defaultWidthX=%v nominalWidthX=%v nLocal=%d(emptyfill=%v omit=%v)\n", i, fd.dw, fd.nw, fd.nLocal, fd.emptyFiller, fd.omitSubrs)
	}
	for gi, g := range fc.glyphs {
		fmt.Fprintf(&sb, "  glyph %d (fd %d): %s\n    bytes=%x\n", gi, g.fd, g.prog.main.text(), fc.codes[gi])
		for _, b := range g.prog.bodies {
			k := "L"
			tbl := fc.lsubrs[g.fd]
			if b.global {
				k, tbl = "G", fc.gsubrs
			}
			fmt.Fprintf(&sb, "    subr %s#%d bytes=%x\n", k, b.index, tbl[b.index])
		}
	}
	return sb.String()
}

// ---------------------------------------------------------------------------
// comparison reft2 <-> cff.Glyph

func tol(n reft2.Num) float64 { return n.E + reft2.Ulp/2 }

func cmpNums(what string, want []reft2.Num, got []float64) error {
	if len(want) != len(got) {
		return fmt.Errorf("%s: %d values, reference has %d (got %v)", what, len(got), len(want), got)
	}
	for i := range want {
		if d := math.Abs(want[i].V - got[i]); !(d <= tol(want[i])) {
			return fmt.Errorf("%s[%d] = %v, reference %v (±%g)", what, i, got[i], want[i].V, tol(want[i]))
		}
	}
	return nil
}

func cmpGlyph(ref *reft2.Result, g *cff.Glyph) error {
	if d := math.Abs(ref.Width.V - g.Width); !(d <= tol(ref.Width)+1e-9) {
		return fmt.Errorf("width %v, reference %v", g.Width, ref.Width.V)
	}
	if err := cmpNums("HStem", ref.HStem, g.HStem); err != nil {
		return err
	}
	if err := cmpNums("VStem", ref.VStem, g.VStem); err != nil {
		return err
	}
	if len(ref.Cmds) != len(g.Cmds) {
		return fmt.Errorf("%d commands, reference has %d", len(g.Cmds), len(ref.Cmds))
	}
	for i, rc := range ref.Cmds {
		gc := g.Cmds[i]
		var wantOp cff.GlyphOpType
		switch rc.Op {
		case reft2.MoveTo:
			wantOp = cff.OpMoveTo
		case reft2.LineTo:
			wantOp = cff.OpLineTo
		case reft2.CurveTo:
			wantOp = cff.OpCurveTo
		case reft2.HintMask:
			wantOp = cff.OpHintMask
		case reft2.CntrMask:
			wantOp = cff.OpCntrMask
		}
		if gc.Op != wantOp {
			return fmt.Errorf("command %d is %v, reference %v (from %s)", i, gc.Op, rc.Op, reft2.OpName(rc.Src))
		}
		if rc.Op == reft2.HintMask || rc.Op == reft2.CntrMask {
			if len(gc.Args) != len(rc.Mask) {
				return fmt.Errorf("command %d (%v): %d mask bytes, reference %d", i, rc.Op, len(gc.Args), len(rc.Mask))
			}
			for k, b := range rc.Mask {
				if gc.Args[k] != float64(b) {
					return fmt.Errorf("command %d (%v): mask byte %d is %v, reference %#x", i, rc.Op, k, gc.Args[k], b)
				}
			}
			continue
		}
		if err := cmpNums(fmt.Sprintf("command %d (%v from %s)", i, rc.Op, reft2.OpName(rc.Src)), rc.Args, gc.Args); err != nil {
			return err
		}
	}
	return nil
}

// ---------------------------------------------------------------------------
// x/image as second judge

type xiSeg struct {
	op   int // 0 move, 1 line, 3 cube
	args [6]int64
}

// refSegments converts the reference result to the closed-contour integer
// form x/image produces.
func refSegments(res *reft2.Result) []xiSeg {
	var out []xiSeg
	var x, y, fx, fy int64
	closeIt := func() {
		if x != fx || y != fy {
			out = append(out, xiSeg{op: 1, args: [6]int64{fx, fy}})
		}
	}
	iv := func(n reft2.Num) int64 { return int64(n.V) }
	for _, c := range res.Cmds {
		switch c.Op {
		case reft2.MoveTo:
			closeIt()
			x, y = iv(c.Args[0]), iv(c.Args[1])
			fx, fy = x, y
			out = append(out, xiSeg{op: 0, args: [6]int64{x, y}})
		case reft2.LineTo:
			x, y = iv(c.Args[0]), iv(c.Args[1])
			out = append(out, xiSeg{op: 1, args: [6]int64{x, y}})
		case reft2.CurveTo:
			var a [6]int64
			for k := range a {
				a[k] = iv(c.Args[k])
			}
			x, y = a[4], a[5]
			out = append(out, xiSeg{op: 3, args: a})
		}
	}
	closeIt()
	return out
}

// xiApplicable reports whether x/image implements everything the program uses.
func xiApplicable(res *reft2.Result) bool {
	if res.ArithOps > 0 || res.Fractional || res.TrailingBytes > 0 {
		return false
	}
	for _, u := range res.Ops {
		switch u.Op {
		case reft2.OpFlex, reft2.OpFlex1, reft2.OpDotSection:
			return false
		}
	}
	for _, c := range res.Cmds {
		for _, a := range c.Args {
			if math.Abs(a.V) > 1<<30 {
				return false
			}
		}
	}
	return true
}

func xiSegments(f *sfnt.Font, buf *sfnt.Buffer, gi int) ([]xiSeg, error) {
	segs, err := f.LoadGlyph(buf, sfnt.GlyphIndex(gi), fixed.Int26_6(1), nil)
	if err != nil {
		return nil, err
	}
	var out []xiSeg
	for _, s := range segs {
		var x xiSeg
		n := 1
		switch s.Op {
		case sfnt.SegmentOpMoveTo:
			x.op = 0
		case sfnt.SegmentOpLineTo:
			x.op = 1
		case sfnt.SegmentOpCubeTo:
			x.op, n = 3, 3
		default:
			return nil, fmt.Errorf("unexpected segment op %v", s.Op)
		}
		for k := 0; k < n; k++ {
			x.args[2*k] = int64(s.Args[k].X)
			x.args[2*k+1] = -int64(s.Args[k].Y)
		}
		out = append(out, x)
	}
	return out, nil
}

func xiUnsupported(err error) bool {
	return err != nil && strings.Contains(err.Error(), "unsupported")
}

// ---------------------------------------------------------------------------
// the conformance check

func ntGlyph(res *reft2.Result) bool {
	kinds := map[int]bool{}
	for _, u := range res.Ops {
		switch u.Op {
		case reft2.OpRMoveTo, reft2.OpHMoveTo, reft2.OpVMoveTo, reft2.OpEndChar, reft2.OpReturn:
			continue
		case reft2.OpCallSubr, reft2.OpCallGSubr, reft2.OpFlex, reft2.OpFlex1, reft2.OpHFlex, reft2.OpHFlex1:
			return true
		}
		kinds[u.Op] = true
	}
	return len(kinds) >= 3 || res.ArithOps > 0
}

func sizeClass(n int) string {
	switch {
	case n == 0:
		return "0"
	case n < 1240:
		return "<1240"
	case n < 33900:
		return "<33900"
	}
	return ">=33900"
}

func (fc *fontCase) hasEmptyObjects() bool {
	for _, s := range fc.gsubrs {
		if len(s) == 0 {
			return true
		}
	}
	for _, l := range fc.lsubrs {
		for _, s := range l {
			if len(s) == 0 {
				return true
			}
		}
	}
	return false
}

// checkFont runs the three interpreters over a built font of well-formed
// programs.  It returns the labels of the case, or an error text.
func checkFont(fc *fontCase) (labels []string, nt bool, skip string, fail string) {
	lab := map[string]bool{}
	refs := make([]*reft2.Result, len(fc.glyphs))
	for gi := range fc.glyphs {
		res, err := reft2.Run(fc.input(gi))
		if err != nil {
			k := err.(*reft2.Error).Kind
			if k == reft2.KAmbiguous || k == reft2.KUnspecified {
				return nil, false, "discard-" + k.String(), ""
			}
			return nil, false, "", fmt.Sprintf("HARNESS: generator produced a program the reference rejects (glyph %d): %v", gi, err)
		}
		refs[gi] = res
		for _, u := range res.Ops {
			lab["op:"+reft2.OpName(u.Op)] = true
		}
		if res.MaxDepth > 0 {
			lab[fmt.Sprintf("depth:%d", res.MaxDepth)] = true
		}
		if res.MaxStack == reft2.MaxStack {
			lab["stack48"] = true
		}
		if res.Inexact {
			lab["inexact"] = true
		}
		if res.Fractional {
			lab["fractional"] = true
		}
		if res.EndcharDepth > 0 {
			lab["endchar-in-subr"] = true
		}
		if res.TrailingBytes > 0 {
			lab["dead-code-after-endchar"] = true
		}
		if res.HasWidth {
			lab["width-present"] = true
		} else {
			lab["width-default"] = true
		}
		if ntGlyph(res) {
			nt = true
		}
		for f := range fc.glyphs[gi].prog.feat {
			lab["f:"+f] = true
		}
	}
	lab["gsubrs"+sizeClass(fc.nGlobal)] = true
	for _, fd := range fc.fds {
		lab["lsubrs"+sizeClass(fd.nLocal)] = true
		if fd.dw != math.Trunc(fd.dw) || fd.nw != math.Trunc(fd.nw) {
			lab["fractional-dict-width"] = true
		}
	}
	if fc.cid {
		lab["cid"] = true
	} else {
		lab["simple"] = true
	}

	// the code under test
	var font *cff.Font
	var rerr error
	if pn := guard.Try(func() { font, rerr = cff.Read(bytes.NewReader(fc.data)) }); pn != nil {
		return nil, nt, "", "cff.Read: " + pn.String()
	}
	if rerr != nil {
		return nil, nt, "", fmt.Sprintf("cff.Read rejects a font of well-formed charstrings: %v", rerr)
	}
	if len(font.Glyphs) != len(fc.glyphs) {
		return nil, nt, "", fmt.Sprintf("cff.Read returns %d glyphs, want %d", len(font.Glyphs), len(fc.glyphs))
	}
	for gi, res := range refs {
		if err := cmpGlyph(res, font.Glyphs[gi]); err != nil {
			return nil, nt, "", fmt.Sprintf("glyph %d: cff.Read disagrees with the reference interpreter: %v", gi, err)
		}
	}

	// second judge
	xi, xerr := sfnt.Parse(refcff.WrapOTF(fc.data, len(fc.glyphs)))
	realOffsets := false
	for _, fd := range fc.fds {
		if fd.subrsReal != 0 && !fd.omitSubrs {
			realOffsets = true
			lab["subrs-offset-spelled-as-real"] = true
		}
	}
	switch {
	case realOffsets:
		// x/image does not evaluate real operands in DICTs
		lab["ximage-abstains-font"] = true
	case xerr != nil && (xiUnsupported(xerr) || fc.hasEmptyObjects()):
		lab["ximage-abstains-font"] = true
	case xerr != nil:
		return nil, nt, "", fmt.Sprintf("HARNESS: x/image rejects the font the harness wrote: %v", xerr)
	default:
		var buf sfnt.Buffer
		for gi, res := range refs {
			if !xiApplicable(res) {
				lab["ximage-abstains"] = true
				continue
			}
			got, err := xiSegments(xi, &buf, gi)
			if err != nil {
				if xiUnsupported(err) {
					lab["ximage-abstains"] = true
					continue
				}
				return nil, nt, "", fmt.Sprintf("HARNESS: three-way disagreement, glyph %d: x/image error %v on a program the reference and cff.Read accept", gi, err)
			}
			want := refSegments(res)
			if len(got) != len(want) {
				return nil, nt, "", fmt.Sprintf("HARNESS: three-way disagreement, glyph %d: x/image has %d segments, reference %d", gi, len(got), len(want))
			}
			for k := range want {
				if got[k] != want[k] {
					return nil, nt, "", fmt.Sprintf("HARNESS: three-way disagreement, glyph %d segment %d: x/image %v, reference %v", gi, k, got[k], want[k])
				}
			}
			lab["ximage-agrees"] = true
		}
	}
	for l := range lab {
		labels = append(labels, l)
	}
	sort.Strings(labels)
	return labels, nt, "", ""
}

func fingerprint(fc *fontCase) uint64 {
	parts := []any{fc.nGlobal}
	for _, fd := range fc.fds {
		parts = append(parts, fd.nLocal)
	}
	for gi := range fc.codes {
		parts = append(parts, fc.codes[gi])
		for _, b := range fc.glyphs[gi].prog.bodies {
			if b.global {
				parts = append(parts, fc.gsubrs[b.index])
			} else {
				parts = append(parts, fc.lsubrs[fc.glyphs[gi].fd][b.index])
			}
		}
	}
	return stats.Hash(parts...)
}

// callDenseGlyph is a long charstring that does almost nothing but call
// small subroutines: 0 0 rmoveto {callsubr|callgsubr}*n endchar with 50 to
// 1500 calls of 1-3 subroutines "dx dy rlineto" (a staircase).  Real
// subroutinised fonts look like this; the generated programs above call a
// handful of subroutines per glyph.
func callDenseGlyph(t *rapid.T, nFD int) glyphCase {
	num := func(v float64) tok { return tok{kind: tNum, v: v, enc: reft2.EncAuto} }
	p := &program{feat: map[string]bool{"call-dense": true}}
	var subs []*body
	for i := rapid.IntRange(1, 3).Draw(t, "denseSubrs"); i > 0; i-- {
		b := &body{global: rapid.Bool().Draw(t, "denseGlobal")}
		for k := rapid.IntRange(1, 3).Draw(t, "denseLines"); k > 0; k-- {
			b.toks = append(b.toks, num(float64(rapid.IntRange(-9, 9).Draw(t, "dx"))), num(float64(rapid.IntRange(-9, 9).Draw(t, "dy"))))
		}
		b.toks = append(b.toks, tok{kind: tOp, op: reft2.OpRLineTo})
		subs = append(subs, b)
	}
	p.bodies = subs
	main := &body{index: -1}
	main.toks = append(main.toks, num(0), num(0), tok{kind: tOp, op: reft2.OpRMoveTo})
	n := rapid.SampledFrom([]int{50, 200, 530, 600, 1000, 1500}).Draw(t, "denseCalls")
	for i := 0; i < n; i++ {
		main.toks = append(main.toks, tok{kind: tCall, sub: subs[i%len(subs)]})
	}
	main.toks = append(main.toks, tok{kind: tOp, op: reft2.OpEndChar})
	p.main = main
	fd := 0
	if nFD > 1 {
		fd = rapid.IntRange(0, nFD-1).Draw(t, "denseFD")
	}
	return glyphCase{prog: p, fd: fd}
}

func TestC05Conform(t *testing.T) {
	rapid.Check(t, func(t *rapid.T) {
		fc := genFont(t, 4)
		for _, g := range fc.glyphs {
			addSubrs(t, g.prog, subrPlan{maxLocal: 20, maxGlobal: 20})
		}
		var extra []string
		if len(fc.fds) >= 2 && rapid.Bool().Draw(t, "sameProgramOtherFD") {
			// byte-identical charstrings under different Font DICTs: width
			// defaults and nominal widths come from the glyph's own FD
			var plain []int
			for i, g := range fc.glyphs {
				if len(g.prog.bodies) == 0 {
					plain = append(plain, i)
				}
			}
			if len(plain) > 0 {
				src := fc.glyphs[rapid.SampledFrom(plain).Draw(t, "dupGlyph")]
				fd := (src.fd + rapid.IntRange(1, len(fc.fds)-1).Draw(t, "dupFDShift")) % len(fc.fds)
				fc.glyphs = append(fc.glyphs, glyphCase{prog: src.prog, fd: fd})
				extra = append(extra, "same-charstring-in-two-fds")
			}
		}
		if rapid.IntRange(0, 7).Draw(t, "callDense") == 0 {
			fc.glyphs = append(fc.glyphs, callDenseGlyph(t, len(fc.fds)))
			extra = append(extra, "call-dense-charstring")
		}
		fc.finish(t)
		labels, nt, skip, fail := checkFont(fc)
		labels = append(labels, extra...)
		if skip != "" {
			stats.Label("conform", skip)
			return
		}
		if fail != "" {
			t.Fatalf("%s\n%s", fail, fc)
		}
		stats.CaseIn("conform", fingerprint(fc), nt, func() string { return fc.String() }, labels...)
	})
}
