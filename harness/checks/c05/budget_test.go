package c05

import (
	"bytes"
	"strings"
	"testing"

	"seehuhn.de/go/sfnt/cff"
	"verif/harness/guard"
	"verif/harness/ref/refcff"
	"verif/harness/ref/reft2"
	"verif/harness/stats"
)

// TestC05KnownSubrBudget is the reproducer of a recorded finding: cff.Read
// limits the subroutine code executed while reading one font to 256 KiB + 16
// x the size of the data (a repair of the resource clause of C02: nested calls
// multiply work and path data at each of ten levels).  A well-formed font
// whose glyphs re-use large subroutines beyond that ratio is rejected although
// every one of its charstrings is legal Type 2 code: 100 glyphs, each drawing
// one 660-segment ornament (a 2000-byte global subroutine) three times, in a
// file of 3 KB.  The conforming interpreter of the harness accepts every
// glyph.
func TestC05KnownSubrBudget(t *testing.T) {
	var sub []byte
	for len(sub) < 2000 {
		sub = append(sub, 140, 140, 5) // 1 1 rlineto
	}
	sub = append(sub, 11) // return
	glyphCode := []byte{139, 139, 21, 32, 29, 32, 29, 32, 29, 14} // 0 0 rmoveto, three calls of gsubr 0 (bias 107), endchar
	spec := refcff.Spec{FontName: "Ornaments", CID: true, FDs: []refcff.FDSpec{{}}, GSubrs: [][]byte{sub}}
	const n = 100
	for i := 0; i < n; i++ {
		spec.CharStrings = append(spec.CharStrings, glyphCode)
		spec.FDSelect = append(spec.FDSelect, 0)
	}
	res, err := reft2.Run(reft2.Input{Code: glyphCode, GSubrs: [][]byte{sub}})
	if err != nil {
		t.Fatalf("HARNESS: the reference interpreter rejects the ornament glyph: %v", err)
	}
	if len(res.Cmds) < 1900 {
		t.Fatalf("HARNESS: the ornament glyph has %d path commands", len(res.Cmds))
	}
	data := refcff.Build(spec)
	var f *cff.Font
	var rerr error
	if pn := guard.Try(func() { f, rerr = cff.Read(bytes.NewReader(data)) }); pn != nil {
		t.Fatalf("cff.Read panicked: %s", pn)
	}
	if rerr != nil {
		if strings.Contains(rerr.Error(), "too much subroutine code") && stats.Known("C05", "subr-budget:cff.Read") {
			t.Logf("known finding still present: %d-byte font of %d well-formed glyphs rejected: %v", len(data), n, rerr)
			stats.CaseIn("known-subr-budget", 1, true, func() string { return rerr.Error() }, "rejected-by-budget")
			return
		}
		t.Fatalf("cff.Read rejects a well-formed font (%d bytes, %d glyphs each calling a 2000-byte subroutine three times): %v", len(data), n, rerr)
	}
	if len(f.Glyphs) != n || len(f.Glyphs[n-1].Cmds) != len(res.Cmds) {
		t.Fatalf("cff.Read: %d glyphs, last glyph %d commands; reference %d commands", len(f.Glyphs), len(f.Glyphs[n-1].Cmds), len(res.Cmds))
	}
	stats.CaseIn("known-subr-budget", 1, false, nil, "accepted")
}
