package c05

import (
	"bytes"
	"testing"

	"seehuhn.de/go/sfnt/cff"
	"verif/harness/guard"
	"verif/harness/ref/refcff"
	"verif/harness/ref/reft2"
)

// Native fuzzing of "charstring bytes -> wrapped CFF" with the differential
// as oracle.  The first byte selects the sizes of the subroutine INDEXes; the
// rest is the charstring of glyph 1.  A few canned subroutines sit at the
// boundary positions of both tables.

var fuzzSizes = []int{0, 3, 1240, 33900}

var fuzzTables = map[[2]int][2][][]byte{}

func fuzzSubrs(nl, ng int) (l, g [][]byte) {
	k := [2]int{nl, ng}
	if tb, ok := fuzzTables[k]; ok {
		return tb[0], tb[1]
	}
	mk := func(n int, global bool) [][]byte {
		res := filler(n, false)
		if n == 0 {
			return res
		}
		res[0] = cs(10, 20, op(reft2.OpRLineTo), op(reft2.OpReturn))
		if n > 1 {
			res[1] = cs(7, op(reft2.OpReturn)) // pushes an operand
		}
		if n > 2 {
			if global {
				res[2] = cs(op(reft2.OpEndChar))
			} else {
				// calls local subroutine 0 again
				res[2] = cs(0-reft2.Bias(n), op(reft2.OpCallSubr), op(reft2.OpReturn))
			}
		}
		res[n-1] = cs(1, 2, 3, 4, op(reft2.OpHHCurveTo), op(reft2.OpReturn))
		return res
	}
	tb := [2][][]byte{mk(nl, false), mk(ng, true)}
	fuzzTables[k] = tb
	return tb[0], tb[1]
}

var listedKinds = map[reft2.Kind]bool{
	reft2.KUnderflow: true, reft2.KOverflow: true, reft2.KMissingEndchar: true,
	reft2.KBadSubr: true, reft2.KDrawBeforeMove: true, reft2.KNesting: true,
}

func FuzzC05Bytes(f *testing.F) {
	seed := func(sel byte, code []byte) { f.Add(append([]byte{sel}, code...)) }
	seed(0, cs(op(reft2.OpEndChar)))
	seed(5, cs(50, 10, 20, op(reft2.OpHStem), 5, 6, op(reft2.OpRMoveTo), -107, op(reft2.OpCallSubr), op(reft2.OpEndChar)))
	seed(10, cs(1, 2, op(reft2.OpRMoveTo), -1131, op(reft2.OpCallSubr), 1, 2, 3, 4, 5, op(reft2.OpHVCurveTo), -1129, op(reft2.OpCallGSubr)))
	seed(15, cs(3, 4, op(reft2.OpMul), op(reft2.OpHMoveTo), 1, 2, 3, 4, 5, 6, 7, 8, 9, 10, 11, op(reft2.OpFlex1), 32767-32768, op(reft2.OpCallSubr), op(reft2.OpEndChar)))
	seed(1, cs(10, 20, 30, 40, op(reft2.OpHStemHM), 5, 6, op(reft2.OpHintMask), []byte{0xC0}, 7, op(reft2.OpVMoveTo), 1, 2, 3, 4, 5, 6, 7, op(reft2.OpHFlex), op(reft2.OpEndChar)))
	seed(1, cs(4, 0, 1, op(reft2.OpPut), 1, op(reft2.OpGet), op(reft2.OpDup), op(reft2.OpRMoveTo), 1, 2, 3, 3, -1, op(reft2.OpRoll), op(reft2.OpHLineTo), op(reft2.OpEndChar)))
	f.Fuzz(func(t *testing.T, in []byte) {
		if len(in) < 1 || len(in) > 4000 {
			return
		}
		nl, ng := fuzzSizes[in[0]&3], fuzzSizes[(in[0]>>2)&3]
		code := in[1:]
		l, g := fuzzSubrs(nl, ng)
		dw, nw := 500.0, 0.0
		if in[0]&16 != 0 {
			dw, nw = 0.5, -100.25
		}
		ref, rerr := reft2.Run(reft2.Input{Code: code, GSubrs: g, LSubrs: l, DefaultWidthX: dw, NominalWidthX: nw})
		data := refcff.Build(refcff.Spec{
			CharStrings: [][]byte{{reft2.OpEndChar}, code},
			GSubrs:      g,
			FDs:         []refcff.FDSpec{{Subrs: l, DefaultWidthX: dw, NominalWidthX: nw}},
		})
		var font *cff.Font
		var err error
		if pn := guard.Try(func() { font, err = cff.Read(bytes.NewReader(data)) }); pn != nil {
			t.Fatalf("charstring %x (nLocal=%d nGlobal=%d): %s", code, nl, ng, pn)
		}
		if rerr == nil {
			if excludedByKnown(ref) {
				return
			}
			if err != nil {
				t.Fatalf("well-formed charstring %x (nLocal=%d nGlobal=%d) rejected: %v", code, nl, ng, err)
			}
			if e := cmpGlyph(ref, font.Glyphs[1]); e != nil {
				t.Fatalf("charstring %x (nLocal=%d nGlobal=%d): cff.Read disagrees with the reference interpreter: %v", code, nl, ng, e)
			}
			return
		}
		if k := rerr.(*reft2.Error).Kind; listedKinds[k] && err == nil {
			t.Fatalf("malformed charstring %x (nLocal=%d nGlobal=%d, %v) accepted", code, nl, ng, rerr)
		}
	})
}

// excludedByKnown reports whether a well-formed program falls into a class
// that is listed as a known finding.
func excludedByKnown(res *reft2.Result) bool {
	for _, u := range res.Ops {
		switch {
		case u.Op == reft2.OpMul && excluded(keyMul),
			u.Op == reft2.OpFlex1 && excluded(keyFlex1),
			u.Op == reft2.OpRoll && excluded(keyRollN0):
			return true
		}
	}
	if res.BigOperand && excluded(keyClamp) {
		return true
	}
	return false
}
