package c05

import (
	"bytes"
	"fmt"
	"testing"

	"seehuhn.de/go/sfnt/cff"
	"verif/harness/guard"
	"verif/harness/ref/refcff"
	"verif/harness/ref/reft2"
	"verif/harness/stats"
)

// cs assembles a charstring from numbers (float64/int), operator codes
// (type op) and raw bytes.
type op int

func cs(items ...any) []byte {
	var out []byte
	for _, it := range items {
		switch v := it.(type) {
		case int:
			out = reft2.AppendNumber(out, float64(v), reft2.EncAuto)
		case float64:
			out = reft2.AppendNumber(out, v, reft2.EncAuto)
		case op:
			out = reft2.AppendOp(out, int(v))
		case []byte:
			out = append(out, v...)
		default:
			panic("cs: bad item")
		}
	}
	return out
}

// readOne wraps a charstring (glyph 1; glyph 0 is "endchar") into a simple
// font and reads it with cff.Read.
func readOne(code []byte, gsubrs, lsubrs [][]byte) (*cff.Glyph, error) {
	data := refcff.Build(refcff.Spec{
		CharStrings: [][]byte{{reft2.OpEndChar}, code},
		GSubrs:      gsubrs,
		FDs:         []refcff.FDSpec{{Subrs: lsubrs}},
	})
	var f *cff.Font
	var err error
	if pn := guard.Try(func() { f, err = cff.Read(bytes.NewReader(data)) }); pn != nil {
		return nil, fmt.Errorf("%s", pn)
	}
	if err != nil {
		return nil, err
	}
	return f.Glyphs[1], nil
}

type pt struct{ x, y float64 }

// wantPath checks the end points of the decoded commands.
func wantPath(g *cff.Glyph, want []pt) error {
	if len(g.Cmds) != len(want) {
		return fmt.Errorf("%d commands, want %d: %v", len(g.Cmds), len(want), g.Cmds)
	}
	for i, c := range g.Cmds {
		n := len(c.Args)
		if n < 2 || c.Args[n-2] != want[i].x || c.Args[n-1] != want[i].y {
			return fmt.Errorf("command %d ends at %v, want %v (all: %v)", i, c.Args, want[i], g.Cmds)
		}
	}
	return nil
}

// regress runs a reproducer; if it still fails and the failure is a listed
// known finding, the hit is counted instead of failing.
func regress(t *testing.T, key string, code []byte, want []pt) {
	t.Helper()
	// the expectation itself is checked against the reference interpreter
	res, rerr := reft2.Run(reft2.Input{Code: code})
	if rerr != nil {
		t.Fatalf("HARNESS: reference rejects the reproducer: %v", rerr)
	}
	var ends []pt
	for _, c := range res.Cmds {
		n := len(c.Args)
		ends = append(ends, pt{c.Args[n-2].V, c.Args[n-1].V})
	}
	if fmt.Sprint(ends) != fmt.Sprint(want) {
		t.Fatalf("HARNESS: reference gives %v, hand-computed expectation %v", ends, want)
	}
	g, err := readOne(code, nil, nil)
	if err == nil {
		err = wantPath(g, want)
	}
	if err != nil {
		if stats.Known("C05", key) {
			t.Logf("known finding %s still present: %v", key, err)
			return
		}
		t.Fatalf("charstring %x: %v", code, err)
	}
}

// TN5177: "roll ... The value N must be a non-negative integer": N = 0 is a
// defined no-op.  Minimal input: 100 0 0 roll hmoveto endchar.
func TestC05RegressRollN0(t *testing.T) {
	regress(t, keyRollN0,
		cs(100, 0, 0, op(reft2.OpRoll), op(reft2.OpHMoveTo), op(reft2.OpEndChar)),
		[]pt{{100, 0}})
	stats.CaseIn("regress", stats.Hash("roll-n0"), true, nil, "roll-n0")
}

// Operands are 16.16 numbers in [-32768, 32768); a moveto by 32767 or -32768
// must not be clamped to +-32000.
func TestC05RegressOperandRange(t *testing.T) {
	regress(t, keyClamp,
		cs(32767, op(reft2.OpHMoveTo), -32768, op(reft2.OpVLineTo), op(reft2.OpEndChar)),
		[]pt{{32767, 0}, {32767, -32768}})
	regress(t, keyClamp,
		cs(32000.5, -32001, op(reft2.OpRMoveTo), op(reft2.OpEndChar)),
		[]pt{{32000.5, -32001}})
	stats.CaseIn("regress", stats.Hash("clamp"), true, nil, "operand-range")
}

// mul is the product of two 16.16 numbers: 3*4 = 12, 2.5*1.5 = 3.75.
func TestC05RegressMul(t *testing.T) {
	regress(t, keyMul,
		cs(3, 4, op(reft2.OpMul), op(reft2.OpHMoveTo), 2.5, 1.5, op(reft2.OpMul), op(reft2.OpVLineTo), op(reft2.OpEndChar)),
		[]pt{{12, 0}, {12, 3.75}})
	stats.CaseIn("regress", stats.Hash("mul"), true, nil, "mul")
}

// flex1: the last operand moves along the dominant direction, the other
// coordinate of the end point equals that of the starting point.
func TestC05RegressFlex1(t *testing.T) {
	// start (5,7); dx sum 50, dy sum 25: horizontal, end = (5+50+7, 7)
	regress(t, keyFlex1,
		cs(5, 7, op(reft2.OpRMoveTo), 10, 5, 10, 5, 10, 5, 10, 5, 10, 5, 7, op(reft2.OpFlex1), op(reft2.OpEndChar)),
		[]pt{{5, 7}, {35, 22}, {62, 7}})
	// dx sum 25, dy sum -50: vertical, end = (5, 7-50-3)
	regress(t, keyFlex1,
		cs(5, 7, op(reft2.OpRMoveTo), 5, -10, 5, -10, 5, -10, 5, -10, 5, -10, -3, op(reft2.OpFlex1), op(reft2.OpEndChar)),
		[]pt{{5, 7}, {20, -23}, {5, -46}})
	// |dx| == |dy|: vertical
	regress(t, keyFlex1,
		cs(0, op(reft2.OpHMoveTo), 1, 1, 1, 1, 1, 1, 1, 1, 1, 1, 9, op(reft2.OpFlex1), op(reft2.OpEndChar)),
		[]pt{{0, 0}, {3, 3}, {0, 14}})
	stats.CaseIn("regress", stats.Hash("flex1"), true, nil, "flex1")
}
