package c05

import (
	"bytes"
	"fmt"
	"testing"

	"pgregory.net/rapid"

	"seehuhn.de/go/sfnt/cff"
	"verif/harness/guard"
	"verif/harness/ref/reft2"
	"verif/harness/stats"
)

// A mutation inserts one fault into a well-formed flat program.  want is the
// malformation the reference interpreter must report (otherwise the mutant is
// counted as ineffective and dropped); mustErr says whether the property
// demands that cff.Read rejects the font (the listed malformations) or only
// that it does not panic (operand-count faults of path operators, for which
// the decoder is deliberately lenient).
type mutation struct {
	name    string
	want    reft2.Kind
	mustErr bool
}

// builder for inserted tokens with correct static depth annotation
type ins struct {
	toks []tok
	sp   int
}

func (b *ins) num(v float64) {
	b.toks = append(b.toks, tok{kind: tNum, v: v, sp: b.sp, stmt: b.sp == 0 && len(b.toks) == 0})
	b.sp++
}

func (b *ins) op(op int, eff int) {
	b.toks = append(b.toks, tok{kind: tOp, op: op, sp: b.sp, stmt: b.sp == 0 && len(b.toks) == 0})
	b.sp += eff
}

func insertAt(toks []tok, k int, add []tok) []tok {
	out := make([]tok, 0, len(toks)+len(add))
	out = append(out, toks[:k]...)
	out = append(out, add...)
	return append(out, toks[k:]...)
}

// stmtStarts lists the token positions where a statement begins with an empty
// operand stack (the final endchar statement included).
func stmtStarts(toks []tok) []int {
	var res []int
	for i, t := range toks {
		if t.stmt {
			res = append(res, i)
		}
	}
	return res
}

func isStemOp(op int) bool {
	return op == reft2.OpHStem || op == reft2.OpVStem || op == reft2.OpHStemHM || op == reft2.OpVStemHM
}

func isMoveOp(op int) bool {
	return op == reft2.OpRMoveTo || op == reft2.OpHMoveTo || op == reft2.OpVMoveTo
}

var arity = []struct{ op, need int }{
	{reft2.OpAdd, 2}, {reft2.OpSub, 2}, {reft2.OpMul, 2}, {reft2.OpDiv, 2}, {reft2.OpEq, 2},
	{reft2.OpAnd, 2}, {reft2.OpOr, 2}, {reft2.OpExch, 2}, {reft2.OpPut, 2}, {reft2.OpRoll, 2},
	{reft2.OpIfElse, 4}, {reft2.OpAbs, 1}, {reft2.OpNeg, 1}, {reft2.OpSqrt, 1}, {reft2.OpNot, 1},
	{reft2.OpDrop, 1}, {reft2.OpDup, 1}, {reft2.OpGet, 1}, {reft2.OpIndex, 1},
}

// mutate applies one drawn fault to the flat program.  It may add
// subroutine bodies (nesting mutant).
func mutate(t *rapid.T, p *program) mutation {
	toks := p.main.toks
	starts := stmtStarts(toks)
	at := func() int { return starts[rapid.IntRange(0, len(starts)-1).Draw(t, "at")] }
	var b ins
	switch rapid.IntRange(0, 9).Draw(t, "mutation") {
	case 0: // arithmetic operator with too few operands
		a := arity[rapid.IntRange(0, len(arity)-1).Draw(t, "aop")]
		have := rapid.IntRange(0, a.need-1).Draw(t, "have")
		for i := 0; i < have; i++ {
			b.num(float64(rapid.IntRange(1, 9).Draw(t, "v")))
		}
		b.op(a.op, 0)
		p.main.toks = insertAt(toks, at(), b.toks)
		return mutation{fmt.Sprintf("underflow-%s-%d", reft2.OpName(a.op), have), reft2.KUnderflow, true}
	case 1: // call with an empty stack
		op := rapid.SampledFrom([]int{reft2.OpCallSubr, reft2.OpCallGSubr}).Draw(t, "callop")
		b.op(op, 0)
		p.main.toks = insertAt(toks, at(), b.toks)
		return mutation{"underflow-" + reft2.OpName(op), reft2.KUnderflow, true}
	case 2: // stem operator with fewer than two operands
		op := rapid.SampledFrom([]int{reft2.OpHStem, reft2.OpVStem, reft2.OpHStemHM, reft2.OpVStemHM}).Draw(t, "stemop")
		have := rapid.IntRange(0, 1).Draw(t, "have")
		if have == 1 {
			b.num(float64(rapid.IntRange(-50, 50).Draw(t, "v")))
		}
		b.op(op, 0)
		// either in front of everything, or directly after a stem operator
		pos := 0
		var after []int
		for i, tk := range toks {
			if tk.kind == tOp && isStemOp(tk.op) {
				after = append(after, i+1)
			}
		}
		if len(after) > 0 && rapid.Bool().Draw(t, "afterStem") {
			pos = after[rapid.IntRange(0, len(after)-1).Draw(t, "which")]
			if toks[pos-1].op == reft2.OpVStem || toks[pos-1].op == reft2.OpVStemHM {
				// keep h-before-v order so that the only fault is the operand count
				b.toks[len(b.toks)-1].op = toks[pos-1].op
			}
		}
		b.toks[0].stmt = true
		p.main.toks = insertAt(toks, pos, b.toks)
		return mutation{fmt.Sprintf("underflow-stem-%d", have), reft2.KUnderflow, true}
	case 3: // more than 48 operands
		n := rapid.IntRange(49, 56).Draw(t, "n")
		variant := rapid.IntRange(0, 3).Draw(t, "ovariant")
		switch variant {
		case 0: // n literals, then an operator
			for i := 0; i < n; i++ {
				b.num(float64(rapid.IntRange(-9, 9).Draw(t, "v")))
			}
			b.op(reft2.OpHLineTo, -b.sp)
		case 1: // 48 literals + dup
			for i := 0; i < 48; i++ {
				b.num(float64(i))
			}
			b.op(reft2.OpDup, 1)
			b.op(reft2.OpDrop, -1)
			b.op(reft2.OpHLineTo, -b.sp)
		case 2: // 48 literals + random
			for i := 0; i < 48; i++ {
				b.num(float64(i))
			}
			b.op(reft2.OpRandom, 1)
			b.op(reft2.OpDrop, -1)
			b.op(reft2.OpHLineTo, -b.sp)
		default: // 49 literals, drop: the depth is legal again when the path operator runs
			for i := 0; i < 49; i++ {
				b.num(float64(i))
			}
			b.op(reft2.OpDrop, -1)
			b.op(reft2.OpHLineTo, -b.sp)
		}
		p.main.toks = insertAt(toks, at(), b.toks)
		return mutation{fmt.Sprintf("overflow-%d", variant), reft2.KOverflow, true}
	case 4: // no endchar
		last := len(toks) - 1
		if rapid.Bool().Draw(t, "return") {
			toks[last].op = reft2.OpReturn
			return mutation{"endchar-replaced-by-return", reft2.KMissingEndchar, true}
		}
		p.main.toks = toks[:last]
		return mutation{"endchar-deleted", reft2.KMissingEndchar, true}
	case 5: // subroutine number outside the INDEX
		b.toks = []tok{{kind: tBadCall, global: rapid.Bool().Draw(t, "global"), which: rapid.IntRange(0, 2).Draw(t, "which"), stmt: true}}
		p.main.toks = insertAt(toks, at(), b.toks)
		return mutation{fmt.Sprintf("bad-subr-%d", b.toks[0].which), reft2.KBadSubr, true}
	case 6: // path operator before the first moveto
		pos := starts[len(starts)-1] // the endchar statement
		cur := 0
		for i, tk := range toks {
			if tk.stmt {
				cur = i
			}
			if tk.kind == tOp && isMoveOp(tk.op) {
				pos = cur
				break
			}
		}
		type form struct{ op, n int }
		f := rapid.SampledFrom([]form{{reft2.OpRLineTo, 2}, {reft2.OpHLineTo, 1}, {reft2.OpVLineTo, 3},
			{reft2.OpRRCurveTo, 6}, {reft2.OpHHCurveTo, 4}, {reft2.OpVVCurveTo, 5}, {reft2.OpHVCurveTo, 4},
			{reft2.OpVHCurveTo, 5}, {reft2.OpRCurveLine, 8}, {reft2.OpRLineCurve, 8}, {reft2.OpFlex, 13},
			{reft2.OpHFlex, 7}, {reft2.OpHFlex1, 9}, {reft2.OpFlex1, 11}}).Draw(t, "form")
		for i := 0; i < f.n; i++ {
			b.num(float64(rapid.IntRange(-99, 99).Draw(t, "v")))
		}
		b.op(f.op, -b.sp)
		p.main.toks = insertAt(toks, pos, b.toks)
		return mutation{"draw-before-move-" + reft2.OpName(f.op), reft2.KDrawBeforeMove, true}
	case 7: // eleven nested calls
		global := rapid.Bool().Draw(t, "global")
		mixed := rapid.Bool().Draw(t, "mixed")
		next := &body{global: global}
		p.bodies = append(p.bodies, next)
		for i := 0; i < reft2.MaxNest; i++ {
			gl := global
			if mixed {
				gl = i%2 == 0
			}
			nb := &body{global: gl, toks: []tok{{kind: tCall, sub: next, stmt: true}}}
			p.bodies = append(p.bodies, nb)
			next = nb
		}
		b.toks = []tok{{kind: tCall, sub: next, stmt: true}}
		p.main.toks = insertAt(toks, at(), b.toks)
		return mutation{"nesting-11", reft2.KNesting, true}
	default: // operand count of a path operator: one operand removed or added
		var cands []int
		for i, tk := range toks {
			if tk.kind == tOp && i > 0 && toks[i-1].kind == tNum {
				switch tk.op {
				case reft2.OpRLineTo, reft2.OpRRCurveTo, reft2.OpHHCurveTo, reft2.OpVVCurveTo, reft2.OpHVCurveTo,
					reft2.OpVHCurveTo, reft2.OpRCurveLine, reft2.OpRLineCurve, reft2.OpFlex, reft2.OpHFlex,
					reft2.OpHFlex1, reft2.OpFlex1, reft2.OpRMoveTo, reft2.OpHMoveTo, reft2.OpVMoveTo:
					if tk.sp < reft2.MaxStack {
						cands = append(cands, i)
					}
				}
			}
		}
		if len(cands) == 0 {
			return mutation{}
		}
		i := cands[rapid.IntRange(0, len(cands)-1).Draw(t, "which")]
		if rapid.Bool().Draw(t, "remove") {
			p.main.toks = append(toks[:i-1:i-1], toks[i:]...)
			return mutation{"operand-removed-" + reft2.OpName(toks[i].op), reft2.KOperandCount, false}
		}
		p.main.toks = insertAt(toks, i, []tok{{kind: tNum, v: 7, sp: toks[i].sp}})
		return mutation{"operand-added-" + reft2.OpName(toks[i+0].op), reft2.KOperandCount, false}
	}
}

func TestC05Mutants(t *testing.T) {
	rapid.Check(t, func(t *rapid.T) {
		fc := genFont(t, 3)
		victim := rapid.IntRange(0, len(fc.glyphs)-1).Draw(t, "victim")
		m := mutate(t, fc.glyphs[victim].prog)
		if m.name == "" {
			stats.Label("mutants", "no-site")
			return
		}
		for _, g := range fc.glyphs {
			addSubrs(t, g.prog, subrPlan{maxLocal: 20, maxGlobal: 20})
		}
		fc.finish(t)

		// the reference must see exactly the intended fault, and only in the victim
		for gi := range fc.glyphs {
			_, err := reft2.Run(fc.input(gi))
			if gi != victim {
				if err != nil {
					k := err.(*reft2.Error).Kind
					if k == reft2.KAmbiguous || k == reft2.KUnspecified {
						stats.Label("mutants", "discard-"+k.String())
						return
					}
					t.Fatalf("HARNESS: reference rejects an unmutated glyph %d: %v\n%s", gi, err, fc)
				}
				continue
			}
			if err == nil {
				if m.mustErr {
					t.Fatalf("HARNESS: mutant %s is accepted by the reference\n%s", m.name, fc)
				}
				stats.Label("mutants", "ineffective-"+m.name)
				return
			}
			k := err.(*reft2.Error).Kind
			if k != m.want {
				if k == reft2.KAmbiguous || k == reft2.KUnspecified || !m.mustErr {
					stats.Label("mutants", "ineffective-"+m.want.String()+"-became-"+k.String())
					return
				}
				t.Fatalf("HARNESS: mutant %s: reference reports %v, intended %v\n%s", m.name, err, m.want, fc)
			}
		}

		var rerr error
		if pn := guard.Try(func() { _, rerr = cff.Read(bytes.NewReader(fc.data)) }); pn != nil {
			t.Fatalf("mutant %s (glyph %d): cff.Read: %s\n%s", m.name, victim, pn, fc)
		}
		verdict := "rejected"
		if rerr == nil {
			verdict = "accepted"
			if m.mustErr {
				t.Fatalf("mutant %s (glyph %d, malformation %v): cff.Read returns no error\n%s", m.name, victim, m.want, fc)
			}
		}
		class := m.want.String()
		labels := []string{"class:" + class, "mutant:" + m.name}
		if !m.mustErr {
			labels = append(labels, "lenient-class-"+verdict)
		}
		stats.CaseIn("mutants", fingerprint(fc), true, func() string { return m.name + "\n" + fc.String() }, labels...)
	})
}
