package c05

import (
	"fmt"
	"math"
	"sort"
	"strings"

	"pgregory.net/rapid"

	"verif/harness/ref/reft2"
	"verif/harness/stats"
)

// ---------------------------------------------------------------------------
// token model

type tokKind uint8

const (
	tNum tokKind = iota
	tOp
	tMask    // hintmask/cntrmask operator followed by its mask bytes
	tCall    // subroutine call: number + callsubr/callgsubr
	tRaw     // raw bytes (mutants only)
	tBadCall // call with a subroutine number outside the INDEX (mutants only)
)

type tok struct {
	kind   tokKind
	v      float64
	enc    reft2.NumEnc
	op     int
	mask   []byte
	raw    []byte
	sub    *body // tCall
	global bool  // tBadCall
	which  int   // tBadCall: 0 = first index beyond the end, 1 = index -1, 2 = far beyond
	sp     int   // static operand stack depth before the token
	stmt   bool  // first token of a statement that starts with an empty stack
}

// body is the main charstring or a subroutine.
type body struct {
	toks    []tok
	global  bool
	index   int  // position in its INDEX (assigned late)
	noRet   bool // do not append return (body ends in endchar)
	deadRet bool // append return although the body ends in endchar
}

func is16(v float64) bool { s := v * 65536; return s == math.Trunc(s) }

func inRange(v float64) bool { return v >= -32768 && v < 32768 && is16(v) }

// ---------------------------------------------------------------------------
// classes excluded when they are listed as known findings (the search then
// continues behind them); keys are used in known-findings.txt

const (
	keyRollN0 = "roll-n0"             // roll with N = 0 rejected
	keyClamp  = "operand-above-32000" // path operands clamped to +-32000
	keyMul    = "mul-integer-parts"   // mul computed on truncated operands
	keyFlex1  = "flex1-endpoint"      // flex1 does not return to the start coordinate
)

// excluded reports whether the class is listed; it counts the exclusion.
func excluded(key string) bool {
	if stats.IsListed("C05", key) {
		stats.Excluded(key)
		return true
	}
	return false
}

// ---------------------------------------------------------------------------
// flat program generator

type pgen struct {
	t    *rapid.T
	toks []tok
	sp   int

	pArith   int // percent: an operand is produced by an expression
	pFrac    int // percent: a coordinate has a fractional part
	pOddEnc  int // percent: a number uses a non-canonical encoding
	inexact  bool
	allowBig bool

	hasWidth  bool
	width     float64
	widthDone bool

	nStems   int
	useMasks bool
	regs     map[int]float64
	feat     map[string]bool
	stmtOpen bool
}

func (g *pgen) chance(p int) bool {
	if p <= 0 {
		return false
	}
	if p >= 100 {
		return true
	}
	return rapid.IntRange(0, 99).Draw(g.t, "p") < p
}

func (g *pgen) intn(lo, hi int, label string) int { return rapid.IntRange(lo, hi).Draw(g.t, label) }

func (g *pgen) mark(f string) { g.feat[f] = true }

func (g *pgen) add(t tok) {
	t.sp = g.sp
	if g.sp == 0 && !g.stmtOpen {
		t.stmt = true
	}
	g.stmtOpen = true
	g.toks = append(g.toks, t)
}

// lit pushes a literal number with a drawn encoding.
func (g *pgen) lit(v float64) {
	if !inRange(v) {
		panic(fmt.Sprintf("c05 generator: literal %v out of range", v))
	}
	enc := reft2.EncAuto
	if g.chance(g.pOddEnc) {
		var cands []reft2.NumEnc
		for _, e := range []reft2.NumEnc{reft2.EncByte, reft2.EncPos2, reft2.EncNeg2, reft2.EncShort, reft2.EncFixed} {
			if reft2.CanEncode(v, e) {
				cands = append(cands, e)
			}
		}
		enc = cands[g.intn(0, len(cands)-1, "enc")]
	}
	g.add(tok{kind: tNum, v: v, enc: enc})
	g.sp++
}

var opEffect = map[int]int{
	reft2.OpAbs: 0, reft2.OpNeg: 0, reft2.OpSqrt: 0, reft2.OpNot: 0,
	reft2.OpAdd: -1, reft2.OpSub: -1, reft2.OpMul: -1, reft2.OpDiv: -1,
	reft2.OpEq: -1, reft2.OpAnd: -1, reft2.OpOr: -1, reft2.OpDrop: -1,
	reft2.OpExch: 0, reft2.OpDup: 1, reft2.OpIndex: 0, reft2.OpRoll: -2,
	reft2.OpPut: -2, reft2.OpGet: 0, reft2.OpIfElse: -3, reft2.OpRandom: 1,
}

func (g *pgen) aop(op int) {
	g.add(tok{kind: tOp, op: op})
	g.sp += opEffect[op]
	g.mark("arith")
}

// clearOp emits a stack-clearing operator.
func (g *pgen) clearOp(op int) {
	g.add(tok{kind: tOp, op: op})
	g.sp = 0
	g.stmtOpen = false
}

func (g *pgen) maskOp(op int, mask []byte) {
	g.add(tok{kind: tMask, op: op, mask: mask})
	g.sp = 0
	g.stmtOpen = false
}

func (g *pgen) room(n int) bool { return g.sp+n <= reft2.MaxStack }

// smallInt draws a small non-zero-ish integer.
func (g *pgen) smallInt() float64 { return float64(g.intn(-300, 300, "si")) }

// value leaves v (exactly, unless the generator is in inexact mode and picks
// an inexact form) on the stack.
func (g *pgen) value(v float64, depth int) {
	if depth >= 2 || !g.chance(g.pArith) {
		g.lit(v)
		return
	}
	form := g.intn(0, 17, "form")
	switch form {
	case 0: // a b add
		a := g.smallInt()
		if g.chance(g.pFrac) {
			a += float64(g.intn(0, 65535, "fr")) / 65536
		}
		b := v - a
		if !g.room(2) || !inRange(b) {
			break
		}
		g.value(a, depth+1)
		g.value(b, depth+1)
		g.aop(reft2.OpAdd)
		return
	case 1: // a b sub
		b := g.smallInt()
		a := v + b
		if !g.room(2) || !inRange(a) {
			break
		}
		g.value(a, depth+1)
		g.value(b, depth+1)
		g.aop(reft2.OpSub)
		return
	case 2: // a neg
		if !inRange(-v) {
			break
		}
		g.value(-v, depth+1)
		g.aop(reft2.OpNeg)
		return
	case 3: // a abs
		if v < 0 {
			break
		}
		a := v
		if g.chance(50) {
			a = -v
		}
		g.value(a, depth+1)
		g.aop(reft2.OpAbs)
		g.mark("abs")
		return
	case 4: // a b mul, exact
		fs := []float64{1, 2, 3, 4, 5, -1, -2, -3, 0.5, 0.25, -0.5, 8, 16, 1.5}
		b := fs[g.intn(0, len(fs)-1, "mf")]
		a := v / b
		if !g.room(2) || !inRange(a) || a*b != v || excluded(keyMul) {
			break
		}
		if g.chance(50) {
			a, b = b, a
		}
		g.value(a, depth+1)
		g.value(b, depth+1)
		g.aop(reft2.OpMul)
		g.mark("mul")
		return
	case 5: // a b div, exact
		fs := []float64{1, 2, 4, -1, -2, 0.5, -0.25, 8, 256}
		b := fs[g.intn(0, len(fs)-1, "df")]
		a := v * b
		if !g.room(2) || !inRange(a) || a/b != v {
			break
		}
		g.value(a, depth+1)
		g.lit(b)
		g.aop(reft2.OpDiv)
		g.mark("div")
		return
	case 6: // perfect square sqrt
		if v < 0 || !inRange(v*v) || math.Sqrt(v*v) != v {
			break
		}
		g.value(v*v, depth+1)
		g.aop(reft2.OpSqrt)
		g.mark("sqrt")
		return
	case 7: // v dup exch drop (the copy survives), or a dup add
		if !g.room(2) {
			break
		}
		if h := v / 2; inRange(h) && g.chance(50) {
			g.value(h, depth+1)
			g.aop(reft2.OpDup)
			g.aop(reft2.OpAdd)
		} else {
			g.value(v, depth+1)
			g.aop(reft2.OpDup)
			g.aop(reft2.OpExch)
			g.aop(reft2.OpDrop)
		}
		g.mark("dup")
		return
	case 8: // junk v exch drop
		if !g.room(2) {
			break
		}
		g.lit(g.smallInt())
		g.value(v, depth+1)
		g.aop(reft2.OpExch)
		g.aop(reft2.OpDrop)
		g.mark("exch")
		return
	case 9: // v j1..jk k index, k+1 1 roll, k+1 drops
		k := g.intn(1, 3, "ik")
		if !g.room(k + 4) {
			break
		}
		g.value(v, depth+1)
		for i := 0; i < k; i++ {
			g.lit(g.smallInt())
		}
		g.lit(float64(k))
		g.aop(reft2.OpIndex)
		g.lit(float64(k + 1))
		g.lit(1)
		g.aop(reft2.OpRoll)
		for i := 0; i < k+1; i++ {
			g.aop(reft2.OpDrop)
		}
		g.mark("index")
		g.mark("roll")
		return
	case 10: // a negative index duplicates the top: the copy is used
		if !g.room(3) {
			break
		}
		if h := v / 2; inRange(h) && g.chance(50) {
			g.value(h, depth+1)
			g.lit(float64(-g.intn(1, 5, "ni")))
			g.aop(reft2.OpIndex)
			g.aop(reft2.OpAdd)
		} else {
			g.value(v, depth+1)
			g.lit(float64(-g.intn(1, 5, "ni")))
			g.aop(reft2.OpIndex)
			g.aop(reft2.OpExch)
			g.aop(reft2.OpDrop)
		}
		g.mark("index-neg")
		return
	case 11: // v i put i get
		if !g.room(2) {
			break
		}
		i := g.intn(0, 31, "reg")
		g.value(v, depth+1)
		g.lit(float64(i))
		g.aop(reft2.OpPut)
		g.regs[i] = v
		g.lit(float64(i))
		g.aop(reft2.OpGet)
		g.mark("putget")
		return
	case 12: // i get (v-r) add  with a register stored earlier
		if len(g.regs) == 0 || !g.room(2) {
			break
		}
		keys := make([]int, 0, len(g.regs))
		for k := range g.regs {
			keys = append(keys, k)
		}
		sort.Ints(keys)
		i := keys[g.intn(0, len(keys)-1, "rk")]
		d := v - g.regs[i]
		if !inRange(d) {
			break
		}
		g.lit(float64(i))
		g.aop(reft2.OpGet)
		g.lit(d)
		g.aop(reft2.OpAdd)
		g.mark("get-late")
		return
	case 13: // s1 s2 v1 v2 ifelse
		if !g.room(4) {
			break
		}
		v1 := g.smallInt()
		v2 := g.smallInt()
		switch g.intn(0, 3, "ic") {
		case 0:
			v2 = v1
		case 1:
			v1 += 0.5
		}
		junk := g.smallInt()
		if v1 <= v2 {
			g.value(v, depth+1)
			g.lit(junk)
		} else {
			g.lit(junk)
			g.value(v, depth+1)
		}
		g.lit(v1)
		g.lit(v2)
		g.aop(reft2.OpIfElse)
		g.mark("ifelse")
		return
	case 14: // 0/1 from eq, and, or, not
		if (v != 0 && v != 1) || !g.room(2) {
			break
		}
		want := v == 1
		switch g.intn(0, 3, "lg") {
		case 0:
			a := g.smallInt()
			b := a
			if !want {
				b = a + float64(g.intn(1, 9, "nd"))
			}
			g.lit(a)
			g.lit(b)
			g.aop(reft2.OpEq)
		case 1:
			a, b := float64(g.intn(1, 9, "a")), float64(g.intn(1, 9, "b"))
			if !want {
				if g.chance(50) {
					a = 0
				} else {
					b = 0
				}
			}
			g.lit(a)
			g.lit(-b)
			g.aop(reft2.OpAnd)
		case 2:
			a, b := 0.0, 0.0
			if want {
				if g.chance(50) {
					a = 0.5
				} else {
					b = -3
				}
			}
			g.lit(a)
			g.lit(b)
			g.aop(reft2.OpOr)
		default:
			a := 0.0
			if !want {
				a = float64(g.intn(1, 99, "a"))
			}
			g.lit(a)
			g.aop(reft2.OpNot)
		}
		g.mark("logic")
		return
	case 15: // random drop v
		if !g.room(2) {
			break
		}
		g.aop(reft2.OpRandom)
		g.aop(reft2.OpDrop)
		g.value(v, depth+1)
		g.mark("random")
		return
	case 16: // inexact: a b div
		if !g.inexact || !g.room(2) {
			break
		}
		b := float64(g.intn(2, 9, "ib"))
		if g.chance(30) {
			b = -b
		}
		a := math.Round(v * b)
		if !inRange(a) {
			break
		}
		g.lit(a)
		g.lit(b)
		g.aop(reft2.OpDiv)
		g.mark("div-inexact")
		return
	case 17: // inexact: sqrt of a non-square, or product of fractions
		if !g.inexact || !g.room(2) {
			break
		}
		if v > 1 && v < 180 && g.chance(50) {
			a := math.Round(v * v)
			g.lit(a)
			g.aop(reft2.OpSqrt)
			g.mark("sqrt-inexact")
			return
		}
		b := 1 + float64(g.intn(1, 65535, "mb"))/65536
		a := math.Round(v/b*65536) / 65536
		if !inRange(a) || excluded(keyMul) {
			break
		}
		g.lit(a)
		g.lit(b)
		g.aop(reft2.OpMul)
		g.mark("mul-inexact")
		return
	}
	g.lit(v)
}

// values pushes a list of operands, possibly through a roll.
func (g *pgen) values(vs []float64) {
	n := len(vs)
	if n >= 2 && g.chance(g.pArith/2) {
		m := g.intn(2, min(n, 8), "rm")
		if g.sp+n+2 <= reft2.MaxStack {
			for _, v := range vs[:n-m] {
				g.value(v, 1)
			}
			u := vs[n-m:]
			j := g.intn(-2*m, 2*m, "rj")
			for i := 0; i < m; i++ {
				g.value(u[((i+j)%m+m)%m], 1)
			}
			g.lit(float64(m))
			g.lit(float64(j))
			g.aop(reft2.OpRoll)
			g.mark("roll")
			return
		}
	}
	for i, v := range vs {
		// keep head-room for the expression temporaries of later operands
		if g.sp+(n-i)+3 > reft2.MaxStack {
			g.lit(v)
		} else {
			g.value(v, 0)
		}
	}
	if g.pArith > 0 && g.room(2) && g.chance(3) && !excluded(keyRollN0) {
		// roll with N = 0 is a defined no-op
		g.lit(0)
		g.lit(float64(g.intn(-3, 3, "r0")))
		g.aop(reft2.OpRoll)
		g.mark("roll0")
	}
}

// coord draws a coordinate delta.
func (g *pgen) coord() float64 {
	var v float64
	switch c := g.intn(0, 99, "cc"); {
	case c < 8:
		v = 0
	case c < 50:
		v = float64(g.intn(-107, 107, "c1"))
	case c < 75:
		v = float64(g.intn(-1131, 1131, "c2"))
	case c < 92:
		v = float64(g.intn(-4000, 4000, "c3"))
	case c < 97:
		v = float64([]int{108, 107, -107, -108, 1131, 1132, -1131, -1132, 255, 256, -256}[g.intn(0, 10, "cb")])
	default:
		if g.allowBig && excluded(keyClamp) {
			v = float64(g.intn(-31999, 31999, "c4"))
		} else if g.allowBig {
			v = float64(g.intn(-32768, 32767, "c4"))
			if g.chance(30) {
				v = float64([]int{32767, -32768, 32001, -32001, 32000, -32000}[g.intn(0, 5, "ch")])
			}
			g.mark("big")
		} else {
			v = float64(g.intn(-4000, 4000, "c3"))
		}
	}
	if v < 32767 && g.chance(g.pFrac) {
		f := float64(g.intn(1, 65535, "fr")) / 65536
		if g.chance(30) {
			f = []float64{0.5, 0.25, 1.0 / 65536, 65535.0 / 65536, 0.75}[g.intn(0, 4, "fs")]
		}
		v += f
		g.mark("frac")
	}
	return v
}

func (g *pgen) coords(n int) []float64 {
	vs := make([]float64, n)
	for i := range vs {
		vs[i] = g.coord()
	}
	return vs
}

// widthPrefix returns the width operand if this is the first stack-clearing
// operator and the glyph has an explicit width.
func (g *pgen) widthPrefix() []float64 {
	if g.widthDone {
		return nil
	}
	g.widthDone = true
	if g.hasWidth {
		g.mark("width")
		return []float64{g.width}
	}
	return nil
}

func (g *pgen) stemValues(n int) []float64 {
	vs := make([]float64, 0, 2*n)
	for i := 0; i < n; i++ {
		d := float64(g.intn(-20, 120, "sd"))
		w := float64(g.intn(1, 200, "sw"))
		if g.chance(8) {
			w = float64([]int{-20, -21}[g.intn(0, 1, "gh")])
		}
		if g.chance(g.pFrac) {
			d += float64(g.intn(1, 65535, "fr")) / 65536
		}
		vs = append(vs, d, w)
	}
	return vs
}

func (g *pgen) randMask() []byte {
	k := (g.nStems + 7) / 8
	m := make([]byte, k)
	for i := range m {
		m[i] = byte(g.intn(0, 255, "mb"))
	}
	if r := g.nStems % 8; r != 0 {
		m[k-1] &= 0xFF << (8 - r)
	}
	return m
}

// hints emits the hint section.
func (g *pgen) hints() {
	var nH, nV int
	switch c := g.intn(0, 99, "hc"); {
	case c < 45:
	case c < 80:
		nH, nV = g.intn(0, 4, "nh"), g.intn(0, 4, "nv")
	case c < 92:
		nH, nV = g.intn(0, 24, "nh"), g.intn(0, 24, "nv")
	default:
		nH = g.intn(0, 96, "nh")
		nV = g.intn(0, 96-nH, "nv")
		if g.chance(30) {
			nV = 96 - nH
		}
	}
	if nH+nV == 0 {
		return
	}
	g.useMasks = g.chance(55)
	hop, vop := reft2.OpHStem, reft2.OpVStem
	if g.useMasks {
		hop, vop = reft2.OpHStemHM, reft2.OpVStemHM
	}
	if nH+nV > 48 {
		g.mark("stems>48")
	}
	implicit := g.useMasks && nV > 0 && (nH > 0 && g.chance(60) || nH == 0 && g.chance(15))
	emit := func(n int, op int, last bool) {
		for n > 0 {
			pre := g.widthPrefix()
			maxPairs := (reft2.MaxStack - len(pre)) / 2
			k := n
			if k > maxPairs {
				k = maxPairs
			}
			if n > 1 && g.chance(25) {
				k = g.intn(1, k, "chunk")
			}
			vs := append(pre, g.stemValues(k)...)
			g.values(vs)
			n -= k
			g.nStems += k
			if n == 0 && last && implicit {
				return // operands stay on the stack for the mask operator
			}
			g.clearOp(op)
		}
	}
	emit(nH, hop, false)
	emit(nV, vop, true)
	if implicit {
		g.mark("implicit-vstem")
		if nH == 0 {
			g.mark("implicit-noH")
		}
	}
	if !g.useMasks {
		return
	}
	first := true
	doMask := func(op int) {
		if first && implicit {
			// operands already on the stack
		} else if !g.widthDone {
			// cannot happen: a stem operator has consumed the width
			panic("c05 generator: mask before width")
		}
		first = false
		g.maskOp(op, g.randMask())
	}
	nc := 0
	if g.chance(40) {
		nc = g.intn(1, 3, "ncm")
	}
	for i := 0; i < nc; i++ {
		doMask(reft2.OpCntrMask)
		g.mark("cntrmask")
	}
	if nc == 0 || g.chance(70) || (first && implicit) {
		doMask(reft2.OpHintMask)
		g.mark("hintmask")
	}
}

// between emits optional stack-neutral material between two statements.
func (g *pgen) between() {
	if g.useMasks && g.chance(15) {
		g.maskOp(reft2.OpHintMask, g.randMask())
		g.mark("hintmask-mid")
	}
	if g.pArith > 0 && g.chance(4) {
		g.add(tok{kind: tOp, op: reft2.OpDotSection})
		g.stmtOpen = false
		g.mark("dotsection")
	}
}

var pathOps = []int{
	reft2.OpRLineTo, reft2.OpHLineTo, reft2.OpVLineTo, reft2.OpRRCurveTo,
	reft2.OpHHCurveTo, reft2.OpVVCurveTo, reft2.OpHVCurveTo, reft2.OpVHCurveTo,
	reft2.OpRCurveLine, reft2.OpRLineCurve,
	reft2.OpFlex, reft2.OpHFlex, reft2.OpHFlex1, reft2.OpFlex1,
}

// count draws a repeat count in [1,max], biased to 1, 2 and max.
func (g *pgen) count(max int) int {
	switch c := g.intn(0, 9, "rc"); {
	case c < 4:
		return 1
	case c < 6:
		return min(2, max)
	case c < 7:
		return max
	}
	return g.intn(1, max, "rn")
}

func (g *pgen) pathStmt(allowFlex bool) {
	op := pathOps[g.intn(0, len(pathOps)-1, "pop")]
	if !allowFlex && (op == reft2.OpFlex || op == reft2.OpFlex1) {
		op = reft2.OpHFlex
	}
	if op == reft2.OpFlex1 && excluded(keyFlex1) {
		op = reft2.OpFlex
	}
	var vs []float64
	switch op {
	case reft2.OpRLineTo:
		vs = g.coords(2 * g.count(24))
	case reft2.OpHLineTo, reft2.OpVLineTo:
		vs = g.coords(g.count(48))
	case reft2.OpRRCurveTo:
		vs = g.coords(6 * g.count(8))
	case reft2.OpHHCurveTo, reft2.OpVVCurveTo:
		if g.chance(50) {
			vs = g.coords(1 + 4*g.count(11))
			g.mark("hhvv-lead")
		} else {
			vs = g.coords(4 * g.count(12))
		}
	case reft2.OpHVCurveTo, reft2.OpVHCurveTo:
		if g.chance(50) {
			vs = g.coords(1 + 4*g.count(11))
			g.mark("hvvh-trail")
		} else {
			vs = g.coords(4 * g.count(12))
		}
	case reft2.OpRCurveLine:
		vs = g.coords(6*g.count(7) + 2)
	case reft2.OpRLineCurve:
		vs = g.coords(2*g.count(21) + 6)
	case reft2.OpFlex:
		vs = g.coords(13)
		vs[12] = float64(g.intn(0, 100, "fd"))
	case reft2.OpHFlex:
		vs = g.coords(7)
	case reft2.OpHFlex1:
		vs = g.coords(9)
	case reft2.OpFlex1:
		vs = g.coords(11)
		switch g.intn(0, 4, "f1") {
		case 0: // |dx| == |dy|
			var dx, dy float64
			for i := 0; i < 8; i += 2 {
				dx += vs[i]
				dy += vs[i+1]
			}
			// choose dx5, dy5 so that the sums are equal in magnitude
			vs[8] = 0
			vs[9] = 0
			t := dx
			if g.chance(50) {
				t = -dx
			}
			if inRange(t - dy) {
				vs[9] = t - dy
			}
		case 1: // clearly horizontal
			vs[0] += 2000
		case 2: // clearly vertical
			vs[1] -= 2000
		}
		for i := range vs {
			if !inRange(vs[i]) {
				vs[i] = 1
			}
		}
	}
	g.values(vs)
	g.clearOp(op)
}

func (g *pgen) moveStmt() {
	pre := g.widthPrefix()
	switch g.intn(0, 2, "mv") {
	case 0:
		g.values(append(pre, g.coord(), g.coord()))
		g.clearOp(reft2.OpRMoveTo)
	case 1:
		g.values(append(pre, g.coord()))
		g.clearOp(reft2.OpHMoveTo)
	default:
		g.values(append(pre, g.coord()))
		g.clearOp(reft2.OpVMoveTo)
	}
}

// progOpts selects the flavour of a program.
type progOpts struct {
	pArith, pFrac, pOddEnc       int
	inexact, allowBig, allowFlex bool
	nominal                      float64
}

func drawOpts(t *rapid.T) progOpts {
	o := progOpts{allowFlex: true}
	switch rapid.IntRange(0, 9).Draw(t, "flavour") {
	case 0, 1, 2: // plain integer programs: every judge applies
		o.allowFlex = rapid.Bool().Draw(t, "flex")
	case 3, 4:
		o.pFrac = 25
	case 5, 6:
		o.pArith = rapid.SampledFrom([]int{5, 15, 40}).Draw(t, "pArith")
	case 7:
		o.pArith, o.pFrac = 20, 20
	default:
		o.pArith, o.pFrac, o.inexact = 25, 10, true
	}
	o.pOddEnc = rapid.SampledFrom([]int{0, 10, 40}).Draw(t, "pOddEnc")
	o.allowBig = rapid.IntRange(0, 3).Draw(t, "big") == 0
	return o
}

// genProgram draws a well-formed flat program.
func genProgram(t *rapid.T, o progOpts) *pgen {
	g := &pgen{t: t, pArith: o.pArith, pFrac: o.pFrac, pOddEnc: o.pOddEnc, inexact: o.inexact,
		allowBig: o.allowBig, regs: map[int]float64{}, feat: map[string]bool{}}
	g.hasWidth = g.chance(60)
	if g.hasWidth {
		g.width = float64(g.intn(-1200, 1200, "w"))
		if g.chance(o.pFrac) {
			g.width += float64(g.intn(1, 65535, "fr")) / 65536
		}
	}
	g.hints()
	nSub := 0
	switch c := g.intn(0, 9, "nsub"); {
	case c < 1:
	case c < 6:
		nSub = 1
	default:
		nSub = g.intn(2, 4, "ns")
	}
	for s := 0; s < nSub; s++ {
		g.between()
		g.moveStmt()
		nOps := g.intn(0, 5, "nops")
		for i := 0; i < nOps; i++ {
			g.between()
			g.pathStmt(o.allowFlex)
		}
	}
	g.between()
	g.values(g.widthPrefix())
	g.clearOp(reft2.OpEndChar)
	return g
}

// ---------------------------------------------------------------------------
// subroutines

// program is a charstring with the subroutine bodies it calls.
type program struct {
	main   *body
	bodies []*body // all subroutine bodies (local and global)
	feat   map[string]bool
}

func height(b *body) int {
	h := 0
	for _, t := range b.toks {
		if t.kind == tCall {
			if x := 1 + height(t.sub); x > h {
				h = x
			}
		}
	}
	return h
}

func depthOf(root, target *body, d int) int {
	if root == target {
		return d
	}
	for _, t := range root.toks {
		if t.kind == tCall {
			if x := depthOf(t.sub, target, d+1); x >= 0 {
				return x
			}
		}
	}
	return -1
}

// extract moves toks[i:j) of body b into a new subroutine.
func (p *program) extract(b *body, i, j int, global bool) *body {
	nb := &body{toks: append([]tok(nil), b.toks[i:j]...), global: global}
	last := nb.toks[len(nb.toks)-1]
	if last.kind == tOp && last.op == reft2.OpEndChar {
		nb.noRet = true
	}
	call := tok{kind: tCall, sub: nb, sp: b.toks[i].sp, stmt: b.toks[i].stmt}
	rest := append([]tok{call}, b.toks[j:]...)
	b.toks = append(b.toks[:i:i], rest...)
	p.bodies = append(p.bodies, nb)
	return nb
}

// subrPlan says how many local/global subroutines may be created.
type subrPlan struct {
	maxLocal, maxGlobal int
}

// addSubrs performs random extractions.
func addSubrs(t *rapid.T, p *program, plan subrPlan) {
	nL, nG := 0, 0
	n := 0
	switch c := rapid.IntRange(0, 9).Draw(t, "nextract"); {
	case c < 3:
	case c < 8:
		n = rapid.IntRange(1, 4).Draw(t, "ne")
	default:
		n = rapid.IntRange(5, 14).Draw(t, "ne")
	}
	deep := rapid.IntRange(0, 5).Draw(t, "deep") == 0
	var lastNew *body
	for k := 0; k < n; k++ {
		var cands []*body
		cands = append(cands, p.main)
		cands = append(cands, p.bodies...)
		b := cands[rapid.IntRange(0, len(cands)-1).Draw(t, "body")]
		if deep && lastNew != nil {
			b = lastNew // keep nesting
		}
		if len(b.toks) == 0 {
			continue
		}
		i := rapid.IntRange(0, len(b.toks)-1).Draw(t, "i")
		j := rapid.IntRange(i+1, min(len(b.toks), i+1+rapid.IntRange(0, 40).Draw(t, "len"))).Draw(t, "j")
		if deep && lastNew != nil && len(b.toks) > 1 {
			// nest: take everything but possibly the ends
			i, j = 0, len(b.toks)
			if b.toks[j-1].kind == tOp && b.toks[j-1].op == reft2.OpReturn {
				j--
			}
		}
		if b.toks[i].sp > reft2.MaxStack-1 {
			continue
		}
		global := rapid.Bool().Draw(t, "global")
		if global && nG >= plan.maxGlobal {
			global = false
		}
		if !global && nL >= plan.maxLocal {
			global = true
			if nG >= plan.maxGlobal {
				return
			}
		}
		// nesting limit: depth of b + 1 + height of what moves down
		tmp := &body{toks: b.toks[i:j]}
		if depthOf(p.main, b, 0)+1+height(tmp) > reft2.MaxNest {
			continue
		}
		lastNew = p.extract(b, i, j, global)
		if global {
			nG++
		} else {
			nL++
		}
	}
	for _, b := range p.bodies {
		if b.noRet && rapid.IntRange(0, 4).Draw(t, "deadret") == 0 {
			b.deadRet = true
		}
	}
}

// ---------------------------------------------------------------------------
// serialisation

type subrTables struct {
	nLocal, nGlobal int
}

func (b *body) bytes(tb subrTables) []byte {
	var out []byte
	for _, t := range b.toks {
		out = appendTok(out, t, tb)
	}
	if b != nil && (!b.noRet || b.deadRet) && b.index >= 0 {
		out = reft2.AppendOp(out, reft2.OpReturn)
	}
	return out
}

func appendTok(out []byte, t tok, tb subrTables) []byte {
	switch t.kind {
	case tNum:
		return reft2.AppendNumber(out, t.v, t.enc)
	case tOp:
		return reft2.AppendOp(out, t.op)
	case tMask:
		return append(reft2.AppendOp(out, t.op), t.mask...)
	case tRaw:
		return append(out, t.raw...)
	case tBadCall:
		n, op := tb.nLocal, reft2.OpCallSubr
		if t.global {
			n, op = tb.nGlobal, reft2.OpCallGSubr
		}
		bias := reft2.Bias(n)
		var cands []int
		for _, idx := range []int{n, -1, n + 1000} {
			if v := idx - bias; v >= -32768 && v <= 32767 {
				cands = append(cands, v)
			}
		}
		v := cands[t.which%len(cands)]
		out = reft2.AppendNumber(out, float64(v), reft2.EncAuto)
		return reft2.AppendOp(out, op)
	case tCall:
		n := tb.nLocal
		op := reft2.OpCallSubr
		if t.sub.global {
			n, op = tb.nGlobal, reft2.OpCallGSubr
		}
		out = reft2.AppendNumber(out, float64(t.sub.index-reft2.Bias(n)), t.enc)
		return reft2.AppendOp(out, op)
	}
	panic("bad token")
}

func fmtNum(v float64) string {
	if v == math.Trunc(v) {
		return fmt.Sprintf("%d", int64(v))
	}
	return fmt.Sprintf("%d/65536", int64(math.Round(v*65536)))
}

func (b *body) text() string {
	var sb strings.Builder
	for i, t := range b.toks {
		if i > 0 {
			sb.WriteByte(' ')
		}
		switch t.kind {
		case tNum:
			sb.WriteString(fmtNum(t.v))
			switch t.enc {
			case reft2.EncShort:
				sb.WriteString("s")
			case reft2.EncFixed:
				sb.WriteString("f")
			}
		case tOp:
			sb.WriteString(reft2.OpName(t.op))
		case tMask:
			fmt.Fprintf(&sb, "%s[%x]", reft2.OpName(t.op), t.mask)
		case tRaw:
			fmt.Fprintf(&sb, "raw[%x]", t.raw)
		case tBadCall:
			fmt.Fprintf(&sb, "badcall(global=%v,which=%d)", t.global, t.which)
		case tCall:
			k := "L"
			if t.sub.global {
				k = "G"
			}
			fmt.Fprintf(&sb, "call%s#%d{%s}", k, t.sub.index, t.sub.text())
		}
	}
	if b.index >= 0 && (!b.noRet || b.deadRet) {
		sb.WriteString(" return")
	}
	return sb.String()
}

// sizes of subroutine INDEXes: both bias thresholds are crossed.
var smallSizes = []int{0, 1, 2, 3, 5, 17, 106, 107, 108, 215, 216}
var midSizes = []int{1238, 1239, 1240, 1241, 2263, 2264}
var bigSizes = []int{33899, 33900, 33901, 40000}

func drawIndexSize(t *rapid.T, need int, label string) int {
	var n int
	switch c := rapid.IntRange(0, 19).Draw(t, label+"class"); {
	case c < 11:
		n = rapid.SampledFrom(smallSizes).Draw(t, label)
	case c < 13:
		n = rapid.IntRange(0, 300).Draw(t, label)
	case c < 17:
		n = rapid.SampledFrom(midSizes).Draw(t, label)
	case c < 19:
		n = rapid.SampledFrom(bigSizes).Draw(t, label)
	default:
		// beyond x/image's limit of 40000 subroutines: rare
		n = rapid.SampledFrom([]int{65535, 40001, 32768, 300, 1240, 108}).Draw(t, label)
	}
	if n < need {
		n = need
	}
	return n
}

// placeSubrs assigns INDEX positions to the bodies of one kind; boundary
// positions are favoured.
func placeSubrs(t *rapid.T, bodies []*body, n int, label string) {
	used := map[int]bool{}
	for _, b := range bodies {
		var idx int
		for tries := 0; ; tries++ {
			switch rapid.IntRange(0, 5).Draw(t, label+"pos") {
			case 0:
				idx = 0
			case 1:
				idx = n - 1
			case 2:
				idx = min(n-1, reft2.Bias(n)) // operand 0
			default:
				idx = rapid.IntRange(0, n-1).Draw(t, label+"idx")
			}
			if !used[idx] {
				break
			}
			if tries > 8 {
				for idx = 0; used[idx]; idx++ {
				}
				break
			}
		}
		used[idx] = true
		b.index = idx
	}
}
