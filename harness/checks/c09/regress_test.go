package c09

import (
	"fmt"
	"testing"

	"seehuhn.de/go/sfnt/cmap"
	"seehuhn.de/go/sfnt/glyph"
	"verif/harness/guard"
	"verif/harness/ref/refcmap"
	"verif/harness/stats"
)

// Plain regression tests for the defects found by the generated checks; each
// fails on the unchanged tree and passes with the corresponding diff of
// /verif/proposed-fixes applied.

func be16(vals ...uint16) []byte {
	var b []byte
	for _, v := range vals {
		b = append(b, byte(v>>8), byte(v))
	}
	return b
}

// TestC09RegressFormat4IdDelta: a format 4 segment that uses glyphIdArray
// AND a non-zero idDelta ("If the value obtained from indexing is not 0 …
// idDelta[i] is added to it to get the glyph index", modulo 65536).
func TestC09RegressFormat4IdDelta(t *testing.T) {
	// segments: 0x41..0x44 through glyphIdArray with idDelta 100, and 0xFFFF
	data := be16(
		4, 16+8*2+2*4, 0, // format, length, language
		4, 4, 1, 0, // segCountX2, searchRange, entrySelector, rangeShift
		0x44, 0xFFFF, // endCode
		0,            // reservedPad
		0x41, 0xFFFF, // startCode
		100, 1, // idDelta
		4, 0, // idRangeOffset: segment 0 -> glyphIdArray[0]
		5, 0, 0xFFFF, 65536-100+7, // glyphIdArray: 'A' -> 105, 'B' unmapped, 'C' -> 99 (wraps), 'D' -> 7
	)
	want := map[rune]glyph.ID{'A': 105, 'B': 0, 'C': 99, 'D': 7, 'E': 0, '@': 0, 0xFFFF: 0}
	rs, err := refcmap.Decode(data)
	if err != nil {
		t.Fatalf("HARNESS: %v", err)
	}
	sub, err, pn := libGet(cmap.Key{PlatformID: 3, EncodingID: 1}, data)
	if err != nil || pn != nil {
		t.Fatalf("Get: %v %v", err, pn)
	}
	for r, w := range want {
		if g := rs.Lookup(uint32(r)); g != uint32(w) {
			t.Fatalf("HARNESS: reference decoder maps %#x to %d, want %d", r, g, w)
		}
		if g := sub.Lookup(r); g != w {
			t.Errorf("Lookup(%#x) = %d, want %d (glyphIdArray value + idDelta 100 mod 65536)", r, g, w)
		}
	}
	stats.CaseIn("regress", 1, true, func() string { return "format 4 idRangeOffset with idDelta" })
}

// TestC09RegressFormat4LookupAstral: a 16-bit subtable maps nothing above
// U+FFFF.
func TestC09RegressFormat4LookupAstral(t *testing.T) {
	m := cmap.Format4{'A': 5}
	for _, r := range []rune{0x10041, 0x100041, 0x10FFFF, 0x20041} {
		var g glyph.ID
		if pn := guard.Try(func() { g = m.Lookup(r) }); pn != nil {
			t.Fatalf("Lookup(%#x): %s", r, pn)
		}
		if g != 0 {
			t.Errorf("Format4{'A': 5}.Lookup(%#x) = %d, want 0", r, g)
		}
	}
	if g := m.Lookup('A'); g != 5 {
		t.Errorf("Lookup('A') = %d", g)
	}
	stats.CaseIn("regress", 2, true, func() string { return "Format4.Lookup above U+FFFF" })
}

// TestC09RegressFormat12GidWrap: glyph 65535 followed by an entry with
// glyph 0 must not be merged into one group (65535 + 1 is not glyph 0).
func TestC09RegressFormat12GidWrap(t *testing.T) {
	m := cmap.Format12{0x100: 0xFFFF, 0x101: 0, 0x102: 1}
	data := m.Encode(0)
	rs, err := refcmap.Decode(data)
	if err != nil {
		t.Fatalf("Format12{0x100: 65535, 0x101: 0, 0x102: 1}.Encode is malformed: %v\n  %x", err, data)
	}
	for c, w := range map[uint32]uint32{0xFF: 0, 0x100: 0xFFFF, 0x101: 0, 0x102: 1, 0x103: 0} {
		if g := rs.Lookup(c); g != w {
			t.Errorf("encoded subtable maps %#x to %d, want %d\n  %x", c, g, w, data)
		}
	}
	stats.CaseIn("regress", 3, true, func() string { return "Format12.Encode glyph 65535 then 0" })
}

// TestC09RegressFormat0MacRoman: under (platform 1, encoding 0) character
// codes are Mac Roman; Lookup takes runes (as the format 4 and 6 decoders
// already arrange).  Also the committed reproducer of finding
// format0-mac-lookup-by-code.
func TestC09RegressFormat0MacRoman(t *testing.T) {
	f := &cmap.Format0{}
	f.Data['A'] = 1
	f.Data[0x8E] = 7 // Mac Roman 0x8E = U+00E9
	f.Data[0xE9] = 9 // Mac Roman 0xE9 = U+00C8
	key := cmap.Key{PlatformID: 1, EncodingID: 0}
	sub, err, pn := libGet(key, f.Encode(0))
	if err != nil || pn != nil {
		t.Fatalf("Get: %v %v", err, pn)
	}
	var msgs []string
	for r, w := range map[rune]glyph.ID{'A': 1, 0xE9: 7, 0xC8: 9, 0x8E: 0} {
		if g := sub.Lookup(r); g != w {
			msgs = append(msgs, fmt.Sprintf("Lookup(%#x) = %d, want %d", r, g, w))
		}
	}
	// the same table as format 6 already behaves that way
	var g6 [65536]uint16
	g6['A'], g6[0x8E], g6[0xE9] = 1, 7, 9
	sub6, err, pn := libGet(key, refcmap.EncodeFormat6(&g6, 0, fixedChooser(0)))
	if err != nil || pn != nil {
		t.Fatalf("Get (format 6): %v %v", err, pn)
	}
	for r, w := range map[rune]glyph.ID{'A': 1, 0xE9: 7, 0xC8: 9, 0x8E: 0} {
		if g := sub6.Lookup(r); g != w {
			t.Errorf("format 6: Lookup(%#x) = %d, want %d", r, g, w)
		}
	}
	if len(msgs) > 0 {
		if stats.Known(prop, keyFormat0Mac) {
			t.Logf("known finding %s: %v", keyFormat0Mac, msgs)
		} else {
			t.Errorf("format 0 under (1,0): %v", msgs)
		}
	}
	stats.CaseIn("regress", 4, true, func() string { return "format 0 under platform 1 / Mac Roman" })
}

// fixedChooser always answers min(v, n-1).
type fixedChooser int

func (f fixedChooser) Intn(_ string, n int) int {
	if int(f) >= n {
		return n - 1
	}
	return int(f)
}
