// C09: character maps encode and decode faithfully and the right subtable is
// selected.
//
// Sub-checks (names as in the evidence file):
//
//	format4-encode   cmap.Format4.Encode judged by refcmap (spec decoder +
//	                 writer-side header rules), the library decoder and x/image
//	format12-encode  the same for cmap.Format12
//	foreign-decode   format 0/4/6/12 subtables written by refcmap's encoder
//	                 (all legal devices) decoded by the library
//	table            cmap.Table Encode/Decode: keys, bytes, sharing
//	getbest          preference order of Table.GetBest
//	installcmap      (*sfnt.Font).InstallCMap key choice by code range
package c09

import (
	"bytes"
	"encoding/binary"
	"encoding/hex"
	"fmt"
	"sort"
	"strings"
	"testing"

	xsfnt "golang.org/x/image/font/sfnt"
	"golang.org/x/text/encoding/charmap"
	"pgregory.net/rapid"

	"seehuhn.de/go/sfnt"
	"seehuhn.de/go/sfnt/cmap"
	"seehuhn.de/go/sfnt/glyph"
	"verif/harness/guard"
	"verif/harness/ref/refcmap"
	"verif/harness/stats"
)

func TestMain(m *testing.M) {
	bigMapsOften = stats.Thorough()
	stats.MainExit(m)
}

const prop = "C09"

// Known-finding keys (see /verif/proposed-fixes/C09-notes.md).
const keyFormat0Mac = "format0-mac-lookup-by-code"

func hexdump(b []byte) string {
	if len(b) > 400 {
		return hex.EncodeToString(b[:400]) + fmt.Sprintf("… (%d bytes)", len(b))
	}
	return hex.EncodeToString(b)
}

func genLang(t *rapid.T) uint16 {
	switch rapid.IntRange(0, 3).Draw(t, "langKind") {
	case 0:
		return 0
	case 1:
		return uint16(rapid.IntRange(1, 40).Draw(t, "lang"))
	default:
		return uint16(rapid.IntRange(0, 0xFFFF).Draw(t, "lang"))
	}
}

// libGet decodes one subtable with the library (through Table.Get, the public
// entry point).
func libGet(key cmap.Key, data []byte) (sub cmap.Subtable, err error, pn *guard.Panic) {
	pn = guard.Try(func() {
		sub, err = cmap.Table{key: data}.Get(key)
	})
	return
}

// astralProbes returns code points above 0xFFFF that a 16-bit subtable must
// map to glyph 0; they alias mapped codes modulo 65536.
func astralProbes(want *[65536]uint16) []rune {
	res := []rune{0x10000, 0x1FFFF, 0x10FFFF, 0x100000}
	n := 0
	for c := 0; c < 65536 && n < 6; c++ {
		if want[c] != 0 {
			res = append(res, rune(0x10000+c), rune(0x100000+c))
			n++
			c += 997
		}
	}
	return res
}

// sweep16 compares sub.Lookup with want on every 16-bit code and on some
// code points above 0xFFFF.
func sweep16(sub cmap.Subtable, want *[65536]uint16) error {
	var err error
	pn := guard.Try(func() {
		for c := 0; c < 65536; c++ {
			if got := sub.Lookup(rune(c)); got != glyph.ID(want[c]) {
				err = fmt.Errorf("Lookup(%#x) = %d, want %d", c, got, want[c])
				return
			}
		}
		for _, r := range astralProbes(want) {
			if got := sub.Lookup(r); got != 0 {
				err = fmt.Errorf("Lookup(%#x) = %d, want 0 (code point outside a 16-bit subtable)", r, got)
				return
			}
		}
	})
	if pn != nil {
		return fmt.Errorf("Lookup: %s", pn)
	}
	return err
}

func sweepRef16(rs *refcmap.Subtable, want *[65536]uint16) error {
	for c := 0; c < 65536; c++ {
		if got := rs.Lookup(uint32(c)); got != uint32(want[c]) {
			return fmt.Errorf("reference decoder: code %#x -> %d, want %d", c, got, want[c])
		}
	}
	for _, r := range astralProbes(want) {
		if got := rs.Lookup(uint32(r)); got != 0 {
			return fmt.Errorf("reference decoder: code %#x -> %d, want 0", r, got)
		}
	}
	return nil
}

// sweepX16 runs x/image's GlyphIndex over the 16-bit codes.  withAstral is
// false for format 6, where x/image truncates the rune to 16 bits (its
// deviation, not the library's).
func sweepX16(pid, eid uint16, data []byte, want func(r rune) uint16, withAstral bool) (bool, error) {
	xf, err := xImageFont(pid, eid, data)
	if err != nil {
		if strings.Contains(err.Error(), "unsupported number of cmap segments") {
			return false, nil
		}
		return false, fmt.Errorf("x/image rejects the font: %v", err)
	}
	var b xsfnt.Buffer
	for c := rune(0); c < 65536; c++ {
		got, err := xf.GlyphIndex(&b, c)
		if err != nil {
			return false, fmt.Errorf("x/image GlyphIndex(%#x): %v", c, err)
		}
		if uint16(got) != want(c) {
			return false, fmt.Errorf("x/image GlyphIndex(%#x) = %d, want %d", c, got, want(c))
		}
	}
	if withAstral {
		for _, c := range []rune{0x10000, 0x10041, 0x10FFFF} {
			got, err := xf.GlyphIndex(&b, c)
			if err != nil || got != 0 {
				return false, fmt.Errorf("x/image GlyphIndex(%#x) = %d, %v, want 0", c, got, err)
			}
		}
	}
	return true, nil
}

func segLabel(n int) string {
	switch {
	case n <= 2:
		return "segs:1-2"
	case n < 10:
		return "segs:3-9"
	case n < 100:
		return "segs:10-99"
	case n < 1000:
		return "segs:100-999"
	}
	return "segs:1000+"
}

// ---------------------------------------------------------------------------

func TestC09Format4Encode(t *testing.T) {
	rapid.Check(t, func(t *rapid.T) {
		m := genMap16(t, 65535, true)
		lang := genLang(t)
		explicitZero := rapid.IntRange(0, 3).Draw(t, "explicitZero") == 0
		lib := cmap.Format4{}
		for c, g := range m.g {
			if g != 0 {
				lib[uint16(c)] = glyph.ID(g)
			} else if explicitZero && c%5 == 0 && (c > 0 && m.g[c-1] != 0 || c < 65535 && m.g[c+1] != 0) {
				lib[uint16(c)] = 0 // an entry with glyph 0 means "unmapped"
			}
		}
		fail := func(format string, a ...any) {
			t.Fatalf("Format4 lang=%d explicitZero=%v map{%s}\n  %s", lang, explicitZero, m, fmt.Sprintf(format, a...))
		}
		var data []byte
		if pn := guard.Try(func() { data = lib.Encode(lang) }); pn != nil {
			if strings.Contains(fmt.Sprint(pn.Value), "too many mappings for a format 4 subtable") {
				// documented refusal beyond the 16-bit offset range: outside the domain
				stats.CaseIn("format4-encode", 0, false, nil, "dropped:over-64k")
				return
			}
			fail("Encode: %s", pn)
		}
		if len(data) > 65535 {
			stats.CaseIn("format4-encode", 0, false, nil, "dropped:over-64k")
			return
		}
		rs, err := refcmap.Decode(data)
		if err != nil {
			fail("encoded subtable is malformed: %v\n  bytes %s", err, hexdump(data))
		}
		if rs.Format != 4 {
			fail("format field %d", rs.Format)
		}
		if err := rs.CheckFormat4Strict(); err != nil {
			fail("encoded subtable violates the writer rules: %v\n  bytes %s", err, hexdump(data))
		}
		if rs.Language != uint32(lang) {
			fail("language field %d", rs.Language)
		}
		if err := sweepRef16(rs, &m.g); err != nil {
			fail("%v\n  bytes %s", err, hexdump(data))
		}
		key := cmap.Key{PlatformID: 3, EncodingID: 1}
		sub, err, pn := libGet(key, data)
		if pn != nil || err != nil {
			fail("library decoder rejects the library's encoding: %v %v\n  bytes %s", err, pn, hexdump(data))
		}
		if err := sweep16(sub, &m.g); err != nil {
			fail("decoded again by the library: %v\n  bytes %s", err, hexdump(data))
		}
		// the map itself is a Subtable as well
		if err := sweep16(lib, &m.g); err != nil {
			fail("Format4 value itself: %v", err)
		}
		labels := m.labelList()
		ran, err := sweepX16(3, 1, data, func(r rune) uint16 { return m.g[r] }, true)
		if err != nil {
			fail("%v\n  bytes %s", err, hexdump(data))
		}
		if ran {
			labels = append(labels, "x/image-agreed")
		} else {
			labels = append(labels, "x/image-skipped:>20000-segments")
		}
		arr, _ := rs.NumArraySegments()
		labels = append(labels, segLabel(rs.SegCount))
		if arr > 0 {
			labels = append(labels, "array-segments")
		}
		if explicitZero {
			labels = append(labels, "explicit-zero-entries")
		}
		switch {
		case len(data) > 60000:
			labels = append(labels, "size:60000-65535")
		case len(data) > 32768:
			labels = append(labels, "size:32K-60000")
		}
		if m.count() == 0 {
			labels = append(labels, "map:empty")
		}
		nt := rs.SegCount >= 3 && arr >= 1
		stats.CaseIn("format4-encode", stats.Hash(data), nt, func() string {
			return fmt.Sprintf("lang=%d segs=%d arraySegs=%d bytes=%d map{%s}", lang, rs.SegCount, arr, len(data), m)
		}, labels...)
	})
}

// ---------------------------------------------------------------------------

// probes32 lists the code points at which a format 12 mapping is compared:
// every key, every key ± 1, group boundaries ± 1, fixed boundary values and n
// pseudo-random code points.
func probes32(keys []uint32, groups []refcmap.Group, seed uint64, n int) []uint32 {
	res := []uint32{0, 1, 0xFFFF, 0x10000, 0x10FFFF, 0x10FFFE}
	for _, k := range keys {
		res = append(res, k)
		if k > 0 {
			res = append(res, k-1)
		}
		if k < 0x10FFFF {
			res = append(res, k+1)
		}
	}
	for _, g := range groups {
		if g.Start > 0 {
			res = append(res, g.Start-1)
		}
		if g.End < 0x10FFFF {
			res = append(res, g.End+1)
		}
	}
	fl := &filler{s: seed}
	for i := 0; i < n; i++ {
		res = append(res, uint32(fl.intn(0x110000)))
	}
	return res
}

func TestC09Format12Encode(t *testing.T) {
	rapid.Check(t, func(t *rapid.T) {
		m := genMap32(t, rapid.IntRange(0, 5).Draw(t, "bmpOnly") == 0)
		lang := genLang(t)
		explicitZero := rapid.IntRange(0, 3).Draw(t, "explicitZero") == 0
		probeSeed := rapid.Uint64().Draw(t, "probeSeed")
		lib := cmap.Format12{}
		keys := m.keys()
		for _, c := range keys {
			lib[c] = glyph.ID(m.m[c])
		}
		nZero := 0
		if explicitZero && len(lib) < 65000 {
			// entries with glyph 0 mean "unmapped"; the interesting place is
			// right behind an entry with glyph 65535
			for _, c := range keys {
				if _, ok := m.m[c+1]; !ok && c < 0x10FFFF && (m.m[c] == 0xFFFF || c%7 == 0) && nZero < 200 {
					lib[c+1] = 0
					nZero++
				}
			}
		}
		fail := func(format string, a ...any) {
			t.Fatalf("Format12 lang=%d explicitZeroEntries=%d map{%s}\n  %s", lang, nZero, m, fmt.Sprintf(format, a...))
		}
		want := func(c uint32) uint16 { return m.m[c] }
		var data []byte
		if pn := guard.Try(func() { data = lib.Encode(lang) }); pn != nil {
			fail("Encode: %s", pn)
		}
		rs, err := refcmap.Decode(data)
		if err != nil {
			fail("encoded subtable is malformed: %v\n  bytes %s", err, hexdump(data))
		}
		if rs.Format != 12 {
			fail("format field %d", rs.Format)
		}
		if rs.Language != uint32(lang) {
			fail("language field %d", rs.Language)
		}
		probes := probes32(keys, rs.Groups, probeSeed, 4096)
		for _, c := range probes {
			if got := rs.Lookup(c); got != uint32(want(c)) {
				fail("reference decoder: code %#x -> %d, want %d\n  bytes %s", c, got, want(c), hexdump(data))
			}
		}
		key := cmap.Key{PlatformID: 3, EncodingID: 10}
		sub, err, pn := libGet(key, data)
		if pn != nil || err != nil {
			fail("library decoder rejects the library's encoding: %v %v\n  bytes %s", err, pn, hexdump(data))
		}
		var lerr error
		if pn := guard.Try(func() {
			for _, c := range probes {
				if got := sub.Lookup(rune(c)); got != glyph.ID(want(c)) {
					lerr = fmt.Errorf("decoded again by the library: Lookup(%#x) = %d, want %d\n  bytes %s", c, got, want(c), hexdump(data))
					return
				}
				if got := lib.Lookup(rune(c)); got != glyph.ID(want(c)) {
					lerr = fmt.Errorf("Format12 value itself: Lookup(%#x) = %d, want %d", c, got, want(c))
					return
				}
			}
		}); pn != nil {
			fail("Lookup: %s", pn)
		}
		if lerr != nil {
			fail("%v", lerr)
		}
		labels := m.labelList()
		if len(rs.Groups) <= 20000 {
			xf, err := xImageFont(3, 10, data)
			if err != nil {
				fail("x/image rejects the font: %v\n  bytes %s", err, hexdump(data))
			}
			var b xsfnt.Buffer
			for _, c := range probes {
				got, err := xf.GlyphIndex(&b, rune(c))
				if err != nil || uint16(got) != want(c) {
					fail("x/image GlyphIndex(%#x) = %d, %v, want %d\n  bytes %s", c, got, err, want(c), hexdump(data))
				}
			}
			labels = append(labels, "x/image-agreed")
		} else {
			labels = append(labels, "x/image-skipped:>20000-groups")
		}
		switch n := len(rs.Groups); {
		case n == 0:
			labels = append(labels, "groups:0")
		case n == 1:
			labels = append(labels, "groups:1")
		case n < 100:
			labels = append(labels, "groups:2-99")
		default:
			labels = append(labels, "groups:100+")
		}
		if nZero > 0 {
			labels = append(labels, "explicit-zero-entries")
		}
		if len(keys) > 0 && keys[len(keys)-1] > 0xFFFF {
			labels = append(labels, "beyond-BMP")
		}
		if len(keys) >= 60000 {
			labels = append(labels, "entries:60000+")
		}
		stats.CaseIn("format12-encode", stats.Hash(data), len(rs.Groups) >= 2, func() string {
			return fmt.Sprintf("lang=%d groups=%d map{%s}", lang, len(rs.Groups), m)
		}, labels...)
	})
}

// ---------------------------------------------------------------------------

// macCode returns the Mac Roman code of r (independent table: x/text).
func macCode(r rune) (byte, bool) {
	if r < 0x80 {
		return byte(r), true
	}
	return charmap.Macintosh.EncodeRune(r)
}

func TestC09ForeignDecode(t *testing.T) {
	rapid.Check(t, func(t *rapid.T) {
		format := rapid.SampledFrom([]int{4, 4, 4, 4, 4, 6, 6, 0, 12, 12}).Draw(t, "format")
		mac := format != 12 && rapid.IntRange(0, 4).Draw(t, "mac") == 0
		if mac && format == 0 && stats.IsListed(prop, keyFormat0Mac) {
			stats.Excluded(keyFormat0Mac)
			mac = false
		}
		lang := genLang(t)
		ch := chooser{t}
		var key cmap.Key
		switch {
		case mac:
			key = cmap.Key{PlatformID: 1, EncodingID: 0, Language: lang}
		case format == 12:
			key = rapid.SampledFrom([]cmap.Key{{PlatformID: 3, EncodingID: 10}, {PlatformID: 0, EncodingID: 4}, {PlatformID: 0, EncodingID: 6}}).Draw(t, "key")
		default:
			key = rapid.SampledFrom([]cmap.Key{{PlatformID: 3, EncodingID: 1}, {PlatformID: 0, EncodingID: 3}, {PlatformID: 3, EncodingID: 0}, {PlatformID: 0, EncodingID: 0}, {PlatformID: 2, EncodingID: 1}, {PlatformID: 4, EncodingID: 255}}).Draw(t, "key")
		}
		labels := []string{fmt.Sprintf("fmt:%d", format)}
		if mac {
			labels = append(labels, "key:mac")
		}

		if format == 12 {
			m := genMap32(t, false)
			probeSeed := rapid.Uint64().Draw(t, "probeSeed")
			data, st := refcmap.EncodeFormat12(m.m, uint32(lang), ch)
			fail := func(format string, a ...any) {
				t.Fatalf("foreign format 12 key=%v lang=%d map{%s}\n  bytes %s\n  %s", key, lang, m, hexdump(data), fmt.Sprintf(format, a...))
			}
			rs, err := refcmap.Decode(data)
			if err != nil {
				fail("HARNESS: reference encoder output rejected by reference decoder: %v", err)
			}
			covered := 0
			for _, g := range rs.Groups {
				covered += int(g.End-g.Start) + 1
			}
			if covered > 65536 {
				// glyph-0 groups pushed the table past the 65536 entries of the domain
				stats.CaseIn("foreign-decode", 0, false, nil, "dropped:>65536-entries")
				return
			}
			keys := m.keys()
			probes := probes32(keys, rs.Groups, probeSeed, 4096)
			for _, c := range probes {
				if got := rs.Lookup(c); got != uint32(m.m[c]) {
					fail("HARNESS: reference decoder: code %#x -> %d, want %d", c, got, m.m[c])
				}
			}
			sub, err, pn := libGet(key, data)
			if pn != nil || err != nil {
				fail("library rejects a well-formed subtable: %v %v", err, pn)
			}
			var lerr error
			if pn := guard.Try(func() {
				for _, c := range probes {
					if got := sub.Lookup(rune(c)); got != glyph.ID(m.m[c]) {
						lerr = fmt.Errorf("Lookup(%#x) = %d, want %d", c, got, m.m[c])
						return
					}
				}
			}); pn != nil {
				fail("Lookup: %s", pn)
			}
			if lerr != nil {
				fail("%v", lerr)
			}
			if st.SplitRuns > 0 {
				labels = append(labels, "f12:split-runs")
			}
			if st.ZeroGroups > 0 {
				labels = append(labels, "f12:glyph0-groups")
			}
			labels = append(labels, m.labelList()...)
			stats.CaseIn("foreign-decode", stats.Hash(data, key), st.Groups >= 2, func() string {
				return fmt.Sprintf("format 12 key=%v groups=%d map{%s}", key, st.Groups, m)
			}, labels...)
			return
		}

		maxCode := 65535
		if format == 0 || mac {
			maxCode = 255
		}
		var m *map16
		if format == 6 && !mac {
			// a trimmed table covers one range: keep the span short
			m = &map16{}
			inner := genMap16(t, 255, false)
			base := rapid.SampledFrom([]int{0, 0, 0x20, 0xF000, 0xFF00, 65536 - 256, 12345}).Draw(t, "f6base")
			copy(m.g[base:], inner.g[:256])
		} else {
			m = genMap16(t, maxCode, false)
		}
		if format == 0 {
			for c := range m.g[:256] {
				m.g[c] &= 0xFF
			}
		}
		var data []byte
		var st refcmap.F4Stats
		switch format {
		case 0:
			var tab [256]byte
			for c := range tab {
				tab[c] = byte(m.g[c])
			}
			data = refcmap.EncodeFormat0(&tab, lang)
		case 6:
			data = refcmap.EncodeFormat6(&m.g, lang, ch)
		case 4:
			var err error
			data, st, err = refcmap.EncodeFormat4(&m.g, lang, ch)
			if err == refcmap.ErrTooLarge {
				stats.CaseIn("foreign-decode", 0, false, nil, "dropped:over-64k")
				return
			}
		}
		fail := func(f string, a ...any) {
			t.Fatalf("foreign format %d key=%v map{%s}\n  bytes %s\n  %s", format, key, m, hexdump(data), fmt.Sprintf(f, a...))
		}
		rs, err := refcmap.Decode(data)
		if err != nil {
			fail("HARNESS: reference encoder output rejected by reference decoder: %v", err)
		}
		if err := sweepRef16(rs, &m.g); err != nil {
			fail("HARNESS: %v", err)
		}
		if rs.Language != uint32(lang) {
			fail("HARNESS: language")
		}

		// what Lookup(rune) must give
		want := &m.g
		if mac {
			// platform 1, encoding 0: character codes are Mac Roman
			w := new([65536]uint16)
			for r := rune(0); r < 65536; r++ {
				if c, ok := macCode(r); ok {
					w[r] = m.g[c]
				}
			}
			want = w
		}
		sub, err, pn := libGet(key, data)
		if pn != nil || err != nil {
			fail("library rejects a well-formed subtable: %v %v", err, pn)
		}
		if err := sweep16(sub, want); err != nil {
			if mac && format == 0 && sweep16(sub, &m.g) == nil && stats.Known(prop, keyFormat0Mac) {
				// listed finding: codes instead of runes
			} else {
				fail("%v", err)
			}
		}

		// x/image: has the same idDelta deviation as the suspected one, so it
		// is only asked where no array segment carries a delta; it applies
		// Mac Roman to format 0 only.
		xOK := false
		switch {
		case format == 4 && !mac && st.ArrayWithDelta == 0:
			xOK = true
		case format == 6 && !mac:
			xOK = true
		case format == 0 && mac:
			xOK = true
		}
		if xOK {
			pid, eid := uint16(3), uint16(1)
			if mac {
				pid, eid = 1, 0
			}
			ran, err := sweepX16(pid, eid, data, func(r rune) uint16 { return want[r] }, format != 6)
			if err != nil {
				fail("%v", err)
			}
			if ran {
				labels = append(labels, "x/image-agreed")
			}
		}

		nt := false
		switch format {
		case 4:
			nt = st.Segments >= 3 && st.ArraySegs >= 1
			labels = append(labels, "f4:"+segLabel(st.Segments))
			if st.ArrayWithDelta > 0 {
				labels = append(labels, "f4:array+idDelta")
			}
			if st.Shared > 0 {
				labels = append(labels, "f4:shared-range")
			}
			if st.Permuted {
				labels = append(labels, "f4:ranges-permuted")
			}
			if st.Padding > 0 {
				labels = append(labels, "f4:unused-words")
			}
			if st.SplitRuns > 0 {
				labels = append(labels, "f4:split-runs")
			}
			if st.LastIsArray {
				labels = append(labels, "f4:last-segment-array")
			}
			labels = append(labels, fmt.Sprintf("f4:search-mode-%d", st.SearchMode))
		case 6:
			nt = rs.EntryCount >= 2
			if rs.FirstCode > 0 {
				labels = append(labels, "f6:firstCode>0")
			}
			if rs.EntryCount == 0 {
				labels = append(labels, "f6:empty")
			}
			if rs.FirstCode+rs.EntryCount == 65536 {
				labels = append(labels, "f6:ends-at-FFFF")
			}
		case 0:
			nt = m.count() >= 2
		}
		labels = append(labels, m.labelList()...)
		stats.CaseIn("foreign-decode", stats.Hash(data, key), nt, func() string {
			return fmt.Sprintf("format %d key=%v %+v map{%s}", format, key, st, m)
		}, labels...)
	})
}

// ---------------------------------------------------------------------------

// blob is a subtable as raw bytes with the language its header carries.
type blob struct {
	data []byte
	lang uint16
	desc string
}

func opaque(format uint16, lang uint16, n int, fill byte) []byte {
	var b []byte
	switch format {
	case 2:
		L := 6 + n
		b = []byte{0, 2, byte(L >> 8), byte(L), byte(lang >> 8), byte(lang)}
	case 8, 10, 13:
		L := 12 + n
		b = []byte{0, byte(format), 0, 0, 0, 0, byte(L >> 8), byte(L), 0, 0, byte(lang >> 8), byte(lang)}
	case 14:
		L := 10 + n
		b = []byte{0, 14, 0, 0, byte(L >> 8), byte(L), 0, 0, 0, 0}
	}
	for i := 0; i < n; i++ {
		b = append(b, fill+byte(i))
	}
	return b
}

func genBlob(t *rapid.T, i int) blob {
	lang := genLang(t)
	switch kind := rapid.IntRange(0, 7).Draw(t, "blobKind"); kind {
	case 0:
		f := &cmap.Format0{}
		f.Data[65] = byte(1 + i)
		return blob{f.Encode(lang), lang, "format0"}
	case 1, 2:
		m := genMap16(t, 65535, false)
		m.g[0x41] = uint16(1 + i)
		lib := cmap.Format4{}
		for c, g := range m.g {
			if g != 0 {
				lib[uint16(c)] = glyph.ID(g)
			}
		}
		return blob{lib.Encode(lang), lang, "format4"}
	case 3:
		var g [65536]uint16
		g[0x41] = uint16(1 + i)
		return blob{refcmap.EncodeFormat6(&g, lang, chooser{t}), lang, "format6"}
	case 4, 5:
		lib := cmap.Format12{0x41: glyph.ID(1 + i), 0x1F600: 7}
		return blob{lib.Encode(lang), lang, "format12"}
	default:
		format := rapid.SampledFrom([]uint16{2, 8, 10, 13, 14}).Draw(t, "opaqueFormat")
		n := rapid.IntRange(4, 40).Draw(t, "opaqueLen")
		if format == 14 {
			lang = 0
		}
		return blob{opaque(format, lang, n, byte(i)), lang, fmt.Sprintf("format%d(opaque)", format)}
	}
}

// subtableLen reads the length field of the subtable at the start of b.
func subtableLen(b []byte) (length int, lang uint16, err error) {
	if len(b) < 6 {
		return 0, 0, fmt.Errorf("short subtable")
	}
	switch f := uint16(b[0])<<8 | uint16(b[1]); f {
	case 0, 2, 4, 6:
		return int(b[2])<<8 | int(b[3]), uint16(b[4])<<8 | uint16(b[5]), nil
	case 8, 10, 12, 13:
		if len(b) < 12 {
			return 0, 0, fmt.Errorf("short subtable")
		}
		return int(b[4])<<24 | int(b[5])<<16 | int(b[6])<<8 | int(b[7]), uint16(b[10])<<8 | uint16(b[11]), nil
	case 14:
		return int(b[2])<<24 | int(b[3])<<16 | int(b[4])<<8 | int(b[5]), 0, nil
	default:
		return 0, 0, fmt.Errorf("format %d", f)
	}
}

type keyBlob struct {
	key  cmap.Key
	blob int
}

func describeTable(kbs []keyBlob, blobs []blob) string {
	var sb strings.Builder
	for _, kb := range kbs {
		fmt.Fprintf(&sb, "(%d,%d,%d)->#%d ", kb.key.PlatformID, kb.key.EncodingID, kb.key.Language, kb.blob)
	}
	for i, b := range blobs {
		fmt.Fprintf(&sb, "#%d=%s[%d bytes, lang %d] ", i, b.desc, len(b.data), b.lang)
	}
	return sb.String()
}

func TestC09Table(t *testing.T) {
	rapid.Check(t, func(t *rapid.T) {
		nBlobs := rapid.IntRange(1, 5).Draw(t, "nBlobs")
		blobs := make([]blob, nBlobs)
		for i := range blobs {
			blobs[i] = genBlob(t, i)
		}
		nKeys := rapid.IntRange(1, 10).Draw(t, "nKeys")
		if rapid.IntRange(0, 29).Draw(t, "emptyTable") == 29 {
			nKeys = 0
		}
		T := cmap.Table{}
		var kbs []keyBlob
		for i := 0; i < nKeys; i++ {
			bi := rapid.IntRange(0, nBlobs-1).Draw(t, "blob")
			pid := uint16(rapid.SampledFrom([]int{0, 1, 1, 2, 3, 3, 4}).Draw(t, "platform"))
			eid := uint16(rapid.SampledFrom([]int{0, 1, 2, 3, 4, 5, 6, 10, 255, 65535}).Draw(t, "encoding"))
			key := cmap.Key{PlatformID: pid, EncodingID: eid}
			if pid == 1 {
				key.Language = blobs[bi].lang // the language lives in the subtable
			}
			if _, dup := T[key]; dup {
				continue
			}
			T[key] = blobs[bi].data
			kbs = append(kbs, keyBlob{key, bi})
		}
		fail := func(f string, a ...any) {
			t.Fatalf("table %s\n  %s", describeTable(kbs, blobs), fmt.Sprintf(f, a...))
		}
		var data []byte
		if pn := guard.Try(func() { data = T.Encode() }); pn != nil {
			fail("Encode: %s", pn)
		}
		// independent reading of the encoded table
		n := len(T)
		if len(data) < 4+8*n || data[0] != 0 || data[1] != 0 || int(data[2])<<8|int(data[3]) != n {
			fail("bad header (want version 0, numTables %d): %s", n, hexdump(data))
		}
		seen := map[cmap.Key]bool{}
		offsetOf := map[string]int{} // subtable bytes -> offset
		type rec struct{ pid, eid, lang uint16 }
		var prev rec
		usedBytes := 0
		for i := 0; i < n; i++ {
			r := data[4+8*i:]
			pid, eid := uint16(r[0])<<8|uint16(r[1]), uint16(r[2])<<8|uint16(r[3])
			off := int(r[4])<<24 | int(r[5])<<16 | int(r[6])<<8 | int(r[7])
			if off < 4+8*n || off > len(data)-6 {
				fail("record %d: offset %d outside the table (%d bytes)", i, off, len(data))
			}
			L, lang, err := subtableLen(data[off:])
			if err != nil || off+L > len(data) {
				fail("record %d: subtable at %d: length %d, %v", i, off, L, err)
			}
			sub := data[off : off+L]
			key := cmap.Key{PlatformID: pid, EncodingID: eid}
			if pid == 1 {
				key.Language = lang
			}
			wantBytes, ok := T[key]
			if !ok || seen[key] {
				fail("record %d: key %v unexpected or repeated", i, key)
			}
			seen[key] = true
			if !bytes.Equal(sub, wantBytes) {
				fail("record %d (key %v): subtable bytes differ:\n   got  %s\n   want %s", i, key, hexdump(sub), hexdump(wantBytes))
			}
			cur := rec{pid, eid, key.Language}
			if i > 0 {
				// "sorted first by platform ID, then by encoding ID" (and language)
				if prev.pid > cur.pid || prev.pid == cur.pid && (prev.eid > cur.eid || prev.eid == cur.eid && prev.lang >= cur.lang) {
					fail("records %d and %d are not in ascending (platform, encoding, language) order", i-1, i)
				}
			}
			prev = cur
			if o, ok := offsetOf[string(sub)]; ok {
				if o != off {
					fail("identical subtables stored twice (offsets %d and %d)", o, off)
				}
			} else {
				offsetOf[string(sub)] = off
				usedBytes += L
			}
		}
		if len(data) != 4+8*n+usedBytes {
			fail("table has %d bytes, header + distinct subtables need %d", len(data), 4+8*n+usedBytes)
		}
		// library decoder
		var T2 cmap.Table
		var err error
		if pn := guard.Try(func() { T2, err = cmap.Decode(data) }); pn != nil || err != nil {
			fail("Decode(Encode(T)): %v %v\n  bytes %s", err, pn, hexdump(data))
		}
		if len(T2) != len(T) {
			fail("Decode(Encode(T)) has %d keys, want %d", len(T2), len(T))
		}
		for k, v := range T {
			v2, ok := T2[k]
			if !ok {
				fail("key %v lost", k)
			}
			if !bytes.Equal(v, v2) {
				fail("key %v: subtable changed", k)
			}
		}
		var data2 []byte
		if pn := guard.Try(func() { data2 = T2.Encode() }); pn != nil || !bytes.Equal(data, data2) {
			fail("Encode(Decode(Encode(T))) differs from Encode(T) (%v)", pn)
		}
		shared := len(T) - len(offsetOf)
		labels := []string{fmt.Sprintf("keys:%d", min(len(T), 5))}
		// the same table as another producer may lay it out: records sorted
		// (the format requires that), the distinct subtables stored in any
		// order, back to back or with padding, identical ones stored once or
		// several times.  The decoder must return the same table.
		if len(T) > 0 && rapid.Bool().Draw(t, "foreignLayout") {
			keys := make([]cmap.Key, 0, len(T))
			for k := range T {
				keys = append(keys, k)
			}
			sort.Slice(keys, func(i, j int) bool {
				a, b := keys[i], keys[j]
				if a.PlatformID != b.PlatformID {
					return a.PlatformID < b.PlatformID
				}
				if a.EncodingID != b.EncodingID {
					return a.EncodingID < b.EncodingID
				}
				return a.Language < b.Language
			})
			distinct := map[string]bool{}
			var order []string
			for _, k := range keys {
				if !distinct[string(T[k])] {
					distinct[string(T[k])] = true
					order = append(order, string(T[k]))
				}
			}
			order = rapid.Permutation(order).Draw(t, "storageOrder")
			pad := rapid.SampledFrom([]int{0, 0, 0, 1, 2, 4}).Draw(t, "padding")
			hdr := 4 + 8*len(keys)
			body := []byte{}
			at := map[string]int{}
			for _, sub := range order {
				at[sub] = hdr + len(body)
				body = append(body, sub...)
				body = append(body, make([]byte, pad)...)
			}
			foreign := []byte{0, 0, byte(len(keys) >> 8), byte(len(keys))}
			for _, k := range keys {
				off := at[string(T[k])]
				foreign = append(foreign, byte(k.PlatformID>>8), byte(k.PlatformID), byte(k.EncodingID>>8), byte(k.EncodingID),
					byte(off>>24), byte(off>>16), byte(off>>8), byte(off))
			}
			foreign = append(foreign, body...)
			var T3 cmap.Table
			if pn := guard.Try(func() { T3, err = cmap.Decode(foreign) }); pn != nil || err != nil {
				fail("Decode of the same table with its %d distinct subtables stored in another order (padding %d) fails: %v %v\n  bytes %s", len(order), pad, err, pn, hexdump(foreign))
			}
			if len(T3) != len(T) {
				fail("Decode of the re-ordered table has %d keys, want %d", len(T3), len(T))
			}
			for k, v := range T {
				if v3, ok := T3[k]; !ok || !bytes.Equal(v, v3) {
					fail("re-ordered table: key %v lost or changed", k)
				}
			}
			labels = append(labels, fmt.Sprintf("foreign-layout:padding-%d", pad))
		}
		if shared > 0 {
			labels = append(labels, "shared-subtables")
		}
		macLangs := 0
		for k := range T {
			if k.PlatformID == 1 && k.Language != 0 {
				macLangs++
			}
		}
		if macLangs > 0 {
			labels = append(labels, "mac-language-keys")
		}
		for _, b := range blobs {
			if strings.Contains(b.desc, "opaque") {
				labels = append(labels, "opaque-format")
				break
			}
		}
		if len(T) == 0 {
			labels = append(labels, "empty-table")
		}
		nt := len(T) >= 2 && shared > 0 && len(offsetOf) >= 2
		stats.CaseIn("table", stats.Hash(data), nt, func() string { return describeTable(kbs, blobs) }, labels...)
	})
}

// ---------------------------------------------------------------------------

var bestOrder = []cmap.Key{
	{PlatformID: 3, EncodingID: 10}, // full Unicode
	{PlatformID: 0, EncodingID: 4},
	{PlatformID: 3, EncodingID: 1}, // BMP
	{PlatformID: 0, EncodingID: 3},
	{PlatformID: 1, EncodingID: 0}, // legacy
}

var distractorKeys = []cmap.Key{
	{PlatformID: 3, EncodingID: 0}, {PlatformID: 3, EncodingID: 2}, {PlatformID: 3, EncodingID: 9},
	{PlatformID: 0, EncodingID: 0}, {PlatformID: 0, EncodingID: 1}, {PlatformID: 0, EncodingID: 2}, {PlatformID: 0, EncodingID: 5}, {PlatformID: 0, EncodingID: 6},
	{PlatformID: 1, EncodingID: 1}, {PlatformID: 1, EncodingID: 25},
	{PlatformID: 2, EncodingID: 1}, {PlatformID: 4, EncodingID: 0}, {PlatformID: 4, EncodingID: 10},
}

// probeSub makes a subtable that maps 'A' to gid (and 'B' to 200) in the
// given format.
func probeSub(t *rapid.T, format int, gid uint16) []byte {
	switch format {
	case 0:
		f := &cmap.Format0{}
		f.Data['A'] = byte(gid)
		f.Data['B'] = 200
		f.Data[0x80] = 201
		return f.Encode(0)
	case 4:
		return cmap.Format4{'A': glyph.ID(gid), 'B': 200, 0x80: 201}.Encode(0)
	case 6:
		var g [65536]uint16
		g['A'] = gid
		g['B'] = 200
		g[0x80] = 201
		return refcmap.EncodeFormat6(&g, 0, chooser{t})
	case 13:
		// many-to-one range mappings (specification-conformant; the library has no decoder for it)
		b := []byte{0, 13, 0, 0, 0, 0, 0, 16 + 3*12, 0, 0, 0, 0, 0, 0, 0, 3}
		for _, g := range [][2]uint32{{'A', uint32(gid)}, {'B', 200}, {0x80, 201}} {
			b = binary.BigEndian.AppendUint32(b, g[0])
			b = binary.BigEndian.AppendUint32(b, g[0])
			b = binary.BigEndian.AppendUint32(b, g[1])
		}
		return b
	case 10:
		// trimmed array with 32-bit codes: 'A', 'B'
		b := []byte{0, 10, 0, 0, 0, 0, 0, 20 + 2*2, 0, 0, 0, 0, 0, 0, 0, 'A', 0, 0, 0, 2}
		b = binary.BigEndian.AppendUint16(b, gid)
		return binary.BigEndian.AppendUint16(b, 200)
	default:
		return cmap.Format12{'A': glyph.ID(gid), 'B': 200, 0x80: 201, 0x1F600: 3}.Encode(0)
	}
}

// usableFormat: the subtable formats the library decodes.
func usableFormat(f int) bool { return f == 0 || f == 4 || f == 6 || f == 12 }

func TestC09GetBest(t *testing.T) {
	rapid.Check(t, func(t *rapid.T) {
		T := cmap.Table{}
		var desc []string
		// first: the first key of the preference order that holds a subtable
		// in a format the library decodes.  Keys before it may hold subtables
		// in formats it has no decoder for (13, 10: valid per specification,
		// accepted by cmap.Decode): those cannot be "the best subtable" for
		// this library; an implementation that could decode them would be
		// right to choose them, so both outcomes are accepted below.
		first := -1
		formats := map[int]int{}
		for i, k := range bestOrder {
			if !rapid.Bool().Draw(t, fmt.Sprintf("has(%d,%d)", k.PlatformID, k.EncodingID)) {
				continue
			}
			var format int
			switch {
			case i < 2:
				format = rapid.SampledFrom([]int{12, 12, 4, 13, 10}).Draw(t, "format")
			case i < 4:
				format = rapid.SampledFrom([]int{4, 4, 12, 6, 13, 10}).Draw(t, "format")
			default:
				format = rapid.SampledFrom([]int{0, 6, 4}).Draw(t, "format")
			}
			T[k] = probeSub(t, format, uint16(i+1))
			formats[i] = format
			desc = append(desc, fmt.Sprintf("(%d,%d):format%d", k.PlatformID, k.EncodingID, format))
			if first < 0 && usableFormat(format) {
				first = i
			}
		}
		nd := rapid.IntRange(0, 4).Draw(t, "nDistractors")
		for j := 0; j < nd; j++ {
			k := rapid.SampledFrom(distractorKeys).Draw(t, "distractor")
			format := rapid.SampledFrom([]int{4, 12, 6}).Draw(t, "format")
			T[k] = probeSub(t, format, uint16(100+j))
			desc = append(desc, fmt.Sprintf("(%d,%d):format%d*", k.PlatformID, k.EncodingID, format))
		}
		roundTrip := rapid.Bool().Draw(t, "viaEncodeDecode")
		fail := func(f string, a ...any) {
			t.Fatalf("GetBest on {%s} roundTrip=%v\n  %s", strings.Join(desc, " "), roundTrip, fmt.Sprintf(f, a...))
		}
		tab := T
		if roundTrip {
			var err error
			if pn := guard.Try(func() { tab, err = cmap.Decode(T.Encode()) }); pn != nil || err != nil {
				fail("Decode(Encode): %v %v", err, pn)
			}
		}
		var sub cmap.Subtable
		var err error
		if pn := guard.Try(func() { sub, err = tab.GetBest() }); pn != nil {
			fail("GetBest: %s", pn)
		}
		if first < 0 && len(formats) > 0 {
			// only subtables in formats without a decoder: an error, or (for an
			// implementation that decodes them) one of those subtables
			if err == nil {
				var g glyph.ID
				guard.Try(func() { g = sub.Lookup('A') })
				if f, ok := formats[int(g)-1]; !ok || usableFormat(f) {
					fail("GetBest returned a subtable ('A' -> %d) that is none of the candidates", g)
				}
			}
		} else if first < 0 {
			if err == nil {
				var g glyph.ID
				guard.Try(func() { g = sub.Lookup('A') })
				fail("no Unicode or Mac Roman subtable present, but GetBest returned one ('A' -> %d)", g)
			}
		} else {
			if err != nil || sub == nil {
				fail("GetBest: error %v, want the subtable of %v", err, bestOrder[first])
			}
			var g, g2 glyph.ID
			if pn := guard.Try(func() { g = sub.Lookup('A'); g2 = sub.Lookup('B') }); pn != nil {
				fail("Lookup: %s", pn)
			}
			chosen := int(g) - 1
			earlierExotic := false
			if f, ok := formats[chosen]; ok && chosen >= 0 && chosen < first && !usableFormat(f) {
				earlierExotic = true // a more preferred key in a format this test does not expect the library to decode
			}
			if (chosen != first && !earlierExotic) || g2 != 200 {
				which := "a distractor"
				if g >= 1 && int(g) <= len(bestOrder) {
					which = fmt.Sprint(bestOrder[g-1])
				}
				fail("GetBest chose %s ('A' -> %d), want %v ('A' -> %d)", which, g, bestOrder[first], first+1)
			}
			if earlierExotic {
				first = chosen
			}
			// every probe subtable maps code 0x80 to glyph 201.  Through a
			// Unicode key that is U+0080; through the Macintosh key (1,0) the
			// code is Mac Roman, where 0x80 is U+00C4 (and U+0080 is unmapped).
			var at80, atC4 glyph.ID
			if pn := guard.Try(func() { at80 = sub.Lookup(0x80); atC4 = sub.Lookup(0xC4) }); pn != nil {
				fail("Lookup: %s", pn)
			}
			want80, wantC4 := glyph.ID(201), glyph.ID(0)
			if bestOrder[first].PlatformID == 1 {
				want80, wantC4 = 0, 201
			}
			if at80 != want80 || atC4 != wantC4 {
				fail("the subtable GetBest returns for key %v maps U+0080 -> %d, U+00C4 -> %d; its code 0x80 -> glyph 201 means U+0080 -> %d, U+00C4 -> %d", bestOrder[first], at80, atC4, want80, wantC4)
			}
		}
		labels := []string{fmt.Sprintf("best:%d", first)}
		present := 0
		for _, k := range bestOrder {
			if _, ok := T[k]; ok {
				present++
			}
		}
		if nd > 0 {
			labels = append(labels, "distractors")
		}
		sort.Strings(desc)
		stats.CaseIn("getbest", stats.Hash(strings.Join(desc, " "), roundTrip), present >= 2, func() string {
			return strings.Join(desc, " ")
		}, labels...)
	})
}

// TestC09GetBestNil: a nil table has no best subtable.
func TestC09GetBestNil(t *testing.T) {
	var T cmap.Table
	var sub cmap.Subtable
	var err error
	if pn := guard.Try(func() { sub, err = T.GetBest() }); pn != nil {
		t.Fatalf("GetBest on nil table: %s", pn)
	}
	if err == nil || sub != nil {
		t.Fatalf("GetBest on nil table: %v, %v", sub, err)
	}
	stats.CaseIn("getbest", 1, false, nil, "nil-table")
}

// ---------------------------------------------------------------------------

func TestC09InstallCMap(t *testing.T) {
	rapid.Check(t, func(t *rapid.T) {
		use12 := rapid.Bool().Draw(t, "format12")
		var sub cmap.Subtable
		var desc string
		var highest int64 = -1 // highest mapped code
		var highestKey int64 = -1
		lookup := func(c uint32) uint16 { return 0 }
		var probes []uint32
		if use12 {
			m := genMap32(t, rapid.IntRange(0, 3).Draw(t, "bmpOnly") == 0)
			lib := cmap.Format12{}
			for c, g := range m.m {
				lib[c] = glyph.ID(g)
				highest = max(highest, int64(c))
			}
			highestKey = highest
			if rapid.IntRange(0, 5).Draw(t, "zeroAbove") == 5 {
				if z := 0x10000 + uint32(rapid.IntRange(0, 0xFFFFF).Draw(t, "zeroAt")); m.m[z] == 0 && len(lib) < 65536 {
					lib[z] = 0 // an entry with glyph 0 maps nothing
				}
				for c := range lib {
					highestKey = max(highestKey, int64(c))
				}
			}
			sub = lib
			desc = "Format12{" + m.String() + "}"
			lookup = func(c uint32) uint16 { return m.m[c] }
			probes = probes32(m.keys(), nil, 1, 256)
		} else {
			m := genMap16(t, 65535, false)
			lib := cmap.Format4{}
			for c, g := range m.g {
				if g != 0 {
					lib[uint16(c)] = glyph.ID(g)
					highest = int64(c)
				}
			}
			highestKey = highest
			sub = lib
			desc = "Format4{" + m.String() + "}"
			lookup = func(c uint32) uint16 {
				if c > 0xFFFF {
					return 0
				}
				return m.g[c]
			}
			for c := 0; c < 65536; c++ {
				if m.g[c] != 0 {
					probes = append(probes, uint32(c), uint32(c)+1)
				}
			}
			probes = append(probes, 0, 0xFFFF)
		}
		fail := func(f string, a ...any) {
			t.Fatalf("InstallCMap(%s)\n  %s", desc, fmt.Sprintf(f, a...))
		}
		f := &sfnt.Font{}
		switch rapid.IntRange(0, 3).Draw(t, "previousCmap") {
		case 1:
			// the font already has a full-repertoire table from an earlier install
			f.InstallCMap(cmap.Format12{0x41: 1, 0x1F600: 2})
			desc += " after InstallCMap(Format12{U+0041, U+1F600})"
		case 2:
			f.InstallCMap(cmap.Format4{0x41: 3, 0x42: 4})
			desc += " after InstallCMap(Format4{U+0041, U+0042})"
		case 3:
			// a table as read from a file: more keys than InstallCMap writes
			old := cmap.Format12{0x61: 5, 0x10000: 6}.Encode(0)
			f.CMapTable = cmap.Table{{PlatformID: 3, EncodingID: 10}: old, {PlatformID: 0, EncodingID: 4}: old,
				{PlatformID: 1, EncodingID: 0}: cmap.Format4{0x41: 7}.Encode(0), {PlatformID: 0, EncodingID: 3}: cmap.Format4{0x41: 7}.Encode(0)}
			desc += " on a font that has (0,3), (0,4), (1,0), (3,10) subtables"
		}
		if pn := guard.Try(func() { f.InstallCMap(sub) }); pn != nil {
			fail("%s", pn)
		}
		bmp := []cmap.Key{{PlatformID: 0, EncodingID: 3}, {PlatformID: 3, EncodingID: 1}}
		full := []cmap.Key{{PlatformID: 0, EncodingID: 4}, {PlatformID: 3, EncodingID: 10}}
		want := bmp
		if highest > 0xFFFF {
			want = full
		}
		got := f.CMapTable
		keysOf := func() string {
			var s []string
			for k := range got {
				s = append(s, fmt.Sprint(k))
			}
			sort.Strings(s)
			return strings.Join(s, " ")
		}
		ambiguous := highest <= 0xFFFF && highestKey > 0xFFFF // only glyph-0 entries above the BMP
		okKeys := func(w []cmap.Key) bool {
			if len(got) != 2 {
				return false
			}
			for _, k := range w {
				if _, ok := got[k]; !ok {
					return false
				}
			}
			return true
		}
		switch {
		case okKeys(want):
		case ambiguous && okKeys(full):
			want = full
		default:
			fail("installed keys {%s}, want %v (highest mapped code %#x)", keysOf(), want, highest)
		}
		a, b := got[want[0]], got[want[1]]
		if !bytes.Equal(a, b) {
			fail("the two subtables differ")
		}
		rs, err := refcmap.Decode(a)
		if err != nil {
			fail("installed subtable malformed: %v", err)
		}
		if rs.Language != 0 {
			fail("installed subtable has language %d", rs.Language)
		}
		var best cmap.Subtable
		if pn := guard.Try(func() { best, err = got.GetBest() }); pn != nil || err != nil {
			fail("GetBest on the installed table: %v %v", err, pn)
		}
		for _, c := range probes {
			if g := rs.Lookup(c); g != uint32(lookup(c)) {
				fail("installed subtable maps %#x to %d, want %d", c, g, lookup(c))
			}
			var g glyph.ID
			if pn := guard.Try(func() { g = best.Lookup(rune(c)) }); pn != nil || g != glyph.ID(lookup(c)) {
				fail("GetBest().Lookup(%#x) = %d, want %d (%v)", c, g, lookup(c), pn)
			}
		}
		// written to a table, the subtable is stored once
		enc := got.Encode()
		if len(enc) != 4+16+len(a) {
			fail("encoded table has %d bytes, want %d", len(enc), 4+16+len(a))
		}
		labels := []string{"keys:bmp"}
		if highest > 0xFFFF {
			labels[0] = "keys:full"
		}
		if use12 {
			labels = append(labels, "Format12")
		} else {
			labels = append(labels, "Format4")
		}
		if ambiguous {
			labels = append(labels, "only-glyph0-above-BMP")
		}
		if highest < 0 {
			labels = append(labels, "empty")
		}
		stats.CaseIn("installcmap", stats.Hash(a, use12), highest >= 0, func() string { return desc }, labels...)
	})
}
