package c09

import (
	"bytes"
	"fmt"
	"sync"
	"time"

	xsfnt "golang.org/x/image/font/sfnt"

	"seehuhn.de/go/postscript/funit"
	"seehuhn.de/go/postscript/type1"
	"seehuhn.de/go/sfnt"
	"seehuhn.de/go/sfnt/cff"
	"seehuhn.de/go/sfnt/cmap"
	"seehuhn.de/go/sfnt/glyph"
	"seehuhn.de/go/sfnt/header"
	"seehuhn.de/go/sfnt/os2"
)

// The x/image cross-check needs a complete font file.  A minimal CFF font is
// written once through the public API; per case only the "cmap" table is
// replaced (assembled here, not by cmap.Table.Encode) and the container is
// re-assembled with header.Write.

var (
	baseOnce   sync.Once
	baseTables map[string][]byte
	baseScaler uint32
	baseErr    error
)

func baseFont() (map[string][]byte, uint32, error) {
	baseOnce.Do(func() {
		now := time.Date(2022, 1, 1, 0, 0, 0, 0, time.UTC)
		f := &sfnt.Font{
			FamilyName:       "Test",
			Weight:           os2.WeightNormal,
			Width:            os2.WidthNormal,
			Version:          0x00010000,
			CreationTime:     now,
			ModificationTime: now,
			UnitsPerEm:       1000,
			Ascent:           700,
			Descent:          -300,
			LineGap:          200,
		}
		o := &cff.Outlines{}
		g := cff.NewGlyph(".notdef", 550)
		g.MoveTo(0, 0)
		g.LineTo(500, 0)
		g.LineTo(500, 700)
		g.LineTo(0, 700)
		o.Glyphs = append(o.Glyphs, g)
		g = cff.NewGlyph("A", 550)
		g.MoveTo(0, 0)
		g.LineTo(500, 0)
		g.LineTo(250, 710)
		o.Glyphs = append(o.Glyphs, g)
		o.Private = []*type1.PrivateDict{{BlueValues: []funit.Int16{-10, 0, 700, 710}}}
		o.FDSelect = func(glyph.ID) int { return 0 }
		f.Outlines = o
		f.InstallCMap(cmap.Format4{'A': 1})
		buf := &bytes.Buffer{}
		if _, err := f.Write(buf); err != nil {
			baseErr = err
			return
		}
		r := bytes.NewReader(buf.Bytes())
		info, err := header.Read(r)
		if err != nil {
			baseErr = err
			return
		}
		baseTables = map[string][]byte{}
		for name := range info.Toc {
			data, err := info.ReadTableBytes(r, name)
			if err != nil {
				baseErr = err
				return
			}
			baseTables[name] = data
		}
		baseScaler = info.ScalerType
	})
	return baseTables, baseScaler, baseErr
}

// singleCmap wraps one subtable into a cmap table with one encoding record.
func singleCmap(pid, eid uint16, sub []byte) []byte {
	b := []byte{0, 0, 0, 1, byte(pid >> 8), byte(pid), byte(eid >> 8), byte(eid), 0, 0, 0, 12}
	return append(b, sub...)
}

// errXSkip marks tables x/image declines for reasons outside the property.
var errXSkip = fmt.Errorf("x/image: skipped")

// xImageFont parses a font whose only cmap subtable is sub.
func xImageFont(pid, eid uint16, sub []byte) (*xsfnt.Font, error) {
	tabs, scaler, err := baseFont()
	if err != nil {
		return nil, fmt.Errorf("building base font: %v", err)
	}
	t2 := make(map[string][]byte, len(tabs))
	for k, v := range tabs {
		if k == "head" {
			v = append([]byte(nil), v...) // header.Write patches the checksum in place
		}
		t2[k] = v
	}
	t2["cmap"] = singleCmap(pid, eid, sub)
	buf := &bytes.Buffer{}
	if _, err := header.Write(buf, scaler, t2); err != nil {
		return nil, fmt.Errorf("header.Write: %v", err)
	}
	return xsfnt.Parse(buf.Bytes())
}
