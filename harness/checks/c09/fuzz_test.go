package c09

import (
	"testing"

	"seehuhn.de/go/sfnt/cmap"
	"seehuhn.de/go/sfnt/glyph"
	"verif/harness/guard"
	"verif/harness/ref/refcmap"
)

// fillChooser drives the reference encoders from a seed (fuzz seeds only).
type fillChooser struct{ f *filler }

func (c fillChooser) Intn(_ string, n int) int {
	if n <= 1 {
		return 0
	}
	return c.f.intn(n)
}

// FuzzC09Decode: every byte string the reference decoder accepts as a
// well-formed format 0/4/6/12 subtable (within the property's domain) must be
// accepted by the library and decode to the same mapping.  Inputs the
// reference rejects carry no expectation here.
func FuzzC09Decode(f *testing.F) {
	for seed := uint64(1); seed <= 12; seed++ {
		fl := &filler{s: seed}
		ch := fillChooser{fl}
		var g [65536]uint16
		c := fl.intn(300)
		for i := 0; i < 3+fl.intn(12) && c < 65500; i++ {
			l := 1 + fl.intn(8)
			g0 := uint16(1 + fl.intn(500))
			for j := 0; j < l; j++ {
				if fl.intn(2) == 0 {
					g[c+j] = g0 + uint16(j)
				} else {
					g[c+j] = uint16(1 + fl.intn(65535))
				}
			}
			c += l + fl.intn(9)
		}
		if data, _, err := refcmap.EncodeFormat4(&g, uint16(seed), ch); err == nil {
			f.Add(data)
		}
		var g6 [65536]uint16
		copy(g6[0x20:0x60], g[:0x40])
		f.Add(refcmap.EncodeFormat6(&g6, 0, ch))
		m := map[uint32]uint16{}
		for c, x := range g[:2000] {
			if x != 0 {
				m[uint32(c)*37] = x
				m[uint32(c)*37+1] = x + 1
			}
		}
		d12, _ := refcmap.EncodeFormat12(m, 0, ch)
		f.Add(d12)
	}
	var tab [256]byte
	tab[65] = 3
	f.Add(refcmap.EncodeFormat0(&tab, 0))

	f.Fuzz(func(t *testing.T, data []byte) {
		rs, err := refcmap.Decode(data)
		if err != nil {
			return
		}
		key := cmap.Key{PlatformID: 3, EncodingID: 1}
		if rs.Format == 12 {
			key.EncodingID = 10
			covered := 0
			for _, g := range rs.Groups {
				covered += int(g.End-g.Start) + 1
				if covered > 65536 {
					return // more entries than the property's domain
				}
			}
		}
		sub, err, pn := libGet(key, data)
		if pn != nil || err != nil {
			t.Fatalf("library rejects a well-formed format %d subtable: %v %v\n  bytes %x", rs.Format, err, pn, data)
		}
		var bad string
		if pn := guard.Try(func() {
			if rs.Format == 12 {
				for _, c := range probes32(nil, rs.Groups, uint64(len(data)), 64) {
					if got := sub.Lookup(rune(c)); got != glyph.ID(rs.Lookup(c)) {
						t.Errorf("format 12: Lookup(%#x) = %d, reference %d\n  bytes %x", c, got, rs.Lookup(c), data)
						return
					}
				}
				for _, g := range rs.Groups {
					for _, c := range []uint32{g.Start, g.End, (g.Start + g.End) / 2} {
						if got := sub.Lookup(rune(c)); got != glyph.ID(rs.Lookup(c)) {
							t.Errorf("format 12: Lookup(%#x) = %d, reference %d\n  bytes %x", c, got, rs.Lookup(c), data)
							return
						}
					}
				}
				return
			}
			for c := uint32(0); c < 65536; c++ {
				if got := sub.Lookup(rune(c)); got != glyph.ID(rs.Lookup(c)) {
					t.Errorf("format %d: Lookup(%#x) = %d, reference %d\n  bytes %x", rs.Format, c, got, rs.Lookup(c), data)
					return
				}
			}
			for _, c := range []rune{0x10000, 0x10041, 0x10FFFF} {
				if got := sub.Lookup(c); got != 0 {
					t.Errorf("format %d: Lookup(%#x) = %d, want 0\n  bytes %x", rs.Format, c, got, data)
					return
				}
			}
		}); pn != nil {
			bad = pn.String()
		}
		if bad != "" {
			t.Fatalf("Lookup: %s\n  bytes %x", bad, data)
		}
	})
}
