package c09

import (
	"fmt"
	"sort"
	"strings"

	"pgregory.net/rapid"
)

// chooser adapts rapid to refcmap.Chooser.
type chooser struct{ t *rapid.T }

func (c chooser) Intn(label string, n int) int {
	if n <= 1 {
		return 0
	}
	return rapid.IntRange(0, n-1).Draw(c.t, label)
}

// mix is a 64-bit mixer; filler derives many values from one rapid draw so
// that large maps do not need tens of thousands of draws.
func mix(x uint64) uint64 {
	x += 0x9E3779B97F4A7C15
	x = (x ^ (x >> 30)) * 0xBF58476D1CE4E5B9
	x = (x ^ (x >> 27)) * 0x94D049BB133111EB
	return x ^ (x >> 31)
}

type filler struct{ s uint64 }

func (f *filler) next() uint64 { f.s = mix(f.s); return f.s }
func (f *filler) intn(n int) int {
	return int(f.next() % uint64(n))
}

// map16 is a mapping code -> glyph (0 = unmapped) over 16-bit codes.
type map16 struct {
	g      [65536]uint16
	labels map[string]bool
}

func (m *map16) label(l string) {
	if m.labels == nil {
		m.labels = map[string]bool{}
	}
	m.labels[l] = true
}

func (m *map16) labelList() []string {
	var res []string
	for l := range m.labels {
		res = append(res, l)
	}
	sort.Strings(res)
	return res
}

func (m *map16) count() int {
	n := 0
	for _, x := range m.g {
		if x != 0 {
			n++
		}
	}
	return n
}

// String renders the complete mapping, compressing runs of consecutive codes
// with consecutive glyphs as "start-end:glyph+".
func (m *map16) String() string {
	var sb strings.Builder
	items := 0
	for c := 0; c < 65536; {
		if m.g[c] == 0 {
			c++
			continue
		}
		e := c
		for e+1 < 65536 && m.g[e+1] != 0 && m.g[e+1] == m.g[e]+1 {
			e++
		}
		if items > 0 {
			sb.WriteByte(' ')
		}
		if e > c {
			fmt.Fprintf(&sb, "%04X-%04X:%d+", c, e, m.g[c])
		} else {
			fmt.Fprintf(&sb, "%04X:%d", c, m.g[c])
		}
		items++
		c = e + 1
	}
	if items == 0 {
		return "(empty)"
	}
	return clip(sb.String())
}

// clip shortens a rendered map for messages; the rapid fail file keeps the
// complete case.
func clip(s string) string {
	if len(s) > 1500 {
		return s[:1500] + fmt.Sprintf("… (%d more characters; complete case in the replay file)", len(s)-1500)
	}
	return s
}

var startPositions = []int{0, 1, 0x20, 0x41, 0xFF, 0x100, 0x7FFF, 0x8000, 0xFF00, 0xFFE0, 0xFFF8, 0xFFFD}

func genGid(t *rapid.T, prevLast uint16) uint16 {
	switch rapid.IntRange(0, 9).Draw(t, "gidKind") {
	case 0, 1, 2, 3:
		return uint16(rapid.IntRange(1, 300).Draw(t, "gid"))
	case 4, 5:
		return uint16(rapid.IntRange(1, 65535).Draw(t, "gid"))
	case 6:
		return uint16(rapid.IntRange(0xFFF0, 0xFFFF).Draw(t, "gid")) // runs from here wrap modulo 65536
	default:
		if prevLast == 0xFFFF {
			return 1
		}
		return prevLast + 1
	}
}

// genMap16 draws a map with controlled run structure.  maxCode limits the
// codes used (255 for byte formats).
func genMap16(t *rapid.T, maxCode int, allowBig bool) *map16 {
	m := &map16{}
	if allowBig {
		p := 40
		if bigMapsOften {
			p = 12
		}
		if rapid.IntRange(0, p-1).Draw(t, "big") == p-1 { // rare values are the large ones: shrinking leads away
			genBigMap(t, m)
			return m
		}
	}
	var nBlocks int
	switch cl := rapid.IntRange(0, 19).Draw(t, "sizeClass"); {
	case cl < 12 || maxCode < 65535:
		nBlocks = rapid.IntRange(0, 12).Draw(t, "nBlocks")
	case cl < 18:
		nBlocks = rapid.IntRange(13, 120).Draw(t, "nBlocks")
	default:
		nBlocks = rapid.IntRange(121, 600).Draw(t, "nBlocks")
		m.label("map:many-blocks")
	}
	var pos int
	if maxCode >= 65535 && rapid.Bool().Draw(t, "startFav") {
		pos = rapid.SampledFrom(startPositions).Draw(t, "start")
	} else {
		pos = rapid.IntRange(0, maxCode).Draw(t, "start")
	}
	var prev []uint16 // glyph pattern of the previous block (0 = hole)
	var prevLast uint16
	set := func(c int, gid uint16) {
		if c <= maxCode {
			m.g[c] = gid
			if gid != 0 {
				prevLast = gid
			}
		}
	}
	for b := 0; b < nBlocks && pos <= maxCode; b++ {
		// gap
		switch rapid.IntRange(0, 9).Draw(t, "gapKind") {
		case 0, 1:
			// adjacent
		case 2, 3, 4, 5:
			pos += rapid.IntRange(1, 6).Draw(t, "gap")
		case 6, 7:
			pos += rapid.IntRange(7, 200).Draw(t, "gap")
		default:
			if maxCode >= 65535 {
				pos += rapid.IntRange(1000, 20000).Draw(t, "gap")
			} else {
				pos += rapid.IntRange(1, 40).Draw(t, "gap")
			}
		}
		if pos > maxCode {
			break
		}
		var pat []uint16
		switch kind := rapid.IntRange(0, 11).Draw(t, "blockKind"); {
		case kind <= 3: // constant-delta run
			l := rapid.IntRange(1, 10).Draw(t, "runLen")
			if maxCode >= 65535 && rapid.IntRange(0, 14).Draw(t, "long") == 14 {
				l = rapid.IntRange(1000, 5000).Draw(t, "runLen")
				m.label("map:long-run")
			}
			g0 := genGid(t, prevLast)
			for i := 0; i < l; i++ {
				pat = append(pat, g0+uint16(i))
			}
			if int(g0)+l > 65536 {
				m.label("map:gid-wrap")
			}
		case kind <= 6: // arbitrary glyphs on consecutive codes
			l := rapid.IntRange(1, 12).Draw(t, "randLen")
			small := rapid.Bool().Draw(t, "smallGids")
			for i := 0; i < l; i++ {
				if small {
					pat = append(pat, uint16(rapid.IntRange(1, 40).Draw(t, "g")))
				} else {
					pat = append(pat, uint16(rapid.IntRange(1, 65535).Draw(t, "g")))
				}
			}
		case kind <= 8: // every second code
			n := rapid.IntRange(2, 40).Draw(t, "evenN")
			consecutive := rapid.Bool().Draw(t, "evenConsecutive")
			g0 := genGid(t, prevLast)
			for i := 0; i < n; i++ {
				if consecutive {
					pat = append(pat, g0+uint16(i), 0)
				} else {
					pat = append(pat, uint16(rapid.IntRange(1, 2000).Draw(t, "g")), 0)
				}
			}
			pat = pat[:len(pat)-1]
			m.label("map:even-codes")
		case kind == 9: // holes at random
			l := rapid.IntRange(3, 30).Draw(t, "sparseLen")
			for i := 0; i < l; i++ {
				if rapid.Bool().Draw(t, "present") {
					pat = append(pat, uint16(rapid.IntRange(1, 500).Draw(t, "g")))
				} else {
					pat = append(pat, 0)
				}
			}
		default: // the previous block again, glyphs shifted (shareable glyphIdArray range)
			if len(prev) == 0 {
				pat = []uint16{genGid(t, prevLast)}
				break
			}
			off := uint16(rapid.IntRange(0, 2000).Draw(t, "repeatOff"))
			for _, x := range prev {
				if x == 0 || x+off == 0 {
					pat = append(pat, 0)
				} else {
					pat = append(pat, x+off)
				}
			}
			m.label("map:repeated-block")
		}
		for i, x := range pat {
			set(pos+i, x)
		}
		pos += len(pat)
		prev = pat
	}
	if maxCode >= 65535 {
		switch rapid.IntRange(0, 5).Draw(t, "lastCode") {
		case 0:
			m.g[0xFFFF] = genGid(t, prevLast)
		case 1:
			m.g[0xFFFF] = 0
		case 2:
			m.g[0xFFFE] = genGid(t, prevLast)
			m.g[0xFFFF] = m.g[0xFFFE] + 1
		case 3:
			m.g[0xFFFE] = genGid(t, prevLast)
		}
		if m.g[0xFFFF] != 0 {
			m.label("map:FFFF-mapped")
		}
		if m.g[0xFFFE] != 0 {
			m.label("map:FFFE-mapped")
		}
	}
	return m
}

// bigMapsOften is set in the thorough tier.
var bigMapsOften bool

// genBigMap fills m with one of the shapes that drive a format 4 subtable
// towards the 64 KiB limit.  Shapes that need long glyphIdArray ranges cost
// the library's encoder seconds near the limit (its segment search is
// quadratic there), so they stay small except for rare thorough-tier cases.
func genBigMap(t *rapid.T, m *map16) {
	fl := &filler{s: rapid.Uint64().Draw(t, "fillSeed")}
	m.label("map:big")
	nearLimitArrays := bigMapsOften && rapid.IntRange(0, 59).Draw(t, "nearLimitArrays") == 59
	switch rapid.IntRange(0, 5).Draw(t, "bigKind") {
	case 0: // every second code, arbitrary glyphs: about 4 bytes per code, one array
		n := rapid.IntRange(300, 3000).Draw(t, "bigN")
		if nearLimitArrays {
			n = rapid.IntRange(15800, 16400).Draw(t, "bigNL") // the limit is crossed near 16370
		}
		start := rapid.IntRange(0, 65535-2*n).Draw(t, "bigStart")
		for i := 0; i < n; i++ {
			m.g[start+2*i] = uint16(1 + fl.intn(65535))
		}
		m.label("map:big-even")
	case 1: // consecutive codes, arbitrary glyphs: 2 bytes per code
		n := rapid.IntRange(300, 3000).Draw(t, "bigN")
		if nearLimitArrays {
			n = rapid.IntRange(32000, 32780).Draw(t, "bigNL") // the limit is crossed near 32750
		}
		start := rapid.IntRange(0, 65535-n).Draw(t, "bigStart")
		for i := 0; i < n; i++ {
			m.g[start+i] = uint16(1 + fl.intn(65535))
		}
		m.label("map:big-dense")
	case 2: // isolated points: 8 bytes per point, the limit is crossed at 8189 points
		n := rapid.SampledFrom([]int{8188, 8189, 8187, 8100, 7000, 8300}).Draw(t, "bigN")
		if rapid.Bool().Draw(t, "bigNAny") {
			n = rapid.IntRange(5000, 8400).Draw(t, "bigN2")
		}
		stride := 7
		start := rapid.IntRange(0, 65535-stride*n).Draw(t, "bigStart")
		for i := 0; i < n; i++ {
			m.g[start+stride*i] = uint16(1 + fl.intn(65535))
		}
		m.label("map:big-isolated")
	case 3: // short runs (length 2..3) separated by gaps of 6+
		n := rapid.IntRange(4000, 7400).Draw(t, "bigN")
		c := rapid.IntRange(0, 300).Draw(t, "bigStart")
		for i := 0; i < n && c < 65530; i++ {
			l := 2 + fl.intn(2)
			g0 := uint16(1 + fl.intn(60000))
			for j := 0; j < l; j++ {
				m.g[c+j] = g0 + uint16(j)
			}
			c += l + 6 + fl.intn(2)
		}
		m.label("map:big-shortruns")
	case 4: // clusters of 3 arbitrary glyphs (array segments) separated by gaps of 6
		n := rapid.IntRange(3000, 4800).Draw(t, "bigN")
		c := rapid.IntRange(0, 300).Draw(t, "bigStart")
		for i := 0; i < n && c < 65530; i++ {
			for j := 0; j < 3; j++ {
				m.g[c+j] = uint16(1 + fl.intn(65535))
			}
			c += 9 + fl.intn(2)
		}
		m.label("map:big-clusters")
	default: // a mixture over the whole code space
		c := 0
		for c < 65536 {
			switch fl.intn(4) {
			case 0:
				l := 1 + fl.intn(60)
				g0 := uint16(1 + fl.intn(65535))
				for j := 0; j < l && c+j < 65536; j++ {
					m.g[c+j] = g0 + uint16(j)
				}
				c += l
			case 1:
				l := 1 + fl.intn(6)
				for j := 0; j < l && c+j < 65536; j++ {
					m.g[c+j] = uint16(1 + fl.intn(65535))
				}
				c += l
			default:
				c += 1 + fl.intn(40)
			}
		}
		m.label("map:big-mixed")
	}
}

// map32 is a mapping over 0..0x10FFFF.
type map32 struct {
	m      map[uint32]uint16
	labels map[string]bool
}

func (m *map32) label(l string) {
	if m.labels == nil {
		m.labels = map[string]bool{}
	}
	m.labels[l] = true
}

func (m *map32) labelList() []string {
	var res []string
	for l := range m.labels {
		res = append(res, l)
	}
	sort.Strings(res)
	return res
}

func (m *map32) keys() []uint32 {
	keys := make([]uint32, 0, len(m.m))
	for k := range m.m {
		keys = append(keys, k)
	}
	sort.Slice(keys, func(i, j int) bool { return keys[i] < keys[j] })
	return keys
}

func (m *map32) String() string {
	keys := m.keys()
	if len(keys) == 0 {
		return "(empty)"
	}
	var sb strings.Builder
	for i := 0; i < len(keys); {
		j := i
		for j+1 < len(keys) && keys[j+1] == keys[j]+1 && m.m[keys[j+1]] != 0 && m.m[keys[j+1]] == m.m[keys[j]]+1 {
			j++
		}
		if i > 0 {
			sb.WriteByte(' ')
		}
		if j > i {
			fmt.Fprintf(&sb, "%X-%X:%d+", keys[i], keys[j], m.m[keys[i]])
		} else {
			fmt.Fprintf(&sb, "%X:%d", keys[i], m.m[keys[i]])
		}
		i = j + 1
	}
	return clip(sb.String())
}

var startPositions32 = []uint32{0, 0x20, 0xFFF0, 0xFFFE, 0xFFFF, 0x10000, 0x1F600, 0x2FFFE, 0xE0000, 0x10FFF0, 0x10FFFF}

// genMap32 draws a map over 0..0x10FFFF with up to 65536 entries.  With
// explicitZero some keys are present with value 0 (which means unmapped).
func genMap32(t *rapid.T, bmpOnly bool) *map32 {
	m := &map32{m: map[uint32]uint16{}}
	maxCode := uint32(0x10FFFF)
	if bmpOnly {
		maxCode = 0xFFFF
	}
	var nBlocks int
	huge := false
	switch cl := rapid.IntRange(0, 39).Draw(t, "sizeClass"); {
	case cl < 24:
		nBlocks = rapid.IntRange(0, 12).Draw(t, "nBlocks")
	case cl < 36:
		nBlocks = rapid.IntRange(13, 150).Draw(t, "nBlocks")
	case cl < 39:
		nBlocks = rapid.IntRange(151, 1000).Draw(t, "nBlocks")
		m.label("map:many-blocks")
	default:
		huge = true
		m.label("map:huge")
	}
	if huge {
		// close to (and at) the 65536-entry limit, derived from one seed
		fl := &filler{s: rapid.Uint64().Draw(t, "fillSeed")}
		target := rapid.SampledFrom([]int{65536, 65535, 60000, 30000}).Draw(t, "hugeN")
		c := uint32(rapid.IntRange(0, 0x8000).Draw(t, "start"))
		for len(m.m) < target && c <= maxCode {
			l := 1 + fl.intn(200)
			if fl.intn(3) == 0 {
				l = 1 + fl.intn(3)
			}
			g0 := uint16(1 + fl.intn(65535))
			for j := 0; j < l && len(m.m) < target && c <= maxCode; j++ {
				if g := g0 + uint16(j); g != 0 {
					m.m[c] = g
				}
				c++
			}
			if bmpOnly {
				c += uint32(fl.intn(3))
			} else {
				c += uint32(fl.intn(40))
			}
		}
		return m
	}
	var pos uint32
	if rapid.Bool().Draw(t, "startFav") {
		pos = rapid.SampledFrom(startPositions32).Draw(t, "start")
		if pos > maxCode {
			pos = maxCode
		}
	} else {
		pos = uint32(rapid.IntRange(0, int(maxCode)).Draw(t, "start"))
	}
	var prevLast uint16
	for b := 0; b < nBlocks && pos <= maxCode; b++ {
		switch rapid.IntRange(0, 9).Draw(t, "gapKind") {
		case 0, 1:
		case 2, 3, 4, 5:
			pos += uint32(rapid.IntRange(1, 6).Draw(t, "gap"))
		case 6, 7:
			pos += uint32(rapid.IntRange(7, 300).Draw(t, "gap"))
		default:
			if bmpOnly {
				pos += uint32(rapid.IntRange(300, 5000).Draw(t, "gap"))
			} else {
				pos += uint32(rapid.IntRange(1000, 200000).Draw(t, "gap"))
			}
		}
		if pos > maxCode {
			break
		}
		var pat []uint16
		switch kind := rapid.IntRange(0, 9).Draw(t, "blockKind"); {
		case kind <= 4:
			l := rapid.IntRange(1, 12).Draw(t, "runLen")
			if rapid.IntRange(0, 14).Draw(t, "long") == 14 {
				l = rapid.IntRange(200, 3000).Draw(t, "runLen")
			}
			g0 := genGid(t, prevLast)
			for i := 0; i < l; i++ {
				pat = append(pat, g0+uint16(i))
			}
			if int(g0)+l > 65536 {
				m.label("map:gid-wrap")
			}
		case kind <= 7:
			l := rapid.IntRange(1, 10).Draw(t, "randLen")
			for i := 0; i < l; i++ {
				pat = append(pat, uint16(rapid.IntRange(1, 65535).Draw(t, "g")))
			}
		default:
			l := rapid.IntRange(2, 20).Draw(t, "sparseLen")
			for i := 0; i < l; i++ {
				if rapid.Bool().Draw(t, "present") {
					pat = append(pat, uint16(rapid.IntRange(1, 500).Draw(t, "g")))
				} else {
					pat = append(pat, 0)
				}
			}
		}
		for i, x := range pat {
			c := pos + uint32(i)
			if c > maxCode {
				break
			}
			if x != 0 {
				m.m[c] = x
				prevLast = x
			}
		}
		pos += uint32(len(pat))
	}
	return m
}
