package c16

import (
	"fmt"
	"runtime"
	"strings"
	"sync"
	"testing"

	"pgregory.net/rapid"

	"seehuhn.de/go/sfnt"
	"verif/harness/fontcmp"
	genfont "verif/harness/gen/font"
	"verif/harness/stats"
)

// TestC16Unrelated: several goroutines, each working on a font of its own
// (two to four unrelated fonts, some goroutines share one).  Nothing ties
// these fonts together except state the library keeps at package level -
// caches, scratch tables, memoised results - which every font's operations
// read and write.  The race detector sees unsynchronised access to it, and
// every result is compared with the same call on a deep copy made beforehand.
func TestC16Unrelated(t *testing.T) {
	defer runtime.GOMAXPROCS(runtime.GOMAXPROCS(0))
	rapid.Check(t, func(t *rapid.T) {
		nf := rapid.IntRange(2, 4).Draw(t, "nFonts")
		fonts := make([]*sfnt.Font, nf)
		refs := make([]*sfnt.Font, nf)
		var hist strings.Builder
		for i := range fonts {
			layout := genfont.LayoutSubset
			if rapid.Bool().Draw(t, "allLayout") {
				layout = genfont.LayoutAll
			}
			c := genfont.Gen(genfont.Opts{MaxGlyphs: 12, MinGlyphs: 2, Layout: layout, NilMaxp: true}).Draw(t, "font")
			fonts[i] = c.Font
			refs[i] = fontcmp.DeepCopy(c.Font)
			fmt.Fprintf(&hist, "font %d: %s\n", i, c)
		}
		ng := rapid.IntRange(nf, 12).Draw(t, "goroutines")
		procs := rapid.SampledFrom([]int{2, 4, 16}).Draw(t, "gomaxprocs")
		type plan struct {
			font int
			ops  []op
		}
		plans := make([]plan, ng)
		for i := range plans {
			plans[i].font = i % nf
			for j := rapid.IntRange(2, 6).Draw(t, "nOps"); j > 0; j-- {
				plans[i].ops = append(plans[i].ops, op{rapid.SampledFrom(opNames).Draw(t, "op"), rapid.IntRange(0, 999).Draw(t, "arg")})
			}
			fmt.Fprintf(&hist, "g%d on font %d: %v\n", i, plans[i].font, plans[i].ops)
		}
		want := make([][]string, ng)
		for i, p := range plans {
			for _, o := range p.ops {
				want[i] = append(want[i], run(refs[p.font], o))
			}
		}
		runtime.GOMAXPROCS(procs)
		got := make([][]string, ng)
		var wg sync.WaitGroup
		start := make(chan struct{})
		for i := range plans {
			wg.Add(1)
			go func(i int) {
				defer wg.Done()
				<-start
				for _, o := range plans[i].ops {
					got[i] = append(got[i], run(fonts[plans[i].font], o))
				}
			}(i)
		}
		close(start)
		wg.Wait()
		for i := range plans {
			for j := range plans[i].ops {
				if got[i][j] != want[i][j] {
					o := plans[i].ops[j]
					// not deterministic even alone?
					alone := map[string]bool{}
					for k := 0; k < 20; k++ {
						alone[run(fontcmp.DeepCopy(refs[plans[i].font]), o)] = true
					}
					if len(alone) > 1 {
						stats.Label("unrelated", "nondeterministic-alone:"+o.Name)
						continue
					}
					t.Fatalf("goroutine %d op %v on font %d: result differs from the same call made alone beforehand\n  concurrent: %.300s\n  alone:      %.300s\n%s", i, o, plans[i].font, got[i][j], want[i][j], hist.String())
				}
			}
		}
		if d := packageDefaults(); d != packageDefaults0 {
			t.Fatalf("package-level default feature sets modified\n%s", hist.String())
		}
		stats.CaseIn("unrelated", stats.Hash(hist.String()), true, func() string { return hist.String() },
			fmt.Sprintf("fonts-%d", nf), fmt.Sprintf("goroutines-%d", ng))
	})
}
