// C16: a font that is not being modified is safe for concurrent use.
package c16

import (
	"bytes"
	"fmt"
	"os"
	"runtime"
	"sort"
	"strings"
	"sync"
	"testing"

	"golang.org/x/text/language"
	"pgregory.net/rapid"

	"seehuhn.de/go/sfnt"
	"seehuhn.de/go/sfnt/glyph"
	"seehuhn.de/go/sfnt/opentype/classdef"
	"seehuhn.de/go/sfnt/opentype/coverage"
	"seehuhn.de/go/sfnt/opentype/gtab"
	"seehuhn.de/go/sfnt/opentype/gtab/builder"
	"verif/harness/fontcmp"
	genfont "verif/harness/gen/font"
	"verif/harness/gen/lookups"
	"verif/harness/guard"
	"verif/harness/stats"
)

func TestMain(m *testing.M) { stats.MainExit(m) }

// op is one read-only operation; arg selects glyph lists / strings.
type op struct {
	Name string
	Arg  int
}

func (o op) String() string { return fmt.Sprintf("%s(%d)", o.Name, o.Arg) }

var opNames = []string{"Write", "WritePDF", "Subset", "Clone", "FontBBox", "Widths", "WidthsPDF", "GlyphBBoxes",
	"GlyphBBox", "GlyphWidthPDF", "FontBBoxPDF", "MakeGlyphNames", "GetFontInfo", "AsCFFWrite", "Layout", "Apply",
	"ExplainGsub", "ExplainGpos", "IsFixedPitch", "PostScriptName", "NumGlyphs", "BuiltinEncoding", "GlyphNames"}

var writerOps = map[string]bool{"Write": true, "WritePDF": true, "Subset": true, "Layout": true, "AsCFFWrite": true, "Apply": true}

// subsetList derives a duplicate-free glyph list starting with 0.
func subsetList(n, arg int) []glyph.ID {
	res := []glyph.ID{0}
	seen := map[int]bool{0: true}
	x := uint64(arg)*2654435761 + 1
	k := 1 + arg%5
	for i := 0; i < k && len(res) < n; i++ {
		x = x*6364136223846793005 + 1442695040888963407
		g := int(x>>33) % n
		if !seen[g] {
			seen[g] = true
			res = append(res, glyph.ID(g))
		}
	}
	return res
}

// layoutLanguages: scripts with and without contextual joining, right-to-left
// and left-to-right, with and without a matching language system in the
// generated fonts.
var layoutLanguages = []language.Tag{language.English, language.German, language.Und, language.MustParse("tr"),
	language.Arabic, language.Persian, language.Hebrew, language.MustParse("syr"), language.MustParse("mn-Mong"),
	language.Hindi, language.Japanese, language.MustParse("und-Arab"), language.MustParse("sr-Latn")}

// packageDefaults renders the exported package-level defaults that every
// caller shares.
func packageDefaults() string {
	var keys []string
	for k, v := range gtab.GsubDefaultFeatures {
		keys = append(keys, fmt.Sprintf("gsub:%s=%v", k, v))
	}
	for k, v := range gtab.GposDefaultFeatures {
		keys = append(keys, fmt.Sprintf("gpos:%s=%v", k, v))
	}
	sort.Strings(keys)
	return strings.Join(keys, " ")
}

var packageDefaults0 = packageDefaults()

var texts = []string{"", "A", "fi", "ffl", "HxAB", "aé Ω", "AAAA", "f́i", "xyz\U0001F600", "flab"}

func infoString(seq []glyph.Info) string {
	var sb strings.Builder
	for _, g := range seq {
		fmt.Fprintf(&sb, "[%d %q %d %d %d]", g.GID, string(g.Text), g.XOffset, g.YOffset, g.Advance)
	}
	return sb.String()
}

// run executes one operation on the shared font and renders the result.
func run(f *sfnt.Font, o op) (res string) {
	pn := guard.Try(func() {
		n := f.NumGlyphs()
		switch o.Name {
		case "Write":
			var buf bytes.Buffer
			k, err := f.Write(&buf)
			res = fmt.Sprintf("%d %v %x", k, err, stats.Hash(buf.Bytes()))
		case "WritePDF":
			var buf bytes.Buffer
			if f.IsGlyf() {
				k, err := f.WriteTrueTypePDF(&buf)
				res = fmt.Sprintf("%d %v %x", k, err, stats.Hash(buf.Bytes()))
			} else {
				err := f.WriteOpenTypeCFFPDF(&buf)
				res = fmt.Sprintf("%v %x", err, stats.Hash(buf.Bytes()))
			}
		case "Subset":
			list := subsetList(n, o.Arg)
			s := f.Subset(list)
			var buf bytes.Buffer
			k, err := s.Write(&buf)
			// The order in which glyphs needed by composites are appended is
			// not fixed (it varies from call to call even without
			// concurrency): render the result independently of that order.
			desc := func(gid glyph.ID) string {
				return fmt.Sprintf("%v/%v/%q", s.GlyphWidth(gid), s.GlyphBBox(gid), s.GlyphName(gid))
			}
			var sb strings.Builder
			// (the file length depends on that order too - charset and cmap
			// ranges - so it is part of the result only when nothing was appended)
			if s.NumGlyphs() > len(list) {
				k = -1
			}
			fmt.Fprintf(&sb, "n=%d len=%d err=%v", s.NumGlyphs(), k, err)
			for i := range list {
				sb.WriteString(" " + desc(glyph.ID(i)))
			}
			var extra []string
			for i := len(list); i < s.NumGlyphs(); i++ {
				extra = append(extra, desc(glyph.ID(i)))
			}
			sort.Strings(extra)
			res = sb.String() + " +" + strings.Join(extra, ",")
		case "Clone":
			c := f.Clone()
			res = fmt.Sprintf("%q %d", c.FamilyName, c.NumGlyphs())
		case "FontBBox":
			res = fmt.Sprint(f.FontBBox())
		case "FontBBoxPDF":
			res = fmt.Sprint(f.FontBBoxPDF())
		case "Widths":
			res = fmt.Sprint(f.Widths())
		case "WidthsPDF":
			res = fmt.Sprint(f.WidthsPDF())
		case "GlyphBBoxes":
			res = fmt.Sprint(f.GlyphBBoxes())
		case "GlyphBBox":
			res = fmt.Sprint(f.GlyphBBox(glyph.ID(o.Arg % n)))
		case "GlyphWidthPDF":
			res = fmt.Sprint(f.GlyphWidthPDF(glyph.ID(o.Arg % n)))
		case "MakeGlyphNames":
			res = strings.Join(f.MakeGlyphNames(), "|")
		case "GlyphNames":
			var sb strings.Builder
			for gid := 0; gid < n; gid++ {
				sb.WriteString(f.GlyphName(glyph.ID(gid)))
				sb.WriteByte('|')
			}
			res = sb.String()
		case "GetFontInfo":
			res = fmt.Sprintf("%+v", *f.GetFontInfo())
		case "AsCFFWrite":
			if !f.IsCFF() {
				res = "n/a"
				return
			}
			var buf bytes.Buffer
			err := f.AsCFF().Write(&buf)
			res = fmt.Sprintf("%v %x", err, stats.Hash(buf.Bytes()))
		case "Layout":
			lang := layoutLanguages[o.Arg%len(layoutLanguages)]
			l, err := f.NewLayouter(lang, nil, nil)
			if err != nil {
				res = "err: " + err.Error()
				return
			}
			var sb strings.Builder
			for i := 0; i < 3; i++ {
				sb.WriteString(infoString(l.Layout(texts[(o.Arg+i)%len(texts)])))
				sb.WriteByte(';')
			}
			res = sb.String()
		case "Apply":
			info := f.Gsub
			if o.Arg%2 == 1 {
				info = f.Gpos
			}
			if info == nil {
				res = "n/a"
				return
			}
			var all []gtab.LookupIndex
			for i := range info.LookupList {
				all = append(all, gtab.LookupIndex(i))
			}
			ctx := gtab.NewContext(info.LookupList, f.Gdef, all)
			seq := make([]glyph.Info, 0, 6)
			for i := 0; i < 6; i++ {
				seq = append(seq, glyph.Info{GID: glyph.ID((o.Arg*7 + i*3) % n), Text: []rune{rune('a' + i)}})
			}
			res = infoString(ctx.Apply(seq))
		case "ExplainGsub":
			res = builder.ExplainGsub(f)
		case "ExplainGpos":
			res = strings.Join(builder.ExplainGpos(f), "\n---\n")
		case "IsFixedPitch":
			res = fmt.Sprint(f.IsFixedPitch())
		case "PostScriptName":
			res = f.PostScriptName()
		case "NumGlyphs":
			res = fmt.Sprint(n)
		case "BuiltinEncoding":
			res = strings.Join(f.BuiltinEncoding(), "|")
		default:
			panic("unknown op " + o.Name)
		}
	})
	if pn != nil {
		return "PANIC " + pn.Key()
	}
	return res
}

// deepen adds to the font's GSUB table a contextual lookup that calls, several
// times, a second contextual lookup with many nested actions, so that one
// match needs more nested actions than the engine's budget: the engine then
// has to drop pending actions, which live in the lookup list that all
// layouters of the font share.  The lookup is reachable from every feature.
func deepen(t *rapid.T, f *sfnt.Font) {
	n := f.NumGlyphs()
	all := make([]glyph.ID, n)
	next := make([]glyph.ID, n)
	for i := range all {
		all[i] = glyph.ID(i)
		next[i] = glyph.ID((i + 1) % n)
	}
	if f.Gsub == nil {
		f.Gsub = &gtab.Info{ScriptList: gtab.ScriptListInfo{}}
	}
	info := f.Gsub
	base := gtab.LookupIndex(len(info.LookupList))
	rules := func(k int, target gtab.LookupIndex) [][]*gtab.SeqRule {
		res := make([][]*gtab.SeqRule, n)
		for i := range res {
			var actions []gtab.SeqLookup
			for j := 0; j < k; j++ {
				actions = append(actions, gtab.SeqLookup{SequenceIndex: 0, LookupListIndex: target})
			}
			res[i] = []*gtab.SeqRule{{Actions: actions}}
		}
		return res
	}
	outer := rapid.IntRange(2, 4).Draw(t, "deepOuter")
	inner := rapid.IntRange(22, 40).Draw(t, "deepInner")
	info.LookupList = append(info.LookupList,
		&gtab.LookupTable{Meta: &gtab.LookupMetaInfo{LookupType: 5}, Subtables: []gtab.Subtable{
			&gtab.SeqContext1{Cov: lookups.CovTable(all), Rules: rules(outer, base+1)}}},
		&gtab.LookupTable{Meta: &gtab.LookupMetaInfo{LookupType: 5}, Subtables: []gtab.Subtable{
			&gtab.SeqContext1{Cov: lookups.CovTable(all), Rules: rules(inner, base+2)}}},
		&gtab.LookupTable{Meta: &gtab.LookupMetaInfo{LookupType: 1}, Subtables: []gtab.Subtable{
			&gtab.Gsub1_2{Cov: lookups.CovTable(all), SubstituteGlyphIDs: next}}},
	)
	if len(info.FeatureList) == 0 {
		info.FeatureList = gtab.FeatureListInfo{{Tag: "liga"}}
	}
	for _, ft := range info.FeatureList {
		ft.Lookups = append(ft.Lookups, base)
	}
	if len(info.ScriptList) == 0 {
		info.ScriptList[language.Und] = &gtab.Features{Required: 0}
	}
}

// chainify adds chaining context lookups in the three formats (GSUB 6.1, 6.2,
// 6.3) to the font's GSUB table: two or three backtrack glyphs that do not read
// the same in both directions, an input glyph, a lookahead glyph, one nested
// single substitution.  Backtrack sequences are stored in reverse order; code
// that shows or matches them in logical order has to turn them round.
func chainify(t *rapid.T, f *sfnt.Font) bool {
	n := f.NumGlyphs()
	if n < 5 {
		return false
	}
	if f.Gsub == nil {
		f.Gsub = &gtab.Info{ScriptList: gtab.ScriptListInfo{}}
	}
	info := f.Gsub
	g := func(label string) glyph.ID { return glyph.ID(rapid.IntRange(1, n-1).Draw(t, label)) }
	base := gtab.LookupIndex(len(info.LookupList))
	target := base + 3
	next := make([]glyph.ID, n)
	all := make([]glyph.ID, n)
	for i := range all {
		all[i], next[i] = glyph.ID(i), glyph.ID((i+1)%n)
	}
	back := []glyph.ID{g("back0"), g("back1")}
	for back[1] == back[0] {
		back[1] = glyph.ID(int(back[1])%(n-1) + 1)
	}
	if rapid.Bool().Draw(t, "back3") {
		back = append(back, g("back2"))
	}
	first, ahead := g("chainFirst"), g("chainAhead")
	classes := classdef.Table{}
	for i := 1; i < n; i++ {
		classes[glyph.ID(i)] = uint16(i)
	}
	cls := func(gg []glyph.ID) []uint16 {
		res := make([]uint16, len(gg))
		for i, x := range gg {
			res[i] = uint16(x)
		}
		return res
	}
	act := []gtab.SeqLookup{{SequenceIndex: 0, LookupListIndex: target}}
	rules2 := make([][]*gtab.ChainedClassSeqRule, n)
	rules2[first] = []*gtab.ChainedClassSeqRule{{Backtrack: cls(back), Lookahead: cls([]glyph.ID{ahead}), Actions: act}}
	var back3 []coverage.Set
	for _, x := range back {
		back3 = append(back3, coverage.Set{x: true})
	}
	info.LookupList = append(info.LookupList,
		&gtab.LookupTable{Meta: &gtab.LookupMetaInfo{LookupType: 6}, Subtables: []gtab.Subtable{
			&gtab.ChainedSeqContext1{Cov: lookups.CovTable([]glyph.ID{first}), Rules: [][]*gtab.ChainedSeqRule{{{Backtrack: back, Lookahead: []glyph.ID{ahead}, Actions: act}}}}}},
		&gtab.LookupTable{Meta: &gtab.LookupMetaInfo{LookupType: 6}, Subtables: []gtab.Subtable{
			&gtab.ChainedSeqContext2{Cov: lookups.CovTable([]glyph.ID{first}), Backtrack: classes, Input: classes, Lookahead: classes, Rules: rules2}}},
		&gtab.LookupTable{Meta: &gtab.LookupMetaInfo{LookupType: 6}, Subtables: []gtab.Subtable{
			&gtab.ChainedSeqContext3{Backtrack: back3, Input: []coverage.Set{{first: true}}, Lookahead: []coverage.Set{{ahead: true}}, Actions: act}}},
		&gtab.LookupTable{Meta: &gtab.LookupMetaInfo{LookupType: 1}, Subtables: []gtab.Subtable{
			&gtab.Gsub1_2{Cov: lookups.CovTable(all), SubstituteGlyphIDs: next}}},
	)
	if len(info.FeatureList) == 0 {
		info.FeatureList = gtab.FeatureListInfo{{Tag: "liga"}}
	}
	for _, ft := range info.FeatureList {
		ft.Lookups = append(ft.Lookups, base, base+1, base+2)
	}
	if len(info.ScriptList) == 0 {
		info.ScriptList[language.Und] = &gtab.Features{Required: 0}
	}
	return true
}

func TestC16Schedules(t *testing.T) { schedules(t, false) }

// TestC16ColdStart runs the concurrent phase BEFORE the sequential reference
// calls, in a fresh process, so that lazily initialised package state is
// first touched by concurrent callers (the driver starts several such
// processes with few cases each).
func TestC16ColdStart(t *testing.T) { schedules(t, true) }

func schedules(t *testing.T, cold bool) {
	defer runtime.GOMAXPROCS(runtime.GOMAXPROCS(0))
	sub := "schedules"
	if cold {
		sub = "coldstart"
	}
	rapid.Check(t, func(t *rapid.T) {
		// half of the fonts carry only layout data the subsetter supports, so
		// that Subset runs to completion instead of refusing the GDEF table
		layout := genfont.LayoutAll
		if rapid.Bool().Draw(t, "subsettable") {
			layout = genfont.LayoutSubset
		}
		names := genfont.NamesProper
		if rapid.IntRange(0, 3).Draw(t, "wildNames") == 0 {
			names = genfont.NamesWild // duplicate, empty and invalid glyph names
		}
		c := genfont.Gen(genfont.Opts{MaxGlyphs: 24, MinGlyphs: 2, Layout: layout, Names: names, NilMaxp: true}).Draw(t, "font")
		f := c.Font
		if rapid.Bool().Draw(t, "mixPairRecords") && genfont.MixPairRecords(t, f) {
			c.Labels = append(c.Labels, "pair-records-mixed")
		}
		if layout == genfont.LayoutAll && rapid.IntRange(0, 2).Draw(t, "chainContexts") == 0 && chainify(t, f) {
			c.Labels = append(c.Labels, "chaining-contexts-with-backtrack")
		}
		deep := false
		if layout == genfont.LayoutAll && rapid.IntRange(0, 2).Draw(t, "deepNesting") == 0 {
			deepen(t, f)
			deep = true
		}
		// values a caller may build by hand but no decoder produces: explicit
		// class-0 entries in the GDEF class tables (class 0 means "not
		// listed", so encoders skip them - they must not remove them from the
		// caller's maps)
		explicitZero := false
		if f.Gdef != nil && rapid.IntRange(0, 2).Draw(t, "explicitClassZero") == 0 {
			for _, cd := range []map[glyph.ID]uint16{f.Gdef.GlyphClass, f.Gdef.MarkAttachClass} {
				if cd == nil {
					continue
				}
				for gid := 0; gid < f.NumGlyphs(); gid++ {
					if _, ok := cd[glyph.ID(gid)]; !ok && rapid.IntRange(0, 2).Draw(t, "zeroEntry") == 0 {
						cd[glyph.ID(gid)] = 0
						explicitZero = true
					}
				}
			}
		}
		// half of the shared fonts are obtained the way applications obtain
		// them, by reading a file: the reader builds its own closures, lazily
		// decoded tables and maps (e.g. the FDSelect function of a CID-keyed
		// font, cmap subtables), which a font value built in memory lacks
		fromFile := false
		if rapid.Bool().Draw(t, "fromFile") {
			var buf bytes.Buffer
			if pn := guard.Try(func() {
				if _, err := f.Write(&buf); err == nil {
					if g, err := sfnt.Read(bytes.NewReader(buf.Bytes())); err == nil {
						f, fromFile = g, true
					}
				}
			}); pn != nil {
				fromFile = false
			}
		}
		// the layout tables as they are before any operation has run (a
		// reflective dump: it does not touch the library's own lazy state)
		layout0 := fontcmp.Dump(f.Gsub) + fontcmp.Dump(f.Gpos) + fontcmp.Dump(f.Gdef)
		ng := rapid.IntRange(2, 16).Draw(t, "goroutines")
		procs := rapid.SampledFrom([]int{2, 4, 16}).Draw(t, "gomaxprocs")
		plans := make([][]op, ng)
		for i := range plans {
			k := rapid.IntRange(3, 12).Draw(t, "nOps")
			for j := 0; j < k; j++ {
				plans[i] = append(plans[i], op{rapid.SampledFrom(opNames).Draw(t, "op"), rapid.IntRange(0, 999).Draw(t, "arg")})
			}
		}
		var hist strings.Builder
		fmt.Fprintf(&hist, "%s\nGOMAXPROCS=%d\n", c, procs)
		for i, p := range plans {
			fmt.Fprintf(&hist, "g%d: %v\n", i, p)
		}
		if dir := os.Getenv("VERIF_REPLAY_OUT"); dir != "" {
			os.MkdirAll(dir, 0o755)
			os.WriteFile(dir+"/inflight-c16-lastcase.txt", []byte(hist.String()), 0o644)
		}

		// sequential reference results, computed on a deep copy of the font
		// (same value, no shared object): what each call returns "alone".
		// State that the library keeps outside the font, keyed by the
		// identity of the font's objects, cannot leak from the reference
		// calls into the concurrent ones or the other way round.
		fref := fontcmp.DeepCopy(f)
		want := make([][]string, ng)
		reference := func() {
			for i, p := range plans {
				for _, o := range p {
					want[i] = append(want[i], run(fref, o))
				}
			}
		}
		var snap bytes.Buffer
		if !cold {
			reference()
			f.Write(&snap)
		}
		glyphNames := func() string {
			var sb strings.Builder
			for gid := 0; gid < f.NumGlyphs(); gid++ {
				sb.WriteString(f.GlyphName(glyph.ID(gid)))
				sb.WriteByte('|')
			}
			return sb.String()
		}
		names0 := ""
		if !cold {
			names0 = glyphNames()
		}

		runtime.GOMAXPROCS(procs)
		got := make([][]string, ng)
		var wg sync.WaitGroup
		start := make(chan struct{})
		for i := range plans {
			wg.Add(1)
			go func(i int) {
				defer wg.Done()
				<-start
				for _, o := range plans[i] {
					got[i] = append(got[i], run(f, o))
				}
			}(i)
		}
		close(start)
		wg.Wait()
		if cold {
			reference()
			f.Write(&snap)
		}

		for i := range plans {
			for j := range plans[i] {
				if got[i][j] != want[i][j] {
					// Is the operation non-deterministic even when run alone?  That
					// is a defect of another property (C15/C20), not of concurrent use.
					// (Only if both results keep occurring when it runs alone: if the
					// sequential result never comes back, the shared font has changed.)
					sawGot, sawWant := false, false
					for k := 0; k < 60 && !(sawGot && sawWant); k++ {
						r := run(f, plans[i][j])
						sawGot = sawGot || r == got[i][j]
						sawWant = sawWant || r == want[i][j]
					}
					if sawGot && sawWant {
						stats.Label(sub, "nondeterministic-alone:"+plans[i][j].Name)
						continue
					}
					t.Fatalf("goroutine %d op %s: concurrent result differs from sequential result\n  concurrent: %.300s\n  sequential: %.300s\n%s", i, plans[i][j], got[i][j], want[i][j], hist.String())
				}
			}
		}
		if d := packageDefaults(); d != packageDefaults0 {
			t.Fatalf("the package-level default feature sets were modified by read-only operations on a font:\n  before: %s\n  after:  %s\n%s", packageDefaults0, d, hist.String())
		}
		if l := fontcmp.Dump(f.Gsub) + fontcmp.Dump(f.Gpos) + fontcmp.Dump(f.Gdef); l != layout0 {
			t.Fatalf("the shared font's layout tables were modified by read-only operations\n%s", hist.String())
		}
		var snap2 bytes.Buffer
		f.Write(&snap2)
		if !bytes.Equal(snap.Bytes(), snap2.Bytes()) {
			t.Fatalf("shared font changed during read-only use (written bytes differ)\n%s", hist.String())
		}
		if n := glyphNames(); !cold && n != names0 {
			t.Fatalf("shared font changed during read-only use (glyph names differ)\n%s", hist.String())
		}
		writers := 0
		for _, p := range plans {
			for _, o := range p {
				if writerOps[o.Name] {
					writers++
					break
				}
			}
		}
		stats.CaseIn(sub, stats.Hash(hist.String()), writers >= 2, func() string { return hist.String() },
			fmt.Sprintf("goroutines-%d", ng), fmt.Sprintf("gomaxprocs-%d", procs), "kind-"+c.Kind.String(), fmt.Sprintf("deep-nesting-%v", deep), fmt.Sprintf("read-from-file-%v", fromFile), fmt.Sprintf("explicit-class-zero-%v", explicitZero && !fromFile))
	})
}
