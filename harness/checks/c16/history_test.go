package c16

import (
	"fmt"
	"strings"
	"testing"

	"pgregory.net/rapid"

	"verif/harness/fontcmp"
	genfont "verif/harness/gen/font"
	"verif/harness/stats"
)

// TestC16Histories is the clause "every call returns exactly what it would
// return alone" without the scheduler: a sequence of operations runs on ONE
// shared font, and each result is compared with the same operation on a
// fresh deep copy of the font (same value, no shared objects, nothing called
// on it before).  Hidden state that survives from one call to the next -
// caches keyed by the font's objects, lazily filled tables, scratch buffers -
// shows here deterministically, whatever the interleaving; with several
// goroutines the same state makes the result depend on the schedule.
func TestC16Histories(t *testing.T) {
	ops := []string{"Write", "Subset", "Subset", "Subset", "WritePDF", "AsCFFWrite", "Layout", "MakeGlyphNames", "MakeGlyphNames", "GlyphNames", "WidthsPDF", "FontBBoxPDF", "ExplainGsub", "Apply"}
	rapid.Check(t, func(t *rapid.T) {
		layout := genfont.LayoutSubset
		if rapid.IntRange(0, 3).Draw(t, "allLayout") == 0 {
			layout = genfont.LayoutAll
		}
		kind := rapid.SampledFrom([]genfont.Kind{genfont.KindCFF, genfont.KindCFF, genfont.KindCID, genfont.KindGlyf}).Draw(t, "kind")
		// a third of the fonts carry glyph names as files can: duplicates,
		// empty and invalid names, glyph 0 not called .notdef
		names := genfont.NamesProper
		if rapid.IntRange(0, 2).Draw(t, "wildNames") == 0 {
			names = genfont.NamesWild
		}
		c := genfont.Gen(genfont.Opts{Kind: kind, MaxGlyphs: rapid.SampledFrom([]int{5, 8, 24}).Draw(t, "maxGlyphs"), MinGlyphs: 2, Layout: layout,
			StemHeavy: rapid.Bool().Draw(t, "stemHeavy"), Names: names, NilMaxp: true}).Draw(t, "font")
		f := c.Font
		if rapid.Bool().Draw(t, "mixPairRecords") && genfont.MixPairRecords(t, f) {
			c.Labels = append(c.Labels, "pair-records-mixed")
		}
		pristine := fontcmp.DeepCopy(f)
		k := rapid.IntRange(2, 8).Draw(t, "nOps")
		var hist strings.Builder
		fmt.Fprintf(&hist, "%s\n", c)
		kinds := map[string]bool{}
		for j := 0; j < k; j++ {
			o := op{rapid.SampledFrom(ops).Draw(t, "op"), rapid.IntRange(0, 999).Draw(t, "arg")}
			fmt.Fprintf(&hist, "  %d: %v\n", j, o)
			kinds[o.Name] = true
			got := run(f, o)
			alone := run(fontcmp.DeepCopy(pristine), o)
			if got != alone {
				// a call whose result varies when it is repeated on fresh copies is
				// not deterministic at all (C15/C20), not history dependent
				varies := false
				for r := 0; r < 40 && !varies; r++ {
					varies = run(fontcmp.DeepCopy(pristine), o) != alone
				}
				if varies {
					stats.Label("histories", "nondeterministic-alone:"+o.Name)
					continue
				}
				t.Fatalf("operation %d (%v) on the shared font returns something else than on a fresh copy of the same font:\n  after the history: %.300s\n  alone:             %.300s\nhistory:\n%s", j, o, got, alone, hist.String())
			}
		}
		if d := packageDefaults(); d != packageDefaults0 {
			t.Fatalf("the package-level default feature sets were modified by read-only operations on a font:\n  before: %s\n  after:  %s\nhistory:\n%s", packageDefaults0, d, hist.String())
		}
		if d := fontcmp.Diff(pristine, f); d != "" {
			t.Fatalf("the shared font was modified by read-only operations: %s\nhistory:\n%s", d, hist.String())
		}
		stats.CaseIn("histories", stats.Hash(hist.String()), kinds["Subset"] && (kinds["Write"] || kinds["WritePDF"] || kinds["AsCFFWrite"]), func() string { return hist.String() },
			"kind-"+c.Kind.String(), fmt.Sprintf("ops-%d", k))
	})
}
