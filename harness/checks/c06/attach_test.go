package c06

import (
	"fmt"
	"testing"

	"pgregory.net/rapid"
	"seehuhn.de/go/postscript/funit"

	"seehuhn.de/go/sfnt/glyph"
	"seehuhn.de/go/sfnt/opentype/anchor"
	"seehuhn.de/go/sfnt/opentype/classdef"
	"seehuhn.de/go/sfnt/opentype/gdef"
	"seehuhn.de/go/sfnt/opentype/gtab"
	"seehuhn.de/go/sfnt/opentype/markarray"

	"verif/harness/gen/lookups"
	"verif/harness/stats"
)

// TestC06Attach is a directed generator for the positioning clause "adds
// exactly the value-record and anchor adjustments" on mark attachment: lookup
// lists made of an optional single adjustment (which may give marks an
// advance or an offset), a mark-to-base and an optional mark-to-mark lookup,
// applied to sequences of the shape base, marks..., mark.  The general
// generator of TestC06Shaping reaches this shape only rarely.
func TestC06Attach(t *testing.T) {
	bases := []glyph.ID{1, 2, 3}
	ligs := []glyph.ID{5}
	marks := []glyph.ID{9, 10, 11, 12, 13, 14} // 9 and 12 are spacing marks in mkSeq
	other := []glyph.ID{20}
	var alphabet []glyph.ID
	alphabet = append(alphabet, bases...)
	alphabet = append(alphabet, ligs...)
	alphabet = append(alphabet, marks...)
	alphabet = append(alphabet, other...)
	gd := &gdef.Table{GlyphClass: classdef.Table{}}
	for _, g := range bases {
		gd.GlyphClass[g] = gdef.GlyphClassBase
	}
	for _, g := range ligs {
		gd.GlyphClass[g] = gdef.GlyphClassLigature
	}
	for _, g := range marks {
		gd.GlyphClass[g] = gdef.GlyphClassMark
	}

	genAnchor := func(t *rapid.T, lab string) anchor.Table {
		return anchor.Table{
			X: funit.Int16(rapid.IntRange(-300, 300).Draw(t, lab+"X")),
			Y: funit.Int16(rapid.IntRange(-300, 300).Draw(t, lab+"Y")),
		}
	}
	subset := func(t *rapid.T, lab string, from []glyph.ID, min int) []glyph.ID {
		var res []glyph.ID
		for _, g := range from {
			if rapid.IntRange(0, 2).Draw(t, lab) != 0 {
				res = append(res, g)
			}
		}
		for len(res) < min {
			res = append(res[:0:0], from[:min]...)
		}
		return res
	}
	markArray := func(t *rapid.T, lab string, mm []glyph.ID, nc int) []markarray.Record {
		res := make([]markarray.Record, len(mm))
		for i := range mm {
			res[i] = markarray.Record{Class: uint16(rapid.IntRange(0, nc-1).Draw(t, lab+"Class")), Table: genAnchor(t, lab)}
		}
		return res
	}
	targetArray := func(t *rapid.T, lab string, n, nc int) [][]anchor.Table {
		res := make([][]anchor.Table, n)
		for i := range res {
			res[i] = make([]anchor.Table, nc)
			for j := range res[i] {
				if rapid.IntRange(0, 5).Draw(t, lab+"Empty") != 0 {
					res[i][j] = genAnchor(t, lab)
				}
			}
		}
		return res
	}

	rapid.Check(t, func(t *rapid.T) {
		c := &listCase{env: &lookups.Env{Alphabet: alphabet, Gdef: gd}, kind: gtab.TypeGpos, gpos: true, res: &lookups.Result{}}
		var labels []string
		if rapid.Bool().Draw(t, "withSingle") {
			// a single adjustment in front: marks may get an advance
			gg := subset(t, "singleCov", alphabet, 1)
			adj := &gtab.GposValueRecord{}
			switch rapid.IntRange(0, 2).Draw(t, "singleKind") {
			case 0:
				adj.XAdvance = funit.Int16(rapid.IntRange(-50, 120).Draw(t, "xAdv"))
			case 1:
				adj.XPlacement = funit.Int16(rapid.IntRange(-50, 50).Draw(t, "xPl"))
				adj.YPlacement = funit.Int16(rapid.IntRange(-50, 50).Draw(t, "yPl"))
			default:
				adj.XAdvance = funit.Int16(rapid.IntRange(-50, 120).Draw(t, "xAdv"))
				adj.XPlacement = funit.Int16(rapid.IntRange(-50, 50).Draw(t, "xPl"))
			}
			c.res.List = append(c.res.List, &gtab.LookupTable{
				Meta:      &gtab.LookupMetaInfo{LookupType: 1},
				Subtables: []gtab.Subtable{&gtab.Gpos1_1{Cov: lookups.CovTable(gg), Adjust: adj}},
			})
			labels = append(labels, "single-first")
		}
		nc := rapid.IntRange(1, 3).Draw(t, "markClasses")
		mm := subset(t, "markCov", marks, 1)
		bb := subset(t, "baseCov", append(append([]glyph.ID(nil), bases...), ligs...), 1)
		c.res.List = append(c.res.List, &gtab.LookupTable{
			Meta: &gtab.LookupMetaInfo{LookupType: 4},
			Subtables: []gtab.Subtable{&gtab.Gpos4_1{
				MarkCov: lookups.CovTable(mm), BaseCov: lookups.CovTable(bb),
				MarkArray: markArray(t, "m2b", mm, nc), BaseArray: targetArray(t, "m2b", len(bb), nc),
			}},
		})
		if rapid.Bool().Draw(t, "withMarkToMark") {
			nc2 := rapid.IntRange(1, 2).Draw(t, "mark2Classes")
			m1 := subset(t, "mark1Cov", marks, 1)
			m2 := subset(t, "mark2Cov", marks, 1)
			c.res.List = append(c.res.List, &gtab.LookupTable{
				Meta: &gtab.LookupMetaInfo{LookupType: 6},
				Subtables: []gtab.Subtable{&gtab.Gpos6_1{
					Mark1Cov: lookups.CovTable(m1), Mark2Cov: lookups.CovTable(m2),
					Mark1Array: markArray(t, "m2m", m1, nc2), Mark2Array: targetArray(t, "m2m", len(m2), nc2),
				}},
			})
			labels = append(labels, "mark-to-mark")
		}
		for i := range c.res.List {
			c.order = append(c.order, gtab.LookupIndex(i))
		}

		between := 0
		for i := 0; i < 40; i++ {
			// base, 0-3 marks in between, the attaching mark, sometimes a tail
			var gids []glyph.ID
			if rapid.IntRange(0, 5).Draw(t, "lead") == 0 {
				gids = append(gids, rapid.SampledFrom(alphabet).Draw(t, "g"))
			}
			gids = append(gids, rapid.SampledFrom(bb).Draw(t, "base"))
			k := rapid.IntRange(0, 3).Draw(t, "between")
			for j := 0; j < k; j++ {
				gids = append(gids, rapid.SampledFrom(marks).Draw(t, "mid"))
			}
			gids = append(gids, rapid.SampledFrom(mm).Draw(t, "mark"))
			for j := rapid.IntRange(0, 2).Draw(t, "tail"); j > 0; j-- {
				gids = append(gids, rapid.SampledFrom(alphabet).Draw(t, "g"))
			}
			before := c.fired
			if err := c.compare(gids); err != nil {
				t.Fatalf("%v\n%s", err, c)
			}
			if k > 0 && c.fired > before {
				between++
			}
		}
		if between > 0 {
			labels = append(labels, "attached-across-marks")
		}
		stats.LabelN("attach", "applications", c.applied)
		stats.LabelN("attach", "applications-undefined", c.undef)
		stats.LabelN("attach", "applications-rule-fired", c.fired)
		stats.CaseIn("attach", stats.Hash(c.String()), between > 0, func() string { return c.String() }, labels...)
	})
}

var _ = fmt.Sprint
