package c06

import (
	"fmt"
	"strings"
	"testing"
	"time"

	"pgregory.net/rapid"

	"seehuhn.de/go/postscript/funit"
	"seehuhn.de/go/sfnt/glyph"
	"seehuhn.de/go/sfnt/opentype/coverage"
	"seehuhn.de/go/sfnt/opentype/gdef"
	"seehuhn.de/go/sfnt/opentype/gtab"
	"verif/harness/fontcmp"
	"verif/harness/gen/lookups"
	"verif/harness/guard"
	"verif/harness/ref/refshape"
	"verif/harness/stats"
)

// formats the property names
var (
	gsubAllow = []lookups.Format{11, 12, 21, 31, 41, 51, 52, 53, 61, 62, 63, 81}
	gposAllow = []lookups.Format{11, 12, 21, 22, 41, 61, 71, 72, 73, 81, 82, 83}
)

func render(seq []glyph.Info) string {
	var sb strings.Builder
	for _, g := range seq {
		fmt.Fprintf(&sb, "[%d %q %d,%d %d]", g.GID, string(g.Text), g.XOffset, g.YOffset, g.Advance)
	}
	return sb.String()
}

func mkSeq(gids []glyph.ID, gd *gdef.Table, gpos bool) []glyph.Info {
	seq := make([]glyph.Info, len(gids))
	for i, g := range gids {
		seq[i] = glyph.Info{GID: g, Text: []rune{rune(0x100 + i)}}
		if gpos && gd.GlyphClass[g] != gdef.GlyphClassMark {
			seq[i].Advance = funit.Int16(200 + 37*(int(g)%11))
		} else if gpos && g%3 == 0 {
			// a spacing mark: attachment offsets must account for the
			// advances of everything between the base and the mark
			seq[i].Advance = funit.Int16(30 + 7*(int(g)%5))
		}
	}
	return seq
}

// shareText rewrites the Text fields as adjacent windows into one rune
// array, the way a caller that decodes a whole string produces them: each
// window then has spare capacity reaching into its neighbours' text.
func shareText(seq []glyph.Info) []glyph.Info {
	var all []rune
	for _, g := range seq {
		all = append(all, g.Text...)
	}
	pos := 0
	for i := range seq {
		n := len(seq[i].Text)
		seq[i].Text = all[pos : pos+n]
		pos += n
	}
	return seq
}

type listCase struct {
	env     *lookups.Env
	res     *lookups.Result
	kind    gtab.Type
	order   []gtab.LookupIndex
	gpos    bool
	applied int64
	undef   int64
	nontriv int64
	fired   int64
	known   int64
	ctx     *gtab.Context

	correlated bool
	nesting    bool
}

const knownGsub8 = "gsub8-forward-order"

func (c *listCase) String() string {
	var sb strings.Builder
	fmt.Fprintf(&sb, "kind=%v order=%v alphabet=%v\ngdef=%s\n", c.kind, c.order, c.env.Alphabet, fontcmp.Dump(c.env.Gdef))
	for i, l := range c.res.List {
		fmt.Fprintf(&sb, "lookup %d: type=%d flags=%#x markset=%d\n", i, l.Meta.LookupType, uint16(l.Meta.LookupFlags), l.Meta.MarkFilteringSet)
		for j, st := range l.Subtables {
			fmt.Fprintf(&sb, "   subtable %d: %T %s\n", j, st, fontcmp.Dump(st))
		}
	}
	return sb.String()
}

// compare runs both implementations on one sequence.
func (c *listCase) compare(gids []glyph.ID) error {
	in := mkSeq(gids, c.env.Gdef, c.gpos)
	if len(gids)%2 == 0 {
		// every other length: Text windows into a shared array (see C06's
		// "attached text": a ligature must not write into its neighbours)
		in = shareText(in)
		stats.Label("shaping", "shared-text-array")
	}
	model := refshape.Apply(c.res.List, c.env.Gdef, c.order, mkSeq(gids, c.env.Gdef, c.gpos))
	c.applied++
	if len(model.Undefined) > 0 {
		c.undef++
		for _, u := range model.Undefined {
			stats.Label("shaping", "undefined: "+u)
		}
		return nil
	}
	var got []glyph.Info
	var pn *guard.Panic
	// termination is part of "equals the reference": a call that does not
	// return within the (generous) limit ends the process with the hang
	// marker, and the driver re-runs the generation sequence before reporting
	guard.Watch("c06-apply", []byte(fmt.Sprint(gids)), 60*time.Second, func() {
		pn = guard.Try(func() {
			// one Context serves all sequences of a lookup list (Contexts are
			// documented as reusable); every result must still equal the model
			if c.ctx == nil {
				c.ctx = gtab.NewContext(c.res.List, c.env.Gdef, c.order)
			}
			got = append([]glyph.Info(nil), c.ctx.Apply(in)...)
		})
	})
	if pn != nil {
		return fmt.Errorf("Apply panicked on %v: %s", gids, pn)
	}
	if w, g := render(model.Seq), render(got); w != g {
		if model.DirectionDependent {
			alt := refshape.ApplyOpts(c.res.List, c.env.Gdef, c.order, mkSeq(gids, c.env.Gdef, c.gpos), refshape.Options{Gsub8Forward: true})
			if len(alt.Undefined) == 0 && render(alt.Seq) == g && stats.Known("C06", knownGsub8) {
				c.known++
				return nil
			}
		}
		return fmt.Errorf("sequence %v:\n  library:   %s\n  reference: %s", gids, g, w)
	}
	if model.Fired > 0 {
		c.fired++
		if model.SkippedInMatch || model.NestedAfterLen {
			c.nontriv++
		}
	}
	return nil
}

func genListCase(t *rapid.T) *listCase {
	c := &listCase{}
	c.env = lookups.GenEnv(rapid.IntRange(0, 4).Draw(t, "wide") == 0).Draw(t, "env")
	c.kind = gtab.TypeGsub
	allow := gsubAllow
	if rapid.IntRange(0, 2).Draw(t, "gpos") == 0 {
		c.kind = gtab.TypeGpos
		allow = gposAllow
		c.gpos = true
	}
	minLookups := 1
	if !c.gpos && rapid.IntRange(0, 2).Draw(t, "nestingProfile") == 0 {
		// dense nesting: only contexts and the length-changing types, so that
		// contexts calling contexts calling expansions/ligatures are common
		allow = []lookups.Format{21, 41, 51, 52, 53, 61, 62, 63}
		minLookups = 3
		c.nesting = true
	}
	c.res = lookups.GenLookups(c.env, lookups.Options{Kind: c.kind, Mode: lookups.Defined, MinLookups: minLookups, MaxLookups: 6, Allow: allow}).Draw(t, "lookups")
	if rapid.IntRange(0, 1).Draw(t, "correlateFlags") == 0 && len(c.res.List) >= 2 {
		// several lookups with bit-identical flag words but different mark
		// filtering sets (nested lookups must not inherit the parent's filter)
		src := c.res.List[rapid.IntRange(0, len(c.res.List)-1).Draw(t, "flagSrc")].Meta
		fl := src.LookupFlags
		nsets := len(c.env.Gdef.MarkGlyphSets)
		if nsets >= 2 && rapid.Bool().Draw(t, "forceMarkSet") {
			fl = fl&^(gtab.IgnoreMarks) | gtab.UseMarkFilteringSet
		}
		for _, l := range c.res.List {
			if t := l.Meta.LookupType; c.kind == gtab.TypeGpos && (t == 4 || t == 6) {
				continue
			}
			if rapid.Bool().Draw(t, "copyFlags") {
				l.Meta = &gtab.LookupMetaInfo{LookupType: l.Meta.LookupType, LookupFlags: fl, MarkFilteringSet: l.Meta.MarkFilteringSet}
				if fl&gtab.UseMarkFilteringSet != 0 && nsets > 0 {
					l.Meta.MarkFilteringSet = uint16(rapid.IntRange(0, nsets-1).Draw(t, "markSet"))
				}
			}
		}
		c.correlated = true
	}
	n := len(c.res.List)
	idx := make([]int, n)
	for i := range idx {
		idx[i] = i
	}
	switch rapid.IntRange(0, 2).Draw(t, "orderKind") {
	case 0: // list order, all lookups
	case 1:
		idx = rapid.Permutation(idx).Draw(t, "perm")
	default:
		idx = rapid.Permutation(idx).Draw(t, "perm")
		idx = idx[:rapid.IntRange(1, n).Draw(t, "k")]
	}
	for _, i := range idx {
		c.order = append(c.order, gtab.LookupIndex(i))
	}
	return c
}

func TestC06Shaping(t *testing.T) {
	rapid.Check(t, func(t *rapid.T) {
		c := genListCase(t)
		// exhaustive: all sequences up to length 6 over 3 glyphs (or 5 over 4)
		k := rapid.IntRange(3, 4).Draw(t, "alphabetSize")
		sub := make([]glyph.ID, 0, k)
		perm := rapid.Permutation(append([]glyph.ID(nil), c.env.Alphabet...)).Draw(t, "alphaPerm")
		if c.correlated {
			// prefer glyphs that the mark filtering sets treat differently
			var disc []glyph.ID
			for _, g := range c.env.Alphabet {
				in := 0
				for _, set := range c.env.Gdef.MarkGlyphSets {
					if set[g] {
						in++
					}
				}
				if c.env.Gdef.GlyphClass[g] == gdef.GlyphClassMark && in > 0 && in < len(c.env.Gdef.MarkGlyphSets) {
					disc = append(disc, g)
				}
			}
			if len(disc) > 0 {
				d := rapid.SampledFrom(disc).Draw(t, "discMark")
				for i, g := range perm {
					if g == d {
						perm[0], perm[i] = perm[i], perm[0]
					}
				}
			}
		}
		sub = append(sub, perm[:k]...)
		maxLen := 6
		if k == 4 {
			maxLen = 5
		}
		var rec func(prefix []glyph.ID) error
		rec = func(prefix []glyph.ID) error {
			if err := c.compare(prefix); err != nil {
				return err
			}
			if len(prefix) == maxLen {
				return nil
			}
			for _, g := range sub {
				if err := rec(append(prefix[:len(prefix):len(prefix)], g)); err != nil {
					return err
				}
			}
			return nil
		}
		if err := rec(nil); err != nil {
			t.Fatalf("%v\n%s", err, c)
		}
		// drawn longer sequences over the whole alphabet
		for i := 0; i < 20; i++ {
			l := rapid.IntRange(7, 40).Draw(t, "len")
			gids := make([]glyph.ID, l)
			for j := range gids {
				gids[j] = rapid.SampledFrom(c.env.Alphabet).Draw(t, "g")
			}
			if err := c.compare(gids); err != nil {
				t.Fatalf("%v\n%s", err, c)
			}
		}
		stats.LabelN("shaping", "applications", c.applied)
		stats.LabelN("shaping", "applications-undefined", c.undef)
		stats.LabelN("shaping", "applications-rule-fired", c.fired)
		stats.LabelN("shaping", "applications-nontrivial", c.nontriv)
		stats.LabelN("shaping", "applications-known-gsub8-order", c.known)
		labels := append([]string{fmt.Sprintf("kind-%v", c.kind)}, c.res.Classes...)
		if c.correlated {
			labels = append(labels, "flags-correlated")
		}
		if c.nesting {
			labels = append(labels, "profile-dense-nesting")
		}
		stats.CaseIn("shaping", stats.Hash(c.String(), fmt.Sprint(sub)), c.nontriv > 0, func() string { return c.String() }, labels...)
	})
}

// TestC06KnownGsub8 is the committed minimal reproducer of the known finding
// gsub8-forward-order: reverse chaining single substitution must be applied
// from the end of the glyph sequence to its start.
func TestC06KnownGsub8(t *testing.T) {
	// "B" -> "A" if followed by "A": on B B A the specification (end to start)
	// gives A A A, forward processing gives B A A.
	const A, B = glyph.ID(1), glyph.ID(2)
	ll := gtab.LookupList{{
		Meta: &gtab.LookupMetaInfo{LookupType: 8},
		Subtables: []gtab.Subtable{&gtab.Gsub8_1{
			Input:              lookups.CovTable([]glyph.ID{B}),
			Lookahead:          []coverage.Table{lookups.CovTable([]glyph.ID{A})},
			SubstituteGlyphIDs: []glyph.ID{A},
		}},
	}}
	in := func() []glyph.Info {
		return []glyph.Info{{GID: B, Text: []rune("x")}, {GID: B, Text: []rune("y")}, {GID: A, Text: []rune("z")}}
	}
	want := refshape.Apply(ll, nil, []gtab.LookupIndex{0}, in())
	if !want.DirectionDependent || want.Seq[0].GID != A {
		t.Fatalf("reference model: %s", render(want.Seq))
	}
	got := gtab.NewContext(ll, nil, []gtab.LookupIndex{0}).Apply(in())
	if render(got) != render(want.Seq) {
		if stats.Known("C06", knownGsub8) {
			t.Logf("known finding still present: library %s, specification %s", render(got), render(want.Seq))
			return
		}
		t.Fatalf("GSUB type 8 is not applied end-to-start: library %s, specification %s", render(got), render(want.Seq))
	}
}
