// C06: lookup application vs. the reference shaper.
package c06

import (
	"fmt"
	"strings"
	"testing"

	"golang.org/x/text/language"

	"seehuhn.de/go/sfnt/glyph"
	"seehuhn.de/go/sfnt/opentype/gtab"
	"seehuhn.de/go/sfnt/opentype/gtab/testcases"
	"verif/harness/ref/refshape"
	"verif/harness/stats"
)

func TestMain(m *testing.M) { stats.MainExit(m) }

// TestC06ModelPinned validates the reference model on the repository's own
// pinned cases: sections 1-3 and 5 must be reproduced in the defined region;
// section 4 (documented as unspecified) must be flagged undefined or agree.
func TestC06ModelPinned(t *testing.T) {
	fg, err := testcases.NewFontGen()
	if err != nil {
		t.Fatal(err)
	}
	undefined := 0
	for idx, tc := range testcases.Gsub {
		info, err := fg.GsubTestFont(idx)
		if err != nil {
			t.Fatalf("%s: %v", tc.Name, err)
		}
		var seq []glyph.Info
		for _, r := range tc.In {
			seq = append(seq, glyph.Info{GID: fg.CMap.Lookup(r), Text: []rune{r}})
		}
		lookups := info.Gsub.FindLookups(language.AmericanEnglish, nil)
		res := refshape.Apply(info.Gsub.LookupList, info.Gdef, lookups, seq)
		var out, text strings.Builder
		for _, g := range res.Seq {
			out.WriteRune(fg.Rev[g.GID])
			text.WriteString(string(g.Text))
		}
		wantText := tc.Text
		if wantText == "" {
			wantText = tc.In
		}
		section := tc.Name[:1]
		agree := out.String() == tc.Out && text.String() == wantText
		switch {
		case len(res.Undefined) > 0:
			undefined++
			if section != "4" {
				t.Errorf("%s (%q on %q): model calls the pinned case undefined: %v", tc.Name, tc.Desc, tc.In, res.Undefined)
			}
		case !agree:
			t.Errorf("%s (%q on %q): model gives %q / text %q, pinned %q / %q", tc.Name, tc.Desc, tc.In, out.String(), text.String(), tc.Out, wantText)
		}
		stats.CaseIn("pinned", stats.Hash(tc.Name), true, func() string {
			return fmt.Sprintf("%s: %q on %q -> %q", tc.Name, strings.Join(strings.Fields(tc.Desc), " "), tc.In, out.String())
		}, "section-"+section)
	}
	t.Logf("%d pinned cases, %d flagged undefined", len(testcases.Gsub), undefined)
}

var _ = gtab.TypeGsub
