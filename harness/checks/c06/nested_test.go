package c06

import (
	"fmt"
	"testing"

	"pgregory.net/rapid"

	"seehuhn.de/go/sfnt/glyph"
	"seehuhn.de/go/sfnt/opentype/classdef"
	"seehuhn.de/go/sfnt/opentype/coverage"
	"seehuhn.de/go/sfnt/opentype/gdef"
	"seehuhn.de/go/sfnt/opentype/gtab"
	"verif/harness/gen/lookups"
	"verif/harness/stats"
)

// TestC06Nested concentrates on what the general generator reaches rarely:
// contexts whose actions call further contexts, which in turn expand, merge
// and substitute glyphs that belong to both input sequences, followed by
// more actions on later positions - all on one reused Context.
func TestC06Nested(t *testing.T) {
	rapid.Check(t, func(t *rapid.T) {
		// alphabet: glyphs 1..5, glyph 5 is a mark
		alpha := []glyph.ID{1, 2, 3, 4, 5}
		gd := &gdef.Table{GlyphClass: classdef.Table{5: gdef.GlyphClassMark}}
		g := func(label string) glyph.ID { return rapid.SampledFrom(alpha[:4]).Draw(t, label) }
		flags := func(label string) gtab.LookupFlags {
			return rapid.SampledFrom([]gtab.LookupFlags{0, 0, 0, gtab.IgnoreMarks}).Draw(t, label)
		}
		nCtx := rapid.IntRange(2, 3).Draw(t, "nContexts")
		const nLeaf = 3
		total := nCtx + nLeaf
		var ll gtab.LookupList
		// contexts 0..nCtx-1: actions refer to strictly later lookups
		for i := 0; i < nCtx; i++ {
			first := g("ctxFirst")
			nIn := rapid.IntRange(0, 2).Draw(t, "ctxInputLen")
			input := make([]glyph.ID, nIn)
			for k := range input {
				input[k] = g("ctxInput")
			}
			nAct := rapid.IntRange(1, 4).Draw(t, "nActions")
			var actions []gtab.SeqLookup
			for k := 0; k < nAct; k++ {
				actions = append(actions, gtab.SeqLookup{
					SequenceIndex:   uint16(rapid.IntRange(0, nIn).Draw(t, "seqIdx")),
					LookupListIndex: gtab.LookupIndex(rapid.IntRange(i+1, total-1).Draw(t, "actLookup")),
				})
			}
			var st gtab.Subtable
			switch rapid.IntRange(0, 2).Draw(t, "ctxFormat") {
			case 0:
				st = &gtab.SeqContext1{Cov: lookups.CovTable([]glyph.ID{first}), Rules: [][]*gtab.SeqRule{{{Input: input, Actions: actions}}}}
			case 1:
				sets := []coverage.Set{{first: true}}
				for _, x := range input {
					sets = append(sets, coverage.Set{x: true})
				}
				st = &gtab.SeqContext3{Input: sets, Actions: actions}
			default:
				sets := []coverage.Set{{first: true}}
				for _, x := range input {
					sets = append(sets, coverage.Set{x: true})
				}
				st = &gtab.ChainedSeqContext3{Input: sets, Actions: actions}
			}
			ll = append(ll, &gtab.LookupTable{Meta: &gtab.LookupMetaInfo{LookupType: 5, LookupFlags: flags("ctxFlags")}, Subtables: []gtab.Subtable{st}})
		}
		// leaves: an expansion, a single substitution, a ligature
		expFrom := g("expFrom")
		nExp := rapid.IntRange(2, 3).Draw(t, "expLen")
		exp := make([]glyph.ID, nExp)
		for k := range exp {
			exp[k] = rapid.SampledFrom(alpha).Draw(t, "expGlyph")
		}
		ll = append(ll, &gtab.LookupTable{Meta: &gtab.LookupMetaInfo{LookupType: 2, LookupFlags: flags("expFlags")},
			Subtables: []gtab.Subtable{&gtab.Gsub2_1{Cov: lookups.CovTable([]glyph.ID{expFrom}), Repl: [][]glyph.ID{exp}}}})
		sFrom, sTo := g("subFrom"), g("subTo")
		ll = append(ll, &gtab.LookupTable{Meta: &gtab.LookupMetaInfo{LookupType: 1, LookupFlags: flags("subFlags")},
			Subtables: []gtab.Subtable{&gtab.Gsub1_2{Cov: lookups.CovTable([]glyph.ID{sFrom}), SubstituteGlyphIDs: []glyph.ID{sTo}}}})
		lFirst := g("ligFirst")
		nLig := rapid.IntRange(1, 2).Draw(t, "ligLen")
		ligIn := make([]glyph.ID, nLig)
		for k := range ligIn {
			ligIn[k] = g("ligIn")
		}
		ll = append(ll, &gtab.LookupTable{Meta: &gtab.LookupMetaInfo{LookupType: 4, LookupFlags: flags("ligFlags")},
			Subtables: []gtab.Subtable{&gtab.Gsub4_1{Cov: lookups.CovTable([]glyph.ID{lFirst}), Repl: [][]gtab.Ligature{{{In: ligIn, Out: g("ligOut")}}}}}})

		runNested(t, ll, gd, alpha, nCtx, "nested", nil)
	})
}

// TestC06NestedCoherent is TestC06Nested over the shared nested-list
// generator: a smaller alphabet with two marks in different mark glyph sets,
// flags that include both mark filtering sets, and actions that prefer a
// lookup fitting the glyph they are applied to, so that a contextual child
// of a contextual rule matches (and rewrites shared state) far more often.
func TestC06NestedCoherent(t *testing.T) {
	rapid.Check(t, func(t *rapid.T) {
		n := lookups.GenNested(t, lookups.NestedOptions{})
		if n.Focus {
			stats.Label("nested-coherent", "lookahead-focus")
		}
		if n.MergeFocus {
			stats.Label("nested-coherent", "merge-focus")
		}
		runNested(t, n.List, n.Gdef, n.Alphabet, n.NumCtx, "nested-coherent", n.Patterns)
	})
}

func runNested(t *rapid.T, ll gtab.LookupList, gd *gdef.Table, alpha []glyph.ID, nCtx int, sub string, patterns [][]glyph.ID) {
	{
		c := &listCase{
			env:  &lookups.Env{Alphabet: alpha, Gdef: gd},
			res:  &lookups.Result{List: ll},
			kind: gtab.TypeGsub,
		}
		// apply the outermost context only, or all lookups in order
		if rapid.Bool().Draw(t, "onlyOuter") {
			c.order = []gtab.LookupIndex{0}
		} else {
			for i := range ll {
				c.order = append(c.order, gtab.LookupIndex(i))
			}
		}
		var rec func(prefix []glyph.ID) error
		rec = func(prefix []glyph.ID) error {
			if err := c.compare(prefix); err != nil {
				return err
			}
			if len(prefix) == 4 {
				return nil
			}
			for _, x := range alpha {
				if err := rec(append(prefix[:len(prefix):len(prefix)], x)); err != nil {
					return err
				}
			}
			return nil
		}
		if err := rec(nil); err != nil {
			t.Fatalf("%v\n%s", err, c)
		}
		// longer texts: the patterns of the rules (backtrack, input,
		// lookahead; ligature components) strung together, with marks and
		// other glyphs drawn into the gaps
		for i := 0; i < 24 && len(patterns) > 0; i++ {
			var text []glyph.ID
			for k := rapid.IntRange(1, 3).Draw(t, "nPieces"); k > 0 && len(text) < 9; k-- {
				if rapid.IntRange(0, 4).Draw(t, "piece") == 0 {
					text = append(text, rapid.SampledFrom(alpha).Draw(t, "filler"))
					continue
				}
				for _, x := range rapid.SampledFrom(patterns).Draw(t, "pattern") {
					if rapid.IntRange(0, 3).Draw(t, "gap") == 0 {
						text = append(text, rapid.SampledFrom(alpha).Draw(t, "gapGlyph"))
					}
					text = append(text, x)
				}
			}
			if len(text) <= 4 {
				continue // covered by the enumeration above
			}
			stats.Label(sub, fmt.Sprintf("pattern-text-length-%d", min(len(text), 9)))
			if err := c.compare(text); err != nil {
				t.Fatalf("%v\n%s", err, c)
			}
		}
		stats.LabelN(sub, "applications", c.applied)
		stats.LabelN(sub, "applications-undefined", c.undef)
		stats.LabelN(sub, "applications-rule-fired", c.fired)
		stats.LabelN(sub, "applications-nontrivial", c.nontriv)
		stats.CaseIn(sub, stats.Hash(c.String()), c.nontriv > 0, func() string { return c.String() }, fmt.Sprintf("contexts-%d", nCtx))
	}
}

// TestC06RegressNestedLookaheadAcrossWindow: a format 3 chaining context run
// as a nested lookup with IgnoreMarks; a mark stands between the end of the
// parent's one-glyph window and the lookahead glyph.
func TestC06RegressNestedLookaheadAcrossWindow(t *testing.T) {
	gd := &gdef.Table{GlyphClass: classdef.Table{5: gdef.GlyphClassMark}}
	ll := gtab.LookupList{
		{Meta: &gtab.LookupMetaInfo{LookupType: 5}, Subtables: []gtab.Subtable{
			&gtab.SeqContext1{Cov: lookups.CovTable([]glyph.ID{2}), Rules: [][]*gtab.SeqRule{{{Actions: []gtab.SeqLookup{{SequenceIndex: 0, LookupListIndex: 1}}}}}}}},
		{Meta: &gtab.LookupMetaInfo{LookupType: 6, LookupFlags: gtab.IgnoreMarks}, Subtables: []gtab.Subtable{
			&gtab.ChainedSeqContext3{Input: []coverage.Set{{2: true}}, Lookahead: []coverage.Set{{2: true}}, Actions: []gtab.SeqLookup{{SequenceIndex: 0, LookupListIndex: 2}}}}},
		{Meta: &gtab.LookupMetaInfo{LookupType: 1}, Subtables: []gtab.Subtable{
			&gtab.Gsub1_2{Cov: lookups.CovTable([]glyph.ID{2}), SubstituteGlyphIDs: []glyph.ID{3}}}},
	}
	c := &listCase{env: &lookups.Env{Alphabet: []glyph.ID{2, 3, 5}, Gdef: gd}, res: &lookups.Result{List: ll}, kind: gtab.TypeGsub, order: []gtab.LookupIndex{0}}
	for _, seq := range [][]glyph.ID{{2, 5, 2}, {2, 5, 5, 2, 2}, {2, 2}, {2, 5}} {
		if err := c.compare(seq); err != nil {
			t.Fatalf("%v\n%s", err, c)
		}
	}
	stats.CaseIn("regress", 0xC06C, true, func() string { return "nested format 3 chaining context, ignored glyph between window and lookahead" })
}
