package c13

import (
	"encoding/json"
	"fmt"
	"math"
	"sort"
	"strings"

	"seehuhn.de/go/geom/matrix"
	"seehuhn.de/go/postscript/cid"
	"seehuhn.de/go/postscript/funit"
	"seehuhn.de/go/postscript/type1"
	"seehuhn.de/go/sfnt/cff"
	"seehuhn.de/go/sfnt/glyph"

	ref "verif/harness/ref/refcffwalk"
)

// fontSpec is the complete, serialisable description of one generated
// font.  Scalar fields are drawn directly by rapid; per-glyph data (names,
// widths, CIDs, FDSelect, codes, paths) is derived deterministically from a
// drawn mode and a drawn 64-bit seed, so that a 65 535-glyph font is
// described by a few numbers and every case can be replayed from its JSON.
type fontSpec struct {
	N   int  // number of glyphs
	CID bool // CID-keyed

	FontName, Version, Notice, Copyright, FullName, FamilyName, Weight string
	NoticeRepeat                                                       int // Notice is repeated this many times (large String INDEX)

	IsFixedPitch                          bool
	ItalicAngle                           float64
	UnderlinePosition, UnderlineThickness float64
	FontMatrix                            [6]float64

	// name-keyed fonts
	NameMode int
	NameSeed uint64
	EncMode  int
	EncSeed  uint64
	EncCount int // glyphs 1..EncCount have a code (custom modes)
	EncSupps int // additional codes for already encoded glyphs

	// CID-keyed fonts
	Registry, Ordering string
	Supplement         int32
	CIDMode            int
	CIDSeed            uint64
	FDMode             int
	FDSeed             uint64
	FDRuns             int
	FontMatrices       [][6]float64

	Privs []privSpec

	WidthMode int
	WidthSeed uint64
	WidthBase float64
	PathSeed  uint64
	PathPct   int
}

type privSpec struct {
	BlueValues, OtherBlues []int16
	BlueScale              float64
	BlueShift, BlueFuzz    int32
	StdHW, StdVW           float64
	ForceBold              bool
}

func (s *fontSpec) JSON() string {
	b, err := json.Marshal(s)
	if err != nil {
		return fmt.Sprintf("%+v (json: %v)", *s, err)
	}
	return string(b)
}

// splitmix64: a fixed mixing function that expands a rapid-drawn seed.
type sm struct{ s uint64 }

func (r *sm) next() uint64 {
	r.s += 0x9e3779b97f4a7c15
	z := r.s
	z = (z ^ (z >> 30)) * 0xbf58476d1ce4e5b9
	z = (z ^ (z >> 27)) * 0x94d049bb133111eb
	return z ^ (z >> 31)
}

func (r *sm) intn(n int) int {
	if n <= 1 {
		return 0
	}
	return int(r.next() % uint64(n))
}

// expanded holds the per-glyph data derived from a spec.
type expanded struct {
	names  []string // name-keyed
	enc    []int    // name-keyed: nil or 256 entries
	cids   []int    // CID
	fdsel  []int    // CID
	widths []float64
	paths  [][][2]float64
	notice string
}

const (
	nameStdShuffled = iota
	namePredef0
	namePredef1
	namePredef2
	nameStdRuns
	nameCustom
	nameMixed
	nameStdEndsFixed
	numNameModes
)

var weirdNames = []string{
	"a.b_c", "uni0041", "u1F600", "A.sc", "f_f_i", "x-y", "Ünï", "字", "$", "(", "a/b", "#1", "~", "{}", "%",
	strings.Repeat("long", 30), "cid00001", ".null", "space.alt", "Bold", "001.000",
}

func (s *fontSpec) expandNames() []string {
	n := s.N
	r := &sm{s.NameSeed}
	used := map[string]bool{".notdef": true}
	names := make([]string, 1, n)
	names[0] = ".notdef"
	custom := func(i int) string {
		pre := []string{"g", "glyph", "uni", "c", "x.", "G_"}[r.intn(6)]
		return fmt.Sprintf("%s%d", pre, i)
	}
	add := func(nm string) bool {
		if used[nm] || len(names) >= n {
			return false
		}
		used[nm] = true
		names = append(names, nm)
		return true
	}
	fill := func() {
		for i := len(names); len(names) < n; i++ {
			add(custom(i))
		}
	}
	switch s.NameMode {
	case nameStdShuffled:
		perm := make([]int, 390)
		for i := range perm {
			perm[i] = i + 1
		}
		for i := len(perm) - 1; i > 0; i-- {
			j := r.intn(i + 1)
			perm[i], perm[j] = perm[j], perm[i]
		}
		for _, sid := range perm {
			add(ref.StdStrings[sid])
		}
	case namePredef0, namePredef1, namePredef2:
		tab := [][]string{ref.ISOAdobeCharset, ref.ExpertCharset, ref.ExpertSubsetCharset}[s.NameMode-namePredef0]
		for _, nm := range tab[1:] {
			add(nm)
		}
	case nameStdRuns:
		for try := 0; try < 60 && len(names) < n; try++ {
			start := 1 + r.intn(390)
			l := 1 + r.intn(40)
			for k := 0; k < l && start+k <= 390; k++ {
				add(ref.StdStrings[start+k])
			}
			if r.intn(4) == 0 {
				add(custom(len(names)))
			}
		}
	case nameStdEndsFixed:
		// SIDs 1..m in glyph order with the middle permuted: the list starts
		// and ends like the identity without being it
		m := n - 1
		if m > 390 {
			m = 390
		}
		perm := make([]int, m)
		for i := range perm {
			perm[i] = i + 1
		}
		for i := m - 2; i > 1; i-- {
			j := 1 + r.intn(i)
			perm[i], perm[j] = perm[j], perm[i]
		}
		for _, sid := range perm {
			add(ref.StdStrings[sid])
		}
	case nameCustom:
	case nameMixed:
		for i := 1; i < n; i++ {
			switch r.intn(10) {
			case 0, 1, 2:
				add(ref.StdStrings[1+r.intn(390)])
			case 3:
				add(weirdNames[r.intn(len(weirdNames))])
			default:
				add(custom(i))
			}
		}
	}
	fill()
	return names
}

const (
	encNil = iota
	encStandard
	encExpert
	encBlock
	encSorted
	encShuffled
	encRuns
	encBlocks
	numEncModes
)

func (s *fontSpec) expandEncoding(names []string) []int {
	switch s.EncMode {
	case encNil:
		return nil
	case encStandard, encExpert:
		v := ref.PredefinedEncoding(s.EncMode-encStandard, names)
		return v[:]
	}
	r := &sm{s.EncSeed}
	m := s.EncCount
	if m > s.N-1 {
		m = s.N - 1
	}
	if m > 256 {
		m = 256
	}
	mode := s.EncMode
	// m == 256 with every glyph a run of its own fits neither table form
	// (format 0 counts codes in one byte, format 1 holds 255 ranges); it is
	// representable with glyph 256 among the supplemental codes.
	enc := make([]int, 256)
	codes := make([]int, 256)
	for i := range codes {
		codes[i] = i
	}
	switch mode {
	case encBlock:
		start := r.intn(256 - m + 1)
		// codes start..start+m-1 first, the others after them
		sort.SliceStable(codes, func(i, j int) bool {
			a := codes[i] >= start && codes[i] < start+m
			b := codes[j] >= start && codes[j] < start+m
			return a && !b
		})
	default:
		for i := 255; i > 0; i-- {
			j := r.intn(i + 1)
			codes[i], codes[j] = codes[j], codes[i]
		}
		switch mode {
		case encSorted:
			sort.Ints(codes[:m])
		case encBlocks:
			// sorted, cut into a drawn number of blocks (2..m), the blocks
			// shuffled: the number of code ranges in glyph order is anything
			// between 2 and m
			sort.Ints(codes[:m])
			if m >= 2 {
				k := 2 + r.intn(m-1)
				cuts := map[int]bool{}
				for len(cuts) < k-1 {
					cuts[1+r.intn(m-1)] = true
				}
				var blocks [][]int
				start := 0
				for i := 1; i <= m; i++ {
					if i == m || cuts[i] {
						blocks = append(blocks, append([]int(nil), codes[start:i]...))
						start = i
					}
				}
				for i := len(blocks) - 1; i > 0; i-- {
					j := r.intn(i + 1)
					blocks[i], blocks[j] = blocks[j], blocks[i]
				}
				pos := 0
				for _, b := range blocks {
					pos += copy(codes[pos:], b)
				}
			}
		case encRuns:
			// sorted, then the sorted sequence is cut into blocks that are permuted
			sort.Ints(codes[:m])
			if m >= 4 {
				cut := 1 + r.intn(m-1)
				rot := append(append([]int(nil), codes[cut:m]...), codes[:cut]...)
				copy(codes[:m], rot)
			}
		}
	}
	for i := 0; i < m; i++ {
		enc[codes[i]] = i + 1
	}
	k := s.EncSupps
	if k > 256-m {
		k = 256 - m
	}
	if m > 0 {
		for i := 0; i < k; i++ {
			enc[codes[m+i]] = 1 + r.intn(m)
		}
	}
	return enc
}

const (
	cidIdentity = iota
	cidGaps
	cidShuffled
	cidOffset
	cidDescending
	cidEndsFixed
	numCIDModes
)

func (s *fontSpec) expandCIDs() []int {
	n := s.N
	r := &sm{s.CIDSeed}
	cids := make([]int, n)
	switch s.CIDMode {
	case cidIdentity:
		for i := range cids {
			cids[i] = i
		}
	case cidGaps, cidShuffled, cidDescending:
		cur := 0
		for i := 1; i < n; i++ {
			slack := 65535 - cur - (n - i)
			step := 1
			if slack > 0 && r.intn(6) == 0 {
				lim := slack
				switch r.intn(3) {
				case 0:
					if lim > 3 {
						lim = 3
					}
				case 1:
					if lim > 300 {
						lim = 300
					}
				}
				step += r.intn(lim + 1)
			}
			cur += step
			cids[i] = cur
		}
		if s.CIDMode == cidShuffled {
			for i := n - 1; i > 1; i-- {
				j := 1 + r.intn(i)
				cids[i], cids[j] = cids[j], cids[i]
			}
		}
		if s.CIDMode == cidDescending {
			for i, j := 1, n-1; i < j; i, j = i+1, j-1 {
				cids[i], cids[j] = cids[j], cids[i]
			}
		}
	case cidEndsFixed:
		// CIDs 1..n-1 with the middle permuted (or one large value in the
		// middle): first and last entry are those of the identity
		for i := range cids {
			cids[i] = i
		}
		if n >= 5 {
			if r.intn(3) == 0 {
				cids[2+r.intn(n-3)] = n + r.intn(65535-n)
			} else {
				for i := n - 2; i > 2; i-- {
					j := 2 + r.intn(i-1)
					cids[i], cids[j] = cids[j], cids[i]
				}
			}
		}
	case cidOffset:
		base := r.intn(65535 - (n - 1) + 1)
		for i := 1; i < n; i++ {
			cids[i] = base + i
		}
		if base == 0 {
			for i := range cids {
				cids[i] = i
			}
		}
	}
	return cids
}

const (
	fdConst = iota
	fdRuns
	fdRandom
	fdRoundRobin
	fdLastDiffers
	numFDModes
)

func (s *fontSpec) expandFDSelect() []int {
	n, nfd := s.N, len(s.Privs)
	r := &sm{s.FDSeed}
	sel := make([]int, n)
	switch s.FDMode {
	case fdConst:
		c := r.intn(nfd)
		for i := range sel {
			sel[i] = c
		}
	case fdRuns:
		runs := s.FDRuns
		if runs < 1 {
			runs = 1
		}
		cur := r.intn(nfd)
		for i := range sel {
			if i > 0 && r.intn(n) < runs {
				cur = r.intn(nfd)
			}
			sel[i] = cur
		}
	case fdRandom:
		for i := range sel {
			sel[i] = r.intn(nfd)
		}
	case fdRoundRobin:
		off := r.intn(nfd)
		for i := range sel {
			sel[i] = (i + off) % nfd
		}
	case fdLastDiffers:
		c := r.intn(nfd)
		for i := range sel {
			sel[i] = c
		}
		sel[n-1] = (c + 1) % nfd
	}
	return sel
}

const (
	wEqual = iota
	wDominant
	wInts
	wFrac16
	wFloat
	wWide
	wBoundary
	wTwoClusters
	wFarCluster
	numWidthModes
)

func (s *fontSpec) expandWidths() []float64 {
	n := s.N
	r := &sm{s.WidthSeed}
	ws := make([]float64, n)
	base := s.WidthBase
	frac := func() float64 { return float64(r.intn(1000*65536)) / 65536 }
	for i := range ws {
		switch s.WidthMode {
		case wEqual:
			ws[i] = base
		case wDominant:
			ws[i] = base
			if r.intn(8) == 0 {
				ws[i] = float64(r.intn(2001))
			}
		case wInts:
			ws[i] = float64(r.intn(2001))
		case wFrac16:
			ws[i] = frac()
		case wFloat:
			ws[i] = float64(r.next()>>11) / (1 << 53) * 1000
		case wWide:
			ws[i] = float64(r.intn(32000*16+1))/16 - 16000
		case wBoundary:
			d := []float64{0, 0, 107, -107, 108, -108, 1131, -1131, 1132, -1132, 0.5, 106.99998, 1131.5}[r.intn(13)]
			ws[i] = base + d
			if math.Abs(ws[i]) >= 1000 && ws[i] != math.Trunc(ws[i]*16)/16 {
				ws[i] = math.Trunc(ws[i])
			}
		case wFarCluster:
			// widths far beyond the 16.16 range of a charstring operand, close
			// to each other: what a charstring stores is the difference to the
			// nominal width, a DICT number
			centre := []float64{40000, -40000, 100000, 32768, -32769, 1000000, -2000000}[int(s.WidthSeed%7)]
			ws[i] = centre + float64(r.intn(2001)) - 1000
			if r.intn(4) == 0 && math.Abs(centre) <= 40000 {
				// (the harness's own writers spell a fractional default or
				// nominal width with nine significant digits)
				ws[i] += float64(r.intn(16)) / 16
			}
		case wTwoClusters:
			if r.intn(2) == 0 {
				ws[i] = base
			} else {
				ws[i] = math.Trunc(base/2) + float64(r.intn(3))
			}
		}
	}
	return ws
}

func (s *fontSpec) expandPaths() [][][2]float64 {
	r := &sm{s.PathSeed}
	paths := make([][][2]float64, s.N)
	for i := range paths {
		if r.intn(100) >= s.PathPct {
			continue
		}
		x := float64(r.intn(1200) - 200)
		y := float64(r.intn(1200) - 200)
		if r.intn(4) == 0 {
			y = 0
		}
		if r.intn(6) == 0 {
			x = 0
		}
		p := [][2]float64{{x, y}}
		for k := 1 + r.intn(3); k > 0; k-- {
			dx := float64(r.intn(801) - 400)
			dy := float64(r.intn(801) - 400)
			switch r.intn(4) {
			case 0:
				dx = 0
			case 1:
				dy = 0
			}
			if dx == 0 && dy == 0 {
				dx = 1
			}
			x += dx
			y += dy
			p = append(p, [2]float64{x, y})
		}
		paths[i] = p
	}
	return paths
}

func (s *fontSpec) expand() *expanded {
	e := &expanded{}
	if s.CID {
		e.cids = s.expandCIDs()
		e.fdsel = s.expandFDSelect()
	} else {
		e.names = s.expandNames()
		e.enc = s.expandEncoding(e.names)
	}
	e.widths = s.expandWidths()
	e.paths = s.expandPaths()
	e.notice = s.Notice
	if s.NoticeRepeat > 1 {
		e.notice = strings.Repeat(s.Notice, s.NoticeRepeat)
	}
	return e
}

// build constructs the cff.Font described by the spec.
func (s *fontSpec) build(e *expanded) *cff.Font {
	info := &type1.FontInfo{
		FontName:           s.FontName,
		Version:            s.Version,
		Notice:             e.notice,
		Copyright:          s.Copyright,
		FullName:           s.FullName,
		FamilyName:         s.FamilyName,
		Weight:             s.Weight,
		ItalicAngle:        s.ItalicAngle,
		IsFixedPitch:       s.IsFixedPitch,
		UnderlinePosition:  funit.Float64(s.UnderlinePosition),
		UnderlineThickness: funit.Float64(s.UnderlineThickness),
		FontMatrix:         matrix.Matrix(s.FontMatrix),
	}
	o := &cff.Outlines{}
	for i := 0; i < s.N; i++ {
		name := ""
		if !s.CID {
			name = e.names[i]
		}
		g := cff.NewGlyph(name, e.widths[i])
		for k, p := range e.paths[i] {
			if k == 0 {
				g.MoveTo(p[0], p[1])
			} else {
				g.LineTo(p[0], p[1])
			}
		}
		o.Glyphs = append(o.Glyphs, g)
	}
	for _, p := range s.Privs {
		pd := &type1.PrivateDict{
			BlueScale: p.BlueScale,
			BlueShift: p.BlueShift,
			BlueFuzz:  p.BlueFuzz,
			StdHW:     p.StdHW,
			StdVW:     p.StdVW,
			ForceBold: p.ForceBold,
		}
		for _, v := range p.BlueValues {
			pd.BlueValues = append(pd.BlueValues, funit.Int16(v))
		}
		for _, v := range p.OtherBlues {
			pd.OtherBlues = append(pd.OtherBlues, funit.Int16(v))
		}
		o.Private = append(o.Private, pd)
	}
	if s.CID {
		o.ROS = &cid.SystemInfo{Registry: s.Registry, Ordering: s.Ordering, Supplement: s.Supplement}
		o.GIDToCID = make([]cid.CID, s.N)
		for i, c := range e.cids {
			o.GIDToCID[i] = cid.CID(c)
		}
		sel := e.fdsel
		o.FDSelect = func(gid glyph.ID) int { return sel[gid] }
		for _, m := range s.FontMatrices {
			o.FontMatrices = append(o.FontMatrices, matrix.Matrix(m))
		}
	} else {
		o.FDSelect = func(glyph.ID) int { return 0 }
		if e.enc != nil {
			o.Encoding = make([]glyph.ID, 256)
			for c, g := range e.enc {
				o.Encoding[c] = glyph.ID(g)
			}
		}
	}
	return &cff.Font{FontInfo: info, Outlines: o}
}

var defaultMatrix = ref.Matrix{0.001, 0, 0, 0.001, 0, 0}
var identityMatrix = ref.Matrix{1, 0, 0, 1, 0, 0}

// logical converts the spec into the reference model's description of what
// a CFF file for this font must contain.  All matrices are explicit.
func (s *fontSpec) logical(e *expanded) *ref.Font {
	L := &ref.Font{Name: s.FontName, IsCID: s.CID}
	tm := ref.Matrix(s.FontMatrix)
	L.Top = ref.Top{
		Version: s.Version, Notice: e.notice, Copyright: s.Copyright, FullName: s.FullName,
		FamilyName: s.FamilyName, Weight: s.Weight, IsFixedPitch: s.IsFixedPitch,
		ItalicAngle: s.ItalicAngle, UnderlinePosition: s.UnderlinePosition,
		UnderlineThickness: s.UnderlineThickness, FontMatrix: &tm,
	}
	for i, p := range s.Privs {
		fd := ref.FD{}
		pr := &fd.Private
		for _, v := range p.BlueValues {
			pr.BlueValues = append(pr.BlueValues, float64(v))
		}
		for _, v := range p.OtherBlues {
			pr.OtherBlues = append(pr.OtherBlues, float64(v))
		}
		pr.BlueScale = p.BlueScale
		pr.BlueShift = float64(p.BlueShift)
		pr.BlueFuzz = float64(p.BlueFuzz)
		if p.StdHW != 0 {
			v := p.StdHW
			pr.StdHW = &v
		}
		if p.StdVW != 0 {
			v := p.StdVW
			pr.StdVW = &v
		}
		pr.ForceBold = p.ForceBold
		if s.CID {
			m := ref.Matrix(s.FontMatrices[i])
			fd.FontMatrix = &m
		}
		L.FDs = append(L.FDs, fd)
	}
	if s.CID {
		L.ROS = ref.ROS{Registry: s.Registry, Ordering: s.Ordering, Supplement: float64(s.Supplement)}
		L.CIDs = e.cids
		L.FDSelect = e.fdsel
	} else {
		L.GlyphNames = e.names
		if e.enc == nil {
			L.Encoding = ref.PredefinedEncoding(0, e.names)
		} else {
			copy(L.Encoding[:], e.enc)
		}
	}
	L.Glyphs = make([]ref.Glyph, s.N)
	for i := range L.Glyphs {
		L.Glyphs[i] = ref.Glyph{Width: e.widths[i], Pts: e.paths[i]}
	}
	return L
}
