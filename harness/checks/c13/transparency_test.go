package c13

import (
	"fmt"
	"math"
	"sort"
	"testing"

	"pgregory.net/rapid"

	ref "verif/harness/ref/refcffwalk"
	"verif/harness/stats"
)

// altChoice is the serialisable description of one alternative encoding of a
// font: the options of the reference writer plus the seed that drives its
// fine-grained choices, the default/nominal widths per font dictionary and
// the uninterpreted operators added as noise.
type altChoice struct {
	HdrSize, HdrOffSize int
	OffSize             map[string]int
	CharsetFormat       int
	EncodingFormat      int
	SuppHigh            bool
	FDSelectFormat      int
	OmitDefaults        bool
	ExplicitWidths      bool
	CustomStd           bool
	ReverseStrings      bool
	JunkStrings         int
	Shuffle, Pad        bool
	Minimal             bool // Pick always returns 0 (shortest forms)
	PickSeed            uint64

	WidthMode  int // how defaultWidthX/nominalWidthX are chosen per FD
	WidthSeed  uint64
	Subrs      int // 0: no Subrs operator, 1: empty INDEX, 2: a few subroutines
	GSubrs     int // number of global subroutines
	Noise      bool
	OmitFDMatr bool // leave out Font DICT matrices equal to the TN5176 default

	RealForInts bool // integer-valued "number" operands may be spelled as reals
}

func genAlt() *rapid.Generator[*altChoice] {
	return rapid.Custom(func(t *rapid.T) *altChoice {
		a := &altChoice{OffSize: map[string]int{}}
		a.HdrSize = 4 + weighted(t, "hdrPad", 6, 1, 1, 0, 1)
		a.HdrOffSize = weighted(t, "hdrOffSize", 3, 1, 1, 1, 1)
		for _, n := range []string{"Name", "TopDICT", "String", "GlobalSubr", "CharStrings", "FDArray", "Subrs"} {
			a.OffSize[n] = weighted(t, "offSize-"+n, 3, 1, 2, 2, 2)
		}
		a.CharsetFormat = []int{0, 1, 2, 100, 101, 102}[weighted(t, "charsetFormat", 3, 3, 3, 2, 1, 1)]
		a.EncodingFormat = []int{0, 1, 100, 101}[weighted(t, "encodingFormat", 3, 3, 2, 2)]
		a.SuppHigh = rapid.Bool().Draw(t, "suppHigh")
		a.FDSelectFormat = []int{0, 3}[weighted(t, "fdSelectFormat", 1, 1)]
		a.OmitDefaults = rapid.Bool().Draw(t, "omitDefaults")
		a.ExplicitWidths = weighted(t, "explicitWidths", 3, 1) == 1
		a.CustomStd = weighted(t, "customStd", 3, 1) == 1
		a.ReverseStrings = rapid.Bool().Draw(t, "reverseStrings")
		a.JunkStrings = []int{0, 1, 3, 300}[weighted(t, "junkStrings", 6, 2, 2, 1)]
		a.Shuffle = rapid.Bool().Draw(t, "shuffle")
		a.Pad = weighted(t, "pad", 2, 1) == 1
		a.Minimal = weighted(t, "minimal", 5, 1) == 1
		a.PickSeed = rapid.Uint64().Draw(t, "pickSeed")
		a.WidthMode = weighted(t, "altWidthMode", 1, 2, 2, 2, 2)
		a.WidthSeed = rapid.Uint64().Draw(t, "altWidthSeed")
		a.Subrs = weighted(t, "subrs", 2, 2, 1)
		a.GSubrs = []int{0, 0, 1, 300}[weighted(t, "gsubrs", 2, 2, 1, 1)]
		a.Noise = rapid.Bool().Draw(t, "noise")
		a.OmitFDMatr = rapid.Bool().Draw(t, "omitFDMatrix")
		a.RealForInts = weighted(t, "realForInts", 3, 1) == 1
		return a
	})
}

func (a *altChoice) options() ref.Options {
	o := ref.Options{
		HdrSize: a.HdrSize, HdrOffSize: a.HdrOffSize, OffSize: a.OffSize,
		CharsetFormat: a.CharsetFormat, EncodingFormat: a.EncodingFormat, SuppHigh: a.SuppHigh,
		FDSelectFormat: a.FDSelectFormat, OmitDefaults: a.OmitDefaults, ExplicitWidths: a.ExplicitWidths,
		CustomStd: a.CustomStd, ReverseStrings: a.ReverseStrings, JunkStrings: a.JunkStrings,
		Shuffle: a.Shuffle, Pad: a.Pad, RealForInts: a.RealForInts,
	}
	if !a.Minimal {
		r := &sm{a.PickSeed}
		o.Pick = r.intn
	}
	return o
}

// apply turns the canonical logical font into the one that is written for
// this alternative: default/nominal widths, subroutines, noise operators,
// omitted default matrices.  It never changes what cff.Read must return.
func (a *altChoice) apply(s *fontSpec, L *ref.Font) {
	r := &sm{a.WidthSeed}
	// widths per font dictionary
	byFD := make([][]float64, len(L.FDs))
	for gid, g := range L.Glyphs {
		fd := 0
		if L.IsCID {
			fd = L.FDSelect[gid]
		}
		byFD[fd] = append(byFD[fd], g.Width)
	}
	for i := range L.FDs {
		p := &L.FDs[i].Private
		ws := byFD[i]
		lo, hi := 0.0, 0.0
		for k, w := range ws {
			if k == 0 || w < lo {
				lo = w
			}
			if k == 0 || w > hi {
				hi = w
			}
		}
		pickW := func() float64 {
			if len(ws) == 0 {
				return float64(r.intn(1000))
			}
			return ws[r.intn(len(ws))]
		}
		switch a.WidthMode {
		case 0: // both absent/zero
		case 1: // a width of the font as default, integer nominal inside the range
			p.DefaultWidthX = pickW()
			p.NominalWidthX = math.Round(lo + (hi-lo)*float64(r.intn(101))/100)
		case 2: // fractional nominal and default
			p.DefaultWidthX = pickW()
			// a multiple of 1/16: exact in the nine significant digits that a
			// real operand is guaranteed to keep (|value| < 100000)
			p.NominalWidthX = math.Round((lo+(hi-lo)*float64(r.intn(1<<20))/(1<<20))*16)/16 + float64(r.intn(16))/16
		case 3: // unrelated values
			p.DefaultWidthX = float64(r.intn(4001)-2000) / 4
			p.NominalWidthX = math.Round(lo) + float64(r.intn(2265)-1132)
		case 4: // default that no glyph has, nominal = some width
			p.DefaultWidthX = hi + 1 + float64(r.intn(100))
			p.NominalWidthX = pickW()
		}
		if math.Abs(p.NominalWidthX) >= 99999 {
			// beyond that a multiple of 1/16 needs more than nine digits
			p.NominalWidthX = math.Round(p.NominalWidthX)
		}
		if math.Abs(p.DefaultWidthX) >= 99999 {
			p.DefaultWidthX = math.Round(p.DefaultWidthX)
		}
		for _, w := range ws {
			if math.Abs(w-p.NominalWidthX) > 32000 {
				// width minus nominal width must fit a 16.16 number
				p.NominalWidthX = math.Round((lo + hi) / 2)
				break
			}
		}
		switch a.Subrs {
		case 1:
			p.HasSubrs = true
		case 2:
			p.HasSubrs = true
			for k := 0; k < 1+r.intn(4); k++ {
				p.Subrs = append(p.Subrs, []byte{11}) // return
			}
		}
		if a.Noise {
			p.Extra = append(p.Extra,
				ref.Entry{Op: ref.OpStemSnapH, Args: []float64{40, 52.5, 61}},
				ref.Entry{Op: ref.OpLanguageGroup, Args: []float64{float64(r.intn(2))}},
				ref.Entry{Op: ref.OpExpansionFactor, Args: []float64{0.06}},
				ref.Entry{Op: ref.OpInitialRandomSeed, Args: []float64{float64(int32(r.next()))}},
				ref.Entry{Op: ref.OpFamilyBlues, Args: []float64{-15, 0, 700, 715}},
			)
		}
		if L.IsCID {
			fd := &L.FDs[i]
			if a.OmitFDMatr && fd.FontMatrix != nil && *fd.FontMatrix == defaultMatrix {
				fd.FontMatrix = nil
			}
			if a.Noise && r.intn(2) == 0 {
				fd.FontName = fmt.Sprintf("%s-FD%d", s.FontName, i)
				fd.Extra = append(fd.Extra, ref.Entry{Op: ref.OpPaintType, Args: []float64{0}})
			}
		}
	}
	for k := 0; k < a.GSubrs; k++ {
		L.GlobalSubrs = append(L.GlobalSubrs, []byte{11})
	}
	if !L.IsCID && a.OmitDefaults && L.Top.FontMatrix != nil && *L.Top.FontMatrix == defaultMatrix {
		// the Top DICT default of TN5176; for CID-keyed fonts the library
		// gives an absent Top DICT matrix its own meaning (identity), so the
		// matrix is always written there
		L.Top.FontMatrix = nil
	}
	if a.Noise {
		maxCID := 0
		for _, c := range L.CIDs {
			if c > maxCID {
				maxCID = c
			}
		}
		L.Top.Extra = append(L.Top.Extra,
			ref.Entry{Op: ref.OpFontBBox, Args: []float64{-166.5, -225, 1000, 931}},
			ref.Entry{Op: ref.OpUniqueID, Args: []float64{float64(int32(r.next()))}},
			ref.Entry{Op: ref.OpXUID, Args: []float64{1, 11, float64(r.intn(1 << 30))}},
			ref.Entry{Op: ref.OpStrokeWidth, Args: []float64{0.5}},
			ref.Entry{Op: ref.OpPaintType, Args: []float64{0}},
		)
		if L.IsCID {
			L.Top.Extra = append(L.Top.Extra,
				ref.Entry{Op: ref.OpCIDCount, Args: []float64{float64(maxCID + 1)}},
				ref.Entry{Op: ref.OpCIDFontVersion, Args: []float64{1.25}},
				ref.Entry{Op: ref.OpCIDFontType, Args: []float64{0}},
			)
		}
	}
}

// widthsRepresentable reports whether every width minus its nominal width
// fits a 16.16 charstring number.
func widthsRepresentable(L *ref.Font) bool {
	for gid, g := range L.Glyphs {
		fd := 0
		if L.IsCID {
			fd = L.FDSelect[gid]
		}
		if d := g.Width - L.FDs[fd].Private.NominalWidthX; math.Abs(d) > 32000 {
			return false
		}
	}
	return true
}

// altCase writes one alternative encoding, validates it with the walker
// (self-check of the model) and lets cff.Read decode it.
func altCase(s *fontSpec, e *expanded, a *altChoice) (err error, labels []string, data []byte, lay *ref.Layout) {
	L := s.logical(e)
	a.apply(s, L)
	if !widthsRepresentable(L) {
		panic("harness: alternative width choice not representable")
	}
	data, trace := ref.Write(L, a.options())
	fail := func(format string, x ...any) error {
		return fmt.Errorf("%s\n  alternative: %+v\n  writer choices: %s\n  bytes: %s", fmt.Sprintf(format, x...), *a, trace,
			dump("c13-alternative-last-failure.cff", data))
	}
	// the model must agree with itself before it may judge the library
	parsed, perr := ref.Parse(data)
	if perr != nil {
		return fail("HARNESS BUG: reference walker rejects the reference writer's file: %v", perr), nil, nil, nil
	}
	// (beyond 1e300 a rounded spelling may overflow to infinity; the reader
	// under test clamps all of that to 1e300 anyway)
	selfEq := func(want, got float64) bool {
		return ref.Close9(want, got) || (math.Abs(want) > 1e300 && math.Abs(got) > 1e300 && (want > 0) == (got > 0))
	}
	if msg := ref.Diff(L, parsed.Font, ref.DiffOptions{Extra: true, WidthXOps: true, RealEq: selfEq}); msg != "" {
		return fail("HARNESS BUG: reference walker and writer disagree: %s", msg), nil, nil, nil
	}
	g, rerr := readFont(s, data)
	if rerr != nil {
		return fail("valid CFF file rejected: %v", rerr), nil, nil, nil
	}
	if msg, _ := compareRead(s, e, g, false); msg != "" {
		return fail("cff.Read of an alternative encoding differs from the font: %s", msg), nil, nil, nil
	}
	ll, _ := layoutLabels(&parsed.Layout)
	if a.Shuffle {
		ll = append(ll, "sections-permuted")
	}
	if a.Pad || a.HdrSize > 4 {
		ll = append(ll, "padding")
	}
	if a.Noise {
		ll = append(ll, "noise-operators")
	}
	if a.Subrs == 2 || a.GSubrs > 0 {
		ll = append(ll, "subroutines-present")
	}
	ll = append(ll, fmt.Sprintf("alt-widths-mode=%d", a.WidthMode))
	return nil, ll, data, &parsed.Layout
}

func TestC13Transparency(t *testing.T) {
	rapid.Check(t, func(t *rapid.T) {
		s := genSpec(true).Draw(t, "font")
		e := s.expand()
		n := 3
		if s.N > 3000 {
			n = 1
		}
		labelSet := map[string]bool{}
		nt := false
		var fps []any
		for k := 0; k < n; k++ {
			a := genAlt().Draw(t, fmt.Sprintf("alt%d", k))
			err, ll, data, lay := altCase(s, e, a)
			if err != nil {
				t.Fatalf("%v\n  font: %s", err, clipJSON(s))
			}
			for _, l := range ll {
				labelSet[l] = true
			}
			big := false
			for _, sz := range lay.OffSize {
				big = big || sz >= 2
			}
			nt = nt || nontrivial(s, e, lay, big)
			fps = append(fps, data)
		}
		for _, l := range s.labels(e) {
			labelSet[l] = true
		}
		labels := make([]string, 0, len(labelSet))
		for l := range labelSet {
			labels = append(labels, l)
		}
		sort.Strings(labels)
		stats.CaseIn("transparency", stats.Hash(fps...), nt, func() string { return clipJSON(s) }, labels...)
	})
}
