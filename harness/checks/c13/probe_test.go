package c13

import (
	"bytes"
	"fmt"
	"testing"
	"time"

	"seehuhn.de/go/geom/matrix"
	"seehuhn.de/go/postscript/type1"
	"seehuhn.de/go/sfnt/cff"
	"seehuhn.de/go/sfnt/glyph"
)

func mk() *cff.Font {
	f := &cff.Font{
		FontInfo: &type1.FontInfo{FontName: "Test", FontMatrix: matrix.Matrix{0.001, 0, 0, 0.001, 0, 0}},
		Outlines: &cff.Outlines{
			Private:  []*type1.PrivateDict{{BlueScale: 0.039625, BlueShift: 7, BlueFuzz: 1}},
			FDSelect: func(glyph.ID) int { return 0 },
		},
	}
	f.Glyphs = append(f.Glyphs, cff.NewGlyph(".notdef", 500), cff.NewGlyph("A", 500))
	f.Encoding = make([]glyph.ID, 256)
	f.Encoding[65] = 1
	return f
}

func TestProbe(t *testing.T) {
	for _, x := range []float64{1e-300, 1e-310, 1e-320, 5e-324, 1.7e308, 1e300, 123456789.5e-20} {
		f := mk()
		f.FontMatrix[0] = 0.002; f.FontMatrix[1] = x
		done := make(chan string, 1)
		go func() {
			var buf bytes.Buffer
			err := f.Write(&buf)
			if err != nil {
				done <- "write: " + err.Error()
				return
			}
			g, err := cff.Read(bytes.NewReader(buf.Bytes()))
			if err != nil {
				done <- "read: " + err.Error()
				return
			}
			done <- fmt.Sprint(g.FontMatrix, " nominal? ", buf.Len())
		}()
		select {
		case s := <-done:
			fmt.Println(x, "->", s)
		case <-time.After(2 * time.Second):
			fmt.Println(x, "-> HANG")
		}
	}
}
