package c13

import (
	"testing"
	"time"

	ref "verif/harness/ref/refcffwalk"
)

// Plain regression tests: one per defect found by the C13 checks (see
// /verif/proposed-fixes/C13-notes.md).  Each fails on the pinned tree and
// passes with the corresponding diff applied.

// baseSpec is a minimal name-keyed font: .notdef + "A", default everything.
func baseSpec() *fontSpec {
	return &fontSpec{
		N: 2, FontName: "Regress",
		UnderlinePosition: -100, UnderlineThickness: 50,
		FontMatrix: [6]float64{0.001, 0, 0, 0.001, 0, 0},
		NameMode:   nameStdRuns, EncMode: encNil,
		Privs:     []privSpec{{BlueScale: 0.039625, BlueShift: 7, BlueFuzz: 1}},
		WidthMode: wEqual, WidthBase: 500,
	}
}

func baseCIDSpec() *fontSpec {
	s := baseSpec()
	s.CID = true
	s.Registry, s.Ordering = "Adobe", "Identity"
	s.FontMatrix = [6]float64{1, 0, 0, 1, 0, 0}
	s.FontMatrices = [][6]float64{{0.001, 0, 0, 0.001, 0, 0}}
	return s
}

func mustRoundTrip(t *testing.T, s *fontSpec) {
	t.Helper()
	if err, _, _, _ := roundTrip(s); err != nil {
		t.Fatalf("%v\n  font: %s", err, s.JSON())
	}
}

// UnderlinePosition/UnderlineThickness were written as int32(x).
func TestC13RegressUnderlineFraction(t *testing.T) {
	s := baseSpec()
	s.UnderlinePosition = -75.5
	s.UnderlineThickness = 49.25
	mustRoundTrip(t, s)
}

// encodeFloat looped forever for subnormal numbers below about 1e-315 and
// wrote wrong digits for the other magnitudes below 1e-300.
func TestC13RegressTinyReal(t *testing.T) {
	for _, x := range []float64{1e-310, 1e-320, 5e-324} {
		s := baseSpec()
		s.FontMatrix = [6]float64{0.002, x, 0, 0.002, 0, 0}
		done := make(chan error, 1)
		go func() {
			err, _, _, _ := roundTrip(s)
			done <- err
		}()
		select {
		case err := <-done:
			if err != nil {
				t.Fatalf("%v\n  font: %s", err, s.JSON())
			}
		case <-time.After(20 * time.Second):
			t.Fatalf("(*cff.Font).Write does not return for a font matrix entry of %g\n  font: %s", x, s.JSON())
		}
	}
}

// normaliseAngle added rounding noise of about 6e-14 to every angle.
func TestC13RegressItalicAngleNoise(t *testing.T) {
	for _, a := range []float64{3.814697265625e-05, 1e-9, -2.5e-7} {
		s := baseSpec()
		s.ItalicAngle = a
		mustRoundTrip(t, s)
	}
}

// BlueScale within 1e-6 of the default was replaced by the default.
func TestC13RegressBlueScaleNearDefault(t *testing.T) {
	s := baseSpec()
	s.Privs[0].BlueScale = 0.0396251
	mustRoundTrip(t, s)
}

// Differences between consecutive blue values wrapped at 16 bits, so that
// the file (as seen by any other reader) held different values.
func TestC13RegressBluesDeltaWrap(t *testing.T) {
	s := baseSpec()
	s.Privs[0].OtherBlues = []int16{-32768, 0}
	s.Privs[0].BlueValues = []int16{-20000, 20000}
	mustRoundTrip(t, s)
}

// A FontMatrix whose operands are (partly) stored as integers was ignored.
func TestC13RegressMatrixIntegerOperands(t *testing.T) {
	for _, cidKeyed := range []bool{false, true} {
		s := baseSpec()
		if cidKeyed {
			s = baseCIDSpec()
			s.FontMatrices[0] = [6]float64{0.0005, 0, 0, 0.0005, 0, 0}
			s.FontMatrix = [6]float64{2, 0, 0, 2, 10, 0}
		} else {
			s.FontMatrix = [6]float64{0.00048828125, 0, 0, 0.00048828125, 0, 0} // 1/2048 with integer zeros
		}
		e := s.expand()
		a := &altChoice{Minimal: true, OffSize: map[string]int{}, FDSelectFormat: 3}
		if err, _, _, _ := altCase(s, e, a); err != nil {
			t.Fatalf("%v\n  font: %s", err, s.JSON())
		}
	}
}

// Integer-valued operands stored in the real number format (BlueShift,
// BlueFuzz, blue arrays, ROS supplement) were ignored or rejected.
func TestC13RegressRealSpelledIntegers(t *testing.T) {
	s := baseCIDSpec()
	s.Supplement = 3
	s.Privs[0] = privSpec{BlueValues: []int16{-15, 0, 700, 715}, OtherBlues: []int16{-250, -240},
		BlueScale: 0.039625, BlueShift: 9, BlueFuzz: 0, StdHW: 50, ForceBold: true}
	e := s.expand()
	L := s.logical(e)
	// every choice of the writer takes its last alternative: integers that
	// may be written as reals are written as reals
	data, trace := ref.Write(L, ref.Options{RealForInts: true, Pick: func(n int) int { return n - 1 }})
	p, err := ref.Parse(data)
	if err != nil {
		t.Fatalf("HARNESS BUG: %v", err)
	}
	if p.Layout.Reals < 8 {
		t.Fatalf("HARNESS BUG: only %d real operands (%s)", p.Layout.Reals, trace)
	}
	g, err := readFont(s, data)
	if err != nil {
		t.Fatalf("%v\n  bytes: %x", err, data)
	}
	if msg, _ := compareRead(s, e, g, false); msg != "" {
		t.Fatalf("cff.Read of a file with real-spelled integers differs from the font: %s\n  bytes: %x", msg, data)
	}
}

// Charset entries (SIDs, CIDs) beyond 16 bits were truncated silently.
func TestC13RegressCharsetRange(t *testing.T) {
	for _, c := range []*limitCase{
		{Kind: limCIDTooLarge, N: 3, Where: 2, Value: 65536 + 7},
		{Kind: limTooManyStrings, N: 65147},
	} {
		if _, err := runLimit(c); err != nil {
			t.Fatalf("%s %+v: %v", limNames[c.Kind], *c, err)
		}
	}
}

// More than 256 private dictionaries, FDSelect values outside the Private
// array and more than 65535 glyphs were not refused.
func TestC13RegressWriteLimits(t *testing.T) {
	for _, c := range []*limitCase{
		{Kind: limTooManyPrivate, N: 1, Value: 257},
		{Kind: limFDIndexTooLarge, N: 3, Where: 1, Value: 258},
		{Kind: limTooManyGlyphs, N: 65537},
	} {
		outcome, err := runLimit(c)
		if err != nil {
			t.Fatalf("%s %+v: %v", limNames[c.Kind], *c, err)
		}
		if outcome != "refused-by-error" {
			t.Fatalf("%s %+v: %s, want an error from Write", limNames[c.Kind], *c, outcome)
		}
	}
}

// All 256 codes in use for glyphs 1..256 with every glyph a range of its own
// (a shuffled encoding): "cff: too many segments" instead of a main table of
// 255 codes plus one supplemental code.
func TestC13RegressEncoding256Runs(t *testing.T) {
	for _, seed := range []uint64{1, 2, 12345} {
		s := baseSpec()
		s.N = 300
		s.NameMode = nameCustom
		s.EncMode, s.EncCount, s.EncSeed = encShuffled, 256, seed
		mustRoundTrip(t, s)
	}
}
